(* C01: needSpaceBeforeDot is set exactly when the printed number is a bare run
   of digits (so that "1 .toString()" keeps its space and "1e3.toString()",
   "0x10.toString()", ".5.toString()" need none). *)
From V Require Import Common.Base C01.Num C01.SpecNumeric C01.NumProofs C01.NumProofs2.

Definition lowalpha (c : Z) : Prop := (48 <= c <= 57) \/ c = 46 \/ c = 101 \/ c = 43 \/ c = 45.
Definition la (l : bytes) : Prop := Forall lowalpha l.

Lemma la_app a b : la (a ++ b) <-> la a /\ la b. Proof. apply Forall_app. Qed.
Lemma la_digs l : digs l -> la l.
Proof. intros H. eapply Forall_impl; [|exact H]. intros c Hc. left. exact Hc. Qed.

Lemma split_first_la c : forall l a b, la l -> split_first c l = Some (a, b) -> la a /\ la b.
Proof.
  induction l as [|x r IH]; intros a b Hl H; [discriminate|]. inversion Hl as [|? ? Hx Hr]; subst.
  cbn [split_first] in H. destruct (x =? c).
  - inversion H; subst. split; [constructor|exact Hr].
  - destruct (split_first c r) as [[a' b']|] eqn:E; [|discriminate]. inversion H; subst.
    destruct (IH a' b Hr eq_refl) as [I1 I2]. split; [constructor; assumption|exact I2].
Qed.
Lemma split_last_la c : forall l a b, la l -> split_last c l = Some (a, b) -> la a /\ la b.
Proof.
  induction l as [|x r IH]; intros a b Hl H; [discriminate|]. inversion Hl as [|? ? Hx Hr]; subst.
  cbn [split_last] in H. destruct (split_last c r) as [[a' b']|] eqn:E.
  - inversion H; subst. destruct (IH a' b Hr eq_refl) as [I1 I2]. split; [constructor; assumption|exact I2].
  - destruct (x =? c); [|discriminate]. inversion H; subst. split; [constructor|exact Hr].
Qed.
Lemma strip0_la l : la l -> la (strip0 l).
Proof.
  intros H. destruct (strip0_spec l) as [k [E _]]. rewrite E in H. apply la_app in H. tauto.
Qed.
Lemma span0_la l : la l -> la (fst (span0 l)) /\ la (snd (span0 l)).
Proof.
  intros H. pose proof (span0_spec l) as S. destruct (span0 l) as [z t]. destruct S as [E _].
  rewrite E in H. apply la_app in H. exact H.
Qed.
Lemma rev_la l : la l -> la (rev l). Proof. apply Forall_rev. Qed.
Lemma repeat_la k : la (repeat 48 k). Proof. apply la_digs, digs_repeat. Qed.

Lemma digits_fuel_la : forall fuel n acc, la acc -> la (digits_fuel fuel n acc).
Proof.
  induction fuel as [|f IH]; intros n acc Ha; [exact Ha|]. cbn [digits_fuel].
  assert (H : la ((48 + n mod 10) :: acc)) by (constructor; [left; lia|exact Ha]).
  destruct (n / 10 =? 0); [exact H|apply IH; exact H].
Qed.
Lemma small_la n : la (smallIntToBytes n).
Proof.
  unfold smallIntToBytes, nat_digits. destruct (n <? 0).
  - constructor; [right; right; right; right; reflexivity|apply digits_fuel_la; constructor].
  - apply digits_fuel_la; constructor.
Qed.

Lemma simplify_exponent_la l : la l -> la (simplify_exponent l).
Proof.
  intros H. unfold simplify_exponent. destruct (split_last 101 l) as [[m ex]|] eqn:E; [|exact H].
  destruct (split_last_la 101 l m ex H E) as [Hm Hex].
  assert (He : la [101]) by (constructor; [right; right; left; reflexivity|constructor]).
  assert (Hme : la [101; 45]) by (constructor; [right; right; left; reflexivity|constructor; [right; right; right; right; reflexivity|constructor]]).
  destruct ex as [|c r]; [apply la_app; split; [exact Hm|apply la_app; split; [exact He|constructor]]|].
  inversion Hex as [|? ? Hc Hr]; subst.
  assert (G : la (m ++ [101] ++ strip0 (c :: r))).
  { apply la_app; split; [exact Hm|apply la_app; split; [exact He|apply strip0_la; exact Hex]]. }
  destruct (Z.eq_dec c 43) as [->|N1].
  { apply la_app; split; [exact Hm|apply la_app; split; [exact He|apply strip0_la; exact Hr]]. }
  destruct (Z.eq_dec c 45) as [->|N2].
  { apply la_app; split; [exact Hm|apply la_app; split; [exact Hme|apply strip0_la; exact Hr]]. }
  assert (Em : forall (A : Type) (x y z : A), match c :: r with 43 :: _ => x | 45 :: _ => y | _ => z end = z).
  { intros. destruct c as [|p|p]; try reflexivity. do 6 (destruct p as [p|p|]; try reflexivity); congruence. }
  cbn [app] in *. rewrite Em. exact G.
Qed.

Lemma shorten_la mw s : la s -> la (shorten mw s).
Proof.
  intros Hs. unfold shorten. pose proof (simplify_exponent_la s Hs) as Hr.
  set (result := simplify_exponent s) in *.
  assert (He : la [101]) by (constructor; [right; right; left; reflexivity|constructor]).
  destruct (split_first 46 result) as [[integer rest]|] eqn:E1.
  - destruct (split_first_la 46 result integer rest Hr E1) as [Hi Hrest].
    destruct (zlist_eqb integer [48]).
    + assert (H1 : la (if mw then 46 :: rest else result)).
      { destruct mw; [constructor; [right; left; reflexivity|exact Hrest]|exact Hr]. }
      destruct rest as [|c r]; [exact H1|].
      destruct (span0_la (c :: r) Hrest) as [S1 S2]. destruct (span0 (c :: r)) as [zs remaining]. cbn [fst snd] in *.
      assert (G : la (if len remaining + 1 + len (smallIntToBytes (- len (c :: r))) <? len (if mw then 46 :: c :: r else result)
                      then remaining ++ [101] ++ smallIntToBytes (- len (c :: r)) else (if mw then 46 :: c :: r else result))).
      { destruct (_ <? _); [|exact H1]. apply la_app; split; [exact S2|apply la_app; split; [exact He|apply small_la]]. }
      destruct c as [|p|p]; try exact H1. do 6 (destruct p as [p|p|]; try exact H1). exact G.
    + destruct (split_last 101 rest) as [[fraction expstr]|] eqn:E2; [|exact Hr].
      destruct (split_last_la 101 rest fraction expstr Hrest E2) as [Hf _].
      destruct ((0 <=? _) && (_ <=? 2)).
      * destruct (_ <=? _); [|exact Hr]. apply la_app; split; [exact Hi|apply la_app; split; [exact Hf|apply repeat_la]].
      * destruct (_ <=? _); [|exact Hr].
        apply la_app; split; [exact Hi|apply la_app; split; [exact Hf|apply la_app; split; [exact He|apply small_la]]].
  - destruct (last_is_zero result); [|exact Hr].
    destruct (span0_la (rev result) (rev_la _ Hr)) as [S1 S2]. destruct (span0 (rev result)) as [z t]. cbn [fst snd] in *.
    destruct (_ <? _); [|exact Hr].
    apply la_app; split; [apply rev_la; exact S2|apply la_app; split; [exact He|apply small_la]].
Qed.

Lemma float_text_la s : float_text s -> la s.
Proof.
  assert (P46 : lowalpha 46) by (right; left; reflexivity).
  assert (P101 : lowalpha 101) by (right; right; left; reflexivity).
  assert (Sg : forall sg, la (sign_bytes sg)).
  { destruct sg; cbn [sign_bytes]; [constructor|constructor; [right; right; right; left; reflexivity|constructor]|constructor; [right; right; right; right; reflexivity|constructor]]. }
  intros [H|[H|[H|[H|H]]]].
  - destruct H as [H _]. apply la_digs. exact H.
  - destruct H as [ip [fp [-> [H1 [_ [_ [_ H2]]]]]]]. apply la_app; split; [apply la_digs; exact H1|constructor; [exact P46|apply la_digs; exact H2]].
  - destruct H as [ip [fp [sg [ex [-> [H1 [_ [_ [_ [H2 [H3 _]]]]]]]]]]].
    apply la_app; split; [apply la_digs; exact H1|]. constructor; [exact P46|].
    apply la_app; split; [apply la_digs; exact H2|]. constructor; [exact P101|].
    apply la_app; split; [apply Sg|apply la_digs; exact H3].
  - destruct H as [fp [-> [H1 _]]]. constructor; [left; lia|constructor; [exact P46|apply la_digs; exact H1]].
  - destruct H as [ip [sg [ex [-> [H1 [_ [_ [H2 _]]]]]]]].
    apply la_app; split; [apply la_digs; exact H1|]. constructor; [exact P101|].
    apply la_app; split; [apply Sg|apply la_digs; exact H2].
Qed.

(* a NumericLiteral over the lower-case alphabet without . e x is a run of digits *)
Lemma mv_no_dot_e_digits out a :
  la out -> mv out = Some a -> contains_any_dot_e_x out = false -> forallb dig out = true.
Proof.
  intros Hl Hm Hc.
  assert (Hn : forall c, In c out -> c <> 46 /\ c <> 101 /\ c <> 120).
  { intros c Hin. unfold contains_any_dot_e_x in Hc.
    assert (E : existsb (fun c0 => (c0 =? 46) || (c0 =? 101) || (c0 =? 120)) out = false) by exact Hc.
    destruct ((c =? 46) || (c =? 101) || (c =? 120)) eqn:Ec; [|lia].
    exfalso. assert (existsb (fun c0 => (c0 =? 46) || (c0 =? 101) || (c0 =? 120)) out = true) by (apply existsb_exists; exists c; auto).
    congruence. }
  (* mv = mv_dec: a second character x/X would be 120 or upper case *)
  assert (Hd : mv out = mv_dec out).
  { apply mv_is_dec. intros x h E. subst out. split.
    - destruct (Hn x (or_intror (or_introl eq_refl))) as [_ [_ H]]. exact H.
    - inversion Hl as [|? ? _ Hl']; subst. inversion Hl' as [|? ? Hx _]; subst. unfold lowalpha in Hx. lia. }
  rewrite Hd in Hm. unfold mv_dec in Hm.
  pose proof (take_digits_spec out) as Ht. destruct (take_digits out) as [ip r]. destruct Ht as [E Hip].
  destruct r as [|c r'].
  - rewrite app_nil_r in E. subst. apply forallb_forall. intros x Hx. unfold digs in Hip.
    rewrite Forall_forall in Hip. specialize (Hip x Hx). unfold dig. lia.
  - exfalso. assert (Hin : In c out) by (rewrite E; apply in_or_app; right; left; reflexivity).
    destruct (Hn c Hin) as [N1 [N2 _]].
    assert (Hlc : lowalpha c) by (unfold la in Hl; rewrite Forall_forall in Hl; apply Hl; exact Hin).
    destruct (negb (int_part_ok ip)); [discriminate|].
    assert (Ex : exponent_part (c :: r') = None).
    { unfold exponent_part. destruct ((c =? 101) || (c =? 69)) eqn:Ec; [|reflexivity].
      unfold lowalpha in Hlc. lia. }
    assert (G : match c :: r' with
                | 46 :: r1 => let '(fp, r2) := take_digits r1 in
                    match ip, fp with [], [] => None | _, _ =>
                      match exponent_part r2 with Some e => Some (digits_value (ip ++ fp) 0, e - Z.of_nat (length fp)) | None => None end end
                | _ => match ip with [] => None | _ :: _ =>
                      match exponent_part (c :: r') with Some e => Some (digits_value ip 0, e) | None => None end end
                end = None).
    { destruct c as [|p|p]; try (rewrite Ex; destruct ip; reflexivity).
      do 6 (destruct p as [p|p|]; try (rewrite Ex; destruct ip; reflexivity)). congruence. }
    rewrite G in Hm. discriminate.
Qed.

Lemma contains_not_digits out : contains_any_dot_e_x out = true -> forallb dig out = false.
Proof.
  unfold contains_any_dot_e_x. intros H. apply existsb_exists in H as [c [Hin Hc]].
  destruct (forallb dig out) eqn:E; [|reflexivity]. rewrite forallb_forall in E. specialize (E c Hin). unfold dig in E. lia.
Qed.

Lemma digs_forallb l : digs l -> forallb dig l = true.
Proof. intros H. apply forallb_forall. intros x Hx. unfold digs in H. rewrite Forall_forall in H. specialize (H x Hx). unfold dig. lia. Qed.

Lemma shorten_dot_flag_all mw bits s :
  0 <= bits -> float_text s ->
  snd (printNonNegativeFloat mw bits s) = forallb dig (fst (printNonNegativeFloat mw bits s)).
Proof.
  intros Hb Hf.
  assert (Hsh : negb (contains_any_dot_e_x (shorten mw s)) = forallb dig (shorten mw s)).
  { destruct (shorten_value_all mw s Hf) as [a [b [Ha _]]].
    destruct (contains_any_dot_e_x (shorten mw s)) eqn:Ec; cbn [negb].
    - symmetry. apply contains_not_digits. exact Ec.
    - symmetry. apply (mv_no_dot_e_digits _ a); [apply shorten_la, float_text_la; exact Hf|exact Ha|exact Ec]. }
  unfold printNonNegativeFloat. destruct (float_int bits) as [v|] eqn:Ev; [|cbn [fst snd]; exact Hsh].
  pose proof (float_int_nonneg bits v Hb Ev) as Hv.
  destruct (v <? 1000) eqn:E1.
  - cbn [fst snd]. symmetry. apply digs_forallb. apply small_digs. lia.
  - cbn [fst snd]. destruct (mw && (1000000000000 <=? v) && (v <=? 18446744073709549568)); [|exact Hsh].
    destruct (2 + len (to_hex v) <? len (shorten mw s)); [|exact Hsh].
    cbn [app]. reflexivity.
Qed.
