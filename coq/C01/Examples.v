From V Require Import Common.Base C01.Utf C01.Quote C01.SpecLiteral.
(* non-vacuity / sanity: concrete values *)
Example quoted_ex :
  print_quoted (mkQ false true true 0 false true) true false []
    [104; 0; 49; 39; 34; 96; 36; 123; 60; 47; 83; 99; 114; 105; 112; 116; 8232; 55357; 56832; 55357; 233; 10; 13]
  = [34; 104; 92; 120; 48; 48; 49; 39; 92; 34; 96; 36; 123; 60; 92; 47; 83; 99; 114; 105; 112; 116;
     92; 117; 50; 48; 50; 56; 240; 159; 152; 128; 92; 117; 68; 56; 51; 68; 195; 169; 92; 110; 92; 114; 34].
Proof. vm_compute. reflexivity. Qed.
