From V Require Import Common.Base C01.Utf C01.Quote C01.SpecLiteral C01.QuoteProofs.
From V Require Import C01.Num C01.SpecNumeric C01.NumProofs.
(* non-vacuity / sanity: concrete non-trivial values meeting each theorem's hypotheses *)

Definition ex_units := [104; 0; 49; 39; 34; 96; 36; 123; 60; 47; 83; 99; 114; 105; 112; 116; 8232; 55357; 56832; 55357; 233; 10; 13].
Example ex_units_u16 : all_u16 ex_units.
Proof. unfold all_u16, ex_units. repeat constructor; lia. Qed.

Example quoted_ex :
  print_quoted (mkQ false true true 0 false true) true false [] ex_units
  = [34; 104; 92; 120; 48; 48; 49; 39; 92; 34; 96; 36; 123; 60; 92; 47; 83; 99; 114; 105; 112; 116;
     92; 117; 50; 48; 50; 56; 240; 159; 152; 128; 92; 117; 68; 56; 51; 68; 195; 169; 92; 110; 92; 114; 34].
Proof. vm_compute. reflexivity. Qed.

(* ASCII only, no \u{...}, line limit 10, templates unsupported: wraps and escapes *)
Example quoted_ascii_ex :
  literal_value (print_quoted (mkQ true false true 10 false false) true false [1; 2; 3] ex_units) = Some ex_units
  /\ forallb (fun b => b <? 128) (print_quoted (mkQ true false true 10 false false) true false [1; 2; 3] ex_units) = true.
Proof. vm_compute. split; reflexivity. Qed.

(* the quote chooser picks a backtick, and `${` is escaped *)
Example backtick_ex :
  print_quoted (mkQ false true true 0 false true) true false [] [34; 34; 39; 39; 36; 123]
  = [96; 34; 34; 39; 39; 92; 36; 123; 96].
Proof. vm_compute. reflexivity. Qed.

(* the specification rejects what it must *)
Example spec_rejects :
  map literal_value [[39; 92; 49; 39]; [39; 92; 48; 49; 39]; [34; 10; 34]; [96; 36; 123; 96]; [39; 92; 117; 123; 49; 49; 48; 48; 48; 48; 125; 39]; [39; 237; 160; 128; 39]]
  = [None; None; None; None; None; None].
Proof. vm_compute. reflexivity. Qed.
Example spec_accepts :
  map literal_value [[39; 92; 48; 39]; [96; 13; 10; 96]; [34; 226; 128; 168; 34]; [39; 92; 13; 10; 97; 39]; [96; 36; 36; 96]]
  = [Some [0]; Some [10]; Some [8232]; Some [97]; Some [36; 36]].
Proof. vm_compute. reflexivity. Qed.

(* numbers *)
Example shorten_ex :
  map (shorten true) [[49; 101; 43; 50; 49]; [48; 46; 48; 48; 48; 49]; [48; 46; 53]; [49; 46; 50; 101; 43; 50; 52]; [49; 48; 48; 48]; [49; 46; 53; 101; 45; 48; 55]; [49; 46; 50; 101; 43; 48; 49]]
  = [[49; 101; 50; 49]; [49; 101; 45; 52]; [46; 53]; [49; 50; 101; 50; 51]; [49; 101; 51]; [49; 53; 101; 45; 56]; [49; 50]].
Proof. vm_compute. reflexivity. Qed.

Example form_dot_exp_ex : form_dot_exp [49; 46; 50; 101; 43; 50; 52].
Proof.
  exists [49], [50], SgPlus, [50; 52]. repeat split; try reflexivity; try discriminate;
    try (repeat constructor; lia); vm_compute; congruence.
Qed.
Example form_int_ex : form_int [49; 48; 48; 48].
Proof. repeat split; try reflexivity; try discriminate; try (repeat constructor; lia). Qed.

(* 1234567890123456768 with minify-whitespace becomes hex (18 bytes instead of 19) *)
Example hex_ex :
  printNonNegativeFloat true 4877717327635671425 [49; 46; 50; 51; 52; 53; 54; 55; 56; 57; 48; 49; 50; 51; 52; 53; 54; 56; 101; 43; 49; 56]
  = ([48; 120; 49; 49; 50; 50; 49; 48; 102; 52; 55; 100; 101; 57; 56; 49; 48; 48], false).
Proof. vm_compute. reflexivity. Qed.

From V Require Import C01.ScriptProofs.
(* the specification-side substring test does find what it must *)
Example contains_ci_ex :
  contains_ci script_close [34; 60; 47; 83; 99; 82; 105; 80; 116; 62; 34] = true
  /\ contains_ci script_close [34; 60; 92; 47; 115; 99; 114; 105; 112; 116; 34] = false.
Proof. vm_compute. split; reflexivity. Qed.
Example ident_ex :
  print_identifier_utf16 (mkQ true true true 0 false true) [233; 55362; 57271; 120]
  = Some [92; 117; 48; 48; 69; 57; 92; 117; 123; 50; 48; 66; 66; 55; 125; 120]
  /\ ident_value [92; 117; 48; 48; 69; 57; 92; 117; 123; 50; 48; 66; 66; 55; 125; 120] = Some [233; 55362; 57271; 120].
Proof. vm_compute. split; reflexivity. Qed.

From V Require Import C01.NumProofs2.
(* boundary values: FormatFloat's text is in float_text and the model prints what esbuild prints
   (pretty / minify-whitespace) *)
Example b_1e21 : float_text_b [49; 101; 43; 50; 49] = true /\ fst (printNonNegativeFloat false 4921056587992461136 [49; 101; 43; 50; 49]) = [49; 101; 50; 49] /\ fst (printNonNegativeFloat true 4921056587992461136 [49; 101; 43; 50; 49]) = [49; 101; 50; 49].
Proof. vm_compute. repeat split; reflexivity. Qed.
Example b_below_1e21 : float_text_b [57; 46; 57; 57; 57; 57; 57; 57; 57; 57; 57; 57; 57; 57; 57; 57; 57; 101; 43; 50; 48] = true /\ fst (printNonNegativeFloat false 4921056587992461135 [57; 46; 57; 57; 57; 57; 57; 57; 57; 57; 57; 57; 57; 57; 57; 57; 57; 101; 43; 50; 48]) = [57; 57; 57; 57; 57; 57; 57; 57; 57; 57; 57; 57; 57; 57; 57; 57; 101; 53] /\ fst (printNonNegativeFloat true 4921056587992461135 [57; 46; 57; 57; 57; 57; 57; 57; 57; 57; 57; 57; 57; 57; 57; 57; 57; 101; 43; 50; 48]) = [57; 57; 57; 57; 57; 57; 57; 57; 57; 57; 57; 57; 57; 57; 57; 57; 101; 53].
Proof. vm_compute. repeat split; reflexivity. Qed.
Example b_2p53 : float_text_b [57; 46; 48; 48; 55; 49; 57; 57; 50; 53; 52; 55; 52; 48; 57; 57; 50; 101; 43; 49; 53] = true /\ fst (printNonNegativeFloat false 4845873199050653696 [57; 46; 48; 48; 55; 49; 57; 57; 50; 53; 52; 55; 52; 48; 57; 57; 50; 101; 43; 49; 53]) = [57; 48; 48; 55; 49; 57; 57; 50; 53; 52; 55; 52; 48; 57; 57; 50] /\ fst (printNonNegativeFloat true 4845873199050653696 [57; 46; 48; 48; 55; 49; 57; 57; 50; 53; 52; 55; 52; 48; 57; 57; 50; 101; 43; 49; 53]) = [57; 48; 48; 55; 49; 57; 57; 50; 53; 52; 55; 52; 48; 57; 57; 50].
Proof. vm_compute. repeat split; reflexivity. Qed.
Example b_min_subnormal : float_text_b [53; 101; 45; 51; 50; 52] = true /\ fst (printNonNegativeFloat false 1 [53; 101; 45; 51; 50; 52]) = [53; 101; 45; 51; 50; 52] /\ fst (printNonNegativeFloat true 1 [53; 101; 45; 51; 50; 52]) = [53; 101; 45; 51; 50; 52].
Proof. vm_compute. repeat split; reflexivity. Qed.
Example b_min_normal : float_text_b [50; 46; 50; 50; 53; 48; 55; 51; 56; 53; 56; 53; 48; 55; 50; 48; 49; 52; 101; 45; 51; 48; 56] = true /\ fst (printNonNegativeFloat false 4503599627370496 [50; 46; 50; 50; 53; 48; 55; 51; 56; 53; 56; 53; 48; 55; 50; 48; 49; 52; 101; 45; 51; 48; 56]) = [50; 50; 50; 53; 48; 55; 51; 56; 53; 56; 53; 48; 55; 50; 48; 49; 52; 101; 45; 51; 50; 52] /\ fst (printNonNegativeFloat true 4503599627370496 [50; 46; 50; 50; 53; 48; 55; 51; 56; 53; 56; 53; 48; 55; 50; 48; 49; 52; 101; 45; 51; 48; 56]) = [50; 50; 50; 53; 48; 55; 51; 56; 53; 56; 53; 48; 55; 50; 48; 49; 52; 101; 45; 51; 50; 52].
Proof. vm_compute. repeat split; reflexivity. Qed.
Example b_1e_6 : float_text_b [49; 101; 45; 48; 54] = true /\ fst (printNonNegativeFloat false 4517329193108106637 [49; 101; 45; 48; 54]) = [49; 101; 45; 54] /\ fst (printNonNegativeFloat true 4517329193108106637 [49; 101; 45; 48; 54]) = [49; 101; 45; 54].
Proof. vm_compute. repeat split; reflexivity. Qed.
Example b_0_000123 : float_text_b [48; 46; 48; 48; 48; 49; 50; 51] = true /\ fst (printNonNegativeFloat false 4548669923058963014 [48; 46; 48; 48; 48; 49; 50; 51]) = [49; 50; 51; 101; 45; 54] /\ fst (printNonNegativeFloat true 4548669923058963014 [48; 46; 48; 48; 48; 49; 50; 51]) = [49; 50; 51; 101; 45; 54].
Proof. vm_compute. repeat split; reflexivity. Qed.
Example b_half : float_text_b [48; 46; 53] = true /\ fst (printNonNegativeFloat false 4602678819172646912 [48; 46; 53]) = [48; 46; 53] /\ fst (printNonNegativeFloat true 4602678819172646912 [48; 46; 53]) = [46; 53].
Proof. vm_compute. repeat split; reflexivity. Qed.
Example b_1000 : float_text_b [49; 48; 48; 48] = true /\ fst (printNonNegativeFloat false 4652007308841189376 [49; 48; 48; 48]) = [49; 101; 51] /\ fst (printNonNegativeFloat true 4652007308841189376 [49; 48; 48; 48]) = [49; 101; 51].
Proof. vm_compute. repeat split; reflexivity. Qed.
Example b_999 : float_text_b [57; 57; 57] = true /\ fst (printNonNegativeFloat false 4651998512748167168 [57; 57; 57]) = [57; 57; 57] /\ fst (printNonNegativeFloat true 4651998512748167168 [57; 57; 57]) = [57; 57; 57].
Proof. vm_compute. repeat split; reflexivity. Qed.

From V Require Import C13.Token C13.ParseSpec C01.CommaTrace.
(* a, (b, c) shaped tree: norm changes the tree, the trace semantics sees
   reads, writes, a short circuit and the final store, identically *)
Definition ex_comma : cexpr :=
  CBin BComma (CBin BAssign (CId [97]) (CNum [53]))
    (CBin BComma (CBin BAddAssign (CId [98]) (CId [97]))
       (CBin BLogAnd (CId [98]) (CUn UPostInc (CId [97])))).
Example ex_comma_norm_differs : cnorm ex_comma <> ex_comma /\ norm (embed ex_comma) = embed (cnorm ex_comma).
Proof. split; [vm_compute; discriminate|vm_compute; reflexivity]. Qed.
Example ex_comma_trace :
  trace_eval ex_comma ([], []) =
  Some (Val 5, ([([97], 6); ([98], 5); ([97], 5)],
                [Write [97] 5; Read [98] 0; Read [97] 5; Write [98] 5; Read [98] 5; Read [97] 5; Write [97] 6]))
  /\ trace_eval (cnorm ex_comma) ([], []) = trace_eval ex_comma ([], []).
Proof. vm_compute. split; reflexivity. Qed.
(* an exception (division by zero) aborts: same on both sides *)
Example ex_comma_fail :
  let e := CBin BComma (CId [97]) (CBin BComma (CBin BDiv (CNum [49]) (CNum [48])) (CId [98])) in
  trace_eval e ([], []) = None /\ trace_eval (cnorm e) ([], []) = None.
Proof. vm_compute. split; reflexivity. Qed.

From V Require Import gen.IdTablesGen C01.Keys C01.KeysProofs.
(* keys: identifier (raw, or escaped under ASCII), quoted when not an identifier (a non-BMP character
   is never one for the ES5-and-ESNext test), and when PreferQuotedKey is set; ZWJ continues an identifier *)
Example key_ex :
  print_string_key (mkQ false true true 0 false true) false [233; 960] = Some [195; 169; 207; 128]
  /\ print_string_key (mkQ true true true 0 false true) false [233; 960]
      = Some [92; 117; 48; 48; 69; 57; 92; 117; 48; 51; 67; 48]
  /\ print_string_key (mkQ false true true 0 false true) false [55362; 57271]
      = Some [34; 240; 160; 174; 183; 34]
  /\ print_string_key (mkQ false true true 0 false true) false [97; 32; 98] = Some [34; 97; 32; 98; 34]
  /\ print_string_key (mkQ false true true 0 false true) true [97] = Some [34; 97; 34]
  /\ print_string_key (mkQ false true true 0 false true) false [97; 8205] = Some [97; 226; 128; 141]
  /\ key_value [92; 117; 48; 48; 69; 57; 92; 117; 48; 51; 67; 48] = Some [233; 960].
Proof. vm_compute. repeat split; reflexivity. Qed.

From V Require Import C01.Template C01.TemplateProofs.
(* `a$${this}\0${this}\${x`  : a chunk ending in $, a chunk that is NUL (followed by a substitution),
   a chunk starting with {, wrapping at line limit 6 *)
Example template_ex :
  print_template (mkQ false true true 0 false true) [] [97; 36] [[0]; [36; 123; 120]]
  = [96; 97; 36; 36; 123; 116; 104; 105; 115; 125; 92; 48; 36; 123; 116; 104; 105; 115; 125; 92; 36; 123; 120; 96]
  /\ template_value (template_cps (mkQ true true true 6 false true) [120; 61] [97; 36; 233] [[0; 49]; [13; 10; 96]])
      = Some [[97; 36; 233]; [0; 49]; [13; 10; 96]].
Proof. vm_compute. split; reflexivity. Qed.
Example regexp_ex :
  print_regexp (mkQ false true true 0 false true) [49; 47] [47; 49; 47] = [32; 47; 49; 47]
  /\ print_regexp (mkQ false true false 0 false true) [49; 47] [47; 49; 47] = [32; 47; 49; 47]
  /\ print_regexp (mkQ false true true 0 false true) [120; 60] [47; 83; 67; 82; 73; 80; 84; 47] = [32; 47; 83; 67; 82; 73; 80; 84; 47]
  /\ print_regexp (mkQ false true false 0 false true) [120; 60] [47; 83; 67; 82; 73; 80; 84; 47] = [47; 83; 67; 82; 73; 80; 84; 47]
  /\ print_bigint [97] [49; 50] = [32; 49; 50; 110].
Proof. vm_compute. repeat split; reflexivity. Qed.

From V Require Import C01.Tagged C01.TaggedProofs.
(* tag`a\unicode\<LF>$${x}\`}`  : an invalid escape, a line continuation, `$` before a substitution, an escaped backtick *)
Example tagged_ex :
  lexer_raw [97; 92; 117; 110; 105; 99; 111; 100; 101; 92; 10; 36] /\ lexer_raw [92; 96; 125]
  /\ raw_value (tagged_cps [97; 92; 117; 110; 105; 99; 111; 100; 101; 92; 10; 36] [[92; 96; 125]])
      = Some [[97; 92; 117; 110; 105; 99; 111; 100; 101; 92; 10; 36]; [92; 96; 125]]
  /\ raw_value (tagged_cps [97; 13; 10; 98] []) = Some [[97; 10; 98]]
  /\ raw_value (tagged_cps [97; 36; 123] []) = None.
Proof.
  split; [split; [cbn; intuition lia|split; [cbn; unfold SUBST; intuition lia|eexists; vm_compute; reflexivity]]|].
  split; [split; [cbn; intuition lia|split; [cbn; unfold SUBST; intuition lia|eexists; vm_compute; reflexivity]]|].
  vm_compute. repeat split; reflexivity.
Qed.

(* member names: .b / .\u00E9 under ASCII / ["a b"] / ["𠮷"] (never an ES5-and-ESNext identifier) *)
Example member_ex :
  print_dot_name (mkQ false true true 0 false true) 4 [98] = Some [46; 98]
  /\ print_dot_name (mkQ true true true 0 false true) 4 [233] = Some [46; 92; 117; 48; 48; 69; 57]
  /\ print_dot_name (mkQ false true true 0 false true) 4 [97; 32; 98] = Some [91; 34; 97; 32; 98; 34; 93]
  /\ print_dot_name (mkQ true false true 0 false true) 4 [134071] = Some [91; 34; 92; 117; 68; 56; 52; 50; 92; 117; 68; 70; 66; 55; 34; 93]
  /\ member_key [91; 34; 92; 117; 68; 56; 52; 50; 92; 117; 68; 70; 66; 55; 34; 93] = Some [55362; 57271].
Proof. vm_compute. repeat split; reflexivity. Qed.

From V Require Import C01.NumFlag.
(* the flag on 5 ("5": true), 1000 ("1e3": false), 0.5 minified (".5": false), 1234 ("1234": true) *)
Example flag_ex :
  map (fun c => snd (printNonNegativeFloat (fst (fst c)) (snd (fst c)) (snd c)))
    [(false, 4617315517961601024, [53]); (false, 4652007308841189376, [49; 48; 48; 48]);
     (true, 4602678819172646912, [48; 46; 53]); (false, 4653142004841086976, [49; 50; 51; 52])]
  = [true; false; false; true].
Proof. vm_compute. reflexivity. Qed.

From V Require Import C01.Directive.
(* the directive statement is not vacuous: it holds on the ordinary shapes *)
Example directive_ex :
  strict_preserved cfg_default [SrcString (34 :: use_strict_chars ++ [34]) false; SrcOther] /\
  strict_preserved cfg_default [SrcString [39; 120; 39] false; SrcString (39 :: use_strict_chars ++ [39]) false] /\
  strict_preserved cfg_default [SrcOther; SrcString (39 :: use_strict_chars ++ [39]) false] /\
  strict_preserved cfg_default [SrcString [39; 120; 39] true; SrcOther].
Proof. exact strict_preserved_examples. Qed.
