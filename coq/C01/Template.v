(* C01 model: /repo/internal/js_printer/js_printer.go printExpr
     ETemplate (l.~2971, untagged, not minifying): "`" head ${ e } tail ... "`",
       every cooked chunk printed by printUnquotedUTF16(chunk, '`', 0);
     EBigInt (l.~3108): the stored text followed by "n";
     ERegExp (l.~3066): the stored text verbatim, preceded by a space when the
       previous byte is "/" (would form a line comment) or when it is "<" and
       the text starts with "/script" in any case (inline-script guard).
   and the specification side for templates with substitutions.
   A substitution `${ Expression }` is represented in the code-point stream by
   the single marker SUBST: what an expression is printed as is outside this
   model (C13 / the Node oracle).  The marker is faithful for the lexical
   question: in the real text a chunk is followed by `$`, which is neither a
   DecimalDigit (pending \0), nor `{` (pending `$`), nor <LF> (pending <CR>).
   Executable definitions only. *)
From V Require Import Common.Base C01.Utf C01.Quote C01.SpecLiteral C01.Num.

Definition SUBST : Z := -1.
Definition subst_bytes : bytes := [36; 123; 116; 104; 105; 115; 125].     (* "${this}" in the correspondence run *)

Definition render_cp (x : Z) : bytes := if x =? SUBST then subst_bytes else EncodeRune x.
Definition render (cps : list Z) : bytes := flat_map render_cp cps.

(* the chunks after the head; sofar = bytes already in the buffer (for the
   line-limit wrapping column of each chunk) *)
Fixpoint tails_cps (cfg : qcfg) (sofar : bytes) (tails : list (list Z)) : list Z :=
  match tails with
  | [] => []
  | t :: r =>
      let so1 := sofar ++ subst_bytes in
      let c := print_unquoted_cps cfg 96 false (currentLineLength so1) t in
      SUBST :: c ++ tails_cps cfg (so1 ++ to_bytes c) r
  end.
Definition template_cps (cfg : qcfg) (prefix : bytes) (head : list Z) (tails : list (list Z)) : list Z :=
  let so0 := prefix ++ [96] in
  let h := print_unquoted_cps cfg 96 false (currentLineLength so0) head in
  96 :: h ++ tails_cps cfg (so0 ++ to_bytes h) tails ++ [96].
Definition print_template (cfg : qcfg) (prefix : bytes) (head : list Z) (tails : list (list Z)) : bytes :=
  render (template_cps cfg prefix head tails).

(* ---- specification: the cooked chunks of a template with substitutions
   (12.9.6: TemplateHead, TemplateMiddle, TemplateTail / NoSubstitutionTemplate).
   A substitution may start exactly where the closing backtick could stand. *)
Definition accepting (s : st) : bool :=
  match step KTemplate s 96 with Some ([], Done) => true | _ => false end.
Fixpoint trun (s : st) (cps : list Z) (cur : list Z) : option (list (list Z)) :=
  match cps with
  | [] => match s with Done => Some [cur] | _ => None end
  | c :: r =>
      if c =? SUBST then
        (if accepting s then option_map (cons cur) (trun Normal r []) else None)
      else match step KTemplate s c with
           | Some (emit, s') => trun s' r (cur ++ emit)
           | None => None
           end
  end.
Definition template_value (cps : list Z) : option (list (list Z)) :=
  match cps with
  | 96 :: body => trun Normal body []
  | _ => None
  end.

(* ---- BigInt and regular expression literals ---- *)
Definition print_bigint (js : bytes) (value : bytes) : bytes :=
  space_before_ident js ++ value ++ [110].

Definition starts_slash_script (v : bytes) : bool :=
  match v with
  | a0 :: a1 :: a2 :: a3 :: a4 :: a5 :: a6 :: _ =>
      (a0 =? 47) && (lower a1 =? 115) && (lower a2 =? 99) && (lower a3 =? 114) &&
      (lower a4 =? 105) && (lower a5 =? 112) && (lower a6 =? 116)
  | _ => false
  end.
Definition regexp_space (cfg : qcfg) (js : bytes) (value : bytes) : bytes :=
  match rev js with
  | last :: _ => if (last =? 47) || (script_guard cfg && (last =? 60) && starts_slash_script value) then [32] else []
  | [] => []
  end.
Definition print_regexp (cfg : qcfg) (js : bytes) (value : bytes) : bytes :=
  regexp_space cfg js value ++ value.
