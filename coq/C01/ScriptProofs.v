(* C01: the printed string / template literal never contains "</script"
   (ASCII case-insensitive) when the inline-script guard is on. *)
From V Require Import Common.Base C01.Utf C01.Quote C01.SpecLiteral C01.QuoteProofs.

(* specification: ASCII case-insensitive substring test *)
Fixpoint prefix_ci (p l : list Z) : bool :=
  match p, l with
  | [], _ => true
  | a :: p', x :: l' => (lower x =? a) && prefix_ci p' l'
  | _ :: _, [] => false
  end.
Fixpoint contains_ci (p l : list Z) : bool :=
  prefix_ci p l || match l with [] => false | _ :: r => contains_ci p r end.
Definition script_close : list Z := [60; 47; 115; 99; 114; 105; 112; 116].   (* "</script" *)
Definition script6 : list Z := [115; 99; 114; 105; 112; 116].

(* matching automaton ('<' occurs only at the start of the pattern) *)
Definition pat (k : nat) : Z := nth k script_close (-1).
Definition delta (k : nat) (x : Z) : nat :=
  if lower x =? pat k then S k else if x =? 60 then 1%nat else 0%nat.
Fixpoint has_script (k : nat) (l : list Z) : bool :=
  match l with
  | [] => false
  | x :: r => let k' := delta k x in if Nat.eqb k' 8 then true else has_script k' r
  end.

Lemma lower_60 x : lower x = 60 -> x = 60.
Proof. unfold lower. destruct ((65 <=? x) && (x <=? 90)) eqn:E; lia. Qed.

Lemma delta_lt k : (k < 8)%nat -> delta k 60 = 1%nat.
Proof.
  intros H. unfold delta.
  do 8 (destruct k as [|k]; [reflexivity|]). lia.
Qed.

(* completeness of the automaton: a match anywhere is found from any state *)
Lemma has_script_complete : forall a l k, (k < 8)%nat ->
  prefix_ci script_close l = true -> has_script k (a ++ l) = true.
Proof.
  induction a as [|x a IH]; intros l k Hk Hp.
  - cbn [app]. destruct l as [|x0 [|x1 [|x2 [|x3 [|x4 [|x5 [|x6 [|x7 r]]]]]]]];
      cbn [prefix_ci script_close] in Hp; rewrite ?andb_false_r in Hp; try discriminate.
    repeat (apply andb_true_iff in Hp as [? Hp]).
    assert (x0 = 60) by (apply lower_60; lia). subst x0.
    cbn [has_script]. rewrite (delta_lt k Hk). cbn [Nat.eqb].
    unfold delta, pat, script_close. cbn [nth].
    repeat match goal with H : (lower ?y =? ?c) = true |- _ => rewrite H; clear H end.
    reflexivity.
  - cbn [app has_script]. destruct (Nat.eqb (delta k x) 8) eqn:E; [reflexivity|].
    apply IH; [|exact Hp]. apply Nat.eqb_neq in E.
    assert (delta k x <= 8)%nat.
    { unfold delta. destruct (lower x =? pat k); [lia|]. destruct (x =? 60); lia. }
    lia.
Qed.

Lemma contains_has_script l : contains_ci script_close l = true -> has_script 0 l = true.
Proof.
  assert (G : forall l, contains_ci script_close l = true -> exists a b, l = a ++ b /\ prefix_ci script_close b = true).
  { induction l0 as [|x r IH]; intros H.
    - cbn in H. discriminate.
    - cbn [contains_ci] in H. apply orb_true_iff in H as [H|H].
      + exists [], (x :: r). auto.
      + destruct (IH H) as [a [b [E1 E2]]]. exists (x :: a), b. rewrite E1. auto. }
  intros H. destruct (G l H) as [a [b [-> E]]]. apply has_script_complete; [lia|exact E].
Qed.

(* ---- invariant ---- *)
Definition Inv (k : nat) (prev : Z) (text : list Z) : Prop :=
  (k < 8)%nat /\ (k = 1%nat -> prev = 60) /\ ((2 <= k)%nat -> prefix_ci (skipn (k - 2) script6) text = false).

Lemma Inv0 prev text : Inv 0 prev text.
Proof. repeat split; intros; lia. Qed.

Lemma matches_script_prefix rest : matches_script rest = prefix_ci script6 rest.
Proof.
  unfold matches_script, script6.
  destruct rest as [|a0 [|a1 [|a2 [|a3 [|a4 [|a5 r]]]]]]; cbn [prefix_ci];
    rewrite ?andb_false_r; try reflexivity.
  rewrite andb_true_r. rewrite !andb_assoc. reflexivity.
Qed.

(* an escape: backslash followed by code points none of which is '<' *)
Definition is_escape (l : list Z) : Prop := exists r, l = 92 :: r /\ Forall (fun x => x <> 60) r.

Lemma delta_0_other x : x <> 60 -> delta 0 x = 0%nat.
Proof.
  intros H. unfold delta, pat. cbn [nth script_close].
  destruct (lower x =? 60) eqn:E; [exfalso; apply H; apply lower_60; lia|].
  destruct (x =? 60) eqn:E2; [lia|reflexivity].
Qed.

Lemma no60_reset r tail : Forall (fun x => x <> 60) r -> has_script 0 (r ++ tail) = has_script 0 tail.
Proof.
  induction 1 as [|x r Hx Hr IH]; [reflexivity|].
  cbn [app has_script]. rewrite (delta_0_other x Hx). cbn [Nat.eqb]. exact IH.
Qed.

Lemma delta_92 k : (k < 8)%nat -> delta k 92 = 0%nat.
Proof. intros H. do 8 (destruct k as [|k]; [reflexivity|]). lia. Qed.

Lemma escape_reset k l tail : (k < 8)%nat -> is_escape l -> has_script k (l ++ tail) = has_script 0 tail.
Proof.
  intros Hk [r [-> Hr]]. cbn [app has_script]. rewrite (delta_92 k Hk). cbn [Nat.eqb].
  apply no60_reset. exact Hr.
Qed.

Lemma hexc_ne60 d : 0 <= d < 16 -> hexc d <> 60.
Proof. intros H. destruct (hexc_range d H); lia. Qed.

Lemma esc_u4_escape c : 0 <= c <= 65535 -> is_escape (esc_u4 c).
Proof.
  intros H. eexists; split; [reflexivity|].
  repeat constructor; try lia; apply hexc_ne60; lia.
Qed.
Lemma esc_x2_escape c : 0 <= c <= 255 -> is_escape (esc_x2 c).
Proof.
  intros H. eexists; split; [reflexivity|].
  repeat constructor; try lia; apply hexc_ne60; lia.
Qed.
Lemma esc_ubrace_escape r : 65536 <= r <= 1114111 -> is_escape (esc_ubrace r).
Proof.
  intros H. unfold esc_ubrace, hexX. destruct (r <? 1048576) eqn:E; (eexists; split; [reflexivity|]);
    cbn [app]; repeat constructor; try lia; apply hexc_ne60; lia.
Qed.
Lemma const_escape r : forallb (fun x => negb (x =? 60)) r = true -> is_escape (92 :: r).
Proof.
  intros H. exists r. split; [reflexivity|]. apply Forall_forall. intros x Hx.
  rewrite forallb_forall in H. specialize (H x Hx). lia.
Qed.

(* classification of one iteration's output *)
Lemma simple_chunk_class cfg q prev c rest :
  0 <= c <= 65535 -> is_high c = false ->
  (simple_chunk cfg q prev c rest = [c] /\
   (c = 47 -> script_guard cfg = true -> prev = 60 -> matches_script rest = false))
  \/ is_escape (simple_chunk cfg q prev c rest).
Proof.
  intros Hc Hh. unfold simple_chunk.
  destruct (c =? 0) eqn:E0; [right; destruct (next_is_digit rest); apply const_escape; reflexivity|].
  destruct (c =? 7) eqn:E1; [right; apply const_escape; reflexivity|].
  destruct (c =? 8) eqn:E2; [right; apply const_escape; reflexivity|].
  destruct (c =? 12) eqn:E3; [right; apply const_escape; reflexivity|].
  destruct (c =? 10) eqn:E4.
  { destruct (q =? 96); [left; split; [f_equal; lia|intros; lia]|right; apply const_escape; reflexivity]. }
  destruct (c =? 13) eqn:E5; [right; apply const_escape; reflexivity|].
  destruct (c =? 11) eqn:E6; [right; apply const_escape; reflexivity|].
  destruct (c =? 27) eqn:E7; [right; apply const_escape; reflexivity|].
  destruct (c =? 92) eqn:E8; [right; apply const_escape; reflexivity|].
  destruct (c =? 47) eqn:E9.
  { destruct (script_guard cfg && (prev =? 60) && matches_script rest) eqn:Eg.
    - right; apply const_escape; reflexivity.
    - left. split; [f_equal; lia|]. intros _ Hg Hp. rewrite Hg in Eg. cbn [andb] in Eg.
      replace (prev =? 60) with true in Eg by lia. exact Eg. }
  destruct (c =? 39) eqn:E10; [destruct (q =? 39); [right; apply const_escape; reflexivity|left; split; [f_equal; lia|intros; lia]]|].
  destruct (c =? 34) eqn:E11; [destruct (q =? 34); [right; apply const_escape; reflexivity|left; split; [f_equal; lia|intros; lia]]|].
  destruct (c =? 96) eqn:E12; [destruct (q =? 96); [right; apply const_escape; reflexivity|left; split; [f_equal; lia|intros; lia]]|].
  destruct (c =? 36) eqn:E13; [destruct ((q =? 96) && next_is 123 rest); [right; apply const_escape; reflexivity|left; split; [f_equal; lia|intros; lia]]|].
  destruct (c =? 8232) eqn:E14; [right; apply const_escape; reflexivity|].
  destruct (c =? 8233) eqn:E15; [right; apply const_escape; reflexivity|].
  destruct (c =? 65279) eqn:E16; [right; apply const_escape; reflexivity|].
  destruct (c <=? 126) eqn:E17; [left; split; [reflexivity|intros; lia]|].
  destruct (is_low c || (ascii_only cfg && (255 <? c))) eqn:E18; [right; apply esc_u4_escape; lia|].
  destruct (ascii_only cfg) eqn:E19.
  { right. apply esc_x2_escape. cbn [andb] in E18. apply orb_false_iff in E18 as [_ E18]. lia. }
  left; split; [reflexivity|intros; lia].
Qed.

(* a raw unit c: the automaton step keeps the invariant and never accepts *)
Lemma raw_step cfg k prev c rest :
  script_guard cfg = true ->
  Inv k prev (c :: rest) ->
  (c = 47 -> script_guard cfg = true -> prev = 60 -> matches_script rest = false) ->
  Nat.eqb (delta k c) 8 = false /\ Inv (delta k c) c rest.
Proof.
  intros Hg [Hk [H1 H2]] H47. unfold delta.
  destruct (lower c =? pat k) eqn:Ea.
  - (* advance *)
    destruct k as [|[|[|[|[|[|[|[|k]]]]]]]]; try lia; unfold pat in Ea; cbn [nth script_close] in Ea.
    + assert (c = 60) by (apply lower_60; lia). subst. split; [reflexivity|]. repeat split; intros; lia.
    + assert (c = 47) by (unfold lower in Ea; destruct ((65 <=? c) && (c <=? 90)) eqn:E; lia). subst.
      split; [reflexivity|]. split; [lia|]. split; [intros; lia|]. intros _. cbn [Nat.sub skipn].
      rewrite <- matches_script_prefix. apply H47; auto.
    + specialize (H2 ltac:(lia)). cbn [Nat.sub skipn script6 prefix_ci] in H2. rewrite Ea in H2. cbn [andb] in H2.
      split; [reflexivity|]. split; [lia|]. split; [intros; lia|]. intros _. exact H2.
    + specialize (H2 ltac:(lia)). cbn [Nat.sub skipn script6 prefix_ci] in H2. rewrite Ea in H2. cbn [andb] in H2.
      split; [reflexivity|]. split; [lia|]. split; [intros; lia|]. intros _. exact H2.
    + specialize (H2 ltac:(lia)). cbn [Nat.sub skipn script6 prefix_ci] in H2. rewrite Ea in H2. cbn [andb] in H2.
      split; [reflexivity|]. split; [lia|]. split; [intros; lia|]. intros _. exact H2.
    + specialize (H2 ltac:(lia)). cbn [Nat.sub skipn script6 prefix_ci] in H2. rewrite Ea in H2. cbn [andb] in H2.
      split; [reflexivity|]. split; [lia|]. split; [intros; lia|]. intros _. exact H2.
    + specialize (H2 ltac:(lia)). cbn [Nat.sub skipn script6 prefix_ci] in H2. rewrite Ea in H2. cbn [andb] in H2.
      split; [reflexivity|]. split; [lia|]. split; [intros; lia|]. intros _. exact H2.
    + specialize (H2 ltac:(lia)). cbn [Nat.sub skipn script6 prefix_ci] in H2. rewrite Ea in H2. cbn [andb] in H2.
      discriminate.
  - destruct (c =? 60) eqn:Eb.
    + split; [reflexivity|]. split; [lia|]. split; [intros; lia|intros; lia].
    + split; [reflexivity|]. apply Inv0.
Qed.

Lemma big_raw_step k x : (k < 8)%nat -> 128 <= x -> delta k x = 0%nat.
Proof.
  intros Hk Hx. unfold delta.
  assert (lower x = x) by (unfold lower; destruct ((65 <=? x) && (x <=? 90)) eqn:E; lia).
  rewrite H. do 8 (destruct k as [|k]; [unfold pat; cbn [nth script_close]; destruct (x =? _) eqn:E; [lia|]; destruct (x =? 60) eqn:E2; [lia|reflexivity]|]). lia.
Qed.

Lemma pu_no_script cfg q wrap :
  script_guard cfg = true -> (q = 39 \/ q = 34 \/ q = 96) ->
  forall n text prev sl i k,
  (length text <= n)%nat -> all_u16 text -> Inv k prev text ->
  has_script k (pu cfg q wrap prev sl i text ++ [q]) = false.
Proof.
  intros Hg Hq. induction n as [|n IH]; intros text prev sl i k Hlen Hu HI.
  { destruct text; [|cbn in Hlen; lia]. cbn [pu app has_script].
    destruct HI as [Hk _]. assert (delta k q = 0%nat).
    { unfold delta. assert (lower q = q) by (unfold lower; destruct Hq as [->|[->| ->]]; reflexivity).
      rewrite H. do 8 (destruct k as [|k]; [unfold pat; cbn [nth script_close]; destruct Hq as [->|[->| ->]]; reflexivity|]). lia. }
    rewrite H. reflexivity. }
  destruct text as [|c rest].
  { cbn [pu app has_script].
    destruct HI as [Hk _]. assert (delta k q = 0%nat).
    { unfold delta. assert (lower q = q) by (unfold lower; destruct Hq as [->|[->| ->]]; reflexivity).
      rewrite H. do 8 (destruct k as [|k]; [unfold pat; cbn [nth script_close]; destruct Hq as [->|[->| ->]]; reflexivity|]). lia. }
    rewrite H. reflexivity. }
  cbn [length] in Hlen. inversion Hu as [|? ? Hc Hu']; subst.
  cbn [pu]. rewrite <- app_assoc.
  set (dowrap := wrap && (line_limit cfg <=? sl + i)).
  set (sl1 := if dowrap then sl - line_limit cfg else sl).
  assert (Hw : exists k1, Inv k1 prev (c :: rest) /\
     forall X, has_script k ((if dowrap then [92; 10] else []) ++ X) = has_script k1 X).
  { destruct dowrap.
    - exists 0%nat. split; [apply Inv0|]. intros X.
      apply (escape_reset k [92; 10] X); [destruct HI; assumption|apply const_escape; reflexivity].
    - exists k. split; [exact HI|reflexivity]. }
  destruct Hw as [k1 [HI1 Hw]]. rewrite Hw. clear Hw.
  assert (Hk1 : (k1 < 8)%nat) by (destruct HI1; assumption).
  destruct (is_high c) eqn:Hh.
  - destruct rest as [|c2 rest'].
    + rewrite (escape_reset k1 _ _ Hk1 (esc_u4_escape c Hc)).
      apply (IH [] c sl1 (i + 1) 0%nat); [cbn; lia|constructor|apply Inv0].
    + inversion Hu' as [|? ? Hc2 Hu'']; subst.
      destruct (is_low c2) eqn:Hl.
      * rewrite <- app_assoc. pose proof (combine_range c c2 Hh Hl) as Hr.
        assert (Hp : has_script k1 (pair_chunk cfg c c2 ++ pu cfg q wrap c2 sl1 (i + 1 + 1) rest' ++ [q])
                     = has_script 0 (pu cfg q wrap c2 sl1 (i + 1 + 1) rest' ++ [q])).
        { unfold pair_chunk. destruct (ascii_only cfg).
          - destruct (uni_esc cfg).
            + apply escape_reset; [exact Hk1|apply esc_ubrace_escape; lia].
            + rewrite <- app_assoc. rewrite (escape_reset k1 _ _ Hk1 (esc_u4_escape c Hc)).
              apply escape_reset; [lia|apply esc_u4_escape; lia].
          - cbn [app has_script]. rewrite big_raw_step by (auto; lia). reflexivity. }
        rewrite Hp. apply IH; [cbn [length] in Hlen; lia|exact Hu''|apply Inv0].
      * rewrite <- app_assoc. rewrite (escape_reset k1 _ _ Hk1 (esc_u4_escape c Hc)).
        apply IH; [lia|exact Hu'|apply Inv0].
  - rewrite <- app_assoc.
    destruct (simple_chunk_class cfg q prev c rest Hc Hh) as [[E H47]|Hesc].
    + rewrite E. cbn [app has_script].
      destruct (raw_step cfg k1 prev c rest Hg HI1 H47) as [R1 R2].
      rewrite R1. apply IH; [lia|exact Hu'|exact R2].
    + rewrite (escape_reset k1 _ _ Hk1 Hesc). apply IH; [lia|exact Hu'|apply Inv0].
Qed.

Lemma quote_no_script_close_all cfg abt nowrap linelen u :
  script_guard cfg = true -> all_u16 u ->
  contains_ci script_close (print_quoted_cps cfg abt nowrap linelen u) = false.
Proof.
  intros Hg Hu.
  destruct (contains_ci script_close (print_quoted_cps cfg abt nowrap linelen u)) eqn:E; [|reflexivity].
  apply contains_has_script in E.
  unfold print_quoted_cps in E. destruct (choose_quote_kind cfg abt u) as [kq Hkq].
  rewrite Hkq in E. cbn [has_script] in E.
  assert (Hd : delta 0 (quote_of kq) = 0%nat) by (destruct kq; reflexivity).
  rewrite Hd in E. cbn [Nat.eqb] in E.
  unfold print_unquoted_cps in E.
  rewrite (pu_no_script cfg (quote_of kq) _ Hg) with (n := length u) in E;
    [discriminate|destruct kq; cbn; auto|lia|exact Hu|apply Inv0].
Qed.

Lemma quote_no_script_close_bytes cfg abt nowrap prefix u :
  script_guard cfg = true -> all_u16 u ->
  exists cps, utf8_decode (print_quoted cfg abt nowrap prefix u) = Some cps /\
              contains_ci script_close cps = false.
Proof.
  intros Hg Hu. exists (print_quoted_cps cfg abt nowrap (currentLineLength prefix) u). split.
  - unfold print_quoted. apply utf8_roundtrip. eapply good_scalar. apply print_quoted_cps_good. exact Hu.
  - apply quote_no_script_close_all; assumption.
Qed.
