(* Small text helpers shared by the C12 models (byte strings as list Z). *)
From V Require Import Common.Base.

Fixpoint dec_loop (fuel : nat) (v : Z) (acc : list Z) : list Z :=
  match fuel with
  | O => acc
  | S f => let acc' := (48 + v mod 10) :: acc in
           if v / 10 =? 0 then acc' else dec_loop f (v / 10) acc'
  end.
(* strconv.Itoa for v >= 0 *)
Definition dec_of_Z (v : Z) : list Z := dec_loop (S (Z.to_nat (Z.log2 v))) v [].

Definition is_digit (c : Z) : bool := (48 <=? c) && (c <=? 57).

Fixpoint mism_from {A} (f : A -> bool) (l : list A) (i : nat) : list nat :=
  match l with
  | [] => []
  | x :: r => if f x then mism_from f r (S i) else i :: mism_from f r (S i)
  end.
Definition mismatches {A} (f : A -> bool) (l : list A) : list nat := mism_from f l 0.

Definition ascii_lower (c : Z) : Z := if (65 <=? c) && (c <=? 90) then c + 32 else c.

Definition nth_z {A} (n : Z) (l : list A) (d : A) : A := nth (Z.to_nat n) l d.
