(* mangleNumber preserves the exact value of every CSS number token. *)
From V Require Import Common.Base C12.Text C12.NumberCss C12.NumberSpec.

Definition dig (c : Z) : Prop := 48 <= c <= 57.
Definition digits (l : list Z) : Prop := Forall dig l.
Definition signs (sg : list Z) : Prop := sg = [] \/ sg = [43] \/ sg = [45].
Definition sgv (sg : list Z) : Z := match sg with [45] => -1 | _ => 1 end.

Lemma isdig_dig c : dig c -> isdig c = true.
Proof. unfold dig, isdig. lia. Qed.

Ltac zb := repeat match goal with
  | |- context [?a =? ?b] => destruct (Z.eqb_spec a b); try lia
  | |- context [?a <=? ?b] => destruct (Z.leb_spec a b); try lia
  end.

(* ---- digits_val ---- *)
Lemma fold_dv l : forall acc, fold_left (fun a d => a * 10 + (d - 48)) l acc = acc * 10 ^ Z.of_nat (length l) + digits_val l.
Proof.
  unfold digits_val. induction l as [|d l IH]; intros acc; cbn [fold_left length].
  - change (10 ^ Z.of_nat 0) with 1. lia.
  - rewrite IH. rewrite (IH (0 * 10 + (d - 48))).
    replace (Z.of_nat (S (length l))) with (Z.of_nat (length l) + 1) by lia.
    rewrite Z.pow_add_r by lia. lia.
Qed.

Lemma dv_app a b : digits_val (a ++ b) = digits_val a * 10 ^ Z.of_nat (length b) + digits_val b.
Proof. unfold digits_val at 1. rewrite fold_left_app. rewrite fold_dv. reflexivity. Qed.

Lemma dv_zeros k : digits_val (repeat 48 k) = 0.
Proof.
  induction k as [|k IH]; [reflexivity|].
  change (repeat 48 (S k)) with ([48] ++ repeat 48 k). rewrite dv_app, IH. reflexivity.
Qed.

Lemma dv_lead0 l : digits_val (48 :: l) = digits_val l.
Proof. change (48 :: l) with ([48] ++ l). rewrite dv_app. reflexivity. Qed.

(* ---- spec parser on structured text ---- *)
Lemma span_digits_app a rest :
  digits a -> (match rest with c :: _ => isdig c = false | [] => True end) ->
  span_digits (a ++ rest) = (a, rest).
Proof.
  intros Ha Hr. induction Ha as [|c a Hc Ha IH]; cbn [app span_digits].
  - destruct rest as [|c r]; [reflexivity|]. cbn [span_digits]. rewrite Hr. reflexivity.
  - rewrite (isdig_dig c Hc), IH. reflexivity.
Qed.

Lemma take_sign_sg sg rest : signs sg ->
  (match rest with c :: _ => c <> 43 /\ c <> 45 | [] => True end) ->
  take_sign (sg ++ rest) = (sgv sg, rest).
Proof.
  intros [->|[->| ->]] Hr; cbn; try reflexivity.
  destruct rest as [|c r]; [reflexivity|]. cbn. destruct Hr. zb. reflexivity.
Qed.

Definition frac_text (fo : option (list Z)) : list Z := match fo with Some f => 46 :: f | None => [] end.
Definition frac_digits (fo : option (list Z)) : list Z := match fo with Some f => f | None => [] end.

Inductive expo :=
| NoExp
| Exp (c : Z) (es ed : list Z).
Definition exp_text (x : expo) : list Z := match x with NoExp => [] | Exp c es ed => c :: es ++ ed end.
Definition exp_val (x : expo) : Z := match x with NoExp => 0 | Exp _ es ed => sgv es * digits_val ed end.
Definition wf_exp (x : expo) : Prop :=
  match x with NoExp => True | Exp c es ed => (c = 101 \/ c = 69) /\ signs es /\ digits ed /\ ed <> [] end.

Definition render (sg ip : list Z) (fo : option (list Z)) (x : expo) : list Z :=
  sg ++ ip ++ frac_text fo ++ exp_text x.

Definition wf_num (sg ip : list Z) (fo : option (list Z)) (x : expo) : Prop :=
  signs sg /\ digits ip /\
  (match fo with Some f => digits f /\ f <> [] | None => ip <> [] end) /\ wf_exp x.

Lemma nil_b_false {A} (l : list A) : l <> [] -> nil_b l = false.
Proof. destruct l; [contradiction | reflexivity]. Qed.

Lemma css_value_render sg ip fo x : wf_num sg ip fo x ->
  css_number_value (render sg ip fo x) =
  Some (sgv sg * digits_val (ip ++ frac_digits fo), - Z.of_nat (length (frac_digits fo)) + exp_val x).
Proof.
  intros [Hsg [Hip [Hfo Hx]]]. unfold css_number_value, render.
  (* sign *)
  rewrite take_sign_sg; [|exact Hsg|].
  2:{ destruct ip as [|i ip]; cbn [app].
      - destruct fo as [f|]; [cbn; lia | contradiction].
      - inversion Hip; subst. unfold dig in *. lia. }
  (* integer part *)
  rewrite span_digits_app; [|exact Hip|].
  2:{ destruct fo as [f|]; cbn [frac_text app]; [reflexivity|].
      destruct x as [|c es ed]; cbn [exp_text]; [exact I|].
      destruct Hx as [[->| ->] _]; reflexivity. }
  assert (HexpStart : match exp_text x with c :: _ => isdig c = false | [] => True end).
  { destruct x as [|c es ed]; cbn [exp_text]; [exact I|]. destruct Hx as [[->| ->] _]; reflexivity. }
  (* fraction *)
  assert (Hfr : (match frac_text fo ++ exp_text x with
                 | c :: r' => if c =? 46 then let '(f, r'') := span_digits r' in
                                if nil_b f then ([], frac_text fo ++ exp_text x) else (f, r'')
                              else ([], frac_text fo ++ exp_text x)
                 | [] => ([], frac_text fo ++ exp_text x) end) = (frac_digits fo, exp_text x)).
  { destruct fo as [f|]; cbn [frac_text frac_digits app].
    - destruct Hfo as [Hf Hne]. rewrite Z.eqb_refl. rewrite span_digits_app by assumption.
      rewrite nil_b_false by exact Hne. reflexivity.
    - destruct x as [|c es ed]; cbn [exp_text]; [reflexivity|].
      destruct Hx as [[->| ->] _]; reflexivity. }
  rewrite Hfr.
  assert (Hnn : nil_b ip && nil_b (frac_digits fo) = false).
  { destruct fo as [f|]; cbn [frac_digits].
    - destruct Hfo as [_ Hne]. rewrite (nil_b_false f Hne). apply andb_false_r.
    - rewrite (nil_b_false ip Hfo). reflexivity. }
  rewrite Hnn.
  destruct x as [|c es ed]; cbn [exp_text exp_val].
  - f_equal. f_equal. lia.
  - destruct Hx as [Hc [Hes [Hed Hne]]].
    assert (Ec : (c =? 101) || (c =? 69) = true) by (destruct Hc as [->| ->]; reflexivity).
    rewrite Ec.
    rewrite <- (app_nil_r ed) at 1. rewrite take_sign_sg; [|exact Hes|].
    2:{ destruct ed as [|d ed]; [contradiction|]. cbn [app]. inversion Hed; subst. unfold dig in *. lia. }
    rewrite span_digits_app by (try exact Hed; exact I).
    rewrite (nil_b_false ed Hne). cbn [nil_b negb orb]. reflexivity.
Qed.

(* ---- the model on structured text ---- *)
Definition no46 (l : list Z) : Prop := Forall (fun c => c <> 46) l.

Lemma index_byte_none l : no46 l -> index_byte 46 l = None.
Proof.
  induction 1 as [|c l Hc Hl IH]; cbn [index_byte]; [reflexivity|].
  destruct (Z.eqb_spec c 46); [contradiction|]. rewrite IH. reflexivity.
Qed.

Lemma index_byte_app l r : no46 l -> index_byte 46 (l ++ 46 :: r) = Some (length l).
Proof.
  induction 1 as [|c l Hc Hl IH]; cbn [index_byte app length]; [reflexivity|].
  destruct (Z.eqb_spec c 46); [contradiction|]. rewrite IH. reflexivity.
Qed.

Lemma drop_zeros_decomp l : exists k, l = repeat 48 k ++ drop_zeros l.
Proof.
  induction l as [|c l [k IH]]; [exists O; reflexivity|].
  cbn [drop_zeros]. destruct (Z.eqb_spec c 48).
  - subst. exists (S k). cbn [repeat app]. f_equal. exact IH.
  - exists O. reflexivity.
Qed.

Lemma drop_zeros_stop x c y : c <> 48 -> drop_zeros (x ++ c :: y) = drop_zeros x ++ c :: y \/
                                         (drop_zeros x = [] /\ drop_zeros (x ++ c :: y) = c :: y).
Proof.
  intros Hc. induction x as [|a x IH]; cbn [app drop_zeros].
  - left. destruct (Z.eqb_spec c 48); [contradiction | reflexivity].
  - destruct (Z.eqb_spec a 48); [exact IH | left; reflexivity].
Qed.

Lemma drop_zeros_app x c y : c <> 48 -> drop_zeros (x ++ c :: y) = drop_zeros x ++ c :: y.
Proof. intros Hc. destruct (drop_zeros_stop x c y Hc) as [H|[H1 H2]]; [exact H | rewrite H1, H2; reflexivity]. Qed.

Lemma repeat_rev {A} (a : A) k : rev (repeat a k) = repeat a k.
Proof.
  induction k as [|k IH]; [reflexivity|]. cbn [repeat rev]. rewrite IH.
  clear IH. induction k as [|k IH]; [reflexivity|]. cbn [repeat app]. f_equal. exact IH.
Qed.

Lemma strip_decomp l : exists k, l = strip_trailing_zeros l ++ repeat 48 k.
Proof.
  unfold strip_trailing_zeros. destruct (drop_zeros_decomp (rev l)) as [k H].
  exists k. transitivity (rev (repeat 48 k ++ drop_zeros (rev l))).
  - rewrite <- H. symmetry. apply rev_involutive.
  - rewrite rev_app_distr, repeat_rev. reflexivity.
Qed.

Lemma strip_app a f : strip_trailing_zeros (a ++ 46 :: f) = a ++ 46 :: strip_trailing_zeros f.
Proof.
  unfold strip_trailing_zeros. rewrite rev_app_distr. cbn [rev]. rewrite <- app_assoc. cbn [app].
  rewrite drop_zeros_app by lia. rewrite rev_app_distr. cbn [rev].
  rewrite rev_involutive, <- app_assoc. reflexivity.
Qed.

Lemma digits_app_inv a b : digits (a ++ b) -> digits a /\ digits b.
Proof. unfold digits. apply Forall_app. Qed.

Lemma contains_e_false l : Forall (fun c => c <> 101 /\ c <> 69) l -> contains_e l = false.
Proof.
  unfold contains_e. induction 1 as [|c l [H1 H2] Hl IH]; cbn [existsb]; [reflexivity|].
  rewrite IH. destruct (Z.eqb_spec c 101), (Z.eqb_spec c 69); try contradiction. reflexivity.
Qed.

Lemma qeq_refl v : qeq v v.
Proof. unfold qeq. reflexivity. Qed.

Lemma pow10_pos n : 0 < 10 ^ Z.of_nat n.
Proof. apply Z.pow_pos_nonneg; lia. Qed.

Lemma match_same {A B} (l : list A) (x : B) : match l with [] => x | _ :: _ => x end = x.
Proof. destruct l; reflexivity. Qed.

(* the main case: sign, digits, dot, digits, no exponent *)
Lemma mangle_frac sg ip f : signs sg -> digits ip -> digits f -> f <> [] ->
  exists sg' ip' fo', wf_num sg' ip' fo' NoExp /\
    fst (mangleNumber (render sg ip (Some f) NoExp)) = render sg' ip' fo' NoExp /\
    qeq (sgv sg * digits_val (ip ++ f), - Z.of_nat (length f))
        (sgv sg' * digits_val (ip' ++ frac_digits fo'), - Z.of_nat (length (frac_digits fo'))).
Proof.
  intros Hsg Hip Hf Hne.
  unfold render. cbn [frac_text exp_text]. rewrite app_nil_r.
  assert (Hpre46 : no46 (sg ++ ip)).
  { unfold no46. apply Forall_app. split.
    - destruct Hsg as [->|[->| ->]]; repeat constructor; lia.
    - eapply Forall_impl; [|exact Hip]. unfold dig. intros; lia. }
  unfold mangleNumber. rewrite app_assoc. rewrite (index_byte_app _ f Hpre46).
  assert (Hne_e : contains_e ((sg ++ ip) ++ 46 :: f) = false).
  { apply contains_e_false. apply Forall_app. split.
    - apply Forall_app. split.
      + destruct Hsg as [->|[->| ->]]; repeat constructor; lia.
      + eapply Forall_impl; [|exact Hip]. unfold dig. intros; lia.
    - constructor; [lia|]. eapply Forall_impl; [|exact Hf]. unfold dig. intros; lia. }
  rewrite Hne_e. rewrite strip_app.
  destruct (strip_decomp f) as [k Hk]. set (f' := strip_trailing_zeros f) in *.
  assert (Hf' : digits f') by (rewrite Hk in Hf; apply digits_app_inv in Hf; tauto).
  assert (Hval : digits_val (ip ++ f) = digits_val (ip ++ f') * 10 ^ Z.of_nat k).
  { rewrite Hk at 1. rewrite app_assoc, dv_app, dv_zeros, repeat_length. lia. }
  assert (Hlen : Z.of_nat (length f) = Z.of_nat (length f') + Z.of_nat k).
  { rewrite Hk at 1. rewrite app_length, repeat_length. lia. }
  cbn [fst]. remember (sg ++ ip) as pre eqn:Epre.
  destruct f' as [|d0 fr] eqn:Ef'.
  - (* all fractional digits were zeros *)
    assert (HL : Nat.eqb (S (length pre)) (length (pre ++ [46])) = true)
      by (apply Nat.eqb_eq; rewrite app_length; cbn [length]; lia).
    rewrite HL.
    assert (HF : firstn (length pre) (pre ++ [46]) = pre)
      by (rewrite firstn_app, Nat.sub_diag, firstn_all; cbn [firstn]; apply app_nil_r).
    rewrite HF. subst pre.
    exists sg, (match ip with [] => [48] | _ => ip end), None.
    split; [|split].
    + repeat split; try assumption.
      * destruct ip; [repeat constructor; unfold dig; lia | assumption].
      * destruct ip; discriminate.
    + unfold render. cbn [frac_text exp_text]. rewrite !app_nil_r.
      destruct Hsg as [->|[->| ->]]; destruct ip as [|i1 [|i2 ip]]; cbn [app]; try reflexivity.
      inversion Hip; subst. unfold dig in *. unfold is_sign. zb. reflexivity.
    + unfold qeq. cbn [fst snd frac_digits length]. rewrite app_nil_r in *. cbn [app] in Hval.
      rewrite Hval. rewrite Z.min_l by lia.
      replace (- Z.of_nat (length f) - - Z.of_nat (length f)) with 0 by lia.
      replace (- Z.of_nat 0 - - Z.of_nat (length f)) with (Z.of_nat k) by (cbn [length] in Hlen; lia).
      destruct ip; cbn [app]; rewrite ?dv_lead0; change (digits_val []) with 0; lia.
  - (* some fractional digits remain *)
    assert (HL : Nat.eqb (S (length pre)) (length (pre ++ 46 :: d0 :: fr)) = false)
      by (apply Nat.eqb_neq; rewrite app_length; cbn [length]; lia).
    rewrite HL. subst pre.
    assert (Hd0 : dig d0) by (inversion Hf'; assumption).
    exists sg, (match ip with [i] => if i =? 48 then [] else ip | _ => ip end), (Some (d0 :: fr)).
    split; [|split].
    + repeat split; try assumption; try discriminate.
      destruct ip as [|i [|]]; try assumption. destruct (i =? 48); [constructor | assumption].
    + unfold render. cbn [frac_text exp_text]. rewrite !app_nil_r.
      pose proof (isdig_dig d0 Hd0) as Id0. unfold isdig in Id0. unfold is_digit.
      destruct Hsg as [->|[->| ->]]; destruct ip as [|i1 [|i2 ip]]; cbn [app];
        repeat match goal with
        | H : digits (_ :: _) |- _ => inversion H; clear H; subst
        | H : Forall dig (_ :: _) |- _ => inversion H; clear H; subst
        end;
        unfold dig in *; unfold is_sign; cbn [andb orb];
        repeat match goal with
        | |- context [?a =? ?b] => destruct (Z.eqb_spec a b); try lia; cbn [andb orb]
        end; try rewrite Id0; cbn [andb orb]; try reflexivity;
        try (destruct fr; reflexivity);
        try (repeat match goal with |- context [match ?l with [] => _ | _ :: _ => _ end] => destruct l end; reflexivity).
    + unfold qeq. cbn [fst snd frac_digits]. rewrite Hval. rewrite Z.min_l by lia.
      replace (- Z.of_nat (length f) - - Z.of_nat (length f)) with 0 by lia.
      replace (- Z.of_nat (length (d0 :: fr)) - - Z.of_nat (length f)) with (Z.of_nat k) by lia.
      destruct ip as [|i [|]]; try lia.
      destruct (Z.eqb_spec i 48); [subst; cbn [app]; rewrite dv_lead0; cbn [app]; lia | lia].
Qed.

(* unchanged when there is no dot, or when there is an exponent *)
Lemma mangle_nodot sg ip x : signs sg -> digits ip -> wf_exp x ->
  fst (mangleNumber (render sg ip None x)) = render sg ip None x.
Proof.
  intros Hsg Hip Hx. unfold mangleNumber, render. cbn [frac_text app].
  rewrite index_byte_none; [reflexivity|].
  unfold no46. apply Forall_app. split; [destruct Hsg as [->|[->| ->]]; repeat constructor; lia|].
  apply Forall_app. split; [eapply Forall_impl; [|exact Hip]; unfold dig; intros; lia|].
  destruct x as [|c es ed]; cbn [exp_text]; [constructor|].
  destruct Hx as [Hc [Hes [Hed _]]]. constructor; [destruct Hc; lia|].
  apply Forall_app. split; [destruct Hes as [->|[->| ->]]; repeat constructor; lia|].
  eapply Forall_impl; [|exact Hed]; unfold dig; intros; lia.
Qed.

Lemma contains_e_app_true a c b : (c = 101 \/ c = 69) -> contains_e (a ++ c :: b) = true.
Proof.
  intros Hc. unfold contains_e. apply existsb_exists. exists c. split; [apply in_or_app; right; left; reflexivity|].
  destruct Hc as [->| ->]; reflexivity.
Qed.

Lemma mangle_exp sg ip fo c es ed :
  (c = 101 \/ c = 69) ->
  fst (mangleNumber (render sg ip fo (Exp c es ed))) = render sg ip fo (Exp c es ed).
Proof.
  intros Hc. unfold mangleNumber. destruct (index_byte 46 _); [|reflexivity].
  unfold render. cbn [exp_text]. rewrite !app_assoc. rewrite contains_e_app_true by exact Hc. reflexivity.
Qed.

(* mangleNumber preserves the value of every CSS number token *)
Theorem mangle_number_value_all : forall sg ip fo x, wf_num sg ip fo x ->
  exists v v', css_number_value (render sg ip fo x) = Some v /\
               css_number_value (fst (mangleNumber (render sg ip fo x))) = Some v' /\ qeq v v'.
Proof.
  intros sg ip fo x H. pose proof (css_value_render sg ip fo x H) as HV.
  destruct H as [Hsg [Hip [Hfo Hx]]].
  destruct x as [|c es ed].
  - destruct fo as [f|].
    + destruct Hfo as [Hf Hne].
      destruct (mangle_frac sg ip f Hsg Hip Hf Hne) as [sg' [ip' [fo' [Hwf [Heq Hq]]]]].
      eexists. eexists. split; [exact HV|]. rewrite Heq. split; [apply css_value_render; exact Hwf|].
      cbn [frac_digits exp_val]. rewrite !Z.add_0_r. exact Hq.
    + rewrite mangle_nodot by assumption. eexists. eexists. split; [exact HV|]. split; [exact HV | apply qeq_refl].
  - destruct Hx as [Hc Hrest]. rewrite mangle_exp by exact Hc.
    eexists. eexists. split; [exact HV|]. split; [exact HV | apply qeq_refl].
Qed.
