(* borderRadius.mangleCorner (a single corner longhand) preserves the semantics and the invariant. *)
From V Require Import Common.Base C12.Mangle C12.BoxTracker C12.BoxSpec C12.BoxLemmas C12.BoxTokens C12.BoxSem C12.BoxCompact
  C12.BoxInv C12.BoxOpCompact C12.BoxOpSide C12.GenSem C12.RadiusTracker C12.RadiusSpec C12.RadiusInv C12.RadiusOpCompact.

Lemma rappend_sem rs0 d d' :
  (forall e c, rsets e d' c = rsets e d c) -> b_imp d' = b_imp d ->
  is_other d = false -> is_other d' = false ->
  rsem_eq (rs0 ++ [Some d]) (rs0 ++ [Some d']).
Proof.
  intros Hs Hi Ho Ho'. split; [rewrite !app_length; reflexivity|]. split.
  - intros e imp c. rewrite !live_app, !glayer_app. cbn [live]. rewrite !glayer_one. unfold geff. rewrite Hi, Hs. reflexivity.
  - rewrite !live_app, !filter_app. cbn [live filter]. rewrite Ho, Ho'. reflexivity.
Qed.

Lemma rreset_trinv rs tr imp : rtrinv rs tr -> rtrinv rs (rreset_if_imp tr imp) /\ rt_imp (rreset_if_imp tr imp) = imp.
Proof.
  intros H. unfold rreset_if_imp. destruct (Bool.eqb (rt_imp tr) imp) eqn:E.
  - apply eqb_prop in E. split; assumption.
  - split; [apply rtrinv_none | reflexivity].
Qed.

Lemma turn_numeric t : is_numeric t = true -> is_numeric (turn t) = true.
Proof. destruct t as [| |v u| |]; cbn; auto. destruct (v =? 0); reflexivity. Qed.

Lemma numeric_trk t : is_numeric t = true -> trk false t = true.
Proof. unfold trk. intros ->. reflexivity. Qed.

(* with a status that is "safe", 0px -> 0 changes neither value nor validity of any numeric token of the list *)
Lemma safe_turn T t : forallb is_numeric T = true -> In t T ->
  let us := stat false T in
  let t' := if us_safe us then turn t else t in
  is_numeric t' = true /\ norm t' = norm t /\ (forall e, rok e t' = rok e t).
Proof.
  intros HT Hin us t'.
  assert (Hnum : is_numeric t = true) by (rewrite forallb_forall in HT; apply HT; exact Hin).
  unfold t'. destruct (us_safe us) eqn:Es; [|repeat split; assumption].
  assert (Eu : stat false T = USafe) by (fold us; destruct us; try discriminate; reflexivity).
  pose proof (stat_safe_dims false T USafe Eu) as F. rewrite Forall_forall in F. specialize (F t Hin Hnum).
  split; [apply turn_numeric; exact Hnum|].
  split; [apply (turn_safe (mkBE (fun _ => true) (fun _ => true) (fun _ _ => true)) false t F) | intros e; apply (turn_safe e false t F)].
Qed.

Lemma stat_numeric_valid e T : forallb is_numeric T = true -> stat false T <> UMixed ->
  forallb (rok e) T = us_valid e (stat false T).
Proof.
  intros HT HM. apply (stat_valid e false T); [|exact HM].
  rewrite forallb_forall in *. intros t Ht. apply numeric_trk. apply HT. exact Ht.
Qed.

Lemma corner_go_inv rs0 tr1 c0 imp t1 t2o :
  rtrinv rs0 tr1 -> rt_imp tr1 = imp -> (c0 < 4)%nat ->
  is_numeric t1 = true -> (forall t, t2o = Some t -> is_numeric t = true) ->
  let d := mkB (KSide c0) (match t2o with None => [t1] | Some t => [t1; t] end) imp in
  rsem_eq (rs0 ++ [Some d]) (fst (mangle_corner_go (rs0 ++ [Some d]) tr1 d c0 t1 t2o)) /\
  rtrinv (fst (mangle_corner_go (rs0 ++ [Some d]) tr1 d c0 t1 t2o)) (snd (mangle_corner_go (rs0 ++ [Some d]) tr1 d c0 t1 t2o)).
Proof.
  intros Hinv1 Himp1 Hc0 Hn1 Hn2o d. unfold mangle_corner_go.
  set (t2 := match t2o with Some t => t | None => t1 end).
  assert (Hn2 : is_numeric t2 = true) by (unfold t2; destruct t2o as [t|]; [apply Hn2o; reflexivity | exact Hn1]).
  change (include_unit (include_unit USafe t1) t2) with (stat false [t1; t2]).
  set (us := stat false [t1; t2]).
  assert (HT : forallb is_numeric [t1; t2] = true) by (cbn; rewrite Hn1, Hn2; reflexivity).
  destruct (safe_turn [t1; t2] t1 HT ltac:(left; reflexivity)) as [Nh [Hnh Hokh]].
  destruct (safe_turn [t1; t2] t2 HT ltac:(right; left; reflexivity)) as [Nv [Hnv Hokv]].
  fold us in Nh, Hnh, Hokh, Nv, Hnv, Hokv.
  set (h0 := if us_safe us then turn t1 else t1) in *.
  set (v0 := if us_safe us then turn t2 else t2) in *.
  set (second := match t2o with Some t => if us_safe us then turn t else t | None => t1 end).
  assert (Hsec : is_numeric second = true /\ norm second = norm v0 /\ forall e, rok e second = rok e v0).
  { unfold second. destruct t2o as [t|]; [repeat split; try reflexivity; exact Nv|].
    unfold t2 in *. repeat split; [exact Hn1 | symmetry; exact Hnv | intros e; symmetry; apply Hokv]. }
  destruct Hsec as [Nsec [Hnsec Hoksec]].
  set (one := match t2o with None => true | Some _ => tok_eqb h0 v0 end).
  assert (Hone : one = true -> v0 = h0).
  { unfold one. destruct t2o as [t|]; [intros H; symmetry; apply tok_eqb_eq; exact H | intros _; reflexivity]. }
  assert (Eval : match t2o with None => [h0] | Some _ => if tok_eqb h0 second then [h0] else [h0; second] end
                 = if one then [h0] else [h0; v0]).
  { unfold one, second. destruct t2o as [t|]; [|reflexivity]. reflexivity. }
  rewrite Eval. clear Eval.
  cbn [b_key b_imp b_val d].
  rewrite app_length. cbn [length]. replace (length rs0 + 1 - 1)%nat with (length rs0) by lia.
  set (d' := mkB (KSide c0) (if one then [h0] else [h0; v0]) imp).
  (* the rule array after the in-place token rewrite always ends with d' *)
  match goal with |- context [update_corner ?X tr1 c0 _] => assert (Hrs2 : X = rs0 ++ [Some d']) end.
  { destruct (leqb tok_eqb (if one then [h0] else [h0; v0]) (match t2o with None => [t1] | Some t => [t1; t] end)) eqn:Ec; [|apply set_nth_last].
    apply leqb_tok_eq in Ec. unfold d', d. rewrite Ec. reflexivity. }
  rewrite Hrs2. clear Hrs2.
  set (oned := match t2o with None => true | Some _ => false end).
  assert (Ed : d = mkB (KSide c0) (if oned then [t1] else [t1; t2]) imp).
  { unfold d, oned, t2. destruct t2o; reflexivity. }
  assert (Honed : oned = true -> t2 = t1) by (unfold oned, t2; destruct t2o; [discriminate | reflexivity]).
  assert (Hsem12 : rsem_eq (rs0 ++ [Some d]) (rs0 ++ [Some d'])).
  { apply rappend_sem; try (rewrite Ed; reflexivity); try reflexivity.
    intros e c. rewrite Ed. unfold d'. rewrite !rsets_single by assumption. rewrite Hokh, Hokv, Hnh, Hnv. reflexivity. }
  assert (Hd'shape : rshape d' c0 true h0 v0).
  { exists one. repeat split; assumption. }
  assert (Hd'v : forall e, rvalid e d' = rok e t1 && rok e t2).
  { intros e. unfold d'. rewrite rvalid_single by assumption. rewrite Hokh, Hokv. reflexivity. }
  assert (Hval : us <> UMixed -> forall e, rvalid e d' = us_valid e us).
  { intros HM e. rewrite Hd'v. pose proof (stat_numeric_valid e [t1; t2] HT HM) as V. cbn [forallb] in V.
    rewrite andb_true_r in V. exact V. }
  set (rs2 := rs0 ++ [Some d']).
  set (new := mkC h0 second us (length rs0) true).
  (* update_corner *)
  assert (HU : rsem_eq rs2 (fst (update_corner rs2 tr1 c0 new)) /\ rtrinv (fst (update_corner rs2 tr1 c0 new)) (snd (update_corner rs2 tr1 c0 new))).
  { destruct Hinv1 as [HC HE]. unfold update_corner. cbn [fst snd rc_single rc_us new].
    set (rs3 := match rt_corners tr1 c0 with
                | Some old => if (negb true || rc_single old) && us_safe (rc_us old) && us_safe us then set_nth (rc_idx old) None rs2 else rs2
                | None => rs2 end).
    assert (Hrs3 : length rs3 = length rs2 /\ nth_error rs3 (length rs0) = Some (Some d') /\
              forall j, nth_error rs3 j = nth_error rs2 j \/
                (nth_error rs3 j = Some None /\ us_safe us = true /\ exists o r, rt_corners tr1 c0 = Some o /\ j = rc_idx o /\ rc_single o = true /\ us_safe (rc_us o) = true /\ nth_error rs0 j = Some (Some r))).
    { assert (Hd' : nth_error rs2 (length rs0) = Some (Some d')) by (unfold rs2; rewrite nth_error_app2 by lia; rewrite Nat.sub_diag; reflexivity).
      unfold rs3. destruct (rt_corners tr1 c0) as [o|] eqn:Eo; [|repeat split; auto].
      destruct ((negb true || rc_single o) && us_safe (rc_us o) && us_safe us) eqn:Ec; [|repeat split; auto].
      apply andb_true_iff in Ec as [Ec Ec3]. apply andb_true_iff in Ec as [Ec1 Ec2]. cbn [negb orb] in Ec1.
      pose proof (HC c0 o Eo) as Tk. pose proof (rtracked_lt rs0 _ _ _ Tk) as Lo.
      destruct Tk as [r ? ? _ Hnth _ _ _ _ _ _ _ _ _ _].
      split; [apply set_nth_length|]. split; [rewrite nth_set_nth_other by lia; exact Hd'|].
      intros j. destruct (Nat.eq_dec j (rc_idx o)) as [->|Hne]; [|left; apply nth_set_nth_other; exact Hne].
      right. split; [apply nth_set_nth_same; unfold rs2; rewrite app_length; lia|]. split; [exact Ec3|].
      exists o, r. repeat split; assumption. }
    destruct Hrs3 as [HL3 [Hlast3 Hpt3]].
    assert (HL2 : length rs2 = S (length rs0)) by (unfold rs2; rewrite app_length; cbn; lia).
    assert (Hd'valid : us_safe us = true -> forall e, rsets e d' c0 = Some (RV (norm h0) (norm v0))).
    { intros Es e. destruct (rshape_facts d' c0 true h0 v0 Hc0 Hd'shape) as [_ [_ [_ [F4 _]]]]. rewrite F4.
      assert (Eu : us = USafe) by (destruct us; try discriminate; reflexivity).
      assert (HM : us <> UMixed) by (rewrite Eu; discriminate).
      rewrite (Hval HM e), Eu. reflexivity. }
    split.
    - apply (gblank_preserves rval rsets rsets_affects); [exact HL3 | rewrite HL2; replace (S (length rs0) - 1)%nat with (length rs0) by lia; rewrite Hlast3; unfold rs2; rewrite nth_error_app2 by lia; rewrite Nat.sub_diag; reflexivity |].
      intros j. destruct (Hpt3 j) as [E|[E [Es [o [r [Eo [-> [So [Uo Hr]]]]]]]]]; [left; exact E|].
      right. split; [exact E|]. pose proof (HC c0 o Eo) as Tk.
      destruct (rtracked_rule rs0 _ _ _ Tk) as [r1 [Hr1 [F1 [F2 [_ [_ [F6 _]]]]]]].
      rewrite Hr in Hr1. inversion Hr1; subst r1.
      exists r. split; [unfold rs2; rewrite nth_error_app1 by (apply (rtracked_lt rs0 _ _ _ Tk)); exact Hr|]. split; [exact F2|].
      intros e imp' c He. exists d'. split; [rewrite HL2; replace (S (length rs0) - 1)%nat with (length rs0) by lia; unfold rs2; rewrite nth_error_app2 by lia; rewrite Nat.sub_diag; reflexivity|].
      unfold geff in *. rewrite F1, Himp1 in He. cbn [b_imp d'].
      destruct (Bool.eqb imp imp'); [|contradiction].
      assert (Ec0 : c = c0).
      { destruct (Nat.eq_dec c c0) as [->|Hne]; [reflexivity|]. exfalso. apply He.
        apply rsets_affects. unfold affects. rewrite (F6 So). apply Nat.eqb_neq. lia. }
      subst c. rewrite (Hd'valid Es e). discriminate.
    - cbn [rt_imp]. split.
      + intros c rc Hrc. cbn [rt_corners] in Hrc. unfold set_corner in Hrc.
        destruct (Nat.eqb_spec c c0) as [->|Hne].
        * inversion Hrc; subst rc. rewrite Himp1.
          apply (RTracked rs3 imp c0 new d' h0 v0); cbn [new rc_idx rc_single rc_first rc_second rc_us d' b_imp b_val b_key]; try reflexivity; try assumption.
          intros j r' Hj Hr. exfalso. assert (nth_error rs3 j = None) by (apply nth_error_None; lia). congruence.
        * pose proof (HC c rc Hrc) as Tk. rewrite Himp1 in Tk.
          pose proof (rtracked_lt rs0 _ _ _ Tk) as Lsd.
          assert (Hkeep : nth_error rs3 (rc_idx rc) = nth_error rs0 (rc_idx rc)).
          { destruct (Hpt3 (rc_idx rc)) as [E|[_ [_ [o [r [Eo [Ej [So [_ Hr]]]]]]]]].
            - rewrite E. unfold rs2. apply nth_error_app1. exact Lsd.
            - exfalso.
              destruct (rtracked_rule rs0 _ _ _ (HC c0 o Eo)) as [ro [Hro [_ [_ [_ [_ [F6 _]]]]]]].
              destruct (rtracked_rule rs0 _ _ _ Tk) as [rs_ [Hrs [_ [_ [_ [_ [G6 [G7 _]]]]]]]].
              rewrite Ej, Hro in Hrs. inversion Hrs; subst rs_.
              destruct (rc_single rc) eqn:Ssd.
              + rewrite (F6 So) in G6. specialize (G6 eq_refl). inversion G6. lia.
              + rewrite (F6 So) in G7. specialize (G7 eq_refl). discriminate. }
          cbn [rt_imp]. rewrite Himp1. apply (rtracked_transfer rs0 rs3 imp c rc Tk Hkeep).
          intros j r' Hj Hr. destruct (Nat.lt_ge_cases j (length rs0)) as [Hlt|Hge].
          -- left. destruct (Hpt3 j) as [E|[E _]]; [|congruence]. rewrite E in Hr. unfold rs2 in Hr. rewrite nth_error_app1 in Hr by exact Hlt. exact Hr.
          -- right. destruct (Nat.eq_dec j (length rs0)) as [->|Hne2].
             ++ rewrite Hlast3 in Hr. inversion Hr; subst r'. unfold affects. cbn. apply Nat.eqb_neq. lia.
             ++ exfalso. assert (nth_error rs3 j = None) by (apply nth_error_None; lia). congruence.
      + intros c c' rc rc' Hrc Hrc' S1 S2. cbn [rt_corners] in Hrc, Hrc'. unfold set_corner in Hrc, Hrc'.
        destruct (Nat.eqb c c0); [inversion Hrc; subst rc; discriminate S1|].
        destruct (Nat.eqb c' c0); [inversion Hrc'; subst rc'; discriminate S2|].
        eapply HE; eassumption. }
  destruct HU as [HU1 HU2].
  destruct (rcompact_inv _ _ HU2) as [HC1 [HC2 _]].
  split; [|exact HC2].
  eapply gsem_eq_trans; [exact Hsem12|]. eapply gsem_eq_trans; [exact HU1 | exact HC1].
Qed.

Lemma mangle_corner_inv rs0 tr d c0 :
  rtrinv rs0 tr -> b_key d = KSide c0 -> (c0 < 4)%nat ->
  rsem_eq (rs0 ++ [Some d]) (fst (mangle_corner (rs0 ++ [Some d]) tr d c0)) /\
  rtrinv (fst (mangle_corner (rs0 ++ [Some d]) tr d c0)) (snd (mangle_corner (rs0 ++ [Some d]) tr d c0)).
Proof.
  intros Hinv Hkey Hc0. destruct d as [k l imp]. cbn [b_key] in Hkey. subst k.
  unfold mangle_corner. cbn [b_val b_imp].
  destruct (rreset_trinv rs0 tr imp Hinv) as [Hinv1 Himp1].
  set (tr1 := rreset_if_imp tr imp) in *.
  assert (Hreset : rsem_eq (rs0 ++ [Some (mkB (KSide c0) l imp)]) (rs0 ++ [Some (mkB (KSide c0) l imp)]) /\
                   rtrinv (rs0 ++ [Some (mkB (KSide c0) l imp)]) (mkRT no_corners (rt_imp tr1))).
  { split; [apply gsem_eq_refl | apply rtrinv_none]. }
  destruct l as [|t1 [|t2 [|t3 l3]]]; try exact Hreset.
  - destruct (is_numeric t1) eqn:N1; [|exact Hreset].
    apply (corner_go_inv rs0 tr1 c0 imp t1 None Hinv1 Himp1 Hc0 N1). intros t H; discriminate H.
  - destruct (is_numeric t1 && is_numeric t2) eqn:N; [|exact Hreset]. apply andb_true_iff in N as [N1 N2].
    apply (corner_go_inv rs0 tr1 c0 imp t1 (Some t2) Hinv1 Himp1 Hc0 N1). intros t H; inversion H as [H1]; rewrite <- H1; exact N2.
Qed.
