(* The border-radius tracker pass of processDeclarations preserves, in every
   browser, the value (both radii) of each of the four corners, and leaves all
   other declarations alone. *)
From V Require Import Common.Base C12.Mangle C12.BoxTracker C12.BoxSpec C12.BoxLemmas C12.BoxTokens C12.BoxSem C12.BoxCompact
  C12.GenSem C12.RadiusTracker C12.RadiusSpec C12.RadiusInv C12.RadiusOpCompact C12.RadiusOpCorner C12.RadiusOpShort.

Lemma rlayer_glayer e imp c l : rlayer e imp c l = glayer rval rsets e imp c l.
Proof. reflexivity. Qed.

Lemma rlayer_app e imp c l1 l2 : rlayer e imp c (l1 ++ l2) =
  match rlayer e imp c l2 with Some v => Some v | None => rlayer e imp c l1 end.
Proof. apply (glayer_app rval rsets). Qed.

Definition rinv (inL : list bdecl) (st : rules * rtracker) : Prop :=
  (forall e imp c, rlayer e imp c (live (fst st)) = rlayer e imp c inL) /\
  filter is_other (live (fst st)) = filter is_other inL /\
  rtrinv (fst st) (snd st).

Lemma rinv_append inL rs d :
  (forall e imp c, rlayer e imp c (live rs) = rlayer e imp c inL) ->
  filter is_other (live rs) = filter is_other inL ->
  (forall e imp c, rlayer e imp c (live (rs ++ [Some d])) = rlayer e imp c (inL ++ [d])) /\
  filter is_other (live (rs ++ [Some d])) = filter is_other (inL ++ [d]).
Proof.
  intros HA HB. split.
  - intros e imp c. rewrite live_app, !rlayer_app. cbn [live]. rewrite HA. reflexivity.
  - rewrite live_app, !filter_app, HB. reflexivity.
Qed.

Lemma rinv_sem inL rs rs' tr' d :
  (forall e imp c, rlayer e imp c (live rs) = rlayer e imp c inL) ->
  filter is_other (live rs) = filter is_other inL ->
  rsem_eq (rs ++ [Some d]) rs' -> rtrinv rs' tr' -> rinv (inL ++ [d]) (rs', tr').
Proof.
  intros HA HB [_ [HS HO]] HT. destruct (rinv_append inL rs d HA HB) as [HA' HB'].
  split; [|split]; cbn [fst snd].
  - intros e imp c. rewrite <- HA'. apply HS.
  - rewrite HO. exact HB'.
  - exact HT.
Qed.

Lemma rstep_inv inL st d :
  match b_key d with KSide c => (c < 4)%nat | _ => True end ->
  rinv inL st -> rinv (inL ++ [d]) (radius_step st d).
Proof.
  intros Hwf [HA [HB HT]]. destruct st as [rs tr]. cbn [fst snd] in *. unfold radius_step.
  destruct (b_key d) as [|c|i] eqn:Ek.
  - destruct (mangle_corners_inv rs tr d HT Ek) as [S1 T1].
    destruct (mangle_corners (rs ++ [Some d]) tr d) as [rs' tr'] eqn:E. cbn [fst snd] in *.
    eapply rinv_sem; eassumption.
  - destruct (mangle_corner_inv rs tr d c HT Ek Hwf) as [S1 T1].
    destruct (mangle_corner (rs ++ [Some d]) tr d c) as [rs' tr'] eqn:E. cbn [fst snd] in *.
    eapply rinv_sem; eassumption.
  - destruct (rinv_append inL rs d HA HB) as [HA' HB'].
    split; [exact HA'|]. split; [exact HB'|]. cbn [fst snd].
    destruct HT as [HC HE]. split; [|exact HE].
    intros c rc Hrc. pose proof (HC c rc Hrc) as Tk.
    pose proof (rtracked_lt rs _ _ _ Tk) as Lt.
    apply (rtracked_transfer rs (rs ++ [Some d]) _ c rc Tk); [apply nth_error_app1; exact Lt|].
    intros j r' Hj Hr. destruct (Nat.lt_ge_cases j (length rs)) as [Hl|Hg].
    + left. rewrite nth_error_app1 in Hr by exact Hl. exact Hr.
    + right. rewrite nth_error_app2 in Hr by exact Hg.
      destruct (j - length rs)%nat as [|n]; cbn in Hr; [|destruct n; discriminate].
      inversion Hr; subst r'. unfold affects. rewrite Ek. reflexivity.
Qed.

Lemma rfold_inv : forall l inL st, wf_keys l -> rinv inL st ->
  rinv (inL ++ l) (fold_left radius_step l st).
Proof.
  induction l as [|d l IH]; intros inL st Hwf H; cbn [fold_left]; [rewrite app_nil_r; exact H|].
  inversion Hwf as [|? ? Hd Hl]; subst.
  replace (inL ++ d :: l) with ((inL ++ [d]) ++ l) by (rewrite <- app_assoc; reflexivity).
  apply IH; [exact Hl|]. apply rstep_inv; assumption.
Qed.

Lemma rinv0 : rinv [] ([], rtracker0).
Proof. split; [reflexivity|]. split; [reflexivity|]. apply rtrinv_none. Qed.

Theorem radius_layers_all : forall l, wf_keys l -> forall e imp c,
  rlayer e imp c (radius_process l) = rlayer e imp c l.
Proof. intros l Hwf e imp c. destruct (rfold_inv l [] _ Hwf rinv0) as [HA _]. apply HA. Qed.

Theorem radius_collapse_keeps_corners_all : forall l, wf_keys l -> forall e c,
  corner_value e (radius_process l) c = corner_value e l c.
Proof. intros l Hwf e c. unfold corner_value. rewrite !radius_layers_all by exact Hwf. reflexivity. Qed.

Theorem radius_collapse_keeps_others_all : forall l, wf_keys l ->
  filter is_other (radius_process l) = filter is_other l.
Proof. intros l Hwf. destruct (rfold_inv l [] _ Hwf rinv0) as [_ [HB _]]. apply HB. Qed.
