(* The whole mangleRules loop (empty-rule removal, nested duplicate @media
   unwrapping, adjacent merging, then the back-to-front duplicate removal)
   preserves every winner.  Layer collapsing ("@layer a { @layer b {..} }" =>
   "@layer a.b {..}") is excluded by hypothesis: it renumbers the declared
   layers and is tied by the correspondence and oracle runs only. *)
From V Require Import Common.Base C12.Cascade C12.CascadeProofs C12.Mangle C12.MangleProofs C12.MergeProofs C12.LayerCollapse.

Section Equiv.
  Variable w : world.

  Definition equiv (L1 L2 : list item) : Prop :=
    forall pre post e p, winner w (pre ++ L1 ++ post) e p = winner w (pre ++ L2 ++ post) e p.

  Lemma equiv_refl L : equiv L L.
  Proof. intros pre post e p. reflexivity. Qed.
  Lemma equiv_trans A B C : equiv A B -> equiv B C -> equiv A C.
  Proof. intros H1 H2 pre post e p. rewrite H1. apply H2. Qed.
  Lemma equiv_sym A B : equiv A B -> equiv B A.
  Proof. intros H pre post e p. symmetry. apply H. Qed.

  Lemma equiv_ctx X Y A B : equiv A B -> equiv (X ++ A ++ Y) (X ++ B ++ Y).
  Proof.
    intros H pre post e p.
    replace (pre ++ (X ++ A ++ Y) ++ post) with ((pre ++ X) ++ A ++ (Y ++ post)) by (rewrite <- !app_assoc; reflexivity).
    replace (pre ++ (X ++ B ++ Y) ++ post) with ((pre ++ X) ++ B ++ (Y ++ post)) by (rewrite <- !app_assoc; reflexivity).
    apply H.
  Qed.

  Definition stmts (L : list item) : list (list Z) :=
    map i_layer (filter (fun it => i_stmt it && conds_hold w (i_conds it)) L).

  Lemma equiv_of_same L1 L2 :
    stmts L1 = stmts L2 ->
    (forall D e p, best (cands w D e p L1) = best (cands w D e p L2)) ->
    equiv L1 L2.
  Proof.
    intros HS HC pre post e p. unfold winner.
    assert (HD : declared w (pre ++ L1 ++ post) = declared w (pre ++ L2 ++ post)).
    { unfold declared. rewrite !filter_app, !map_app. unfold stmts in HS. rewrite HS. reflexivity. }
    rewrite HD. f_equal. unfold cands. rewrite !flat_map_app, !best_app.
    unfold cands in HC. rewrite HC. reflexivity.
  Qed.

  (* items that differ only in their condition lists, with the same truth *)
  Definition isim (a b : item) : Prop :=
    i_stmt a = i_stmt b /\ i_layer a = i_layer b /\ i_sels a = i_sels b /\ i_decls a = i_decls b /\
    conds_hold w (i_conds a) = conds_hold w (i_conds b).

  Lemma isim_equiv L1 L2 : Forall2 isim L1 L2 -> equiv L1 L2.
  Proof.
    intros H. apply equiv_of_same.
    - unfold stmts. induction H as [|a b L1 L2 [H1 [H2 [H3 [H4 H5]]]] HL IH]; [reflexivity|].
      cbn [filter]. rewrite H1, H5. destruct (i_stmt b && conds_hold w (i_conds b)); cbn [map]; rewrite ?H2, IH; reflexivity.
    - intros D e p. f_equal. unfold cands.
      induction H as [|a b L1 L2 [H1 [H2 [H3 [H4 H5]]]] HL IH]; [reflexivity|].
      cbn [flat_map]. rewrite IH. f_equal.
      unfold item_cands, item_active. rewrite H1, H2, H3, H4, H5. reflexivity.
  Qed.

  Lemma Forall2_flat_map {A} (f g : A -> list item) (l : list A) :
    Forall (fun x => Forall2 isim (f x) (g x)) l -> Forall2 isim (flat_map f l) (flat_map g l).
  Proof.
    induction 1 as [|x l Hx Hl IH]; cbn [flat_map]; [constructor|].
    apply Forall2_app; assumption.
  Qed.

  Lemma isim_refl_list L : Forall2 isim L L.
  Proof. induction L; constructor; auto. repeat split; reflexivity. Qed.

  Lemma flatten_conds_sim : forall r c1 c2 layer,
    (forall x, conds_hold w (c1 ++ x) = conds_hold w (c2 ++ x)) ->
    Forall2 isim (flatten c1 layer r) (flatten c2 layer r).
  Proof.
    induction r as [s d|q body IH|t p body IH|n aid body IH|k i|i|i] using rule_ind';
      intros c1 c2 layer H; cbn [flatten]; try constructor.
    - repeat split; cbn [i_conds]. specialize (H []). rewrite !app_nil_r in H. exact H.
    - constructor.
    - apply Forall2_flat_map. eapply Forall_impl; [|exact IH]. intros r Hr. apply Hr.
      intros x. rewrite <- !app_assoc. apply H.
    - apply Forall2_flat_map. eapply Forall_impl; [|exact IH]. intros r Hr. apply Hr.
      intros x. rewrite <- !app_assoc. apply H.
    - assert (HS : forall l, isim (stmt_item c1 l) (stmt_item c2 l)).
      { intros l. repeat split. cbn [i_conds stmt_item]. specialize (H []). rewrite !app_nil_r in H. exact H. }
      destruct n as [|n1 [|n2 ns]].
      + constructor; [apply HS|]. apply Forall2_flat_map. eapply Forall_impl; [|exact IH]. intros r Hr. apply Hr. exact H.
      + constructor; [apply HS|]. apply Forall2_flat_map. eapply Forall_impl; [|exact IH]. intros r Hr. apply Hr. exact H.
      + apply Forall2_app.
        * generalize (n1 :: n2 :: ns). intros l. induction l; cbn [map]; constructor; auto.
        * apply Forall2_flat_map. eapply Forall_impl; [|exact IH]. intros r Hr. apply Hr. exact H.
  Qed.

  (* an item without declarations that is not a statement is neutral *)
  Lemma equiv_empty_item conds layer sels : equiv [mkItem false conds layer sels []] [].
  Proof.
    apply equiv_of_same; [reflexivity|].
    intros D e p. unfold cands. cbn [flat_map]. rewrite app_nil_r. unfold item_cands. cbn [i_decls filter map].
    destruct (item_active w _); [|reflexivity]. destruct (best_spec w _ e); reflexivity.
  Qed.
End Equiv.

Definition silent (r : rule) : Prop := match r with RComment _ => True | _ => False end.

Definition no_collapse (r : rule) : Prop :=
  match r with
  | RLayer [_] _ [RLayer [_] _ _] => False
  | _ => True
  end.

Lemma set_nth_app {A} (o1 : list A) x y cs : set_nth (length o1) x (o1 ++ y :: cs) = o1 ++ x :: cs.
Proof. induction o1 as [|a o1 IH]; cbn [length set_nth app]; [reflexivity|]. rewrite IH. reflexivity. Qed.

Lemma nth_error_mid {A} (o1 : list A) y cs : nth_error (o1 ++ y :: cs) (length o1) = Some y.
Proof. induction o1 as [|a o1 IH]; cbn; [reflexivity | exact IH]. Qed.

Section Loop.
  Variable w : world.
  Variable conds layer encl : list Z.
  (* the @media rules the parser is inside of are among the conditions of the context *)
  Hypothesis Hencl : forall q, In q encl -> In q conds.
  (* isSafeSelectors: what esbuild calls safe is understood by the browsers considered *)
  Hypothesis Hsafe : forall s, s_safe s = true -> sel_understood w (s_id s) = true.

  Notation FL := (flatten_list conds layer).

  Lemma FL_app a b : FL (a ++ b) = FL a ++ FL b.
  Proof. unfold flatten_list. apply flat_map_app. Qed.

  Lemma FL_silent cs : Forall silent cs -> FL cs = [].
  Proof.
    induction 1 as [|c cs Hc Hcs IH]; [reflexivity|].
    unfold flatten_list in *. cbn [flat_map]. rewrite IH. destruct c; try contradiction. reflexivity.
  Qed.

  Definition inv (out : list rule) (prev : option nat) : Prop :=
    match prev with
    | None => True
    | Some i => exists o1 ps pd cs, out = o1 ++ RSel ps pd :: cs /\ length o1 = i /\ Forall silent cs
    end.

  Lemma unwrap_equiv q body : In q encl ->
    equiv w (FL body) (flatten conds layer (RMedia q body)).
  Proof.
    intros Hq. cbn [flatten]. unfold flatten_list. apply isim_equiv.
    apply Forall2_flat_map. apply Forall_forall. intros r _.
    apply flatten_conds_sim. intros x.
    unfold conds_hold. rewrite <- app_assoc. rewrite !forallb_app. cbn [forallb app].
    destruct (forallb (cond_true w) conds) eqn:E; [|reflexivity].
    rewrite forallb_forall in E. rewrite (E q (Hencl q Hq)). reflexivity.
  Qed.

  Lemma mr_equiv : forall rules out prev,
    inv out prev ->
    equiv w (FL (mr encl rules out prev)) (FL (out ++ rules)).
  Proof.
    induction rules as [|r rest IH]; intros out prev Hinv.
    - cbn [mr]. rewrite app_nil_r. apply equiv_refl.
    - assert (Happend : forall prev', inv (out ++ [r]) prev' ->
                equiv w (FL (mr encl rest (out ++ [r]) prev')) (FL (out ++ r :: rest))).
      { intros prev' Hi. replace (out ++ r :: rest) with ((out ++ [r]) ++ rest) by (rewrite <- app_assoc; reflexivity).
        apply IH; assumption. }
      assert (Hskip : FL [r] = [] -> forall prev', inv out prev' ->
                equiv w (FL (mr encl rest out prev')) (FL (out ++ r :: rest))).
      { intros Hnil prev' Hi. eapply equiv_trans; [apply IH; assumption|].
        replace (out ++ r :: rest) with (out ++ [r] ++ rest) by reflexivity.
        rewrite !FL_app, Hnil. apply equiv_refl. }
      destruct r as [sels decls|q body|tok pre body|names aid body|k i|i|i]; cbn [mr].
      + (* RSel *)
        destruct (is_nil decls) eqn:En.
        * destruct decls; [|discriminate].
          eapply equiv_trans; [apply IH; assumption|].
          replace (out ++ RSel sels [] :: rest) with (out ++ [RSel sels []] ++ rest) by reflexivity.
          rewrite !FL_app.
          apply (equiv_ctx w (FL out) (FL rest) [] (FL [RSel sels []])).
          apply equiv_sym. unfold flatten_list. cbn [flat_map flatten app]. apply equiv_empty_item.
        * assert (Hnew : equiv w (FL (mr encl rest (out ++ [RSel sels decls]) (Some (length out))))
                                 (FL (out ++ RSel sels decls :: rest))).
          { apply Happend. exists out, sels, decls, []. repeat split. constructor. }
          destruct prev as [i|]; [|exact Hnew].
          destruct Hinv as [o1 [ps [pd [cs [Hout [Hlen Hcs]]]]]]. subst out i.
          rewrite nth_error_mid.
          destruct (leqb decl_eqb decls pd && forallb s_safe sels && forallb s_safe ps) eqn:Ec; [|exact Hnew].
          apply andb_true_iff in Ec as [Ec Hsp]. apply andb_true_iff in Ec as [Hd Hss].
          apply leqb_decl in Hd. subst decls. rewrite set_nth_app.
          eapply equiv_trans.
          { apply IH. exists o1, (merge_sels ps sels), pd, cs. repeat split. exact Hcs. }
          replace ((o1 ++ RSel ps pd :: cs) ++ RSel sels pd :: rest)
            with (o1 ++ ([RSel ps pd] ++ cs ++ [RSel sels pd]) ++ rest) by (rewrite <- !app_assoc; reflexivity).
          replace ((o1 ++ RSel (merge_sels ps sels) pd :: cs) ++ rest)
            with (o1 ++ ([RSel (merge_sels ps sels) pd] ++ cs) ++ rest) by (rewrite <- !app_assoc; reflexivity).
          rewrite !FL_app. rewrite (FL_silent cs Hcs).
          apply equiv_ctx. rewrite !app_nil_r. cbn [app].
          unfold flatten_list. cbn [flat_map flatten app].
          intros pre post e p. apply adjacent_merge_keeps_winner_all.
          intros s Hs. apply Hsafe. apply in_app_or in Hs as [Hs|Hs].
          -- rewrite forallb_forall in Hsp. apply Hsp. exact Hs.
          -- rewrite forallb_forall in Hss. apply Hss. exact Hs.
      + (* RMedia *)
        destruct (is_nil body) eqn:En.
        * destruct body; [|discriminate]. apply Hskip; [reflexivity | exact Hinv].
        * destruct (existsb (Z.eqb q) encl) eqn:Ex.
          -- apply existsb_exists in Ex as [q' [Hq' Hqq]]. apply Z.eqb_eq in Hqq. subst q'.
             eapply equiv_trans.
             { apply IH.
               destruct body as [|b0 body0]; [discriminate|].
               destruct (last (b0 :: body0) (RComment 0)) eqn:El; try exact I.
               pose proof (@app_removelast_last _ (b0 :: body0) (RComment 0) ltac:(discriminate)) as HL.
               rewrite El in HL.
               exists (out ++ removelast (b0 :: body0)), sels, decls, []. split; [|split].
               - rewrite HL at 1. rewrite <- app_assoc. reflexivity.
               - rewrite app_length. rewrite HL at 2. rewrite app_length. cbn [length]. lia.
               - constructor. }
             replace (out ++ RMedia q body :: rest) with (out ++ [RMedia q body] ++ rest) by reflexivity.
             rewrite <- app_assoc. rewrite !FL_app. apply equiv_ctx.
             unfold flatten_list at 2. cbn [flat_map]. rewrite app_nil_r.
             apply unwrap_equiv. exact Hq'.
          -- apply Happend. exact I.
      + (* RCond *)
        destruct (is_nil body) eqn:En.
        * destruct body; [|discriminate].
          apply Hskip; [reflexivity | exact Hinv].
        * apply Happend. exact I.
      + (* RLayer: "@layer a { @layer b { X } }" => "@layer a.b { X }" *)
        set (r' := match names, body with
                   | [n1], [RLayer [n2] _ body2] => RLayer [n1 ++ n2] aid body2
                   | _, _ => RLayer names aid body
                   end).
        assert (HR : equiv w (FL [r']) (FL [RLayer names aid body])).
        { unfold r'.
          destruct names as [|n1 [|]]; try apply equiv_refl;
          destruct body as [|b body']; try apply equiv_refl;
          destruct b as [| | |names2 ? body2| | |]; try apply equiv_refl;
          destruct names2 as [|n2 [|]]; try apply equiv_refl;
          destruct body'; try apply equiv_refl.
          unfold flatten_list. cbn [flat_map flatten]. rewrite !app_nil_r, app_assoc.
          intros pre post e p.
          apply (stmt_prefix_redundant w conds (layer ++ n1) n2 pre (flat_map (flatten conds ((layer ++ n1) ++ n2)) body2 ++ post) e p). }
        eapply equiv_trans; [apply IH; exact I|].
        replace ((out ++ [r']) ++ rest) with (out ++ [r'] ++ rest) by (rewrite <- app_assoc; reflexivity).
        replace (out ++ RLayer names aid body :: rest) with (out ++ [RLayer names aid body] ++ rest) by reflexivity.
        rewrite !FL_app. apply equiv_ctx. exact HR.
      + apply Happend. exact I.
      + apply Happend. exact I.
      + (* RComment *)
        apply Happend. destruct prev as [j|]; [|exact I].
        destruct Hinv as [o1 [ps [pd [cs [Hout [Hlen Hcs]]]]]]. subst out.
        exists o1, ps, pd, (cs ++ [RComment i]). split; [|split].
        * rewrite <- app_assoc. reflexivity.
        * exact Hlen.
        * apply Forall_app. split; [exact Hcs | repeat constructor].
  Qed.

  Hypothesis Hdead : forall s e, s_dead s = true -> matches w (s_id s) e = false.

  (* mangleRules as a whole *)
  Theorem mangle_rules_keeps_winner_all : forall rules top,
    forall pre post e p,
    winner w (pre ++ FL (mangle_rules encl rules top) ++ post) e p =
    winner w (pre ++ FL rules ++ post) e p.
  Proof.
    intros rules top. unfold mangle_rules.
    assert (H : equiv w (FL (mr encl rules [] None)) (FL rules)).
    { apply (mr_equiv rules [] None I). }
    destruct top; [exact H|].
    eapply equiv_trans; [|exact H].
    intros pre post e p. apply dedupe_keeps_winner_all. exact Hdead.
  Qed.
End Loop.
