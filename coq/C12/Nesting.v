(* C12 model, part 8: internal/css_parser/css_nesting.go, the lowering of a
   nested style rule's selectors (lowerNestingInRuleWithContext pass 1 and the
   ":is()-available / single parent" branch of pass 2,
   substituteAmpersandsInCompoundSelector, multipleComplexSelectorsToSingleComplexSelector),
   together with a selector semantics over an abstract element structure.
   Executable definitions only; tied to the Go code by nest_cases.

   Fragment: type selectors, classes, :is(...) / :not(...) with selector-list
   arguments (nested arbitrarily), the four combinators, at most one "&" per
   compound selector, "&" anywhere (also inside pseudo-class arguments).

   comb: 0 = none (first compound) or descendant, 1 = ">", 2 = "+", 3 = "~".

   The Go code re-runs the substitution over the sub-selectors it has just
   inserted from the parent; those contain no "&" any more (the parent was
   substituted before), so that pass rebuilds what it reads.  The model only
   recurses into the nested rule's own pseudo-class arguments.  (The pointer
   sharing this involves matters only in the cross-product branch: C12-N.) *)
From V Require Import Common.Base.

Inductive compound := Cp (comb : Z) (amp : bool) (ty : option Z) (subs : sublist)
with sublist := SNil | SClass (id : Z) (rest : sublist) | SPc (neg : bool) (args : sellist) (rest : sublist)
with complex := XNil | XCons (c : compound) (rest : complex)
with sellist := LNil | LCons (x : complex) (rest : sellist).

Scheme compound_mut := Induction for compound Sort Prop
with sublist_mut := Induction for sublist Sort Prop
with complex_mut := Induction for complex Sort Prop
with sellist_mut := Induction for sellist Sort Prop.
Combined Scheme sel_mutind from compound_mut, sublist_mut, complex_mut, sellist_mut.

Definition c_comb (c : compound) : Z := match c with Cp k _ _ _ => k end.
Definition c_ty (c : compound) : option Z := match c with Cp _ _ t _ => t end.
Definition c_subs (c : compound) : sublist := match c with Cp _ _ _ s => s end.
Definition clear_comb (c : compound) : compound := match c with Cp _ a t s => Cp 0 a t s end.

Fixpoint sapp (a b : sublist) : sublist :=
  match a with SNil => b | SClass i r => SClass i (sapp r b) | SPc n l r => SPc n l (sapp r b) end.
Fixpoint xapp (a b : complex) : complex := match a with XNil => b | XCons c r => XCons c (xapp r b) end.
Definition xsnoc (a : complex) (c : compound) : complex := xapp a (XCons c XNil).
Fixpoint xlen (a : complex) : nat := match a with XNil => O | XCons _ r => S (xlen r) end.
Definition xnil (a : complex) : bool := match a with XNil => true | _ => false end.
(* all but the last compound, and the last compound *)
Fixpoint xsplit (a : complex) : option (complex * compound) :=
  match a with
  | XNil => None
  | XCons c r => match xsplit r with None => Some (XNil, c) | Some (p, l) => Some (XCons c p, l) end
  end.
Definition clear_first (a : complex) : complex := match a with XNil => XNil | XCons c r => XCons (clear_comb c) r end.
Definition first_comb (a : complex) : Z := match a with XNil => 0 | XCons c _ => c_comb c end.

(* ------------------------------------------------------------------ *)
(* the substitution *)
Section Subst.
  Variable repl : complex.      (* what "&" is replaced with *)

  Definition is_type (u : Z) : sublist := SPc false (LCons (XCons (Cp 0 false (Some u) SNil) XNil) LNil) SNil.

  (* "Insert the type selector" / "Insert the subclass selectors" *)
  Definition merge_into (k : Z) (single : compound) (sty : option Z) (ssubs : sublist) : compound :=
    match c_ty single with
    | Some t => Cp k false (Some t) (sapp (match sty with Some u => is_type u | None => SNil end) (sapp (c_subs single) ssubs))
    | None => Cp k false sty (sapp (c_subs single) ssubs)
    end.

  (* one "&" of a compound selector with combinator scomb, type sty, (already substituted) sub-selectors ssubs *)
  Definition subst_amp (strip : bool) (scomb : Z) (sty : option Z) (ssubs : sublist) (results : complex) : complex :=
    let n := xlen repl in
    match xsplit repl with
    | None => results
    | Some (prefix, single) =>
      if (scomb =? 0) && ((n =? 1)%nat || xnil results) then
        let prefix' := if strip && (1 <? n)%nat then clear_first prefix else prefix in
        let single' := if strip && (n =? 1)%nat then clear_comb single else single in
        xsnoc (xapp results prefix') (merge_into (c_comb single') single' sty ssubs)
      else if (n =? 1)%nat then
        xsnoc results (merge_into scomb single sty ssubs)
      else
        xsnoc results (merge_into scomb (Cp 0 false None (SPc false (LCons repl LNil) SNil)) sty ssubs)
    end.

  Fixpoint sb_c (strip : bool) (c : compound) (results : complex) {struct c} : complex :=
    match c with
    | Cp scomb samp sty ssubs =>
      let ssubs' := sb_s ssubs in
      if samp then subst_amp strip scomb sty ssubs' results
      else xsnoc results (Cp scomb false sty ssubs')
    end
  with sb_s (s : sublist) {struct s} : sublist :=
    match s with
    | SNil => SNil
    | SClass i r => SClass i (sb_s r)
    | SPc n l r => SPc n (sb_l l) (sb_s r)
    end
  with sb_x (strip : bool) (cx : complex) (results : complex) {struct cx} : complex :=
    match cx with
    | XNil => results
    | XCons c r => sb_x strip r (sb_c strip c results)
    end
  with sb_l (l : sellist) {struct l} : sellist :=
    match l with
    | LNil => LNil
    | LCons cx r => LCons (sb_x true cx XNil) (sb_l r)
    end.
End Subst.

(* does the selector contain "&" anywhere *)
Fixpoint has_amp_c (c : compound) : bool := match c with Cp _ a _ s => a || has_amp_s s end
with has_amp_s (s : sublist) : bool :=
  match s with SNil => false | SClass _ r => has_amp_s r | SPc _ l r => has_amp_l l || has_amp_s r end
with has_amp_x (cx : complex) : bool := match cx with XNil => false | XCons c r => has_amp_c c || has_amp_x r end
with has_amp_l (l : sellist) : bool := match l with LNil => false | LCons cx r => has_amp_x cx || has_amp_l r end.

Fixpoint llen (l : sellist) : nat := match l with LNil => O | LCons _ r => S (llen r) end.

(* ComplexSelector.IsRelative, then "Inject the implicit & now" *)
Definition is_relative (cx : complex) : bool := negb ((first_comb cx =? 0) && has_amp_x cx).
Definition inject_amp (cx : complex) : complex :=
  if is_relative cx then XCons (Cp 0 true None SNil) cx else cx.

(* multipleComplexSelectorsToSingleComplexSelector (parents without leading combinators) *)
Definition parents_single (parents : sellist) : complex :=
  match parents with
  | LCons p LNil => p
  | _ => XCons (Cp 0 false None (SPc false parents SNil)) XNil
  end.

(* pass 1 + pass 2 (":is" usable, or at most one parent) for one selector of the nested rule *)
Definition lower_is (parents : sellist) (cx : complex) : complex :=
  sb_x (parents_single parents) false (inject_amp cx) XNil.

(* ------------------------------------------------------------------ *)
(* semantics: which elements a selector matches.  An element structure has a
   finite number of elements 0..size-1, says which element has which type and
   class, and, for every combinator k and set S of elements, which elements x
   have an element of S in relation k (ancestor, parent, previous sibling,
   earlier sibling).  Sets are tabulated as lists of booleans. *)
Record dom := mkDom { size : nat; d_ty : nat -> Z -> bool; d_cls : nat -> Z -> bool; d_rel : Z -> list bool -> nat -> bool }.

Definition mem (S : list bool) (x : nat) : bool := nth x S false.
Definition tab (n : nat) (f : nat -> bool) : list bool := map f (seq 0 n).

Section Sem.
  Variable D : dom.
  Variable A : list bool.       (* the elements "&" stands for *)

  Definition relpart (L : option (list bool)) (k : Z) (x : nat) : bool :=
    match L with None => true | Some S0 => d_rel D k S0 x end.

  (* ev cx L: the elements matched by "left cx" where L is the set matched by the compounds to the left (None: nothing to the left) *)
  Fixpoint ok_c (c : compound) (x : nat) {struct c} : bool :=
    match c with
    | Cp _ a t s => (if a then mem A x else true) && (match t with Some u => d_ty D x u | None => true end) && ok_s s x
    end
  with ok_s (s : sublist) (x : nat) {struct s} : bool :=
    match s with
    | SNil => true
    | SClass i r => d_cls D x i && ok_s r x
    | SPc n l r => xorb n (ok_l l x) && ok_s r x
    end
  with ev (cx : complex) (L : option (list bool)) {struct cx} : option (list bool) :=
    match cx with
    | XNil => L
    | XCons c r => ev r (Some (tab (size D) (fun x => ok_c c x && relpart L (c_comb c) x)))
    end
  with ok_l (l : sellist) (x : nat) {struct l} : bool :=
    match l with
    | LNil => false
    | LCons cx r => (match ev cx None with Some S0 => mem S0 x | None => false end) || ok_l r x
    end.

  Definition matches (cx : complex) (x : nat) : bool :=
    match ev cx None with Some S0 => mem S0 x | None => false end.
End Sem.

(* a concrete element structure: a forest with sibling order *)
Record node := mkN { n_ty : Z; n_cls : list Z; n_par : option nat; n_prev : option nat }.
Fixpoint chain (d : list node) (next : node -> option nat) (fuel : nat) (x : nat) : list nat :=
  match fuel with
  | O => []
  | S f => match nth_error d x with
           | Some nd => match next nd with Some y => y :: chain d next f y | None => [] end
           | None => []
           end
  end.
Definition tree_dom (d : list node) : dom :=
  mkDom (length d)
    (fun x u => match nth_error d x with Some nd => n_ty nd =? u | None => false end)
    (fun x i => match nth_error d x with Some nd => existsb (Z.eqb i) (n_cls nd) | None => false end)
    (fun k S0 x =>
       let one := fun next => match chain d next 1 x with y :: _ => mem S0 y | [] => false end in
       let all := fun next => existsb (mem S0) (chain d next (length d) x) in
       if k =? 1 then one n_par else if k =? 2 then one n_prev else if k =? 3 then all n_prev else all n_par).

(* ------------------------------------------------------------------ *)
(* pass 2 without :is() and with several parents: the cross product.
   The Go loop substitutes, for every index vector (one dimension per "&"
   met while substituting; the dimensions are discovered during the first
   round, in which every index is 0), every "&" of every selector of the
   nested rule by the parent selector the vector picks.  The pseudo-class
   nodes of the nested rule are shared between the rounds and the substitution
   writes its result back into them, so after the first round the "&" inside
   :is()/:not() arguments are gone: they stay replaced by the FIRST parent in
   every later round, while their dimensions remain (duplicated selectors).
   This is modelled literally (freeze_x). *)
Fixpoint l2l (l : sellist) : list complex := match l with LNil => [] | LCons x r => x :: l2l r end.

Fixpoint count_amp_c (c : compound) : nat := match c with Cp _ a _ s => ((if a then 1 else 0) + count_amp_s s)%nat end
with count_amp_s (s : sublist) : nat :=
  match s with SNil => O | SClass _ r => count_amp_s r | SPc _ l r => (count_amp_l l + count_amp_s r)%nat end
with count_amp_x (cx : complex) : nat := match cx with XNil => O | XCons c r => (count_amp_c c + count_amp_x r)%nat end
with count_amp_l (l : sellist) : nat := match l with LNil => O | LCons cx r => (count_amp_x cx + count_amp_l r)%nat end.

Fixpoint freeze_x (p0 : complex) (cx : complex) : complex :=
  match cx with
  | XNil => XNil
  | XCons (Cp k a t s) r => XCons (Cp k a t (sb_s p0 s)) (freeze_x p0 r)
  end.

Fixpoint expand_x (parents : list complex) (v : list nat) (cx : complex) (results : complex) : complex :=
  match cx with
  | XNil => results
  | XCons (Cp k a t s) r =>
    if a then
      match v with
      | i :: v' => expand_x parents v' r (subst_amp (nth i parents XNil) false k t s results)
      | [] => expand_x parents [] r (subst_amp (nth O parents XNil) false k t s results)
      end
    else expand_x parents v r (xsnoc results (Cp k false t s))
  end.

(* the index vectors in the order of the "addition with carry" (last dimension fastest) *)
Fixpoint vectors (np d : nat) : list (list nat) :=
  match d with
  | O => [[]]
  | S d' => flat_map (fun i => map (cons i) (vectors np d')) (seq 0 np)
  end.

Definition lower_expand (parents child : sellist) : list complex :=
  let ps := l2l parents in
  let inj := map inject_amp (l2l child) in
  let d := fold_left Nat.max (map count_amp_x inj) O in
  let ch := map (freeze_x (nth O ps XNil)) inj in
  flat_map (fun v => map (fun cx => expand_x ps v cx XNil) ch) (vectors (length ps) d).

(* specificity (ids, classes, types); :is()/:not() count as their most specific argument *)
Definition spec3 := (nat * nat * nat)%type.
Definition spec_add (a b : spec3) : spec3 := let '(a1, a2, a3) := a in let '(b1, b2, b3) := b in ((a1 + b1)%nat, (a2 + b2)%nat, (a3 + b3)%nat).
Definition spec_ltb (a b : spec3) : bool :=
  let '(a1, a2, a3) := a in let '(b1, b2, b3) := b in
  (a1 <? b1)%nat || ((a1 =? b1)%nat && ((a2 <? b2)%nat || ((a2 =? b2)%nat && (a3 <? b3)%nat))).
Definition spec_max (a b : spec3) : spec3 := if spec_ltb a b then b else a.
Fixpoint spec_c (c : compound) : spec3 := match c with Cp _ _ t s => spec_add (match t with Some _ => (O, O, 1%nat) | None => (O, O, O) end) (spec_s s) end
with spec_s (s : sublist) : spec3 :=
  match s with SNil => (O, O, O) | SClass _ r => spec_add (O, 1%nat, O) (spec_s r) | SPc _ l r => spec_add (spec_l l) (spec_s r) end
with spec_x (cx : complex) : spec3 := match cx with XNil => (O, O, O) | XCons c r => spec_add (spec_c c) (spec_x r) end
with spec_l (l : sellist) : spec3 := match l with LNil => (O, O, O) | LCons cx r => spec_max (spec_x cx) (spec_l r) end.
