(* Obligations over the tables regenerated from source (translator T5). *)
From V Require Import Common.Base C12.Hex C12.ColorSpec C12.HexProofs gen.ColorTablesGen.

Definition entry_ok (e : Z * list Z) : bool :=
  match assoc_l (snd e) colorNameToHex with Some h => h =? fst e | None => false end.

Lemma short_entries_ok : forallb entry_ok shortColorName = true.
Proof. vm_compute. reflexivity. Qed.

Lemma assoc_z_in {B} k (l : list (Z * B)) v : assoc_z k l = Some v -> In (k, v) l.
Proof.
  induction l as [|[k' v'] l IH]; simpl; intros H; [discriminate|].
  destruct (k' =? k) eqn:E.
  - apply Z.eqb_eq in E. inversion H; subst. left; reflexivity.
  - right. apply IH. exact H.
Qed.

Theorem color_names_consistent_all :
  forall h n, assoc_z h shortColorName = Some n -> assoc_l n colorNameToHex = Some h.
Proof.
  intros h n H. apply assoc_z_in in H.
  pose proof short_entries_ok as F. rewrite forallb_forall in F. specialize (F _ H).
  unfold entry_ok in F. cbn [fst snd] in F.
  destruct (assoc_l n colorNameToHex) as [h'|]; [|discriminate].
  apply Z.eqb_eq in F. congruence.
Qed.

Theorem generate_color_value_tables : forall minify unsupported hex,
  0 <= hex < 2 ^ 32 ->
  spec_color_value colorNameToHex (generate_color shortColorName minify unsupported hex) = Some hex.
Proof. apply generate_color_value_all. exact color_names_consistent_all. Qed.

(* alphaFractionTable: the text printed for alpha byte a (rgba() fallback) is a
   CSS number whose value, scaled by 255 and rounded to nearest (what
   parseAlphaByte / a browser does), is a again - strictly inside the rounding
   interval, so float rounding cannot flip it.  Finite domain: 256 bytes. *)
From V Require Import C12.NumberSpec.
Fixpoint until_space (l : list Z) : list Z :=
  match l with [] => [] | c :: r => if c =? 32 then [] else c :: until_space r end.
Definition alpha_text_of (a : Z) : list Z :=
  until_space (firstn 4 (skipn (Z.to_nat (4 * a)) alphaFractionTable)).
Definition alpha_ok (a : Z) : bool :=
  match css_number_value (alpha_text_of a) with
  | Some (m, e) => (e <=? 0) && ((2 * 255 * m + 10 ^ (- e)) / (2 * 10 ^ (- e)) =? a)
  | None => false
  end.
Fixpoint upto (n : nat) : list Z := match n with O => [] | S k => upto k ++ [Z.of_nat k] end.
Lemma in_upto n a : 0 <= a < Z.of_nat n -> In a (upto n).
Proof.
  induction n as [|n IH]; intros H; [lia|]. cbn [upto]. apply in_or_app.
  destruct (Z.eq_dec a (Z.of_nat n)) as [->|Hne]; [right; left; reflexivity | left; apply IH; lia].
Qed.
Theorem alpha_table_roundtrip_all : forall a, 0 <= a < 256 -> alpha_ok a = true.
Proof.
  intros a H. assert (F : forallb alpha_ok (upto 256) = true) by (vm_compute; reflexivity).
  rewrite forallb_forall in F. apply F. apply in_upto. exact H.
Qed.

(* processDeclarations calls insertPrefixedDeclaration only for the keys of
   cssPrefixTable (regenerated from source, translator t5prefix); that function
   overwrites the LAST rule and appends one.  None of those keys is a property a
   box / border-radius tracker handles, so the step never touches a tracked
   declaration: for the trackers it is an "other property" step (KOther). *)
From V Require Import gen.CssPrefixGen.
Definition str (s : list Z) := s.
Definition trackedProps : list (list Z) :=
  [ [68;77;97;114;103;105;110]; [68;77;97;114;103;105;110;84;111;112]; [68;77;97;114;103;105;110;82;105;103;104;116];
    [68;77;97;114;103;105;110;66;111;116;116;111;109]; [68;77;97;114;103;105;110;76;101;102;116];
    [68;80;97;100;100;105;110;103]; [68;80;97;100;100;105;110;103;84;111;112]; [68;80;97;100;100;105;110;103;82;105;103;104;116];
    [68;80;97;100;100;105;110;103;66;111;116;116;111;109]; [68;80;97;100;100;105;110;103;76;101;102;116];
    [68;73;110;115;101;116]; [68;84;111;112]; [68;82;105;103;104;116]; [68;66;111;116;116;111;109]; [68;76;101;102;116];
    [68;66;111;114;100;101;114;82;97;100;105;117;115];
    [68;66;111;114;100;101;114;84;111;112;76;101;102;116;82;97;100;105;117;115]; [68;66;111;114;100;101;114;84;111;112;82;105;103;104;116;82;97;100;105;117;115];
    [68;66;111;114;100;101;114;66;111;116;116;111;109;82;105;103;104;116;82;97;100;105;117;115]; [68;66;111;114;100;101;114;66;111;116;116;111;109;76;101;102;116;82;97;100;105;117;115] ].
Theorem prefix_table_disjoint_from_trackers_all :
  forall p, In p cssPrefixedProps -> existsb (zlist_eqb p) trackedProps = false.
Proof.
  assert (F : forallb (fun p => negb (existsb (zlist_eqb p) trackedProps)) cssPrefixedProps = true) by (vm_compute; reflexivity).
  intros p Hp. rewrite forallb_forall in F. apply negb_true_iff. apply F. exact Hp.
Qed.

(* percentage reference ranges: the model (= the Go code, tied by pctref_cases)
   agrees with CSS Color 4 everywhere except the chroma of lch() *)
Theorem pct_reference_ranges_partial_all : forall fn comp,
  1 <= fn <= 5 -> 0 <= comp <= 2 ->
  ~ (fn = 2 /\ comp = 1) -> model_pct_ref fn comp = spec_pct_ref fn comp.
Proof.
  intros fn comp Hf Hc H.
  assert (Ef : fn = 1 \/ fn = 2 \/ fn = 3 \/ fn = 4 \/ fn = 5) by lia.
  assert (Ec : comp = 0 \/ comp = 1 \/ comp = 2) by lia.
  destruct Ef as [->|[->|[->|[->| ->]]]]; destruct Ec as [->|[->| ->]]; try reflexivity.
  exfalso. apply H. split; reflexivity.
Qed.
Theorem pct_reference_lch_chroma_refuted_all : model_pct_ref 2 1 <> spec_pct_ref 2 1.
Proof. discriminate. Qed.
