(* Obligations over the tables regenerated from source (translator T5). *)
From V Require Import Common.Base C12.Hex C12.ColorSpec C12.HexProofs gen.ColorTablesGen.

Definition entry_ok (e : Z * list Z) : bool :=
  match assoc_l (snd e) colorNameToHex with Some h => h =? fst e | None => false end.

Lemma short_entries_ok : forallb entry_ok shortColorName = true.
Proof. vm_compute. reflexivity. Qed.

Lemma assoc_z_in {B} k (l : list (Z * B)) v : assoc_z k l = Some v -> In (k, v) l.
Proof.
  induction l as [|[k' v'] l IH]; simpl; intros H; [discriminate|].
  destruct (k' =? k) eqn:E.
  - apply Z.eqb_eq in E. inversion H; subst. left; reflexivity.
  - right. apply IH. exact H.
Qed.

Theorem color_names_consistent_all :
  forall h n, assoc_z h shortColorName = Some n -> assoc_l n colorNameToHex = Some h.
Proof.
  intros h n H. apply assoc_z_in in H.
  pose proof short_entries_ok as F. rewrite forallb_forall in F. specialize (F _ H).
  unfold entry_ok in F. cbn [fst snd] in F.
  destruct (assoc_l n colorNameToHex) as [h'|]; [|discriminate].
  apply Z.eqb_eq in F. congruence.
Qed.

Theorem generate_color_value_tables : forall minify unsupported hex,
  0 <= hex < 2 ^ 32 ->
  spec_color_value colorNameToHex (generate_color shortColorName minify unsupported hex) = Some hex.
Proof. apply generate_color_value_all. exact color_names_consistent_all. Qed.
