(* C12 model, part 5: internal/css_parser/css_decls.go
     expandTokenQuad (1-4 values -> top right bottom left) and
     compactTokenQuad (the shortest 1-4 value form of four sides),
   the core of the box shorthand collapsing done by boxTracker.compactRules
   (css_decls_box.go).  A token is its identity up to whitespace
   (EqualIgnoringWhitespace is equality of identities).
   The tracker's bookkeeping (which declarations are removed, unit safety,
   the !important reset) is NOT modelled here; it is exercised by the oracle
   glue stream (margin/padding/inset longhand and shorthand interleavings). *)
From V Require Import Common.Base.

Definition quad := (Z * Z * Z * Z)%type.

(* expandTokenQuad on a list of 1..4 tokens *)
Definition expand_quad (l : list Z) : option quad :=
  match l with
  | [a] => Some (a, a, a, a)
  | [a; b] => Some (a, b, a, b)
  | [a; b; c] => Some (a, b, c, b)
  | [a; b; c; d] => Some (a, b, c, d)
  | _ => None
  end.

(* compactTokenQuad *)
Definition compact_quad (q : quad) : list Z :=
  let '(a, b, c, d) := q in
  if d =? b then
    if c =? a then
      if b =? a then [a] else [a; b]
    else [a; b; c]
  else [a; b; c; d].

(* the shorthand written by compactRules denotes exactly the four sides it was
   built from (CSS Box 4: 1 value = all; 2 = vertical | horizontal;
   3 = top | horizontal | bottom; 4 = top right bottom left) *)
Theorem box_quad_roundtrip_all : forall q, expand_quad (compact_quad q) = Some q.
Proof.
  intros [[[a b] c] d]. unfold compact_quad.
  destruct (Z.eqb_spec d b); [|reflexivity]. subst.
  destruct (Z.eqb_spec c a); [|reflexivity]. subst.
  destruct (Z.eqb_spec b a); [subst|]; reflexivity.
Qed.

(* and it is the shortest form: no shorter list expands to the same sides *)
Theorem box_quad_shortest_all : forall q l, expand_quad l = Some q -> (length (compact_quad q) <= length l)%nat.
Proof.
  intros [[[a b] c] d] l H. destruct l as [|x [|y [|z [|w [|]]]]]; cbn in H; try discriminate;
    inversion H; subst; unfold compact_quad; rewrite ?Z.eqb_refl; cbn [length];
    repeat match goal with |- context [?u =? ?v] => destruct (u =? v) end; cbn [length]; lia.
Qed.
