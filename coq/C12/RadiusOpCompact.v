(* borderRadius.compactRules preserves the semantics and re-establishes the tracker invariant. *)
From V Require Import Common.Base C12.Mangle C12.BoxTracker C12.BoxSpec C12.BoxLemmas C12.BoxTokens C12.BoxSem C12.BoxCompact
  C12.BoxInv C12.BoxOpCompact C12.GenSem C12.RadiusTracker C12.RadiusSpec C12.RadiusInv.

Lemma leqb_tok_eq : forall a b, leqb tok_eqb a b = true -> a = b.
Proof.
  induction a as [|x a IH]; intros [|y b]; simpl; intros H; try discriminate; [reflexivity|].
  apply andb_true_iff in H as [H1 H2]. f_equal; [apply tok_eqb_eq; exact H1 | apply IH; exact H2].
Qed.

Lemma compact_inj q q' : compact_quad_tok q = compact_quad_tok q' -> q = q'.
Proof.
  intros H. pose proof (spec_expand_compact q) as A. rewrite H, spec_expand_compact in A. inversion A; reflexivity.
Qed.

Definition radius_tokens (qf qs : quad) : list tok :=
  if leqb tok_eqb (compact_quad_tok qf) (compact_quad_tok qs) then compact_quad_tok qf
  else compact_quad_tok qf ++ [TOther 0] ++ compact_quad_tok qs.

(* the combined declaration has the tracked shape for every corner *)
Lemma comb_shape qf qs imp c : all4 is_numeric qf = true -> all4 is_numeric qs = true ->
  rshape (mkB KShort (radius_tokens qf qs) imp) c false (qnth qf c) (qnth qs c).
Proof.
  intros Nf Ns. unfold rshape, radius_tokens. cbn [b_key b_val].
  assert (Cf : forallb is_numeric (compact_quad_tok qf) = true) by (rewrite forallb_compact; exact Nf).
  assert (Cs : forallb is_numeric (compact_quad_tok qs) = true) by (rewrite forallb_compact; exact Ns).
  destruct (leqb tok_eqb (compact_quad_tok qf) (compact_quad_tok qs)) eqn:E.
  - apply leqb_tok_eq in E. apply compact_inj in E. subst qs.
    exists (compact_quad_tok qf), None, qf, qf. cbn [second_list].
    repeat split; try assumption; try apply spec_expand_compact. apply split_slash_numeric; exact Cf.
  - exists (compact_quad_tok qf), (Some (compact_quad_tok qs)), qf, qs. cbn [second_list].
    repeat split; try assumption; try apply spec_expand_compact. cbn [app]. apply split_slash_app; exact Cf.
Qed.

Lemma rcompact_inv rs tr : rtrinv rs tr ->
  rsem_eq rs (fst (rcompact_rules rs tr)) /\ rtrinv (fst (rcompact_rules rs tr)) (snd (rcompact_rules rs tr)) /\
  rt_imp (snd (rcompact_rules rs tr)) = rt_imp tr.
Proof.
  assert (Hrefl : rsem_eq rs rs) by apply gsem_eq_refl.
  intros [HC HE]. unfold rcompact_rules.
  destruct (rt_corners tr 0%nat) as [s0|] eqn:E0; [|cbn [fst snd]; repeat split; assumption].
  destruct (rt_corners tr 1%nat) as [s1|] eqn:E1; [|cbn [fst snd]; repeat split; assumption].
  destruct (rt_corners tr 2%nat) as [s2|] eqn:E2; [|cbn [fst snd]; repeat split; assumption].
  destruct (rt_corners tr 3%nat) as [s3|] eqn:E3; [|cbn [fst snd]; repeat split; assumption].
  destruct (safe_with (rc_us s1) (rc_us s0) && safe_with (rc_us s2) (rc_us s0) && safe_with (rc_us s3) (rc_us s0)) eqn:ES;
    [|cbn [fst snd]; repeat split; assumption].
  apply andb_true_iff in ES as [ES ES3]. apply andb_true_iff in ES as [ES1 ES2].
  apply safe_with_eq in ES1 as [U1 N1], ES2 as [U2 N2], ES3 as [U3 N3].
  set (imp := rt_imp tr) in *.
  set (sdk := fun k => match k with O => s0 | 1%nat => s1 | 2%nat => s2 | _ => s3 end).
  assert (Hside : forall k, (k < 4)%nat -> rt_corners tr k = Some (sdk k)).
  { intros k Hk. destruct k as [|[|[|[|]]]]; try lia; assumption. }
  assert (Htk : forall k, (k < 4)%nat -> rtracked rs imp k (sdk k)) by (intros k Hk; apply HC, Hside, Hk).
  assert (Hus : forall k, (k < 4)%nat -> rc_us (sdk k) = rc_us s0 /\ rc_us (sdk k) <> UMixed).
  { intros k Hk. destruct k as [|[|[|[|]]]]; try lia; cbn [sdk]; try (split; [assumption|assumption]).
    split; [reflexivity|]. rewrite <- U1. exact N1. }
  assert (Hex : forall k, (k < 4)%nat -> exists r, nth_error rs (rc_idx (sdk k)) = Some (Some r)).
  { intros k Hk. destruct (Htk k Hk) as [r]. exists r; assumption. }
  destruct (Hex 0%nat ltac:(lia)) as [r0 R0]. destruct (Hex 1%nat ltac:(lia)) as [r1 R1].
  destruct (Hex 2%nat ltac:(lia)) as [r2 R2]. destruct (Hex 3%nat ltac:(lia)) as [r3 R3].
  set (rk := fun k => match k with O => r0 | 1%nat => r1 | 2%nat => r2 | _ => r3 end).
  set (idx := fun k => rc_idx (sdk k)).
  assert (Hn : forall k, (k < 4)%nat -> nth_error rs (idx k) = Some (Some (rk k))).
  { intros k Hk. destruct k as [|[|[|[|]]]]; try lia; assumption. }
  set (qf := (rc_first s0, rc_first s1, rc_first s2, rc_first s3)).
  set (qs := (rc_second s0, rc_second s1, rc_second s2, rc_second s3)).
  assert (Hqf : forall k, (k < 4)%nat -> qnth qf k = rc_first (sdk k)).
  { intros k Hk. destruct k as [|[|[|[|]]]]; try lia; reflexivity. }
  assert (Hqs : forall k, (k < 4)%nat -> qnth qs k = rc_second (sdk k)).
  { intros k Hk. destruct k as [|[|[|[|]]]]; try lia; reflexivity. }
  assert (Nf : all4 is_numeric qf = true).
  { unfold all4. rewrite !Hqf by lia.
    destruct (Htk 0%nat ltac:(lia)) as [? ? ? _ _ _ _ _ _ _ _ T0 _ _ _]. destruct (Htk 1%nat ltac:(lia)) as [? ? ? _ _ _ _ _ _ _ _ T1 _ _ _].
    destruct (Htk 2%nat ltac:(lia)) as [? ? ? _ _ _ _ _ _ _ _ T2 _ _ _]. destruct (Htk 3%nat ltac:(lia)) as [? ? ? _ _ _ _ _ _ _ _ T3 _ _ _].
    cbn [sdk] in *. rewrite T0, T1, T2, T3. reflexivity. }
  assert (Ns : all4 is_numeric qs = true).
  { unfold all4. rewrite !Hqs by lia.
    destruct (Htk 0%nat ltac:(lia)) as [? ? ? _ _ _ _ _ _ _ _ _ T0 _ _]. destruct (Htk 1%nat ltac:(lia)) as [? ? ? _ _ _ _ _ _ _ _ _ T1 _ _].
    destruct (Htk 2%nat ltac:(lia)) as [? ? ? _ _ _ _ _ _ _ _ _ T2 _ _]. destruct (Htk 3%nat ltac:(lia)) as [? ? ? _ _ _ _ _ _ _ _ _ T3 _ _].
    cbn [sdk] in *. rewrite T0, T1, T2, T3. reflexivity. }
  set (comb := mkB KShort (radius_tokens qf qs) imp).
  assert (Hcshape : forall c, rshape comb c false (qnth qf c) (qnth qs c)) by (intros c; apply comb_shape; assumption).
  (* facts about each tracked rule *)
  assert (Hfacts : forall k, (k < 4)%nat ->
    b_imp (rk k) = imp /\ is_other (rk k) = false /\
    (forall e c', (4 <= c')%nat -> rsets e (rk k) c' = None) /\
    (forall e, rsets e (rk k) k = if rvalid e (rk k) then Some (RV (norm (rc_first (sdk k))) (norm (rc_second (sdk k)))) else None) /\
    (forall e, rvalid e (rk k) = false -> forall c', rsets e (rk k) c' = None) /\
    (forall e, rvalid e (rk k) = true -> rok e (rc_first (sdk k)) = true /\ rok e (rc_second (sdk k)) = true) /\
    (forall e, rvalid e (rk k) = us_valid e (rc_us s0))).
  { intros k Hk. destruct (rtracked_rule rs imp k (sdk k) (Htk k Hk)) as [r [Hr [F1 [F2 [_ [F4 [_ [_ [F7 [F8 [F9 F10]]]]]]]]]]].
    fold (idx k) in Hr. rewrite (Hn k Hk) in Hr. inversion Hr; subst r.
    destruct (Hus k Hk) as [Ue Un]. repeat split; try assumption; try (apply F9; assumption).
    intros e. rewrite (F10 Un e), Ue. reflexivity. }
  (* validity of the combined declaration *)
  destruct (rshape_short comb 0%nat _ _ (Hcshape 0%nat)) as [cq1 [cq2 [Hcq Hcvalid]]].
  assert (Ecq : cq1 = qf /\ cq2 = qs).
  { assert (forall c, qnth qf c = qnth cq1 c /\ qnth qs c = qnth cq2 c) as G by (intros c; apply Hcq, Hcshape).
    destruct qf as [[[a b] c] d], qs as [[[a' b'] c'] d'], cq1 as [[[x y] z] w], cq2 as [[[x' y'] z'] w'].
    destruct (G 0%nat) as [A0 B0], (G 1%nat) as [A1 B1], (G 2%nat) as [A2 B2], (G 3%nat) as [A3 B3]. cbn [qnth] in *.
    subst. split; reflexivity. }
  destruct Ecq as [-> ->].
  assert (Hcv : forall e, rvalid e comb = us_valid e (rc_us s0)).
  { intros e. rewrite Hcvalid.
    destruct (us_valid e (rc_us s0)) eqn:EV.
    - assert (Hall : forall k, (k < 4)%nat -> rok e (rc_first (sdk k)) = true /\ rok e (rc_second (sdk k)) = true).
      { intros k Hk. destruct (Hfacts k Hk) as [_ [_ [_ [_ [_ [G V]]]]]]. apply G. rewrite V. exact EV. }
      unfold all4. rewrite !Hqf, !Hqs by lia.
      destruct (Hall 0%nat ltac:(lia)) as [A0 B0], (Hall 1%nat ltac:(lia)) as [A1 B1], (Hall 2%nat ltac:(lia)) as [A2 B2], (Hall 3%nat ltac:(lia)) as [A3 B3].
      rewrite A0, A1, A2, A3, B0, B1, B2, B3. reflexivity.
    - (* if every tracked token were accepted, one of the (invalid) rules would be valid *)
      destruct (all4 (rok e) qf && all4 (rok e) qs) eqn:EA; [|reflexivity]. exfalso.
      apply andb_true_iff in EA as [EA1 EA2].
      assert (Hall : forall k, (k < 4)%nat -> rok e (rc_first (sdk k)) = true /\ rok e (rc_second (sdk k)) = true).
      { intros k Hk. rewrite <- Hqf, <- Hqs by exact Hk. split; apply all4_nth; assumption. }
      assert (Hinv : forall k, (k < 4)%nat -> rvalid e (rk k) = false).
      { intros k Hk. destruct (Hfacts k Hk) as [_ [_ [_ [_ [_ [_ V]]]]]]. rewrite V. exact EV. }
      assert (Hsingle : forall k, (k < 4)%nat -> rc_single (sdk k) = true -> False).
      { intros k Hk Hsg. destruct (Htk k Hk) as [r h0 v0 _ Hnth _ Hshape _ _ Hokh Hokv _ _ _ _].
        fold (idx k) in Hnth. rewrite (Hn k Hk) in Hnth. inversion Hnth; subst r.
        destruct (rshape_facts _ _ _ _ _ Hk Hshape) as [_ [_ [_ [_ [_ [_ F7]]]]]].
        pose proof (Hinv k Hk) as Hi. rewrite (F7 Hsg e), <- Hokh, <- Hokv in Hi.
        destruct (Hall k Hk) as [A B]. rewrite A, B in Hi. discriminate Hi. }
      destruct (rc_single (sdk 0%nat)) eqn:S0; [exfalso; apply (Hsingle 0%nat); [lia | exact S0]|].
      destruct (rc_single (sdk 1%nat)) eqn:S1; [exfalso; apply (Hsingle 1%nat); [lia | exact S1]|].
      destruct (rc_single (sdk 2%nat)) eqn:S2; [exfalso; apply (Hsingle 2%nat); [lia | exact S2]|].
      destruct (rc_single (sdk 3%nat)) eqn:S3; [exfalso; apply (Hsingle 3%nat); [lia | exact S3]|].
      (* all four come from one shorthand *)
      assert (Hsame : forall k, (k < 4)%nat -> idx k = idx 0%nat).
      { intros k Hk. unfold idx. apply (HE k 0%nat (sdk k) (sdk 0%nat)); try (apply Hside; lia); try assumption.
        destruct k as [|[|[|[|]]]]; try lia; assumption. }
      destruct (Htk 0%nat ltac:(lia)) as [r h0 v0 _ Hnth _ Hshape _ _ _ _ _ _ _ _]. rewrite S0 in Hshape.
      fold (idx 0%nat) in Hnth. rewrite (Hn 0%nat ltac:(lia)) in Hnth. inversion Hnth; subst r.
      destruct (rshape_short _ _ _ _ Hshape) as [q1 [q2 [Hq Hqv]]].
      pose proof (Hinv 0%nat ltac:(lia)) as Hi. rewrite Hqv in Hi.
      assert (Hqk : forall k, (k < 4)%nat -> rok e (qnth q1 k) = true /\ rok e (qnth q2 k) = true).
      { intros k Hk. destruct (Htk k Hk) as [r h0' v0' _ Hnth' _ Hshape' _ _ Hokh' Hokv' _ _ _ _].
        assert (Sk : rc_single (sdk k) = false) by (destruct k as [|[|[|[|]]]]; try lia; assumption).
        rewrite Sk in Hshape'.
        fold (idx k) in Hnth'. rewrite (Hsame k Hk), (Hn 0%nat ltac:(lia)) in Hnth'. inversion Hnth'; subst r.
        destruct (Hq k h0' v0' Hshape') as [-> ->]. rewrite <- Hokh', <- Hokv'. apply Hall. exact Hk. }
      unfold all4 in Hi.
      destruct (Hqk 0%nat ltac:(lia)) as [A0 B0], (Hqk 1%nat ltac:(lia)) as [A1 B1], (Hqk 2%nat ltac:(lia)) as [A2 B2], (Hqk 3%nat ltac:(lia)) as [A3 B3].
      rewrite A0, A1, A2, A3, B0, B1, B2, B3 in Hi. discriminate Hi. }
  assert (Hafter : forall k j r', (k < 4)%nat -> (idx k < j)%nat -> nth_error rs j = Some (Some r') -> affects r' k = false).
  { intros k j r' Hk Hj Hr. destruct (Htk k Hk) as [? ? ? _ _ _ _ _ _ _ _ _ _ _ HA]. eapply HA; eassumption. }
  assert (Hsc : forall e c, rsets e comb c =
            if (c <? 4)%nat then (if us_valid e (rc_us s0) then Some (RV (norm (qnth qf c)) (norm (qnth qs c))) else None) else None).
  { intros e c. destruct (Nat.ltb_spec c 4) as [Hc|Hc].
    - destruct (rshape_facts comb c false _ _ Hc (Hcshape c)) as [_ [_ [_ [F4 _]]]]. rewrite F4, Hcv. reflexivity.
    - destruct (rshape_facts comb 0%nat false _ _ ltac:(lia) (Hcshape 0%nat)) as [_ [_ [F3 _]]]. apply F3. exact Hc. }
  assert (Hpres : rsem_eq rs (compacted rs idx comb)).
  { apply (gcompact_preserves rval rsets rsets_affects rs idx rk comb imp); try assumption; try reflexivity.
    - intros k Hk. apply Hfacts; exact Hk.
    - intros k Hk. apply Hfacts; exact Hk.
    - intros e k c Hk Hc. destruct (Hfacts k Hk) as [_ [_ [F3 _]]]. apply F3. exact Hc.
    - intros e c Hc. rewrite Hsc. replace (c <? 4)%nat with false by (symmetry; apply Nat.ltb_ge; lia). reflexivity.
    - intros e. destruct (us_valid e (rc_us s0)) eqn:EV.
      + left. intros k Hk. exists (RV (norm (rc_first (sdk k))) (norm (rc_second (sdk k)))).
        destruct (Hfacts k Hk) as [_ [_ [_ [F [_ [_ V]]]]]]. rewrite F, V, EV. split; [reflexivity|].
        rewrite Hsc, EV, Hqf, Hqs by exact Hk. replace (k <? 4)%nat with true by (symmetry; apply Nat.ltb_lt; lia). reflexivity.
      + right. split.
        * intros k c Hk. destruct (Hfacts k Hk) as [_ [_ [_ [_ [G [_ V]]]]]]. apply G. rewrite V. exact EV.
        * intros c. rewrite Hsc, EV. destruct (c <? 4)%nat; reflexivity. }
  assert (Elast : Nat.max (Nat.max (rc_idx s0) (rc_idx s1)) (Nat.max (rc_idx s2) (rc_idx s3)) = last4 idx) by reflexivity.
  rewrite Elast. cbn [fst snd rt_imp].
  change (if leqb tok_eqb (compact_quad_tok (rc_first s0, rc_first s1, rc_first s2, rc_first s3))
                          (compact_quad_tok (rc_second s0, rc_second s1, rc_second s2, rc_second s3))
          then compact_quad_tok (rc_first s0, rc_first s1, rc_first s2, rc_first s3)
          else compact_quad_tok (rc_first s0, rc_first s1, rc_first s2, rc_first s3) ++ [TOther 0] ++
               compact_quad_tok (rc_second s0, rc_second s1, rc_second s2, rc_second s3))
    with (radius_tokens qf qs).
  change (set_nth (last4 idx) (Some (mkB KShort (radius_tokens qf qs) imp))
            (set_nth (rc_idx s3) None (set_nth (rc_idx s2) None (set_nth (rc_idx s1) None (set_nth (rc_idx s0) None rs)))))
    with (compacted rs idx comb).
  split; [exact Hpres|]. split; [|reflexivity].
  split.
  - intros c rc Hrc. cbn [rt_corners] in Hrc.
    assert (Hc4 : (c < 4)%nat).
    { destruct c as [|[|[|[|c]]]]; try lia. exfalso. destruct (HC _ _ Hrc) as [? ? ? Hlt]. lia. }
    assert (Erc : rc = mkC (rc_first (sdk c)) (rc_second (sdk c)) (rc_us (sdk c)) (last4 idx) false).
    { destruct c as [|[|[|[|]]]]; try lia; inversion Hrc; reflexivity. }
    subst rc. cbn [rt_imp].
    apply (RTracked _ imp c _ comb (rc_first (sdk c)) (rc_second (sdk c))); cbn [rc_idx rc_single rc_first rc_second rc_us]; try reflexivity.
    + exact Hc4.
    + rewrite (nth_compacted rs idx rk comb Hn), Nat.eqb_refl. reflexivity.
    + rewrite <- Hqf, <- Hqs by exact Hc4. apply Hcshape.
    + destruct (Htk c Hc4) as [? ? ? _ _ _ _ _ _ _ _ T _ _ _]. exact T.
    + destruct (Htk c Hc4) as [? ? ? _ _ _ _ _ _ _ _ _ T _ _]. exact T.
    + intros _ e. destruct (Hus c Hc4) as [Ue _]. rewrite Ue. apply Hcv.
    + intros j r' Hj Hr. rewrite (nth_compacted rs idx rk comb Hn) in Hr.
      assert (Ej1 : Nat.eqb j (last4 idx) = false) by (apply Nat.eqb_neq; lia). rewrite Ej1 in Hr.
      destruct (is_idx idx j) eqn:Ei; [discriminate|].
      apply (Hafter c j r' Hc4); [|exact Hr]. pose proof (last4_ge rs idx rk Hn c Hc4). lia.
  - intros c c' rc rc' Hrc Hrc' _ _. cbn [rt_corners] in Hrc, Hrc'.
    assert (forall c rc, match c with
                         | O => Some (mkC (rc_first s0) (rc_second s0) (rc_us s0) (last4 idx) false)
                         | 1%nat => Some (mkC (rc_first s1) (rc_second s1) (rc_us s1) (last4 idx) false)
                         | 2%nat => Some (mkC (rc_first s2) (rc_second s2) (rc_us s2) (last4 idx) false)
                         | 3%nat => Some (mkC (rc_first s3) (rc_second s3) (rc_us s3) (last4 idx) false)
                         | _ => rt_corners tr c end = Some rc -> rc_idx rc = last4 idx) as G.
    { intros x rcx Hx. destruct x as [|[|[|[|x]]]]; try (inversion Hx; reflexivity).
      exfalso. destruct (HC _ _ Hx) as [? ? ? Hlt]. lia. }
    rewrite (G _ _ Hrc), (G _ _ Hrc'). reflexivity.
Qed.
