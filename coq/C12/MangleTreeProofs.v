(* The whole minifier pass over a rule tree: every nested rule list is mangled
   (children first), the selector parser's duplicate-selector removal and the
   declaration-level duplicate removal are applied in every style rule, and the
   linker's cross-file duplicate removal runs over the top level.  Every winner
   is preserved, layer collapsing ("@layer a { @layer b {..} }" => "@layer a.b {..}")
   included. *)
From V Require Import Common.Base C12.Cascade C12.CascadeProofs C12.Mangle C12.MangleProofs C12.MergeProofs C12.MangleRulesProofs.

Section Tree.
  Variable w : world.
  Hypothesis Hsafe : forall s, s_safe s = true -> sel_understood w (s_id s) = true.
  Hypothesis Hdead : forall s e, s_dead s = true -> matches w (s_id s) e = false.

  Lemma equiv_app A A' B B' : equiv w A A' -> equiv w B B' -> equiv w (A ++ B) (A' ++ B').
  Proof.
    intros HA HB. apply (equiv_trans w _ (A' ++ B)).
    - pose proof (equiv_ctx w [] B A A' HA) as H. cbn [app] in H. exact H.
    - pose proof (equiv_ctx w A' [] B B' HB) as H. rewrite !app_nil_r in H. exact H.
  Qed.

  Lemma equiv_flat_map (f g : rule -> list item) rs :
    Forall (fun r => equiv w (f r) (g r)) rs -> equiv w (flat_map f rs) (flat_map g rs).
  Proof.
    induction 1 as [|r rs Hr Hrs IH]; cbn [flat_map]; [apply equiv_refl|]. apply equiv_app; assumption.
  Qed.

  (* ---- duplicate selectors inside one selector list ---- *)
  Lemma merge_sels_in_rev : forall new prev x, In x prev \/ In x new -> In x (merge_sels prev new).
  Proof.
    unfold merge_sels. induction new as [|s new IH]; intros prev x H; cbn [fold_left].
    - destruct H as [H|[]]. exact H.
    - apply IH. destruct H as [H|[H|H]].
      + left. destruct (existsb (sel_eqb s) prev); [exact H | apply in_or_app; left; exact H].
      + subst x. left. destruct (existsb (sel_eqb s) prev) eqn:Ex.
        * apply existsb_exists in Ex as [s' [Hin He]]. apply sel_eqb_eq in He. subst. exact Hin.
        * apply in_or_app. right. left. reflexivity.
      + right. exact H.
  Qed.

  Lemma sel_dedupe_equiv conds layer sels ds :
    equiv w [mkItem false conds layer (map s_id (merge_sels [] sels)) ds] [mkItem false conds layer (map s_id sels) ds].
  Proof.
    apply equiv_of_same; [reflexivity|]. intros D e p. f_equal. unfold cands. cbn [flat_map]. f_equal.
    unfold item_cands, item_active. cbn [i_stmt i_conds i_sels i_decls i_layer].
    assert (HU : forallb (sel_understood w) (map s_id (merge_sels [] sels)) = forallb (sel_understood w) (map s_id sels)).
    { apply eq_true_iff_eq. rewrite !forallb_forall. split; intros H i Hi; apply in_map_iff in Hi as [s [<- Hs]]; apply H; apply in_map.
      - apply merge_sels_in_rev. right. exact Hs.
      - apply merge_sels_in in Hs as [[]|Hs]. exact Hs. }
    rewrite HU. pose proof (best_spec_merge w e sels []) as B. unfold ids in B. rewrite B. cbn [map].
    change (best_spec w [] e) with (@None Z). cbn [omax]. reflexivity.
  Qed.

  Lemma tree_equiv : forall r encl conds layer,
    (forall q, In q encl -> In q conds) ->
    equiv w (flatten conds layer (mangle_tree encl r)) (flatten conds layer r).
  Proof.
    induction r as [s d|q body IH|t p body IH|n aid body IH|k i|i|i] using rule_ind';
      intros encl conds layer Hencl; cbn [mangle_tree flatten]; try apply equiv_refl.
    - (* style rule *)
      eapply equiv_trans; [|apply sel_dedupe_equiv].
      intros pre post e p. apply dedupe_decls_keeps_winner_all.
    - (* @media *)
      assert (Hencl' : forall x, In x (encl ++ [q]) -> In x (conds ++ [q])).
      { intros x Hx. apply in_app_or in Hx as [Hx|Hx]; apply in_or_app; [left; apply Hencl; exact Hx | right; exact Hx]. }
      eapply equiv_trans.
      + intros pre post e p.
        apply (mangle_rules_keeps_winner_all w (conds ++ [q]) layer (encl ++ [q]) Hencl' Hsafe Hdead _ false).
      + unfold flatten_list. rewrite flat_map_concat_map, map_map, <- flat_map_concat_map.
        apply (equiv_flat_map (fun x => flatten (conds ++ [q]) layer (mangle_tree (encl ++ [q]) x))).
        rewrite Forall_forall in IH. apply Forall_forall. intros r Hr. apply IH; auto.
    - (* @supports / @container *)
      assert (Hencl' : forall x, In x encl -> In x (conds ++ [p])) by (intros x Hx; apply in_or_app; left; apply Hencl; exact Hx).
      eapply equiv_trans.
      + intros pre post e pr.
        apply (mangle_rules_keeps_winner_all w (conds ++ [p]) layer encl Hencl' Hsafe Hdead _ false).
      + unfold flatten_list. rewrite flat_map_concat_map, map_map, <- flat_map_concat_map.
        apply (equiv_flat_map (fun x => flatten (conds ++ [p]) layer (mangle_tree encl x))).
        rewrite Forall_forall in IH. apply Forall_forall. intros r Hr. apply IH; auto.
    - (* @layer *)
      assert (Hbody : forall l', equiv w (flat_map (flatten conds l') (mangle_rules encl (map (mangle_tree encl) body) false))
                                        (flat_map (flatten conds l') body)).
      { intros l'. eapply equiv_trans.
        - intros pre post e pr. apply (mangle_rules_keeps_winner_all w conds l' encl Hencl Hsafe Hdead _ false).
        - unfold flatten_list. rewrite flat_map_concat_map, map_map, <- flat_map_concat_map.
          apply (equiv_flat_map (fun x => flatten conds l' (mangle_tree encl x))).
          rewrite Forall_forall in IH. apply Forall_forall. intros r Hr. apply IH; auto. }
      destruct n as [|n1 [|n2 ns]].
      + apply (equiv_app [_] [_]); [apply equiv_refl | apply Hbody].
      + apply (equiv_app [_] [_]); [apply equiv_refl | apply Hbody].
      + apply equiv_app; [apply equiv_refl | apply Hbody].
  Qed.

  (* the parser's pass over the whole sheet followed by the linker's duplicate removal *)
  Theorem mangle_sheet_keeps_winner_all : forall rules,
    forall e p, winner w (flatten_list [] [] (mangle_sheet rules)) e p = winner w (flatten_list [] [] rules) e p.
  Proof.
    intros rules e p. unfold mangle_sheet.
    assert (H : equiv w (flatten_list [] [] (remove_dead (mangle_rules [] (map (mangle_tree []) rules) true))) (flatten_list [] [] rules)).
    { eapply equiv_trans; [intros pre post e' p'; apply (dedupe_keeps_winner_all w Hdead)|].
      eapply equiv_trans.
      - intros pre post e' p'. apply (mangle_rules_keeps_winner_all w [] [] [] ltac:(intros q []) Hsafe Hdead _ true).
      - unfold flatten_list. rewrite flat_map_concat_map, map_map, <- flat_map_concat_map.
        apply (equiv_flat_map (fun x => flatten [] [] (mangle_tree [] x))).
        apply Forall_forall. intros r Hr. apply tree_equiv. intros q []. }
    specialize (H [] [] e p). cbn [app] in H. rewrite !app_nil_r in H. exact H.
  Qed.
End Tree.
