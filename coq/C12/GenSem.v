(* The semantic lemmas of BoxLemmas/BoxSem/BoxCompact, restated for an arbitrary
   "what does this declaration set position s to" function: the last-setter view
   of a layer, blanking overridden entries, replacing an entry by an equivalent
   one, collapsing four tracked entries into one placed at the greatest index.
   Used by the border-radius proofs (a corner value is a pair of radii). *)
From V Require Import Common.Base C12.Mangle C12.BoxTracker C12.BoxSpec C12.BoxLemmas C12.BoxTokens C12.BoxSem C12.BoxCompact.

Section Gen.
  Variable V : Type.
  Variable gsets : benv -> bdecl -> nat -> option V.
  Hypothesis gsets_affects : forall e d s, affects d s = false -> gsets e d s = None.

  Definition geff (e : benv) (imp : bool) (s : nat) (d : bdecl) : option V :=
    if Bool.eqb (b_imp d) imp then gsets e d s else None.
  Definition glayer (e : benv) (imp : bool) (s : nat) (l : list bdecl) : option V :=
    fold_left (fun acc d => match geff e imp s d with Some v => Some v | None => acc end) l None.

  Fixpoint glastset (f : nat -> option V) (n : nat) : option V :=
    match n with
    | O => None
    | S k => match f k with Some v => Some v | None => glastset f k end
    end.

  Lemma glastset_ext f g n : (forall j, (j < n)%nat -> f j = g j) -> glastset f n = glastset g n.
  Proof.
    induction n as [|n IH]; intros H; cbn [glastset]; [reflexivity|].
    rewrite (H n) by lia. rewrite IH by (intros; apply H; lia). reflexivity.
  Qed.

  Lemma glastset_at f n j v : (j < n)%nat -> f j = Some v ->
    (forall j', (j < j')%nat -> (j' < n)%nat -> f j' = None) -> glastset f n = Some v.
  Proof.
    induction n as [|n IH]; intros Hj Hv Hn; [lia|]. cbn [glastset].
    destruct (Nat.eq_dec j n) as [->|Hne].
    - rewrite Hv. reflexivity.
    - rewrite (Hn n) by lia. apply IH; [lia | exact Hv | intros; apply Hn; lia].
  Qed.

  Lemma glastset_none f n : (forall j, (j < n)%nat -> f j = None) -> glastset f n = None.
  Proof.
    induction n as [|n IH]; intros H; cbn [glastset]; [reflexivity|].
    rewrite (H n) by lia. apply IH. intros; apply H; lia.
  Qed.

  Section GLayer.
  Variable e : benv.
  Variable imp : bool.
  Variable s : nat.

  Definition gstep (acc : option V) (d : bdecl) : option V :=
    match geff e imp s d with Some v => Some v | None => acc end.

  Lemma glayer_from l : forall acc,
    fold_left gstep l acc = match fold_left gstep l None with Some v => Some v | None => acc end.
  Proof.
    induction l as [|d l IH]; intros acc; cbn [fold_left]; [reflexivity|].
    rewrite IH. rewrite (IH (gstep None d)). unfold gstep.
    destruct (fold_left _ l None); [reflexivity|]. destruct (geff e imp s d); reflexivity.
  Qed.

  Lemma glayer_app l1 l2 : glayer e imp s (l1 ++ l2) =
    match glayer e imp s l2 with Some v => Some v | None => glayer e imp s l1 end.
  Proof. unfold glayer. fold gstep. rewrite fold_left_app. apply glayer_from. Qed.

  Lemma glayer_one d : glayer e imp s [d] = geff e imp s d.
  Proof. unfold glayer. cbn. destruct (geff e imp s d); reflexivity. Qed.

  (* positional view *)
  Definition geffO (x : option (option bdecl)) : option V :=
    match x with Some (Some d) => geff e imp s d | _ => None end.

  Lemma glayer_lastset : forall rs,
    glayer e imp s (live rs) = glastset (fun j => geffO (nth_error rs j)) (length rs).
  Proof.
    induction rs as [|x rs IH] using rev_ind; [reflexivity|].
    rewrite live_app, glayer_app, app_length. cbn [length]. rewrite Nat.add_1_r. cbn [glastset].
    rewrite nth_error_app2 by lia. rewrite Nat.sub_diag. cbn [nth_error].
    assert (HX : glayer e imp s (live [x]) = geffO (Some x)).
    { destruct x as [d|]; cbn [live geffO]; [apply glayer_one | reflexivity]. }
    rewrite HX. destruct (geffO (Some x)); [reflexivity|].
    rewrite IH. apply glastset_ext. intros j Hj. rewrite nth_error_app1 by exact Hj. reflexivity.
  Qed.
  End GLayer.


  Definition gsem_eq (rs rs' : rules) : Prop :=
    length rs' = length rs /\
    (forall e imp s, glayer e imp s (live rs') = glayer e imp s (live rs)) /\
    filter is_other (live rs') = filter is_other (live rs).

  Lemma gsem_eq_refl rs : gsem_eq rs rs.
  Proof. repeat split. Qed.
  Lemma gsem_eq_trans a b c : gsem_eq a b -> gsem_eq b c -> gsem_eq a c.
  Proof.
    intros [L1 [S1 O1]] [L2 [S2 O2]]. split; [congruence|]. split; [|congruence].
    intros e imp s. rewrite S2, S1. reflexivity.
  Qed.

  (* entries may be blanked when the last entry overrides them in every browser *)
  Lemma gblank_preserves rs rs' :
    length rs' = length rs ->
    nth_error rs' (length rs - 1) = nth_error rs (length rs - 1) ->
    (forall j, nth_error rs' j = nth_error rs j \/
       (nth_error rs' j = Some None /\ exists r, nth_error rs j = Some (Some r) /\ is_other r = false /\
          forall e imp s, geff e imp s r <> None ->
            exists dn, nth_error rs (length rs - 1) = Some (Some dn) /\ geff e imp s dn <> None)) ->
    gsem_eq rs rs'.
  Proof.
    intros HL Hlast H. split; [exact HL|]. split.
    - intros e imp s. rewrite !glayer_lastset, HL.
      set (n := length rs) in *.
      destruct (geffO e imp s (nth_error rs (n - 1))) as [v|] eqn:EL.
      + assert (Hn : (n - 1 < n)%nat).
        { subst n. destruct rs as [|x0 rs0]; [destruct (0 - 1)%nat; cbn in EL; discriminate EL | cbn [length]; lia]. }
        rewrite (glastset_at _ n (n - 1) v); try lia; [|rewrite Hlast; exact EL].
        rewrite (glastset_at _ n (n - 1) v); try lia; [reflexivity | exact EL].
      + apply glastset_ext. intros j Hj. destruct (H j) as [E|[E [r [Er [_ Hov]]]]]; [rewrite E; reflexivity|].
        rewrite E, Er. cbn [geffO]. destruct (geff e imp s r) eqn:Ef; [|reflexivity].
        destruct (Hov e imp s) as [dn [Hd1 Hd2]]; [rewrite Ef; discriminate|].
        rewrite Hd1 in EL. cbn [geffO] in EL. contradiction.
    - symmetry. apply other_pointwise; [symmetry; exact HL|]. intros j.
      destruct (H j) as [E|[E [r [Er [Ho _]]]]]; [rewrite E; reflexivity|].
      rewrite E, Er, Ho. reflexivity.
  Qed.

  (* replacing one entry by a declaration with the same effect *)
  Lemma greplace_preserves rs i d d' :
    nth_error rs i = Some (Some d) ->
    (forall e s, gsets e d' s = gsets e d s) -> b_imp d' = b_imp d ->
    is_other d = false -> is_other d' = false ->
    gsem_eq rs (set_nth i (Some d') rs).
  Proof.
    intros Hi Hs Himp Ho Ho'.
    assert (Hlt : (i < length rs)%nat) by (apply nth_error_Some; rewrite Hi; discriminate).
    split; [apply set_nth_length|]. split.
    - intros e imp s. rewrite !glayer_lastset, set_nth_length. apply glastset_ext. intros j Hj.
      destruct (Nat.eq_dec j i) as [->|Hne].
      + rewrite nth_set_nth_same by exact Hlt. rewrite Hi. cbn [geffO]. unfold geff. rewrite Himp, Hs. reflexivity.
      + rewrite nth_set_nth_other by exact Hne. reflexivity.
    - apply other_pointwise; [apply set_nth_length|]. intros j.
      destruct (Nat.eq_dec j i) as [->|Hne].
      + rewrite nth_set_nth_same by exact Hlt. rewrite Hi, Ho, Ho'. reflexivity.
      + rewrite nth_set_nth_other by exact Hne. reflexivity.
  Qed.

  Section GCompact.
  Variable rs : rules.
  Variable idx : nat -> nat.
  Variable rk : nat -> bdecl.
  Variable comb : bdecl.
  Variable imp0 : bool.
  Hypothesis Hn : forall k, (k < 4)%nat -> nth_error rs (idx k) = Some (Some (rk k)).
  Lemma geff_none e imp s d : gsets e d s = None -> geff e imp s d = None.
  Proof. intros H. unfold geff. rewrite H. destruct (Bool.eqb (b_imp d) imp); reflexivity. Qed.
  Hypothesis Himp : forall k, (k < 4)%nat -> b_imp (rk k) = imp0.
  Hypothesis Himpc : b_imp comb = imp0.
  Hypothesis Hoth : forall k, (k < 4)%nat -> is_other (rk k) = false.
  Hypothesis Hothc : is_other comb = false.
  Hypothesis Hhi : forall e k s, (k < 4)%nat -> (4 <= s)%nat -> gsets e (rk k) s = None.
  Hypothesis Hhic : forall e s, (4 <= s)%nat -> gsets e comb s = None.
  Hypothesis Hafter : forall k j r', (k < 4)%nat -> (idx k < j)%nat ->
    nth_error rs j = Some (Some r') -> affects r' k = false.
  Hypothesis Hsem : forall e,
    (forall k, (k < 4)%nat -> exists v, gsets e (rk k) k = Some v /\ gsets e comb k = Some v) \/
    ((forall k s, (k < 4)%nat -> gsets e (rk k) s = None) /\ forall s, gsets e comb s = None).


  Theorem gcompact_preserves : gsem_eq rs (compacted rs idx comb).
  Proof.
    assert (HL : length (compacted rs idx comb) = length rs) by (unfold compacted, blanked; rewrite !set_nth_length; reflexivity).
    destruct (last4_is idx) as [kl [Hkl Ekl]].
    split; [exact HL|]. split.
    - intros e imp s. rewrite !glayer_lastset, HL.
      (* effect of a modified position *)
      assert (Hmod : forall j, is_idx idx j = true -> exists k, (k < 4)%nat /\ j = idx k /\
                geffO e imp s (nth_error rs j) = geff e imp s (rk k)).
      { intros j Hj. destruct (is_idx_true rs idx rk Hn j Hj) as [k [Hk ->]]. exists k. repeat split; [exact Hk|]. rewrite (Hn k Hk). reflexivity. }
      assert (Hpoint : (forall k, (k < 4)%nat -> geff e imp s (rk k) = None) -> geff e imp s comb = None ->
                glastset (fun j => geffO e imp s (nth_error (compacted rs idx comb) j)) (length rs) =
                glastset (fun j => geffO e imp s (nth_error rs j)) (length rs)).
      { intros Hr Hc. apply glastset_ext. intros j Hj. rewrite (nth_compacted rs idx rk comb Hn).
        destruct (Nat.eqb j (last4 idx)) eqn:El.
        - apply Nat.eqb_eq in El. subst j. cbn [geffO]. rewrite Hc, Ekl, (Hn kl Hkl). cbn [geffO]. rewrite Hr by exact Hkl. reflexivity.
        - destruct (is_idx idx j) eqn:Ei; [|reflexivity]. destruct (Hmod j Ei) as [k [Hk [_ E]]]. rewrite E, Hr by exact Hk. reflexivity. }
      destruct (bool_dec imp0 imp) as [Eimp|Eimp].
      2:{ assert (Ef : Bool.eqb imp0 imp = false) by (apply Bool.eqb_false_iff; exact Eimp).
          apply Hpoint.
          - intros k Hk. unfold geff. rewrite (Himp k Hk), Ef. reflexivity.
          - unfold geff. rewrite Himpc, Ef. reflexivity. }
      destruct (le_lt_dec 4 s) as [Hs|Hs].
      { apply Hpoint.
        - intros k Hk. apply geff_none. apply Hhi; assumption.
        - apply geff_none. apply Hhic; assumption. }
      destruct (Hsem e) as [HV|[HN HNc]].
      2:{ apply Hpoint.
          - intros k Hk. apply geff_none. apply HN; assumption.
          - apply geff_none. apply HNc. }
      destruct (HV s Hs) as [v [Hv1 Hv2]].
      assert (Hafter' : forall j, (idx s < j)%nat -> geffO e imp s (nth_error rs j) = None).
      { intros j Hj. destruct (nth_error rs j) as [[r'|]|] eqn:En; try reflexivity. cbn [geffO].
        apply geff_none. apply gsets_affects. apply (Hafter s j r' Hs Hj En). }
      transitivity (Some v).
      + apply (glastset_at _ _ (last4 idx) v).
        * rewrite Ekl; apply (idx_lt rs idx rk Hn); exact Hkl.
        * rewrite (nth_compacted rs idx rk comb Hn), Nat.eqb_refl. cbn [geffO]. unfold geff. rewrite Himpc, Eimp, Bool.eqb_reflx. exact Hv2.
        * intros j' H1 H2. rewrite (nth_compacted rs idx rk comb Hn).
          assert (E1 : Nat.eqb j' (last4 idx) = false) by (apply Nat.eqb_neq; lia). rewrite E1.
          destruct (is_idx idx j') eqn:Ei; [reflexivity|].
          apply Hafter'. pose proof (last4_ge rs idx rk Hn s Hs). lia.
      + symmetry. apply (glastset_at _ _ (idx s) v).
        * apply (idx_lt rs idx rk Hn); exact Hs.
        * rewrite (Hn s Hs). cbn [geffO]. unfold geff. rewrite (Himp s Hs), Eimp, Bool.eqb_reflx. exact Hv1.
        * intros j' H1 H2. apply Hafter'. exact H1.
    - symmetry. apply other_pointwise; [symmetry; exact HL|]. intros j. rewrite (nth_compacted rs idx rk comb Hn).
      destruct (Nat.eqb j (last4 idx)) eqn:El.
      + apply Nat.eqb_eq in El. subst j. rewrite Ekl, (Hn kl Hkl), (Hoth kl Hkl), Hothc. reflexivity.
      + destruct (is_idx idx j) eqn:Ei; [|reflexivity].
        destruct (is_idx_true rs idx rk Hn j Ei) as [k [Hk ->]]. rewrite (Hn k Hk), (Hoth k Hk). reflexivity.
  Qed.
  End GCompact.
End Gen.
