(* Token-level lemmas for the box proofs: quads, unit-safety status vs validity. *)
From V Require Import Common.Base C12.Mangle C12.BoxTracker C12.BoxSpec.

Lemma tok_eqb_eq a b : tok_eqb a b = true -> a = b.
Proof.
  destruct a, b; cbn; intros H; try discriminate.
  - apply Z.eqb_eq in H; congruence.
  - apply Z.eqb_eq in H; congruence.
  - apply andb_true_iff in H as [H1 H2]. apply Z.eqb_eq in H1, H2. congruence.
  - apply eqb_prop in H. congruence.
  - apply Z.eqb_eq in H; congruence.
Qed.

Lemma spec_expand_compact q : spec_expand (compact_quad_tok q) = Some q.
Proof.
  destruct q as [[[a b] c] d]. unfold compact_quad_tok.
  destruct (tok_eqb d b) eqn:E1; [apply tok_eqb_eq in E1; subst|reflexivity].
  destruct (tok_eqb c a) eqn:E2; [apply tok_eqb_eq in E2; subst|reflexivity].
  destruct (tok_eqb b a) eqn:E3; [apply tok_eqb_eq in E3; subst|]; reflexivity.
Qed.

Definition all4 (P : tok -> bool) (q : quad) : bool :=
  P (qnth q 0) && P (qnth q 1) && P (qnth q 2) && P (qnth q 3).

Lemma forallb_spec_expand (P : tok -> bool) l q : spec_expand l = Some q -> forallb P l = all4 P q.
Proof.
  destruct l as [|a [|b [|c [|d [|]]]]]; cbn; intros H; inversion H; subst; unfold all4; cbn;
    destruct (P a); cbn; try reflexivity; try (destruct (P b); cbn; try reflexivity);
    try (destruct (P c); cbn; try reflexivity); try (destruct (P d); reflexivity).
Qed.

Lemma forallb_compact (P : tok -> bool) q : forallb P (compact_quad_tok q) = all4 P q.
Proof. apply forallb_spec_expand. apply spec_expand_compact. Qed.

(* what the trackers accept as a side value *)
Definition trk (aa : bool) (t : tok) : bool :=
  is_numeric t || match t with TAuto _ => aa | _ => false end.

Lemma quad_ok_trk aa t : quad_tok_ok aa t = true -> trk aa t = true.
Proof. unfold quad_tok_ok, trk. destruct t as [| | |[|]|]; cbn; intros H; try discriminate H; auto. Qed.

Lemma trk_plain aa l : forallb (trk aa) l = true -> plain l = true.
Proof.
  unfold plain. induction l as [|t l IH]; cbn; [reflexivity|]. intros H.
  apply andb_true_iff in H as [H1 H2]. rewrite IH by exact H2. destruct t; cbn in *; try reflexivity. discriminate.
Qed.

Lemma expand_quad_tok_spec aa l q : expand_quad_tok aa l = Some q ->
  spec_expand l = Some q /\ forallb (trk aa) l = true.
Proof.
  unfold expand_quad_tok. destruct (forallb (quad_tok_ok aa) l) eqn:E; [|discriminate].
  intros H. split.
  - destruct l as [|a [|b [|c [|d [|]]]]]; cbn in *; try discriminate; exact H.
  - rewrite forallb_forall in *. intros t Ht. apply quad_ok_trk. apply E. exact Ht.
Qed.

(* ---- unit-safety status ---- *)
Definition stat_step (aa : bool) (us : ustatus) (t : tok) : ustatus :=
  if negb aa || is_numeric t then include_unit us t else us.
Definition stat (aa : bool) (T : list tok) : ustatus := fold_left (stat_step aa) T USafe.

Definition us_valid (e : benv) (us : ustatus) : bool :=
  match us with USafe => true | USingle u => unit_ok e u | UMixed => false end.

Definition stat_inv (e : benv) (aa : bool) (us : ustatus) (T : list tok) : Prop :=
  match us with
  | USafe => forallb (tok_ok e aa) T = true
  | USingle u => safe_unit u = false /\ forallb (tok_ok e aa) T = unit_ok e u
  | UMixed => True
  end.

Lemma mixed_stays aa T : fold_left (stat_step aa) T UMixed = UMixed.
Proof.
  induction T as [|t T IH]; [reflexivity|]. cbn [fold_left]. unfold stat_step at 2.
  destruct (negb aa || is_numeric t); [|exact IH]. destruct t as [v| |v u| |]; cbn [include_unit]; try exact IH.
  - destruct (v =? 0); exact IH.
  - destruct (safe_unit u); exact IH.
Qed.

Lemma stat_step_inv e aa us pre t : trk aa t = true -> stat_inv e aa us pre ->
  stat_inv e aa (stat_step aa us t) (pre ++ [t]).
Proof.
  intros Ht H. unfold stat_step.
  assert (FA : forallb (tok_ok e aa) (pre ++ [t]) = forallb (tok_ok e aa) pre && tok_ok e aa t)
    by (rewrite forallb_app; cbn; rewrite andb_true_r; reflexivity).
  destruct t as [v| p |v u|ex|i]; cbn [is_numeric orb negb include_unit trk] in *.
  - rewrite orb_true_r. destruct (Z.eqb_spec v 0) as [->|Hv].
    + destruct us as [|u0|]; cbn [stat_inv] in *; rewrite ?FA; cbn [tok_ok]; rewrite ?Z.eqb_refl; cbn [orb].
      * rewrite H. reflexivity.
      * destruct H as [H1 H2]. split; [exact H1|]. rewrite H2, andb_true_r. reflexivity.
      * exact I.
    + exact I.
  - rewrite orb_true_r. destruct us as [|u0|]; cbn [stat_inv] in *; rewrite ?FA; cbn [tok_ok].
    + rewrite H. reflexivity.
    + destruct H as [H1 H2]. split; [exact H1|]. rewrite H2, andb_true_r. reflexivity.
    + exact I.
  - rewrite orb_true_r. destruct (safe_unit u) eqn:Su.
    + destruct us as [|u0|]; cbn [stat_inv] in *; rewrite ?FA; cbn [tok_ok]; rewrite ?Su; cbn [orb].
      * rewrite H. reflexivity.
      * destruct H as [H1 H2]. split; [exact H1|]. rewrite H2, andb_true_r. reflexivity.
      * exact I.
    + destruct us as [|u0|]; cbn [stat_inv] in *.
      * split; [exact Su|]. rewrite FA, H. cbn [tok_ok]. rewrite Su. reflexivity.
      * destruct (Z.eqb_spec u0 u) as [->|Hne]; cbn [stat_inv]; [|exact I].
        destruct H as [H1 H2]. split; [exact H1|]. rewrite FA, H2. cbn [tok_ok]. rewrite Su. cbn [orb].
        destruct (unit_ok e u); reflexivity.
      * exact I.
  - (* auto: only trackable when aa *) destruct aa; [|discriminate Ht]. cbn [negb orb].
    destruct us as [|u0|]; cbn [stat_inv] in *; rewrite ?FA; cbn [tok_ok].
    + rewrite H. reflexivity.
    + destruct H as [H1 H2]. split; [exact H1|]. rewrite H2, andb_true_r. reflexivity.
    + exact I.
  - discriminate.
Qed.

Lemma stat_fold_inv e aa : forall T us pre, forallb (trk aa) T = true -> stat_inv e aa us pre ->
  stat_inv e aa (fold_left (stat_step aa) T us) (pre ++ T).
Proof.
  induction T as [|t T IH]; intros us pre HT H; cbn [fold_left].
  - rewrite app_nil_r. exact H.
  - cbn [forallb] in HT. apply andb_true_iff in HT as [Ht HT].
    replace (pre ++ t :: T) with ((pre ++ [t]) ++ T) by (rewrite <- app_assoc; reflexivity).
    apply IH; [exact HT|]. apply stat_step_inv; assumption.
Qed.

(* a status other than "mixed" says exactly in which browsers the value list is valid *)
Lemma stat_valid e aa T : forallb (trk aa) T = true -> stat aa T <> UMixed ->
  forallb (tok_ok e aa) T = us_valid e (stat aa T).
Proof.
  intros HT HM. pose proof (stat_fold_inv e aa T USafe [] HT eq_refl) as H. cbn [app] in H.
  unfold stat in *. destruct (fold_left (stat_step aa) T USafe); cbn [stat_inv us_valid] in *;
    [exact H | destruct H; assumption | contradiction].
Qed.

(* with status "safe", 0px -> 0 changes neither the value nor the validity *)
Definition dims_safe (t : tok) : Prop := match t with TDim _ u => safe_unit u = true | _ => True end.

Lemma notsafe_stays aa : forall T us, us <> USafe -> fold_left (stat_step aa) T us <> USafe.
Proof.
  induction T as [|t T IH]; intros us H; cbn [fold_left]; [exact H|]. apply IH.
  unfold stat_step. destruct (negb aa || is_numeric t); [|exact H].
  destruct t as [v| |v u| |]; cbn [include_unit]; try discriminate; try exact H.
  - destruct (v =? 0); [exact H | discriminate].
  - destruct (safe_unit u); [exact H|].
    destruct us as [|u1|]; [contradiction | destruct (u1 =? u); discriminate | discriminate].
Qed.

Lemma stat_safe_dims aa : forall T us, fold_left (stat_step aa) T us = USafe ->
  Forall (fun t => is_numeric t = true -> dims_safe t) T.
Proof.
  induction T as [|t T IH]; intros us H; [constructor|]. cbn [fold_left] in H.
  constructor; [|eapply IH; exact H].
  intros Hn. destruct t as [| |v u| |]; cbn [dims_safe]; try exact I.
  destruct (safe_unit u) eqn:Su; [reflexivity|]. exfalso.
  apply (notsafe_stays aa T (stat_step aa us (TDim v u))); [|exact H].
  unfold stat_step. cbn [is_numeric]. rewrite orb_true_r. cbn [include_unit]. rewrite Su.
  destruct us as [|u0|]; [discriminate | destruct (u0 =? u); discriminate | discriminate].
Qed.

Lemma turn_safe e aa t : dims_safe t -> norm (turn t) = norm t /\ tok_ok e aa (turn t) = tok_ok e aa t.
Proof.
  destruct t as [| |v u| |]; cbn [turn dims_safe]; try (split; reflexivity).
  intros Su. destruct (Z.eqb_spec v 0) as [->|Hv]; [|split; reflexivity].
  cbn [norm tok_ok]. rewrite Su. cbn. split; reflexivity.
Qed.

Lemma turn_trk aa t : trk aa t = true -> trk aa (turn t) = true.
Proof. destruct t as [| |v u| |]; cbn; auto. destruct (v =? 0); reflexivity. Qed.

(* ---- what a trackable declaration sets ---- *)
Lemma sets_single e aa s t imp s' : trk aa t = true ->
  sets e aa (mkB (KSide s) [t] imp) s' =
  if Nat.eqb s s' then (if tok_ok e aa t then Some (SV (norm t)) else None) else None.
Proof.
  intros Ht. unfold sets. cbn [b_key b_val]. destruct (Nat.eqb s s'); [|reflexivity].
  assert (P : plain [t] = true) by (apply (trk_plain aa); cbn; rewrite Ht; reflexivity).
  rewrite P. reflexivity.
Qed.

Lemma sets_short e aa l q imp s : spec_expand l = Some q -> forallb (trk aa) l = true ->
  sets e aa (mkB KShort l imp) s =
  if (s <? 4)%nat then (if forallb (tok_ok e aa) l then Some (SV (norm (qnth q s))) else None) else None.
Proof.
  intros Hq Ht. unfold sets. cbn [b_key b_val]. destruct (s <? 4)%nat; [|reflexivity].
  rewrite (trk_plain aa l Ht), Hq. reflexivity.
Qed.

Definition affects (d : bdecl) (s : nat) : bool :=
  match b_key d with KShort => true | KSide s' => Nat.eqb s' s | KOther _ => false end.

Lemma not_affects_sets e aa d s : affects d s = false -> sets e aa d s = None.
Proof. unfold affects, sets. destruct (b_key d); intros H; [discriminate | rewrite H; reflexivity | reflexivity]. Qed.
