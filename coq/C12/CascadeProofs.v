(* Lemmas about the cascade specification: the strength order is a total
   order, [join] (later wins unless strictly weaker) is an associative,
   idempotent operation with  x . b . x = b . x, and [best] is the monoid
   product of the candidates. *)
From V Require Import Common.Base C12.Cascade.

Lemma lex_refl a : lex_cmp a a = Eq.
Proof. induction a as [|x a IH]; simpl; [reflexivity|]. rewrite Z.compare_refl. exact IH. Qed.

Lemma lex_antisym : forall a b, lex_cmp b a = CompOpp (lex_cmp a b).
Proof.
  induction a as [|x a IH]; intros [|y b]; simpl; try reflexivity.
  rewrite (Z.compare_antisym x y). destruct (x ?= y); simpl; auto.
Qed.

Lemma lex_eq : forall a b, lex_cmp a b = Eq -> a = b.
Proof.
  induction a as [|x a IH]; intros [|y b]; simpl; intros H; try discriminate; [reflexivity|].
  destruct (x ?= y) eqn:E; try discriminate.
  apply Z.compare_eq in E. subst. f_equal. apply IH. exact H.
Qed.

Lemma lex_trans_lt : forall a b c, lex_cmp a b = Lt -> lex_cmp b c = Lt -> lex_cmp a c = Lt.
Proof.
  induction a as [|x a IH]; intros [|y b] [|z c]; simpl; intros H1 H2; try discriminate; try reflexivity.
  destruct (x ?= y) eqn:E1; try discriminate.
  - apply Z.compare_eq in E1; subst. destruct (y ?= z) eqn:E2; try discriminate.
    + eapply IH; eauto.
    + reflexivity.
  - destruct (y ?= z) eqn:E2; try discriminate.
    + apply Z.compare_eq in E2; subst. rewrite E1. reflexivity.
    + rewrite Z.compare_lt_iff in *. assert (x < z) by lia.
      destruct (x ?= z) eqn:E3; try reflexivity; rewrite ?Z.compare_eq_iff, ?Z.compare_gt_iff in E3; lia.
Qed.

(* y strictly weaker than x *)
Definition ltb (y x : cand) : bool := match lex_cmp (fst y) (fst x) with Lt => true | _ => false end.

Lemma join_some x y : join (Some x) (Some y) = if ltb y x then Some x else Some y.
Proof. unfold join, ltb. destruct (lex_cmp (fst y) (fst x)); reflexivity. Qed.

Lemma ltb_irrefl x : ltb x x = false.
Proof. unfold ltb. rewrite lex_refl. reflexivity. Qed.

Lemma ltb_trans z y x : ltb z y = true -> ltb y x = true -> ltb z x = true.
Proof.
  unfold ltb. intros H1 H2.
  destruct (lex_cmp (fst z) (fst y)) eqn:E1; try discriminate.
  destruct (lex_cmp (fst y) (fst x)) eqn:E2; try discriminate.
  rewrite (lex_trans_lt _ _ _ E1 E2). reflexivity.
Qed.

Lemma ltb_asym y x : ltb y x = true -> ltb x y = false.
Proof.
  unfold ltb. intros H. rewrite (lex_antisym (fst y) (fst x)).
  destruct (lex_cmp (fst y) (fst x)); try discriminate. reflexivity.
Qed.

(* z >= y >= x  ->  z >= x *)
Lemma geb_trans z y x : ltb z y = false -> ltb y x = false -> ltb z x = false.
Proof.
  unfold ltb. intros H1 H2.
  destruct (lex_cmp (fst z) (fst x)) eqn:E3; try reflexivity. exfalso.
  (* z < x.  y >= x means x <= y: x = y or x < y *)
  destruct (lex_cmp (fst y) (fst x)) eqn:E2; try discriminate.
  - apply lex_eq in E2. rewrite E2 in H1. rewrite E3 in H1. discriminate.
  - (* y > x, i.e. x < y *)
    assert (Hxy : lex_cmp (fst x) (fst y) = Lt) by (rewrite lex_antisym, E2; reflexivity).
    rewrite (lex_trans_lt _ _ _ E3 Hxy) in H1. discriminate.
Qed.

Lemma join_none_l a : join None a = a.
Proof. destruct a; reflexivity. Qed.
Lemma join_none_r a : join a None = a.
Proof. destruct a; reflexivity. Qed.

Lemma join_assoc a b c : join (join a b) c = join a (join b c).
Proof.
  destruct a as [x|], b as [y|], c as [z|]; rewrite ?join_none_l, ?join_none_r; try reflexivity.
  rewrite !join_some.
  destruct (ltb y x) eqn:Eyx, (ltb z y) eqn:Ezy; rewrite ?join_some, ?Eyx, ?Ezy.
  - rewrite (ltb_trans _ _ _ Ezy Eyx). reflexivity.
  - reflexivity.
  - reflexivity.
  - rewrite (geb_trans _ _ _ Ezy Eyx). reflexivity.
Qed.

(* x . b . x = b . x : an earlier copy of something that occurs again later is irrelevant *)
Lemma join_xbx x b : join (join x b) x = join b x.
Proof.
  destruct x as [x|], b as [b|]; rewrite ?join_none_l, ?join_none_r; try reflexivity.
  - rewrite !join_some. destruct (ltb b x) eqn:E.
    + rewrite join_some, ltb_irrefl. rewrite (ltb_asym _ _ E). reflexivity.
    + rewrite join_some. reflexivity.
  - rewrite join_some, ltb_irrefl. reflexivity.
Qed.

Lemma join_idem x : join x x = x.
Proof. pose proof (join_xbx x None) as H. rewrite join_none_r, join_none_l in H. exact H. Qed.

Definition absorbs (x B : option cand) : Prop := join x B = B.

Lemma absorbs_self x C : absorbs x (join x C).
Proof. unfold absorbs. rewrite <- join_assoc, join_idem. reflexivity. Qed.

Lemma absorbs_step x y B : absorbs x B -> absorbs x (join y B).
Proof.
  unfold absorbs. intros H.
  rewrite <- H at 1. rewrite <- !join_assoc. rewrite join_xbx.
  rewrite join_assoc, H. reflexivity.
Qed.

Lemma fold_join l : forall acc, fold_left (fun a c => join a (Some c)) l acc = join acc (best l).
Proof.
  induction l as [|c l IH]; intros acc; simpl.
  - unfold best. simpl. rewrite join_none_r. reflexivity.
  - rewrite IH. unfold best. simpl. rewrite (IH (Some c)). rewrite join_assoc. reflexivity.
Qed.

Lemma best_app l1 l2 : best (l1 ++ l2) = join (best l1) (best l2).
Proof.
  unfold best at 1. rewrite fold_left_app. rewrite (fold_join l2). reflexivity.
Qed.

Lemma best_nil : best [] = None.
Proof. reflexivity. Qed.

(* product of per-element results *)
Section Prod.
  Context {R : Type} (x : R -> option cand).
  Definition prod (l : list R) : option cand := fold_right (fun r acc => join (x r) acc) None l.
  Lemma prod_app l1 l2 : prod (l1 ++ l2) = join (prod l1) (prod l2).
  Proof.
    induction l1 as [|r l1 IH]; [rewrite join_none_l; reflexivity|].
    change (join (x r) (prod (l1 ++ l2)) = join (join (x r) (prod l1)) (prod l2)).
    rewrite IH, join_assoc. reflexivity.
  Qed.
End Prod.

Lemma best_flat_map {R} (h : R -> list cand) (l : list R) :
  best (flat_map h l) = prod (fun r => best (h r)) l.
Proof.
  induction l as [|r l IH]; [reflexivity|].
  cbn [flat_map]. rewrite best_app, IH. reflexivity.
Qed.

Lemma filter_flat_map {A B} (f : B -> bool) (g : A -> list B) (l : list A) :
  filter f (flat_map g l) = flat_map (fun x => filter f (g x)) l.
Proof.
  induction l as [|x l IH]; simpl; [reflexivity|].
  rewrite filter_app, IH. reflexivity.
Qed.

Lemma flat_map_flat_map {A B C} (f : B -> list C) (g : A -> list B) (l : list A) :
  flat_map f (flat_map g l) = flat_map (fun x => flat_map f (g x)) l.
Proof.
  induction l as [|x l IH]; simpl; [reflexivity|].
  rewrite flat_map_app, IH. reflexivity.
Qed.
