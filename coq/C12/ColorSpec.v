(* C12 specification side for colour notations (CSS Color 4, section 5.2
   "The RGB hexadecimal notations" and section 6.1 named colours): what RGBA
   value a hash token or an identifier denotes.  Written from the standard,
   independent of esbuild's parseHex / expandHex. *)
From V Require Import Common.Base C12.Hex.

Fixpoint index_in (c : Z) (l : list Z) (i : Z) : option Z :=
  match l with
  | [] => None
  | x :: r => if x =? c then Some i else index_in c r (i + 1)
  end.

(* "0123456789", "abcdef", "ABCDEF" *)
Definition spec_hexval (c : Z) : option Z :=
  match index_in c [48;49;50;51;52;53;54;55;56;57] 0 with
  | Some d => Some d
  | None =>
    match index_in c [97;98;99;100;101;102] 10 with
    | Some d => Some d
    | None => index_in c [65;66;67;68;69;70] 10
    end
  end.

Fixpoint all_some {A} (l : list (option A)) : option (list A) :=
  match l with
  | [] => Some []
  | Some x :: r => match all_some r with Some r' => Some (x :: r') | None => None end
  | None :: _ => None
  end.

Definition rgba (r g b a : Z) : Z := r * 2 ^ 24 + g * 2 ^ 16 + b * 2 ^ 8 + a.

(* "#rgb" duplicates every digit; "#rrggbb"; the 4 and 8 digit forms carry alpha *)
Definition spec_hash_value (digits : list Z) : option Z :=
  match all_some (map spec_hexval digits) with
  | Some [r; g; b] => Some (rgba (16 * r + r) (16 * g + g) (16 * b + b) 255)
  | Some [r; g; b; a] => Some (rgba (16 * r + r) (16 * g + g) (16 * b + b) (16 * a + a))
  | Some [r1; r2; g1; g2; b1; b2] => Some (rgba (16 * r1 + r2) (16 * g1 + g2) (16 * b1 + b2) 255)
  | Some [r1; r2; g1; g2; b1; b2; a1; a2] => Some (rgba (16 * r1 + r2) (16 * g1 + g2) (16 * b1 + b2) (16 * a1 + a2))
  | _ => None
  end.

Fixpoint assoc_l {B} (k : list Z) (l : list (list Z * B)) : option B :=
  match l with
  | [] => None
  | (k', v) :: r => if zlist_eqb k' k then Some v else assoc_l k r
  end.

Section Value.
  (* the named colours: name -> 0xRRGGBBAA *)
  Variable named : list (list Z * Z).
  Definition spec_color_value (t : ctoken) : option Z :=
    match t with
    | CIdent n => assoc_l n named
    | CHash d => spec_hash_value d
    | CRgba r g b a => Some (rgba r g b a)
    end.
End Value.

(* ---- percentage reference ranges of the colour functions (CSS Color 4,
   sections 9.3 lab()/lch(), 9.4 oklab()/oklch(), 10.2 color()):
   what number a <percentage> stands for, as a fraction (n, d) of 100%.
   Functions: 1 lab, 2 lch, 3 oklab, 4 oklch, 5 color(); components 0, 1, 2
   (the hue of lch/oklch is an angle and takes no percentage). *)
Definition spec_pct_ref (fn comp : Z) : option (Z * Z) :=
  match fn, comp with
  | 1, 0 => Some (100, 1) | 1, 1 => Some (125, 1) | 1, 2 => Some (125, 1)      (* lab: L 100% = 100, a/b 100% = 125 *)
  | 2, 0 => Some (100, 1) | 2, 1 => Some (150, 1)                              (* lch: L 100% = 100, C 100% = 150 *)
  | 3, 0 => Some (1, 1) | 3, 1 => Some (2, 5) | 3, 2 => Some (2, 5)            (* oklab: L 100% = 1, a/b 100% = 0.4 *)
  | 4, 0 => Some (1, 1) | 4, 1 => Some (2, 5)                                  (* oklch: L 100% = 1, C 100% = 0.4 *)
  | 5, 0 => Some (1, 1) | 5, 1 => Some (1, 1) | 5, 2 => Some (1, 1)            (* color(): 100% = 1 *)
  | _, _ => None
  end.

(* the reference ranges parseColor passes to NumberOrFractionForPercentage
   (css_decls_color.go, cases "lab", "lch", "oklab", "oklch", "color") *)
Definition model_pct_ref (fn comp : Z) : option (Z * Z) :=
  match fn, comp with
  | 1, 0 => Some (100, 1) | 1, 1 => Some (125, 1) | 1, 2 => Some (125, 1)
  | 2, 0 => Some (100, 1) | 2, 1 => Some (125, 1)
  | 3, 0 => Some (1, 1) | 3, 1 => Some (2, 5) | 3, 2 => Some (2, 5)
  | 4, 0 => Some (1, 1) | 4, 1 => Some (2, 5)
  | 5, 0 => Some (1, 1) | 5, 1 => Some (1, 1) | 5, 2 => Some (1, 1)
  | _, _ => None
  end.
