(* The ":is()-available / single parent" branch of nesting lowering preserves
   which elements a nested rule's selector matches (CSS Nesting 1: "&" stands
   for :is(parent selector list)). *)
From V Require Import Common.Base C12.Nesting.
Require Import Btauto.

Lemma mem_tab n f x : (x < n)%nat -> mem (tab n f) x = f x.
Proof.
  intros H. unfold mem, tab. rewrite (nth_indep _ false (f O)) by (rewrite map_length, seq_length; exact H).
  rewrite map_nth, seq_nth by exact H. reflexivity.
Qed.
Lemma tab_ext n f g : (forall x, (x < n)%nat -> f x = g x) -> tab n f = tab n g.
Proof. intros H. unfold tab. apply map_ext_in. intros x Hx. apply in_seq in Hx. apply H. lia. Qed.

Lemma xapp_nil_r a : xapp a XNil = a.
Proof. induction a as [|c r IH]; cbn; [reflexivity | rewrite IH; reflexivity]. Qed.
Lemma xapp_assoc a b c : xapp (xapp a b) c = xapp a (xapp b c).
Proof. induction a as [|x r IH]; cbn; [reflexivity | rewrite IH; reflexivity]. Qed.

Lemma xsplit_snoc : forall R p s, xsplit R = Some (p, s) -> R = xsnoc p s /\ xlen R = S (xlen p).
Proof.
  induction R as [|c r IH]; intros p s H; cbn in H; [discriminate|].
  destruct (xsplit r) as [[p0 l0]|] eqn:E.
  - inversion H; subst. destruct (IH p0 s eq_refl) as [-> HL]. split; [reflexivity|]. cbn. rewrite HL. reflexivity.
  - inversion H; subst. destruct r; [split; reflexivity|]. cbn in E. destruct (xsplit r); [destruct p|]; discriminate.
Qed.

Section Proofs.
  Variable D : dom.
  Variable A : list bool.
  Notation n := (size D).

  Lemma ev_app a : forall b L, ev D A (xapp a b) L = ev D A b (ev D A a L).
  Proof. induction a as [|c r IH]; intros b L; cbn; [reflexivity | apply IH]. Qed.
  Lemma ev_snoc a c L : ev D A (xsnoc a c) L = ev D A (XCons c XNil) (ev D A a L).
  Proof. apply ev_app. Qed.
  Lemma ev_one c L : ev D A (XCons c XNil) L = Some (tab n (fun x => ok_c D A c x && relpart D L (c_comb c) x)).
  Proof. reflexivity. Qed.
  Lemma ev_clear_first p : ev D A (clear_first p) None = ev D A p None.
  Proof. destruct p as [|c r]; [reflexivity|]. destruct c. reflexivity. Qed.
  Lemma ok_s_app a b x : ok_s D A (sapp a b) x = ok_s D A a x && ok_s D A b x.
  Proof.
    induction a as [|i r IH|ng l r IH]; [reflexivity | | ].
    - change (sapp (SClass i r) b) with (SClass i (sapp r b)). change (ok_s D A (SClass i (sapp r b)) x) with (d_cls D x i && ok_s D A (sapp r b) x).
      change (ok_s D A (SClass i r) x) with (d_cls D x i && ok_s D A r x). rewrite IH. btauto.
    - change (sapp (SPc ng l r) b) with (SPc ng l (sapp r b)). change (ok_s D A (SPc ng l (sapp r b)) x) with (xorb ng (ok_l D A l x) && ok_s D A (sapp r b) x).
      change (ok_s D A (SPc ng l r) x) with (xorb ng (ok_l D A l x) && ok_s D A r x). rewrite IH. btauto.
  Qed.
  Lemma ok_clear c x : ok_c D A (clear_comb c) x = ok_c D A c x.
  Proof. destruct c; reflexivity. Qed.

  Definition tyok (t : option Z) (x : nat) : bool := match t with Some u => d_ty D x u | None => true end.
  Lemma ok_c_eq k a t s x : ok_c D A (Cp k a t s) x = (if a then mem A x else true) && tyok t x && ok_s D A s x.
  Proof. reflexivity. Qed.
  Lemma ok_s_nil x : ok_s D A SNil x = true. Proof. reflexivity. Qed.
  Lemma ok_s_class i r x : ok_s D A (SClass i r) x = d_cls D x i && ok_s D A r x. Proof. reflexivity. Qed.
  Lemma ok_s_pc ng l r x : ok_s D A (SPc ng l r) x = xorb ng (ok_l D A l x) && ok_s D A r x. Proof. reflexivity. Qed.
  Lemma ok_l_nil x : ok_l D A LNil x = false. Proof. reflexivity. Qed.
  Lemma ok_l_cons cx r x : ok_l D A (LCons cx r) x = (match ev D A cx None with Some S0 => mem S0 x | None => false end) || ok_l D A r x.
  Proof. reflexivity. Qed.

  Lemma ok_is_type u x : (x < n)%nat -> ok_s D A (is_type u) x = d_ty D x u.
  Proof.
    intros Hx. unfold is_type. rewrite ok_s_pc, ok_l_cons, ok_l_nil, ok_s_nil, ev_one, mem_tab by exact Hx.
    rewrite ok_c_eq, ok_s_nil. cbn [tyok relpart xorb]. btauto.
  Qed.

  Lemma ok_merge k k0 ts ss sty ssubs x : (x < n)%nat ->
    ok_c D A (merge_into k (Cp k0 false ts ss) sty ssubs) x = ok_c D A (Cp k0 false ts ss) x && tyok sty x && ok_s D A ssubs x.
  Proof.
    intros Hx. unfold merge_into. cbn [c_ty c_subs]. destruct ts as [t|]; rewrite !ok_c_eq.
    - rewrite !ok_s_app. destruct sty as [u|]; cbn [tyok]; [rewrite ok_is_type by exact Hx | rewrite ok_s_nil]; btauto.
    - rewrite ok_s_app. cbn [tyok]. btauto.
  Qed.
  Lemma comb_merge k single sty ssubs : c_comb (merge_into k single sty ssubs) = k.
  Proof. unfold merge_into. destruct (c_ty single); reflexivity. Qed.

  Variable repl : complex.
  Hypothesis HR1 : first_comb repl = 0.
  Hypothesis HR2 : ev D A repl None = Some A.
  Hypothesis HR3 : has_amp_x repl = false.

  Lemma has_amp_snoc p s : has_amp_x (xsnoc p s) = has_amp_x p || has_amp_c s.
  Proof. induction p as [|c r IH]; cbn; [btauto | unfold xsnoc in IH; rewrite IH; btauto]. Qed.

  Lemma subst_amp_ok strip scomb sty ssubs ssubs' results :
    (forall x, ok_s D A ssubs' x = ok_s D A ssubs x) ->
    ev D A (subst_amp repl strip scomb sty ssubs' results) None =
    ev D A (XCons (Cp scomb true sty ssubs) XNil) (ev D A results None).
  Proof.
    intros Hs. unfold subst_amp.
    destruct (xsplit repl) as [[prefix single]|] eqn:Esp.
    2:{ destruct repl; [cbn in HR2; discriminate | cbn in Esp; destruct (xsplit c0) as [[? ?]|]; discriminate]. }
    destruct (xsplit_snoc _ _ _ Esp) as [ER EL].
    destruct single as [ks as_ ts ss].
    assert (Eas : as_ = false).
    { rewrite ER, has_amp_snoc in HR3. apply orb_false_iff in HR3 as [_ H]. cbn in H. apply orb_false_iff in H as [H _]. exact H. }
    subst as_.
    (* what A is *)
    assert (HA : A = tab n (fun x => ok_c D A (Cp ks false ts ss) x && relpart D (ev D A prefix None) ks x)).
    { pose proof HR2 as H. rewrite ER, ev_snoc, ev_one in H. injection H as H1. symmetry. exact H1. }
    assert (HAm : forall x, (x < n)%nat -> mem A x = ok_c D A (Cp ks false ts ss) x && relpart D (ev D A prefix None) ks x).
    { intros x Hx. rewrite HA at 1. apply mem_tab. exact Hx. }
    rewrite EL. set (L := ev D A results None).
    destruct ((scomb =? 0) && ((S (xlen prefix) =? 1)%nat || xnil results)) eqn:Ec.
    - apply andb_true_iff in Ec as [Ek Ec]. apply Z.eqb_eq in Ek. subst scomb.
      destruct prefix as [|p0 pr].
      + (* the replacement is a single compound *)
        cbn [xlen Nat.eqb Nat.ltb Nat.leb andb]. rewrite !andb_false_r.
        assert (Eks : ks = 0) by (rewrite ER in HR1; exact HR1). subst ks.
        assert (Ecomb : c_comb (if strip && true then clear_comb (Cp 0 false ts ss) else Cp 0 false ts ss) = 0) by (destruct strip; reflexivity).
        rewrite Ecomb, xapp_nil_r, ev_snoc, !ev_one. fold L. f_equal. apply tab_ext. intros x Hx.
        rewrite comb_merge. cbn [c_comb].
        replace (if strip && true then clear_comb (Cp 0 false ts ss) else Cp 0 false ts ss) with (Cp 0 false ts ss) by (destruct strip; reflexivity).
        rewrite ok_merge by exact Hx. rewrite !ok_c_eq. rewrite (HAm x Hx), Hs, ok_c_eq. cbn [relpart ev]. btauto.
      + (* several compounds: only at the start *)
        cbn [xlen Nat.eqb orb] in Ec. destruct results as [|r0 rr]; [|discriminate Ec].
        cbn [xlen Nat.eqb andb]. rewrite andb_false_r.
        cbn [xapp]. rewrite ev_snoc.
        assert (Epre : ev D A (if strip && (1 <? S (S (xlen pr)))%nat then clear_first (XCons p0 pr) else XCons p0 pr) None = ev D A (XCons p0 pr) None).
        { destruct (strip && (1 <? S (S (xlen pr)))%nat); [apply ev_clear_first | reflexivity]. }
        rewrite Epre, !ev_one. unfold L. change (ev D A XNil None) with (@None (list bool)). f_equal. apply tab_ext. intros x Hx.
        rewrite comb_merge. cbn [c_comb relpart]. rewrite ok_merge by exact Hx. rewrite !ok_c_eq.
        rewrite (HAm x Hx), Hs, ok_c_eq. btauto.
    - destruct (S (xlen prefix) =? 1)%nat eqn:E1.
      + (* single compound, not at the start or behind a combinator *)
        destruct prefix; [|discriminate E1].
        rewrite ev_snoc, !ev_one. fold L. f_equal. apply tab_ext. intros x Hx.
        rewrite comb_merge. cbn [c_comb]. rewrite ok_merge by exact Hx. rewrite !ok_c_eq. rewrite (HAm x Hx), Hs, ok_c_eq.
        cbn [relpart ev]. btauto.
      + (* wrapped in :is() *)
        rewrite ev_snoc, !ev_one. fold L. f_equal. apply tab_ext. intros x Hx.
        rewrite comb_merge. cbn [c_comb]. rewrite ok_merge by exact Hx. rewrite !ok_c_eq, ok_s_pc, ok_l_cons, ok_l_nil, ok_s_nil, HR2, Hs.
        cbn [tyok xorb]. btauto.
  Qed.

  Theorem subst_sound :
    (forall c strip results, ev D A (sb_c repl strip c results) None = ev D A (XCons c XNil) (ev D A results None)) /\
    (forall s x, ok_s D A (sb_s repl s) x = ok_s D A s x) /\
    (forall cx strip results, ev D A (sb_x repl strip cx results) None = ev D A cx (ev D A results None)) /\
    (forall l x, ok_l D A (sb_l repl l) x = ok_l D A l x).
  Proof.
    apply sel_mutind.
    - intros scomb samp sty ssubs IH strip results. cbn [sb_c]. destruct samp.
      + apply subst_amp_ok. exact IH.
      + rewrite ev_snoc, !ev_one. f_equal. apply tab_ext. intros x Hx. rewrite !ok_c_eq. cbn [c_comb]. rewrite IH. reflexivity.
    - reflexivity.
    - intros i r IH x. cbn [sb_s]. rewrite !ok_s_class, IH. reflexivity.
    - intros ng l IHl r IHr x. cbn [sb_s]. rewrite !ok_s_pc, IHl, IHr. reflexivity.
    - reflexivity.
    - intros c IHc r IHr strip results. cbn [sb_x]. rewrite IHr, IHc. reflexivity.
    - reflexivity.
    - intros cx IHx r IHr x. cbn [sb_l]. rewrite !ok_l_cons, IHx, IHr. reflexivity.
  Qed.
End Proofs.

(* a selector without "&" means the same whatever "&" stands for *)
Lemma amp_free_indep D A A' :
  (forall c, has_amp_c c = false -> forall x, ok_c D A c x = ok_c D A' c x) /\
  (forall s, has_amp_s s = false -> forall x, ok_s D A s x = ok_s D A' s x) /\
  (forall cx, has_amp_x cx = false -> forall L, ev D A cx L = ev D A' cx L) /\
  (forall l, has_amp_l l = false -> forall x, ok_l D A l x = ok_l D A' l x).
Proof.
  apply sel_mutind.
  - intros k a t s IH H x. cbn [has_amp_c] in H. apply orb_false_iff in H as [-> Hs]. rewrite !ok_c_eq, (IH Hs). reflexivity.
  - reflexivity.
  - intros i r IH H x. cbn [has_amp_s] in H. rewrite !ok_s_class, (IH H). reflexivity.
  - intros ng l IHl r IHr H x. cbn [has_amp_s] in H. apply orb_false_iff in H as [Hl Hr]. rewrite !ok_s_pc, (IHl Hl), (IHr Hr). reflexivity.
  - reflexivity.
  - intros c IHc r IHr H L. cbn [has_amp_x] in H. apply orb_false_iff in H as [Hc Hr].
    change (ev D A (XCons c r) L) with (ev D A r (Some (tab (size D) (fun x => ok_c D A c x && relpart D L (c_comb c) x)))).
    change (ev D A' (XCons c r) L) with (ev D A' r (Some (tab (size D) (fun x => ok_c D A' c x && relpart D L (c_comb c) x)))).
    rewrite (IHr Hr). f_equal. f_equal. apply tab_ext. intros x _. rewrite (IHc Hc). reflexivity.
  - reflexivity.
  - intros cx IHx r IHr H x. cbn [has_amp_l] in H. apply orb_false_iff in H as [Hx Hr]. rewrite !ok_l_cons, (IHx Hx), (IHr Hr). reflexivity.
Qed.

Lemma ev_is_tab D A cx : forall L, cx <> XNil -> exists f, ev D A cx L = Some (tab (size D) f).
Proof.
  induction cx as [|c r IH]; intros L H; [contradiction|].
  change (ev D A (XCons c r) L) with (ev D A r (Some (tab (size D) (fun x => ok_c D A c x && relpart D L (c_comb c) x)))).
  destruct r as [|c' r']; [eexists; reflexivity|]. apply IH. discriminate.
Qed.

(* parents: no "&" (already substituted), no leading combinator, not empty *)
Fixpoint parents_ok (l : sellist) : bool :=
  match l with LNil => true | LCons p r => negb (xnil p) && (first_comb p =? 0) && negb (has_amp_x p) && parents_ok r end.

Lemma parents_ok_amp l : parents_ok l = true -> has_amp_l l = false.
Proof.
  induction l as [|p r IH]; cbn; [reflexivity|]. intros H. repeat (apply andb_true_iff in H as [H ?]).
  rewrite IH by assumption. destruct (has_amp_x p); [discriminate | reflexivity].
Qed.

(* the set "&" stands for: the elements matched by :is(parent list) *)
Definition parent_set (D : dom) (parents : sellist) : list bool := tab (size D) (ok_l D [] parents).

Lemma parents_single_facts D parents : parents_ok parents = true ->
  let A := parent_set D parents in
  first_comb (parents_single parents) = 0 /\ ev D A (parents_single parents) None = Some A /\ has_amp_x (parents_single parents) = false.
Proof.
  intros Hok A.
  assert (Hamp : has_amp_l parents = false) by (apply parents_ok_amp; exact Hok).
  assert (Hind : forall x, ok_l D A parents x = ok_l D [] parents x) by (intros x; apply (amp_free_indep D A []); exact Hamp).
  assert (Hwrap : first_comb (XCons (Cp 0 false None (SPc false parents SNil)) XNil) = 0 /\
                  ev D A (XCons (Cp 0 false None (SPc false parents SNil)) XNil) None = Some A /\
                  has_amp_x (XCons (Cp 0 false None (SPc false parents SNil)) XNil) = false).
  { split; [reflexivity|]. split.
    - rewrite ev_one. f_equal. unfold A, parent_set. apply tab_ext. intros x Hx.
      rewrite ok_c_eq, ok_s_pc, ok_s_nil, Hind. cbn [tyok relpart xorb]. btauto.
    - cbn. rewrite Hamp. reflexivity. }
  destruct parents as [|p [|p2 r]]; try exact Hwrap.
  cbn [parents_single]. cbn [parents_ok] in Hok. repeat (apply andb_true_iff in Hok as [Hok ?]).
  split; [apply Z.eqb_eq; assumption|]. split.
  - assert (Hp : p <> XNil) by (destruct p; [discriminate | discriminate]).
    destruct (ev_is_tab D A p None Hp) as [f Hf]. rewrite Hf. f_equal. unfold A, parent_set. apply tab_ext. intros x Hx.
    rewrite <- Hind, ok_l_cons, ok_l_nil. fold A. rewrite Hf, mem_tab by exact Hx. btauto.
  - destruct (has_amp_x p); [discriminate | reflexivity].
Qed.

(* NESTING LOWERING, ":is()" usable (or at most one parent): the elements matched *)
Theorem lower_is_matching D parents cx : parents_ok parents = true ->
  forall x, matches D (parent_set D parents) (lower_is parents cx) x = matches D (parent_set D parents) (inject_amp cx) x.
Proof.
  intros Hok x. destruct (parents_single_facts D parents Hok) as [H1 [H2 H3]].
  destruct (subst_sound D (parent_set D parents) (parents_single parents) H1 H2 H3) as [_ [_ [HX _]]].
  unfold matches, lower_is. rewrite HX. reflexivity.
Qed.

(* ------------------------------------------------------------------ *)
(* the cross-product branch: witnesses *)
Definition ty1 (t : Z) : complex := XCons (Cp 0 false (Some t) SNil) XNil.
Definition amp1 : complex := XCons (Cp 0 true None SNil) XNil.

(* C12-N: a, b { :is(&, span) {} } for a target without :is(): the "&" inside the
   pseudo-class argument is replaced by the first parent in every copy *)
Definition wN_parents : sellist := LCons (ty1 1) (LCons (ty1 2) LNil).
Definition wN_child : complex := XCons (Cp 0 false None (SPc false (LCons amp1 (LCons (ty1 4) LNil)) SNil)) XNil.
Definition wN_doc : list node := [mkN 1 [] None None; mkN 2 [] None (Some 0%nat)].

Lemma expand_amp_in_pseudo_arg_witness :
  lower_expand wN_parents (LCons wN_child LNil) =
    [XCons (Cp 0 false None (SPc false (LCons (ty1 1) (LCons (ty1 4) LNil)) SNil)) XNil;
     XCons (Cp 0 false None (SPc false (LCons (ty1 1) (LCons (ty1 4) LNil)) SNil)) XNil] /\
  let D := tree_dom wN_doc in
  existsb (fun s => matches D [] s 1%nat) (lower_expand wN_parents (LCons wN_child LNil)) = false /\
  matches D (parent_set D wN_parents) (inject_amp wN_child) 1%nat = true.
Proof. vm_compute. repeat split; reflexivity. Qed.

(* C12-L: div, .c1 { > a {} } without :is(): each copy has its own specificity,
   natively "&" carries the specificity of :is(div, .c1) *)
Definition wL_parents : sellist := LCons (ty1 3) (LCons (XCons (Cp 0 false None (SClass 1 SNil)) XNil) LNil).
Definition wL_child : complex := XCons (Cp 1 false (Some 1) SNil) XNil.
(* the nested selector with "&" literally replaced by :is(parent list): CSS Nesting's definition of its specificity *)
Definition native_spec (parents : sellist) (cx : complex) : spec3 :=
  spec_x (sb_x (XCons (Cp 0 false None (SPc false parents SNil)) XNil) false (inject_amp cx) XNil).

Lemma expand_specificity_witness :
  map spec_x (lower_expand wL_parents (LCons wL_child LNil)) = [(0, 0, 2); (0, 1, 1)]%nat /\
  native_spec wL_parents wL_child = (0, 1, 1)%nat.
Proof. vm_compute. split; reflexivity. Qed.

(* the replayed C12-N input: div, a { :not(&).c1 {} } for firefox70, element a.c1 *)
Definition wN2_parents : sellist := LCons (ty1 3) (LCons (ty1 1) LNil).
Definition wN2_child : complex := XCons (Cp 0 false None (SPc true (LCons amp1 LNil) (SClass 1 SNil))) XNil.
Definition wN2_doc : list node := [mkN 1 [1] None None].
Lemma expand_not_amp_witness :
  lower_expand wN2_parents (LCons wN2_child LNil) =
    [XCons (Cp 0 false None (SPc true (LCons (ty1 3) LNil) (SClass 1 SNil))) XNil;
     XCons (Cp 0 false None (SPc true (LCons (ty1 3) LNil) (SClass 1 SNil))) XNil] /\
  let D := tree_dom wN2_doc in
  existsb (fun s => matches D [] s 0%nat) (lower_expand wN2_parents (LCons wN2_child LNil)) = true /\
  matches D (parent_set D wN2_parents) (inject_amp wN2_child) 0%nat = false.
Proof. vm_compute. repeat split; reflexivity. Qed.
