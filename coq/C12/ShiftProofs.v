(* shiftDot multiplies the exact value by 10^offset, for every number without
   exponent (it refuses numbers with an exponent). *)
From V Require Import Common.Base C12.Text C12.NumberCss C12.NumberSpec C12.NumberProofs.

Lemma render_no_e sg ip fo : wf_num sg ip fo NoExp -> contains_e (render sg ip fo NoExp) = false.
Proof.
  intros [Hsg [Hip [Hfo _]]]. apply contains_e_false. unfold render. cbn [exp_text]. rewrite app_nil_r.
  apply Forall_app. split; [destruct Hsg as [->|[->| ->]]; repeat constructor; lia|].
  apply Forall_app. split; [eapply Forall_impl; [|exact Hip]; unfold dig; intros; lia|].
  destruct fo as [f|]; cbn [frac_text]; [|constructor].
  destruct Hfo as [Hf _]. constructor; [lia|]. eapply Forall_impl; [|exact Hf]; unfold dig; intros; lia.
Qed.

Lemma lead_loop_spec : forall D dot, exists j,
  D = repeat 48 j ++ fst (lead_loop D dot) /\ snd (lead_loop D dot) = dot - Z.of_nat j.
Proof.
  induction D as [|x D IH]; intros dot; cbn [lead_loop].
  - exists O. cbn. split; [reflexivity | lia].
  - destruct ((0 <? dot) && (x =? 48)) eqn:E.
    + apply andb_true_iff in E as [_ E]. apply Z.eqb_eq in E. subst x.
      destruct (IH (dot - 1)) as [j [H1 H2]]. exists (S j). cbn [repeat app]. split; [f_equal; exact H1 | lia].
    + exists O. cbn. split; [reflexivity | lia].
Qed.

Lemma trail_loop_spec : forall R dot, exists t, R = repeat 48 t ++ trail_loop R dot.
Proof.
  induction R as [|x R IH]; intros dot; cbn [trail_loop].
  - exists O. reflexivity.
  - destruct ((dot <? Z.of_nat (length (x :: R))) && (x =? 48)) eqn:E.
    + apply andb_true_iff in E as [_ E]. apply Z.eqb_eq in E. subst x.
      destruct (IH dot) as [t H]. exists (S t). cbn [repeat app]. f_equal. exact H.
    + exists O. reflexivity.
Qed.

Lemma digits_repeat_app_inv j D : digits (repeat 48 j ++ D) -> digits D.
Proof. intros H. apply digits_app_inv in H. tauto. Qed.

Lemma dv_lead_zeros j D : digits_val (repeat 48 j ++ D) = digits_val D.
Proof. rewrite dv_app, dv_zeros. lia. Qed.

Lemma digits_zeros n : digits (repeat 48 n).
Proof. induction n; constructor; [unfold dig; lia | assumption]. Qed.

(* a * 10^n at exponent e  is  a * 10^t at exponent e + n - t *)
Lemma qeq_scale a n t e : 0 <= n -> 0 <= t -> qeq (a * 10 ^ n, e) (a * 10 ^ t, e + n - t).
Proof.
  intros Hn Ht. unfold qeq. cbn [fst snd].
  destruct (Z_le_gt_dec n t) as [L|G].
  - rewrite Z.min_r by lia. replace (e - (e + n - t)) with (t - n) by lia.
    replace (e + n - t - (e + n - t)) with 0 by lia.
    rewrite <- Z.mul_assoc, <- Z.pow_add_r by lia. replace (n + (t - n)) with t by lia. lia.
  - rewrite Z.min_l by lia. replace (e - e) with 0 by lia.
    replace (e + n - t - e) with (n - t) by lia.
    rewrite <- (Z.mul_assoc a (10 ^ t)), <- Z.pow_add_r by lia. replace (t + (n - t)) with n by lia. lia.
Qed.

Lemma sign_split sg body : signs sg ->
  (match body with c :: _ => is_sign c = false | [] => True end) ->
  (match sg ++ body with
   | c :: r => if is_sign c then ([c], r) else ([], sg ++ body)
   | [] => ([], [])
   end) = (sg, body).
Proof.
  intros [->|[->| ->]] Hb; cbn [app]; try reflexivity.
  destruct body as [|c r]; [reflexivity|]. rewrite Hb. reflexivity.
Qed.

Lemma dot_removal ip fo : digits ip ->
  (match fo with Some f => digits f | None => True end) ->
  (match index_byte 46 (ip ++ frac_text fo) with
   | None => (Z.of_nat (length (ip ++ frac_text fo)), ip ++ frac_text fo)
   | Some d => (Z.of_nat d, firstn d (ip ++ frac_text fo) ++ skipn (S d) (ip ++ frac_text fo))
   end) = (Z.of_nat (length ip), ip ++ frac_digits fo).
Proof.
  intros Hip Hfo.
  assert (H46 : no46 ip) by (eapply Forall_impl; [|exact Hip]; unfold dig; intros; lia).
  destruct fo as [f|]; cbn [frac_text frac_digits].
  - rewrite index_byte_app by exact H46.
    rewrite firstn_app, Nat.sub_diag, firstn_all. cbn [firstn]. rewrite app_nil_r.
    replace (S (length ip)) with (length ip + 1)%nat by lia.
    rewrite skipn_app. rewrite skipn_all2 by lia.
    replace (length ip + 1 - length ip)%nat with 1%nat by lia. reflexivity.
  - rewrite !app_nil_r. rewrite index_byte_none by exact H46. reflexivity.
Qed.

Theorem shift_dot_value_all : forall sg ip fo k, wf_num sg ip fo NoExp ->
  exists s' v', shiftDot (render sg ip fo NoExp) k = Some s' /\
    css_number_value s' = Some v' /\
    qeq v' (sgv sg * digits_val (ip ++ frac_digits fo), - Z.of_nat (length (frac_digits fo)) + k).
Proof.
  intros sg ip fo k Hwf. pose proof (render_no_e sg ip fo Hwf) as Hne.
  destruct Hwf as [Hsg [Hip [Hfo _]]].
  unfold shiftDot. rewrite Hne. unfold render. cbn [exp_text]. rewrite app_nil_r.
  rewrite sign_split; [|exact Hsg|].
  2:{ destruct ip as [|i ip]; cbn [app].
      - destruct fo as [f|]; [reflexivity | contradiction].
      - inversion Hip; subst. unfold dig in *. unfold is_sign. zb; try reflexivity. }
  rewrite dot_removal; [|exact Hip | destruct fo; tauto].
  set (D := ip ++ frac_digits fo).
  assert (HD : digits D).
  { unfold D. apply Forall_app. split; [exact Hip|]. destruct fo as [f|]; cbn [frac_digits]; [tauto | constructor]. }
  set (dot := Z.of_nat (length ip) + k).
  destruct (lead_loop_spec D dot) as [j [HL1 HL2]].
  destruct (lead_loop D dot) as [D1 dot1] eqn:EL. cbn [fst snd] in HL1, HL2.
  assert (HD1 : digits D1) by (rewrite HL1 in HD; eapply digits_repeat_app_inv; exact HD).
  destruct (trail_loop_spec (rev D1) dot1) as [t HT].
  set (D2 := rev (trail_loop (rev D1) dot1)).
  assert (HD12 : D1 = D2 ++ repeat 48 t).
  { unfold D2. rewrite <- (rev_involutive D1) at 1. rewrite HT at 1. rewrite rev_app_distr, repeat_rev. reflexivity. }
  assert (HD2 : digits D2) by (rewrite HD12 in HD1; apply digits_app_inv in HD1; tauto).
  (* the value in terms of D2 *)
  set (a := sgv sg * digits_val D2).
  assert (Hval : sgv sg * digits_val D = a * 10 ^ Z.of_nat t).
  { unfold a. rewrite HL1, dv_lead_zeros, HD12, dv_app, dv_zeros, repeat_length. lia. }
  assert (Hexp : - Z.of_nat (length (frac_digits fo)) + k = dot1 - Z.of_nat (length D2) - Z.of_nat t).
  { assert (Z.of_nat (length D) = Z.of_nat (length ip) + Z.of_nat (length (frac_digits fo))) by (unfold D; rewrite app_length; lia).
    assert (Z.of_nat (length D) = Z.of_nat j + Z.of_nat (length D1)) by (rewrite HL1 at 1; rewrite app_length, repeat_length; lia).
    assert (Z.of_nat (length D1) = Z.of_nat (length D2) + Z.of_nat t) by (rewrite HD12 at 1; rewrite app_length, repeat_length; lia).
    unfold dot in HL2. lia. }
  rewrite Hval, Hexp.
  destruct (Z.of_nat (length D2) <=? dot1) eqn:Ecmp.
  - (* no fractional part in the result *)
    apply Z.leb_le in Ecmp. set (n := dot1 - Z.of_nat (length D2)) in *.
    set (tz := if nil_l D2 && (n =? 0) then [48] else zeros n).
    assert (Htz : digits tz /\ digits_val (D2 ++ tz) = digits_val D2 * 10 ^ n /\ D2 ++ tz <> []).
    { unfold tz. destruct (nil_l D2 && (n =? 0)) eqn:En.
      - apply andb_true_iff in En as [E1 E2]. destruct D2; [|discriminate]. apply Z.eqb_eq in E2. rewrite E2.
        repeat split; [repeat constructor; unfold dig; lia | discriminate].
      - unfold zeros. repeat split.
        + apply digits_zeros.
        + rewrite dv_app, dv_zeros, repeat_length. rewrite Z2Nat.id by lia. lia.
        + destruct D2 as [|d D2']; [|discriminate]. cbn [nil_l andb] in En.
          apply Z.eqb_neq in En. cbn [app]. destruct (Z.to_nat n) eqn:EN; [lia | discriminate]. }
    destruct Htz as [Htz1 [Htz2 Htz3]].
    eexists. eexists. split; [reflexivity|].
    replace (sg ++ D2 ++ tz) with (render sg (D2 ++ tz) None NoExp)
      by (unfold render; cbn [frac_text exp_text]; rewrite !app_nil_r; reflexivity).
    split.
    + apply css_value_render. repeat split; try assumption. apply Forall_app. split; assumption.
    + cbn [frac_digits exp_val length]. rewrite app_nil_r, Htz2.
      replace (- Z.of_nat 0 + 0) with 0 by lia.
      replace (sgv sg * (digits_val D2 * 10 ^ n)) with (a * 10 ^ n) by (unfold a; lia).
      replace (dot1 - Z.of_nat (length D2) - Z.of_nat t) with (0 + n - Z.of_nat t) by (unfold n; lia).
      apply qeq_scale; lia.
  - (* a fractional part remains *)
    apply Z.leb_gt in Ecmp.
    destruct (dot1 <? 0) eqn:Eneg.
    + apply Z.ltb_lt in Eneg.
      eexists. eexists. split; [reflexivity|]. cbn [Z.to_nat firstn skipn app].
      replace (sg ++ 46 :: zeros (- dot1) ++ D2) with (render sg [] (Some (zeros (- dot1) ++ D2)) NoExp)
        by (unfold render; cbn [frac_text exp_text app]; rewrite !app_nil_r; reflexivity).
      split.
      * apply css_value_render. repeat split; try assumption; try constructor.
        -- apply Forall_app. split; [apply digits_zeros | exact HD2].
        -- unfold zeros. destruct (Z.to_nat (- dot1)) eqn:EN; [lia | discriminate].
      * cbn [frac_digits exp_val app]. unfold zeros. rewrite dv_lead_zeros, app_length, repeat_length.
        rewrite Nat2Z.inj_add, Z2Nat.id by lia.
        replace (sgv sg * digits_val D2) with (a * 10 ^ 0) by (unfold a; lia).
        replace (dot1 - Z.of_nat (length D2) - Z.of_nat t)
          with ((- (- dot1 + Z.of_nat (length D2)) + 0) + 0 - Z.of_nat t) by lia.
        apply qeq_scale; lia.
    + apply Z.ltb_ge in Eneg.
      eexists. eexists. split; [reflexivity|].
      replace (sg ++ firstn (Z.to_nat dot1) D2 ++ [46] ++ skipn (Z.to_nat dot1) D2)
        with (render sg (firstn (Z.to_nat dot1) D2) (Some (skipn (Z.to_nat dot1) D2)) NoExp)
        by (unfold render; cbn [frac_text exp_text app]; rewrite !app_nil_r; reflexivity).
      assert (Hsplit : D2 = firstn (Z.to_nat dot1) D2 ++ skipn (Z.to_nat dot1) D2) by (symmetry; apply firstn_skipn).
      assert (Hfs : digits (firstn (Z.to_nat dot1) D2) /\ digits (skipn (Z.to_nat dot1) D2))
        by (apply digits_app_inv; rewrite <- Hsplit; exact HD2).
      assert (Hsl : Z.of_nat (length (skipn (Z.to_nat dot1) D2)) = Z.of_nat (length D2) - dot1)
        by (rewrite skipn_length; lia).
      split.
      * apply css_value_render. repeat split; try tauto.
        intros Hnil. rewrite Hnil in Hsl. cbn [length] in Hsl. lia.
      * cbn [frac_digits exp_val]. rewrite <- Hsplit, Hsl.
        replace (sgv sg * digits_val D2) with (a * 10 ^ 0) by (unfold a; lia).
        replace (dot1 - Z.of_nat (length D2) - Z.of_nat t)
          with ((- (Z.of_nat (length D2) - dot1) + 0) + 0 - Z.of_nat t) by lia.
        apply qeq_scale; lia.
Qed.
