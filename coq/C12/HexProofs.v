(* Proofs about the hex colour helpers. *)
From V Require Import Common.Base C12.Hex C12.ColorSpec.

Definition nibbles : list Z := [0;1;2;3;4;5;6;7;8;9;10;11;12;13;14;15].
Lemma in_nibbles d : 0 <= d < 16 -> In d nibbles.
Proof.
  intros H. unfold nibbles.
  assert (d = 0 \/ d = 1 \/ d = 2 \/ d = 3 \/ d = 4 \/ d = 5 \/ d = 6 \/ d = 7 \/ d = 8 \/ d = 9 \/
          d = 10 \/ d = 11 \/ d = 12 \/ d = 13 \/ d = 14 \/ d = 15) as E by lia.
  simpl. intuition.
Qed.

Lemma hex_digit_char d : 0 <= d < 16 -> hex_digit (hex_char d) = Some d.
Proof.
  intros H. apply in_nibbles in H. revert d H. apply Forall_forall.
  repeat constructor.
Qed.

Lemma spec_hexval_char d : 0 <= d < 16 -> spec_hexval (hex_char d) = Some d.
Proof.
  intros H. apply in_nibbles in H. revert d H. apply Forall_forall.
  repeat constructor.
Qed.

(* parsing what Sprintf("%0nx") wrote gives the number back *)
Lemma parse_fmt_hex : forall n v acc r,
  0 <= v < 16 ^ Z.of_nat n -> 0 <= acc -> acc * 16 ^ Z.of_nat n + v < 2 ^ 32 ->
  parseHex_loop (fmt_hex n v ++ r) acc = parseHex_loop r (acc * 16 ^ Z.of_nat n + v).
Proof.
  induction n as [|k IH]; intros v acc r Hv Hacc Hb.
  - simpl. change (16 ^ Z.of_nat 0) with 1 in *. f_equal. lia.
  - cbn [fmt_hex]. rewrite <- app_assoc. cbn [app].
    replace (Z.of_nat (S k)) with (Z.of_nat k + 1) in * by lia.
    rewrite Z.pow_add_r in * by lia. change (16 ^ 1) with 16 in *.
    assert (Hp : 0 < 16 ^ Z.of_nat k) by (apply Z.pow_pos_nonneg; lia).
    rewrite IH; try lia; try nia.
    cbn [parseHex_loop]. rewrite hex_digit_char by lia.
    f_equal. rewrite Z.mod_small by nia. nia.
Qed.

Lemma parseHex_fmt_hex n v : 0 <= v < 16 ^ Z.of_nat n -> v < 2 ^ 32 ->
  parseHex (fmt_hex n v) = Some v.
Proof.
  intros Hv Hb. unfold parseHex.
  rewrite <- (app_nil_r (fmt_hex n v)). rewrite parse_fmt_hex; try lia.
  reflexivity.
Qed.

(* expandHex duplicates every digit: finite sweep over the four nibbles *)
Definition expand_ok (a b c d : Z) : bool :=
  expandHex (a * 4096 + b * 256 + c * 16 + d) =? rgba (16 * a + a) (16 * b + b) (16 * c + c) (16 * d + d).
Definition compact_ok (a b c d : Z) : bool :=
  compactHex (rgba (16 * a + a) (16 * b + b) (16 * c + c) (16 * d + d)) =? a * 4096 + b * 256 + c * 16 + d.

Lemma sweep4 (f : Z -> Z -> Z -> Z -> bool) :
  forallb (fun a => forallb (fun b => forallb (fun c => forallb (fun d => f a b c d) nibbles) nibbles) nibbles) nibbles = true ->
  forall a b c d, 0 <= a < 16 -> 0 <= b < 16 -> 0 <= c < 16 -> 0 <= d < 16 -> f a b c d = true.
Proof.
  intros H a b c d Ha Hb Hc Hd.
  rewrite forallb_forall in H. specialize (H a (in_nibbles a Ha)).
  rewrite forallb_forall in H. specialize (H b (in_nibbles b Hb)).
  rewrite forallb_forall in H. specialize (H c (in_nibbles c Hc)).
  rewrite forallb_forall in H. exact (H d (in_nibbles d Hd)).
Qed.

Lemma expand_sweep : forall a b c d, 0 <= a < 16 -> 0 <= b < 16 -> 0 <= c < 16 -> 0 <= d < 16 ->
  expand_ok a b c d = true.
Proof. apply sweep4. vm_compute. reflexivity. Qed.

Lemma compact_sweep : forall a b c d, 0 <= a < 16 -> 0 <= b < 16 -> 0 <= c < 16 -> 0 <= d < 16 ->
  compact_ok a b c d = true.
Proof. apply sweep4. vm_compute. reflexivity. Qed.

Lemma expandHex_digits v : 0 <= v < 2 ^ 16 ->
  expandHex v = rgba (17 * (v / 4096)) (17 * ((v / 256) mod 16)) (17 * ((v / 16) mod 16)) (17 * (v mod 16)).
Proof.
  intros H.
  pose proof (expand_sweep (v / 4096) ((v / 256) mod 16) ((v / 16) mod 16) (v mod 16)) as E.
  unfold expand_ok in E. rewrite Z.eqb_eq in E.
  replace (v / 4096 * 4096 + (v / 256) mod 16 * 256 + (v / 16) mod 16 * 16 + v mod 16) with v in E by lia.
  rewrite E by lia. unfold rgba. lia.
Qed.

Theorem hex_compact_roundtrip_all : forall v, 0 <= v < 2 ^ 16 -> compactHex (expandHex v) = v.
Proof.
  intros v H. rewrite expandHex_digits by exact H.
  pose proof (compact_sweep (v / 4096) ((v / 256) mod 16) ((v / 16) mod 16) (v mod 16)) as E.
  unfold compact_ok in E. rewrite Z.eqb_eq in E.
  replace (17 * (v / 4096)) with (16 * (v / 4096) + v / 4096) by lia.
  replace (17 * ((v / 256) mod 16)) with (16 * ((v / 256) mod 16) + (v / 256) mod 16) by lia.
  replace (17 * ((v / 16) mod 16)) with (16 * ((v / 16) mod 16) + (v / 16) mod 16) by lia.
  replace (17 * (v mod 16)) with (16 * (v mod 16) + v mod 16) by lia.
  rewrite E by lia. lia.
Qed.

(* compactHex of a 32-bit value fits 16 bits *)
Lemma lt_pow2_log2 a n : 0 <= a -> 0 < n -> Z.log2 a < n -> a < 2 ^ n.
Proof.
  intros Ha Hn Hl. destruct (Z.eq_dec a 0) as [->|Hz].
  - apply Z.pow_pos_nonneg; lia.
  - apply Z.log2_lt_pow2; lia.
Qed.

Lemma compactHex_bound v : 0 <= v -> 0 <= compactHex v < 2 ^ 16.
Proof.
  intros Hv. unfold compactHex.
  assert (A0 : 0 <= Z.land v 267386880) by (apply Z.land_nonneg; lia).
  assert (B0 : 0 <= Z.land v 4080) by (apply Z.land_nonneg; lia).
  assert (A1 : 0 <= Z.shiftr (Z.land v 267386880) 12) by (apply Z.shiftr_nonneg; exact A0).
  assert (B1 : 0 <= Z.shiftr (Z.land v 4080) 4) by (apply Z.shiftr_nonneg; exact B0).
  split; [apply Z.lor_nonneg; split; assumption|].
  apply lt_pow2_log2; [apply Z.lor_nonneg; split; assumption | lia |].
  rewrite Z.log2_lor by assumption.
  assert (LA : Z.log2 (Z.land v 267386880) <= 27).
  { pose proof (Z.log2_land v 267386880 Hv ltac:(lia)) as L. change (Z.log2 267386880) with 27 in L. lia. }
  assert (LB : Z.log2 (Z.land v 4080) <= 11).
  { pose proof (Z.log2_land v 4080 Hv ltac:(lia)) as L. change (Z.log2 4080) with 11 in L. lia. }
  assert (SA : Z.log2 (Z.shiftr (Z.land v 267386880) 12) <= 15).
  { destruct (Z.eq_dec (Z.land v 267386880) 0) as [E|E].
    - rewrite E. rewrite Z.shiftr_0_l. simpl. lia.
    - rewrite Z.log2_shiftr by lia. lia. }
  assert (SB : Z.log2 (Z.shiftr (Z.land v 4080) 4) <= 7).
  { destruct (Z.eq_dec (Z.land v 4080) 0) as [E|E].
    - rewrite E. rewrite Z.shiftr_0_l. simpl. lia.
    - rewrite Z.log2_shiftr by lia. lia. }
  lia.
Qed.

Lemma fmt_hex_3 v : fmt_hex 3 v = [hex_char ((v / 16 / 16) mod 16); hex_char ((v / 16) mod 16); hex_char (v mod 16)].
Proof. reflexivity. Qed.
Lemma fmt_hex_4 v : fmt_hex 4 v = [hex_char ((v / 16 / 16 / 16) mod 16); hex_char ((v / 16 / 16) mod 16); hex_char ((v / 16) mod 16); hex_char (v mod 16)].
Proof. reflexivity. Qed.
Lemma fmt_hex_6 v : fmt_hex 6 v =
  [hex_char ((v / 16 / 16 / 16 / 16 / 16) mod 16); hex_char ((v / 16 / 16 / 16 / 16) mod 16);
   hex_char ((v / 16 / 16 / 16) mod 16); hex_char ((v / 16 / 16) mod 16); hex_char ((v / 16) mod 16); hex_char (v mod 16)].
Proof. reflexivity. Qed.
Lemma fmt_hex_8 v : fmt_hex 8 v =
  [hex_char ((v / 16 / 16 / 16 / 16 / 16 / 16 / 16) mod 16); hex_char ((v / 16 / 16 / 16 / 16 / 16 / 16) mod 16);
   hex_char ((v / 16 / 16 / 16 / 16 / 16) mod 16); hex_char ((v / 16 / 16 / 16 / 16) mod 16);
   hex_char ((v / 16 / 16 / 16) mod 16); hex_char ((v / 16 / 16) mod 16); hex_char ((v / 16) mod 16); hex_char (v mod 16)].
Proof. reflexivity. Qed.

Ltac hexvals := repeat (rewrite spec_hexval_char by (apply Z.mod_pos_bound; lia)).

Lemma spec_hash_3 v : 0 <= v < 2 ^ 12 ->
  spec_hash_value (fmt_hex 3 v) = Some (expandHex v * 256 + 255).
Proof.
  intros H. rewrite fmt_hex_3. unfold spec_hash_value. cbn [map]. hexvals. cbn [all_some].
  rewrite expandHex_digits by lia. unfold rgba. f_equal. lia.
Qed.

Lemma spec_hash_4 v : 0 <= v < 2 ^ 16 ->
  spec_hash_value (fmt_hex 4 v) = Some (expandHex v).
Proof.
  intros H. rewrite fmt_hex_4. unfold spec_hash_value. cbn [map]. hexvals. cbn [all_some].
  rewrite expandHex_digits by lia. unfold rgba. f_equal. lia.
Qed.

Lemma spec_hash_6 v : 0 <= v < 2 ^ 24 ->
  spec_hash_value (fmt_hex 6 v) = Some (v * 256 + 255).
Proof.
  intros H. rewrite fmt_hex_6. unfold spec_hash_value. cbn [map]. hexvals. cbn [all_some].
  unfold rgba. f_equal. lia.
Qed.

Lemma spec_hash_8 v : 0 <= v < 2 ^ 32 ->
  spec_hash_value (fmt_hex 8 v) = Some v.
Proof.
  intros H. rewrite fmt_hex_8. unfold spec_hash_value. cbn [map]. hexvals. cbn [all_some].
  unfold rgba. f_equal. lia.
Qed.

Section GenerateValue.
  Variable short_names : list (Z * list Z).
  Variable named : list (list Z * Z).
  Hypothesis names_consistent :
    forall h n, assoc_z h short_names = Some n -> assoc_l n named = Some h.

  (* whatever form tryToGenerateColor chooses denotes the same RGBA value *)
  Theorem generate_color_value_all : forall minify unsupported hex,
    0 <= hex < 2 ^ 32 ->
    spec_color_value named (generate_color short_names minify unsupported hex) = Some hex.
  Proof.
    intros minify unsupported hex H. unfold generate_color, hexA.
    destruct (hex mod 256 =? 255) eqn:EA.
    - assert (Hh : 0 <= hex / 256 < 2 ^ 24) by lia.
      assert (Hx : hex = hex / 256 * 256 + 255) by lia.
      destruct (if minify then assoc_z hex short_names else None) as [name|] eqn:EN.
      + destruct minify; [|discriminate]. cbn [spec_color_value]. apply names_consistent. exact EN.
      + destruct (minify && (hex / 256 =? expandHex (compactHex (hex / 256)))) eqn:EC.
        * apply andb_true_iff in EC as [_ EC]. rewrite Z.eqb_eq in EC.
          cbn [spec_color_value].
          pose proof (compactHex_bound (hex / 256) ltac:(lia)) as CB.
          assert (C12 : compactHex (hex / 256) < 2 ^ 12).
          { destruct (Z_lt_ge_dec (compactHex (hex / 256)) (2 ^ 12)) as [L|G]; [exact L|exfalso].
            rewrite expandHex_digits in EC by lia. unfold rgba in EC. lia. }
          rewrite spec_hash_3 by lia. rewrite <- EC. f_equal. lia.
        * cbn [spec_color_value]. rewrite spec_hash_6 by lia. f_equal. lia.
    - destruct unsupported; cbn [negb].
      + cbn [spec_color_value]. unfold rgba, hexR, hexG, hexB. f_equal. lia.
      + destruct (minify && (hex =? expandHex (compactHex hex))) eqn:EC.
        * apply andb_true_iff in EC as [_ EC]. rewrite Z.eqb_eq in EC.
          cbn [spec_color_value].
          pose proof (compactHex_bound hex ltac:(lia)) as CB.
          rewrite spec_hash_4 by lia. f_equal. lia.
        * cbn [spec_color_value]. apply spec_hash_8. exact H.
  Qed.
End GenerateValue.
