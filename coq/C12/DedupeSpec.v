(* What the duplicate removal over a declaration list is, exactly. *)
From V Require Import Common.Base C12.Cascade C12.Mangle C12.MangleProofs.

Section KeepLast.
  Context {R : Type} (eqb : R -> R -> bool).
  Hypothesis eqb_eq : forall a b, eqb a b = true -> a = b.
  Hypothesis eqb_refl : forall a, eqb a a = true.

  (* keep an element iff no equal element follows *)
  Fixpoint keep_last (l : list R) : list R :=
    match l with
    | [] => []
    | x :: t => if existsb (eqb x) t then keep_last t else x :: keep_last t
    end.

  Lemma existsb_keep_last r : forall t, existsb (eqb r) (keep_last t) = existsb (eqb r) t.
  Proof.
    induction t as [|x t IH]; [reflexivity|]. cbn [keep_last existsb].
    destruct (existsb (eqb x) t) eqn:Ex.
    - rewrite IH. destruct (eqb r x) eqn:Er; [|reflexivity].
      apply eqb_eq in Er. subst. rewrite Ex. reflexivity.
    - cbn [existsb]. rewrite IH. reflexivity.
  Qed.

  Lemma rd_keep_last : forall l, rd eqb (fun _ => false) (fun _ => true) l [] = (keep_last l, keep_last l).
  Proof.
    induction l as [|x t IH]; [reflexivity|]. cbn [rd keep_last]. rewrite IH.
    rewrite existsb_keep_last. destruct (existsb (eqb x) t); reflexivity.
  Qed.

  Lemma keep_last_in : forall l1 d l2, existsb (eqb d) l2 = false -> In d (keep_last (l1 ++ d :: l2)).
  Proof.
    induction l1 as [|x l1 IH]; intros d l2 H; cbn [app keep_last].
    - rewrite H. left. reflexivity.
    - destruct (existsb (eqb x) (l1 ++ d :: l2)); [apply IH; exact H | right; apply IH; exact H].
  Qed.
End KeepLast.

Lemma decl_eqb_refl d : decl_eqb d d = true.
Proof. destruct d. unfold decl_eqb. cbn. rewrite !Z.eqb_refl, eqb_reflx. reflexivity. Qed.

Theorem dedupe_is_keep_last_all : forall ds, remove_dead_decls ds = keep_last decl_eqb ds.
Proof. intros ds. unfold remove_dead_decls. rewrite (rd_keep_last decl_eqb decl_eqb_eq). reflexivity. Qed.

Theorem dedupe_keeps_last_occurrence : forall ds1 d ds2,
  existsb (decl_eqb d) ds2 = false -> In d (remove_dead_decls (ds1 ++ d :: ds2)).
Proof.
  intros ds1 d ds2 H. rewrite dedupe_is_keep_last_all. apply keep_last_in. exact H.
Qed.
