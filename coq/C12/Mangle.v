(* C12 model, part 3: internal/css_parser/css_parser.go
     mangleRules (empty-rule removal, @layer collapsing, nested duplicate
     @media unwrapping, adjacent rule merging guarded by isSafeSelectors),
     DeadRuleRemover.RemoveDeadRulesInPlace (keep the last of structurally equal
     rules, drop rules whose selectors are all dead), and
   internal/css_ast/css_ast.go  R.Equal for the rule kinds below (RAtLayer.Equal
     and RAtImport.Equal always return false in the Go code; the model mirrors
     that).
   Executable definitions only.

   Style rules of the model carry declarations only (no nested rules), which is
   exactly the class of rules the merge applies to after fix 5a4c9dc (the
   containsNestedRules conjunct of the merge condition): for model rules that
   conjunct is always true, so the merge condition of [mr] is the complete one.

   Rule trees: a selector is its identity plus the two syntactic facts esbuild
   computes about it (isSafeSelectors, containsDeadSelectors).  A declaration is
   Cascade.decl (property, value identity, !important, syntax feature). *)
From V Require Import Common.Base C12.Cascade.

Record msel := mkSel { s_id : Z; s_safe : bool; s_dead : bool }.

Inductive rule :=
| RSel (sels : list msel) (decls : list decl)
| RMedia (q : Z) (body : list rule)                 (* @media <q> { body }; condition id q *)
| RCond (tok : Z) (pre : Z) (body : list rule)      (* RKnownAt with a condition: @supports/@container <pre> { body } *)
| RLayer (names : list (list Z)) (aid : Z) (body : list rule)
     (* @layer n1, n2;   /   @layer n { body }   /   @layer { body } (names = [], aid = unique id) *)
| ROpaque (kind : Z) (id : Z)      (* @keyframes, @font-face, ...: no effect on the element cascade *)
| RImport (id : Z)
| RComment (id : Z).

Section ListEq.
  Context {A : Type} (eqb : A -> A -> bool).
  Fixpoint leqb (a b : list A) : bool :=
    match a, b with
    | [], [] => true
    | x :: a', y :: b' => eqb x y && leqb a' b'
    | _, _ => false
    end.
End ListEq.

Definition sel_eqb (a b : msel) : bool :=
  (s_id a =? s_id b) && Bool.eqb (s_safe a) (s_safe b) && Bool.eqb (s_dead a) (s_dead b).
Definition decl_eqb (a b : decl) : bool :=
  (d_prop a =? d_prop b) && (d_val a =? d_val b) && Bool.eqb (d_imp a) (d_imp b) && (d_syn a =? d_syn b).

(* R.Equal *)
Fixpoint rule_eqb (a b : rule) : bool :=
  match a, b with
  | RSel s1 d1, RSel s2 d2 => leqb sel_eqb s1 s2 && leqb decl_eqb d1 d2
  | RMedia q1 b1, RMedia q2 b2 => (q1 =? q2) && leqb rule_eqb b1 b2
  | RCond t1 p1 b1, RCond t2 p2 b2 => (t1 =? t2) && (p1 =? p2) && leqb rule_eqb b1 b2
  | RLayer _ _ _, _ => false          (* RAtLayer.Equal never returns true *)
  | ROpaque k1 i1, ROpaque k2 i2 => (k1 =? k2) && (i1 =? i2)
  | RImport _, _ => false             (* RAtImport.Equal returns false *)
  | RComment i1, RComment i2 => i1 =? i2
  | _, _ => false
  end.

(* R.Hash() ok?  (RAtImport is the only kind without a hash) *)
Definition hashable (r : rule) : bool := match r with RImport _ => false | _ => true end.

(* allSelectorsAreDead, only for *RSelector.  An empty selector list counts as
   all-dead in the Go loop (it cannot be parsed, so it does not occur). *)
Definition all_dead (r : rule) : bool :=
  match r with RSel sels _ => forallb s_dead sels | _ => false end.

(* RemoveDeadRulesInPlace: one call on [rs] with the entries accumulated by
   earlier calls in [seen]; scans from the back.  Returns (kept, entries). *)
Section RemoveDead.
  Context {R : Type} (eqb : R -> R -> bool) (dead hashb : R -> bool).
  Fixpoint rd (rs : list R) (seen0 : list R) : list R * list R :=
    match rs with
    | [] => ([], seen0)
    | r :: t =>
      let '(kept, seen) := rd t seen0 in
      if dead r then (kept, seen)
      else if hashb r then
        if existsb (eqb r) seen then (kept, seen) else (r :: kept, r :: seen)
      else (r :: kept, seen)
    end.
End RemoveDead.

Definition remove_dead (rs : list rule) : list rule := fst (rd rule_eqb all_dead hashable rs []).
(* the same pass over a declaration list (RDeclaration.Equal / Hash) *)
Definition remove_dead_decls (ds : list decl) : list decl :=
  fst (rd decl_eqb (fun _ => false) (fun _ => true) ds []).

(* ---- mangleRules ---- *)

Definition merge_sels (prev new : list msel) : list msel :=
  fold_left (fun acc s => if existsb (sel_eqb s) acc then acc else acc ++ [s]) new prev.

Fixpoint set_nth {A} (n : nat) (x : A) (l : list A) : list A :=
  match n, l with
  | O, _ :: t => x :: t
  | S k, y :: t => y :: set_nth k x t
  | _, [] => []
  end.

Definition is_nil {A} (l : list A) : bool := match l with [] => true | _ => false end.

(* mr encl rules out prev: the main loop.  [prev] is the position in [out] of
   prevNonComment when that is a selector rule (None when it is nil or another
   kind of rule: the type assertion to *RSelector then fails).
   (After fix b701ddd the RMedia unwrap branch moves prev to the last unwrapped rule.) *)
Fixpoint mr (encl : list Z) (rules : list rule) (out : list rule) (prev : option nat) : list rule :=
  match rules with
  | [] => out
  | r :: rest =>
    match r with
    | RLayer names aid body =>
      let r' := match names, body with
                | [n1], [RLayer [n2] _ body2] => RLayer [n1 ++ n2] aid body2
                | _, _ => r
                end in
      mr encl rest (out ++ [r']) None
    | RCond tok pre body =>
      if is_nil body then mr encl rest out prev   (* atKnownRuleCanBeRemovedIfEmpty: supports, container *)
      else mr encl rest (out ++ [r]) None
    | RMedia q body =>
      if is_nil body then mr encl rest out prev
      else if existsb (Z.eqb q) encl then
        (* unwrap; prevNonComment becomes the last unwrapped rule unless that is a comment *)
        mr encl rest (out ++ body)
           (match last body (RComment 0) with
            | RSel _ _ => Some (length out + length body - 1)%nat
            | _ => None
            end)
      else mr encl rest (out ++ [r]) None
    | RSel sels decls =>
      if is_nil decls then mr encl rest out prev
      else
        let merged :=
          match prev with
          | Some i =>
            match nth_error out i with
            | Some (RSel psels pdecls) =>
              if leqb decl_eqb decls pdecls && forallb s_safe sels && forallb s_safe psels
              then Some (set_nth i (RSel (merge_sels psels sels) pdecls) out)
              else None
            | _ => None
            end
          | None => None
          end in
        match merged with
        | Some out' => mr encl rest out' prev
        | None => mr encl rest (out ++ [r]) (Some (length out))
        end
    | RComment _ => mr encl rest (out ++ [r]) prev
    | ROpaque _ _ | RImport _ => mr encl rest (out ++ [r]) None
    end
  end.

Definition mangle_rules (encl : list Z) (rules : list rule) (top : bool) : list rule :=
  let m := mr encl rules [] None in
  if top then m else remove_dead m.

(* the whole tree as the parser does it: children first (each nested list is
   mangled when its at-rule is parsed, with the @media rules enclosing it) *)
Fixpoint mangle_tree (encl : list Z) (r : rule) : rule :=
  match r with
  | RSel sels decls => RSel (merge_sels [] sels) (remove_dead_decls decls)   (* the selector parser omits duplicate selectors when minifying *)
  | RMedia q body => RMedia q (mangle_rules (encl ++ [q]) (map (mangle_tree (encl ++ [q])) body) false)
  | RCond tok pre body => RCond tok pre (mangle_rules encl (map (mangle_tree encl) body) false)
  | RLayer names aid body => RLayer names aid (mangle_rules encl (map (mangle_tree encl) body) false)
  | _ => r
  end.

(* a style sheet through the parser (top level is not deduplicated there) and
   then the linker's cross-file pass (one remover over all top-level lists) *)
Definition mangle_sheet (rules : list rule) : list rule :=
  remove_dead (mangle_rules [] (map (mangle_tree []) rules) true).

(* ---- flattening a rule tree into the cascade's item list ---- *)

Definition stmt_item (conds layer : list Z) : item := mkItem true conds layer [] [].

Fixpoint flatten (conds layer : list Z) (r : rule) : list item :=
  match r with
  | RSel sels decls => [mkItem false conds layer (map s_id sels) decls]
  | RMedia q body => flat_map (flatten (conds ++ [q]) layer) body
  | RCond _ pre body => flat_map (flatten (conds ++ [pre]) layer) body
  | RLayer names aid body =>
    match names with
    | [] => stmt_item conds (layer ++ [aid]) :: flat_map (flatten conds (layer ++ [aid])) body
    | [n] => stmt_item conds (layer ++ n) :: flat_map (flatten conds (layer ++ n)) body
    | _ => map (fun n => stmt_item conds (layer ++ n)) names ++ flat_map (flatten conds layer) body
    end
  | _ => []
  end.

Definition flatten_list (conds layer : list Z) (rs : list rule) : list item :=
  flat_map (flatten conds layer) rs.
