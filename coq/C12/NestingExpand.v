(* The cross-product branch of nesting lowering preserves matching when no "&"
   of the nested selector sits inside a pseudo-class argument, in element
   structures whose combinator relations distribute over unions of sets. *)
From V Require Import Common.Base C12.Nesting C12.NestingProofs C12.NestingFree.
Require Import Btauto.

Definition memo (o : option (list bool)) (x : nat) : bool := match o with Some S0 => mem S0 x | None => false end.

Fixpoint top_only (cx : complex) : bool :=
  match cx with XNil => true | XCons (Cp _ _ _ s) r => negb (has_amp_s s) && top_only r end.
Fixpoint count_top (cx : complex) : nat :=
  match cx with XNil => O | XCons (Cp _ a _ _) r => ((if a then 1 else 0) + count_top r)%nat end.
Definition pok (p : complex) : Prop := p <> XNil /\ first_comb p = 0 /\ has_amp_x p = false.

Lemma existsb_flat_map {X Y} (g : Y -> bool) (F : X -> list Y) l :
  existsb g (flat_map F l) = existsb (fun i => existsb g (F i)) l.
Proof. induction l as [|a l IH]; cbn; [reflexivity|]. rewrite existsb_app, IH. reflexivity. Qed.
Lemma existsb_map {X Y} (g : Y -> bool) (h : X -> Y) l : existsb g (map h l) = existsb (fun i => g (h i)) l.
Proof. induction l as [|a l IH]; cbn; [reflexivity | rewrite IH; reflexivity]. Qed.
Lemma existsb_ext_in {X} (f g : X -> bool) l : (forall i, In i l -> f i = g i) -> existsb f l = existsb g l.
Proof. induction l as [|a l IH]; intros H; cbn; [reflexivity|]. rewrite (H a) by (left; reflexivity). rewrite IH; [reflexivity|]. intros; apply H; right; assumption. Qed.
Lemma existsb_and {X} b (f : X -> bool) l : b && existsb f l = existsb (fun i => b && f i) l.
Proof. induction l as [|a l IH]; cbn; [btauto|]. rewrite <- IH. btauto. Qed.
Lemma existsb_and_r {X} b (f : X -> bool) l : existsb f l && b = existsb (fun i => f i && b) l.
Proof. induction l as [|a l IH]; cbn; [reflexivity|]. rewrite <- IH. btauto. Qed.

Section Expand.
  Variable D : dom.
  Notation n := (size D).
  Hypothesis rel_union : forall k (f : nat -> nat -> bool) (l : list nat) z,
    d_rel D k (tab n (fun y => existsb (fun i => f i y) l)) z = existsb (fun i => d_rel D k (tab n (f i)) z) l.
  Variable ps : list complex.
  Hypothesis Hps : Forall pok ps.
  Hypothesis Hne : ps <> [].
  Notation np := (length ps).

  Definition Aset (i : nat) : list bool := tab n (matches D [] (nth i ps XNil)).
  Definition Aall : list bool := tab n (fun x => existsb (fun i => mem (Aset i) x) (seq 0 np)).

  Lemma nth_pok i : (i < np)%nat -> pok (nth i ps XNil).
  Proof. intros H. rewrite Forall_forall in Hps. apply Hps. apply nth_In. exact H. Qed.

  Lemma Aset_fix i : (i < np)%nat -> ev D (Aset i) (nth i ps XNil) None = Some (Aset i).
  Proof.
    intros Hi. destruct (nth_pok i Hi) as [Hn [_ Ha]].
    destruct (amp_free_indep D (Aset i) []) as [_ [_ [HI _]]]. rewrite (HI _ Ha).
    destruct (ev_is_tab D [] (nth i ps XNil) None Hn) as [f Hf]. rewrite Hf. f_equal.
    unfold Aset, matches. rewrite Hf. apply tab_ext. intros x Hx. rewrite mem_tab by exact Hx. reflexivity.
  Qed.

  (* the k-th "&" stands for the parent the vector picks *)
  Fixpoint evv (v : list nat) (cx : complex) (L : option (list bool)) : option (list bool) :=
    match cx with
    | XNil => L
    | XCons (Cp k a t s) r =>
      if a then
        match v with
        | i :: v' => evv v' r (Some (tab n (fun x => mem (Aset i) x && tyok D t x && ok_s D [] s x && relpart D L k x)))
        | [] => evv [] r (Some (tab n (fun x => mem (Aset O) x && tyok D t x && ok_s D [] s x && relpart D L k x)))
        end
      else evv v r (Some (tab n (fun x => tyok D t x && ok_s D [] s x && relpart D L k x)))
    end.

  Lemma np_pos : (0 < np)%nat.
  Proof. destruct ps; [contradiction | cbn; lia]. Qed.

  Lemma one_amp i k t s results : (i < np)%nat -> has_amp_s s = false -> has_amp_x results = false ->
    has_amp_x (subst_amp (nth i ps XNil) false k t s results) = false /\
    ev D [] (subst_amp (nth i ps XNil) false k t s results) None =
    Some (tab n (fun x => mem (Aset i) x && tyok D t x && ok_s D [] s x && relpart D (ev D [] results None) k x)).
  Proof.
    intros Hi Hs Hres. destruct (nth_pok i Hi) as [Hn [Hf Ha]].
    assert (Hfree : has_amp_x (subst_amp (nth i ps XNil) false k t s results) = false) by (apply subst_amp_free; assumption).
    split; [exact Hfree|].
    destruct (amp_free_indep D [] (Aset i)) as [_ [HIs [HIx _]]].
    rewrite (HIx _ Hfree).
    rewrite (subst_amp_ok D (Aset i) (nth i ps XNil) Hf (Aset_fix i Hi) Ha false k t s s results (fun _ => eq_refl)).
    rewrite ev_one. rewrite <- (HIx _ Hres). f_equal. apply tab_ext. intros x Hx.
    rewrite ok_c_eq. cbn [c_comb]. rewrite <- (HIs _ Hs). reflexivity.
  Qed.

  Lemma expand_sem : forall cx v results, top_only cx = true -> has_amp_x results = false ->
    Forall (fun i => (i < np)%nat) v ->
    has_amp_x (expand_x ps v cx results) = false /\
    ev D [] (expand_x ps v cx results) None = evv v cx (ev D [] results None).
  Proof.
    induction cx as [|c r IH]; intros v results Ht Hres Hv; [split; [exact Hres | reflexivity]|].
    destruct c as [k a t s]. cbn [top_only] in Ht. apply andb_true_iff in Ht as [Hs Ht].
    apply negb_true_iff in Hs. cbn [expand_x evv]. destruct a.
    - destruct v as [|i v'].
      + destruct (one_amp O k t s results np_pos Hs Hres) as [F E].
        destruct (IH [] _ Ht F Hv) as [F2 E2]. split; [exact F2|]. rewrite E2, E; try reflexivity.
      + inversion Hv as [|? ? Hi Hv']; subst.
        destruct (one_amp i k t s results Hi Hs Hres) as [F E].
        destruct (IH v' _ Ht F Hv') as [F2 E2]. split; [exact F2|]. rewrite E2, E; try reflexivity.
    - assert (F : has_amp_x (xsnoc results (Cp k false t s)) = false) by (rewrite has_amp_snoc', Hres, ha_c, Hs; reflexivity).
      destruct (IH v _ Ht F Hv) as [F2 E2]. split; [exact F2|]. rewrite E2, ev_snoc, ev_one.
      match goal with |- evv _ _ (Some ?a) = evv _ _ (Some ?b) => replace a with b; [reflexivity|] end.
      apply tab_ext. intros x Hx. rewrite ok_c_eq. cbn [c_comb]. btauto.
  Qed.

  (* ev is a union homomorphism in the set to the left *)
  Lemma ev_linear A : forall r (f : nat -> nat -> bool) l x, (x < n)%nat ->
    memo (ev D A r (Some (tab n (fun y => existsb (fun i => f i y) l)))) x =
    existsb (fun i => memo (ev D A r (Some (tab n (f i)))) x) l.
  Proof.
    induction r as [|c r IH]; intros f l x Hx.
    - cbn [ev memo]. rewrite mem_tab by exact Hx. apply existsb_ext_in. intros i _. rewrite mem_tab by exact Hx. reflexivity.
    - change (ev D A (XCons c r) (Some (tab n (fun y => existsb (fun i => f i y) l))))
        with (ev D A r (Some (tab n (fun z => ok_c D A c z && relpart D (Some (tab n (fun y => existsb (fun i => f i y) l))) (c_comb c) z)))).
      assert (E : tab n (fun z => ok_c D A c z && relpart D (Some (tab n (fun y => existsb (fun i => f i y) l))) (c_comb c) z) =
                  tab n (fun z => existsb (fun i => ok_c D A c z && d_rel D (c_comb c) (tab n (f i)) z) l)).
      { apply tab_ext. intros z _. cbn [relpart]. rewrite rel_union. apply existsb_and. }
      rewrite E. rewrite (IH (fun i z => ok_c D A c z && d_rel D (c_comb c) (tab n (f i)) z) l x Hx).
      apply existsb_ext_in. intros i _. reflexivity.
  Qed.

  Lemma vectors_lt : forall d v, In v (vectors np d) -> Forall (fun i => (i < np)%nat) v.
  Proof.
    induction d as [|d IH]; intros v H; cbn in H.
    - destruct H as [<-|[]]. constructor.
    - apply in_flat_map in H as [i [Hi H]]. apply in_map_iff in H as [v' [<- Hv']]. apply in_seq in Hi.
      constructor; [lia | apply IH; exact Hv'].
  Qed.

  Lemma union_sem : forall cx L x, top_only cx = true -> (x < n)%nat ->
    memo (ev D Aall cx L) x = existsb (fun v => memo (evv v cx L) x) (vectors np (count_top cx)).
  Proof.
    induction cx as [|c r IH]; intros L x Ht Hx.
    - cbn. rewrite orb_false_r. reflexivity.
    - destruct c as [k a t s]. cbn [top_only] in Ht. apply andb_true_iff in Ht as [Hs Ht]. apply negb_true_iff in Hs.
      destruct (amp_free_indep D Aall []) as [_ [HIs _]].
      change (ev D Aall (XCons (Cp k a t s) r) L)
        with (ev D Aall r (Some (tab n (fun z => ok_c D Aall (Cp k a t s) z && relpart D L k z)))).
      cbn [count_top]. destruct a.
      + cbn [Nat.add vectors]. rewrite existsb_flat_map.
        assert (E : tab n (fun z => ok_c D Aall (Cp k true t s) z && relpart D L k z) =
                    tab n (fun z => existsb (fun i => mem (Aset i) z && tyok D t z && ok_s D [] s z && relpart D L k z) (seq 0 np))).
        { apply tab_ext. intros z Hz. rewrite ok_c_eq, (HIs _ Hs). unfold Aall. rewrite mem_tab by exact Hz.
          rewrite !existsb_and_r. reflexivity. }
        rewrite E, (ev_linear Aall r _ (seq 0 np) x Hx).
        apply existsb_ext_in. intros i Hi. rewrite existsb_map. rewrite (IH _ x Ht Hx).
        apply existsb_ext_in. intros v' _. reflexivity.
      + cbn [Nat.add]. rewrite (IH _ x Ht Hx). apply existsb_ext_in. intros v _. cbn [evv].
        match goal with |- memo (evv _ _ (Some ?a)) _ = memo (evv _ _ (Some ?b)) _ => replace a with b; [reflexivity|] end.
        apply tab_ext. intros z _. rewrite ok_c_eq, (HIs _ Hs). btauto.
  Qed.
End Expand.

Lemma count_zero :
  (forall c, has_amp_c c = false -> count_amp_c c = O) /\
  (forall s, has_amp_s s = false -> count_amp_s s = O) /\
  (forall cx, has_amp_x cx = false -> count_amp_x cx = O) /\
  (forall l, has_amp_l l = false -> count_amp_l l = O).
Proof.
  apply sel_mutind.
  - intros k a t s IH H. rewrite ha_c in H. apply orb_false_iff in H as [-> Hs].
    change (count_amp_c (Cp k false t s)) with (0 + count_amp_s s)%nat. rewrite (IH Hs). reflexivity.
  - reflexivity.
  - intros i r IH H. rewrite ha_s_class in H. change (count_amp_s (SClass i r)) with (count_amp_s r). exact (IH H).
  - intros ng l IHl r IHr H. rewrite ha_s_pc in H. apply orb_false_iff in H as [Hl Hr].
    change (count_amp_s (SPc ng l r)) with (count_amp_l l + count_amp_s r)%nat. rewrite (IHl Hl), (IHr Hr). reflexivity.
  - reflexivity.
  - intros c IHc r IHr H. rewrite ha_x_cons in H. apply orb_false_iff in H as [Hc Hr].
    change (count_amp_x (XCons c r)) with (count_amp_c c + count_amp_x r)%nat. rewrite (IHc Hc), (IHr Hr). reflexivity.
  - reflexivity.
  - intros cx IHx r IHr H. rewrite ha_l_cons in H. apply orb_false_iff in H as [Hx Hr].
    change (count_amp_l (LCons cx r)) with (count_amp_x cx + count_amp_l r)%nat. rewrite (IHx Hx), (IHr Hr). reflexivity.
Qed.

Lemma count_top_eq : forall cx, top_only cx = true -> count_amp_x cx = count_top cx.
Proof.
  induction cx as [|c r IH]; intros H; [reflexivity|]. destruct c as [k a t s]. cbn [top_only] in H.
  apply andb_true_iff in H as [Hs Ht]. apply negb_true_iff in Hs.
  change (count_amp_x (XCons (Cp k a t s) r)) with (((if a then 1 else 0) + count_amp_s s) + count_amp_x r)%nat.
  destruct count_zero as [_ [Z _]]. rewrite (Z _ Hs), (IH Ht). cbn [count_top]. lia.
Qed.

Lemma freeze_id p0 : forall cx, top_only cx = true -> freeze_x p0 cx = cx.
Proof.
  induction cx as [|c r IH]; intros H; [reflexivity|]. destruct c as [k a t s]. cbn [top_only] in H.
  apply andb_true_iff in H as [Hs Ht]. apply negb_true_iff in Hs. cbn [freeze_x].
  destruct (subst_id p0) as [_ [I _]]. rewrite (I _ Hs), (IH Ht). reflexivity.
Qed.

Lemma parents_pok : forall l, parents_ok l = true -> Forall pok (l2l l).
Proof.
  induction l as [|p r IH]; intros H; cbn [l2l]; [constructor|]. cbn [parents_ok] in H.
  repeat (apply andb_true_iff in H as [H ?]). constructor; [|apply IH; assumption].
  split; [destruct p; [discriminate | discriminate]|]. split; [apply Z.eqb_eq; assumption|].
  destruct (has_amp_x p); [discriminate | reflexivity].
Qed.

Lemma ok_l_nth D : forall l x, ok_l D [] l x = existsb (fun i => matches D [] (nth i (l2l l) XNil) x) (seq 0 (length (l2l l))).
Proof.
  induction l as [|p r IH]; intros x; [reflexivity|].
  rewrite ok_l_cons. cbn [l2l length]. rewrite <- cons_seq, <- seq_shift. cbn [existsb nth]. rewrite existsb_map, IH. reflexivity.
Qed.

(* NESTING LOWERING, cross product (no :is(), several parents), the part that holds *)
Theorem lower_expand_matching D
  (rel_union : forall k (f : nat -> nat -> bool) (l : list nat) z,
     d_rel D k (tab (size D) (fun y => existsb (fun i => f i y) l)) z = existsb (fun i => d_rel D k (tab (size D) (f i)) z) l)
  parents cx A' :
  parents_ok parents = true -> parents <> LNil -> top_only (inject_amp cx) = true ->
  forall x, (x < size D)%nat ->
  existsb (fun s => matches D A' s x) (lower_expand parents (LCons cx LNil)) =
  matches D (parent_set D parents) (inject_amp cx) x.
Proof.
  intros Hok Hne Ht x Hx.
  pose proof (parents_pok parents Hok) as Hps.
  assert (Hne' : l2l parents <> []) by (destruct parents; [contradiction | discriminate]).
  unfold lower_expand. cbn [l2l map fold_left]. rewrite Nat.max_0_l.
  rewrite (freeze_id _ _ Ht), (count_top_eq _ Ht).
  rewrite existsb_flat_map. cbn [map existsb].
  assert (EA : parent_set D parents = Aall D (l2l parents)).
  { unfold parent_set, Aall. apply tab_ext. intros z Hz. rewrite ok_l_nth. apply existsb_ext_in. intros i _.
    unfold Aset. rewrite mem_tab by exact Hz. reflexivity. }
  rewrite EA. unfold matches at 2. fold (memo (ev D (Aall D (l2l parents)) (inject_amp cx) None) x).
  rewrite (union_sem D rel_union (l2l parents) _ None x Ht Hx).
  apply existsb_ext_in. intros v Hv. rewrite orb_false_r.
  destruct (expand_sem D (l2l parents) Hps Hne' (inject_amp cx) v XNil Ht eq_refl (vectors_lt (l2l parents) _ v Hv)) as [F E].
  unfold matches. destruct (amp_free_indep D A' []) as [_ [_ [HI _]]]. rewrite (HI _ F), E. reflexivity.
Qed.

(* the concrete forest structures satisfy the union hypothesis *)
Lemma mem_tab_ge n f y : (n <= y)%nat -> mem (tab n f) y = false.
Proof. intros H. unfold mem, tab. apply nth_overflow. rewrite map_length, seq_length. exact H. Qed.
Lemma existsb_false {X} (l : list X) : existsb (fun _ => false) l = false.
Proof. induction l; cbn; auto. Qed.
Lemma existsb_swap {X Y} (g : X -> Y -> bool) (a : list X) (b : list Y) :
  existsb (fun x => existsb (fun y => g x y) b) a = existsb (fun y => existsb (fun x => g x y) a) b.
Proof.
  induction a as [|x a IH]; cbn; [rewrite existsb_false; reflexivity|]. rewrite IH. clear IH.
  induction b as [|y b IHb]; cbn; [reflexivity|]. rewrite <- IHb. btauto.
Qed.
Lemma mem_tab_union n (f : nat -> nat -> bool) l y :
  mem (tab n (fun y => existsb (fun i => f i y) l)) y = existsb (fun i => mem (tab n (f i)) y) l.
Proof.
  destruct (Nat.lt_ge_cases y n) as [H|H].
  - rewrite mem_tab by exact H. apply existsb_ext_in. intros i _. rewrite mem_tab by exact H. reflexivity.
  - rewrite mem_tab_ge by exact H. symmetry. erewrite existsb_ext_in; [apply existsb_false|]. intros i _. apply mem_tab_ge. exact H.
Qed.

Lemma tree_rel_union d : forall k (f : nat -> nat -> bool) (l : list nat) z,
  d_rel (tree_dom d) k (tab (size (tree_dom d)) (fun y => existsb (fun i => f i y) l)) z =
  existsb (fun i => d_rel (tree_dom d) k (tab (size (tree_dom d)) (f i)) z) l.
Proof.
  intros k f l z. cbn [tree_dom d_rel size].
  assert (One : forall next, match chain d next 1 z with y :: _ => mem (tab (length d) (fun y => existsb (fun i => f i y) l)) y | [] => false end =
                 existsb (fun i => match chain d next 1 z with y :: _ => mem (tab (length d) (f i)) y | [] => false end) l).
  { intros next. destruct (chain d next 1 z) as [|y ?]; [symmetry; apply existsb_false | apply mem_tab_union]. }
  assert (All : forall next, existsb (mem (tab (length d) (fun y => existsb (fun i => f i y) l))) (chain d next (length d) z) =
                 existsb (fun i => existsb (mem (tab (length d) (f i))) (chain d next (length d) z)) l).
  { intros next. rewrite existsb_swap. apply existsb_ext_in. intros y _. apply mem_tab_union. }
  destruct (k =? 1); [apply One|]. destruct (k =? 2); [apply One|]. destruct (k =? 3); apply All.
Qed.

Theorem lower_expand_matching_tree d parents cx A' :
  parents_ok parents = true -> parents <> LNil -> top_only (inject_amp cx) = true ->
  forall x, (x < length d)%nat ->
  existsb (fun s => matches (tree_dom d) A' s x) (lower_expand parents (LCons cx LNil)) =
  matches (tree_dom d) (parent_set (tree_dom d) parents) (inject_amp cx) x.
Proof. intros. apply lower_expand_matching; try assumption. apply tree_rel_union. Qed.
