(* Merging two adjacent style rules with equal bodies preserves the winner in
   every environment that understands all their selectors. *)
From V Require Import Common.Base C12.Cascade C12.CascadeProofs C12.Mangle C12.MangleProofs.

Definition omax (a b : option Z) : option Z :=
  match a, b with
  | None, x => x
  | x, None => x
  | Some m, Some n => Some (Z.max m n)
  end.

Lemma omax_assoc a b c : omax (omax a b) c = omax a (omax b c).
Proof. destruct a, b, c; simpl; f_equal; lia. Qed.
Lemma omax_none_r a : omax a None = a.
Proof. destruct a; reflexivity. Qed.

Section BestSpec.
  Variable w : world.
  Variable e : Z.
  Definition g (s : Z) : option Z := if matches w s e then Some (spec w s) else None.

  Lemma best_spec_fold l : forall acc,
    fold_left (fun acc s => if matches w s e then
        match acc with None => Some (spec w s) | Some m => Some (Z.max m (spec w s)) end else acc) l acc
    = omax acc (best_spec w l e).
  Proof.
    unfold best_spec. induction l as [|s l IH]; intros acc; cbn [fold_left].
    - rewrite omax_none_r. reflexivity.
    - rewrite IH. rewrite (IH (if matches w s e then Some (spec w s) else None)).
      rewrite <- omax_assoc. f_equal. destruct (matches w s e), acc; reflexivity.
  Qed.

  Lemma best_spec_cons s l : best_spec w (s :: l) e = omax (g s) (best_spec w l e).
  Proof. unfold best_spec at 1. cbn [fold_left]. rewrite best_spec_fold. reflexivity. Qed.

  Lemma best_spec_app l1 l2 : best_spec w (l1 ++ l2) e = omax (best_spec w l1 e) (best_spec w l2 e).
  Proof.
    induction l1 as [|s l1 IH]; [reflexivity|].
    cbn [app]. rewrite !best_spec_cons, IH, omax_assoc. reflexivity.
  Qed.

  Lemma best_spec_absorb i l : In i l -> omax (best_spec w l e) (g i) = best_spec w l e.
  Proof.
    intros H. apply in_split in H as [l1 [l2 ->]].
    rewrite best_spec_app, best_spec_cons.
    destruct (best_spec w l1 e), (g i), (best_spec w l2 e); simpl; f_equal; lia.
  Qed.

  Definition ids (l : list msel) : list Z := map s_id l.

  Lemma best_spec_merge : forall new prev,
    best_spec w (ids (merge_sels prev new)) e = omax (best_spec w (ids prev) e) (best_spec w (ids new) e).
  Proof.
    unfold merge_sels. induction new as [|s new IH]; intros prev; cbn [fold_left].
    - cbn. rewrite omax_none_r. reflexivity.
    - rewrite IH. cbn [ids map]. rewrite best_spec_cons. fold (ids new).
      destruct (existsb (sel_eqb s) prev) eqn:Ex.
      + apply existsb_exists in Ex as [s' [Hin He]]. apply sel_eqb_eq in He. subst s'.
        rewrite <- omax_assoc. rewrite best_spec_absorb; [reflexivity|].
        apply in_map. exact Hin.
      + unfold ids at 1. rewrite map_app. rewrite best_spec_app. cbn [map].
        rewrite best_spec_cons. unfold best_spec at 2. cbn [fold_left]. rewrite omax_none_r.
        rewrite omax_assoc. reflexivity.
  Qed.
End BestSpec.

Lemma merge_sels_in : forall new prev x, In x (merge_sels prev new) -> In x prev \/ In x new.
Proof.
  unfold merge_sels. induction new as [|s new IH]; intros prev x H; cbn [fold_left] in H.
  - left. exact H.
  - apply IH in H as [H|H].
    + destruct (existsb (sel_eqb s) prev).
      * left. exact H.
      * apply in_app_or in H as [H|[<-|[]]]; [left; exact H | right; left; reflexivity].
    + right. right. exact H.
Qed.

Lemma lex_cmp_snoc : forall K a b, lex_cmp (K ++ [b]) (K ++ [a]) = (b ?= a).
Proof.
  induction K as [|k K IH]; intros a b; cbn [app lex_cmp].
  - destruct (b ?= a); reflexivity.
  - rewrite Z.compare_refl. apply IH.
Qed.

Section MergeStep.
  Variable w : world.
  Variable D : list (list Z).
  Variable layer : list Z.

  Definition mk (sp : Z) (c : bool * Z) : cand := (strength D (fst c) layer sp, snd c).

  Definition selj (a b : option (bool * Z)) : option (bool * Z) :=
    match a, b with
    | None, x => x
    | x, None => x
    | Some x, Some y => if fst x && negb (fst y) then Some x else Some y
    end.

  Lemma strength_imp_cmp sp i1 i2 :
    lex_cmp (strength D i2 layer sp) (strength D i1 layer sp) = Lt <-> (i1 = true /\ i2 = false).
  Proof.
    destruct i1, i2; unfold strength; cbn [lex_cmp]; try (rewrite Z.compare_refl, lex_refl);
      cbn; split; intros H; try discriminate; try (destruct H; discriminate); auto.
  Qed.

  Lemma join_mk sp x y : join (Some (mk sp x)) (Some (mk sp y)) = option_map (mk sp) (selj (Some x) (Some y)).
  Proof.
    destruct x as [ix vx], y as [iy vy].
    rewrite join_some. unfold ltb, mk. cbn [fst snd selj].
    pose proof (strength_imp_cmp sp ix iy) as S.
    destruct (lex_cmp (strength D iy layer sp) (strength D ix layer sp)) eqn:E.
    - destruct ix, iy; cbn [andb negb option_map fst snd]; try reflexivity.
      destruct S as [_ S]. discriminate S; auto.
    - destruct S as [S _]. destruct (S eq_refl) as [-> ->]. reflexivity.
    - destruct ix, iy; cbn [andb negb option_map fst snd]; try reflexivity.
      destruct S as [_ S]. discriminate S; auto.
  Qed.

  Lemma best_mk sp L : forall acc,
    fold_left (fun a c => join a (Some c)) (map (mk sp) L) (option_map (mk sp) acc) =
    option_map (mk sp) (fold_left (fun a c => selj a (Some c)) L acc).
  Proof.
    induction L as [|c L IH]; intros acc; cbn [map fold_left]; [reflexivity|].
    rewrite <- IH. f_equal. destruct acc as [x|]; cbn [option_map]; [apply join_mk | reflexivity].
  Qed.

  Lemma best_mk0 sp L :
    best (map (mk sp) L) = option_map (mk sp) (fold_left (fun a c => selj a (Some c)) L None).
  Proof. exact (best_mk sp L None). Qed.

  Lemma join_two_specs a b c :
    join (Some (mk a c)) (Some (mk b c)) = Some (mk (Z.max a b) c).
  Proof.
    rewrite join_some. unfold ltb, mk. cbn [fst snd]. unfold strength.
    destruct (fst c); cbn [lex_cmp]; rewrite Z.compare_refl, lex_cmp_snoc;
      destruct (b ?= a) eqn:E; rewrite ?Z.compare_eq_iff, ?Z.compare_lt_iff, ?Z.compare_gt_iff in E;
      do 2 f_equal; try lia.
    all: repeat f_equal; lia.
  Qed.

  Lemma best_two_specs a b L :
    join (best (map (mk a) L)) (best (map (mk b) L)) = best (map (mk (Z.max a b)) L).
  Proof.
    rewrite !best_mk0.
    destruct (fold_left (fun a0 c => selj a0 (Some c)) L None) as [c|]; cbn [option_map]; [|reflexivity].
    apply join_two_specs.
  Qed.
End MergeStep.

(* "a { D }  b { D }"  ==>  "a, b { D }"  (selectors already present are not
   added twice), anywhere in a sheet, for every element and property, in every
   world that understands all selectors involved. *)
Theorem adjacent_merge_keeps_winner_all : forall w pre conds layer s1 s2 ds post e p,
  (forall s, In s (s1 ++ s2) -> sel_understood w (s_id s) = true) ->
  winner w (pre ++ [mkItem false conds layer (map s_id (merge_sels s1 s2)) ds] ++ post) e p =
  winner w (pre ++ [mkItem false conds layer (map s_id s1) ds; mkItem false conds layer (map s_id s2) ds] ++ post) e p.
Proof.
  intros w pre conds layer s1 s2 ds post e p HU. unfold winner.
  assert (HD : declared w (pre ++ [mkItem false conds layer (map s_id (merge_sels s1 s2)) ds] ++ post) =
               declared w (pre ++ [mkItem false conds layer (map s_id s1) ds; mkItem false conds layer (map s_id s2) ds] ++ post)).
  { unfold declared. rewrite !filter_app. reflexivity. }
  rewrite HD. set (D := declared w _).
  f_equal. unfold cands. rewrite !flat_map_app, !best_app. f_equal. f_equal.
  cbn [flat_map]. rewrite !app_nil_r. rewrite best_app.
  unfold item_cands, item_active. cbn [i_stmt i_conds i_sels i_decls i_layer negb andb].
  assert (U1 : forallb (sel_understood w) (map s_id s1) = true).
  { apply forallb_forall. intros i Hi. apply in_map_iff in Hi as [s [<- Hs]]. apply HU. apply in_or_app. left; exact Hs. }
  assert (U2 : forallb (sel_understood w) (map s_id s2) = true).
  { apply forallb_forall. intros i Hi. apply in_map_iff in Hi as [s [<- Hs]]. apply HU. apply in_or_app. right; exact Hs. }
  assert (UM : forallb (sel_understood w) (map s_id (merge_sels s1 s2)) = true).
  { apply forallb_forall. intros i Hi. apply in_map_iff in Hi as [s [<- Hs]]. apply HU.
    apply merge_sels_in in Hs. apply in_or_app. exact Hs. }
  rewrite U1, U2, UM. destruct (conds_hold w conds); cbn [andb]; [|reflexivity].
  pose proof (best_spec_merge w e s2 s1) as BM. unfold ids in BM. rewrite BM.
  set (F := fun d : decl => (d_prop d =? p) && val_understood w (d_syn d)).
  set (L := map (fun d => (d_imp d, d_val d)) (filter F ds)).
  assert (HC : forall sp, map (fun d => (strength D (d_imp d) layer sp, d_val d)) (filter F ds) = map (mk D layer sp) L).
  { intros sp. unfold L. rewrite map_map. reflexivity. }
  destruct (best_spec w (map s_id s1) e) as [a|], (best_spec w (map s_id s2) e) as [b|]; cbn [omax];
    rewrite ?HC, ?best_nil, ?join_none_l, ?join_none_r; try reflexivity.
  symmetry. apply best_two_specs.
Qed.
