(* mangleSides (the shorthand) preserves the semantics and the invariant. *)
From V Require Import Common.Base C12.Mangle C12.BoxTracker C12.BoxSpec C12.BoxLemmas C12.BoxTokens C12.BoxSem C12.BoxInv C12.BoxOpCompact C12.BoxOpSide.

Section OpShort.
  Variable aa : bool.

  Definition brel (P : nat -> Prop) (rs rs' : rules) : Prop :=
    length rs' = length rs /\ forall j, nth_error rs' j = nth_error rs j \/ (nth_error rs' j = Some None /\ P j).

  Lemma brel_trans P a b c : brel P a b -> brel P b c -> brel P a c.
  Proof.
    intros [L1 H1] [L2 H2]. split; [congruence|]. intros j.
    destruct (H2 j) as [E|[E Pj]]; [|right; split; assumption].
    rewrite E. apply H1.
  Qed.

  Lemma update_side_brel (P : nat -> Prop) rs tr s new :
    (forall o, tr_sides tr s = Some o ->
       (negb (sd_single new) || sd_single o) && us_safe (sd_us o) && us_safe (sd_us new) = true ->
       (sd_idx o < length rs)%nat -> P (sd_idx o)) ->
    brel P rs (fst (update_side rs tr s new)).
  Proof.
    intros HP. unfold update_side. cbn [fst].
    destruct (tr_sides tr s) as [o|] eqn:Eo; [|split; auto].
    destruct ((negb (sd_single new) || sd_single o) && us_safe (sd_us o) && us_safe (sd_us new)) eqn:Ec; [|split; auto].
    split; [apply set_nth_length|]. intros j. rewrite nth_set_nth.
    destruct (Nat.eqb_spec j (sd_idx o)) as [->|Hne]; cbn [andb]; [|left; reflexivity].
    destruct (sd_idx o <? length rs)%nat eqn:El; [|left; reflexivity].
    right. split; [reflexivity|]. apply (HP o eq_refl Ec). apply Nat.ltb_lt. exact El.
  Qed.

  Lemma mangle_sides_inv cc rs0 tr d :
    trinv aa rs0 tr -> b_key d = KShort ->
    sem_eq aa (rs0 ++ [Some d]) (fst (mangle_sides aa cc (rs0 ++ [Some d]) tr d)) /\
    trinv aa (fst (mangle_sides aa cc (rs0 ++ [Some d]) tr d)) (snd (mangle_sides aa cc (rs0 ++ [Some d]) tr d)).
  Proof.
    intros Hinv Hkey. destruct d as [k l imp]. cbn [b_key] in Hkey. subst k.
    unfold mangle_sides. cbn [b_val b_imp].
    destruct (reset_trinv aa rs0 tr imp Hinv) as [[HC HE] Himp1].
    set (tr1 := reset_if_imp tr imp) in *.
    destruct (expand_quad_tok aa l) as [q|] eqn:Eq; [|cbn [fst snd]; split; [apply sem_eq_refl | apply trinv_none]].
    destruct (expand_quad_tok_spec aa l q Eq) as [Hq Htrk].
    set (d := mkB KShort l imp). set (rs1 := rs0 ++ [Some d]).
    assert (HL1 : length rs1 = S (length rs0)) by (unfold rs1; rewrite app_length; cbn; lia).
    rewrite HL1. replace (S (length rs0) - 1)%nat with (length rs0) by lia.
    set (T := [qnth q 0; qnth q 1; qnth q 2; qnth q 3]).
    change (fold_left (fun us t => if negb aa || is_numeric t then include_unit us t else us) T USafe) with (stat aa T).
    set (us := stat aa T).
    assert (HT : forallb (trk aa) T = true).
    { pose proof Htrk as H. rewrite (forallb_spec_expand _ l q Hq) in H. unfold all4 in H. unfold T. cbn [forallb].
      repeat (apply andb_true_iff in H as [H ?]). repeat (apply andb_true_iff; split); auto. }
    assert (HTq : forall k, (k < 4)%nat -> In (qnth q k) T).
    { intros k Hk. unfold T. destruct k as [|[|[|[|]]]]; try lia; cbn; auto. }
    assert (HokT : forall e, forallb (tok_ok e aa) T = forallb (tok_ok e aa) l).
    { intros e. rewrite (forallb_spec_expand _ l q Hq). unfold T, all4. cbn [forallb]. rewrite andb_true_r, !andb_assoc. reflexivity. }
    set (tk := fun k => if us_safe us then turn (qnth q k) else qnth q k).
    assert (Htk : forall k, (k < 4)%nat -> trk aa (tk k) = true /\ norm (tk k) = norm (qnth q k) /\ forall e, tok_ok e aa (tk k) = tok_ok e aa (qnth q k)).
    { intros k Hk. assert (Hq_trk : trk aa (qnth q k) = true) by (rewrite forallb_forall in HT; apply HT, HTq, Hk).
      unfold tk. destruct (us_safe us) eqn:Es; [|repeat split; auto].
      assert (Eu : stat aa T = USafe) by (fold us; destruct us; try discriminate; reflexivity).
      pose proof (stat_safe_dims aa T USafe Eu) as F. rewrite Forall_forall in F. specialize (F _ (HTq k Hk)).
      split; [apply turn_trk; exact Hq_trk|].
      destruct (is_numeric (qnth q k)) eqn:En.
      - split; [apply (turn_safe (mkBE (fun _ => true) (fun _ => true) (fun _ _ => true)) aa _ (F eq_refl)) | intros e; apply (turn_safe e aa _ (F eq_refl))].
      - destruct (qnth q k); try discriminate En; split; reflexivity. }
    set (new := fun k => mkSide (tk k) us (length rs0) false).
    (* blanked entries: rules of tracked sides, when both statuses are safe *)
    set (P := fun j => us_safe us = true /\ exists k o, (k < 4)%nat /\ tr_sides tr1 k = Some o /\ j = sd_idx o /\ us_safe (sd_us o) = true).
    assert (HP : forall k rs tr', (k < 4)%nat -> tr_sides tr' k = tr_sides tr1 k ->
              brel P rs (fst (update_side rs tr' k (new k)))).
    { intros k rs tr' Hk Hsame. apply update_side_brel. intros o Ho Hc _. rewrite Hsame in Ho.
      apply andb_true_iff in Hc as [Hc Hc3]. apply andb_true_iff in Hc as [_ Hc2]. cbn [new sd_us] in Hc3.
      split; [exact Hc3|]. exists k, o. repeat split; assumption. }
    set (st1 := update_side rs1 tr1 0%nat (new 0%nat)).
    set (st2 := update_side (fst st1) (snd st1) 1%nat (new 1%nat)).
    set (st3 := update_side (fst st2) (snd st2) 2%nat (new 2%nat)).
    set (st4 := update_side (fst st3) (snd st3) 3%nat (new 3%nat)).
    change (update_side (fst (update_side (fst (update_side (fst (update_side (fst (rs1, tr1)) (snd (rs1, tr1)) 0%nat
               (mkSide (if us_safe us then turn (qnth q 0) else qnth q 0) us (length rs0) false)))
               (snd (update_side (fst (rs1, tr1)) (snd (rs1, tr1)) 0%nat (mkSide (if us_safe us then turn (qnth q 0) else qnth q 0) us (length rs0) false))) 1%nat
               (mkSide (if us_safe us then turn (qnth q 1) else qnth q 1) us (length rs0) false)))
               (snd (update_side (fst (update_side (fst (rs1, tr1)) (snd (rs1, tr1)) 0%nat (mkSide (if us_safe us then turn (qnth q 0) else qnth q 0) us (length rs0) false)))
               (snd (update_side (fst (rs1, tr1)) (snd (rs1, tr1)) 0%nat (mkSide (if us_safe us then turn (qnth q 0) else qnth q 0) us (length rs0) false))) 1%nat
               (mkSide (if us_safe us then turn (qnth q 1) else qnth q 1) us (length rs0) false))) 2%nat
               (mkSide (if us_safe us then turn (qnth q 2) else qnth q 2) us (length rs0) false))) _ 3%nat _) with st4.
    assert (Hb : brel P rs1 (fst st4)).
    { eapply brel_trans; [eapply brel_trans; [eapply brel_trans|]|].
      - apply (HP 0%nat rs1 tr1); [lia | reflexivity].
      - apply (HP 1%nat (fst st1) (snd st1)); [lia | reflexivity].
      - apply (HP 2%nat (fst st2) (snd st2)); [lia | reflexivity].
      - apply (HP 3%nat (fst st3) (snd st3)); [lia | reflexivity]. }
    assert (Htr4 : forall s, tr_sides (snd st4) s = if (s <? 4)%nat then Some (new s) else tr_sides tr1 s).
    { intros s. destruct s as [|[|[|[|s]]]]; reflexivity. }
    assert (Himp4 : tr_imp (snd st4) = imp) by exact Himp1.
    destruct Hb as [HL4 Hpt4].
    assert (HPlt : forall j, P j -> (j < length rs0)%nat /\ exists r, nth_error rs0 j = Some (Some r)).
    { intros j [_ [k [o [Hk [Ho [-> _]]]]]]. pose proof (HC k o Ho) as Tk. split; [apply (tracked_lt aa rs0 _ _ _ Tk)|].
      destruct Tk as [r]. exists r; assumption. }
    assert (Hlast4 : nth_error (fst st4) (length rs0) = Some (Some d)).
    { destruct (Hpt4 (length rs0)) as [E|[_ Pj]].
      - rewrite E. unfold rs1. rewrite nth_error_app2 by lia. rewrite Nat.sub_diag. reflexivity.
      - destruct (HPlt _ Pj). lia. }
    assert (Hdvalid : us_safe us = true -> forall e s, (s < 4)%nat -> sets e aa d s = Some (SV (norm (qnth q s)))).
    { intros Es e s Hs. unfold d. rewrite (sets_short e aa l q) by assumption.
      replace (s <? 4)%nat with true by (symmetry; apply Nat.ltb_lt; lia).
      assert (Eu : us = USafe) by (destruct us; try discriminate; reflexivity).
      assert (HM : stat aa T <> UMixed) by (fold us; rewrite Eu; discriminate).
      rewrite <- HokT, (stat_valid e aa T HT HM). fold us. rewrite Eu. reflexivity. }
    assert (HU : sem_eq aa rs1 (fst st4) /\ trinv aa (fst st4) (snd st4)).
    { split.
      - apply blank_preserves; [exact HL4 | rewrite HL1; replace (S (length rs0) - 1)%nat with (length rs0) by lia; rewrite Hlast4; unfold rs1; rewrite nth_error_app2 by lia; rewrite Nat.sub_diag; reflexivity |].
        intros j. destruct (Hpt4 j) as [E|[E Pj]]; [left; exact E|]. right. split; [exact E|].
        destruct Pj as [Es [k [o [Hk [Ho [-> Uo]]]]]]. pose proof (HC k o Ho) as Tk.
        destruct (tracked_rule aa rs0 _ _ _ Tk) as [r [Hr [F1 [F2 [_ [F4 _]]]]]].
        exists r. split; [unfold rs1; rewrite nth_error_app1 by (apply (tracked_lt aa rs0 _ _ _ Tk)); exact Hr|]. split; [exact F2|].
        intros e imp' s He. exists d. split; [rewrite HL1; replace (S (length rs0) - 1)%nat with (length rs0) by lia; unfold rs1; rewrite nth_error_app2 by lia; rewrite Nat.sub_diag; reflexivity|].
        unfold eff in *. rewrite F1, Himp1 in He. cbn [b_imp d]. destruct (Bool.eqb imp imp'); [|contradiction].
        destruct (le_lt_dec 4 s) as [Hs|Hs]; [exfalso; apply He; apply F4; exact Hs|].
        rewrite (Hdvalid Es e s Hs). discriminate.
      - split.
        + intros s sd Hsd. rewrite Htr4 in Hsd. rewrite Himp4.
          destruct (s <? 4)%nat eqn:Es4.
          * apply Nat.ltb_lt in Es4. inversion Hsd; subst sd.
            destruct (Htk s Es4) as [K1 [K2 K3]].
            apply (Tracked aa (fst st4) imp s (new s) d (qnth q s)); cbn [new sd_idx sd_single sd_tok sd_us d b_imp b_val b_key]; try reflexivity; try assumption.
            -- split; [reflexivity|]. exists q. split; [exact Hq | reflexivity].
            -- intros HM e. rewrite <- HokT. apply stat_valid; assumption.
            -- intros j r' Hj Hr. exfalso. assert (nth_error (fst st4) j = None) by (apply nth_error_None; lia). congruence.
          * exfalso. destruct (HC s sd Hsd) as [? ? Hlt]. apply Nat.ltb_ge in Es4. lia.
        + intros s s' sd sd' Hsd Hsd' _ _. rewrite Htr4 in Hsd, Hsd'.
          destruct (s <? 4)%nat eqn:E1; [|exfalso; destruct (HC s sd Hsd) as [? ? Hlt]; apply Nat.ltb_ge in E1; lia].
          destruct (s' <? 4)%nat eqn:E2; [|exfalso; destruct (HC s' sd' Hsd') as [? ? Hlt]; apply Nat.ltb_ge in E2; lia].
          inversion Hsd; inversion Hsd'; reflexivity. }
    destruct HU as [HU1 HU2].
    destruct (compact_inv aa cc _ _ HU2) as [HC1 [HC2 _]].
    split; [|exact HC2]. eapply sem_eq_trans; [exact HU1 | exact HC1].
  Qed.
End OpShort.
