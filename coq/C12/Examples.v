From V Require Import Common.Base C12.Text C12.Hex C12.ColorSpec gen.ColorTablesGen C12.Harness.
(* non-vacuity / sanity: concrete values *)
Example hex_ex : parseHex [97;66;99;49] = Some 43969 /\ expandHex 43969 = 2864434193 /\ compactHex 2864434193 = 43969.
Proof. vm_compute. repeat split; reflexivity. Qed.
Example gen_ex :
  map (fun h => render_ctoken (generate_color shortColorName true false h))
      [4278190335; 2864434397; 287454020; 305419896; 4294967295]
  = [[114;101;100]; [35;97;98;99;100]; [35;49;50;51;52]; [35;49;50;51;52;53;54;55;56]; [35;102;102;102]].
Proof. vm_compute. reflexivity. Qed.
Example gen_rgba_ex :
  render_ctoken (generate_color shortColorName true true 305419896) =
  [114;103;98;97;40;49;56;44;53;50;44;56;54;44;46;52;55;41].
Proof. vm_compute. reflexivity. Qed.
