From V Require Import Common.Base C12.Text C12.Hex C12.ColorSpec gen.ColorTablesGen C12.Harness.
(* non-vacuity / sanity: concrete values *)
Example hex_ex : parseHex [97;66;99;49] = Some 43969 /\ expandHex 43969 = 2864434193 /\ compactHex 2864434193 = 43969.
Proof. vm_compute. repeat split; reflexivity. Qed.
Example gen_ex :
  map (fun h => render_ctoken (generate_color shortColorName true false h))
      [4278190335; 2864434397; 287454020; 305419896; 4294967295]
  = [[114;101;100]; [35;97;98;99;100]; [35;49;50;51;52]; [35;49;50;51;52;53;54;55;56]; [35;102;102;102]].
Proof. vm_compute. reflexivity. Qed.
Example gen_rgba_ex :
  render_ctoken (generate_color shortColorName true true 305419896) =
  [114;103;98;97;40;49;56;44;53;50;44;56;54;44;46;52;55;41].
Proof. vm_compute. reflexivity. Qed.

From V Require Import C12.Cascade C12.Mangle C12.NumberCss C12.NumberSpec C12.NumberProofs.
(* numbers: the three fixed defects' witnesses on the model *)
Example num_ex : map (fun t => fst (mangleNumber t))
   [[48;46;53;48]; [49;46;53;101;49;48]; [45;48;46;48]; [49;46;48]]
   = [[46;53]; [49;46;53;101;49;48]; [45;48]; [49]].
Proof. vm_compute. reflexivity. Qed.
Example shift_ex : shiftDot [48;48;48] (-3) = Some [48] /\ shiftDot [49;53;48;48] (-3) = Some [49;46;53]
  /\ mangleDimension [49;53;48;48] [109;115] = Some ([49;46;53], [115]).
Proof. vm_compute. repeat split; reflexivity. Qed.
Example wf_ex : wf_num [45] [48] (Some [53;48]) NoExp /\ css_number_value (render [45] [48] (Some [53;48]) NoExp) = Some (-50, -2).
Proof. split; [repeat split; try discriminate; repeat constructor; unfold dig; lia | vm_compute; reflexivity]. Qed.

(* cascade: a world and a sheet where dedupe, merge and unwrap all fire *)
Definition ex_world : world :=
  mkWorld (fun c => c =? 1) (fun s => negb (s =? 6)) (fun _ => true)
          (fun s e => (s =? e)) (fun s => s).
Definition sa := mkSel 1 true false.
Definition sb := mkSel 2 true false.
Definition dred := mkDecl 1 1 false 0.
Definition dblue := mkDecl 1 2 false 0.
(* "@media screen { a{color:red} @media screen { b{color:blue} } b{color:red} }" *)
Definition ex_unwrap : list rule :=
  [RMedia 1 [RSel [sa] [dred]; RMedia 1 [RSel [sb] [dblue]]; RSel [sb] [dred]]].
Example unwrap_ex :
  mangle_sheet ex_unwrap = [RMedia 1 [RSel [sa] [dred]; RSel [sb] [dblue]; RSel [sb] [dred]]]
  /\ winner ex_world (flatten_list [] [] (mangle_sheet ex_unwrap)) 2 1 = Some 1
  /\ winner ex_world (flatten_list [] [] ex_unwrap) 2 1 = Some 1.
Proof. vm_compute. repeat split; reflexivity. Qed.
Example merge_dedupe_ex :
  mangle_sheet [RSel [sa] [dred]; RSel [sb] [dred]; RSel [sa] [dblue]; RSel [sa; sb] [dred]]
  = [RSel [sa] [dblue]; RSel [sa; sb] [dred]].
Proof. vm_compute. reflexivity. Qed.
(* layers: the later declared layer wins for normal declarations, the earlier for important ones *)
Example layer_ex :
  let sheet := [mkItem true [] [1] [] []; mkItem true [] [2] [] [];
                mkItem false [] [2] [1] [mkDecl 1 10 false 0; mkDecl 2 20 true 0];
                mkItem false [] [1] [1] [mkDecl 1 11 false 0; mkDecl 2 21 true 0];
                mkItem false [] [] [1] [mkDecl 3 30 false 0]] in
  winner ex_world sheet 1 1 = Some 10 /\ winner ex_world sheet 1 2 = Some 21 /\ winner ex_world sheet 1 3 = Some 30.
Proof. vm_compute. repeat split; reflexivity. Qed.

From V Require Import C12.BoxTracker C12.BoxSpec C12.BoxMain C12.DedupeSpec.
(* box tracker: the witnesses of the two fixed tracker defects and a collapse, on the model *)
Definition px (v : Z) := TDim v 7.
Definition vw (v : Z) := TDim v 20.
Example box_ex_collapse :
  box_process true true false [mkB (KSide 3) [px 1] false; mkB (KSide 0) [px 2] false; mkB (KOther 1) [] false;
                               mkB (KSide 1) [px 3] false; mkB (KSide 2) [px 0] false]
  = [mkB (KOther 1) [] false; mkB KShort [px 2; px 3; TNum 0; px 1] false].
Proof. vm_compute. reflexivity. Qed.
Example box_ex_dabbe91 :   (* a{margin:1px;margin-top:1vw;margin-top:0} *)
  box_process true true false [mkB KShort [px 1] false; mkB (KSide 0) [vw 1] false; mkB (KSide 0) [TNum 0] false]
  = [mkB (KSide 0) [vw 1] false; mkB KShort [TNum 0; px 1; px 1] false].
Proof. vm_compute. reflexivity. Qed.
Example box_ex_dece0db :   (* a{margin:1px;margin-left:2px;margin-top:1vw;margin-left:3px} *)
  box_process true true false [mkB KShort [px 1] false; mkB (KSide 3) [px 2] false; mkB (KSide 0) [vw 1] false; mkB (KSide 3) [px 3] false]
  = [mkB KShort [px 1; px 1; px 1; px 2] false; mkB (KSide 0) [vw 1] false; mkB (KSide 3) [px 3] false].
Proof. vm_compute. reflexivity. Qed.
Example box_ex_lowered :   (* a{inset:1px 2px 3px 4px;top:9px} without the inset property *)
  box_process true false true [mkB KShort [px 1; px 2; px 3; TDim 4 7] false; mkB (KSide 0) [TDim 9 7] false]
  = [mkB (KSide 1) [px 2] false; mkB (KSide 2) [px 3] false; mkB (KSide 3) [TDim 4 7] false; mkB (KSide 0) [TDim 9 7] false].
Proof. vm_compute. reflexivity. Qed.
Example box_ex_wf : wf_keys [mkB KShort [px 1] false; mkB (KSide 3) [px 2] true; mkB (KOther 2) [] false].
Proof. repeat constructor. Qed.
Example box_ex_values :   (* important beats normal; an unknown unit drops the declaration *)
  let l := [mkB KShort [px 1] false; mkB (KSide 0) [vw 1] false; mkB (KSide 3) [px 2] true; mkB (KSide 3) [px 5] false] in
  let e := mkBE (fun _ => false) (fun _ => false) (fun _ _ => false) in
  side_value e true l 0 = Some (SV (px 1)) /\ side_value e true l 3 = Some (SV (px 2))
  /\ side_value (mkBE (fun _ => true) (fun _ => false) (fun _ _ => false)) true l 0 = Some (SV (vw 1)).
Proof. vm_compute. repeat split; reflexivity. Qed.
From V Require Import C12.RadiusTracker C12.RadiusSpec C12.RadiusMain.
(* border-radius tracker on the model; the slash is TOther 0 *)
Definition sl := TOther 0.
Example radius_ex_collapse :   (* four corner longhands with two radii each, one other declaration in between *)
  radius_process [mkB (KSide 0) [px 1; px 2] false; mkB (KSide 1) [px 1; px 2] false; mkB (KOther 1) [] false;
                  mkB (KSide 2) [px 1; px 2] false; mkB (KSide 3) [px 0; px 0] false]
  = [mkB (KOther 1) [] false; mkB KShort [px 1; px 1; px 1; TNum 0; sl; px 2; px 2; px 2; TNum 0] false].
Proof. vm_compute. reflexivity. Qed.
Example radius_ex_second_copy :   (* a{border-radius:1px 2px/3px;border-top-left-radius:0px}: the copied second radius keeps its unit *)
  radius_process [mkB KShort [px 1; px 2; sl; px 3] false; mkB (KSide 0) [px 0] false]
  = [mkB KShort [TNum 0; px 2; px 1; sl; px 0; px 3; px 3] false].
Proof. vm_compute. reflexivity. Qed.
Example radius_ex_dabbe91 :   (* the shorthand goes to the greatest tracked index; two equal radii are merged *)
  radius_process [mkB KShort [px 1] false; mkB (KSide 0) [vw 1] false; mkB (KSide 0) [px 5; px 5] false]
  = [mkB (KSide 0) [vw 1] false; mkB KShort [px 5; px 1; px 1] false].
Proof. vm_compute. reflexivity. Qed.
Example radius_ex_values :   (* both radii; important beats normal; an unknown unit drops the declaration *)
  let l := [mkB KShort [px 1; px 2; sl; px 3] false; mkB (KSide 0) [vw 1] false; mkB (KSide 3) [px 0; px 4] true; mkB (KSide 3) [px 5] false] in
  let e := mkBE (fun _ => false) (fun _ => false) (fun _ _ => false) in
  corner_value e l 0 = Some (RV (px 1) (px 3)) /\ corner_value e l 3 = Some (RV (TNum 0) (px 4))
  /\ corner_value (mkBE (fun _ => true) (fun _ => false) (fun _ _ => false)) l 0 = Some (RV (vw 1) (vw 1))
  /\ corner_value e l 1 = Some (RV (px 2) (px 3)).
Proof. vm_compute. repeat split; reflexivity. Qed.
Example radius_ex_theorem :   (* the theorem instantiated on the second-copy case *)
  let l := [mkB KShort [px 1; px 2; sl; px 3] false; mkB (KSide 0) [px 0] false] in
  forall e c, corner_value e (radius_process l) c = corner_value e l c.
Proof. intros l e c. apply radius_collapse_keeps_corners_all. repeat constructor. Qed.
From V Require Import C12.Nesting C12.NestingProofs C12.NestingFree C12.NestingExpand.
(* nesting lowering on the model: types a=1 b=2 div=3, class c1=1 *)
Definition ty1 (t : Z) := XCons (Cp 0 false (Some t) SNil) XNil.
Example nest_ex_wrap :   (* a b { div & {} } => div :is(a b) *)
  lower_is (LCons (XCons (Cp 0 false (Some 1) SNil) (XCons (Cp 0 false (Some 2) SNil) XNil)) LNil)
           (XCons (Cp 0 false (Some 3) SNil) (XCons (Cp 0 true None SNil) XNil))
  = XCons (Cp 0 false (Some 3) SNil)
      (XCons (Cp 0 false None (SPc false (LCons (XCons (Cp 0 false (Some 1) SNil) (XCons (Cp 0 false (Some 2) SNil) XNil)) LNil) SNil)) XNil).
Proof. vm_compute. reflexivity. Qed.
Example nest_ex_relative :   (* a, b { > .c1 {} } => :is(a, b) > .c1 *)
  lower_is (LCons (ty1 1) (LCons (ty1 2) LNil)) (XCons (Cp 1 false None (SClass 1 SNil)) XNil)
  = XCons (Cp 0 false None (SPc false (LCons (ty1 1) (LCons (ty1 2) LNil)) SNil)) (XCons (Cp 1 false None (SClass 1 SNil)) XNil).
Proof. vm_compute. reflexivity. Qed.
Example nest_ex_two_types :   (* a { div& {} } => a:is(div) *)
  lower_is (LCons (ty1 1) LNil) (XCons (Cp 0 true (Some 3) SNil) XNil)
  = XCons (Cp 0 false (Some 1) (SPc false (LCons (ty1 3) LNil) SNil)) XNil.
Proof. vm_compute. reflexivity. Qed.
(* a three-element tree  div > a.c1 , div > b : which elements `a, b { > .c1 }`-style selectors match *)
Definition nest_doc := [mkN 3 [] None None; mkN 1 [1] (Some 0%nat) None; mkN 2 [] (Some 0%nat) (Some 1%nat)].
Example nest_ex_matches :
  let D := tree_dom nest_doc in
  let parents := LCons (ty1 3) LNil in                      (* div *)
  let child := XCons (Cp 1 false None (SClass 1 SNil)) XNil in    (* > .c1 *)
  map (matches D [] (lower_is parents child)) [0%nat; 1%nat; 2%nat] = [false; true; false]
  /\ map (matches D (parent_set D parents) (inject_amp child)) [0%nat; 1%nat; 2%nat] = [false; true; false]
  /\ parent_set D parents = [true; false; false]
  /\ map (matches D [] (XCons (Cp 0 false (Some 1) SNil) (XCons (Cp 2 false (Some 2) SNil) XNil))) [0%nat; 1%nat; 2%nat] = [false; false; true].
Proof. vm_compute. repeat split; reflexivity. Qed.
Example nest_ex_cross :   (* a, b { & > & {} } without :is() => a > a, a > b, b > a, b > b *)
  lower_expand (LCons (ty1 1) (LCons (ty1 2) LNil)) (LCons (XCons (Cp 0 true None SNil) (XCons (Cp 1 true None SNil) XNil)) LNil)
  = [XCons (Cp 0 false (Some 1) SNil) (XCons (Cp 1 false (Some 1) SNil) XNil);
     XCons (Cp 0 false (Some 1) SNil) (XCons (Cp 1 false (Some 2) SNil) XNil);
     XCons (Cp 0 false (Some 2) SNil) (XCons (Cp 1 false (Some 1) SNil) XNil);
     XCons (Cp 0 false (Some 2) SNil) (XCons (Cp 1 false (Some 2) SNil) XNil)].
Proof. vm_compute. reflexivity. Qed.
Example nest_ex_refuted_witnesses :
  native_spec wL_parents wL_child = (0, 1, 1)%nat /\
  existsb (fun s => matches (tree_dom wN_doc) [] s 1%nat) (lower_expand wN_parents (LCons wN_child LNil)) = false.
Proof. vm_compute. split; reflexivity. Qed.
Example nest_ex_cross_theorem :   (* the cross-product theorem instantiated: a, b { & > & {} } on the three-element tree *)
  forall x, (x < 3)%nat ->
  existsb (fun s => matches (tree_dom nest_doc) [] s x)
          (lower_expand (LCons (ty1 1) (LCons (ty1 2) LNil)) (LCons (XCons (Cp 0 true None SNil) (XCons (Cp 1 true None SNil) XNil)) LNil))
  = matches (tree_dom nest_doc) (parent_set (tree_dom nest_doc) (LCons (ty1 1) (LCons (ty1 2) LNil)))
            (inject_amp (XCons (Cp 0 true None SNil) (XCons (Cp 1 true None SNil) XNil))) x.
Proof. intros x Hx. apply lower_expand_matching_tree; try reflexivity; [discriminate | exact Hx]. Qed.
Example nest_ex_is_amp_free : has_amp_x (lower_is (LCons (ty1 1) (LCons (ty1 2) LNil)) (XCons (Cp 1 true None (SPc true (LCons amp1 LNil) SNil)) XNil)) = false.
Proof. apply lower_is_amp_free. reflexivity. Qed.
From V Require Import C12.HslSpec C12.HslModel.
Example hsl_ex_two_turns :   (* hsl(720 100% 50%) is red, hsl(-1turn 80% 40%) is #b81414, in model and spec *)
  hslrgb_both_ok (0, 0, 720, 1, 100, 50, (255, 0, 0))%Z = true /\ hslrgb_both_ok (0, 2, -1, 1, 80, 40, (184, 20, 20))%Z = true
  /\ hslrgb_both_ok (0, 0, 720, 1, 100, 50, (0, 0, 0))%Z = false.
Proof. vm_compute. repeat split; reflexivity. Qed.
Example hsl_ex_theorem : rgb_eqb (model_hsl (QArith_base.inject_Z 720) (QArith_base.inject_Z 100) (QArith_base.inject_Z 50)) (hsl_spec (QArith_base.inject_Z 720) (QArith_base.inject_Z 100) (QArith_base.inject_Z 50)) = true.
Proof. vm_compute. reflexivity. Qed.
Example dedupe_ex :
  keep_last decl_eqb [mkDecl 1 1 true 0; mkDecl 1 2 false 0; mkDecl 1 1 false 0; mkDecl 1 1 true 0; mkDecl 1 2 false 0]
  = [mkDecl 1 1 false 0; mkDecl 1 1 true 0; mkDecl 1 2 false 0].
Proof. vm_compute. reflexivity. Qed.

(* layer collapsing on the model, and a sheet where the tree theorem's pieces all fire *)
Example collapse_ex :
  mangle_sheet [RLayer [[1]] 0 [RLayer [[2]] 0 [RSel [sa] [dred]]]; RLayer [[3]] 0 []; RLayer [[1;2]] 0 [RSel [sa; sa] [dblue; dblue]]]
  = [RLayer [[1; 2]] 0 [RSel [sa] [dred]]; RLayer [[3]] 0 []; RLayer [[1; 2]] 0 [RSel [sa] [dblue]]].
Proof. vm_compute. reflexivity. Qed.
