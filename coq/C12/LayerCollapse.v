(* "@layer a { @layer b { X } }"  =>  "@layer a.b { X }":  a layer statement that
   is immediately followed by a statement for a path it is a prefix of (same
   conditions) is redundant.  The declared-layer list loses one entry, every
   first-declaration position after it shifts by one, and no comparison of two
   strengths changes. *)
From V Require Import Common.Base C12.Cascade C12.CascadeProofs C12.Mangle.

(* ---- relabelling strengths without changing any comparison ---- *)
Definition tc := (bool * list Z * Z * Z)%type.      (* importance, layer, specificity, value *)
Definition mkc (D : list (list Z)) (t : tc) : cand :=
  let '(imp, layer, sp, v) := t in (strength D imp layer sp, v).

Definition item_tcs (w : world) (e p : Z) (it : item) : list tc :=
  if item_active w it then
    match best_spec w (i_sels it) e with
    | None => []
    | Some sp => map (fun d => (d_imp d, i_layer it, sp, d_val d))
                     (filter (fun d => (d_prop d =? p) && val_understood w (d_syn d)) (i_decls it))
    end
  else [].

Lemma item_cands_tcs w D e p it : item_cands w D e p it = map (mkc D) (item_tcs w e p it).
Proof.
  unfold item_cands, item_tcs. destruct (item_active w it); [|reflexivity].
  destruct (best_spec w (i_sels it) e); [|reflexivity]. rewrite map_map. reflexivity.
Qed.

Lemma cands_tcs w D e p sheet : cands w D e p sheet = map (mkc D) (flat_map (item_tcs w e p) sheet).
Proof.
  unfold cands. induction sheet as [|it sheet IH]; [reflexivity|].
  cbn [flat_map]. rewrite map_app, IH, item_cands_tcs. reflexivity.
Qed.

Section Relabel.
  Variables D D' : list (list Z).
  Variable T : list tc.
  Hypothesis Hcmp : forall a b, In a T -> In b T -> ltb (mkc D' b) (mkc D' a) = ltb (mkc D b) (mkc D a).

  Definition tjoin (Dx : list (list Z)) (a : option tc) (c : tc) : option tc :=
    match a with None => Some c | Some x => if ltb (mkc Dx c) (mkc Dx x) then Some x else Some c end.

  Lemma fold_mkc Dx : forall l acc,
    fold_left (fun a c => join a (Some c)) (map (mkc Dx) l) (option_map (mkc Dx) acc) =
    option_map (mkc Dx) (fold_left (tjoin Dx) l acc).
  Proof.
    induction l as [|c l IH]; intros acc; cbn [map fold_left]; [reflexivity|].
    rewrite <- IH. f_equal. destruct acc as [x|]; cbn [option_map tjoin]; [|reflexivity].
    rewrite join_some. destruct (ltb (mkc Dx c) (mkc Dx x)); reflexivity.
  Qed.

  Lemma best_mkc Dx l : best (map (mkc Dx) l) = option_map (mkc Dx) (fold_left (tjoin Dx) l None).
  Proof. exact (fold_mkc Dx l None). Qed.

  Lemma tfold_same : forall l acc, (forall x, In x l -> In x T) -> (forall x, acc = Some x -> In x T) ->
    fold_left (tjoin D') l acc = fold_left (tjoin D) l acc /\
    (forall x, fold_left (tjoin D) l acc = Some x -> In x T).
  Proof.
    induction l as [|c l IH]; intros acc Hl Hacc; cbn [fold_left]; [split; [reflexivity | exact Hacc]|].
    assert (Hc : In c T) by (apply Hl; left; reflexivity).
    assert (E : tjoin D' acc c = tjoin D acc c).
    { destruct acc as [x|]; cbn [tjoin]; [|reflexivity]. rewrite Hcmp; [reflexivity | apply Hacc; reflexivity | exact Hc]. }
    rewrite E. apply IH; [intros x Hx; apply Hl; right; exact Hx|].
    intros x Hx. destruct acc as [y|]; cbn [tjoin] in Hx.
    - destruct (ltb (mkc D c) (mkc D y)); inversion Hx; subst; [apply Hacc; reflexivity | exact Hc].
    - inversion Hx; subst. exact Hc.
  Qed.

  Lemma best_relabel : option_map snd (best (map (mkc D') T)) = option_map snd (best (map (mkc D) T)).
  Proof.
    rewrite !best_mkc.
    destruct (tfold_same T None (fun x H => H) ltac:(intros; discriminate)) as [E _]. rewrite E.
    destruct (fold_left (tjoin D) T None) as [[[[i l] s] v]|]; reflexivity.
  Qed.
End Relabel.

(* ---- first-declaration positions when one entry disappears ---- *)
Lemma is_prefix_length p q : is_prefix p q = true -> (length p <= length q)%nat.
Proof.
  revert q. induction p as [|x p IH]; intros [|y q] H; cbn in *; try lia; try discriminate.
  apply andb_true_iff in H as [_ H]. apply IH in H. lia.
Qed.

Lemma is_prefix_app p q n : is_prefix p q = true -> is_prefix p (q ++ n) = true.
Proof.
  revert q. induction p as [|x p IH]; intros [|y q] H; cbn in *; try reflexivity; try discriminate.
  apply andb_true_iff in H as [H1 H2]. rewrite H1. cbn. apply IH. exact H2.
Qed.

Lemma is_prefix_app_longer p q n : is_prefix p (q ++ n) = true -> is_prefix p q = false -> (length q < length p)%nat.
Proof.
  revert q. induction p as [|x p IH]; intros [|y q] H1 H2; cbn in *; try discriminate; try lia.
  apply andb_true_iff in H1 as [E H1]. rewrite E in H2. cbn in H2. specialize (IH q H1 H2). lia.
Qed.

Lemma fp_shift A pfx : forall i, first_pos A pfx (i + 1) = first_pos A pfx i + 1.
Proof.
  induction A as [|d A IH]; intros i; cbn [first_pos]; [reflexivity|].
  destruct (is_prefix pfx d); [reflexivity|]. apply IH.
Qed.

Lemma fp_range A pfx : forall i, i <= first_pos A pfx i <= i + Z.of_nat (length A).
Proof.
  induction A as [|d A IH]; intros i; cbn [first_pos length]; [lia|].
  destruct (is_prefix pfx d); [lia|]. specialize (IH (i + 1)). lia.
Qed.

Lemma fp_app A B pfx : forall i,
  first_pos (A ++ B) pfx i =
  if existsb (is_prefix pfx) A then first_pos A pfx i else first_pos B pfx (i + Z.of_nat (length A)).
Proof.
  induction A as [|d A IH]; intros i; cbn [app first_pos existsb length].
  - f_equal. lia.
  - destruct (is_prefix pfx d); [reflexivity|]. cbn [orb]. rewrite IH.
    destruct (existsb (is_prefix pfx) A); [reflexivity|]. f_equal. lia.
Qed.

Lemma fp_found_lt A pfx i : existsb (is_prefix pfx) A = true -> first_pos A pfx i < i + Z.of_nat (length A).
Proof.
  revert i. induction A as [|d A IH]; intros i H; cbn in *; [discriminate|].
  destruct (is_prefix pfx d); [lia|]. cbn in H. specialize (IH (i + 1) H). lia.
Qed.

Section Shift.
  Variables D1 D2 : list (list Z).
  Variables p n : list Z.
  Let D := D1 ++ p :: (p ++ n) :: D2.
  Let D' := D1 ++ (p ++ n) :: D2.
  Let k := Z.of_nat (length D1).
  Definition gsh (i : Z) : Z := if i <=? k then i else i - 1.

  Lemma fp_cases pfx :
    (first_pos D pfx 0 < k /\ first_pos D' pfx 0 = first_pos D pfx 0) \/
    (first_pos D pfx 0 = k /\ first_pos D' pfx 0 = k /\ is_prefix pfx p = true) \/
    (first_pos D pfx 0 = k + 1 /\ first_pos D' pfx 0 = k /\ is_prefix pfx p = false /\ is_prefix pfx (p ++ n) = true) \/
    (k + 2 <= first_pos D pfx 0 /\ first_pos D' pfx 0 = first_pos D pfx 0 - 1).
  Proof.
    unfold D, D'. rewrite !fp_app. fold k.
    destruct (existsb (is_prefix pfx) D1) eqn:E1.
    - left. split; [pose proof (fp_found_lt D1 pfx 0 E1); fold k in H; lia | reflexivity].
    - right. cbn [first_pos]. destruct (is_prefix pfx p) eqn:Ep.
      + left. rewrite (is_prefix_app pfx p n Ep). repeat split; lia.
      + right. destruct (is_prefix pfx (p ++ n)) eqn:Epn.
        * left. repeat split; lia.
        * right. replace (0 + k + 1 + 1) with ((0 + k + 1) + 1) by lia. rewrite (fp_shift D2 pfx (0 + k + 1)).
          pose proof (fp_range D2 pfx (0 + k + 1)). split; lia.
  Qed.

  Lemma fp_gsh pfx : first_pos D' pfx 0 = gsh (first_pos D pfx 0).
  Proof.
    unfold gsh. destruct (fp_cases pfx) as [[H1 H2]|[[H1 [H2 _]]|[[H1 [H2 _]]|[H1 H2]]]]; rewrite H2;
      destruct (Z.leb_spec (first_pos D pfx 0) k); lia.
  Qed.

  Lemma fp_le pfx : first_pos D pfx 0 <= Z.of_nat (length D).
  Proof. pose proof (fp_range D pfx 0). lia. Qed.

  Lemma len_D : Z.of_nat (length D) = k + 2 + Z.of_nat (length D2) /\ Z.of_nat (length D') = Z.of_nat (length D) - 1.
  Proof. unfold D, D', k. rewrite !app_length. cbn [length]. lia. Qed.

  (* two prefixes of the same length never sit on the two merged positions *)
  Lemma no_collision u v : length u = length v ->
    ~ (first_pos D u 0 = k /\ first_pos D v 0 = k + 1).
  Proof.
    intros HL [Hu Hv].
    destruct (fp_cases u) as [[H1 _]|[[_ [_ Hup]]|[[H1 _]|[H1 _]]]]; try lia.
    destruct (fp_cases v) as [[H1 _]|[[H1 _]|[[_ [_ [Hvp Hvpn]]]|[H1 _]]]]; try lia.
    apply is_prefix_length in Hup. pose proof (is_prefix_app_longer v p n Hvpn Hvp). lia.
  Qed.

  Lemma cmp_gsh sg u v : (sg = 1 \/ sg = -1) ->
    ~ (u = k /\ v = k + 1) -> ~ (v = k /\ u = k + 1) ->
    (sg * gsh u ?= sg * gsh v) = (sg * u ?= sg * v).
  Proof.
    intros Hsg N1 N2. unfold gsh. destruct (Z.leb_spec u k), (Z.leb_spec v k); destruct Hsg as [-> | ->];
      match goal with |- (?A ?= ?B) = (?C ?= ?E) => destruct (Z.compare_spec A B), (Z.compare_spec C E) end;
      try reflexivity; lia.
  Qed.

  Lemma sentinel_gsh : Z.of_nat (length D') + 1 = gsh (Z.of_nat (length D) + 1).
  Proof. destruct len_D as [LD LD']. unfold gsh. destruct (Z.leb_spec (Z.of_nat (length D) + 1) k); lia. Qed.

  (* comparison of two keys (entries multiplied by sg = 1 or -1), followed by the specificities *)
  Lemma key_cmp_shift sg : (sg = 1 \/ sg = -1) -> forall x y accx accy s t,
    length accx = length accy ->
    lex_cmp (map (fun v => sg * v) (map (fun pfx => first_pos D' pfx 0) (prefixes_from accx x) ++ [Z.of_nat (length D') + 1]) ++ [s])
            (map (fun v => sg * v) (map (fun pfx => first_pos D' pfx 0) (prefixes_from accy y) ++ [Z.of_nat (length D') + 1]) ++ [t]) =
    lex_cmp (map (fun v => sg * v) (map (fun pfx => first_pos D pfx 0) (prefixes_from accx x) ++ [Z.of_nat (length D) + 1]) ++ [s])
            (map (fun v => sg * v) (map (fun pfx => first_pos D pfx 0) (prefixes_from accy y) ++ [Z.of_nat (length D) + 1]) ++ [t]).
  Proof.
    intros Hsg. destruct len_D as [LD LD']. rewrite sentinel_gsh.
    set (S := Z.of_nat (length D) + 1).
    assert (HS : k + 3 <= S) by (unfold S; lia).
    induction x as [|a x IH]; intros [|b y] accx accy s t HL; cbn [prefixes_from map app lex_cmp].
    - rewrite !Z.compare_refl. reflexivity.
    - rewrite (fp_gsh (accy ++ [b])). pose proof (fp_le (accy ++ [b])) as B. fold S in B.
      rewrite (cmp_gsh sg S _ Hsg) by lia.
      destruct Hsg as [-> | ->];
        match goal with |- context [?A ?= ?B] => destruct (Z.compare_spec A B) end; try lia; reflexivity.
    - rewrite (fp_gsh (accx ++ [a])). pose proof (fp_le (accx ++ [a])) as B. fold S in B.
      rewrite (cmp_gsh sg _ S Hsg) by lia.
      destruct Hsg as [-> | ->];
        match goal with |- context [?A ?= ?B] => destruct (Z.compare_spec A B) end; try lia; reflexivity.
    - rewrite (fp_gsh (accx ++ [a])), (fp_gsh (accy ++ [b])).
      assert (HL' : length (accx ++ [a]) = length (accy ++ [b])) by (rewrite !app_length; cbn; lia).
      rewrite (cmp_gsh sg _ _ Hsg (no_collision _ _ HL') (no_collision _ _ (eq_sym HL'))).
      destruct (sg * first_pos D (accx ++ [a]) 0 ?= sg * first_pos D (accy ++ [b]) 0); try reflexivity.
      apply IH. exact HL'.
  Qed.
End Shift.

(* ---- strengths and the redundant statement ---- *)
Lemma map_one_id l : map (fun v => 1 * v) l = l.
Proof. induction l as [|a l IH]; cbn [map]; [reflexivity|]. rewrite IH. f_equal. lia. Qed.
Lemma map_opp_m1 l : map Z.opp l = map (fun v => -1 * v) l.
Proof. apply map_ext. intros; lia. Qed.

Lemma strength_cmp_shift D1 D2 p n i j x y s t :
  lex_cmp (strength (D1 ++ (p ++ n) :: D2) i x s) (strength (D1 ++ (p ++ n) :: D2) j y t) =
  lex_cmp (strength (D1 ++ p :: (p ++ n) :: D2) i x s) (strength (D1 ++ p :: (p ++ n) :: D2) j y t).
Proof.
  unfold strength, layer_key.
  destruct i, j; cbn [lex_cmp]; try reflexivity; rewrite Z.compare_refl.
  - pose proof (key_cmp_shift D1 D2 p n (-1) (or_intror eq_refl) x y [] [] s t eq_refl) as H.
    rewrite <- !map_opp_m1 in H. exact H.
  - pose proof (key_cmp_shift D1 D2 p n 1 (or_introl eq_refl) x y [] [] s t eq_refl) as H.
    rewrite !map_one_id in H. exact H.
Qed.

Lemma stmt_tcs w e p conds layer : item_tcs w e p (stmt_item conds layer) = [].
Proof. reflexivity. Qed.

(* a layer statement immediately followed by a statement for an extension of its
   path, under the same conditions, can be dropped *)
Theorem stmt_prefix_redundant : forall w conds p n pre post e pr,
  winner w (pre ++ [stmt_item conds (p ++ n)] ++ post) e pr =
  winner w (pre ++ [stmt_item conds p; stmt_item conds (p ++ n)] ++ post) e pr.
Proof.
  intros w conds p n pre post e pr. unfold winner. rewrite !cands_tcs.
  assert (HT : flat_map (item_tcs w e pr) (pre ++ [stmt_item conds (p ++ n)] ++ post) =
               flat_map (item_tcs w e pr) (pre ++ [stmt_item conds p; stmt_item conds (p ++ n)] ++ post)).
  { rewrite !flat_map_app. cbn [flat_map]. rewrite !stmt_tcs. reflexivity. }
  rewrite HT. set (T := flat_map _ _).
  unfold declared. rewrite !filter_app, !map_app. cbn [filter stmt_item i_stmt i_conds andb].
  destruct (conds_hold w conds); cbn [map app i_layer]; [|reflexivity].
  apply best_relabel. intros a b _ _. destruct a as [[[ia la] sa] va], b as [[[ib lb] sb] vb].
  unfold ltb, mkc. cbn [fst i_layer stmt_item]. rewrite strength_cmp_shift. reflexivity.
Qed.
