(* C12 model, part 4: internal/linker/linker.go isConditionalImportRedundant
   (is an earlier copy of an imported file, wrapped in the condition chain
   [earlier], made redundant by a later copy wrapped in [later]?).
   An import condition is the identity of its layer token, supports token and
   media query list ([] = absent); TokensEqualIgnoringWhitespace /
   MediaQueriesEqualIgnoringWhitespace are equality of identities.
   Executable definitions, the specification of what a condition chain means,
   and the soundness proof (short, kept in one file). *)
From V Require Import Common.Base.

Record icond := mkIC { ic_layer : list Z; ic_supp : list Z; ic_media : list Z }.

Definition nilb {A} (l : list A) : bool := match l with [] => true | _ => false end.

Fixpoint redundant (earlier later : list icond) : bool :=
  match later, earlier with
  | [], _ => true
  | _ :: _, [] => false                         (* len(later) > len(earlier) *)
  | b :: lt, a :: et =>
    if zlist_eqb (ic_layer a) (ic_layer b) then
      let sameS := zlist_eqb (ic_supp a) (ic_supp b) in
      let sameM := zlist_eqb (ic_media a) (ic_media b) in
      if (sameS && sameM) || (sameM && nilb (ic_supp b)) || (sameS && nilb (ic_media b))
      then redundant et lt else false
    else false
  end.

(* ---- what a chain of import conditions means (CSS Cascade 5, section 2.1:
   "@import url supports(S) M" applies iff S is supported and M matches) ---- *)
Section Meaning.
  Variable supp_true : list Z -> bool.     (* truth of a supports() condition *)
  Variable media_true : list Z -> bool.    (* truth of a media query list *)
  Definition cond_holds (c : icond) : bool :=
    (nilb (ic_supp c) || supp_true (ic_supp c)) && (nilb (ic_media c) || media_true (ic_media c)).
  Definition chain_holds (l : list icond) : bool := forallb cond_holds l.

  (* if the check says "redundant", the later copy applies whenever the earlier
     one does, and sits in the same layers along the later chain *)
  Theorem redundant_sound_all : forall earlier later,
    redundant earlier later = true ->
    (chain_holds earlier = true -> chain_holds later = true) /\
    map ic_layer (firstn (length later) earlier) = map ic_layer later.
  Proof.
    induction earlier as [|a et IH]; intros [|b lt] H; cbn [redundant] in H; try discriminate.
    - split; [intros _; reflexivity | reflexivity].
    - split; [intros _; reflexivity | reflexivity].
    - destruct (zlist_eqb (ic_layer a) (ic_layer b)) eqn:EL; [|discriminate].
      apply zlist_eqb_eq in EL.
      destruct ((zlist_eqb (ic_supp a) (ic_supp b) && zlist_eqb (ic_media a) (ic_media b))
                || (zlist_eqb (ic_media a) (ic_media b) && nilb (ic_supp b))
                || (zlist_eqb (ic_supp a) (ic_supp b) && nilb (ic_media b))) eqn:EC; [|discriminate].
      destruct (IH lt H) as [IH1 IH2]. split.
      + cbn [chain_holds forallb]. intros Hh. apply andb_true_iff in Hh as [Ha Het].
        apply andb_true_iff. split; [|apply IH1; exact Het].
        unfold cond_holds in *. apply andb_true_iff in Ha as [Hs Hm].
        apply orb_true_iff in EC as [EC|EC]; [apply orb_true_iff in EC as [EC|EC]|];
          apply andb_true_iff in EC as [E1 E2].
        * apply zlist_eqb_eq in E1, E2. rewrite <- E1, <- E2, Hs, Hm. reflexivity.
        * apply zlist_eqb_eq in E1. rewrite <- E1, Hm, E2. reflexivity.
        * apply zlist_eqb_eq in E1. rewrite <- E1, Hs, E2. rewrite orb_true_l. reflexivity.
      + cbn [length firstn map]. rewrite IH2, EL. reflexivity.
  Qed.
End Meaning.
