(* mangleSide (a single longhand) preserves the semantics and the invariant. *)
From V Require Import Common.Base C12.Mangle C12.BoxTracker C12.BoxSpec C12.BoxLemmas C12.BoxTokens C12.BoxSem C12.BoxInv C12.BoxOpCompact.

Section OpSide.
  Variable aa : bool.

  Lemma set_nth_last {A} (l : list A) x y : set_nth (length l) y (l ++ [x]) = l ++ [y].
  Proof. induction l as [|a l IH]; cbn [length set_nth app]; [reflexivity|]. rewrite IH. reflexivity. Qed.

  Lemma append_sem rs0 d d' :
    (forall e s, sets e aa d' s = sets e aa d s) -> b_imp d' = b_imp d ->
    is_other d = false -> is_other d' = false ->
    sem_eq aa (rs0 ++ [Some d]) (rs0 ++ [Some d']).
  Proof.
    intros Hs Hi Ho Ho'. split; [rewrite !app_length; reflexivity|]. split.
    - intros e imp s. rewrite !live_app, !layer_app. cbn [live]. rewrite !layer_one. unfold eff. rewrite Hi, Hs. reflexivity.
    - rewrite !live_app, !filter_app. cbn [live filter]. rewrite Ho, Ho'. reflexivity.
  Qed.

  Lemma reset_trinv rs tr imp : trinv aa rs tr -> trinv aa rs (reset_if_imp tr imp) /\ tr_imp (reset_if_imp tr imp) = imp.
  Proof.
    intros H. unfold reset_if_imp. destruct (Bool.eqb (tr_imp tr) imp) eqn:E.
    - apply eqb_prop in E. split; assumption.
    - split; [apply trinv_none | reflexivity].
  Qed.

  Lemma stat_single t : (if negb aa || is_numeric t then include_unit USafe t else USafe) = stat aa [t].
  Proof. reflexivity. Qed.

  (* the single-token facts: status vs validity, and the 0px -> 0 rewrite *)
  Lemma single_facts t : trk aa t = true ->
    let us := stat aa [t] in
    let t' := if us_safe us then turn t else t in
    trk aa t' = true /\ norm t' = norm t /\ (forall e, tok_ok e aa t' = tok_ok e aa t) /\
    (us <> UMixed -> forall e, forallb (tok_ok e aa) [t'] = us_valid e us).
  Proof.
    intros Ht us t'.
    assert (HT : forallb (trk aa) [t] = true) by (cbn; rewrite Ht; reflexivity).
    assert (Hsame : norm t' = norm t /\ forall e, tok_ok e aa t' = tok_ok e aa t).
    { unfold t'. destruct (us_safe us) eqn:Es; [|split; reflexivity].
      assert (Eu : us = USafe) by (destruct us; try discriminate; reflexivity).
      pose proof (stat_safe_dims aa [t] USafe Eu) as F. inversion F as [|? ? F1 _]; subst.
      destruct (is_numeric t) eqn:En.
      - split; [apply (turn_safe (mkBE (fun _ => true) (fun _ => true) (fun _ _ => true)) aa t (F1 eq_refl)) | intros e; apply (turn_safe e aa t (F1 eq_refl))].
      - destruct t; try discriminate En; split; reflexivity. }
    destruct Hsame as [Hn Ho]. repeat split; try assumption.
    - unfold t'. destruct (us_safe us); [apply turn_trk; exact Ht | exact Ht].
    - intros HM e. cbn [forallb]. rewrite Ho. pose proof (stat_valid e aa [t] HT HM) as V. cbn [forallb] in V. exact V.
  Qed.

  Lemma mangle_side_inv cc rs0 tr d s0 :
    trinv aa rs0 tr -> b_key d = KSide s0 -> (s0 < 4)%nat ->
    sem_eq aa (rs0 ++ [Some d]) (fst (mangle_side aa cc (rs0 ++ [Some d]) tr d s0)) /\
    trinv aa (fst (mangle_side aa cc (rs0 ++ [Some d]) tr d s0)) (snd (mangle_side aa cc (rs0 ++ [Some d]) tr d s0)).
  Proof.
    intros Hinv Hkey Hs0. destruct d as [k l imp]. cbn [b_key] in Hkey. subst k.
    unfold mangle_side. cbn [b_val b_imp b_key].
    destruct (reset_trinv rs0 tr imp Hinv) as [Hinv1 Himp1].
    set (tr1 := reset_if_imp tr imp) in *.
    assert (Hreset : sem_eq aa (rs0 ++ [Some (mkB (KSide s0) l imp)]) (rs0 ++ [Some (mkB (KSide s0) l imp)]) /\
                     trinv aa (rs0 ++ [Some (mkB (KSide s0) l imp)]) (mkTr no_sides (tr_imp tr1))).
    { split; [apply sem_eq_refl | apply trinv_none]. }
    destruct l as [|t [|t2 l2]]; [exact Hreset | | exact Hreset].
    destruct (is_numeric t || match t with TAuto _ => aa | _ => false end) eqn:Etrk; [|exact Hreset].
    assert (Ht : trk aa t = true) by exact Etrk.
    rewrite stat_single. set (us := stat aa [t]).
    set (t' := if us_safe us then turn t else t).
    destruct (single_facts t Ht) as [Ht' [Hnorm [Hok Hval]]]. fold us in Hval, Hnorm, Hok, Ht'. fold t' in Hval, Hnorm, Hok, Ht'.
    rewrite app_length. cbn [length]. replace (length rs0 + 1 - 1)%nat with (length rs0) by lia.
    set (d := mkB (KSide s0) [t] imp). set (d' := mkB (KSide s0) [t'] imp).
    (* the rule array after the in-place token rewrite always ends with d' *)
    assert (Hrs2 : (if us_safe us && negb (tok_eqb t' t) then set_nth (length rs0) (Some d') (rs0 ++ [Some d]) else rs0 ++ [Some d]) = rs0 ++ [Some d']).
    { destruct (us_safe us && negb (tok_eqb t' t)) eqn:Ec; [apply set_nth_last|].
      assert (Et : t' = t).
      { apply andb_false_iff in Ec as [Ec|Ec].
        - unfold t'. rewrite Ec. reflexivity.
        - apply negb_false_iff in Ec. apply tok_eqb_eq. exact Ec. }
      unfold d'. rewrite Et. reflexivity. }
    rewrite Hrs2. clear Hrs2.
    assert (Hsem12 : sem_eq aa (rs0 ++ [Some d]) (rs0 ++ [Some d'])).
    { apply append_sem; try reflexivity. intros e s. unfold d, d'. rewrite !sets_single by assumption. rewrite Hok, Hnorm. reflexivity. }
    set (rs2 := rs0 ++ [Some d']).
    set (new := mkSide t' us (length rs0) true).
    (* update_side *)
    assert (HU : sem_eq aa rs2 (fst (update_side rs2 tr1 s0 new)) /\ trinv aa (fst (update_side rs2 tr1 s0 new)) (snd (update_side rs2 tr1 s0 new))).
    { destruct Hinv1 as [HC HE]. unfold update_side. cbn [fst snd sd_single sd_us new].
      set (rs3 := match tr_sides tr1 s0 with
                  | Some old => if (negb true || sd_single old) && us_safe (sd_us old) && us_safe us then set_nth (sd_idx old) None rs2 else rs2
                  | None => rs2 end).
      (* rs3 is rs2 with possibly one blank, below the last entry, of a single rule for side s0 *)
      assert (Hrs3 : length rs3 = length rs2 /\ nth_error rs3 (length rs0) = Some (Some d') /\
                forall j, nth_error rs3 j = nth_error rs2 j \/
                  (nth_error rs3 j = Some None /\ us_safe us = true /\ exists o r, tr_sides tr1 s0 = Some o /\ j = sd_idx o /\ sd_single o = true /\ us_safe (sd_us o) = true /\ nth_error rs0 j = Some (Some r))).
      { assert (Hd' : nth_error rs2 (length rs0) = Some (Some d')) by (unfold rs2; rewrite nth_error_app2 by lia; rewrite Nat.sub_diag; reflexivity).
        unfold rs3. destruct (tr_sides tr1 s0) as [o|] eqn:Eo; [|repeat split; auto].
        destruct ((negb true || sd_single o) && us_safe (sd_us o) && us_safe us) eqn:Ec; [|repeat split; auto].
        apply andb_true_iff in Ec as [Ec Ec3]. apply andb_true_iff in Ec as [Ec1 Ec2]. cbn [negb orb] in Ec1.
        pose proof (HC s0 o Eo) as Tk. pose proof (tracked_lt aa rs0 _ _ _ Tk) as Lo.
        destruct Tk as [r t0 _ Hnth _ _ _ _ _ _ _ _].
        split; [apply set_nth_length|]. split; [rewrite nth_set_nth_other by lia; exact Hd'|].
        intros j. destruct (Nat.eq_dec j (sd_idx o)) as [->|Hne]; [|left; apply nth_set_nth_other; exact Hne].
        right. split; [apply nth_set_nth_same; unfold rs2; rewrite app_length; lia|]. split; [exact Ec3|].
        exists o, r. repeat split; assumption. }
      destruct Hrs3 as [HL3 [Hlast3 Hpt3]].
      assert (HL2 : length rs2 = S (length rs0)) by (unfold rs2; rewrite app_length; cbn; lia).
      assert (Hd'valid : us_safe us = true -> forall e, sets e aa d' s0 = Some (SV (norm t'))).
      { intros Es e. unfold d'. rewrite sets_single by exact Ht'. rewrite Nat.eqb_refl.
        assert (Eu : us = USafe) by (destruct us; try discriminate; reflexivity).
        assert (HM : us <> UMixed) by (rewrite Eu; discriminate).
        pose proof (Hval HM e) as V. rewrite Eu in V. cbn [forallb us_valid] in V. rewrite andb_true_r in V. rewrite V. reflexivity. }
      split.
      - apply blank_preserves; [exact HL3 | rewrite HL2; replace (S (length rs0) - 1)%nat with (length rs0) by lia; rewrite Hlast3; unfold rs2; rewrite nth_error_app2 by lia; rewrite Nat.sub_diag; reflexivity |].
        intros j. destruct (Hpt3 j) as [E|[E [Es [o [r [Eo [-> [So [Uo Hr]]]]]]]]]; [left; exact E|].
        right. split; [exact E|]. pose proof (HC s0 o Eo) as Tk.
        destruct (tracked_rule aa rs0 _ _ _ Tk) as [r1 [Hr1 [F1 [F2 [_ [_ [F6 [_ [F8 _]]]]]]]]].
        rewrite Hr in Hr1. inversion Hr1; subst r1.
        exists r. split; [unfold rs2; rewrite nth_error_app1 by (apply (tracked_lt aa rs0 _ _ _ Tk)); exact Hr|]. split; [exact F2|].
        intros e imp' s He. exists d'. split; [rewrite HL2; replace (S (length rs0) - 1)%nat with (length rs0) by lia; unfold rs2; rewrite nth_error_app2 by lia; rewrite Nat.sub_diag; reflexivity|].
        unfold eff in *. rewrite F1, Himp1 in He. cbn [b_imp d'].
        destruct (Bool.eqb imp imp'); [|contradiction].
        (* r is a longhand of side s0 only *)
        assert (Es0 : s = s0).
        { destruct (Nat.eq_dec s s0) as [->|Hne]; [reflexivity|]. exfalso. apply He.
          apply not_affects_sets. unfold affects. rewrite (F6 So). apply Nat.eqb_neq. lia. }
        subst s. rewrite (Hd'valid Es e). discriminate.
      - (* the invariant for the new tracker *)
        cbn [tr_imp]. split.
        + intros s sd Hsd. cbn [tr_sides] in Hsd. unfold set_side in Hsd.
          destruct (Nat.eqb_spec s s0) as [->|Hne].
          * inversion Hsd; subst sd. rewrite Himp1.
            apply (Tracked aa rs3 imp s0 new d' t'); cbn [new sd_idx sd_single sd_tok sd_us d' b_imp b_val b_key]; try reflexivity; try assumption.
            -- cbn. rewrite Ht'. reflexivity.
            -- split; reflexivity.
            -- intros j r' Hj Hr. exfalso. assert (nth_error rs3 j = None) by (apply nth_error_None; lia). congruence.
          * pose proof (HC s sd Hsd) as Tk. rewrite Himp1 in Tk.
            pose proof (tracked_lt aa rs0 _ _ _ Tk) as Lsd.
            assert (Hkeep : nth_error rs3 (sd_idx sd) = nth_error rs0 (sd_idx sd)).
            { destruct (Hpt3 (sd_idx sd)) as [E|[_ [_ [o [r [Eo [Ej [So [_ Hr]]]]]]]]].
              - rewrite E. unfold rs2. apply nth_error_app1. exact Lsd.
              - exfalso. (* the blanked rule is a longhand of s0, the rule of side s is not *)
                destruct (tracked_rule aa rs0 _ _ _ (HC s0 o Eo)) as [ro [Hro [_ [_ [_ [_ [F6 _]]]]]]].
                destruct (tracked_rule aa rs0 _ _ _ Tk) as [rs_ [Hrs [_ [_ [_ [_ [G6 [G7 _]]]]]]]].
                rewrite Ej, Hro in Hrs. inversion Hrs; subst rs_.
                destruct (sd_single sd) eqn:Ssd.
                + rewrite (F6 So) in G6. specialize (G6 eq_refl). inversion G6. lia.
                + rewrite (F6 So) in G7. specialize (G7 eq_refl). discriminate. }
            cbn [tr_imp]. rewrite Himp1. apply (tracked_transfer aa rs0 rs3 imp s sd Tk Hkeep).
            intros j r' Hj Hr. destruct (Nat.lt_ge_cases j (length rs0)) as [Hlt|Hge].
            -- left. destruct (Hpt3 j) as [E|[E _]]; [|congruence]. rewrite E in Hr. unfold rs2 in Hr. rewrite nth_error_app1 in Hr by exact Hlt. exact Hr.
            -- right. destruct (Nat.eq_dec j (length rs0)) as [->|Hne2].
               ++ rewrite Hlast3 in Hr. inversion Hr; subst r'. unfold affects. cbn. apply Nat.eqb_neq. lia.
               ++ exfalso. assert (nth_error rs3 j = None) by (apply nth_error_None; lia). congruence.
        + intros s s' sd sd' Hsd Hsd' S1 S2. cbn [tr_sides] in Hsd, Hsd'. unfold set_side in Hsd, Hsd'.
          destruct (Nat.eqb s s0); [inversion Hsd; subst sd; discriminate S1|].
          destruct (Nat.eqb s' s0); [inversion Hsd'; subst sd'; discriminate S2|].
          eapply HE; eassumption. }
    destruct HU as [HU1 HU2].
    destruct (compact_inv aa cc _ _ HU2) as [HC1 [HC2 _]].
    split; [|exact HC2].
    eapply sem_eq_trans; [exact Hsem12|]. eapply sem_eq_trans; [exact HU1 | exact HC1].
  Qed.
End OpSide.
