(* C12 model, part 1: internal/css_parser/css_decls_color.go
     parseHex, compactHex, expandHex, hexR/G/B/A, and the hash / ident branch
     of tryToGenerateColor (shortest hex form, short colour names).
   Executable definitions only.

   Modelling notes:
   * Go uint32 is modelled as Z in [0, 2^32); `hex <<= 4` wraps, written
     explicitly as (hex * 16) mod 2^32.  `hex |= d` after the shift is `+ d`
     (the low four bits are zero).  Masks/shifts of compactHex / expandHex are
     written with Z.land / Z.shiftl / Z.shiftr / Z.lor exactly as in the Go text.
   * `for _, c := range text` iterates runes: the input is a list of code points.
   * fmt.Sprintf("%0Nx", v) is modelled by [fmt_hex N v] (lower-case digits,
     zero padded to N, v < 16^N in every call site). *)
From V Require Import Common.Base.

Definition hex_digit (c : Z) : option Z :=
  if (48 <=? c) && (c <=? 57) then Some (c - 48)
  else if (97 <=? c) && (c <=? 102) then Some (c - 87)
  else if (65 <=? c) && (c <=? 70) then Some (c - 55)
  else None.

Fixpoint parseHex_loop (l : list Z) (hex : Z) : option Z :=
  match l with
  | [] => Some hex
  | c :: r =>
    match hex_digit c with
    | None => None
    | Some d => parseHex_loop r ((hex * 16) mod 2 ^ 32 + d)
    end
  end.

(* parseHex(text) *)
Definition parseHex (text : list Z) : option Z := parseHex_loop text 0.

(* 0xAABBCCDD => 0xABCD *)
Definition compactHex (v : Z) : Z :=
  Z.lor (Z.shiftr (Z.land v 267386880 (* 0x0FF00000 *)) 12)
        (Z.shiftr (Z.land v 4080 (* 0x00000FF0 *)) 4).

(* 0xABCD => 0xAABBCCDD *)
Definition expandHex (v : Z) : Z :=
  Z.lor (Z.lor (Z.lor (Z.lor
    ((Z.shiftl (Z.land v 61440 (* 0xF000 *)) 16) mod 2 ^ 32)
    ((Z.shiftl (Z.land v 65280 (* 0xFF00 *)) 12) mod 2 ^ 32))
    ((Z.shiftl (Z.land v 4080 (* 0x0FF0 *)) 8) mod 2 ^ 32))
    ((Z.shiftl (Z.land v 255 (* 0x00FF *)) 4) mod 2 ^ 32))
    (Z.land v 15).

Definition hexR (v : Z) : Z := v / 2 ^ 24.
Definition hexG (v : Z) : Z := (v / 2 ^ 16) mod 256.
Definition hexB (v : Z) : Z := (v / 2 ^ 8) mod 256.
Definition hexA (v : Z) : Z := v mod 256.

Definition hex_char (d : Z) : Z := if d <? 10 then 48 + d else 87 + d.

(* fmt.Sprintf("%0<n>x", v) for v < 16^n *)
Fixpoint fmt_hex (n : nat) (v : Z) : list Z :=
  match n with
  | O => []
  | S k => fmt_hex k (v / 16) ++ [hex_char (v mod 16)]
  end.

(* What tryToGenerateColor writes when it does not fall back to rgba():
   an identifier (short colour name) or a hash token. *)
Inductive ctoken :=
| CIdent (name : list Z)
| CHash (digits : list Z)
| CRgba (r g b a : Z).       (* "rgba(r, g, b, <alphaFractionTable[a]>)" *)

Section Generate.
  (* shortColorName as an association list (regenerated from source: gen/ColorTablesGen.v) *)
  Variable short_names : list (Z * list Z).

  Fixpoint assoc_z {B} (k : Z) (l : list (Z * B)) : option B :=
    match l with
    | [] => None
    | (k', v) :: r => if k' =? k then Some v else assoc_z k r
    end.

  (* tryToGenerateColor for a colour without colour space: hex is 0xRRGGBBAA *)
  Definition generate_color (minify hexrgba_unsupported : bool) (hex : Z) : ctoken :=
    if hexA hex =? 255 then
      match (if minify then assoc_z hex short_names else None) with
      | Some name => CIdent name
      | None =>
        let h := hex / 256 in
        let compact := compactHex h in
        if minify && (h =? expandHex compact) then CHash (fmt_hex 3 compact)
        else CHash (fmt_hex 6 h)
      end
    else if negb hexrgba_unsupported then
      let compact := compactHex hex in
      if minify && (hex =? expandHex compact) then CHash (fmt_hex 4 compact)
      else CHash (fmt_hex 8 hex)
    else CRgba (hexR hex) (hexG hex) (hexB hex) (hexA hex).
End Generate.
