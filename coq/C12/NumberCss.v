(* C12 model, part 2: internal/css_parser/css_parser.go
     mangleNumber, shiftDot, mangleDimension  (byte strings as list Z).
   Executable definitions only; the model follows the Go text statement by
   statement.

   Go `int` offsets are nat/Z here; slicing t[:i] is firstn, t[i:] is skipn. *)
From V Require Import Common.Base C12.Text.

Fixpoint index_byte (c : Z) (l : list Z) : option nat :=
  match l with
  | [] => None
  | x :: r => if x =? c then Some O else option_map S (index_byte c r)
  end.

Fixpoint drop_zeros (l : list Z) : list Z :=
  match l with
  | x :: r => if x =? 48 then drop_zeros r else l
  | [] => []
  end.

(* for len(t) > 0 && t[len(t)-1] == '0' { t = t[:len(t)-1] } *)
Definition strip_trailing_zeros (l : list Z) : list Z := rev (drop_zeros (rev l)).

Definition is_sign (c : Z) : bool := (c =? 43) || (c =? 45).

Definition contains_e (l : list Z) : bool := existsb (fun c => (c =? 101) || (c =? 69)) l.

Definition mangleNumber (t : list Z) : list Z * bool :=
  match index_byte 46 t with
  | None => (t, false)
  | Some dot =>
    if contains_e t then (t, false) else    (* fix 4a7b5a3: && !strings.ContainsAny(t, "eE") *)
    let t1 := strip_trailing_zeros t in
    let t2 :=
      if Nat.eqb (S dot) (length t1) then
        let t' := firstn dot t1 in
        match t' with
        | [] => [48]
        | [c] => if is_sign c then [c; 48] else t'
        | _ => t'
        end
      else
        match t1 with
        | a :: b :: d :: r =>
          if (a =? 48) && (b =? 46) && is_digit d then b :: d :: r            (* "0.5" => ".5" *)
          else
            match r with
            | d2 :: r2 =>
              if is_sign a && (b =? 48) && (d =? 46) && is_digit d2 then a :: d :: d2 :: r2   (* "-0.5" => "-.5" *)
              else t1
            | [] => t1
            end
        | _ => t1
        end in
    (t2, negb (zlist_eqb t2 t))
  end.


(* leading-zero loop of shiftDot: for len(text) > 0 && dot > 0 && text[0] == '0' *)
Fixpoint lead_loop (text : list Z) (dot : Z) : list Z * Z :=
  match text with
  | x :: r => if (0 <? dot) && (x =? 48) then lead_loop r (dot - 1) else (text, dot)
  | [] => ([], dot)
  end.

(* trailing-zero loop on the reversed text: for len(text) > 0 && len(text) > dot && last == '0' *)
Fixpoint trail_loop (rtext : list Z) (dot : Z) : list Z :=
  match rtext with
  | x :: r => if (dot <? Z.of_nat (length rtext)) && (x =? 48) then trail_loop r dot else rtext
  | [] => []
  end.

Definition zeros (n : Z) : list Z := repeat 48 (Z.to_nat n).
Definition nil_l {A} (l : list A) : bool := match l with [] => true | _ => false end.

Definition shiftDot (text0 : list Z) (dotOffset : Z) : option (list Z) :=
  if contains_e text0 then None else
  let '(sign, text) :=
    match text0 with
    | c :: r => if is_sign c then ([c], r) else ([], text0)
    | [] => ([], [])
    end in
  let '(dot, text) :=
    match index_byte 46 text with
    | None => (Z.of_nat (length text), text)
    | Some d => (Z.of_nat d, firstn d text ++ skipn (S d) text)
    end in
  let dot := dot + dotOffset in
  let '(text, dot) := lead_loop text dot in
  let text := rev (trail_loop (rev text) dot) in
  let len := Z.of_nat (length text) in
  if len <=? dot then
    (* fix 0f05885: an all-zero number keeps one digit *)
    let tz := if nil_l text && (dot - len =? 0) then [48] else zeros (dot - len) in
    Some (sign ++ text ++ tz)
  else
    let '(text, dot) := if dot <? 0 then (zeros (- dot) ++ text, 0) else (text, dot) in
    Some (sign ++ firstn (Z.to_nat dot) text ++ [46] ++ skipn (Z.to_nat dot) text).

Definition equal_fold (a b : list Z) : bool := zlist_eqb (map ascii_lower a) (map ascii_lower b).

Definition len_z (l : list Z) : Z := Z.of_nat (length l).

(* mangleDimension(value, unit) : (value', unit', ok) *)
Definition mangleDimension (value unit : list Z) : option (list Z * list Z) :=
  let try_ms :=
    if equal_fold unit [109; 115] then
      match shiftDot value (-3) with
      | Some shifted => if len_z shifted + 1 <? len_z value + 2 then Some (shifted, [115]) else None
      | None => None
      end
    else None in
  match try_ms with
  | Some r => Some r
  | None =>
    if equal_fold unit [115] then
      match shiftDot value 3 with
      | Some shifted => if len_z shifted + 2 <? len_z value + 1 then Some (shifted, [109; 115]) else None
      | None => None
      end
    else None
  end.

(* what convertTokens does to a dimension token when minifying: mangleNumber on
   the value first, then mangleDimension on the result *)
Definition mangle_dimension_token (value unit : list Z) : list Z * list Z :=
  let v1 := fst (mangleNumber value) in
  match mangleDimension v1 unit with
  | Some (v2, u2) => (v2, u2)
  | None => (v1, unit)
  end.
