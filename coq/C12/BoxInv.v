(* The tracker invariant and its basic consequences. *)
From V Require Import Common.Base C12.Mangle C12.BoxTracker C12.BoxSpec C12.BoxLemmas C12.BoxTokens C12.BoxSem.

Section Inv.
  Variable aa : bool.

  Inductive tracked (rs : rules) (imp0 : bool) (s : nat) (sd : bside) : Prop :=
  | Tracked (r : bdecl) (t0 : tok)
      (Hs : (s < 4)%nat)
      (Hnth : nth_error rs (sd_idx sd) = Some (Some r))
      (Himp : b_imp r = imp0)
      (Htrk : forallb (trk aa) (b_val r) = true)
      (Hshape : if sd_single sd then b_key r = KSide s /\ b_val r = [t0]
                else b_key r = KShort /\ exists q, spec_expand (b_val r) = Some q /\ t0 = qnth q s)
      (Hnorm : norm (sd_tok sd) = norm t0)
      (Hok : forall e, tok_ok e aa (sd_tok sd) = tok_ok e aa t0)
      (Htt : trk aa (sd_tok sd) = true)
      (Hval : sd_us sd <> UMixed -> forall e, forallb (tok_ok e aa) (b_val r) = us_valid e (sd_us sd))
      (Hafter : forall j r', (sd_idx sd < j)%nat -> nth_error rs j = Some (Some r') -> affects r' s = false).

  Definition trinv (rs : rules) (tr : tracker) : Prop :=
    (forall s sd, tr_sides tr s = Some sd -> tracked rs (tr_imp tr) s sd) /\
    (forall s s' sd sd', tr_sides tr s = Some sd -> tr_sides tr s' = Some sd' ->
       sd_single sd = false -> sd_single sd' = false -> sd_idx sd = sd_idx sd').

  Lemma trinv_none rs imp : trinv rs (mkTr no_sides imp).
  Proof. split; intros; discriminate. Qed.

  Lemma tracked_lt rs imp0 s sd : tracked rs imp0 s sd -> (sd_idx sd < length rs)%nat.
  Proof. intros [r t0 _ Hnth]. apply nth_error_Some. rewrite Hnth. discriminate. Qed.

  (* the tracked rule and what it does *)
  Lemma tracked_rule rs imp0 s sd : tracked rs imp0 s sd ->
    exists r, nth_error rs (sd_idx sd) = Some (Some r) /\ b_imp r = imp0 /\ is_other r = false /\
      affects r s = true /\
      (forall e s', (4 <= s')%nat -> sets e aa r s' = None) /\
      (sd_single sd = true -> b_key r = KSide s) /\
      (sd_single sd = false -> b_key r = KShort) /\
      (forall e, sets e aa r s = if forallb (tok_ok e aa) (b_val r) then Some (SV (norm (sd_tok sd))) else None) /\
      (forall e, forallb (tok_ok e aa) (b_val r) = true -> tok_ok e aa (sd_tok sd) = true) /\
      (sd_us sd <> UMixed -> forall e, forallb (tok_ok e aa) (b_val r) = us_valid e (sd_us sd)).
  Proof.
    intros [r t0 Hs Hnth Himp Htrk Hshape Hnorm Hok Htt Hval Hafter].
    exists r. split; [exact Hnth|]. split; [exact Himp|].
    destruct (sd_single sd) eqn:Es.
    - destruct Hshape as [Hk Hv]. destruct r as [k v i]. cbn [b_key b_val b_imp] in *. subst k v.
      assert (Ht0 : trk aa t0 = true) by (cbn in Htrk; rewrite andb_true_r in Htrk; exact Htrk).
      repeat split; try reflexivity; try discriminate.
      + unfold affects. cbn. apply Nat.eqb_refl.
      + intros e s' Hs'. rewrite sets_single by exact Ht0.
        destruct (Nat.eqb_spec s s'); [lia | reflexivity].
      + intros e. rewrite sets_single by exact Ht0. rewrite Nat.eqb_refl. cbn [forallb]. rewrite andb_true_r, Hnorm. reflexivity.
      + intros e H. cbn [forallb] in H. rewrite andb_true_r in H. rewrite Hok. exact H.
      + exact Hval.
    - destruct Hshape as [Hk [q [Hq Ht0]]]. destruct r as [k v i]. cbn [b_key b_val b_imp] in *. subst k.
      repeat split; try reflexivity; try discriminate.
      + intros e s' Hs'. rewrite (sets_short e aa v q) by assumption.
        replace (s' <? 4)%nat with false by (symmetry; apply Nat.ltb_ge; lia). reflexivity.
      + intros e. rewrite (sets_short e aa v q) by assumption.
        replace (s <? 4)%nat with true by (symmetry; apply Nat.ltb_lt; lia). rewrite Hnorm, Ht0. reflexivity.
      + intros e H. rewrite Hok, Ht0. rewrite (forallb_spec_expand _ v q Hq) in H. unfold all4 in H.
        destruct s as [|[|[|[|]]]]; try lia; repeat (apply andb_true_iff in H as [H ?]); assumption.
      + exact Hval.
  Qed.

  (* a tracked side survives edits that leave its rule alone and add nothing that affects it *)
  Lemma tracked_transfer rs rs' imp0 s sd :
    tracked rs imp0 s sd ->
    nth_error rs' (sd_idx sd) = nth_error rs (sd_idx sd) ->
    (forall j r', (sd_idx sd < j)%nat -> nth_error rs' j = Some (Some r') ->
       nth_error rs j = Some (Some r') \/ affects r' s = false) ->
    tracked rs' imp0 s sd.
  Proof.
    intros [r t0 Hs Hnth Himp Htrk Hshape Hnorm Hok Htt Hval Hafter] Hsame Hnew.
    apply (Tracked rs' imp0 s sd r t0); try assumption.
    - rewrite Hsame. exact Hnth.
    - intros j r' Hj Hr'. destruct (Hnew j r' Hj Hr') as [H|H]; [eapply Hafter; eassumption | exact H].
  Qed.
End Inv.
