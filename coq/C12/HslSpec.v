(* C12 specification side: hsl() and hwb() to sRGB, written from CSS Color 4
   (section 7.1 "Converting HSL Colors to sRGB", sample code hslToRgb; section
   8.1 "Converting HWB Colors to sRGB", sample code hwbToRgb), in exact rational
   arithmetic.  The hue is a number of degrees, ANY number of turns, positive or
   negative; saturation/lightness/whiteness/blackness are percentages and are
   clamped to [0%, 100%] (as parse-time clamping, CSS Color 4 section 4.2).
   Tied to esbuild's conversion (css_decls_color.go degreesForAngle, hslToRgb,
   hueToRgb, hwbToRgb, floatToByte) by the correspondence family hslrgb_cases,
   which observes the colour esbuild prints through the public API. *)
From Coq Require Import QArith Qround Qabs.
From V Require Import Common.Base.
Local Open Scope Q_scope.

Definition qmin (a b : Q) : Q := if Qle_bool a b then a else b.
Definition qmax (a b : Q) : Q := if Qle_bool a b then b else a.
(* x mod m for m > 0, in [0, m) *)
Definition qmod (x m : Q) : Q := x - m * inject_Z (Qfloor (x / m)).
Definition clamp01 (x : Q) : Q := qmax 0 (qmin 1 x).

(* hue in degrees, sat and light in percent *)
Definition hsl_spec (hue sat light : Q) : Q * Q * Q :=
  let hue := qmod hue 360 in
  let sat := clamp01 (sat / 100) in
  let light := clamp01 (light / 100) in
  let f := fun n : Q =>
    let k := qmod (n + hue / 30) 12 in
    let a := sat * qmin light (1 - light) in
    light - a * qmax (-1) (qmin (qmin (k - 3) (9 - k)) 1) in
  (f 0, f 8, f 4).

Definition hwb_spec (hue white black : Q) : Q * Q * Q :=
  let white := clamp01 (white / 100) in
  let black := clamp01 (black / 100) in
  if Qle_bool 1 (white + black) then
    let gray := white / (white + black) in (gray, gray, gray)
  else
    let '(r, g, b) := hsl_spec hue 100 50 in
    let f := fun c : Q => c * (1 - white - black) + white in
    (f r, f g, f b).

(* a byte printed for a channel value c in [0,1]: the nearest integer to 255 c (ties either way) *)
Definition byte_ok (c : Q) (b : Z) : bool :=
  Qle_bool (Qabs (255 * c - inject_Z b)) (501 # 1000).

(* the angle units: 0 number/deg, 1 grad, 2 turn; the value is num/den of that unit *)
Definition degrees (unit : Z) (num den : Z) : Q :=
  let v := num # (Z.to_pos den) in
  if (unit =? 1)%Z then v * (9 # 10) else if (unit =? 2)%Z then v * 360 else v.

(* one observed case: function (0 hsl, 1 hwb), hue unit and value, the two percentages, the printed bytes *)
Definition hslrgb_ok (c : Z * Z * Z * Z * Z * Z * (Z * Z * Z)) : bool :=
  let '(fn, unit, num, den, p1, p2, (r, g, b)) := c in
  let h := degrees unit num den in
  let '(sr, sg, sb) := if (fn =? 0)%Z then hsl_spec h (inject_Z p1) (inject_Z p2) else hwb_spec h (inject_Z p1) (inject_Z p2) in
  byte_ok sr r && byte_ok sg g && byte_ok sb b.
