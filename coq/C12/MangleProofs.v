(* Duplicate-rule removal preserves the cascade winner. *)
From V Require Import Common.Base C12.Cascade C12.CascadeProofs C12.Mangle.

(* ---- generic facts about the back-to-front pass ---- *)
Section RdGeneric.
  Context {R : Type} (eqb : R -> R -> bool) (dead hashb : R -> bool).

  (* anything mapped to [] on removed elements is unaffected *)
  Lemma rd_flat_map {B} (g : R -> list B) :
    (forall r, dead r = true -> g r = []) ->
    (forall r s, eqb r s = true -> g r = []) ->
    forall rs seen, flat_map g (fst (rd eqb dead hashb rs seen)) = flat_map g rs.
  Proof.
    intros Hd He. induction rs as [|r t IH]; intros seen; [reflexivity|].
    cbn [rd]. specialize (IH seen). destruct (rd eqb dead hashb t seen) as [kept sn] eqn:E.
    cbn [fst] in IH. cbn [flat_map].
    destruct (dead r) eqn:Ed.
    - cbn [fst]. rewrite (Hd r Ed). exact IH.
    - destruct (hashb r).
      + destruct (existsb (eqb r) sn) eqn:Ex.
        * apply existsb_exists in Ex as [s [_ Hs]]. cbn [fst]. rewrite (He r s Hs). exact IH.
        * cbn [fst flat_map]. rewrite IH. reflexivity.
      + cbn [fst flat_map]. rewrite IH. reflexivity.
  Qed.

  (* the monoid-level statement *)
  Variable x : R -> option cand.
  Hypothesis Hdead : forall r, dead r = true -> x r = None.
  Hypothesis Heq : forall r s, eqb r s = true -> x r = x s.

  Lemma rd_prod : forall rs seen0 T,
    (forall s, In s seen0 -> absorbs (x s) T) ->
    join (prod x rs) T = join (prod x (fst (rd eqb dead hashb rs seen0))) T /\
    (forall s, In s (snd (rd eqb dead hashb rs seen0)) ->
       absorbs (x s) (join (prod x (fst (rd eqb dead hashb rs seen0))) T)).
  Proof.
    induction rs as [|r t IH]; intros seen0 T Hs0.
    - cbn [rd fst snd prod fold_right]. rewrite join_none_l. split; [reflexivity|]. intros s Hs. apply Hs0. exact Hs.
    - cbn [rd]. destruct (IH seen0 T Hs0) as [IH1 IH2].
      destruct (rd eqb dead hashb t seen0) as [kept sn] eqn:E. cbn [fst snd] in *.
      change (prod x (r :: t)) with (join (x r) (prod x t)).
      rewrite join_assoc, IH1.
      destruct (dead r) eqn:Ed.
      + cbn [fst snd]. rewrite (Hdead r Ed), join_none_l. split; [reflexivity | exact IH2].
      + destruct (hashb r).
        * destruct (existsb (eqb r) sn) eqn:Ex.
          -- apply existsb_exists in Ex as [s [Hin Hs]]. cbn [fst snd].
             rewrite (Heq r s Hs). split; [apply IH2; exact Hin | exact IH2].
          -- cbn [fst snd]. change (prod x (r :: kept)) with (join (x r) (prod x kept)).
             rewrite join_assoc. split; [reflexivity|].
             intros s [<-|Hin]; [apply absorbs_self | apply absorbs_step, IH2, Hin].
        * cbn [fst snd]. change (prod x (r :: kept)) with (join (x r) (prod x kept)).
          rewrite join_assoc. split; [reflexivity|].
          intros s Hin. apply absorbs_step, IH2, Hin.
  Qed.

  Corollary rd_prod_nil rs T :
    join (prod x (fst (rd eqb dead hashb rs []))) T = join (prod x rs) T.
  Proof. symmetry. apply rd_prod. intros s []. Qed.
End RdGeneric.

(* several calls with shared entries, last list first (the linker's loop over
   files) equal one call on the concatenation *)
Lemma rd_app {R} (eqb : R -> R -> bool) dead hashb (a b seen : list R) :
  rd eqb dead hashb (a ++ b) seen =
  let '(kb, sb) := rd eqb dead hashb b seen in
  let '(ka, sa) := rd eqb dead hashb a sb in (ka ++ kb, sa).
Proof.
  induction a as [|r a IH]; cbn [app rd].
  - destruct (rd eqb dead hashb b seen). reflexivity.
  - rewrite IH. destruct (rd eqb dead hashb b seen) as [kb sb].
    destruct (rd eqb dead hashb a sb) as [ka sa].
    destruct (dead r); [reflexivity|]. destruct (hashb r); [|reflexivity].
    destruct (existsb (eqb r) sa); reflexivity.
Qed.

(* ---- structural equality of rule trees ---- *)
Section RuleInd.
  Variable P : rule -> Prop.
  Hypothesis HSel : forall s d, P (RSel s d).
  Hypothesis HMedia : forall q b, Forall P b -> P (RMedia q b).
  Hypothesis HCond : forall t p b, Forall P b -> P (RCond t p b).
  Hypothesis HLayer : forall n a b, Forall P b -> P (RLayer n a b).
  Hypothesis HOpaque : forall k i, P (ROpaque k i).
  Hypothesis HImport : forall i, P (RImport i).
  Hypothesis HComment : forall i, P (RComment i).
  Fixpoint rule_ind' (r : rule) : P r :=
    let go := fix go (l : list rule) : Forall P l :=
      match l with [] => Forall_nil P | y :: t => Forall_cons y (rule_ind' y) (go t) end in
    match r with
    | RSel s d => HSel s d
    | RMedia q b => HMedia q b (go b)
    | RCond t p b => HCond t p b (go b)
    | RLayer n a b => HLayer n a b (go b)
    | ROpaque k i => HOpaque k i
    | RImport i => HImport i
    | RComment i => HComment i
    end.
End RuleInd.

Fixpoint no_layer (r : rule) : bool :=
  match r with
  | RLayer _ _ _ => false
  | RMedia _ b => forallb no_layer b
  | RCond _ _ b => forallb no_layer b
  | _ => true
  end.

Lemma leqb_eq {A} (eqb : A -> A -> bool) (a : list A) :
  Forall (fun x => forall y, eqb x y = true -> x = y) a ->
  forall b, leqb eqb a b = true -> a = b.
Proof.
  induction 1 as [|x a Hx Ha IH]; intros [|y b]; simpl; intros H; try discriminate; [reflexivity|].
  apply andb_true_iff in H as [H1 H2]. f_equal; [apply Hx; exact H1 | apply IH; exact H2].
Qed.

Lemma sel_eqb_eq a b : sel_eqb a b = true -> a = b.
Proof.
  destruct a, b. unfold sel_eqb. cbn. intros H.
  apply andb_true_iff in H as [H H3]. apply andb_true_iff in H as [H1 H2].
  apply Z.eqb_eq in H1. apply eqb_prop in H2. apply eqb_prop in H3. congruence.
Qed.

Lemma decl_eqb_eq a b : decl_eqb a b = true -> a = b.
Proof.
  destruct a, b. unfold decl_eqb. cbn. intros H.
  apply andb_true_iff in H as [H H4]. apply andb_true_iff in H as [H H3]. apply andb_true_iff in H as [H1 H2].
  apply Z.eqb_eq in H1, H2, H4. apply eqb_prop in H3. congruence.
Qed.

Lemma leqb_sel a b : leqb sel_eqb a b = true -> a = b.
Proof. apply leqb_eq. apply Forall_forall. intros x _ y. apply sel_eqb_eq. Qed.
Lemma leqb_decl a b : leqb decl_eqb a b = true -> a = b.
Proof. apply leqb_eq. apply Forall_forall. intros x _ y. apply decl_eqb_eq. Qed.

Lemma leqb_forall2 {A} (eqb : A -> A -> bool) (P : A -> Prop) (a : list A) :
  Forall (fun x => forall y, eqb x y = true -> P x) a ->
  forall b, leqb eqb a b = true -> Forall P a.
Proof.
  induction 1 as [|x a Hx Ha IH]; intros [|y b]; simpl; intros H; try discriminate; constructor.
  - apply andb_true_iff in H as [H1 _]. eapply Hx; eauto.
  - apply andb_true_iff in H as [_ H2]. eapply IH; eauto.
Qed.

(* Equal is sound (it implies Leibniz equality) and never holds of anything that
   contains an @layer rule *)
Lemma rule_eqb_true : forall a b, rule_eqb a b = true -> a = b /\ no_layer a = true.
Proof.
  induction a as [s d|q body IH|t p body IH|n aid body IH|k i|i|i] using rule_ind';
    intros b H; destruct b; cbn [rule_eqb] in H; try discriminate.
  - apply andb_true_iff in H as [H1 H2]. apply leqb_sel in H1. apply leqb_decl in H2.
    subst. split; reflexivity.
  - apply andb_true_iff in H as [H1 H2]. apply Z.eqb_eq in H1. subst.
    split.
    + f_equal. eapply leqb_eq; [|exact H2].
      eapply Forall_impl; [|exact IH]. intros x Hx y Hy. apply (Hx y Hy).
    + cbn [no_layer]. apply forallb_forall. apply Forall_forall.
      eapply leqb_forall2; [|exact H2].
      eapply Forall_impl; [|exact IH]. intros x Hx y Hy. apply (Hx y Hy).
  - apply andb_true_iff in H as [H H3]. apply andb_true_iff in H as [H1 H2].
    apply Z.eqb_eq in H1, H2. subst.
    split.
    + f_equal. eapply leqb_eq; [|exact H3].
      eapply Forall_impl; [|exact IH]. intros x Hx y Hy. apply (Hx y Hy).
    + cbn [no_layer]. apply forallb_forall. apply Forall_forall.
      eapply leqb_forall2; [|exact H3].
      eapply Forall_impl; [|exact IH]. intros x Hx y Hy. apply (Hx y Hy).
  - apply andb_true_iff in H as [H1 H2]. apply Z.eqb_eq in H1, H2. subst. split; reflexivity.
  - apply Z.eqb_eq in H. subst. split; reflexivity.
Qed.

Lemma no_layer_no_stmt : forall r, no_layer r = true ->
  forall conds layer, Forall (fun it => i_stmt it = false) (flatten conds layer r).
Proof.
  induction r as [s d|q body IH|t p body IH|n aid body IH|k i|i|i] using rule_ind';
    intros H conds layer; cbn [flatten]; try (constructor; fail).
  - repeat constructor.
  - cbn [no_layer] in H. rewrite forallb_forall in H.
    apply Forall_forall. intros it Hit. apply in_flat_map in Hit as [r [Hr Hit]].
    rewrite Forall_forall in IH. specialize (IH r Hr (H r Hr) (conds ++ [q]) layer).
    rewrite Forall_forall in IH. apply IH. exact Hit.
  - cbn [no_layer] in H. rewrite forallb_forall in H.
    apply Forall_forall. intros it Hit. apply in_flat_map in Hit as [r [Hr Hit]].
    rewrite Forall_forall in IH. specialize (IH r Hr (H r Hr) (conds ++ [p]) layer).
    rewrite Forall_forall in IH. apply IH. exact Hit.
  - discriminate.
Qed.

Lemma filter_none {A} (f g : A -> bool) l : Forall (fun x => f x = false) l -> filter (fun x => f x && g x) l = [].
Proof.
  induction 1 as [|x l Hx Hl IH]; simpl; [reflexivity|]. rewrite Hx. exact IH.
Qed.

Section Dedupe.
  Variable w : world.
  (* Selectors 4: an empty :is() / :where() matches nothing *)
  Hypothesis dead_matches_nothing : forall s e, s_dead s = true -> matches w (s_id s) e = false.

  Lemma best_spec_none sels e :
    (forall s, In s sels -> matches w s e = false) -> best_spec w sels e = None.
  Proof.
    unfold best_spec. intros H. assert (G : forall acc, fold_left (fun acc s =>
      if matches w s e then match acc with None => Some (spec w s) | Some m => Some (Z.max m (spec w s)) end else acc) sels acc = acc).
    { induction sels as [|s sels IH]; intros acc; simpl; [reflexivity|].
      rewrite (H s (or_introl eq_refl)). apply IH. intros s' Hs'. apply H. right. exact Hs'. }
    apply G.
  Qed.

  Definition stmt_active (it : item) : bool := i_stmt it && conds_hold w (i_conds it).

  Lemma declared_dedupe pre conds layer rs post :
    declared w (pre ++ flatten_list conds layer (remove_dead rs) ++ post) =
    declared w (pre ++ flatten_list conds layer rs ++ post).
  Proof.
    unfold declared. rewrite !filter_app. do 2 f_equal. f_equal.
    unfold flatten_list, remove_dead. rewrite !filter_flat_map.
    apply rd_flat_map.
    - intros r Hd. destruct r; cbn in Hd; try discriminate. reflexivity.
    - intros r s He. apply rule_eqb_true in He as [_ Hn].
      apply (filter_none i_stmt (fun it => conds_hold w (i_conds it))).
      apply no_layer_no_stmt. exact Hn.
  Qed.

  (* Removing duplicate rules (keeping the last copy) and rules whose selectors
     are all dead, anywhere in a style sheet, does not change any winner. *)
  Theorem dedupe_keeps_winner_all : forall pre conds layer rs post e p,
    winner w (pre ++ flatten_list conds layer (remove_dead rs) ++ post) e p =
    winner w (pre ++ flatten_list conds layer rs ++ post) e p.
  Proof.
    intros pre conds layer rs post e p. unfold winner. rewrite declared_dedupe.
    set (D := declared w (pre ++ flatten_list conds layer rs ++ post)).
    f_equal. unfold cands. rewrite !flat_map_app, !best_app. f_equal.
    unfold flatten_list. rewrite !flat_map_flat_map, !best_flat_map.
    unfold remove_dead. apply rd_prod_nil.
    - intros r Hd. destruct r as [sels decls| | | | | |]; cbn in Hd; try discriminate.
      cbn [flatten flat_map]. rewrite app_nil_r. unfold item_cands. cbn [i_sels].
      destruct (item_active w _); [|reflexivity].
      rewrite best_spec_none; [reflexivity|].
      intros s Hs. apply in_map_iff in Hs as [ms [<- Hms]].
      apply dead_matches_nothing. rewrite forallb_forall in Hd. apply Hd. exact Hms.
    - intros r s He. apply rule_eqb_true in He as [-> _]. reflexivity.
  Qed.
End Dedupe.

(* the same pass over the declarations of one style rule *)
Theorem dedupe_decls_keeps_winner_all : forall w pre stmt conds layer sels ds post e p,
  winner w (pre ++ [mkItem stmt conds layer sels (remove_dead_decls ds)] ++ post) e p =
  winner w (pre ++ [mkItem stmt conds layer sels ds] ++ post) e p.
Proof.
  intros w pre stmt conds layer sels ds post e p. unfold winner.
  assert (HD : declared w (pre ++ [mkItem stmt conds layer sels (remove_dead_decls ds)] ++ post) =
               declared w (pre ++ [mkItem stmt conds layer sels ds] ++ post)).
  { unfold declared. rewrite !filter_app. cbn [filter i_stmt i_conds]. 
    destruct (stmt && conds_hold w conds); rewrite !map_app; reflexivity. }
  rewrite HD. set (D := declared w _).
  f_equal. unfold cands. rewrite !flat_map_app, !best_app. f_equal. f_equal.
  cbn [flat_map]. rewrite !app_nil_r. unfold item_cands. cbn [i_sels i_decls i_layer].
  destruct (item_active w (mkItem stmt conds layer sels (remove_dead_decls ds))) eqn:EA.
  - assert (EA' : item_active w (mkItem stmt conds layer sels ds) = true) by exact EA.
    rewrite EA'. destruct (best_spec w sels e) as [sp|]; [|reflexivity].
    set (h := fun d : decl => if (d_prop d =? p) && val_understood w (d_syn d)
                              then [(strength D (d_imp d) layer sp, d_val d)] else []).
    assert (HM : forall l, map (fun d => (strength D (d_imp d) layer sp, d_val d))
                   (filter (fun d => (d_prop d =? p) && val_understood w (d_syn d)) l) = flat_map h l).
    { induction l as [|d l IH]; [reflexivity|]. cbn [filter flat_map]. unfold h at 1.
      destruct ((d_prop d =? p) && val_understood w (d_syn d)); cbn [map app]; rewrite IH; reflexivity. }
    rewrite !HM, !best_flat_map. unfold remove_dead_decls.
    pose proof (rd_prod_nil decl_eqb (fun _ => false) (fun _ => true) (fun d => best (h d))
                 ltac:(intros; discriminate)
                 ltac:(intros r s He; apply decl_eqb_eq in He; subst; reflexivity) ds None) as H.
    rewrite !join_none_r in H. exact H.
  - assert (EA' : item_active w (mkItem stmt conds layer sels ds) = false) by exact EA.
    rewrite EA'. reflexivity.
Qed.
