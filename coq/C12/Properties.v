(* C12 property theorems. This file contains only statements closed by
   [exact lemma] and Print Assumptions. *)
From V Require Import Common.Base C12.Hex C12.ColorSpec C12.HexProofs gen.ColorTablesGen C12.TablesProofs.

(* compactHex undoes expandHex on every 16-bit value (0xABCD -> 0xAABBCCDD -> 0xABCD) *)
Theorem hex_compact_roundtrip : forall v, 0 <= v < 2 ^ 16 -> compactHex (expandHex v) = v.
Proof. exact hex_compact_roundtrip_all. Qed.
Print Assumptions hex_compact_roundtrip.

(* every entry of shortColorName (regenerated from source) maps back, through
   colorNameToHex, to the hex value it abbreviates *)
Theorem color_names_consistent :
  forall h n, assoc_z h shortColorName = Some n -> assoc_l n colorNameToHex = Some h.
Proof. exact color_names_consistent_all. Qed.
Print Assumptions color_names_consistent.

(* whatever notation tryToGenerateColor picks (short name, #rgb, #rrggbb, #rgba,
   #rrggbbaa, rgba()) denotes, under the CSS Color 4 reading of hex notations
   and named colours, exactly the RGBA value it was given: all 2^32 values,
   with and without minification, with and without #rrggbbaa support *)
Theorem generate_color_value : forall minify unsupported hex,
  0 <= hex < 2 ^ 32 ->
  spec_color_value colorNameToHex (generate_color shortColorName minify unsupported hex) = Some hex.
Proof. exact generate_color_value_tables. Qed.
Print Assumptions generate_color_value.
