(* C12 property theorems. This file contains only statements closed by
   [exact lemma] and Print Assumptions. *)
From V Require Import Common.Base C12.Hex C12.ColorSpec C12.HexProofs gen.ColorTablesGen C12.TablesProofs.
From V Require Import C12.Cascade C12.CascadeProofs C12.Mangle C12.MangleProofs C12.MergeProofs C12.MangleRulesProofs C12.LayerCollapse C12.MangleTreeProofs.
From V Require Import C12.NumberCss C12.NumberSpec C12.NumberProofs C12.ShiftProofs.

(* compactHex undoes expandHex on every 16-bit value (0xABCD -> 0xAABBCCDD -> 0xABCD) *)
Theorem hex_compact_roundtrip : forall v, 0 <= v < 2 ^ 16 -> compactHex (expandHex v) = v.
Proof. exact hex_compact_roundtrip_all. Qed.
Print Assumptions hex_compact_roundtrip.

(* every entry of shortColorName (regenerated from source) maps back, through
   colorNameToHex, to the hex value it abbreviates *)
Theorem color_names_consistent :
  forall h n, assoc_z h shortColorName = Some n -> assoc_l n colorNameToHex = Some h.
Proof. exact color_names_consistent_all. Qed.
Print Assumptions color_names_consistent.

(* whatever notation tryToGenerateColor picks (short name, #rgb, #rrggbb, #rgba,
   #rrggbbaa, rgba()) denotes, under the CSS Color 4 reading of hex notations
   and named colours, exactly the RGBA value it was given: all 2^32 values,
   with and without minification, with and without #rrggbbaa support *)
Theorem generate_color_value : forall minify unsupported hex,
  0 <= hex < 2 ^ 32 ->
  spec_color_value colorNameToHex (generate_color shortColorName minify unsupported hex) = Some hex.
Proof. exact generate_color_value_tables. Qed.
Print Assumptions generate_color_value.

(* RemoveDeadRulesInPlace (drop every rule that is structurally equal to a later
   sibling, drop rules whose selectors all contain an empty :is()/:where()),
   applied to a rule list anywhere in a style sheet (any enclosing conditions
   and layer, anything before and after), changes no winner: every world
   (condition truth, understood selectors and values, matching, specificity),
   every element, every property.  The only assumption is the Selectors-4 fact
   that a dead selector matches nothing. *)
Theorem dedupe_keeps_winner : forall w,
  (forall s e, s_dead s = true -> matches w (s_id s) e = false) ->
  forall pre conds layer rs post e p,
  winner w (pre ++ flatten_list conds layer (remove_dead rs) ++ post) e p =
  winner w (pre ++ flatten_list conds layer rs ++ post) e p.
Proof. exact dedupe_keeps_winner_all. Qed.
Print Assumptions dedupe_keeps_winner.

(* the same pass over the declarations of one rule (duplicate declarations) *)
Theorem dedupe_decls_keeps_winner : forall w pre stmt conds layer sels ds post e p,
  winner w (pre ++ [mkItem stmt conds layer sels (remove_dead_decls ds)] ++ post) e p =
  winner w (pre ++ [mkItem stmt conds layer sels ds] ++ post) e p.
Proof. exact dedupe_decls_keeps_winner_all. Qed.
Print Assumptions dedupe_decls_keeps_winner.

(* the linker's loop (one remover shared by all files, last file first) is one
   pass over the concatenation of the top-level rule lists *)
Theorem dedupe_calls_concat : forall (a b seen : list rule),
  rd rule_eqb all_dead hashable (a ++ b) seen =
  let '(kb, sb) := rd rule_eqb all_dead hashable b seen in
  let '(ka, sa) := rd rule_eqb all_dead hashable a sb in (ka ++ kb, sa).
Proof. exact (rd_app rule_eqb all_dead hashable). Qed.
Print Assumptions dedupe_calls_concat.

(* "a {D} b {D}" => "a, b {D}" (adjacent rules, equal bodies; selectors already
   present are not repeated) changes no winner in any world that understands
   every selector of the two rules - which is what isSafeSelectors is for *)
Theorem adjacent_merge_keeps_winner : forall w pre conds layer s1 s2 ds post e p,
  (forall s, In s (s1 ++ s2) -> sel_understood w (s_id s) = true) ->
  winner w (pre ++ [mkItem false conds layer (map s_id (merge_sels s1 s2)) ds] ++ post) e p =
  winner w (pre ++ [mkItem false conds layer (map s_id s1) ds; mkItem false conds layer (map s_id s2) ds] ++ post) e p.
Proof. exact adjacent_merge_keeps_winner_all. Qed.
Print Assumptions adjacent_merge_keeps_winner.

(* mangleRules as a whole on one rule list - empty-rule removal, layer
   collapsing ("@layer a { @layer b {X} }" => "@layer a.b {X}"), unwrapping of a
   nested @media that repeats an enclosing one, adjacent merging (declarations
   only, fix 5a4c9dc) with the prevNonComment bookkeeping, then duplicate
   removal when not at top level - in any context whose conditions include the
   enclosing @media queries, in every world where the selectors esbuild calls
   safe are understood and dead selectors match nothing: every winner is
   unchanged.  (Replaces mangle_rules_keeps_winner_partial: no rule list is
   excluded any more.) *)
Theorem mangle_rules_keeps_winner : forall w conds layer encl,
  (forall q, In q encl -> In q conds) ->
  (forall s, s_safe s = true -> sel_understood w (s_id s) = true) ->
  (forall s e, s_dead s = true -> matches w (s_id s) e = false) ->
  forall rules top pre post e p,
  winner w (pre ++ flatten_list conds layer (mangle_rules encl rules top) ++ post) e p =
  winner w (pre ++ flatten_list conds layer rules ++ post) e p.
Proof. exact mangle_rules_keeps_winner_all. Qed.
Print Assumptions mangle_rules_keeps_winner.

(* THE WHOLE RULE TREE.  mangle_sheet is the minifier pass over a complete style
   sheet as the parser and the linker perform it: every nested rule list
   (@media / @supports / @container / @layer bodies, to any depth) is mangled
   children first with the @media rules enclosing it, every style rule loses
   duplicate selectors and duplicate declarations, and the cross-file duplicate
   removal runs over the top level.  For every sheet (all rule kinds of the
   model: style rules with declarations, @media, @supports/@container, @layer
   statements and blocks incl. anonymous, opaque at-rules, comments, imports),
   every element, every property and every world (truth of every condition,
   understood value syntaxes, matching, specificity) in which safe selectors are
   understood and dead selectors match nothing, the cascade winner is unchanged.
   Not in the model (oracle only): style rules with nested rules, @scope. *)
Theorem mangle_sheet_keeps_winner : forall w,
  (forall s, s_safe s = true -> sel_understood w (s_id s) = true) ->
  (forall s e, s_dead s = true -> matches w (s_id s) e = false) ->
  forall rules e p,
  winner w (flatten_list [] [] (mangle_sheet rules)) e p = winner w (flatten_list [] [] rules) e p.
Proof. exact mangle_sheet_keeps_winner_all. Qed.
Print Assumptions mangle_sheet_keeps_winner.

(* the layer-order lemma behind layer collapsing: a layer statement immediately
   followed by a statement for an extension of its path, under the same
   conditions, is redundant (the declared list loses one entry, positions shift,
   no comparison of two strengths changes) *)
Theorem layer_statement_prefix_redundant : forall w conds p n pre post e pr,
  winner w (pre ++ [stmt_item conds (p ++ n)] ++ post) e pr =
  winner w (pre ++ [stmt_item conds p; stmt_item conds (p ++ n)] ++ post) e pr.
Proof. exact stmt_prefix_redundant. Qed.
Print Assumptions layer_statement_prefix_redundant.

(* mangleNumber keeps the exact value (CSS Syntax 3 "convert a string to a
   number", as an exact pair m * 10^e) of every CSS number token: every sign,
   integer part, fractional part and exponent allowed by the <number-token>
   grammar (after fix 4a7b5a3, numbers with an exponent included) *)
Theorem mangle_number_value : forall sg ip fo x, wf_num sg ip fo x ->
  exists v v', css_number_value (render sg ip fo x) = Some v /\
               css_number_value (fst (mangleNumber (render sg ip fo x))) = Some v' /\ qeq v v'.
Proof. exact mangle_number_value_all. Qed.
Print Assumptions mangle_number_value.

(* shiftDot (used to turn "ms" into "s" and back) multiplies the exact value by
   10^offset for every number without exponent - every sign, integer part and
   fractional part, all-zero numbers included (fix 0f05885) - and the result is
   again a CSS number *)
Theorem shift_dot_value : forall sg ip fo k, wf_num sg ip fo NoExp ->
  exists s' v', shiftDot (render sg ip fo NoExp) k = Some s' /\
    css_number_value s' = Some v' /\
    qeq v' (sgv sg * digits_val (ip ++ frac_digits fo), - Z.of_nat (length (frac_digits fo)) + k).
Proof. exact shift_dot_value_all. Qed.
Print Assumptions shift_dot_value.

From V Require Import C12.ImportOrder.
(* isConditionalImportRedundant is sound: when it answers true, the later copy of
   the imported file applies in every environment in which the earlier one
   applies (truth of supports() / media conditions arbitrary), and it sits in
   the same layers along the later chain *)
Theorem redundant_condition_sound : forall supp_true media_true earlier later,
  redundant earlier later = true ->
  (chain_holds supp_true media_true earlier = true -> chain_holds supp_true media_true later = true) /\
  map ic_layer (firstn (length later) earlier) = map ic_layer later.
Proof. exact redundant_sound_all. Qed.
Print Assumptions redundant_condition_sound.

From V Require Import C12.Box C12.BoxTracker C12.BoxSpec C12.BoxMain C12.DedupeSpec.
(* BOX SHORTHAND COLLAPSING (replaces box_collapse_same_sides_partial).
   box_process is the faithful model of the margin / padding / inset tracking in
   processDeclarations (boxTracker: sides with ruleIndex and wasSingleRule, the
   important flag, unit-safety status, updateSide's blanking, compactRules,
   final compaction of blanked rules; tied to the Go code by box_cases).
   For EVERY declaration list (keys well-typed: a longhand names one of the four
   sides), for both trackers that allow / forbid auto, with and without
   compaction (inset with the shorthand unsupported), in EVERY browser
   environment (which non-safe units, which unitless numbers, which opaque
   var()/keyword declarations it accepts) and for every side:
   the cascaded value of the side (last valid !important declaration, else last
   valid normal one; 0px = 0, auto case-insensitive) is the same before and
   after. *)
Theorem box_collapse_keeps_sides : forall aa cc l, wf_keys l -> forall e s,
  side_value e aa (box_process aa cc false l) s = side_value e aa l s.
Proof. exact box_collapse_keeps_sides_all. Qed.
Print Assumptions box_collapse_keeps_sides.

(* stronger: each importance layer separately *)
Theorem box_collapse_keeps_layers : forall aa cc l, wf_keys l -> forall e imp s,
  layer e aa imp s (box_process aa cc false l) = layer e aa imp s l.
Proof. exact box_layers_all. Qed.
Print Assumptions box_collapse_keeps_layers.

(* every declaration of another property survives, unchanged and in the same relative order *)
Theorem box_collapse_keeps_others : forall aa cc l, wf_keys l ->
  filter is_other (box_process aa cc false l) = filter is_other l.
Proof. exact box_collapse_keeps_others_all. Qed.
Print Assumptions box_collapse_keeps_others.

(* With the lowering of `inset` to four longhands (lower = true) the statement is
   FALSE of the faithful model: a browser that rejects one value drops the whole
   shorthand of the input but only one longhand of the output (known finding
   C12-I, by design upstream; the witness is replayed from the fixed corpus:
   a{bottom:3px;inset:2vw 1em 10% 0px;bottom:1vw} for firefox65). *)
Theorem box_collapse_keeps_sides_lowering_refuted : exists e l s, wf_keys l /\
  side_value e true (box_process true false true l) s <> side_value e true l s.
Proof. exact box_lowering_refuted_witness. Qed.
Print Assumptions box_collapse_keeps_sides_lowering_refuted.

(* the quad core: what compactTokenQuad writes re-expands to the same four sides, and is shortest *)
Theorem box_quad_roundtrip : forall q, expand_quad (compact_quad q) = Some q.
Proof. exact box_quad_roundtrip_all. Qed.
Print Assumptions box_quad_roundtrip.

Theorem box_collapse_shortest : forall q l, expand_quad l = Some q -> (length (compact_quad q) <= length l)%nat.
Proof. exact box_quad_shortest_all. Qed.
Print Assumptions box_collapse_shortest.

From V Require Import C12.RadiusTracker C12.RadiusSpec C12.RadiusMain.
(* BORDER-RADIUS COLLAPSING.  radius_process is the faithful model of the
   border-radius tracking in processDeclarations (borderRadiusTracker: four
   corners each with two radii, ruleIndex and wasSingleRule, the important flag,
   unit-safety status, updateCorner's blanking, mangleCorners with the optional
   "/ vertical radii" list, mangleCorner's in-place rewrite (0px -> 0, two equal
   radii merged into one, the second radius copied before the rewrite),
   compactRules writing "h{1,4}" or "h{1,4} / v{1,4}" at the greatest tracked
   index; tied to the Go code by radius_cases).  The specification rsets /
   corner_value is written from CSS Backgrounds 3: a corner has a horizontal and
   a vertical radius, a missing second value or second list repeats the first.
   For EVERY declaration list (keys well-typed), in EVERY browser environment
   (which non-safe units, which unitless numbers, which opaque declarations it
   accepts) and for every corner: the cascaded value of the corner (last valid
   !important declaration, else last valid normal one; both radii; 0px = 0) is
   the same before and after. *)
Theorem radius_collapse_keeps_corners : forall l, wf_keys l -> forall e c,
  corner_value e (radius_process l) c = corner_value e l c.
Proof. exact radius_collapse_keeps_corners_all. Qed.
Print Assumptions radius_collapse_keeps_corners.

(* stronger: each importance layer separately *)
Theorem radius_collapse_keeps_layers : forall l, wf_keys l -> forall e imp c,
  rlayer e imp c (radius_process l) = rlayer e imp c l.
Proof. exact radius_layers_all. Qed.
Print Assumptions radius_collapse_keeps_layers.

(* every declaration of another property survives, unchanged and in the same relative order *)
Theorem radius_collapse_keeps_others : forall l, wf_keys l ->
  filter is_other (radius_process l) = filter is_other l.
Proof. exact radius_collapse_keeps_others_all. Qed.
Print Assumptions radius_collapse_keeps_others.

From V Require Import C12.Nesting C12.NestingProofs C12.NestingFree C12.NestingExpand.
(* NESTING LOWERING, the branch that may use :is() (or has at most one parent
   selector).  lower_is is the faithful model of lowerNestingInRuleWithContext
   pass 1 (the implicit "&" of relative selectors) and pass 2
   (substituteAmpersandsInCompoundSelector with the replacement made by
   multipleComplexSelectorsToSingleComplexSelector: splicing the parent's
   leading compounds, merging its last compound, :is(type) for a second type
   selector, :is(parent) where a combinator or a longer parent forbids merging,
   recursion into :is()/:not() arguments; tied to the Go code by nest_cases).
   Selectors: types, classes, the four combinators, :is()/:not() nested
   arbitrarily, "&" anywhere.  For EVERY element structure (any finite set of
   elements with arbitrary type/class assignment and arbitrary meaning of the
   four combinators as relations to sets of elements), every parent selector
   list without leading combinators, every nested selector and every element:
   the element matches the lowered selector iff it matches the nested selector
   read as CSS Nesting 1 prescribes - a relative selector starts with an
   implicit "&", and "&" stands for the elements matched by :is(parent list).
   The lowered selector contains no "&" (nesting_lowering_is_amp_free), so it
   is evaluated with an arbitrary meaning A' of "&". *)
Theorem nesting_lowering_is_preserves_matching : forall D parents cx A', parents_ok parents = true ->
  forall x, matches D A' (lower_is parents cx) x = matches D (parent_set D parents) (inject_amp cx) x.
Proof. exact lower_is_matching_any. Qed.
Print Assumptions nesting_lowering_is_preserves_matching.

Theorem nesting_lowering_is_amp_free : forall parents cx, parents_ok parents = true -> has_amp_x (lower_is parents cx) = false.
Proof. exact lower_is_amp_free. Qed.
Print Assumptions nesting_lowering_is_amp_free.

(* The cross-product branch, the part that HOLDS: when no "&" of the nested
   selector sits inside a pseudo-class argument (top_only; then the shared
   pseudo-class nodes play no role), the element matches SOME selector of the
   cross product iff it matches the nested selector per CSS Nesting - in every
   element structure whose combinator relations distribute over unions of sets
   (every existential relation does), in particular in every forest
   (nesting_lowering_expand_preserves_matching_forest).  Partial: one selector in
   the nested rule's list (the Go loop pads the index vectors of the shorter
   selectors of a list; that only duplicates selectors), and top_only. *)
Theorem nesting_lowering_expand_preserves_matching_partial : forall D,
  (forall k (f : nat -> nat -> bool) (l : list nat) z,
     d_rel D k (tab (size D) (fun y => existsb (fun i => f i y) l)) z = existsb (fun i => d_rel D k (tab (size D) (f i)) z) l) ->
  forall parents cx A', parents_ok parents = true -> parents <> LNil -> top_only (inject_amp cx) = true ->
  forall x, (x < size D)%nat ->
  existsb (fun s => matches D A' s x) (lower_expand parents (LCons cx LNil)) =
  matches D (parent_set D parents) (inject_amp cx) x.
Proof. exact lower_expand_matching. Qed.
Print Assumptions nesting_lowering_expand_preserves_matching_partial.

Theorem nesting_lowering_expand_preserves_matching_forest : forall d parents cx A',
  parents_ok parents = true -> parents <> LNil -> top_only (inject_amp cx) = true ->
  forall x, (x < length d)%nat ->
  existsb (fun s => matches (tree_dom d) A' s x) (lower_expand parents (LCons cx LNil)) =
  matches (tree_dom d) (parent_set (tree_dom d) parents) (inject_amp cx) x.
Proof. exact lower_expand_matching_tree. Qed.
Print Assumptions nesting_lowering_expand_preserves_matching_forest.

(* The cross-product branch (several parents, target without :is()).  lower_expand
   models the index-vector loop literally, including the pseudo-class nodes shared
   between the rounds (tied by nestx_cases).  Of this faithful model the matching
   statement is FALSE (known finding C12-N; replayed from the fixed corpus as
   `a, b { :not(&).c1 { color: red } }` / `:is(&, i)` for firefox70): an "&" inside
   a pseudo-class argument is replaced by the first parent in every copy, so
   `div, a { :not(&).c1 {} }` becomes `:not(div).c1, :not(div).c1`, which matches an
   element a.c1 that the nested rule excludes (the replayed witness); likewise
   `a, b { :is(&, span) {} }` becomes `:is(a, span), :is(a, span)` and an element b,
   matched by the nested rule, is matched by no lowered selector
   (NestingProofs.expand_amp_in_pseudo_arg_witness). *)
Theorem nesting_lowering_expand_preserves_matching_refuted :
  exists (d : list node) parents cx x, parents_ok parents = true /\
    existsb (fun s => matches (tree_dom d) [] s x) (lower_expand parents (LCons cx LNil))
    <> matches (tree_dom d) (parent_set (tree_dom d) parents) (inject_amp cx) x.
Proof.
  exists wN2_doc, wN2_parents, wN2_child, 0%nat. split; [reflexivity|].
  destruct expand_not_amp_witness as [_ [H1 H2]]. cbv zeta in H1, H2. rewrite H1, H2. discriminate.
Qed.
Print Assumptions nesting_lowering_expand_preserves_matching_refuted.

(* ... and the specificity statement is false too (known finding C12-L, by design
   upstream; replayed as `div, #i9 { > a {...} }` for chrome60): natively "&" has
   the specificity of :is(parent list), i.e. of its most specific member; in the
   cross product every copy has the specificity of the parent it was built from:
   `div, .c1 { > a {} }` -> `div > a` (0,0,2) and `.c1 > a` (0,1,1), natively (0,1,1). *)
Theorem nesting_lowering_expand_preserves_specificity_refuted :
  exists parents cx s, parents_ok parents = true /\ In s (lower_expand parents (LCons cx LNil)) /\
    spec_x s <> native_spec parents cx.
Proof.
  exists wL_parents, wL_child, (XCons (Cp 0 false (Some 3) SNil) (XCons (Cp 1 false (Some 1) SNil) XNil)).
  split; [reflexivity|]. split; [left; reflexivity|]. vm_compute. discriminate.
Qed.
Print Assumptions nesting_lowering_expand_preserves_specificity_refuted.

From V Require Import C12.HslSpec C12.HslModel.
(* hsl() / hwb() TO sRGB.  HslSpec.v is the CSS Color 4 conversion (sample code of
   sections 7.1 and 8.1: hue taken modulo 360 for ANY number of turns, positive or
   negative; percentages clamped) in exact rationals; HslModel.v mirrors
   hslToRgb / hueToRgb / hwbToRgb of css_decls_color.go (hue - floor(hue)).  Both
   are compared with the bytes esbuild prints by hslrgb_cases (hues over many
   turns in number / deg / grad / turn form, percentages at and beyond the
   boundaries).  Partial: model = spec is proved on a grid (every multiple of 30
   degrees over six turns, hues next to the breakpoints and turn boundaries,
   percentages -10, 0, 30, 50, 70, 100), not for all rationals. *)
Theorem hsl_to_rgb_is_spec_partial : forall h s l, In h hue_grid -> In s pct_grid -> In l pct_grid ->
  rgb_eqb (model_hsl (QArith_base.inject_Z h) (QArith_base.inject_Z s) (QArith_base.inject_Z l)) (hsl_spec (QArith_base.inject_Z h) (QArith_base.inject_Z s) (QArith_base.inject_Z l)) = true.
Proof. exact hsl_grid_all. Qed.
Print Assumptions hsl_to_rgb_is_spec_partial.

Theorem hwb_to_rgb_is_spec_partial : forall h w k, In h hue_grid -> In w pct_grid -> In k pct_grid ->
  rgb_eqb (model_hwb (QArith_base.inject_Z h) (QArith_base.inject_Z w) (QArith_base.inject_Z k)) (hwb_spec (QArith_base.inject_Z h) (QArith_base.inject_Z w) (QArith_base.inject_Z k)) = true.
Proof. exact hwb_grid_all. Qed.
Print Assumptions hwb_to_rgb_is_spec_partial.

(* DUPLICATE DECLARATIONS AT A DISTANCE.  The back-to-front duplicate removal over
   a declaration list keeps exactly the LAST occurrence of every declaration,
   where identity includes the property, the value and !important: a declaration
   is dropped if and only if an identical declaration occurs later in the same
   list - never because of a later non-identical declaration of the same
   property, whatever lies in between. *)
Theorem dedupe_is_keep_last : forall ds, remove_dead_decls ds = keep_last decl_eqb ds.
Proof. exact dedupe_is_keep_last_all. Qed.
Print Assumptions dedupe_is_keep_last.

(* in particular a declaration without an identical later copy is never dropped,
   whatever other declarations of the same property (other value, other
   importance) follow it *)
Theorem dedupe_keeps_unrepeated : forall ds1 d ds2,
  existsb (decl_eqb d) ds2 = false -> In d (remove_dead_decls (ds1 ++ d :: ds2)).
Proof. exact dedupe_keeps_last_occurrence. Qed.
Print Assumptions dedupe_keeps_unrepeated.

(* the alpha text of the rgba() fallback (table regenerated from source) reads
   back as the same alpha byte, for all 256 bytes (finite sweep) *)
Theorem alpha_table_roundtrip : forall a, 0 <= a < 256 -> alpha_ok a = true.
Proof. exact alpha_table_roundtrip_all. Qed.
Print Assumptions alpha_table_roundtrip.

From V Require Import gen.CssPrefixGen.
(* prefix insertion (insertPrefixedDeclaration, which overwrites the last rule and
   appends one) is only ever applied to the keys of cssPrefixTable (regenerated
   from source); none of them is a property of the box / border-radius trackers
   (DMargin* DPadding* DInset DTop DRight DBottom DLeft DBorder*Radius), so for the
   trackers it is an "other property" step and cannot move, duplicate or blank a
   tracked declaration *)
Theorem prefix_table_disjoint_from_trackers :
  forall p, In p cssPrefixedProps -> existsb (zlist_eqb p) trackedProps = false.
Proof. exact prefix_table_disjoint_from_trackers_all. Qed.
Print Assumptions prefix_table_disjoint_from_trackers.

(* PERCENTAGE REFERENCE RANGES of lab()/lch()/oklab()/oklch()/color().  The full
   statement "forall fn comp, model_pct_ref fn comp = spec_pct_ref fn comp" is
   FALSE of the faithful model: the chroma of lch() is resolved against 125, CSS
   Color 4 says 150 (known finding C12-Q; witness a{color:lch(60% 40% 120)} is
   replayed from the corpus, it changes the rendered colour). Everything else agrees. *)
Theorem pct_reference_lch_chroma_refuted : model_pct_ref 2 1 <> spec_pct_ref 2 1.
Proof. exact pct_reference_lch_chroma_refuted_all. Qed.
Print Assumptions pct_reference_lch_chroma_refuted.

Theorem pct_reference_ranges_partial : forall fn comp,
  1 <= fn <= 5 -> 0 <= comp <= 2 ->
  ~ (fn = 2 /\ comp = 1) -> model_pct_ref fn comp = spec_pct_ref fn comp.
Proof. exact pct_reference_ranges_partial_all. Qed.
Print Assumptions pct_reference_ranges_partial.
