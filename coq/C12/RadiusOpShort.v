(* borderRadius.mangleCorners (the shorthand) preserves the semantics and the invariant. *)
From V Require Import Common.Base C12.Mangle C12.BoxTracker C12.BoxSpec C12.BoxLemmas C12.BoxTokens C12.BoxSem C12.BoxCompact
  C12.BoxInv C12.BoxOpCompact C12.BoxOpSide C12.BoxOpShort C12.GenSem C12.RadiusTracker C12.RadiusSpec C12.RadiusInv
  C12.RadiusOpCompact C12.RadiusOpCorner.

Lemma update_corner_brel (P : nat -> Prop) rs tr c new :
  (forall o, rt_corners tr c = Some o ->
     (negb (rc_single new) || rc_single o) && us_safe (rc_us o) && us_safe (rc_us new) = true ->
     (rc_idx o < length rs)%nat -> P (rc_idx o)) ->
  brel P rs (fst (update_corner rs tr c new)).
Proof.
  intros HP. unfold update_corner. cbn [fst].
  destruct (rt_corners tr c) as [o|] eqn:Eo; [|split; auto].
  destruct ((negb (rc_single new) || rc_single o) && us_safe (rc_us o) && us_safe (rc_us new)) eqn:Ec; [|split; auto].
  split; [apply set_nth_length|]. intros j. rewrite nth_set_nth.
  destruct (Nat.eqb_spec j (rc_idx o)) as [->|Hne]; cbn [andb]; [|left; reflexivity].
  destruct (rc_idx o <? length rs)%nat eqn:El; [|left; reflexivity].
  right. split; [reflexivity|]. apply (HP o eq_refl Ec). apply Nat.ltb_lt. exact El.
Qed.

Lemma trk_false_numeric l : forallb (trk false) l = true -> forallb is_numeric l = true.
Proof.
  intros H. rewrite forallb_forall in *. intros t Ht. specialize (H t Ht). unfold trk in H.
  destruct t; cbn in *; try discriminate; reflexivity.
Qed.

Lemma stat_false_fold T : fold_left include_unit T USafe = stat false T.
Proof. reflexivity. Qed.

(* the four updateCorner calls, followed by any tracker that holds the expected eight tokens *)
Lemma corners_core rs0 tr1 imp l before aft q1 q2 :
  rtrinv rs0 tr1 -> rt_imp tr1 = imp ->
  split_slash l = (before, aft) ->
  forallb is_numeric before = true -> forallb is_numeric (second_list before aft) = true ->
  spec_expand before = Some q1 -> spec_expand (second_list before aft) = Some q2 ->
  let d := mkB KShort l imp in
  let rs1 := rs0 ++ [Some d] in
  let T := before ++ match aft with Some a => a | None => [] end in
  let us := stat false T in
  let tt := fun t => if us_safe us then turn t else t in
  let st4 := corners4 rs1 tr1 (fun c => mkC (tt (qnth q1 c)) (tt (qnth q1 c)) us (length rs0) false) in
  forall tr2, rt_imp tr2 = imp ->
    (forall c, rt_corners tr2 c = if (c <? 4)%nat then Some (mkC (tt (qnth q1 c)) (tt (qnth q2 c)) us (length rs0) false)
                                  else rt_corners tr1 c) ->
    rsem_eq rs1 (fst st4) /\ rtrinv (fst st4) tr2.
Proof.
  intros [HC HE] Himp1 Hsp Hb Ha H1 H2 d rs1 T us tt st4 tr2 Himp2 Htr2.
  assert (HL1 : length rs1 = S (length rs0)) by (unfold rs1; rewrite app_length; cbn; lia).
  assert (HTnum : forallb is_numeric T = true).
  { unfold T. rewrite forallb_app, Hb. destruct aft as [a|]; [exact Ha | reflexivity]. }
  assert (HokT : forall e, forallb (rok e) T = rvalid e d).
  { intros e. unfold d. rewrite (rvalid_short e l imp before aft) by assumption. unfold T. rewrite forallb_app.
    destruct aft as [a|]; cbn [second_list forallb]; [reflexivity|]. rewrite andb_true_r. destruct (forallb (rok e) before); reflexivity. }
  assert (Hin1 : forall k, (k < 4)%nat -> In (qnth q1 k) T).
  { intros k Hk. unfold T. apply in_or_app. left.
    destruct before as [|a [|b [|c [|d0 [|]]]]]; cbn in H1; inversion H1; subst q1; destruct k as [|[|[|[|]]]]; try lia; cbn; auto. }
  assert (Hin2 : forall k, (k < 4)%nat -> In (qnth q2 k) T).
  { intros k Hk. unfold T. destruct aft as [a|]; cbn [second_list] in H2.
    - apply in_or_app. right.
      destruct a as [|a0 [|b [|c [|d0 [|]]]]]; cbn in H2; inversion H2; subst q2; destruct k as [|[|[|[|]]]]; try lia; cbn; auto.
    - rewrite H1 in H2. inversion H2; subst q2. apply Hin1. exact Hk. }
  assert (Htt : forall t, In t T -> is_numeric (tt t) = true /\ norm (tt t) = norm t /\ forall e, rok e (tt t) = rok e t).
  { intros t Ht. apply (safe_turn T t HTnum Ht). }
  set (new := fun c => mkC (tt (qnth q1 c)) (tt (qnth q1 c)) us (length rs0) false).
  (* blanked entries: rules of tracked corners, when both statuses are safe *)
  set (P := fun j => us_safe us = true /\ exists k o, (k < 4)%nat /\ rt_corners tr1 k = Some o /\ j = rc_idx o /\ us_safe (rc_us o) = true).
  assert (HP : forall k rs tr', (k < 4)%nat -> rt_corners tr' k = rt_corners tr1 k ->
            brel P rs (fst (update_corner rs tr' k (new k)))).
  { intros k rs tr' Hk Hsame. apply update_corner_brel. intros o Ho Hc _. rewrite Hsame in Ho.
    apply andb_true_iff in Hc as [Hc Hc3]. apply andb_true_iff in Hc as [_ Hc2]. cbn [new rc_us] in Hc3.
    split; [exact Hc3|]. exists k, o. repeat split; assumption. }
  set (st1 := update_corner rs1 tr1 0%nat (new 0%nat)).
  set (st2 := update_corner (fst st1) (snd st1) 1%nat (new 1%nat)).
  set (st3 := update_corner (fst st2) (snd st2) 2%nat (new 2%nat)).
  assert (Est4 : st4 = update_corner (fst st3) (snd st3) 3%nat (new 3%nat)) by reflexivity.
  assert (Hbr : brel P rs1 (fst st4)).
  { rewrite Est4. eapply brel_trans; [eapply brel_trans; [eapply brel_trans|]|].
    - apply (HP 0%nat rs1 tr1); [lia | reflexivity].
    - apply (HP 1%nat (fst st1) (snd st1)); [lia | reflexivity].
    - apply (HP 2%nat (fst st2) (snd st2)); [lia | reflexivity].
    - apply (HP 3%nat (fst st3) (snd st3)); [lia | reflexivity]. }
  destruct Hbr as [HL4 Hpt4].
  assert (HPlt : forall j, P j -> (j < length rs0)%nat /\ exists r, nth_error rs0 j = Some (Some r)).
  { intros j [_ [k [o [Hk [Ho [-> _]]]]]]. pose proof (HC k o Ho) as Tk. split; [apply (rtracked_lt rs0 _ _ _ Tk)|].
    destruct Tk as [r]. exists r; assumption. }
  assert (Hlast4 : nth_error (fst st4) (length rs0) = Some (Some d)).
  { destruct (Hpt4 (length rs0)) as [E|[_ Pj]].
    - rewrite E. unfold rs1. rewrite nth_error_app2 by lia. rewrite Nat.sub_diag. reflexivity.
    - destruct (HPlt _ Pj). lia. }
  assert (Hdshape : forall c, rshape d c false (qnth q1 c) (qnth q2 c)).
  { intros c. exists before, aft, q1, q2. repeat split; assumption. }
  assert (Hdvalid : us_safe us = true -> forall e c, (c < 4)%nat -> rsets e d c = Some (RV (norm (qnth q1 c)) (norm (qnth q2 c)))).
  { intros Es e c Hc. destruct (rshape_facts d c false _ _ Hc (Hdshape c)) as [_ [_ [_ [F4 _]]]]. rewrite F4.
    assert (Eu : us = USafe) by (destruct us; try discriminate; reflexivity).
    assert (HM : stat false T <> UMixed) by (fold us; rewrite Eu; discriminate).
    rewrite <- HokT, (stat_numeric_valid e T HTnum HM). fold us. rewrite Eu. reflexivity. }
  split.
  - apply (gblank_preserves rval rsets rsets_affects); [exact HL4 | rewrite HL1; replace (S (length rs0) - 1)%nat with (length rs0) by lia; rewrite Hlast4; unfold rs1; rewrite nth_error_app2 by lia; rewrite Nat.sub_diag; reflexivity |].
    intros j. destruct (Hpt4 j) as [E|[E Pj]]; [left; exact E|]. right. split; [exact E|].
    destruct Pj as [Es [k [o [Hk [Ho [-> Uo]]]]]]. pose proof (HC k o Ho) as Tk.
    destruct (rtracked_rule rs0 _ _ _ Tk) as [r [Hr [F1 [F2 [_ [F4 _]]]]]].
    exists r. split; [unfold rs1; rewrite nth_error_app1 by (apply (rtracked_lt rs0 _ _ _ Tk)); exact Hr|]. split; [exact F2|].
    intros e imp' c He. exists d. split; [rewrite HL1; replace (S (length rs0) - 1)%nat with (length rs0) by lia; unfold rs1; rewrite nth_error_app2 by lia; rewrite Nat.sub_diag; reflexivity|].
    unfold geff in *. rewrite F1, Himp1 in He. cbn [b_imp d]. destruct (Bool.eqb imp imp'); [|contradiction].
    destruct (le_lt_dec 4 c) as [Hc|Hc]; [exfalso; apply He; apply F4; exact Hc|].
    rewrite (Hdvalid Es e c Hc). discriminate.
  - split.
    + intros c rc Hrc. rewrite Htr2 in Hrc. rewrite Himp2.
      destruct (c <? 4)%nat eqn:Ec4.
      * apply Nat.ltb_lt in Ec4. inversion Hrc; subst rc.
        destruct (Htt _ (Hin1 c Ec4)) as [K1 [K2 K3]]. destruct (Htt _ (Hin2 c Ec4)) as [L1 [L2 L3]].
        apply (RTracked (fst st4) imp c _ d (qnth q1 c) (qnth q2 c)); cbn [rc_idx rc_single rc_first rc_second rc_us d b_imp b_val b_key]; try reflexivity; try assumption.
        -- apply Hdshape.
        -- intros HM e. rewrite <- HokT. apply stat_numeric_valid; assumption.
        -- intros j r' Hj Hr. exfalso. assert (nth_error (fst st4) j = None) by (apply nth_error_None; lia). congruence.
      * exfalso. destruct (HC c rc Hrc) as [? ? ? Hlt]. apply Nat.ltb_ge in Ec4. lia.
    + intros c c' rc rc' Hrc Hrc' _ _. rewrite Htr2 in Hrc, Hrc'.
      destruct (c <? 4)%nat eqn:E1; [|exfalso; destruct (HC c rc Hrc) as [? ? ? Hlt]; apply Nat.ltb_ge in E1; lia].
      destruct (c' <? 4)%nat eqn:E2; [|exfalso; destruct (HC c' rc' Hrc') as [? ? ? Hlt]; apply Nat.ltb_ge in E2; lia].
      inversion Hrc; inversion Hrc'; reflexivity.
Qed.

Lemma corners4_tracker rs tr mk c :
  rt_corners (snd (corners4 rs tr mk)) c = (if (c <? 4)%nat then Some (mk c) else rt_corners tr c) /\
  rt_imp (snd (corners4 rs tr mk)) = rt_imp tr.
Proof. split; [destruct c as [|[|[|[|c]]]]; reflexivity | reflexivity]. Qed.

Lemma mangle_corners_inv rs0 tr d :
  rtrinv rs0 tr -> b_key d = KShort ->
  rsem_eq (rs0 ++ [Some d]) (fst (mangle_corners (rs0 ++ [Some d]) tr d)) /\
  rtrinv (fst (mangle_corners (rs0 ++ [Some d]) tr d)) (snd (mangle_corners (rs0 ++ [Some d]) tr d)).
Proof.
  intros Hinv Hkey. destruct d as [k l imp]. cbn [b_key] in Hkey. subst k.
  unfold mangle_corners. cbn [b_val b_imp].
  destruct (rreset_trinv rs0 tr imp Hinv) as [Hinv1 Himp1].
  set (tr1 := rreset_if_imp tr imp) in *.
  set (d := mkB KShort l imp). set (rs1 := rs0 ++ [Some d]).
  assert (Hreset : rsem_eq rs1 (fst (rs1, mkRT no_corners (rt_imp tr1))) /\
                   rtrinv (fst (rs1, mkRT no_corners (rt_imp tr1))) (snd (rs1, mkRT no_corners (rt_imp tr1)))).
  { split; [apply gsem_eq_refl | apply rtrinv_none]. }
  destruct (split_slash l) as [before aft] eqn:Hsp.
  destruct (existsb is_slash match aft with Some a => a | None => [] end); [exact Hreset|].
  rewrite stat_false_fold.
  destruct (expand_quad_tok false before) as [q1|] eqn:E1; [|exact Hreset].
  destruct (expand_quad_tok_spec false before q1 E1) as [H1 T1]. apply trk_false_numeric in T1.
  assert (HL1 : (length rs1 - 1)%nat = length rs0) by (unfold rs1; rewrite app_length; cbn; lia).
  rewrite HL1.
  destruct (expand_quad_tok false match aft with Some a => a | None => [] end) as [q2|] eqn:E2.
  - (* a second list *)
    destruct (expand_quad_tok_spec false _ q2 E2) as [H2 T2]. apply trk_false_numeric in T2.
    assert (Ea : exists a, aft = Some a) by (destruct aft as [a|]; [exists a; reflexivity | cbn in H2; discriminate H2]).
    destruct Ea as [a ->].
    set (mk := fun c => mkC _ _ _ _ _).
    destruct (corners_core rs0 tr1 imp l before (Some a) q1 q2 Hinv1 Himp1 Hsp T1 T2 H1 H2
                (set_seconds (snd (corners4 rs1 tr1 mk)) (fun c => if us_safe (stat false (before ++ a)) then turn (qnth q2 c) else qnth q2 c))) as [S1 I1].
    + cbn [set_seconds rt_imp]. exact Himp1.
    + intros c. cbn [set_seconds rt_corners]. destruct (corners4_tracker rs1 tr1 mk c) as [-> _].
      destruct (c <? 4)%nat; [reflexivity|]. destruct (rt_corners tr1 c); reflexivity.
    + fold d rs1 in S1, I1. fold mk in S1, I1.
      destruct (rcompact_inv _ _ I1) as [C1 [C2 _]].
      split; [|exact C2]. eapply gsem_eq_trans; [exact S1 | exact C1].
  - destruct aft as [a|]; [exact Hreset|].
    set (mk := fun c => mkC _ _ _ _ _).
    destruct (corners_core rs0 tr1 imp l before None q1 q1 Hinv1 Himp1 Hsp T1 T1 H1 H1 (snd (corners4 rs1 tr1 mk))) as [S1 I1].
    + exact Himp1.
    + intros c. destruct (corners4_tracker rs1 tr1 mk c) as [-> _]. reflexivity.
    + fold d rs1 in S1, I1. fold mk in S1, I1.
      destruct (rcompact_inv _ _ I1) as [C1 [C2 _]].
      split; [|exact C2]. eapply gsem_eq_trans; [exact S1 | exact C1].
Qed.
