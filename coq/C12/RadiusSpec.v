(* C12 specification side for border-radius (CSS Backgrounds and Borders 3,
   section 5.1-5.5: border-radius = <length-percentage>{1,4} [ / <length-percentage>{1,4} ]?,
   the values before the slash are the horizontal radii of the four corners, the
   values after it the vertical radii, a missing second list repeats the first;
   border-*-radius = <length-percentage>{1,2}, a missing second value repeats the
   first; CSS Cascade: within a block the last valid declaration of a corner
   wins, important over normal; CSS Syntax: a declaration with a value the
   browser does not understand is dropped as a whole).  Written from the
   standards; it does not use the tracker's unit-safety classification.

   Tokens and declarations are those of BoxTracker.v (KShort = border-radius,
   KSide 0..3 = the corners top-left, top-right, bottom-right, bottom-left, the
   slash is the token TOther 0); browser environments are those of BoxSpec.v. *)
From V Require Import Common.Base C12.Mangle C12.BoxTracker C12.BoxSpec C12.BoxLemmas C12.BoxTokens C12.RadiusTracker.

(* the value of one corner: horizontal and vertical radius, or an opaque whole declaration *)
Inductive rval := RV (h v : tok) | RWhole (l : list tok) (c : nat).

(* radii are lengths or percentages: never auto *)
Definition rok (e : benv) (t : tok) : bool := tok_ok e false t.

Fixpoint cut_slash (l : list tok) : list tok * option (list tok) :=
  match l with
  | [] => ([], None)
  | TOther 0 :: r => ([], Some r)
  | t :: r => let '(a, b) := cut_slash r in (t :: a, b)
  end.

Definition second_list (before : list tok) (aft : option (list tok)) : list tok :=
  match aft with Some a => a | None => before end.

(* what declaration d sets corner c to, if this browser accepts it and it concerns corner c *)
Definition rsets (e : benv) (d : bdecl) (c : nat) : option rval :=
  match b_key d with
  | KOther _ => None
  | KSide c' =>
    if Nat.eqb c' c then
      if plain (b_val d) then
        match b_val d with
        | [t] => if rok e t then Some (RV (norm t) (norm t)) else None
        | [t1; t2] => if rok e t1 && rok e t2 then Some (RV (norm t1) (norm t2)) else None
        | _ => None
        end
      else if opaque_ok e (b_key d) (b_val d) then Some (RWhole (b_val d) c) else None
    else None
  | KShort =>
    if (c <? 4)%nat then
      let '(before, aft) := cut_slash (b_val d) in
      let after := second_list before aft in
      if plain before && plain after then
        match spec_expand before, spec_expand after with
        | Some q1, Some q2 =>
          if forallb (rok e) before && forallb (rok e) after
          then Some (RV (norm (qnth q1 c)) (norm (qnth q2 c))) else None
        | _, _ => None
        end
      else if opaque_ok e (b_key d) (b_val d) then Some (RWhole (b_val d) c) else None
    else None
  end.

Definition reff (e : benv) (imp : bool) (c : nat) (d : bdecl) : option rval :=
  if Bool.eqb (b_imp d) imp then rsets e d c else None.

(* the last declaration of the given importance that sets corner c *)
Definition rlayer (e : benv) (imp : bool) (c : nat) (l : list bdecl) : option rval :=
  fold_left (fun acc d => match reff e imp c d with Some v => Some v | None => acc end) l None.

Definition corner_value (e : benv) (l : list bdecl) (c : nat) : option rval :=
  match rlayer e true c l with Some v => Some v | None => rlayer e false c l end.

(* ------------------------------------------------------------------ *)
(* lemmas used by the tracker proofs *)

Lemma cut_slash_eq l : cut_slash l = split_slash l.
Proof.
  induction l as [|t l IH]; [reflexivity|]. cbn [cut_slash split_slash]. rewrite IH.
  destruct t as [| | | |[|p|p]]; reflexivity.
Qed.

Lemma rsets_affects e d c : affects d c = false -> rsets e d c = None.
Proof. unfold affects, rsets. destruct (b_key d); intros H; [discriminate | rewrite H; reflexivity | reflexivity]. Qed.

Definition nonslash (t : tok) : bool := negb (is_slash t).
Definition rtoks (d : bdecl) : list tok := filter nonslash (b_val d).
Definition rvalid (e : benv) (d : bdecl) : bool := forallb (rok e) (rtoks d).

Lemma numeric_facts l : forallb is_numeric l = true ->
  plain l = true /\ filter nonslash l = l /\ existsb is_slash l = false /\ forallb (trk false) l = true.
Proof.
  induction l as [|t l IH]; cbn [forallb]; [repeat split|].
  intros H. apply andb_true_iff in H as [Ht Hl]. destruct (IH Hl) as [P [F [X T]]].
  unfold plain in *. cbn [forallb filter existsb]. rewrite P, F, X, T.
  destruct t; cbn in *; try discriminate; repeat split.
Qed.

Lemma split_slash_numeric b : forallb is_numeric b = true -> split_slash b = (b, None).
Proof.
  induction b as [|t b IH]; cbn [forallb]; [reflexivity|]. intros H. apply andb_true_iff in H as [Ht Hb].
  cbn [split_slash]. rewrite (IH Hb). destruct t; cbn in *; try discriminate; reflexivity.
Qed.

Lemma split_slash_app b a : forallb is_numeric b = true -> split_slash (b ++ TOther 0 :: a) = (b, Some a).
Proof.
  induction b as [|t b IH]; cbn [forallb app]; [reflexivity|]. intros H. apply andb_true_iff in H as [Ht Hb].
  cbn [split_slash]. rewrite (IH Hb). destruct t; cbn in *; try discriminate; reflexivity.
Qed.

Lemma split_slash_toks : forall l b a, split_slash l = (b, a) ->
  filter nonslash l = filter nonslash b ++ match a with Some x => filter nonslash x | None => [] end.
Proof.
  induction l as [|t l IH]; intros b a H; cbn [split_slash] in H.
  - inversion H; reflexivity.
  - destruct (is_slash t) eqn:Es.
    + assert (N : nonslash t = false) by (unfold nonslash; rewrite Es; reflexivity).
      inversion H; subst. cbn [filter]. rewrite N. reflexivity.
    + assert (N : nonslash t = true) by (unfold nonslash; rewrite Es; reflexivity).
      destruct (split_slash l) as [b0 a0]. inversion H; subst. cbn [filter]. rewrite N. cbn [app].
      rewrite (IH b0 a eq_refl). reflexivity.
Qed.

(* ---- what a trackable declaration sets ---- *)
Lemma rsets_single e c h v imp c' (one : bool) : is_numeric h = true -> is_numeric v = true -> (one = true -> v = h) ->
  rsets e (mkB (KSide c) (if one then [h] else [h; v]) imp) c' =
  if Nat.eqb c c' then (if rok e h && rok e v then Some (RV (norm h) (norm v)) else None) else None.
Proof.
  intros Hh Hv Hone. unfold rsets. cbn [b_key b_val]. destruct (Nat.eqb c c'); [|reflexivity].
  destruct one.
  - rewrite (Hone eq_refl). assert (P : plain [h] = true) by (apply numeric_facts; cbn; rewrite Hh; reflexivity).
    rewrite P. destruct (rok e h); reflexivity.
  - assert (P : plain [h; v] = true) by (apply numeric_facts; cbn; rewrite Hh, Hv; reflexivity).
    rewrite P. reflexivity.
Qed.

Lemma rsets_short e l imp c before aft q1 q2 :
  split_slash l = (before, aft) ->
  forallb is_numeric before = true -> forallb is_numeric (second_list before aft) = true ->
  spec_expand before = Some q1 -> spec_expand (second_list before aft) = Some q2 ->
  rsets e (mkB KShort l imp) c =
  if (c <? 4)%nat then
    (if forallb (rok e) before && forallb (rok e) (second_list before aft)
     then Some (RV (norm (qnth q1 c)) (norm (qnth q2 c))) else None)
  else None.
Proof.
  intros Hs Hb Ha H1 H2. unfold rsets. cbn [b_key b_val]. destruct (c <? 4)%nat; [|reflexivity].
  rewrite cut_slash_eq, Hs.
  destruct (numeric_facts _ Hb) as [Pb _]. destruct (numeric_facts _ Ha) as [Pa _].
  rewrite Pb, Pa, H1, H2. reflexivity.
Qed.

Lemma rvalid_short e l imp before aft :
  split_slash l = (before, aft) ->
  forallb is_numeric before = true -> forallb is_numeric (second_list before aft) = true ->
  rvalid e (mkB KShort l imp) = forallb (rok e) before && forallb (rok e) (second_list before aft).
Proof.
  intros Hs Hb Ha. unfold rvalid, rtoks. cbn [b_val]. rewrite (split_slash_toks l before aft Hs).
  destruct (numeric_facts _ Hb) as [_ [Fb _]]. rewrite Fb.
  destruct aft as [a|]; cbn [second_list] in *.
  - destruct (numeric_facts _ Ha) as [_ [Fa _]]. rewrite Fa. apply forallb_app.
  - rewrite app_nil_r. destruct (forallb (rok e) before); reflexivity.
Qed.
