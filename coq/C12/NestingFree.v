(* The substitution leaves no "&" behind, and is the identity on selectors without "&". *)
From V Require Import Common.Base C12.Nesting C12.NestingProofs.
Require Import Btauto.

Lemma ha_c k a t s : has_amp_c (Cp k a t s) = a || has_amp_s s. Proof. reflexivity. Qed.
Lemma ha_s_class i r : has_amp_s (SClass i r) = has_amp_s r. Proof. reflexivity. Qed.
Lemma ha_s_pc ng l r : has_amp_s (SPc ng l r) = has_amp_l l || has_amp_s r. Proof. reflexivity. Qed.
Lemma ha_x_cons c r : has_amp_x (XCons c r) = has_amp_c c || has_amp_x r. Proof. reflexivity. Qed.
Lemma ha_l_cons x r : has_amp_l (LCons x r) = has_amp_x x || has_amp_l r. Proof. reflexivity. Qed.

Lemma sb_c_eq repl strip k a t s results : sb_c repl strip (Cp k a t s) results =
  if a then subst_amp repl strip k t (sb_s repl s) results else xsnoc results (Cp k false t (sb_s repl s)). Proof. reflexivity. Qed.
Lemma sb_s_class repl i r : sb_s repl (SClass i r) = SClass i (sb_s repl r). Proof. reflexivity. Qed.
Lemma sb_s_pc repl ng l r : sb_s repl (SPc ng l r) = SPc ng (sb_l repl l) (sb_s repl r). Proof. reflexivity. Qed.
Lemma sb_x_cons repl strip c r results : sb_x repl strip (XCons c r) results = sb_x repl strip r (sb_c repl strip c results). Proof. reflexivity. Qed.
Lemma sb_l_cons repl cx r : sb_l repl (LCons cx r) = LCons (sb_x repl true cx XNil) (sb_l repl r). Proof. reflexivity. Qed.

Lemma has_amp_app a b : has_amp_x (xapp a b) = has_amp_x a || has_amp_x b.
Proof. induction a as [|c r IH]; cbn [xapp]; [reflexivity | rewrite !ha_x_cons, IH; btauto]. Qed.
Lemma has_amp_s_app a b : has_amp_s (sapp a b) = has_amp_s a || has_amp_s b.
Proof. induction a as [|i r IH|ng l r IH]; cbn [sapp]; [reflexivity | rewrite !ha_s_class; exact IH | rewrite !ha_s_pc, IH; btauto]. Qed.
Lemma has_amp_clear_first p : has_amp_x (clear_first p) = has_amp_x p.
Proof. destruct p as [|c r]; [reflexivity|]. destruct c; reflexivity. Qed.
Lemma has_amp_clear c : has_amp_c (clear_comb c) = has_amp_c c.
Proof. destruct c; reflexivity. Qed.
Lemma has_amp_merge k single t s : has_amp_c single = false -> has_amp_c (merge_into k single t s) = has_amp_s s.
Proof.
  destruct single as [k0 a0 t0 s0]. rewrite ha_c. intros H. apply orb_false_iff in H as [-> H0].
  unfold merge_into. cbn [c_ty c_subs]. destruct t0; rewrite ha_c, !has_amp_s_app, H0; cbn [orb].
  - destruct t; reflexivity.
  - reflexivity.
Qed.
Lemma has_amp_snoc' p s : has_amp_x (xsnoc p s) = has_amp_x p || has_amp_c s.
Proof. unfold xsnoc. rewrite has_amp_app, ha_x_cons. cbn. btauto. Qed.

Lemma subst_amp_free repl strip k t s results :
  has_amp_x repl = false -> has_amp_s s = false -> has_amp_x results = false ->
  has_amp_x (subst_amp repl strip k t s results) = false.
Proof.
  intros HR Hs Hres. unfold subst_amp.
  destruct (xsplit repl) as [[prefix single]|] eqn:Esp; [|exact Hres].
  destruct (xsplit_snoc _ _ _ Esp) as [ER _]. rewrite ER, has_amp_snoc' in HR. apply orb_false_iff in HR as [Hp Hsg].
  destruct ((k =? 0) && ((xlen repl =? 1)%nat || xnil results)).
  - rewrite has_amp_snoc', has_amp_app, Hres.
    assert (E1 : has_amp_x (if strip && (1 <? xlen repl)%nat then clear_first prefix else prefix) = false).
    { destruct (strip && (1 <? xlen repl)%nat); [rewrite has_amp_clear_first|]; exact Hp. }
    rewrite E1. cbn [orb]. apply eq_trans with (has_amp_s s); [|exact Hs]. apply has_amp_merge.
    destruct (strip && (xlen repl =? 1)%nat); [rewrite has_amp_clear|]; exact Hsg.
  - destruct (xlen repl =? 1)%nat.
    + rewrite has_amp_snoc', Hres, has_amp_merge by exact Hsg. exact Hs.
    + rewrite has_amp_snoc', Hres, has_amp_merge; [exact Hs|]. rewrite ha_c, ha_s_pc, ha_l_cons, ER, has_amp_snoc', Hp, Hsg. reflexivity.
Qed.

Theorem subst_amp_free_all repl : has_amp_x repl = false ->
  (forall c strip results, has_amp_x results = false -> has_amp_x (sb_c repl strip c results) = false) /\
  (forall s, has_amp_s (sb_s repl s) = false) /\
  (forall cx strip results, has_amp_x results = false -> has_amp_x (sb_x repl strip cx results) = false) /\
  (forall l, has_amp_l (sb_l repl l) = false).
Proof.
  intros HR. apply sel_mutind.
  - intros k a t s IH strip results Hres. rewrite sb_c_eq. destruct a.
    + apply subst_amp_free; assumption.
    + rewrite has_amp_snoc', Hres, ha_c. cbn [orb]. exact IH.
  - reflexivity.
  - intros i r IH. rewrite sb_s_class, ha_s_class. exact IH.
  - intros ng l IHl r IHr. rewrite sb_s_pc, ha_s_pc, IHl, IHr. reflexivity.
  - intros strip results H. exact H.
  - intros c IHc r IHr strip results H. rewrite sb_x_cons. apply IHr. apply IHc. exact H.
  - reflexivity.
  - intros cx IHx r IHr. rewrite sb_l_cons, ha_l_cons, IHx by reflexivity. exact IHr.
Qed.

(* the substitution is the identity on selectors without "&" *)
Theorem subst_id repl :
  (forall c, has_amp_c c = false -> forall strip results, sb_c repl strip c results = xsnoc results c) /\
  (forall s, has_amp_s s = false -> sb_s repl s = s) /\
  (forall cx, has_amp_x cx = false -> forall strip results, sb_x repl strip cx results = xapp results cx) /\
  (forall l, has_amp_l l = false -> sb_l repl l = l).
Proof.
  apply sel_mutind.
  - intros k a t s IH H strip results. rewrite ha_c in H. apply orb_false_iff in H as [-> Hs]. rewrite sb_c_eq, (IH Hs). reflexivity.
  - reflexivity.
  - intros i r IH H. rewrite ha_s_class in H. rewrite sb_s_class, (IH H). reflexivity.
  - intros ng l IHl r IHr H. rewrite ha_s_pc in H. apply orb_false_iff in H as [Hl Hr]. rewrite sb_s_pc, (IHl Hl), (IHr Hr). reflexivity.
  - intros _ strip results. cbn. rewrite xapp_nil_r. reflexivity.
  - intros c IHc r IHr H strip results. rewrite ha_x_cons in H. apply orb_false_iff in H as [Hc Hr].
    rewrite sb_x_cons, (IHc Hc), (IHr Hr). unfold xsnoc. rewrite xapp_assoc. reflexivity.
  - reflexivity.
  - intros cx IHx r IHr H. rewrite ha_l_cons in H. apply orb_false_iff in H as [Hx Hr]. rewrite sb_l_cons, (IHx Hx), (IHr Hr). reflexivity.
Qed.

(* the lowered selector contains no "&": what it matches does not depend on what "&" stands for *)
Theorem lower_is_amp_free parents cx : parents_ok parents = true -> has_amp_x (lower_is parents cx) = false.
Proof.
  intros Hok. unfold lower_is.
  assert (HR : has_amp_x (parents_single parents) = false).
  { pose proof (parents_ok_amp parents Hok) as H. destruct parents as [|p [|p2 r]]; cbn [parents_single].
    - reflexivity.
    - rewrite ha_l_cons in H. apply orb_false_iff in H as [H _]. exact H.
    - rewrite ha_x_cons, ha_c, ha_s_pc, H. reflexivity. }
  destruct (subst_amp_free_all _ HR) as [_ [_ [HX _]]]. apply HX. reflexivity.
Qed.

Theorem lower_is_matching_any D parents cx A' : parents_ok parents = true ->
  forall x, matches D A' (lower_is parents cx) x = matches D (parent_set D parents) (inject_amp cx) x.
Proof.
  intros Hok x. rewrite <- lower_is_matching by exact Hok. unfold matches.
  destruct (amp_free_indep D A' (parent_set D parents)) as [_ [_ [H _]]]. rewrite H by (apply lower_is_amp_free; exact Hok). reflexivity.
Qed.
