(* C12 specification side for numbers: the value of a CSS <number-token>
   (CSS Syntax Level 3, section 4.3.13 "convert a string to a number"):
   sign, integer part, fractional part, exponent;  value = s * (i + f * 10^-d) * 10^(t*e).
   Exact: the value is kept as a pair (m, e) meaning m * 10^e. *)
From V Require Import Common.Base.

Definition isdig (c : Z) : bool := (48 <=? c) && (c <=? 57).

Fixpoint span_digits (l : list Z) : list Z * list Z :=
  match l with
  | c :: r => if isdig c then let '(d, rest) := span_digits r in (c :: d, rest) else ([], l)
  | [] => ([], [])
  end.

Definition digits_val (ds : list Z) : Z := fold_left (fun a d => a * 10 + (d - 48)) ds 0.

Definition take_sign (l : list Z) : Z * list Z :=
  match l with
  | c :: r => if c =? 43 then (1, r) else if c =? 45 then (-1, r) else (1, l)
  | [] => (1, [])
  end.

Definition nil_b {A} (l : list A) : bool := match l with [] => true | _ => false end.

Definition css_number_value (s : list Z) : option (Z * Z) :=
  let '(sg, r) := take_sign s in
  let '(ip, r1) := span_digits r in
  let '(fp, r2) :=
    match r1 with
    | c :: r' =>
      if c =? 46 then
        let '(f, r'') := span_digits r' in if nil_b f then ([], r1) else (f, r'')
      else ([], r1)
    | [] => ([], r1)
    end in
  if nil_b ip && nil_b fp then None else
  let m := sg * digits_val (ip ++ fp) in
  let e0 := - Z.of_nat (length fp) in
  match r2 with
  | [] => Some (m, e0)
  | c :: r3 =>
    if (c =? 101) || (c =? 69) then
      let '(es, r4) := take_sign r3 in
      let '(ed, r5) := span_digits r4 in
      if nil_b ed || negb (nil_b r5) then None else Some (m, e0 + es * digits_val ed)
    else None
  end.

(* m1 * 10^e1 = m2 * 10^e2, stated over the integers *)
Definition qeq (a b : Z * Z) : Prop :=
  let m := Z.min (snd a) (snd b) in fst a * 10 ^ (snd a - m) = fst b * 10 ^ (snd b - m).
