(* C12 model, part 9: internal/css_parser/css_decls_color.go hslToRgb, hueToRgb,
   hwbToRgb (state of the pinned tree: the hue is normalised with
   hue - floor(hue), any number of turns), in exact rational arithmetic, and
   its agreement with the CSS Color 4 conversion of HslSpec.v on a grid: every
   multiple of 30 degrees over six turns (-1080 .. 1080), further hues next to
   the breakpoints and the turn boundaries, percentages at, inside and beyond
   the [0%, 100%] boundaries (all pieces of both piecewise-linear definitions).  Tied to the Go code by
   hslrgb_cases (the printed bytes are compared with the model AND the spec). *)
From Coq Require Import QArith Qround Qabs.
From V Require Import Common.Base C12.HslSpec.
Local Open Scope Q_scope.

Definition lerp (a b t : Q) : Q := a + (b - a) * t.

Definition hue_to_rgb (t1 t2 hue : Q) : Q :=
  let hue := hue - inject_Z (Qfloor hue) in
  let hue := hue * 6 in
  if Qle_bool 1 hue then
    if Qle_bool 3 hue then
      if Qle_bool 4 hue then t1 else lerp t1 t2 (4 - hue)
    else t2
  else lerp t1 t2 hue.

(* hue in degrees, sat and light fractions in [0,1] *)
Definition hsl_to_rgb (hue sat light : Q) : Q * Q * Q :=
  let hue := hue / 360 in
  let t2 := if Qle_bool light (1 # 2) then (sat + 1) * light else light + sat - light * sat in
  let t1 := light * 2 - t2 in
  (hue_to_rgb t1 t2 (hue + (1 # 3)), hue_to_rgb t1 t2 hue, hue_to_rgb t1 t2 (hue - (1 # 3))).

Definition hwb_to_rgb (hue white black : Q) : Q * Q * Q :=
  if Qle_bool 1 (white + black) then
    let gray := white / (white + black) in (gray, gray, gray)
  else
    let delta := 1 - (white + black) in
    let '(r, g, b) := hsl_to_rgb hue 1 (1 # 2) in
    (delta * r + white, delta * g + white, delta * b + white).

(* with the percentages clamped as ClampedFractionForPercentage does *)
Definition model_hsl (hue sat light : Q) : Q * Q * Q := hsl_to_rgb hue (clamp01 (sat / 100)) (clamp01 (light / 100)).
Definition model_hwb (hue white black : Q) : Q * Q * Q := hwb_to_rgb hue (clamp01 (white / 100)) (clamp01 (black / 100)).

Definition rgb_eqb (a b : Q * Q * Q) : bool :=
  let '(r1, g1, b1) := a in let '(r2, g2, b2) := b in Qeq_bool r1 r2 && Qeq_bool g1 g2 && Qeq_bool b1 b2.

Definition hue_grid : list Z := map (fun i => (30 * Z.of_nat i - 1080)%Z) (seq 0 73) ++ [1; -1; 7; 59; 61; 119; 121; 359; 361; 601; -241; 719; 721; -359; -361; 1000; -1000]%Z.
Definition pct_grid : list Z := [-10; 0; 30; 50; 70; 100]%Z.

Definition hsl_grid_ok : bool :=
  forallb (fun h => forallb (fun s => forallb (fun l =>
    rgb_eqb (model_hsl (inject_Z h) (inject_Z s) (inject_Z l)) (hsl_spec (inject_Z h) (inject_Z s) (inject_Z l))) pct_grid) pct_grid) hue_grid.
Definition hwb_grid_ok : bool :=
  forallb (fun h => forallb (fun w => forallb (fun k =>
    rgb_eqb (model_hwb (inject_Z h) (inject_Z w) (inject_Z k)) (hwb_spec (inject_Z h) (inject_Z w) (inject_Z k))) pct_grid) pct_grid) hue_grid.

Lemma hsl_grid : hsl_grid_ok = true. Proof. vm_compute. reflexivity. Qed.
Lemma hwb_grid : hwb_grid_ok = true. Proof. vm_compute. reflexivity. Qed.

Theorem hsl_grid_all : forall h s l, In h hue_grid -> In s pct_grid -> In l pct_grid ->
  rgb_eqb (model_hsl (inject_Z h) (inject_Z s) (inject_Z l)) (hsl_spec (inject_Z h) (inject_Z s) (inject_Z l)) = true.
Proof.
  intros h s l Hh Hs Hl. pose proof hsl_grid as G. unfold hsl_grid_ok in G.
  rewrite forallb_forall in G. specialize (G h Hh).
  rewrite forallb_forall in G. specialize (G s Hs). rewrite forallb_forall in G. exact (G l Hl).
Qed.

Theorem hwb_grid_all : forall h w k, In h hue_grid -> In w pct_grid -> In k pct_grid ->
  rgb_eqb (model_hwb (inject_Z h) (inject_Z w) (inject_Z k)) (hwb_spec (inject_Z h) (inject_Z w) (inject_Z k)) = true.
Proof.
  intros h w k Hh Hw Hk. pose proof hwb_grid as G. unfold hwb_grid_ok in G.
  rewrite forallb_forall in G. specialize (G h Hh).
  rewrite forallb_forall in G. specialize (G w Hw). rewrite forallb_forall in G. exact (G k Hk).
Qed.

(* the seeded single-step wrap is NOT the spec: hsl(720 100% 50%) *)
Definition hue_to_rgb_one_step (t1 t2 hue : Q) : Q :=
  let hue := if Qle_bool 0 hue then (if Qle_bool 1 hue then hue - 1 else hue) else hue + 1 in
  let hue := hue * 6 in
  if Qle_bool 1 hue then
    if Qle_bool 3 hue then
      if Qle_bool 4 hue then t1 else lerp t1 t2 (4 - hue)
    else t2
  else lerp t1 t2 hue.
Lemma one_step_wrap_differs : Qeq_bool (hue_to_rgb_one_step 0 1 (2 + (1 # 3))) (hue_to_rgb 0 1 (2 + (1 # 3))) = false.
Proof. vm_compute. reflexivity. Qed.

(* correspondence: the printed bytes against model and spec *)
Definition hslrgb_both_ok (c : Z * Z * Z * Z * Z * Z * (Z * Z * Z)) : bool :=
  let '(fn, unit, num, den, p1, p2, (r, g, b)) := c in
  let h := degrees unit num den in
  let '(mr, mg, mb) := if (fn =? 0)%Z then model_hsl h (inject_Z p1) (inject_Z p2) else model_hwb h (inject_Z p1) (inject_Z p2) in
  hslrgb_ok c && byte_ok mr r && byte_ok mg g && byte_ok mb b.
