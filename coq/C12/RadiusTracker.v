(* C12 model, part 7: internal/css_parser/css_decls_border_radius.go
     borderRadiusTracker: updateCorner, mangleCorners, mangleCorner, compactRules
   and the border-radius cases of processDeclarations.  Same index bookkeeping
   pattern as the box tracker (state after fixes dabbe91 and dece0db); every
   corner has two radii.  Executable definitions only; tied to the Go code by
   the correspondence family radius_cases.

   Tokens and declarations are those of BoxTracker.v; the slash of
   "border-radius: a b / c d" is the token TOther 0; KShort is border-radius,
   KSide 0..3 are the corners top-left, top-right, bottom-right, bottom-left. *)
From V Require Import Common.Base C12.Mangle C12.BoxTracker.

Definition is_slash (t : tok) : bool := match t with TOther 0 => true | _ => false end.

Record rcorner := mkC { rc_first : tok; rc_second : tok; rc_us : ustatus; rc_idx : nat; rc_single : bool }.
Record rtracker := mkRT { rt_corners : nat -> option rcorner; rt_imp : bool }.
Definition no_corners : nat -> option rcorner := fun _ => None.
Definition rtracker0 : rtracker := mkRT no_corners false.
Definition set_corner (f : nat -> option rcorner) (c : nat) (v : option rcorner) : nat -> option rcorner :=
  fun c' => if Nat.eqb c' c then v else f c'.

(* borderRadius.updateCorner *)
Definition update_corner (rs : rules) (tr : rtracker) (c : nat) (new : rcorner) : rules * rtracker :=
  let rs' :=
    match rt_corners tr c with
    | Some old =>
      if (negb (rc_single new) || rc_single old) && us_safe (rc_us old) && us_safe (rc_us new)
      then set_nth (rc_idx old) None rs else rs
    | None => rs
    end in
  (rs', mkRT (set_corner (rt_corners tr) c (Some new)) (rt_imp tr)).

(* borderRadius.compactRules *)
Definition rcompact_rules (rs : rules) (tr : rtracker) : rules * rtracker :=
  match rt_corners tr 0%nat, rt_corners tr 1%nat, rt_corners tr 2%nat, rt_corners tr 3%nat with
  | Some c0, Some c1, Some c2, Some c3 =>
    if safe_with (rc_us c1) (rc_us c0) && safe_with (rc_us c2) (rc_us c0) && safe_with (rc_us c3) (rc_us c0) then
      let first := compact_quad_tok (rc_first c0, rc_first c1, rc_first c2, rc_first c3) in
      let second := compact_quad_tok (rc_second c0, rc_second c1, rc_second c2, rc_second c3) in
      let tokens := if leqb tok_eqb first second then first else first ++ [TOther 0] ++ second in
      let last := Nat.max (Nat.max (rc_idx c0) (rc_idx c1)) (Nat.max (rc_idx c2) (rc_idx c3)) in
      let rs1 := set_nth (rc_idx c3) None (set_nth (rc_idx c2) None (set_nth (rc_idx c1) None (set_nth (rc_idx c0) None rs))) in
      let rs2 := set_nth last (Some (mkB KShort tokens (rt_imp tr))) rs1 in
      let mv := fun c => Some (mkC (rc_first c) (rc_second c) (rc_us c) last false) in
      (rs2, mkRT (fun s => match s with O => mv c0 | 1%nat => mv c1 | 2%nat => mv c2 | 3%nat => mv c3 | _ => rt_corners tr s end) (rt_imp tr))
    else (rs, tr)
  | _, _, _, _ => (rs, tr)
  end.

Definition rreset_if_imp (tr : rtracker) (imp : bool) : rtracker :=
  if Bool.eqb (rt_imp tr) imp then tr else mkRT no_corners imp.

Fixpoint split_slash (l : list tok) : list tok * option (list tok) :=
  match l with
  | [] => ([], None)
  | t :: r => if is_slash t then ([], Some r)
              else let '(a, b) := split_slash r in (t :: a, b)
  end.

(* the four updateCorner calls of mangleCorners *)
Definition corners4 (rs : rules) (tr : rtracker) (mk : nat -> rcorner) : rules * rtracker :=
  let corner := fun (st : rules * rtracker) (c : nat) => update_corner (fst st) (snd st) c (mk c) in
  corner (corner (corner (corner (rs, tr) 0%nat) 1%nat) 2%nat) 3%nat.

(* "box.corners[i].secondToken = t" for the four corners *)
Definition set_seconds (tr : rtracker) (f : nat -> tok) : rtracker :=
  mkRT (fun c => match rt_corners tr c with
                 | Some rc => if (c <? 4)%nat then Some (mkC (rc_first rc) (f c) (rc_us rc) (rc_idx rc) (rc_single rc)) else Some rc
                 | None => None end) (rt_imp tr).

(* borderRadius.mangleCorners *)
Definition mangle_corners (rs : rules) (tr : rtracker) (d : bdecl) : rules * rtracker :=
  let tr := rreset_if_imp tr (b_imp d) in
  let reset := (rs, mkRT no_corners (rt_imp tr)) in
  let '(before, aft) := split_slash (b_val d) in
  let after := match aft with Some a => a | None => [] end in
  if existsb is_slash after then reset else       (* multiple slashes are an error *)
  let us := fold_left include_unit (before ++ after) USafe in
  match expand_quad_tok false before, expand_quad_tok false after, aft with
  | None, _, _ => reset
  | Some _, None, Some _ => reset
  | Some q1, last, _ =>
    let idx := (length rs - 1)%nat in
    let tt := fun t => if us_safe us then turn t else t in
    let st := corners4 rs tr (fun c => mkC (tt (qnth q1 c)) (tt (qnth q1 c)) us idx false) in
    let tr2 :=
      match last with
      | Some q2 => set_seconds (snd st) (fun c => tt (qnth q2 c))
      | None => snd st
      end in
    rcompact_rules (fst st) tr2
  end.

(* borderRadius.mangleCorner: the part after the token checks (tr is already reset for the importance of d) *)
Definition mangle_corner_go (rs : rules) (tr : rtracker) (d : bdecl) (c : nat) (t1 : tok) (t2o : option tok) : rules * rtracker :=
  let t2 := match t2o with Some t => t | None => t1 end in
  let us := include_unit (include_unit USafe t1) t2 in
  let idx := (length rs - 1)%nat in
  let f := if us_safe us then turn t1 else t1 in
  (* with one token the second radius is a copy taken BEFORE 0px is turned into 0 (as in the Go code) *)
  let s := match t2o with Some t => if us_safe us then turn t else t | None => t1 end in
  (* the declaration's tokens are rewritten in place; two equal radii are merged into one *)
  let val := match t2o with
             | None => [f]
             | Some _ => if tok_eqb f s then [f] else [f; s]
             end in
  let rs := if leqb tok_eqb val (b_val d) then rs else set_nth idx (Some (mkB (b_key d) val (b_imp d))) rs in
  let st := update_corner rs tr c (mkC f s us idx true) in
  rcompact_rules (fst st) (snd st).

(* borderRadius.mangleCorner *)
Definition mangle_corner (rs : rules) (tr : rtracker) (d : bdecl) (c : nat) : rules * rtracker :=
  let tr := rreset_if_imp tr (b_imp d) in
  let reset := (rs, mkRT no_corners (rt_imp tr)) in
  match b_val d with
  | [t1] => if is_numeric t1 then mangle_corner_go rs tr d c t1 None else reset
  | [t1; t2] => if is_numeric t1 && is_numeric t2 then mangle_corner_go rs tr d c t1 (Some t2) else reset
  | _ => reset
  end.

Definition radius_step (st : rules * rtracker) (d : bdecl) : rules * rtracker :=
  let '(rs, tr) := st in
  match b_key d with
  | KOther _ => (rs ++ [Some d], tr)
  | KSide c => mangle_corner (rs ++ [Some d]) tr d c
  | KShort => mangle_corners (rs ++ [Some d]) tr d
  end.

Definition radius_process (l : list bdecl) : list bdecl :=
  live (fst (fold_left radius_step l ([], rtracker0))).
