(* compactRules preserves the semantics and re-establishes the tracker invariant. *)
From V Require Import Common.Base C12.Mangle C12.BoxTracker C12.BoxSpec C12.BoxLemmas C12.BoxTokens C12.BoxSem C12.BoxCompact C12.BoxInv.

Lemma safe_with_eq a b : safe_with a b = true -> a = b /\ a <> UMixed.
Proof.
  destruct a as [|u|], b as [|w|]; cbn; intros H; try discriminate.
  - split; [reflexivity | discriminate].
  - apply Z.eqb_eq in H. subst. split; [reflexivity | discriminate].
Qed.

Section OpCompact.
  Variable aa : bool.

  Lemma tracked_invalid rs imp0 s sd r e :
    tracked aa rs imp0 s sd -> nth_error rs (sd_idx sd) = Some (Some r) ->
    forallb (tok_ok e aa) (b_val r) = false -> forall s', sets e aa r s' = None.
  Proof.
    intros [r0 t0 Hs Hnth Himp Htrk Hshape Hnorm Hok Htt Hval Hafter] Hr Hf s'.
    rewrite Hnth in Hr. inversion Hr; subst r0. clear Hr.
    destruct r as [k v i]. cbn [b_key b_val b_imp] in *.
    destruct (sd_single sd).
    - destruct Hshape as [-> ->].
      assert (Ht0 : trk aa t0 = true) by (cbn in Htrk; rewrite andb_true_r in Htrk; exact Htrk).
      rewrite sets_single by exact Ht0. cbn [forallb] in Hf. rewrite andb_true_r in Hf. rewrite Hf.
      destruct (Nat.eqb s s'); reflexivity.
    - destruct Hshape as [-> [q [Hq _]]]. rewrite (sets_short e aa v q) by assumption. rewrite Hf.
      destruct (s' <? 4)%nat; reflexivity.
  Qed.

  Lemma compact_inv cc rs tr : trinv aa rs tr ->
    sem_eq aa rs (fst (compact_rules cc rs tr)) /\ trinv aa (fst (compact_rules cc rs tr)) (snd (compact_rules cc rs tr)) /\
    tr_imp (snd (compact_rules cc rs tr)) = tr_imp tr.
  Proof.
    intros [HC HE]. unfold compact_rules.
    destruct cc; cbn [negb]; [|cbn [fst snd]; repeat split; assumption].
    destruct (tr_sides tr 0%nat) as [s0|] eqn:E0; [|cbn [fst snd]; repeat split; assumption].
    destruct (tr_sides tr 1%nat) as [s1|] eqn:E1; [|cbn [fst snd]; repeat split; assumption].
    destruct (tr_sides tr 2%nat) as [s2|] eqn:E2; [|cbn [fst snd]; repeat split; assumption].
    destruct (tr_sides tr 3%nat) as [s3|] eqn:E3; [|cbn [fst snd]; repeat split; assumption].
    destruct (safe_with (sd_us s1) (sd_us s0) && safe_with (sd_us s2) (sd_us s0) && safe_with (sd_us s3) (sd_us s0)) eqn:ES;
      [|cbn [fst snd]; repeat split; assumption].
    apply andb_true_iff in ES as [ES ES3]. apply andb_true_iff in ES as [ES1 ES2].
    apply safe_with_eq in ES1 as [U1 N1], ES2 as [U2 N2], ES3 as [U3 N3].
    set (imp := tr_imp tr) in *.
    set (sdk := fun k => match k with O => s0 | 1%nat => s1 | 2%nat => s2 | _ => s3 end).
    assert (Hside : forall k, (k < 4)%nat -> tr_sides tr k = Some (sdk k)).
    { intros k Hk. destruct k as [|[|[|[|]]]]; try lia; assumption. }
    assert (Htk : forall k, (k < 4)%nat -> tracked aa rs imp k (sdk k)) by (intros k Hk; apply HC, Hside, Hk).
    assert (Hus : forall k, (k < 4)%nat -> sd_us (sdk k) = sd_us s0 /\ sd_us (sdk k) <> UMixed).
    { intros k Hk. destruct k as [|[|[|[|]]]]; try lia; cbn [sdk]; try (split; [assumption|assumption]).
      split; [reflexivity|]. rewrite <- U1. exact N1. }
    (* the four rules *)
    assert (Hex : forall k, (k < 4)%nat -> exists r, nth_error rs (sd_idx (sdk k)) = Some (Some r)).
    { intros k Hk. destruct (Htk k Hk) as [r]. exists r; assumption. }
    destruct (Hex 0%nat ltac:(lia)) as [r0 R0]. destruct (Hex 1%nat ltac:(lia)) as [r1 R1].
    destruct (Hex 2%nat ltac:(lia)) as [r2 R2]. destruct (Hex 3%nat ltac:(lia)) as [r3 R3].
    set (rk := fun k => match k with O => r0 | 1%nat => r1 | 2%nat => r2 | _ => r3 end).
    set (idx := fun k => sd_idx (sdk k)).
    assert (Hn : forall k, (k < 4)%nat -> nth_error rs (idx k) = Some (Some (rk k))).
    { intros k Hk. destruct k as [|[|[|[|]]]]; try lia; assumption. }
    set (q0 := (sd_tok s0, sd_tok s1, sd_tok s2, sd_tok s3)).
    assert (Hq0 : forall k, (k < 4)%nat -> qnth q0 k = sd_tok (sdk k)).
    { intros k Hk. destruct k as [|[|[|[|]]]]; try lia; reflexivity. }
    set (comb := mkB KShort (compact_quad_tok q0) imp).
    assert (Hcomb_trk : forallb (trk aa) (compact_quad_tok q0) = true).
    { rewrite forallb_compact. unfold all4. rewrite !Hq0 by lia.
      destruct (Htk 0%nat ltac:(lia)) as [? ? _ _ _ _ _ _ _ T0]. destruct (Htk 1%nat ltac:(lia)) as [? ? _ _ _ _ _ _ _ T1].
      destruct (Htk 2%nat ltac:(lia)) as [? ? _ _ _ _ _ _ _ T2]. destruct (Htk 3%nat ltac:(lia)) as [? ? _ _ _ _ _ _ _ T3].
      cbn [sdk] in *. rewrite T0, T1, T2, T3. reflexivity. }
    (* facts about each tracked rule *)
    assert (Hfacts : forall k, (k < 4)%nat ->
      b_imp (rk k) = imp /\ is_other (rk k) = false /\
      (forall e s', (4 <= s')%nat -> sets e aa (rk k) s' = None) /\
      (forall e, sets e aa (rk k) k = if forallb (tok_ok e aa) (b_val (rk k)) then Some (SV (norm (sd_tok (sdk k)))) else None) /\
      (forall e, forallb (tok_ok e aa) (b_val (rk k)) = true -> tok_ok e aa (sd_tok (sdk k)) = true) /\
      (forall e, forallb (tok_ok e aa) (b_val (rk k)) = us_valid e (sd_us s0))).
    { intros k Hk. destruct (tracked_rule aa rs imp k (sdk k) (Htk k Hk)) as [r [Hr [F1 [F2 [_ [F4 [_ [_ [F7 [F8 F9]]]]]]]]]].
      fold (idx k) in Hr. rewrite (Hn k Hk) in Hr. inversion Hr; subst r.
      destruct (Hus k Hk) as [Ue Un]. repeat split; try assumption.
      intros e. rewrite (F9 Un e), Ue. reflexivity. }
    (* validity of the combined declaration *)
    assert (Hcv : forall e, forallb (tok_ok e aa) (compact_quad_tok q0) = us_valid e (sd_us s0)).
    { intros e. rewrite forallb_compact. unfold all4. rewrite !Hq0 by lia.
      destruct (us_valid e (sd_us s0)) eqn:EV.
      - destruct (Hfacts 0%nat ltac:(lia)) as [_ [_ [_ [_ [G0 V0]]]]]. destruct (Hfacts 1%nat ltac:(lia)) as [_ [_ [_ [_ [G1 V1]]]]].
        destruct (Hfacts 2%nat ltac:(lia)) as [_ [_ [_ [_ [G2 V2]]]]]. destruct (Hfacts 3%nat ltac:(lia)) as [_ [_ [_ [_ [G3 V3]]]]].
        rewrite (G0 e), (G1 e), (G2 e), (G3 e); try reflexivity; rewrite ?V0, ?V1, ?V2, ?V3; exact EV.
      - (* if every tracked token were accepted, one of the (invalid) rules would be valid *)
        destruct (tok_ok e aa (sd_tok (sdk 0%nat)) && tok_ok e aa (sd_tok (sdk 1%nat)) && tok_ok e aa (sd_tok (sdk 2%nat)) && tok_ok e aa (sd_tok (sdk 3%nat))) eqn:EA; [|reflexivity].
        exfalso.
        assert (Hall : forall k, (k < 4)%nat -> tok_ok e aa (sd_tok (sdk k)) = true).
        { intros k Hk. repeat (apply andb_true_iff in EA as [EA ?]). destruct k as [|[|[|[|]]]]; try lia; assumption. }
        assert (Hinv : forall k, (k < 4)%nat -> forallb (tok_ok e aa) (b_val (rk k)) = false).
        { intros k Hk. destruct (Hfacts k Hk) as [_ [_ [_ [_ [_ V]]]]]. rewrite V. exact EV. }
        assert (Hsingle : forall k, (k < 4)%nat -> sd_single (sdk k) = true -> False).
        { intros k Hk Hsg. destruct (Htk k Hk) as [r t0 _ Hnth _ _ Hshape _ Hok _ _ _]. rewrite Hsg in Hshape. destruct Hshape as [_ Hv].
          fold (idx k) in Hnth. rewrite (Hn k Hk) in Hnth. inversion Hnth; subst r.
          pose proof (Hinv k Hk) as Hi. rewrite Hv in Hi. cbn [forallb] in Hi. rewrite andb_true_r, <- Hok, (Hall k Hk) in Hi. discriminate Hi. }
        destruct (sd_single (sdk 0%nat)) eqn:S0; [exfalso; apply (Hsingle 0%nat); [lia | exact S0]|].
        destruct (sd_single (sdk 1%nat)) eqn:S1; [exfalso; apply (Hsingle 1%nat); [lia | exact S1]|].
        destruct (sd_single (sdk 2%nat)) eqn:S2; [exfalso; apply (Hsingle 2%nat); [lia | exact S2]|].
        destruct (sd_single (sdk 3%nat)) eqn:S3; [exfalso; apply (Hsingle 3%nat); [lia | exact S3]|].
        (* all four come from one shorthand *)
        assert (Hsame : forall k, (k < 4)%nat -> idx k = idx 0%nat).
        { intros k Hk. unfold idx. apply (HE k 0%nat (sdk k) (sdk 0%nat)); try (apply Hside; lia); try assumption.
          destruct k as [|[|[|[|]]]]; try lia; assumption. }
        destruct (Htk 0%nat ltac:(lia)) as [r t0 _ Hnth _ _ Hshape _ _ _ _ _]. rewrite S0 in Hshape. destruct Hshape as [_ [q [Hq _]]].
        fold (idx 0%nat) in Hnth. rewrite (Hn 0%nat ltac:(lia)) in Hnth. inversion Hnth; subst r.
        pose proof (Hinv 0%nat ltac:(lia)) as Hi. rewrite (forallb_spec_expand _ _ q Hq) in Hi.
        assert (Hqk : forall k, (k < 4)%nat -> tok_ok e aa (qnth q k) = true).
        { intros k Hk. destruct (Htk k Hk) as [r t0' _ Hnth' _ _ Hshape' _ Hok' _ _ _].
          assert (Sk : sd_single (sdk k) = false) by (destruct k as [|[|[|[|]]]]; try lia; assumption).
          rewrite Sk in Hshape'. destruct Hshape' as [_ [q' [Hq' Ht']]].
          fold (idx k) in Hnth'. rewrite (Hsame k Hk), (Hn 0%nat ltac:(lia)) in Hnth'. inversion Hnth'; subst r.
          rewrite Hq in Hq'. inversion Hq'; subst q'. rewrite <- Ht', <- Hok'. apply Hall. exact Hk. }
        unfold all4 in Hi. rewrite !Hqk in Hi by lia. discriminate Hi. }
    assert (Hafter : forall k j r', (k < 4)%nat -> (idx k < j)%nat -> nth_error rs j = Some (Some r') -> affects r' k = false).
    { intros k j r' Hk Hj Hr. destruct (Htk k Hk) as [? ? _ _ _ _ _ _ _ _ _ HA]. eapply HA; eassumption. }
    assert (Hsc : forall e s, sets e aa comb s =
              if (s <? 4)%nat then (if us_valid e (sd_us s0) then Some (SV (norm (qnth q0 s))) else None) else None).
    { intros e s. unfold comb. rewrite (sets_short e aa _ q0) by (try apply spec_expand_compact; exact Hcomb_trk).
      rewrite Hcv. reflexivity. }
    assert (Hpres : sem_eq aa rs (compacted rs idx comb)).
    { apply (compact_preserves aa rs idx rk comb imp); try assumption; try reflexivity.
      - intros k Hk. apply Hfacts; exact Hk.
      - intros k Hk. apply Hfacts; exact Hk.
      - intros e k s Hk Hs. apply Hfacts; assumption.
      - intros e s Hs. rewrite Hsc. replace (s <? 4)%nat with false by (symmetry; apply Nat.ltb_ge; lia). reflexivity.
      - intros e. destruct (us_valid e (sd_us s0)) eqn:EV.
        + left. intros k Hk. exists (SV (norm (sd_tok (sdk k)))).
          destruct (Hfacts k Hk) as [_ [_ [_ [F [_ V]]]]]. rewrite F, V, EV. split; [reflexivity|].
          rewrite Hsc, EV, Hq0 by exact Hk. replace (k <? 4)%nat with true by (symmetry; apply Nat.ltb_lt; lia). reflexivity.
        + right. split.
          * intros k s Hk. apply (tracked_invalid rs imp k (sdk k) (rk k) e (Htk k Hk)); [apply Hn; exact Hk|].
            destruct (Hfacts k Hk) as [_ [_ [_ [_ [_ V]]]]]. rewrite V. exact EV.
          * intros s. rewrite Hsc, EV. destruct (s <? 4)%nat; reflexivity. }
    assert (Elast : Nat.max (Nat.max (sd_idx s0) (sd_idx s1)) (Nat.max (sd_idx s2) (sd_idx s3)) = last4 idx) by reflexivity.
    rewrite Elast. cbn [fst snd tr_imp].
    change (set_nth (last4 idx) (Some comb)
              (set_nth (sd_idx s3) None (set_nth (sd_idx s2) None (set_nth (sd_idx s1) None (set_nth (sd_idx s0) None rs)))))
      with (compacted rs idx comb).
    split; [exact Hpres|]. split; [|reflexivity].
    split.
    - intros s sd Hsd. cbn [tr_sides] in Hsd.
      assert (Hs4 : (s < 4)%nat).
      { destruct s as [|[|[|[|s]]]]; try lia. exfalso. destruct (HC _ _ Hsd) as [? ? Hlt]. lia. }
      assert (Esd : sd = mkSide (sd_tok (sdk s)) (sd_us (sdk s)) (last4 idx) false).
      { destruct s as [|[|[|[|]]]]; try lia; inversion Hsd; reflexivity. }
      subst sd. cbn [tr_imp].
      apply (Tracked aa _ imp s _ comb (sd_tok (sdk s))); cbn [sd_idx sd_single sd_tok sd_us]; try reflexivity.
      + exact Hs4.
      + rewrite (nth_compacted rs idx rk comb Hn), Nat.eqb_refl. reflexivity.
      + exact Hcomb_trk.
      + split; [reflexivity|]. exists q0. split; [apply spec_expand_compact | symmetry; apply Hq0; exact Hs4].
      + destruct (Htk s Hs4) as [? ? _ _ _ _ _ _ _ T]. exact T.
      + intros _ e. destruct (Hus s Hs4) as [Ue _]. rewrite Ue. apply Hcv.
      + intros j r' Hj Hr. rewrite (nth_compacted rs idx rk comb Hn) in Hr.
        assert (Ej1 : Nat.eqb j (last4 idx) = false) by (apply Nat.eqb_neq; lia). rewrite Ej1 in Hr.
        destruct (is_idx idx j) eqn:Ei; [discriminate|].
        apply (Hafter s j r' Hs4); [|exact Hr]. pose proof (last4_ge rs idx rk Hn s Hs4). lia.
    - intros s s' sd sd' Hsd Hsd' _ _. cbn [tr_sides] in Hsd, Hsd'.
      assert (forall s sd, match s with O => Some (mkSide (sd_tok s0) (sd_us s0) (last4 idx) false) | 1%nat => Some (mkSide (sd_tok s1) (sd_us s1) (last4 idx) false)
                                      | 2%nat => Some (mkSide (sd_tok s2) (sd_us s2) (last4 idx) false) | 3%nat => Some (mkSide (sd_tok s3) (sd_us s3) (last4 idx) false)
                                      | _ => tr_sides tr s end = Some sd -> sd_idx sd = last4 idx) as G.
      { intros x sdx Hx. destruct x as [|[|[|[|x]]]]; try (inversion Hx; reflexivity).
        exfalso. destruct (HC _ _ Hx) as [? ? Hlt]. lia. }
      rewrite (G _ _ Hsd), (G _ _ Hsd'). reflexivity.
  Qed.
End OpCompact.
