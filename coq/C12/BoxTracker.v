(* C12 model, part 6: internal/css_parser/css_decls_box.go  (boxTracker:
     unitSafetyTracker.includeUnitOf / isSafeWith, updateSide, mangleSides,
     mangleSide, compactRules) and the part of css_decls.go processDeclarations
     that drives it (margin / padding / inset cases, the lowering of `inset` to
     top/right/bottom/left through lowerInset, the final removal of blanked
     rules), with expandTokenQuad / compactTokenQuad on tokens.
   Executable definitions only.  The rule indices, the wasSingleRule flags, the
   "rules[i] = Rule{}" blanking and "ruleIndex = len(rules) - 1" are modelled
   literally (state after fixes dabbe91 and dece0db).

   Tokens (after convertTokens, i.e. numbers already minified):
     TNum v      number, v identifies the text, v = 0 is the text "0"
     TPct v      percentage
     TDim v u    dimension, value text v (0 = "0"), unit u
                 (DimensionUnitIsSafeLength: units 1..8 = cm em in mm pc pt px PX)
     TAuto e     the identifier auto; e = true iff spelled exactly "auto"
     TOther i    anything else (var(), other identifiers, functions)          *)
From V Require Import Common.Base C12.Mangle.

Inductive tok := TNum (v : Z) | TPct (v : Z) | TDim (v u : Z) | TAuto (exact : bool) | TOther (id : Z).
Inductive bkey := KShort | KSide (s : nat) | KOther (id : Z).
Record bdecl := mkB { b_key : bkey; b_val : list tok; b_imp : bool }.

Definition tok_eqb (a b : tok) : bool :=
  match a, b with
  | TNum x, TNum y => x =? y
  | TPct x, TPct y => x =? y
  | TDim x u, TDim y w => (x =? y) && (u =? w)
  | TAuto x, TAuto y => Bool.eqb x y
  | TOther x, TOther y => x =? y
  | _, _ => false
  end.

Definition safe_unit (u : Z) : bool := (1 <=? u) && (u <=? 8).
Definition is_numeric (t : tok) : bool := match t with TNum _ | TPct _ | TDim _ _ => true | _ => false end.

(* TurnLengthIntoNumberIfZero *)
Definition turn (t : tok) : tok := match t with TDim v u => if v =? 0 then TNum 0 else t | _ => t end.

Inductive ustatus := USafe | USingle (u : Z) | UMixed.
Definition us_safe (s : ustatus) : bool := match s with USafe => true | _ => false end.

(* unitSafetyTracker.includeUnitOf *)
Definition include_unit (us : ustatus) (t : tok) : ustatus :=
  match t with
  | TNum v => if v =? 0 then us else UMixed
  | TPct _ => us
  | TDim _ u =>
    if safe_unit u then us
    else match us with
         | USafe => USingle u
         | USingle u' => if u' =? u then us else UMixed
         | UMixed => UMixed
         end
  | _ => UMixed
  end.

(* a.isSafeWith(b) *)
Definition safe_with (a b : ustatus) : bool :=
  match a, b with
  | USafe, USafe => true
  | USingle u, USingle w => u =? w
  | _, _ => false
  end.

Definition quad := (tok * tok * tok * tok)%type.
Definition qnth (q : quad) (s : nat) : tok :=
  let '(a, b, c, d) := q in match s with O => a | 1%nat => b | 2%nat => c | _ => d end.

(* expandTokenQuad(tokens, allowedIdent): allowedIdent is "auto" or "" *)
Definition quad_tok_ok (allow_auto : bool) (t : tok) : bool :=
  is_numeric t || match t with TAuto true => allow_auto | _ => false end.
Definition expand_quad_tok (allow_auto : bool) (l : list tok) : option quad :=
  if forallb (quad_tok_ok allow_auto) l then
    match l with
    | [a] => Some (a, a, a, a)
    | [a; b] => Some (a, b, a, b)
    | [a; b; c] => Some (a, b, c, b)
    | [a; b; c; d] => Some (a, b, c, d)
    | _ => None
    end
  else None.

(* compactTokenQuad *)
Definition compact_quad_tok (q : quad) : list tok :=
  let '(a, b, c, d) := q in
  if tok_eqb d b then
    if tok_eqb c a then
      if tok_eqb b a then [a] else [a; b]
    else [a; b; c]
  else [a; b; c; d].

Record bside := mkSide { sd_tok : tok; sd_us : ustatus; sd_idx : nat; sd_single : bool }.
Record tracker := mkTr { tr_sides : nat -> option bside; tr_imp : bool }.
Definition no_sides : nat -> option bside := fun _ => None.
Definition tracker0 : tracker := mkTr no_sides false.
Definition set_side (f : nat -> option bside) (s : nat) (v : option bside) : nat -> option bside :=
  fun s' => if Nat.eqb s' s then v else f s'.

Definition rules := list (option bdecl).     (* None = css_ast.Rule{} (blanked) *)

(* box.updateSide *)
Definition update_side (rs : rules) (tr : tracker) (s : nat) (new : bside) : rules * tracker :=
  let rs' :=
    match tr_sides tr s with
    | Some old =>
      if (negb (sd_single new) || sd_single old) && us_safe (sd_us old) && us_safe (sd_us new)
      then set_nth (sd_idx old) None rs else rs
    | None => rs
    end in
  (rs', mkTr (set_side (tr_sides tr) s (Some new)) (tr_imp tr)).

(* box.compactRules; can_compact = (box.key != DUnknown) *)
Definition compact_rules (can_compact : bool) (rs : rules) (tr : tracker) : rules * tracker :=
  if negb can_compact then (rs, tr) else
  match tr_sides tr 0%nat, tr_sides tr 1%nat, tr_sides tr 2%nat, tr_sides tr 3%nat with
  | Some s0, Some s1, Some s2, Some s3 =>
    if safe_with (sd_us s1) (sd_us s0) && safe_with (sd_us s2) (sd_us s0) && safe_with (sd_us s3) (sd_us s0) then
      let tokens := compact_quad_tok (sd_tok s0, sd_tok s1, sd_tok s2, sd_tok s3) in
      let last := Nat.max (Nat.max (sd_idx s0) (sd_idx s1)) (Nat.max (sd_idx s2) (sd_idx s3)) in
      let rs1 := set_nth (sd_idx s3) None (set_nth (sd_idx s2) None (set_nth (sd_idx s1) None (set_nth (sd_idx s0) None rs))) in
      let rs2 := set_nth last (Some (mkB KShort tokens (tr_imp tr))) rs1 in
      let mv := fun sd => Some (mkSide (sd_tok sd) (sd_us sd) last false) in
      (rs2, mkTr (fun s => match s with O => mv s0 | 1%nat => mv s1 | 2%nat => mv s2 | 3%nat => mv s3 | _ => tr_sides tr s end) (tr_imp tr))
    else (rs, tr)
  | _, _, _, _ => (rs, tr)
  end.

Definition reset_if_imp (tr : tracker) (imp : bool) : tracker :=
  if Bool.eqb (tr_imp tr) imp then tr else mkTr no_sides imp.

(* box.mangleSides; the declaration d is already the last element of rs *)
Definition mangle_sides (allow_auto can_compact : bool) (rs : rules) (tr : tracker) (d : bdecl) : rules * tracker :=
  let tr := reset_if_imp tr (b_imp d) in
  match expand_quad_tok allow_auto (b_val d) with
  | Some q =>
    let us := fold_left (fun us t => if negb allow_auto || is_numeric t then include_unit us t else us)
                        [qnth q 0; qnth q 1; qnth q 2; qnth q 3] USafe in
    let idx := (length rs - 1)%nat in
    let side := fun (st : rules * tracker) (s : nat) =>
      let t := qnth q s in
      let t := if us_safe us then turn t else t in
      update_side (fst st) (snd st) s (mkSide t us idx false) in
    let st := side (side (side (side (rs, tr) 0%nat) 1%nat) 2%nat) 3%nat in
    compact_rules can_compact (fst st) (snd st)
  | None => (rs, mkTr no_sides (tr_imp tr))
  end.

(* box.mangleSide *)
Definition mangle_side (allow_auto can_compact : bool) (rs : rules) (tr : tracker) (d : bdecl) (s : nat) : rules * tracker :=
  let tr := reset_if_imp tr (b_imp d) in
  let reset := (rs, mkTr no_sides (tr_imp tr)) in
  match b_val d with
  | [t] =>
    if is_numeric t || (match t with TAuto _ => allow_auto | _ => false end) then
      let us := if negb allow_auto || is_numeric t then include_unit USafe t else USafe in
      let idx := (length rs - 1)%nat in
      let t' := if us_safe us then turn t else t in
      (* tokens[0] = t : the declaration itself is rewritten *)
      let rs := if us_safe us && negb (tok_eqb t' t) then set_nth idx (Some (mkB (b_key d) [t'] (b_imp d))) rs else rs in
      let st := update_side rs tr s (mkSide t' us idx true) in
      compact_rules can_compact (fst st) (snd st)
    else reset
  | _ => reset
  end.

(* one iteration of the processDeclarations loop for one box family.
   lower = the target lacks `inset` and this family is inset (then can_compact = false) *)
Definition box_step (allow_auto can_compact lower : bool) (st : rules * tracker) (d : bdecl) : rules * tracker :=
  let '(rs, tr) := st in
  match b_key d with
  | KOther _ => (rs ++ [Some d], tr)
  | KSide s => mangle_side allow_auto can_compact (rs ++ [Some d]) tr d s
  | KShort =>
    match (if lower then expand_quad_tok false (b_val d) else None) with
    | Some q =>
      (* lowerInset: the declaration is replaced by four longhands, each appended and registered *)
      fold_left (fun st s =>
        let d' := mkB (KSide s) [qnth q s] (b_imp d) in
        mangle_side allow_auto can_compact (fst st ++ [Some d']) (snd st) d' s)
        [0%nat; 1%nat; 2%nat; 3%nat] (rs, tr)
    | None => mangle_sides allow_auto can_compact (rs ++ [Some d]) tr d
    end
  end.

Fixpoint live (rs : rules) : list bdecl :=
  match rs with
  | [] => []
  | Some d :: r => d :: live r
  | None :: r => live r
  end.

(* the tracker pass of processDeclarations (with the final compaction of blanked rules) *)
Definition box_process (allow_auto can_compact lower : bool) (l : list bdecl) : list bdecl :=
  live (fst (fold_left (box_step allow_auto can_compact lower) l ([], tracker0))).
