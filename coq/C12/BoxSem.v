(* Semantic preservation of the three kinds of edits the tracker makes to the
   rule array: blanking overridden declarations, rewriting the last
   declaration's token (0px -> 0), collapsing four sides into a shorthand. *)
From V Require Import Common.Base C12.Mangle C12.BoxTracker C12.BoxSpec C12.BoxLemmas C12.BoxTokens.

Section Sem.
  Variable aa : bool.

  Definition sem_eq (rs rs' : rules) : Prop :=
    length rs' = length rs /\
    (forall e imp s, layer e aa imp s (live rs') = layer e aa imp s (live rs)) /\
    filter is_other (live rs') = filter is_other (live rs).

  Lemma sem_eq_refl rs : sem_eq rs rs.
  Proof. repeat split. Qed.
  Lemma sem_eq_trans a b c : sem_eq a b -> sem_eq b c -> sem_eq a c.
  Proof.
    intros [L1 [S1 O1]] [L2 [S2 O2]]. split; [congruence|]. split; [|congruence].
    intros e imp s. rewrite S2, S1. reflexivity.
  Qed.

  Lemma other_pointwise rs rs' : length rs = length rs' ->
    (forall j, match nth_error rs j with Some (Some d) => if is_other d then [d] else [] | _ => [] end =
               match nth_error rs' j with Some (Some d) => if is_other d then [d] else [] | _ => [] end) ->
    filter is_other (live rs) = filter is_other (live rs').
  Proof. intros HL H. rewrite !filter_as_flat_map. apply flat_map_live_pointwise; assumption. Qed.

  (* entries may be blanked when the last entry overrides them in every browser *)
  Lemma blank_preserves rs rs' :
    length rs' = length rs ->
    nth_error rs' (length rs - 1) = nth_error rs (length rs - 1) ->
    (forall j, nth_error rs' j = nth_error rs j \/
       (nth_error rs' j = Some None /\ exists r, nth_error rs j = Some (Some r) /\ is_other r = false /\
          forall e imp s, eff e aa imp s r <> None ->
            exists dn, nth_error rs (length rs - 1) = Some (Some dn) /\ eff e aa imp s dn <> None)) ->
    sem_eq rs rs'.
  Proof.
    intros HL Hlast H. split; [exact HL|]. split.
    - intros e imp s. rewrite !layer_lastset, HL.
      set (n := length rs) in *.
      destruct (effO e aa imp s (nth_error rs (n - 1))) as [v|] eqn:EL.
      + assert (Hn : (n - 1 < n)%nat).
        { subst n. destruct rs as [|x0 rs0]; [destruct (0 - 1)%nat; cbn in EL; discriminate EL | cbn [length]; lia]. }
        rewrite (lastset_at _ n (n - 1) v); try lia; [|rewrite Hlast; exact EL].
        rewrite (lastset_at _ n (n - 1) v); try lia; [reflexivity | exact EL].
      + apply lastset_ext. intros j Hj. destruct (H j) as [E|[E [r [Er [_ Hov]]]]]; [rewrite E; reflexivity|].
        rewrite E, Er. cbn [effO]. destruct (eff e aa imp s r) eqn:Ef; [|reflexivity].
        destruct (Hov e imp s) as [dn [Hd1 Hd2]]; [rewrite Ef; discriminate|].
        rewrite Hd1 in EL. cbn [effO] in EL. contradiction.
    - symmetry. apply other_pointwise; [symmetry; exact HL|]. intros j.
      destruct (H j) as [E|[E [r [Er [Ho _]]]]]; [rewrite E; reflexivity|].
      rewrite E, Er, Ho. reflexivity.
  Qed.

  (* replacing one entry by a declaration with the same effect *)
  Lemma replace_preserves rs i d d' :
    nth_error rs i = Some (Some d) ->
    (forall e s, sets e aa d' s = sets e aa d s) -> b_imp d' = b_imp d ->
    is_other d = false -> is_other d' = false ->
    sem_eq rs (set_nth i (Some d') rs).
  Proof.
    intros Hi Hs Himp Ho Ho'.
    assert (Hlt : (i < length rs)%nat) by (apply nth_error_Some; rewrite Hi; discriminate).
    split; [apply set_nth_length|]. split.
    - intros e imp s. rewrite !layer_lastset, set_nth_length. apply lastset_ext. intros j Hj.
      destruct (Nat.eq_dec j i) as [->|Hne].
      + rewrite nth_set_nth_same by exact Hlt. rewrite Hi. cbn [effO]. unfold eff. rewrite Himp, Hs. reflexivity.
      + rewrite nth_set_nth_other by exact Hne. reflexivity.
    - apply other_pointwise; [apply set_nth_length|]. intros j.
      destruct (Nat.eq_dec j i) as [->|Hne].
      + rewrite nth_set_nth_same by exact Hlt. rewrite Hi, Ho, Ho'. reflexivity.
      + rewrite nth_set_nth_other by exact Hne. reflexivity.
  Qed.
End Sem.
