(* The border-radius tracker invariant and its basic consequences. *)
From V Require Import Common.Base C12.Mangle C12.BoxTracker C12.BoxSpec C12.BoxLemmas C12.BoxTokens C12.BoxSem C12.BoxCompact
  C12.GenSem C12.RadiusTracker C12.RadiusSpec.

Definition rsem_eq := gsem_eq rval rsets.

(* the declaration a tracked corner points at, and the two tokens h0 v0 in it that give the corner's radii *)
Definition rshape (r : bdecl) (c : nat) (single : bool) (h0 v0 : tok) : Prop :=
  if single then
    exists one : bool, b_key r = KSide c /\ b_val r = (if one then [h0] else [h0; v0]) /\
      is_numeric h0 = true /\ is_numeric v0 = true /\ (one = true -> v0 = h0)
  else
    exists before aft q1 q2, b_key r = KShort /\ split_slash (b_val r) = (before, aft) /\
      forallb is_numeric before = true /\ forallb is_numeric (second_list before aft) = true /\
      spec_expand before = Some q1 /\ spec_expand (second_list before aft) = Some q2 /\
      h0 = qnth q1 c /\ v0 = qnth q2 c.

Inductive rtracked (rs : rules) (imp0 : bool) (c : nat) (rc : rcorner) : Prop :=
| RTracked (r : bdecl) (h0 v0 : tok)
    (Hc : (c < 4)%nat)
    (Hnth : nth_error rs (rc_idx rc) = Some (Some r))
    (Himp : b_imp r = imp0)
    (Hshape : rshape r c (rc_single rc) h0 v0)
    (Hnh : norm (rc_first rc) = norm h0)
    (Hnv : norm (rc_second rc) = norm v0)
    (Hokh : forall e, rok e (rc_first rc) = rok e h0)
    (Hokv : forall e, rok e (rc_second rc) = rok e v0)
    (Hnumf : is_numeric (rc_first rc) = true)
    (Hnums : is_numeric (rc_second rc) = true)
    (Hval : rc_us rc <> UMixed -> forall e, rvalid e r = us_valid e (rc_us rc))
    (Hafter : forall j r', (rc_idx rc < j)%nat -> nth_error rs j = Some (Some r') -> affects r' c = false).

Definition rtrinv (rs : rules) (tr : rtracker) : Prop :=
  (forall c rc, rt_corners tr c = Some rc -> rtracked rs (rt_imp tr) c rc) /\
  (forall c c' rc rc', rt_corners tr c = Some rc -> rt_corners tr c' = Some rc' ->
     rc_single rc = false -> rc_single rc' = false -> rc_idx rc = rc_idx rc').

Lemma rtrinv_none rs imp : rtrinv rs (mkRT no_corners imp).
Proof. split; intros; discriminate. Qed.

Lemma rtracked_lt rs imp0 c rc : rtracked rs imp0 c rc -> (rc_idx rc < length rs)%nat.
Proof. intros [r h0 v0 _ Hnth]. apply nth_error_Some. rewrite Hnth. discriminate. Qed.

Lemma all4_nth (P : tok -> bool) q c : all4 P q = true -> (c < 4)%nat -> P (qnth q c) = true.
Proof.
  unfold all4. intros H Hc. repeat (apply andb_true_iff in H as [H ?]).
  destruct c as [|[|[|[|]]]]; try lia; assumption.
Qed.

Lemma rvalid_single e c h v imp (one : bool) : is_numeric h = true -> is_numeric v = true -> (one = true -> v = h) ->
  rvalid e (mkB (KSide c) (if one then [h] else [h; v]) imp) = rok e h && rok e v.
Proof.
  intros Hh Hv Hone. unfold rvalid, rtoks. cbn [b_val]. destruct one.
  - rewrite (Hone eq_refl). assert (F : filter nonslash [h] = [h]) by (apply numeric_facts; cbn; rewrite Hh; reflexivity).
    rewrite F. cbn. destruct (rok e h); reflexivity.
  - assert (F : filter nonslash [h; v] = [h; v]) by (apply numeric_facts; cbn; rewrite Hh, Hv; reflexivity).
    rewrite F. cbn. rewrite andb_true_r. reflexivity.
Qed.

(* what a rule of the tracked shape does *)
Lemma rshape_facts r c single h0 v0 : (c < 4)%nat -> rshape r c single h0 v0 ->
  is_other r = false /\ affects r c = true /\
  (forall e c', (4 <= c')%nat -> rsets e r c' = None) /\
  (forall e, rsets e r c = if rvalid e r then Some (RV (norm h0) (norm v0)) else None) /\
  (forall e, rvalid e r = false -> forall c', rsets e r c' = None) /\
  (forall e, rvalid e r = true -> rok e h0 = true /\ rok e v0 = true) /\
  (single = true -> forall e, rvalid e r = rok e h0 && rok e v0).
Proof.
  intros Hc Hs. destruct r as [k val i]. unfold rshape in Hs. cbn [b_key b_val] in Hs. destruct single.
  - destruct Hs as [one [-> [-> [Hh [Hv Hone]]]]].
    split; [reflexivity|]. split; [unfold affects; cbn; apply Nat.eqb_refl|].
    split; [|split; [|split; [|split]]].
    + intros e c' Hc'. rewrite rsets_single by assumption. destruct (Nat.eqb_spec c c'); [lia | reflexivity].
    + intros e. rewrite rsets_single, rvalid_single by assumption. rewrite Nat.eqb_refl. reflexivity.
    + intros e Hf c'. rewrite rsets_single by assumption. rewrite rvalid_single in Hf by assumption. rewrite Hf.
      destruct (Nat.eqb c c'); reflexivity.
    + intros e Ht. rewrite rvalid_single in Ht by assumption. apply andb_true_iff in Ht. exact Ht.
    + intros _ e. apply rvalid_single; assumption.
  - destruct Hs as [before [aft [q1 [q2 [-> [Hsp [Hb [Ha [H1 [H2 [-> ->]]]]]]]]]]].
    split; [reflexivity|]. split; [reflexivity|].
    split; [|split; [|split; [|split]]].
    + intros e c' Hc'. rewrite (rsets_short e val i c' before aft q1 q2) by assumption.
      replace (c' <? 4)%nat with false by (symmetry; apply Nat.ltb_ge; lia). reflexivity.
    + intros e. rewrite (rsets_short e val i c before aft q1 q2), (rvalid_short e val i before aft) by assumption.
      replace (c <? 4)%nat with true by (symmetry; apply Nat.ltb_lt; lia). reflexivity.
    + intros e Hf c'. rewrite (rsets_short e val i c' before aft q1 q2) by assumption.
      rewrite (rvalid_short e val i before aft) in Hf by assumption. rewrite Hf. destruct (c' <? 4)%nat; reflexivity.
    + intros e Ht. rewrite (rvalid_short e val i before aft) in Ht by assumption.
      apply andb_true_iff in Ht as [T1 T2].
      rewrite (forallb_spec_expand _ _ q1 H1) in T1. rewrite (forallb_spec_expand _ _ q2 H2) in T2.
      split; apply all4_nth; assumption.
    + discriminate.
Qed.

(* all corners tracked in one shorthand read the same two quads *)
Lemma rshape_short r c h v : rshape r c false h v ->
  exists q1 q2, (forall c' h' v', rshape r c' false h' v' -> h' = qnth q1 c' /\ v' = qnth q2 c') /\
    (forall e, rvalid e r = all4 (rok e) q1 && all4 (rok e) q2).
Proof.
  intros [before [aft [q1 [q2 [Hk [Hsp [Hb [Ha [H1 [H2 _]]]]]]]]]]. exists q1, q2. split.
  - intros c' h' v' [before' [aft' [q1' [q2' [_ [Hsp' [_ [_ [H1' [H2' [-> ->]]]]]]]]]]].
    rewrite Hsp in Hsp'. inversion Hsp'; subst before' aft'. rewrite H1 in H1'. rewrite H2 in H2'.
    inversion H1'; inversion H2'; subst. split; reflexivity.
  - intros e. destruct r as [k val i]. cbn [b_key b_val] in *. subst k.
    rewrite (rvalid_short e val i before aft) by assumption.
    rewrite (forallb_spec_expand _ _ q1 H1), (forallb_spec_expand _ _ q2 H2). reflexivity.
Qed.

(* a tracked corner survives edits that leave its rule alone and add nothing that affects it *)
Lemma rtracked_transfer rs rs' imp0 c rc :
  rtracked rs imp0 c rc ->
  nth_error rs' (rc_idx rc) = nth_error rs (rc_idx rc) ->
  (forall j r', (rc_idx rc < j)%nat -> nth_error rs' j = Some (Some r') ->
     nth_error rs j = Some (Some r') \/ affects r' c = false) ->
  rtracked rs' imp0 c rc.
Proof.
  intros [r h0 v0 Hc Hnth Himp Hshape Hnh Hnv Hokh Hokv Hnumf Hnums Hval Hafter] Hsame Hnew.
  apply (RTracked rs' imp0 c rc r h0 v0); try assumption.
  - rewrite Hsame. exact Hnth.
  - intros j r' Hj Hr'. destruct (Hnew j r' Hj Hr') as [H|H]; [eapply Hafter; eassumption | exact H].
Qed.

(* summary used by the operations *)
Lemma rtracked_rule rs imp0 c rc : rtracked rs imp0 c rc ->
  exists r, nth_error rs (rc_idx rc) = Some (Some r) /\ b_imp r = imp0 /\ is_other r = false /\
    affects r c = true /\
    (forall e c', (4 <= c')%nat -> rsets e r c' = None) /\
    (rc_single rc = true -> b_key r = KSide c) /\
    (rc_single rc = false -> b_key r = KShort) /\
    (forall e, rsets e r c = if rvalid e r then Some (RV (norm (rc_first rc)) (norm (rc_second rc))) else None) /\
    (forall e, rvalid e r = false -> forall c', rsets e r c' = None) /\
    (forall e, rvalid e r = true -> rok e (rc_first rc) = true /\ rok e (rc_second rc) = true) /\
    (rc_us rc <> UMixed -> forall e, rvalid e r = us_valid e (rc_us rc)).
Proof.
  intros [r h0 v0 Hc Hnth Himp Hshape Hnh Hnv Hokh Hokv Hnumf Hnums Hval Hafter].
  destruct (rshape_facts r c (rc_single rc) h0 v0 Hc Hshape) as [F1 [F2 [F3 [F4 [F5 [F6 F7]]]]]].
  exists r. repeat split; try assumption.
  - intros Hs. rewrite Hs in Hshape. destruct Hshape as [one [Hk _]]. exact Hk.
  - intros Hs. rewrite Hs in Hshape. destruct Hshape as [? [? [? [? [Hk _]]]]]. exact Hk.
  - intros e. rewrite F4, Hnh, Hnv. reflexivity.
  - rewrite Hokh. apply (F6 e H).
  - rewrite Hokv. apply (F6 e H).
Qed.
