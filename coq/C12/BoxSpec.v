(* C12 specification side for box shorthands (CSS Box Model 3 / CSS Inset:
   margin, padding, inset and their four longhands; CSS Cascade: within one
   declaration block the last valid declaration of a side wins, important ones
   over normal ones; CSS Syntax: a declaration with a value the browser does not
   understand is dropped as a whole).  Written from the standards; it does not
   use the tracker's unit-safety classification.

   A browser environment says which non-safe units it knows, which non-zero
   unitless numbers it would accept, and whether it accepts an opaque
   declaration (one containing var(), other keywords, functions ...). *)
From V Require Import Common.Base C12.BoxTracker.

Record benv := mkBE { unit_ok : Z -> bool; num_ok : Z -> bool; opaque_ok : bkey -> list tok -> bool }.

Definition tok_ok (e : benv) (allow_auto : bool) (t : tok) : bool :=
  match t with
  | TNum v => (v =? 0) || num_ok e v
  | TPct _ => true
  | TDim _ u => safe_unit u || unit_ok e u
  | TAuto _ => allow_auto
  | TOther _ => false
  end.

(* the value a token denotes: "0px" (any safe length unit) is the length 0; auto is case-insensitive *)
Definition norm (t : tok) : tok :=
  match t with
  | TDim v u => if (v =? 0) && safe_unit u then TNum 0 else t
  | TAuto _ => TAuto true
  | _ => t
  end.

Inductive sval := SV (t : tok) | SWhole (l : list tok) (s : nat).

Definition is_other_tok (t : tok) : bool := match t with TOther _ => true | _ => false end.
Definition plain (l : list tok) : bool := forallb (fun t => negb (is_other_tok t)) l.

(* 1 value: all sides; 2: vertical horizontal; 3: top horizontal bottom; 4: top right bottom left *)
Definition spec_expand (l : list tok) : option quad :=
  match l with
  | [a] => Some (a, a, a, a)
  | [a; b] => Some (a, b, a, b)
  | [a; b; c] => Some (a, b, c, b)
  | [a; b; c; d] => Some (a, b, c, d)
  | _ => None
  end.

(* what declaration d sets side s to, if this browser accepts it and it concerns side s *)
Definition sets (e : benv) (aa : bool) (d : bdecl) (s : nat) : option sval :=
  match b_key d with
  | KOther _ => None
  | KSide s' =>
    if Nat.eqb s' s then
      if plain (b_val d) then
        match b_val d with
        | [t] => if tok_ok e aa t then Some (SV (norm t)) else None
        | _ => None
        end
      else if opaque_ok e (b_key d) (b_val d) then Some (SWhole (b_val d) s) else None
    else None
  | KShort =>
    if (s <? 4)%nat then
      if plain (b_val d) then
        match spec_expand (b_val d) with
        | Some q => if forallb (tok_ok e aa) (b_val d) then Some (SV (norm (qnth q s))) else None
        | None => None
        end
      else if opaque_ok e (b_key d) (b_val d) then Some (SWhole (b_val d) s) else None
    else None
  end.

Definition eff (e : benv) (aa imp : bool) (s : nat) (d : bdecl) : option sval :=
  if Bool.eqb (b_imp d) imp then sets e aa d s else None.

(* the last declaration of the given importance that sets side s *)
Definition layer (e : benv) (aa imp : bool) (s : nat) (l : list bdecl) : option sval :=
  fold_left (fun acc d => match eff e aa imp s d with Some v => Some v | None => acc end) l None.

Definition side_value (e : benv) (aa : bool) (l : list bdecl) (s : nat) : option sval :=
  match layer e aa true s l with Some v => Some v | None => layer e aa false s l end.

Definition is_other (d : bdecl) : bool := match b_key d with KOther _ => true | _ => false end.
Definition wf_keys (l : list bdecl) : Prop :=
  Forall (fun d => match b_key d with KSide s => (s < 4)%nat | _ => True end) l.
