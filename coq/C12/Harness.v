(* Checkers evaluated by the correspondence run (vm_compute on the cases file
   the Go harness writes): each returns the indices of the cases on which the
   model and the observed output of the real code differ. *)
From V Require Import Common.Base C12.Text C12.Hex C12.ColorSpec gen.ColorTablesGen.

Definition optz_eqb (a : option Z) (ok : bool) (v : Z) : bool :=
  match a with Some x => ok && (x =? v) | None => negb ok end.

(* parseHex: (runes, Go ok, Go value) *)
Definition hex_ok (c : list Z * bool * Z) : bool :=
  let '(t, ok, v) := c in optz_eqb (parseHex t) ok v.
Definition check_hex := mismatches hex_ok.

(* compactHex / expandHex: (v, Go compactHex v, Go expandHex (v mod 2^16 ... as given)) *)
Definition hexops_ok (c : Z * Z * Z * Z) : bool :=
  let '(v, cv, w, ew) := c in (compactHex v =? cv) && (expandHex w =? ew).
Definition check_hexops := mismatches hexops_ok.

(* text of alphaFractionTable[4a : 4a+4] cut at the first space *)
Fixpoint take_until_space (l : list Z) : list Z :=
  match l with
  | [] => []
  | c :: r => if c =? 32 then [] else c :: take_until_space r
  end.
Definition alpha_text (a : Z) : list Z :=
  take_until_space (firstn 4 (skipn (Z.to_nat (4 * a)) alphaFractionTable)).

Definition render_ctoken (t : ctoken) : list Z :=
  match t with
  | CIdent n => n
  | CHash d => 35 :: d
  | CRgba r g b a =>
    [114;103;98;97;40] ++ dec_of_Z r ++ [44] ++ dec_of_Z g ++ [44] ++ dec_of_Z b ++ [44] ++ alpha_text a ++ [41]
  end.

(* tryToGenerateColor through Parse+Print of "a{color:#RRGGBBAA}" with
   whitespace minification: (hex, minifySyntax, HexRGBA unsupported, printed value) *)
Definition gen_ok (c : Z * bool * bool * list Z) : bool :=
  let '(hex, minify, unsup, out) := c in
  zlist_eqb (render_ctoken (generate_color shortColorName minify unsup hex)) out.
Definition check_gen := mismatches gen_ok.

(* ---- cascade: the Go evaluator's winner against Cascade.winner ---- *)
From V Require Import C12.Cascade.

Definition mem (x : Z) (l : list Z) : bool := existsb (Z.eqb x) l.
Fixpoint assoc_zz (k : Z) (l : list (Z * Z)) : Z :=
  match l with [] => 0 | (k', v) :: r => if k' =? k then v else assoc_zz k r end.

Definition mk_item (c : bool * list Z * list Z * list Z * list (Z * Z * bool * Z)) : item :=
  let '(stmt, conds, layer, sels, decls) := c in
  mkItem stmt conds layer sels (map (fun d => let '(pr, v, imp, syn) := d in mkDecl pr v imp syn) decls).

(* (items, true condition ids, understood selector ids, selector ids matching the
   element, specificity table, property, Go winner value id or -1) *)
Definition casc_ok (c : list (bool * list Z * list Z * list Z * list (Z * Z * bool * Z)) * list Z * list Z * list Z * list (Z * Z) * Z * Z) : bool :=
  let '(items, trueconds, und, matching, specs, p, wexp) := c in
  let w := mkWorld (fun c => mem c trueconds) (fun s => mem s und) (fun syn => syn =? 0)
                   (fun s _ => mem s matching) (fun s => assoc_zz s specs) in
  match winner w (map mk_item items) 0 p with
  | Some v => v =? wexp
  | None => wexp =? -1
  end.
Definition check_casc := mismatches casc_ok.

(* ---- numbers ---- *)
From V Require Import C12.NumberCss.
Definition num_ok (c : list Z * list Z * bool) : bool :=
  let '(t, out, changed) := c in
  let '(m, ch) := mangleNumber t in zlist_eqb m out && Bool.eqb ch changed.
Definition check_num := mismatches num_ok.

Definition shift_ok (c : list Z * Z * bool * list Z) : bool :=
  let '(t, off, ok, out) := c in
  match shiftDot t off with
  | Some s => ok && zlist_eqb s out
  | None => negb ok
  end.
Definition check_shift := mismatches shift_ok.

Definition dim_ok (c : list Z * list Z * list Z * list Z) : bool :=
  let '(v, u, ov, ou) := c in
  let '(mv, mu) := mangle_dimension_token v u in zlist_eqb mv ov && zlist_eqb mu ou.
Definition check_dim := mismatches dim_ok.

(* ---- rule trees: mangle_sheet against what api.Transform printed ---- *)
From V Require Import C12.Mangle.
Fixpoint tree_eqb (a b : rule) : bool :=
  match a, b with
  | RSel s1 d1, RSel s2 d2 => leqb (fun x y => s_id x =? s_id y) s1 s2 && leqb decl_eqb d1 d2
  | RMedia q1 b1, RMedia q2 b2 => (q1 =? q2) && leqb tree_eqb b1 b2
  | RCond t1 p1 b1, RCond t2 p2 b2 => (t1 =? t2) && (p1 =? p2) && leqb tree_eqb b1 b2
  | RLayer n1 _ b1, RLayer n2 _ b2 => leqb zlist_eqb n1 n2 && leqb tree_eqb b1 b2
  | ROpaque k1 i1, ROpaque k2 i2 => (k1 =? k2) && (i1 =? i2)
  | RComment i1, RComment i2 => i1 =? i2
  | _, _ => false
  end.
Definition mangle_ok (c : list rule * list rule) : bool :=
  let '(i, o) := c in leqb tree_eqb (mangle_sheet i) o.
Definition check_mangle := mismatches mangle_ok.

(* ---- isConditionalImportRedundant: (earlier, later, Go result); a condition is [layer; supports; media] ids, 0 = absent ---- *)
From V Require Import C12.ImportOrder.
Definition mk_ic (l : list Z) : icond :=
  let f := fun v => if v =? 0 then [] else [v] in
  match l with [a; b; c] => mkIC (f a) (f b) (f c) | _ => mkIC [] [] [] end.
Definition red_ok (c : list (list Z) * list (list Z) * bool) : bool :=
  let '(e, l, r) := c in Bool.eqb (redundant (map mk_ic e) (map mk_ic l)) r.
Definition check_red := mismatches red_ok.

(* ---- boxTracker: box_process (then the declaration-level duplicate removal of
   mangleRules) against what api.Transform printed for "a{<declarations>}" ---- *)
From V Require Import C12.BoxTracker.
Definition bkey_eqb (a b : bkey) : bool :=
  match a, b with
  | KShort, KShort => true
  | KSide x, KSide y => Nat.eqb x y
  | KOther x, KOther y => x =? y
  | _, _ => false
  end.
Definition bdecl_eqb (a b : bdecl) : bool :=
  bkey_eqb (b_key a) (b_key b) && leqb tok_eqb (b_val a) (b_val b) && Bool.eqb (b_imp a) (b_imp b).
(* (allow_auto, can_compact, lower, input declarations, observed output declarations) *)
Definition box_ok (c : bool * bool * bool * list bdecl * list bdecl) : bool :=
  let '(aa, cc, lower, i, o) := c in
  leqb bdecl_eqb (fst (rd bdecl_eqb (fun _ => false) (fun _ => true) (box_process aa cc lower i) [])) o.
Definition check_box := mismatches box_ok.

(* ---- borderRadiusTracker: radius_process (then declaration-level duplicate removal) ---- *)
From V Require Import C12.RadiusTracker.
Definition radius_ok (c : list bdecl * list bdecl) : bool :=
  let '(i, o) := c in
  leqb bdecl_eqb (fst (rd bdecl_eqb (fun _ => false) (fun _ => true) (radius_process i) [])) o.
Definition check_radius := mismatches radius_ok.

(* ---- percentage reference ranges: (function, component, observed n, observed d) ---- *)
Definition pctref_ok (c : Z * Z * Z * Z) : bool :=
  let '(fn, comp, n, d) := c in
  match model_pct_ref fn comp with Some (mn, md) => (mn * d =? n * md) | None => false end.
Definition check_pctref := mismatches pctref_ok.

(* ---- nesting lowering: lower_is on every selector of the nested rule ---- *)
From V Require Import C12.Nesting.
Fixpoint cp_eqb (a b : compound) {struct a} : bool :=
  match a, b with
  | Cp k1 a1 t1 s1, Cp k2 a2 t2 s2 =>
    (k1 =? k2) && Bool.eqb a1 a2 &&
    (match t1, t2 with Some x, Some y => x =? y | None, None => true | _, _ => false end) && sub_eqb s1 s2
  end
with sub_eqb (a b : sublist) {struct a} : bool :=
  match a, b with
  | SNil, SNil => true
  | SClass i r, SClass j r' => (i =? j) && sub_eqb r r'
  | SPc n l r, SPc n' l' r' => Bool.eqb n n' && sl_eqb l l' && sub_eqb r r'
  | _, _ => false
  end
with cx_eqb (a b : complex) {struct a} : bool :=
  match a, b with
  | XNil, XNil => true
  | XCons c r, XCons c' r' => cp_eqb c c' && cx_eqb r r'
  | _, _ => false
  end
with sl_eqb (a b : sellist) {struct a} : bool :=
  match a, b with
  | LNil, LNil => true
  | LCons x r, LCons x' r' => cx_eqb x x' && sl_eqb r r'
  | _, _ => false
  end.
Fixpoint lmap (f : complex -> complex) (l : sellist) : sellist :=
  match l with LNil => LNil | LCons x r => LCons (f x) (lmap f r) end.
Definition nest_ok (c : sellist * sellist * sellist) : bool :=
  let '(parents, child, out) := c in sl_eqb (lmap (lower_is parents) child) out.
Definition check_nest := mismatches nest_ok.
Fixpoint list2l (l : list complex) : sellist := match l with [] => LNil | x :: r => LCons x (list2l r) end.
Definition nestx_ok (c : sellist * sellist * sellist) : bool :=
  let '(parents, child, out) := c in sl_eqb (list2l (lower_expand parents child)) out.
Definition check_nestx := mismatches nestx_ok.
(* the selector semantics against the cascade oracle's matcher *)
Fixpoint lb_eqb (a b : list bool) : bool :=
  match a, b with [] , [] => true | x :: r, y :: r' => Bool.eqb x y && lb_eqb r r' | _, _ => false end.
Definition nestsem_ok (c : list node * sellist * complex * list bool) : bool :=
  let '(d, parents, cx, want) := c in
  let D := tree_dom d in
  lb_eqb (map (matches D (tab (size D) (ok_l D [] parents)) cx) (seq 0 (size D))) want.
Definition check_nestsem := mismatches nestsem_ok.

(* ---- hsl()/hwb() -> sRGB: the CSS Color 4 conversion against the colour esbuild prints ---- *)
From V Require Import C12.HslSpec C12.HslModel.
Definition check_hslrgb := mismatches hslrgb_both_ok.
