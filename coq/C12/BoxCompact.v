(* Collapsing the four tracked sides into one shorthand placed at the greatest
   tracked index preserves every layer in every browser. *)
From V Require Import Common.Base C12.Mangle C12.BoxTracker C12.BoxSpec C12.BoxLemmas C12.BoxTokens C12.BoxSem.

Section Compact.
  Variable aa : bool.
  Variable rs : rules.
  Variable idx : nat -> nat.
  Variable rk : nat -> bdecl.
  Variable comb : bdecl.
  Variable imp0 : bool.

  Definition last4 : nat := Nat.max (Nat.max (idx 0) (idx 1)) (Nat.max (idx 2) (idx 3)).
  Definition blanked : rules :=
    set_nth (idx 3) None (set_nth (idx 2) None (set_nth (idx 1) None (set_nth (idx 0) None rs))).
  Definition compacted : rules := set_nth last4 (Some comb) blanked.

  Hypothesis Hn : forall k, (k < 4)%nat -> nth_error rs (idx k) = Some (Some (rk k)).
  Lemma eff_none e imp s d : sets e aa d s = None -> eff e aa imp s d = None.
  Proof. intros H. unfold eff. rewrite H. destruct (Bool.eqb (b_imp d) imp); reflexivity. Qed.

  Lemma idx_lt k : (k < 4)%nat -> (idx k < length rs)%nat.
  Proof. intros H. apply nth_error_Some. rewrite (Hn k H). discriminate. Qed.

  Definition is_idx (j : nat) : bool :=
    Nat.eqb j (idx 0) || Nat.eqb j (idx 1) || Nat.eqb j (idx 2) || Nat.eqb j (idx 3).

  Lemma is_idx_true j : is_idx j = true -> exists k, (k < 4)%nat /\ j = idx k.
  Proof.
    unfold is_idx. intros H. repeat (apply orb_true_iff in H as [H|H]); apply Nat.eqb_eq in H.
    - exists 0%nat; split; [lia | exact H].
    - exists 1%nat; split; [lia | exact H].
    - exists 2%nat; split; [lia | exact H].
    - exists 3%nat; split; [lia | exact H].
  Qed.

  Lemma idx_is k : (k < 4)%nat -> is_idx (idx k) = true.
  Proof.
    intros H. unfold is_idx. destruct k as [|[|[|[|]]]]; try lia; rewrite Nat.eqb_refl; rewrite ?orb_true_r; reflexivity.
  Qed.

  Lemma last4_is : exists k, (k < 4)%nat /\ last4 = idx k.
  Proof.
    unfold last4.
    destruct (Nat.max_dec (idx 0) (idx 1)) as [E1|E1]; destruct (Nat.max_dec (idx 2) (idx 3)) as [E2|E2];
      rewrite E1, E2;
      match goal with |- context [Nat.max ?a ?b] => destruct (Nat.max_dec a b) as [E3|E3]; rewrite E3 end;
      (eexists; split; cycle 1; [reflexivity | lia]).
  Qed.

  Lemma last4_ge k : (k < 4)%nat -> (idx k <= last4)%nat.
  Proof. intros H. unfold last4. destruct k as [|[|[|[|]]]]; lia. Qed.

  Lemma nth_blanked j : nth_error blanked j = if is_idx j then Some None else nth_error rs j.
  Proof.
    unfold blanked, is_idx. rewrite !nth_set_nth, !set_nth_length.
    pose proof (idx_lt 0 ltac:(lia)) as L0. pose proof (idx_lt 1 ltac:(lia)) as L1.
    pose proof (idx_lt 2 ltac:(lia)) as L2. pose proof (idx_lt 3 ltac:(lia)) as L3.
    apply Nat.ltb_lt in L0, L1, L2, L3. rewrite L0, L1, L2, L3, !andb_true_r.
    destruct (Nat.eqb j (idx 0)), (Nat.eqb j (idx 1)), (Nat.eqb j (idx 2)), (Nat.eqb j (idx 3)); reflexivity.
  Qed.

  Lemma nth_compacted j : nth_error compacted j =
    if Nat.eqb j last4 then Some (Some comb) else if is_idx j then Some None else nth_error rs j.
  Proof.
    unfold compacted. rewrite nth_set_nth. unfold blanked at 1. rewrite !set_nth_length.
    destruct last4_is as [k [Hk Ek]]. pose proof (idx_lt k Hk) as L. rewrite <- Ek in L.
    apply Nat.ltb_lt in L. rewrite L, andb_true_r.
    destruct (Nat.eqb j last4); [reflexivity | apply nth_blanked].
  Qed.

  Hypothesis Himp : forall k, (k < 4)%nat -> b_imp (rk k) = imp0.
  Hypothesis Himpc : b_imp comb = imp0.
  Hypothesis Hoth : forall k, (k < 4)%nat -> is_other (rk k) = false.
  Hypothesis Hothc : is_other comb = false.
  Hypothesis Hhi : forall e k s, (k < 4)%nat -> (4 <= s)%nat -> sets e aa (rk k) s = None.
  Hypothesis Hhic : forall e s, (4 <= s)%nat -> sets e aa comb s = None.
  Hypothesis Hafter : forall k j r', (k < 4)%nat -> (idx k < j)%nat ->
    nth_error rs j = Some (Some r') -> affects r' k = false.
  Hypothesis Hsem : forall e,
    (forall k, (k < 4)%nat -> exists v, sets e aa (rk k) k = Some v /\ sets e aa comb k = Some v) \/
    ((forall k s, (k < 4)%nat -> sets e aa (rk k) s = None) /\ forall s, sets e aa comb s = None).


  Theorem compact_preserves : sem_eq aa rs compacted.
  Proof.
    assert (HL : length compacted = length rs) by (unfold compacted, blanked; rewrite !set_nth_length; reflexivity).
    destruct last4_is as [kl [Hkl Ekl]].
    split; [exact HL|]. split.
    - intros e imp s. rewrite !layer_lastset, HL.
      (* effect of a modified position *)
      assert (Hmod : forall j, is_idx j = true -> exists k, (k < 4)%nat /\ j = idx k /\
                effO e aa imp s (nth_error rs j) = eff e aa imp s (rk k)).
      { intros j Hj. destruct (is_idx_true j Hj) as [k [Hk ->]]. exists k. repeat split; [exact Hk|]. rewrite (Hn k Hk). reflexivity. }
      assert (Hpoint : (forall k, (k < 4)%nat -> eff e aa imp s (rk k) = None) -> eff e aa imp s comb = None ->
                lastset (fun j => effO e aa imp s (nth_error compacted j)) (length rs) =
                lastset (fun j => effO e aa imp s (nth_error rs j)) (length rs)).
      { intros Hr Hc. apply lastset_ext. intros j Hj. rewrite nth_compacted.
        destruct (Nat.eqb j last4) eqn:El.
        - apply Nat.eqb_eq in El. subst j. cbn [effO]. rewrite Hc, Ekl, (Hn kl Hkl). cbn [effO]. rewrite Hr by exact Hkl. reflexivity.
        - destruct (is_idx j) eqn:Ei; [|reflexivity]. destruct (Hmod j Ei) as [k [Hk [_ E]]]. rewrite E, Hr by exact Hk. reflexivity. }
      destruct (bool_dec imp0 imp) as [Eimp|Eimp].
      2:{ assert (Ef : Bool.eqb imp0 imp = false) by (apply Bool.eqb_false_iff; exact Eimp).
          apply Hpoint.
          - intros k Hk. unfold eff. rewrite (Himp k Hk), Ef. reflexivity.
          - unfold eff. rewrite Himpc, Ef. reflexivity. }
      destruct (le_lt_dec 4 s) as [Hs|Hs].
      { apply Hpoint.
        - intros k Hk. apply eff_none. apply Hhi; assumption.
        - apply eff_none. apply Hhic; assumption. }
      destruct (Hsem e) as [HV|[HN HNc]].
      2:{ apply Hpoint.
          - intros k Hk. apply eff_none. apply HN; assumption.
          - apply eff_none. apply HNc. }
      destruct (HV s Hs) as [v [Hv1 Hv2]].
      assert (Hafter' : forall j, (idx s < j)%nat -> effO e aa imp s (nth_error rs j) = None).
      { intros j Hj. destruct (nth_error rs j) as [[r'|]|] eqn:En; try reflexivity. cbn [effO].
        apply eff_none. apply not_affects_sets. apply (Hafter s j r' Hs Hj En). }
      transitivity (Some v).
      + apply (lastset_at _ _ last4 v).
        * rewrite Ekl; apply idx_lt; exact Hkl.
        * rewrite nth_compacted, Nat.eqb_refl. cbn [effO]. unfold eff. rewrite Himpc, Eimp, Bool.eqb_reflx. exact Hv2.
        * intros j' H1 H2. rewrite nth_compacted.
          assert (E1 : Nat.eqb j' last4 = false) by (apply Nat.eqb_neq; lia). rewrite E1.
          destruct (is_idx j') eqn:Ei; [reflexivity|].
          apply Hafter'. pose proof (last4_ge s Hs). lia.
      + symmetry. apply (lastset_at _ _ (idx s) v).
        * apply idx_lt; exact Hs.
        * rewrite (Hn s Hs). cbn [effO]. unfold eff. rewrite (Himp s Hs), Eimp, Bool.eqb_reflx. exact Hv1.
        * intros j' H1 H2. apply Hafter'. exact H1.
    - symmetry. apply other_pointwise; [symmetry; exact HL|]. intros j. rewrite nth_compacted.
      destruct (Nat.eqb j last4) eqn:El.
      + apply Nat.eqb_eq in El. subst j. rewrite Ekl, (Hn kl Hkl), (Hoth kl Hkl), Hothc. reflexivity.
      + destruct (is_idx j) eqn:Ei; [|reflexivity].
        destruct (is_idx_true j Ei) as [k [Hk ->]]. rewrite (Hn k Hk), (Hoth k Hk). reflexivity.
  Qed.
End Compact.
