(* List/index lemmas and the "last setter" view of a layer, for the box proofs. *)
From V Require Import Common.Base C12.Mangle C12.BoxTracker C12.BoxSpec.

Lemma set_nth_length {A} (x : A) : forall l n, length (set_nth n x l) = length l.
Proof. induction l as [|y l IH]; intros [|n]; cbn [set_nth length]; auto. Qed.

Lemma nth_set_nth {A} (x : A) : forall l n j,
  nth_error (set_nth n x l) j = if Nat.eqb j n && Nat.ltb n (length l) then Some x else nth_error l j.
Proof.
  induction l as [|y l IH]; intros n j.
  { assert (E : set_nth n x (@nil A) = []) by (destruct n; reflexivity). rewrite E. cbn [length].
    replace (n <? 0)%nat with false by (symmetry; apply Nat.ltb_ge; lia). rewrite andb_false_r. reflexivity. }
  destruct n as [|n], j as [|j]; cbn [set_nth nth_error length]; try reflexivity.
  - rewrite IH. cbn [Nat.eqb]. destruct (Nat.eqb j n); cbn [andb]; [|reflexivity].
    change (S n <? S (length l))%nat with (n <? length l)%nat. reflexivity.
Qed.

Lemma nth_set_nth_same {A} (x : A) l n : (n < length l)%nat -> nth_error (set_nth n x l) n = Some x.
Proof. intros H. rewrite nth_set_nth, Nat.eqb_refl. apply Nat.ltb_lt in H. rewrite H. reflexivity. Qed.

Lemma nth_set_nth_other {A} (x : A) l n j : j <> n -> nth_error (set_nth n x l) j = nth_error l j.
Proof. intros H. rewrite nth_set_nth. apply Nat.eqb_neq in H. rewrite H. reflexivity. Qed.

Lemma live_app a b : live (a ++ b) = live a ++ live b.
Proof. induction a as [|[d|] a IH]; cbn [app live]; rewrite ?IH; reflexivity. Qed.

(* ---- layers ---- *)
Section Layer.
  Variable e : benv.
  Variables aa imp : bool.
  Variable s : nat.

  Definition step (acc : option sval) (d : bdecl) : option sval :=
    match eff e aa imp s d with Some v => Some v | None => acc end.

  Lemma layer_from l : forall acc,
    fold_left step l acc = match fold_left step l None with Some v => Some v | None => acc end.
  Proof.
    induction l as [|d l IH]; intros acc; cbn [fold_left]; [reflexivity|].
    rewrite IH. rewrite (IH (step None d)). unfold step.
    destruct (fold_left _ l None); [reflexivity|]. destruct (eff e aa imp s d); reflexivity.
  Qed.

  Lemma layer_app l1 l2 : layer e aa imp s (l1 ++ l2) =
    match layer e aa imp s l2 with Some v => Some v | None => layer e aa imp s l1 end.
  Proof. unfold layer. fold step. rewrite fold_left_app. apply layer_from. Qed.

  Lemma layer_one d : layer e aa imp s [d] = eff e aa imp s d.
  Proof. unfold layer. cbn. destruct (eff e aa imp s d); reflexivity. Qed.

  (* positional view *)
  Definition effO (x : option (option bdecl)) : option sval :=
    match x with Some (Some d) => eff e aa imp s d | _ => None end.

  Fixpoint lastset (f : nat -> option sval) (n : nat) : option sval :=
    match n with
    | O => None
    | S k => match f k with Some v => Some v | None => lastset f k end
    end.

  Lemma lastset_ext f g n : (forall j, (j < n)%nat -> f j = g j) -> lastset f n = lastset g n.
  Proof.
    induction n as [|n IH]; intros H; cbn [lastset]; [reflexivity|].
    rewrite (H n) by lia. rewrite IH by (intros; apply H; lia). reflexivity.
  Qed.

  Lemma lastset_at f n j v : (j < n)%nat -> f j = Some v ->
    (forall j', (j < j')%nat -> (j' < n)%nat -> f j' = None) -> lastset f n = Some v.
  Proof.
    induction n as [|n IH]; intros Hj Hv Hn; [lia|]. cbn [lastset].
    destruct (Nat.eq_dec j n) as [->|Hne].
    - rewrite Hv. reflexivity.
    - rewrite (Hn n) by lia. apply IH; [lia | exact Hv | intros; apply Hn; lia].
  Qed.

  Lemma lastset_none f n : (forall j, (j < n)%nat -> f j = None) -> lastset f n = None.
  Proof.
    induction n as [|n IH]; intros H; cbn [lastset]; [reflexivity|].
    rewrite (H n) by lia. apply IH. intros; apply H; lia.
  Qed.

  Lemma layer_lastset : forall rs,
    layer e aa imp s (live rs) = lastset (fun j => effO (nth_error rs j)) (length rs).
  Proof.
    induction rs as [|x rs IH] using rev_ind; [reflexivity|].
    rewrite live_app, layer_app, app_length. cbn [length]. rewrite Nat.add_1_r. cbn [lastset].
    rewrite nth_error_app2 by lia. rewrite Nat.sub_diag. cbn [nth_error].
    assert (HX : layer e aa imp s (live [x]) = effO (Some x)).
    { destruct x as [d|]; cbn [live effO]; [apply layer_one | reflexivity]. }
    rewrite HX. destruct (effO (Some x)); [reflexivity|].
    rewrite IH. apply lastset_ext. intros j Hj. rewrite nth_error_app1 by exact Hj. reflexivity.
  Qed.
End Layer.

(* anything computed declaration by declaration is determined position by position *)
Lemma flat_map_live_pointwise {X} (g : bdecl -> list X) : forall rs rs',
  length rs = length rs' ->
  (forall j, match nth_error rs j with Some (Some d) => g d | _ => [] end =
             match nth_error rs' j with Some (Some d) => g d | _ => [] end) ->
  flat_map g (live rs) = flat_map g (live rs').
Proof.
  induction rs as [|x rs IH]; intros [|y rs'] HL H; try discriminate; [reflexivity|].
  cbn [length] in HL. pose proof (H O) as H0. cbn [nth_error] in H0.
  assert (HT : flat_map g (live rs) = flat_map g (live rs')).
  { apply IH; [lia|]. intros j. apply (H (S j)). }
  destruct x as [d|], y as [d'|]; cbn [live flat_map]; rewrite ?HT, ?H0; try reflexivity.
  - rewrite <- H0. reflexivity.
Qed.

Lemma filter_as_flat_map {A} (f : A -> bool) (l : list A) :
  filter f l = flat_map (fun d => if f d then [d] else []) l.
Proof. induction l as [|x l IH]; cbn [filter flat_map]; [reflexivity|]. rewrite IH. destruct (f x); reflexivity. Qed.
