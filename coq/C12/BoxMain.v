(* The tracker pass of processDeclarations preserves, in every browser, the
   value of each of the four sides, and leaves all other declarations alone. *)
From V Require Import Common.Base C12.Mangle C12.BoxTracker C12.BoxSpec C12.BoxLemmas C12.BoxTokens C12.BoxSem C12.BoxInv
  C12.BoxOpCompact C12.BoxOpSide C12.BoxOpShort.

Section Main.
  Variables aa cc : bool.

  Definition binv (inL : list bdecl) (st : rules * tracker) : Prop :=
    (forall e imp s, layer e aa imp s (live (fst st)) = layer e aa imp s inL) /\
    filter is_other (live (fst st)) = filter is_other inL /\
    trinv aa (fst st) (snd st).

  Lemma binv_append inL rs d :
    (forall e imp s, layer e aa imp s (live rs) = layer e aa imp s inL) ->
    filter is_other (live rs) = filter is_other inL ->
    (forall e imp s, layer e aa imp s (live (rs ++ [Some d])) = layer e aa imp s (inL ++ [d])) /\
    filter is_other (live (rs ++ [Some d])) = filter is_other (inL ++ [d]).
  Proof.
    intros HA HB. split.
    - intros e imp s. rewrite live_app, !layer_app. cbn [live]. rewrite HA. reflexivity.
    - rewrite live_app, !filter_app, HB. reflexivity.
  Qed.

  Lemma binv_sem inL rs rs' tr' d :
    (forall e imp s, layer e aa imp s (live rs) = layer e aa imp s inL) ->
    filter is_other (live rs) = filter is_other inL ->
    sem_eq aa (rs ++ [Some d]) rs' -> trinv aa rs' tr' -> binv (inL ++ [d]) (rs', tr').
  Proof.
    intros HA HB [_ [HS HO]] HT. destruct (binv_append inL rs d HA HB) as [HA' HB'].
    split; [|split]; cbn [fst snd].
    - intros e imp s. rewrite HS. apply HA'.
    - rewrite HO. exact HB'.
    - exact HT.
  Qed.

  Lemma step_binv inL st d :
    match b_key d with KSide s => (s < 4)%nat | _ => True end ->
    binv inL st -> binv (inL ++ [d]) (box_step aa cc false st d).
  Proof.
    intros Hwf [HA [HB HT]]. destruct st as [rs tr]. cbn [fst snd] in *. unfold box_step.
    destruct (b_key d) as [|s|i] eqn:Ek.
    - destruct (mangle_sides_inv aa cc rs tr d HT Ek) as [S1 T1].
      destruct (mangle_sides aa cc (rs ++ [Some d]) tr d) as [rs' tr'] eqn:E. cbn [fst snd] in *.
      eapply binv_sem; eassumption.
    - destruct (mangle_side_inv aa cc rs tr d s HT Ek Hwf) as [S1 T1].
      destruct (mangle_side aa cc (rs ++ [Some d]) tr d s) as [rs' tr'] eqn:E. cbn [fst snd] in *.
      eapply binv_sem; eassumption.
    - destruct (binv_append inL rs d HA HB) as [HA' HB'].
      split; [exact HA'|]. split; [exact HB'|]. cbn [fst snd].
      destruct HT as [HC HE]. split; [|exact HE].
      intros s sd Hsd. pose proof (HC s sd Hsd) as Tk.
      pose proof (tracked_lt aa rs _ _ _ Tk) as Lt.
      apply (tracked_transfer aa rs (rs ++ [Some d]) _ s sd Tk); [apply nth_error_app1; exact Lt|].
      intros j r' Hj Hr. destruct (Nat.lt_ge_cases j (length rs)) as [Hl|Hg].
      + left. rewrite nth_error_app1 in Hr by exact Hl. exact Hr.
      + right. rewrite nth_error_app2 in Hr by exact Hg.
        destruct (j - length rs)%nat as [|n]; cbn in Hr; [|destruct n; discriminate].
        inversion Hr; subst r'. unfold affects. rewrite Ek. reflexivity.
  Qed.

  Lemma fold_binv : forall l inL st, wf_keys l -> binv inL st ->
    binv (inL ++ l) (fold_left (box_step aa cc false) l st).
  Proof.
    induction l as [|d l IH]; intros inL st Hwf H; cbn [fold_left]; [rewrite app_nil_r; exact H|].
    inversion Hwf as [|? ? Hd Hl]; subst.
    replace (inL ++ d :: l) with ((inL ++ [d]) ++ l) by (rewrite <- app_assoc; reflexivity).
    apply IH; [exact Hl|]. apply step_binv; assumption.
  Qed.

  Lemma binv0 : binv [] ([], tracker0).
  Proof. split; [reflexivity|]. split; [reflexivity|]. apply trinv_none. Qed.

  Theorem box_layers_all : forall l, wf_keys l -> forall e imp s,
    layer e aa imp s (box_process aa cc false l) = layer e aa imp s l.
  Proof. intros l Hwf e imp s. destruct (fold_binv l [] _ Hwf binv0) as [HA _]. apply HA. Qed.

  Theorem box_collapse_keeps_sides_all : forall l, wf_keys l -> forall e s,
    side_value e aa (box_process aa cc false l) s = side_value e aa l s.
  Proof. intros l Hwf e s. unfold side_value. rewrite !box_layers_all by exact Hwf. reflexivity. Qed.

  Theorem box_collapse_keeps_others_all : forall l, wf_keys l ->
    filter is_other (box_process aa cc false l) = filter is_other l.
  Proof. intros l Hwf. destruct (fold_binv l [] _ Hwf binv0) as [_ [HB _]]. apply HB. Qed.
End Main.

(* the lowering of inset changes the unit of invalidation: witness *)
Definition lower_env : benv := mkBE (fun _ => false) (fun _ => false) (fun _ _ => false).
Definition lower_wit : list bdecl :=
  [mkB (KSide 2) [TDim 3 7] false; mkB KShort [TDim 2 20; TDim 1 2; TPct 1; TDim 0 7] false; mkB (KSide 2) [TDim 1 20] false].
Lemma box_lowering_refuted_witness : exists e l s, wf_keys l /\
  side_value e true (box_process true false true l) s <> side_value e true l s.
Proof.
  exists lower_env, lower_wit, 2%nat. split.
  - repeat constructor.
  - vm_compute. discriminate.
Qed.
