(* C12 SPECIFICATION: the cascade (CSS Cascading and Inheritance Level 5,
   section 6 "Cascading": 6.1 cascade sort order, 6.4 cascade layers; Selectors
   Level 4 section 17 for specificity; CSS Syntax 3 section 2.2 / CSS 2.1 4.1.8
   for error handling: an unknown selector invalidates the whole style rule, an
   unknown value invalidates the declaration).  Author origin only.

   Written from the standards, independent of esbuild's code.

   A style sheet is given FLATTENED: a list of items in document order, each
   carrying its context (the conditions that must all hold, the cascade layer
   path it sits in).  An `@layer a.b;` statement and the opening of every
   `@layer a.b { ... }` block are items with i_stmt = true: they are what fixes
   the layer order ("layers are ordered by first declaration"; a layer in a
   conditional group rule whose condition is false does not count).

   The browser environment is a [world]:
     cond_true       truth of each media/supports/container condition
     sel_understood  which selectors this browser can parse
     val_understood  which value syntaxes (by feature id; 0 = universal)
     matches         which elements a selector matches
     spec            selector specificity as one number (a,b,c packed)      *)
From V Require Import Common.Base.

Record decl := mkDecl { d_prop : Z; d_val : Z; d_imp : bool; d_syn : Z }.

Record item := mkItem {
  i_stmt : bool;            (* layer statement / layer block opening *)
  i_conds : list Z;         (* enclosing conditions, all must be true *)
  i_layer : list Z;         (* layer path, [] = unlayered *)
  i_sels : list Z;          (* selector list (selector ids) *)
  i_decls : list decl }.

Record world := mkWorld {
  cond_true : Z -> bool;
  sel_understood : Z -> bool;
  val_understood : Z -> bool;
  matches : Z -> Z -> bool;    (* selector -> element -> bool *)
  spec : Z -> Z }.

(* ---- layer order ---- *)

Fixpoint is_prefix (p q : list Z) : bool :=
  match p, q with
  | [], _ => true
  | x :: p', y :: q' => (x =? y) && is_prefix p' q'
  | _ :: _, [] => false
  end.

Definition conds_hold (w : world) (cs : list Z) : bool := forallb (cond_true w) cs.

(* layer paths declared by the active statements, in order of appearance *)
Definition declared (w : world) (sheet : list item) : list (list Z) :=
  map i_layer (filter (fun it => i_stmt it && conds_hold w (i_conds it)) sheet).

(* position of the first declared path that has pfx as a prefix *)
Fixpoint first_pos (decl : list (list Z)) (pfx : list Z) (i : Z) : Z :=
  match decl with
  | [] => i
  | d :: r => if is_prefix pfx d then i else first_pos r pfx (i + 1)
  end.

(* all non-empty prefixes of a path, shortest first *)
Fixpoint prefixes_from (acc : list Z) (p : list Z) : list (list Z) :=
  match p with
  | [] => []
  | x :: r => (acc ++ [x]) :: prefixes_from (acc ++ [x]) r
  end.

(* sort key of a layer: the first-declaration positions along its path, then a
   sentinel larger than every position (a layer's own rules form an implicit
   last sub-layer; unlayered styles form the implicit last layer).  Larger key
   = later layer = wins among normal declarations. *)
Definition layer_key (decl : list (list Z)) (p : list Z) : list Z :=
  map (fun pfx => first_pos decl pfx 0) (prefixes_from [] p) ++ [Z.of_nat (length decl) + 1].

(* ---- strength of a declaration: importance, layer, specificity ---- *)

Fixpoint lex_cmp (a b : list Z) : comparison :=
  match a, b with
  | [], [] => Eq
  | [], _ :: _ => Lt
  | _ :: _, [] => Gt
  | x :: a', y :: b' => match x ?= y with Eq => lex_cmp a' b' | c => c end
  end.

(* importance first; among important declarations the layer order is reversed *)
Definition strength (decl : list (list Z)) (imp : bool) (layer : list Z) (sp : Z) : list Z :=
  if imp then 1 :: map Z.opp (layer_key decl layer) ++ [sp]
  else 0 :: layer_key decl layer ++ [sp].

(* ---- candidates and the winner ---- *)

Definition cand := (list Z * Z)%type.      (* strength, value *)

Definition item_active (w : world) (it : item) : bool :=
  negb (i_stmt it) && conds_hold w (i_conds it) && forallb (sel_understood w) (i_sels it).

(* specificity of the most specific selector of the list that matches e *)
Definition best_spec (w : world) (sels : list Z) (e : Z) : option Z :=
  fold_left (fun acc s =>
    if matches w s e then
      match acc with None => Some (spec w s) | Some m => Some (Z.max m (spec w s)) end
    else acc) sels None.

Definition item_cands (w : world) (decl : list (list Z)) (e p : Z) (it : item) : list cand :=
  if item_active w it then
    match best_spec w (i_sels it) e with
    | None => []
    | Some sp =>
      map (fun d => (strength decl (d_imp d) (i_layer it) sp, d_val d))
          (filter (fun d => (d_prop d =? p) && val_understood w (d_syn d)) (i_decls it))
    end
  else [].

Definition cands (w : world) (decl : list (list Z)) (e p : Z) (sheet : list item) : list cand :=
  flat_map (item_cands w decl e p) sheet.

(* the later candidate wins unless it is strictly weaker *)
Definition join (a b : option cand) : option cand :=
  match a, b with
  | None, x => x
  | x, None => x
  | Some x, Some y => match lex_cmp (fst y) (fst x) with Lt => Some x | _ => Some y end
  end.

Definition best (l : list cand) : option cand :=
  fold_left (fun acc c => join acc (Some c)) l None.

(* the winning declaration value for element e and property p, if any *)
Definition winner (w : world) (sheet : list item) (e p : Z) : option Z :=
  option_map snd (best (cands w (declared w sheet) e p sheet)).
