(* Specification side of scope construction: ECMA-262 identifier resolution for
   strict-mode code, written from the specification's declaration-instantiation
   rules over the binding-form AST, independently of how js_parser represents
   scopes:
     - a Block / for-let body / catch body creates a declarative environment with
       its LexicallyDeclaredNames (let, const, class, function declarations in the
       block: 14.2.2 BlockDeclarationInstantiation);
     - catch (e) creates an environment with e around the catch body (14.15.2);
     - for (let x ...) creates an environment with x around the body (14.7.4);
     - a function creates (10.2.11 FunctionDeclarationInstantiation) an environment
       with the parameters, `arguments` (not for arrows), the VarDeclaredNames of
       the body and its top-level function declarations, and inside it one with the
       top-level lexical declarations; a named function expression adds an outer
       environment holding its own name (15.2.5);
     - the module environment holds the top-level var/function names and the
       top-level lexical names (16.2.1.6.4);
     - ResolveBinding walks the environments outwards (9.1.2.1).
   [spec_resolve] gives, for every reference of a program (a scope's direct
   references first, then those of nested statements in order), the DEPTH of the
   environment that binds it, counted from the global end (None: unresolvable =
   global).  Two programs of the same shape resolve alike iff these lists agree. *)
From V Require Import Common.Base C15.Names C15.Renamer C15.ScopeBuild C15.ScopeProg.

Definition frames := list (list name).     (* innermost environment first *)

Fixpoint frame_lookup (c : frames) (x : name) : option nat :=
  match c with
  | [] => None
  | f :: r => if mem_name x f then Some (length r) else frame_lookup r x
  end.

Definition lexically_declared (b : list stmt) : list name :=
  flat_map (fun s => match s with SLet x => [x] | SFunc f _ _ => [f] | _ => [] end) b.
Definition toplevel_lexical (b : list stmt) : list name :=
  flat_map (fun s => match s with SLet x => [x] | _ => [] end) b.
Definition toplevel_functions (b : list stmt) : list name :=
  flat_map (fun s => match s with SFunc f _ _ => [f] | _ => [] end) b.
Definition refs_here (b : list stmt) : list name :=
  flat_map (fun s => match s with SRef x => [x] | SEval => [eval_name] | _ => [] end) b.

Definition function_frames (self : option name) (ps : list name) (has_arguments : bool) (b : list stmt) (c : frames) : frames :=
  toplevel_lexical b ::
  (ps ++ (if has_arguments then [arguments_name] else []) ++ flat_map var_names b ++ toplevel_functions b) ::
  (match self with Some f => [[f]] | None => [] end) ++ c.

Definition spec_list (rec : frames -> stmt -> list (option nat)) (c : frames) (b : list stmt) : list (option nat) :=
  map (frame_lookup c) (refs_here b) ++ flat_map (rec c) b.

Fixpoint spec_stmt (c : frames) (s : stmt) : list (option nat) :=
  match s with
  | SVar _ | SLet _ | SRef _ | SEval => []
  (* with: the object environment binds nothing that is known statically; static
     resolution goes through it (the renamers pin what is referenced inside) *)
  | SWith b => spec_list spec_stmt (lexically_declared b :: c) b
  | SBlock b => spec_list spec_stmt (lexically_declared b :: c) b
  | STry b p cb =>
      spec_list spec_stmt (lexically_declared b :: c) b ++
      (match p with
       | Some e => spec_list spec_stmt (lexically_declared cb :: [e] :: c) cb
       | None => spec_list spec_stmt (lexically_declared cb :: c) cb
       end)
  | SForLet x b => spec_list spec_stmt (lexically_declared b :: [x] :: c) b
  | SFunc _ ps b => spec_list spec_stmt (function_frames None ps true b c) b
  | SFuncExpr self ps b => spec_list spec_stmt (function_frames self ps true b c) b
  | SArrow ps b => spec_list spec_stmt (function_frames None ps false b c) b
  end.

Definition spec_resolve (prog : list stmt) : list (option nat) :=
  spec_list spec_stmt [toplevel_lexical prog; flat_map var_names prog ++ toplevel_functions prog] prog.

(* ---- the output program: every declaration and reference printed with the name
   of the symbol the parser bound it to.  Mirrors the numbering of
   ScopeBuild.number_sk over ScopeProg.scopes_of (same counters, same
   environments) ---- *)
Section Apply.
  Variable nmf : nat -> name.

  Definition rn (E : env_t) (x : name) : name :=
    match env_get E x with Some i => nmf i | None => x end.

  Definition env_ext (E : env_t) (fresh : list name) (n : nat) : env_t :=
    combine fresh (seq n (length fresh)) ++ E.

  (* statements of one scope: E its environment, n the next free symbol number;
     returns the renamed statements and the next free number *)
  Definition apply_list (rec : env_t -> nat -> stmt -> stmt * nat) (E : env_t) (n : nat) (b : list stmt)
    : list stmt * nat :=
    fold_left (fun acc s => let '(out, m) := acc in let '(s', m') := rec E m s in (out ++ [s'], m')) b ([], n).

  Definition apply_block (rec : env_t -> nat -> stmt -> stmt * nat) (E : env_t) (n : nat) (b : list stmt)
    : list stmt * nat :=
    let fresh := dedup (flat_map direct_lex b ++ flat_map direct_fun b) in
    apply_list rec (env_ext E fresh n) (n + length fresh)%nat b.

  Definition apply_fn (rec : env_t -> nat -> stmt -> stmt * nat) (E : env_t) (n : nat)
             (self : option name) (ps : list name) (has_arguments : bool) (b : list stmt)
    : option name * list name * list stmt * nat :=
    let params := dedup ps in
    let selfn := match self with Some f => if mem_name f params then [] else [f] | None => [] end in
    let args := if has_arguments && negb (mem_name arguments_name params) then [arguments_name] else [] in
    let fresh_a := selfn ++ params ++ args in
    let Ea := env_ext E fresh_a n in
    let copied := params ++ args in
    let own := minus (dedup (flat_map var_names b ++ flat_map direct_fun b ++ flat_map direct_lex b)) copied in
    let n1 := (n + length fresh_a)%nat in
    let Eb := env_ext Ea own n1 in
    let '(b', n2) := apply_list rec Eb (n1 + length own)%nat b in
    (match self with Some f => Some (rn Ea f) | None => None end, map (rn Ea) ps, b', n2).

  Fixpoint apply_stmt (E : env_t) (n : nat) (s : stmt) : stmt * nat :=
    match s with
    | SVar x => (SVar (rn E x), n)
    | SLet x => (SLet (rn E x), n)
    | SRef x => (SRef (rn E x), n)
    | SEval => (SEval, n)
    | SWith b => let '(b', n') := apply_block apply_stmt E n b in (SWith b', n')
    | SBlock b => let '(b', n') := apply_block apply_stmt E n b in (SBlock b', n')
    | STry b p c =>
        let '(b', n1) := apply_block apply_stmt E n b in
        match p with
        | None => let '(c', n2) := apply_block apply_stmt E n1 c in (STry b' None c', n2)
        | Some e =>
            if mem_name e (flat_map var_names c)
            then let '(c', n2) := apply_block apply_stmt E n1 c in (STry b' (Some (rn E e)) c', n2)
            else let Ec := env_ext E [e] n1 in
                 let '(c', n2) := apply_block apply_stmt Ec (n1 + 1)%nat c in (STry b' (Some (rn Ec e)) c', n2)
        end
    | SForLet x b =>
        let Ef := env_ext E [x] n in
        let '(b', n') := apply_block apply_stmt Ef (n + 1)%nat b in (SForLet (rn Ef x) b', n')
    | SFunc f ps b =>
        let '(_, ps', b', n') := apply_fn apply_stmt E n None ps true b in (SFunc (rn E f) ps' b', n')
    | SFuncExpr self ps b =>
        let '(self', ps', b', n') := apply_fn apply_stmt E n self ps true b in (SFuncExpr self' ps' b', n')
    | SArrow ps b =>
        let '(_, ps', b', n') := apply_fn apply_stmt E n None ps false b in (SArrow ps' b', n')
    end.

  Definition apply_names (prog : list stmt) : list stmt :=
    match closed_psk prog with
    | PSk fresh _ _ _ =>
        let E := env_ext [] (map fst fresh) 0 in
        fst (apply_list apply_stmt E (length fresh) prog)
    end.
End Apply.
