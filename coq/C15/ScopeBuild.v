(* C15 model, part 3: how scope forests come about.

   A scope skeleton says, for every scope, which symbols are CREATED there
   (fresh: lexical declarations of a block, the var/function/parameter names a
   function owns, the free names the module scope collects), which names of the
   scope refer to a symbol created in an enclosing scope (shared: a `var` inside a
   block is the function's symbol; the function body scope repeats the parameters
   of the argument scope), and the child scopes in source order.  [number_sk]
   allocates symbol numbers the way the parser does (a counter, scopes in source
   order) and produces the scope tree and symbol table in the types of Renamer.v.
   [skel_of_prog] (ScopeProg.v) maps a binding-form AST to its skeleton following
   js_parser's pushScope / declareSymbol / hoistSymbols.

   Executable definitions only. *)
From V Require Import Common.Base C15.Names C15.Renamer.

Inductive sk := Sk (fresh : list (name * ns)) (shared : list name) (children : list sk).

Definition env_t := list (name * nat).
Fixpoint env_get (env : env_t) (x : name) : option nat :=
  match env with
  | [] => None
  | (k, i) :: r => if name_eqb x k then Some i else env_get r x
  end.

Definition shared_ids (env : env_t) (shared : list name) : list nat :=
  flat_map (fun x => match env_get env x with Some i => [i] | None => [] end) shared.

Definition fresh_syms (fresh : list (name * ns)) (n : nat) : list symbol :=
  map (fun p => mkSym (fst (fst p)) (snd (fst p)) None false 0 (Z.of_nat (snd p)))
      (combine fresh (seq n (length fresh))).

Fixpoint number_sk (env : env_t) (k : sk) (n : nat) : scope * list symbol * nat :=
  match k with
  | Sk fresh shared ch =>
      let ids := seq n (length fresh) in
      let env' := combine (map fst fresh) ids ++ env in
      let '(cs, syms, n') :=
        (fix go (ch : list sk) (n : nat) : list scope * list symbol * nat :=
           match ch with
           | [] => ([], [], n)
           | c :: r =>
               let '(sc, s1, n1) := number_sk env' c n in
               let '(scs, s2, n2) := go r n1 in
               (sc :: scs, s1 ++ s2, n2)
           end) ch (n + length fresh)%nat in
      (Scope (ids ++ shared_ids env shared) [] None false cs, fresh_syms fresh n ++ syms, n')
  end.

Fixpoint number_forest (env : env_t) (ch : list sk) (n : nat) : list scope * list symbol * nat :=
  match ch with
  | [] => ([], [], n)
  | c :: r =>
      let '(sc, s1, n1) := number_sk env c n in
      let '(scs, s2, n2) := number_forest env r n1 in
      (sc :: scs, s1 ++ s2, n2)
  end.

(* the module scope and the symbol table of a whole file *)
Definition build_sk (k : sk) : scope * symtab :=
  let '(sc, syms, _) := number_sk [] k 0 in (sc, syms).
