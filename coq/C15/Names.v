(* C15 model, part 1: names.
   Mirrors (Go, /repo):
     internal/ast/ast.go      NameMinifier.NumberToMinifiedName, NameMinifier.ShuffleByCharFreq
                              (charAndCountArray.Less), DefaultNameMinifierJS (regenerated: gen/C15KeywordsGen.v)
     strconv.Itoa             on the non-negative counters used by the renamers
     internal/js_ast/js_ident.go  IsIdentifier / ForceValidIdentifier restricted to ASCII names
   Names are lists of byte values (Z).  Executable definitions only. *)
From V Require Import Common.Base.
From V Require Import gen.C15KeywordsGen.

Definition name := list Z.
Definition name_eqb (a b : name) : bool := zlist_eqb a b.

Fixpoint mem_name (n : name) (l : list name) : bool :=
  match l with
  | [] => false
  | x :: r => if name_eqb n x then true else mem_name n r
  end.

(* ---- strconv.Itoa for v >= 0 (at most 40 digits: far beyond uint32/int64) ---- *)
Fixpoint digits_rev (fuel : nat) (v : Z) : list Z :=
  match fuel with
  | O => []
  | S f => if v <? 10 then [48 + v] else (48 + v mod 10) :: digits_rev f (v / 10)
  end.
Definition itoa (v : Z) : name := rev (digits_rev 40 v).

(* ---- NameMinifier ---- *)
Record minifier := mkMinifier { m_head : list Z; m_tail : list Z }.

Definition default_minifier : minifier := mkMinifier gen_minifier_head gen_minifier_tail.

Definition zlen (l : list Z) : Z := Z.of_nat (length l).
Definition char_at (l : list Z) (i : Z) : Z := nth (Z.to_nat i) l 0.

(* the loop  for i > 0 { i--; j := i % n_tail; name += tail[j]; i = i / n_tail } *)
Fixpoint min_tail (fuel : nat) (tail : list Z) (i : Z) : list Z :=
  match fuel with
  | O => []
  | S f =>
      if i <=? 0 then []
      else let i1 := i - 1 in
           char_at tail (i1 mod zlen tail) :: min_tail f tail (i1 / zlen tail)
  end.

Definition tail_fuel (i : Z) : nat := S (Z.to_nat (Z.log2 i)).

Definition NumberToMinifiedName (m : minifier) (i : Z) : name :=
  let nh := zlen (m_head m) in
  char_at (m_head m) (i mod nh) :: min_tail (tail_fuel (i / nh)) (m_tail m) (i / nh).

(* ---- ShuffleByCharFreq ----
   array[i] = (tail[i], index i, freq[i]); sort.Sort with
   Less a b = a.count > b.count || (a.count == b.count && a.index < b.index)
   which is a strict total order on distinct indices, so every correct sort
   yields the same sequence: modelled by insertion sort. *)
Definition cc_less (a b : Z * Z * Z) : bool :=   (* (char, index, count) *)
  let '(_, ia, ca) := a in let '(_, ib, cb) := b in
  (cb <? ca) || ((ca =? cb) && (ia <? ib)).

Fixpoint cc_insert (x : Z * Z * Z) (l : list (Z * Z * Z)) : list (Z * Z * Z) :=
  match l with
  | [] => [x]
  | y :: r => if cc_less y x then y :: cc_insert x r else x :: y :: r
  end.
Fixpoint cc_sort (l : list (Z * Z * Z)) : list (Z * Z * Z) :=
  match l with
  | [] => []
  | x :: r => cc_insert x (cc_sort r)
  end.

Fixpoint cc_array (tail : list Z) (freq : list Z) (i : Z) : list (Z * Z * Z) :=
  match tail with
  | [] => []
  | c :: r => (c, i, nth (Z.to_nat i) freq 0) :: cc_array r freq (i + 1)
  end.

Definition is_digit (c : Z) : bool := (48 <=? c) && (c <=? 57).

Definition ShuffleByCharFreq (src : minifier) (freq : list Z) : minifier :=
  let sorted := map (fun x => fst (fst x)) (cc_sort (cc_array (m_tail src) freq 0)) in
  mkMinifier (filter (fun c => negb (is_digit c)) sorted) sorted.

(* ---- identifiers (ASCII) ---- *)
Definition is_ident_start (c : Z) : bool :=
  ((97 <=? c) && (c <=? 122)) || ((65 <=? c) && (c <=? 90)) || (c =? 95) || (c =? 36).
Definition is_ident_continue (c : Z) : bool := is_ident_start c || is_digit c.

Definition IsIdentifier (n : name) : bool :=
  match n with
  | [] => false
  | c :: r => is_ident_start c && forallb is_ident_continue r
  end.

(* ForceValidIdentifier(prefix, text) for ASCII text (empty text gives "_") *)
Definition ForceValidIdentifier (prefix : name) (text : name) : name :=
  prefix ++
  match text with
  | [] => [95]
  | c :: r => (if is_ident_start c then c else 95)
              :: map (fun d => if is_ident_continue d then d else 95) r
  end.

Definition keywords : list name := gen_keywords.
Definition strict_reserved : list name := gen_strict_reserved.
