(* The number renamer never gives two distinct symbols visible in one scope
   the same name, and never a reserved name: every scope forest, by induction. *)
From V Require Import Common.Base C15.Names C15.NamesProofs C15.Renamer C15.Spec.

(* ---- induction principle for the nested scope type ---- *)
Section ScopeInd.
  Variable P : scope -> Prop.
  Hypothesis H : forall m g l e ch, Forall P ch -> P (Scope m g l e ch).
  Fixpoint scope_ind' (s : scope) : P s :=
    match s with
    | Scope m g l e ch =>
        H m g l e ch
          ((fix go (cs : list scope) : Forall P cs :=
              match cs with
              | [] => Forall_nil P
              | c :: r => Forall_cons c (scope_ind' c) (go r)
              end) ch)
    end.
End ScopeInd.

(* ---- the inner fixpoints are the forest functions ---- *)
Lemma assignRec_unfold fuel st m g l e ch chain names :
  assignRec fuel st (Scope m g l e ch) chain names =
  match (if nonempty m || nonempty g then
           match assignNames fuel st [] chain names (scope_decls (Scope m g l e ch)) with
           | None => None
           | Some (s, names') => Some (s :: chain, names')
           end
         else Some (chain, names)) with
  | None => None
  | Some (chain', names') => assignForest fuel st ch chain' names'
  end.
Proof.
  simpl.
  destruct (if nonempty m || nonempty g then _ else _) as [[chain' names']|]; [|reflexivity].
  revert names'. induction ch as [|c r IH]; intros names'; simpl; [reflexivity|].
  destruct (assignRec fuel st c chain' names'); [apply IH | reflexivity].
Qed.

Lemma vis_sets_unfold st m g l e ch anc :
  vis_sets st (Scope m g l e ch) anc =
  (canon_decls st (Scope m g l e ch) ++ anc)
    :: vis_forest st ch (canon_decls st (Scope m g l e ch) ++ anc).
Proof.
  simpl. unfold canon_decls, scope_decls. simpl. f_equal.
  generalize (map (follow st) (sort_nat m ++ g) ++ anc). intros v.
  induction ch as [|c r IH]; simpl; [reflexivity | rewrite IH; reflexivity].
Qed.

Lemma wf_scope_unfold st m g l e ch vis seen :
  wf_scope st (Scope m g l e ch) vis seen =
  match wf_refs vis seen (canon_decls st (Scope m g l e ch)) with
  | None => None
  | Some (vis', seen') => wf_forest st ch vis' seen'
  end.
Proof.
  simpl. destruct (wf_refs vis seen _) as [[vis' seen']|]; [|reflexivity].
  revert seen'. induction ch as [|c r IH]; intros seen'; simpl; [reflexivity|].
  destruct (wf_scope st c vis' seen'); [apply IH | reflexivity].
Qed.

(* ---- name maps ---- *)
Definition usedc (chain : list nmap) (n : name) : Prop :=
  existsb (fun m => nm_has m n) chain = true.

Lemma nm_has_set m k v n : nm_has (nm_set m k v) n = true <-> n = k \/ nm_has m n = true.
Proof.
  unfold nm_has, nm_set. simpl. destruct (name_eqb n k) eqn:E.
  - apply name_eqb_eq in E. split; auto.
  - apply name_eqb_neq in E. split; [auto | intros [?|?]; [contradiction | assumption]].
Qed.

Lemma findNameUse_unused s ps n :
  findNameUse s ps n = NameUnused <-> nm_has s n = false /\ existsb (fun m => nm_has m n) ps = false.
Proof.
  unfold findNameUse. destruct (nm_has s n); [split; [discriminate | intros [? _]; discriminate]|].
  destruct (existsb _ ps); split; try discriminate; auto. intros [_ ?]; discriminate.
Qed.

Lemma find_loop_unused fuel s ps prefix tries nm t :
  find_loop fuel s ps prefix tries = Some (nm, t) -> findNameUse s ps nm = NameUnused.
Proof.
  revert tries. induction fuel as [|f IH]; intros tries; simpl; [discriminate|].
  destruct (findNameUse s ps (prefix ++ itoa (tries + 1))) eqn:E; try apply IH.
  intros X. injection X as <- _. exact E.
Qed.

Lemma findUnusedName_fresh fuel s ps n0 nsp nm s' :
  findUnusedName fuel s ps n0 nsp = Some (nm, s') ->
  nm_has s nm = false /\ existsb (fun m => nm_has m nm) ps = false /\
  nm_has s' nm = true /\ (forall k, nm_has s k = true -> nm_has s' k = true).
Proof.
  unfold findUnusedName. destruct (valid_name nsp n0) as [n|]; [|discriminate].
  destruct (findNameUse s ps n) eqn:U.
  - intros X. injection X as <- <-. apply findNameUse_unused in U as [U1 U2].
    repeat split; auto.
    + apply nm_has_set. auto.
    + intros k Hk. apply nm_has_set. auto.
  - destruct (find_loop fuel s ps n 1) as [[nm1 t]|] eqn:L; [|discriminate].
    intros X. injection X as <- <-. apply find_loop_unused in L. apply findNameUse_unused in L as [U1 U2].
    repeat split; auto.
    + apply nm_has_set. auto.
    + intros k Hk. apply nm_has_set. auto.
  - destruct (find_loop fuel s ps n _) as [[nm1 t]|] eqn:L; [|discriminate].
    intros X. injection X as <- <-. apply find_loop_unused in L. apply findNameUse_unused in L as [U1 U2].
    repeat split; auto.
    + apply nm_has_set. auto.
    + intros k Hk. apply nm_has_set. right. apply nm_has_set. auto.
Qed.

(* ---- lists of nat ---- *)
Lemma mem_nat_In x l : mem_nat x l = true <-> In x l.
Proof.
  unfold mem_nat. rewrite existsb_exists. split.
  - intros [y [Hy E]]. apply Nat.eqb_eq in E. subst. exact Hy.
  - intros Hx. exists x. split; [exact Hx | apply Nat.eqb_refl].
Qed.

Lemma lookup_cons_eq {A} (m : list (nat * A)) r v : lookup ((r, v) :: m) r = Some v.
Proof. simpl. rewrite Nat.eqb_refl. reflexivity. Qed.
Lemma lookup_cons_neq {A} (m : list (nat * A)) r k v : r <> k -> lookup ((k, v) :: m) r = lookup m r.
Proof. intros N. simpl. destruct (Nat.eqb r k) eqn:E; [apply Nat.eqb_eq in E; contradiction | reflexivity]. Qed.

(* ---- the invariant ---- *)
Section Number.
  Variable fuel : nat.
  Variable st : symtab.
  Variable reserved : list name.

  Definition rnb (r : nat) : bool := renameable (sy_ns (getsym st r)).

  Definition extends (a b : names_t) : Prop :=
    forall r n, lookup a r = Some n -> lookup b r = Some n.

  (* facts about the name table that do not depend on the position in the tree *)
  Record Glob (names : names_t) : Prop := {
    g_ren : forall r n, lookup names r = Some n -> rnb r = true;
    g_res : forall r n, lookup names r = Some n -> ~ In n reserved
  }.

  Record Inv (vis seen : list nat) (chain : list nmap) (names : names_t) : Prop := {
    i_used : forall r n, In r vis -> lookup names r = Some n -> usedc chain n;
    i_seen : forall r n, lookup names r = Some n -> In r seen;
    i_dist : forall r1 r2 n1 n2, In r1 vis -> In r2 vis -> r1 <> r2 ->
               lookup names r1 = Some n1 -> lookup names r2 = Some n2 -> n1 <> n2;
    i_none : forall r, In r vis -> lookup names r = None -> rnb r = false;
    i_res : forall k, In k reserved -> usedc chain k;
    i_glob : Glob names
  }.

  (* what is finally claimed of one visibility set *)
  Record Good (v : list nat) (names : names_t) : Prop := {
    gd_none : forall r, In r v -> lookup names r = None -> rnb r = false;
    gd_dist : forall r1 r2 n1 n2, In r1 v -> In r2 v -> r1 <> r2 ->
               lookup names r1 = Some n1 -> lookup names r2 = Some n2 -> n1 <> n2
  }.

  Lemma extends_refl a : extends a a.
  Proof. intros r n H; exact H. Qed.
  Lemma extends_trans a b c : extends a b -> extends b c -> extends a c.
  Proof. intros H1 H2 r n H. apply H2, H1, H. Qed.

  Lemma Good_mono v a b : Good v a -> extends a b -> Glob b -> Good v b.
  Proof.
    intros [Gn Gd] E Gb. split.
    - intros r Hr Hb. destruct (lookup a r) as [n|] eqn:La; [apply E in La; congruence | apply Gn; auto].
    - intros r1 r2 n1 n2 H1 H2 N L1 L2.
      assert (A1 : lookup a r1 = Some n1).
      { destruct (lookup a r1) as [n|] eqn:La.
        - apply E in La. congruence.
        - apply Gn in La; auto. apply (g_ren b Gb) in L1. congruence. }
      assert (A2 : lookup a r2 = Some n2).
      { destruct (lookup a r2) as [n|] eqn:La.
        - apply E in La. congruence.
        - apply Gn in La; auto. apply (g_ren b Gb) in L2. congruence. }
      exact (Gd r1 r2 n1 n2 H1 H2 N A1 A2).
  Qed.

  Lemma Inv_Good vis seen chain names : Inv vis seen chain names -> Good vis names.
  Proof. intros I. split; [apply (i_none _ _ _ _ I) | apply (i_dist _ _ _ _ I)]. Qed.

  Lemma usedc_cons s chain n : usedc (s :: chain) n <-> nm_has s n = true \/ usedc chain n.
  Proof. unfold usedc. simpl. rewrite orb_true_iff. tauto. Qed.

  (* one symbol *)
  Lemma assignName_step vis seen s ps names r0 s' names' :
    Inv vis seen (s :: ps) names ->
    (mem_nat (follow st r0) seen && negb (mem_nat (follow st r0) vis) = false) ->
    assignName fuel st s ps names r0 = Some (s', names') ->
    Inv (follow st r0 :: vis) (follow st r0 :: seen) (s' :: ps) names' /\
    extends names names' /\ (forall k, nm_has s k = true -> nm_has s' k = true).
  Proof.
    intros I W A. unfold assignName in A. set (r := follow st r0) in *.
    destruct (lookup names r) as [n0|] eqn:L.
    - (* already named: by well-formedness it is visible *)
      injection A as <- <-.
      assert (Hv : In r vis).
      { apply (i_seen _ _ _ _ I) in L. apply mem_nat_In in L. rewrite L in W. simpl in W.
        apply negb_false_iff in W. apply mem_nat_In. exact W. }
      split; [|split; [apply extends_refl | auto]].
      split.
      + intros x n [<-|Hx] Lx; eapply (i_used _ _ _ _ I); eauto.
      + intros x n Lx. right. eapply (i_seen _ _ _ _ I); eauto.
      + intros r1 r2 n1 n2 H1 H2. apply (i_dist _ _ _ _ I).
        * destruct H1 as [<-|H1]; auto.
        * destruct H2 as [<-|H2]; auto.
      + intros x [<-|Hx] Lx; [congruence | apply (i_none _ _ _ _ I); auto].
      + apply (i_res _ _ _ _ I).
      + apply (i_glob _ _ _ _ I).
    - fold (rnb r) in A. destruct (rnb r) eqn:R.
      + destruct (findUnusedName fuel s ps _ _) as [[nm sx]|] eqn:F; [|discriminate].
        injection A as <- <-.
        apply findUnusedName_fresh in F as (F1 & F2 & F3 & F4).
        assert (Fresh : ~ usedc (s :: ps) nm).
        { intros U. apply usedc_cons in U as [U|U]; [congruence | unfold usedc in U; congruence]. }
        assert (Mono : forall n, usedc (s :: ps) n -> usedc (sx :: ps) n).
        { intros n U. apply usedc_cons in U. apply usedc_cons. destruct U; auto. }
        split; [|split; auto].
        * split.
          -- intros x n Hx Lx. destruct (Nat.eq_dec x r) as [->|N].
             ++ rewrite lookup_cons_eq in Lx. injection Lx as <-. apply usedc_cons. auto.
             ++ rewrite lookup_cons_neq in Lx by exact N. destruct Hx as [Hx|Hx]; [congruence|].
                apply Mono. eapply (i_used _ _ _ _ I); eauto.
          -- intros x n Lx. destruct (Nat.eq_dec x r) as [->|N]; [left; reflexivity|].
             rewrite lookup_cons_neq in Lx by exact N. right. eapply (i_seen _ _ _ _ I); eauto.
          -- intros r1 r2 n1 n2 H1 H2 N L1 L2.
             destruct (Nat.eq_dec r1 r) as [->|N1]; destruct (Nat.eq_dec r2 r) as [->|N2]; try congruence.
             ++ rewrite lookup_cons_eq in L1. injection L1 as <-.
                rewrite lookup_cons_neq in L2 by exact N2.
                destruct H2 as [H2|H2]; [congruence|].
                intros ->. apply Fresh. eapply (i_used _ _ _ _ I); eauto.
             ++ rewrite lookup_cons_eq in L2. injection L2 as <-.
                rewrite lookup_cons_neq in L1 by exact N1.
                destruct H1 as [H1|H1]; [congruence|].
                intros <-. apply Fresh. eapply (i_used _ _ _ _ I); eauto.
             ++ rewrite lookup_cons_neq in L1 by exact N1. rewrite lookup_cons_neq in L2 by exact N2.
                destruct H1 as [H1|H1]; [congruence|]. destruct H2 as [H2|H2]; [congruence|].
                exact (i_dist _ _ _ _ I r1 r2 n1 n2 H1 H2 N L1 L2).
          -- intros x Hx Lx. destruct (Nat.eq_dec x r) as [->|N]; [rewrite lookup_cons_eq in Lx; discriminate|].
             rewrite lookup_cons_neq in Lx by exact N. destruct Hx as [Hx|Hx]; [congruence|].
             apply (i_none _ _ _ _ I); auto.
          -- intros k Hk. apply Mono. apply (i_res _ _ _ _ I). exact Hk.
          -- pose proof (i_glob _ _ _ _ I) as [G1 G2]. split.
             ++ intros x n Lx. destruct (Nat.eq_dec x r) as [->|N]; [exact R|].
                rewrite lookup_cons_neq in Lx by exact N. eapply G1; eauto.
             ++ intros x n Lx. destruct (Nat.eq_dec x r) as [->|N].
                ** rewrite lookup_cons_eq in Lx. injection Lx as <-.
                   intros Hr. apply Fresh. apply (i_res _ _ _ _ I). exact Hr.
                ** rewrite lookup_cons_neq in Lx by exact N. eapply G2; eauto.
        * intros x n Lx. destruct (Nat.eq_dec x r) as [->|N]; [congruence|].
          rewrite lookup_cons_neq by exact N. exact Lx.
      + injection A as <- <-.
        split; [|split; [apply extends_refl | auto]].
        split.
        * intros x n [<-|Hx] Lx; [congruence | eapply (i_used _ _ _ _ I); eauto].
        * intros x n Lx. right. eapply (i_seen _ _ _ _ I); eauto.
        * intros r1 r2 n1 n2 [<-|H1] [<-|H2] N L1 L2; try congruence.
          exact (i_dist _ _ _ _ I r1 r2 n1 n2 H1 H2 N L1 L2).
        * intros x [<-|Hx] Lx; [exact R | apply (i_none _ _ _ _ I); auto].
        * apply (i_res _ _ _ _ I).
        * apply (i_glob _ _ _ _ I).
  Qed.

  (* a list of symbols *)
  Lemma assignNames_inv refs : forall vis seen s ps names s' names' vis' seen',
    Inv vis seen (s :: ps) names ->
    wf_refs vis seen (map (follow st) refs) = Some (vis', seen') ->
    assignNames fuel st s ps names refs = Some (s', names') ->
    Inv vis' seen' (s' :: ps) names' /\ extends names names' /\
    vis' = rev (map (follow st) refs) ++ vis.
  Proof.
    induction refs as [|r0 rest IH]; intros vis seen s ps names s' names' vis' seen' I W A; simpl in *.
    - injection W as <- <-. injection A as <- <-. split; [exact I | split; [apply extends_refl | reflexivity]].
    - destruct (mem_nat (follow st r0) seen && negb (mem_nat (follow st r0) vis)) eqn:Wr; [discriminate|].
      destruct (assignName fuel st s ps names r0) as [[s1 names1]|] eqn:A1; [|discriminate].
      destruct (assignName_step _ _ _ _ _ _ _ _ I Wr A1) as (I1 & E1 & _).
      destruct (IH _ _ _ _ _ _ _ _ _ I1 W A) as (I2 & E2 & V).
      split; [exact I2 | split; [eapply extends_trans; eauto|]].
      rewrite V. rewrite <- app_assoc. reflexivity.
  Qed.

  Lemma Inv_push vis seen chain names : Inv vis seen chain names -> Inv vis seen ([] :: chain) names.
  Proof.
    intros I. split; apply I.
  Qed.

  (* coming back from a subtree: the invariant of the parent still holds for the larger table *)
  Lemma Inv_back vis seen seen' chain names names' :
    Inv vis seen chain names -> extends names names' -> Glob names' ->
    (forall r n, lookup names' r = Some n -> In r seen') ->
    Inv vis seen' chain names'.
  Proof.
    intros I E G S.
    assert (Back : forall r n, In r vis -> lookup names' r = Some n -> lookup names r = Some n).
    { intros r n Hr L. destruct (lookup names r) as [n0|] eqn:L0.
      - apply E in L0. congruence.
      - apply (i_none _ _ _ _ I) in L0; auto. apply (g_ren _ G) in L. congruence. }
    split.
    - intros r n Hr L. eapply (i_used _ _ _ _ I); eauto.
    - exact S.
    - intros r1 r2 n1 n2 H1 H2 N L1 L2.
      exact (i_dist _ _ _ _ I r1 r2 n1 n2 H1 H2 N (Back _ _ H1 L1) (Back _ _ H2 L2)).
    - intros r Hr L. apply (i_none _ _ _ _ I); auto.
      destruct (lookup names r) as [n0|] eqn:L0; [apply E in L0; congruence | reflexivity].
    - apply (i_res _ _ _ _ I).
    - exact G.
  Qed.

  Definition Post (sets : list (list nat)) (seen' : list nat) (names names' : names_t) : Prop :=
    extends names names' /\ Glob names' /\
    (forall r n, lookup names' r = Some n -> In r seen') /\
    Forall (fun v => Good v names') sets.

  Lemma canon_decls_rev_perm sc v r :
    In r (rev (map (follow st) (scope_decls sc)) ++ v) <-> In r (canon_decls st sc ++ v).
  Proof. unfold canon_decls. rewrite !in_app_iff, <- in_rev. tauto. Qed.

  Lemma Good_perm v w names : (forall r, In r v <-> In r w) -> Good v names -> Good w names.
  Proof.
    intros P [Gn Gd]. split.
    - intros r Hr. apply Gn, P, Hr.
    - intros r1 r2 n1 n2 H1 H2. apply Gd; apply P; assumption.
  Qed.

  Lemma Inv_perm v w seen chain names : (forall r, In r v <-> In r w) -> Inv v seen chain names -> Inv w seen chain names.
  Proof.
    intros P I. split; try apply I.
    - intros r n Hr. apply (i_used _ _ _ _ I), P, Hr.
    - intros r1 r2 n1 n2 H1 H2. apply (i_dist _ _ _ _ I); apply P; assumption.
    - intros r Hr. apply (i_none _ _ _ _ I), P, Hr.
  Qed.

  Lemma wf_refs_perm refs : forall v w seen,
    (forall r, In r v <-> In r w) ->
    match wf_refs v seen refs, wf_refs w seen refs with
    | Some (v', s1), Some (w', s2) => s1 = s2 /\ (forall r, In r v' <-> In r w')
    | None, None => True
    | _, _ => False
    end.
  Proof.
    induction refs as [|x rest IH]; intros v w seen P; simpl.
    - split; [reflexivity | exact P].
    - assert (M : mem_nat x v = mem_nat x w).
      { destruct (mem_nat x v) eqn:A, (mem_nat x w) eqn:B; auto.
        - apply mem_nat_In, P, mem_nat_In in A. congruence.
        - apply mem_nat_In, P, mem_nat_In in B. congruence. }
      rewrite M. destruct (mem_nat x seen && negb (mem_nat x w)); [exact I|].
      apply IH. intros r. simpl. rewrite P. tauto.
  Qed.

  Lemma wf_scope_perm sc : forall v w seen,
    (forall r, In r v <-> In r w) -> wf_scope st sc v seen = wf_scope st sc w seen.
  Proof.
    induction sc as [m g l e ch IHch] using scope_ind'. intros v w seen P.
    rewrite !wf_scope_unfold.
    pose proof (wf_refs_perm (canon_decls st (Scope m g l e ch)) v w seen P) as R.
    destruct (wf_refs v seen _) as [[v' s1]|], (wf_refs w seen _) as [[w' s2]|]; try contradiction; auto.
    destruct R as [-> P']. clear P. revert s2.
    induction IHch as [|c r Hc Hr IH]; intros s2; simpl; [reflexivity|].
    rewrite (Hc v' w' s2 P'). destruct (wf_scope st c w' s2); [apply IH | reflexivity].
  Qed.

  Lemma wf_forest_perm cs : forall v w seen,
    (forall r, In r v <-> In r w) -> wf_forest st cs v seen = wf_forest st cs w seen.
  Proof.
    induction cs as [|c r IH]; intros v w seen P; simpl; [reflexivity|].
    rewrite (wf_scope_perm c v w seen P). destruct (wf_scope st c w seen); [apply IH; exact P | reflexivity].
  Qed.

  (* the tree *)
  Lemma assignRec_inv sc : forall vis seen chain names names' seen',
    Inv vis seen chain names ->
    wf_scope st sc vis seen = Some seen' ->
    assignRec fuel st sc chain names = Some names' ->
    Post (vis_sets st sc vis) seen' names names'.
  Proof.
    induction sc as [m g l e ch IHch] using scope_ind'.
    intros vis seen chain names names' seen' I W A.
    rewrite wf_scope_unfold in W. rewrite assignRec_unfold in A. rewrite vis_sets_unfold.
    set (sc := Scope m g l e ch) in *.
    destruct (wf_refs vis seen (canon_decls st sc)) as [[vis1 seen1]|] eqn:W1; [|discriminate].
    (* the scope's own symbols *)
    assert (Step : exists chain1 names1,
               (if nonempty m || nonempty g then
                  match assignNames fuel st [] chain names (scope_decls sc) with
                  | None => None
                  | Some (s, names') => Some (s :: chain, names')
                  end
                else Some (chain, names)) = Some (chain1, names1)
               /\ Inv vis1 seen1 chain1 names1 /\ extends names names1
               /\ (forall r, In r vis1 <-> In r (canon_decls st sc ++ vis))).
    { destruct (nonempty m || nonempty g) eqn:NE.
      - destruct (assignNames fuel st [] chain names (scope_decls sc)) as [[s1 names1]|] eqn:A1; [|discriminate].
        exists (s1 :: chain), names1. split; [reflexivity|].
        unfold canon_decls in W1.
        destruct (assignNames_inv _ _ _ _ _ _ _ _ _ _ (Inv_push _ _ _ _ I) W1 A1) as (I1 & E1 & V).
        split; [exact I1 | split; [exact E1|]]. intros r. rewrite V. apply canon_decls_rev_perm.
      - exists chain, names. split; [reflexivity|].
        assert (D : scope_decls sc = []).
        { unfold scope_decls, sc. simpl. apply orb_false_iff in NE as [N1 N2].
          destruct m; [|discriminate]. destruct g; [|discriminate]. reflexivity. }
        unfold canon_decls in *. rewrite D in *. simpl in *. injection W1 as <- <-.
        split; [exact I | split; [apply extends_refl | tauto]]. }
    destruct Step as (chain1 & names1 & S1 & I1 & E1 & P1). rewrite S1 in A. clear S1.
    (* the children *)
    set (v := canon_decls st sc ++ vis) in *.
    assert (I1v : Inv v seen1 chain1 names1) by (eapply Inv_perm; [exact P1 | exact I1]).
    rewrite (wf_forest_perm ch vis1 v seen1 P1) in W.
    clear I1 P1 W1.
    assert (Kids : forall cs, Forall (fun c => forall vis seen chain names names' seen',
                 Inv vis seen chain names -> wf_scope st c vis seen = Some seen' ->
                 assignRec fuel st c chain names = Some names' ->
                 Post (vis_sets st c vis) seen' names names') cs ->
             forall seen1 names1 names' seen',
               Inv v seen1 chain1 names1 ->
               wf_forest st cs v seen1 = Some seen' ->
               assignForest fuel st cs chain1 names1 = Some names' ->
               Post (vis_forest st cs v) seen' names1 names' /\ Inv v seen' chain1 names').
    { induction 1 as [|c r Hc Hr IH]; intros sn nm nm' sn' Iv Wf Af; simpl in *.
      - injection Wf as <-. injection Af as <-.
        split; [|exact Iv]. split; [apply extends_refl|]. split; [apply (i_glob _ _ _ _ Iv)|].
        split; [apply (i_seen _ _ _ _ Iv) | constructor].
      - destruct (wf_scope st c v sn) as [sn1|] eqn:Wc; [|discriminate].
        destruct (assignRec fuel st c chain1 nm) as [nm1|] eqn:Ac; [|discriminate].
        destruct (Hc _ _ _ _ _ _ Iv Wc Ac) as (Ec & Gc & Sc & Fc).
        assert (Iv1 : Inv v sn1 chain1 nm1) by (eapply Inv_back; eauto).
        destruct (IH _ _ _ _ Iv1 Wf Af) as ((Er & Gr & Sr & Fr) & Ir).
        split; [|exact Ir].
        split; [eapply extends_trans; eauto|]. split; [exact Gr|]. split; [exact Sr|].
        apply Forall_app. split; [|exact Fr].
        eapply Forall_impl; [|exact Fc]. intros w Gw. exact (Good_mono w nm1 nm' Gw Er Gr). }
    destruct (Kids ch IHch _ _ _ _ I1v W A) as ((Ek & Gk & Sk & Fk) & Ik).
    split; [eapply extends_trans; eauto|]. split; [exact Gk|]. split; [exact Sk|].
    constructor; [|exact Fk].
    eapply Good_mono; [apply (Inv_Good _ _ _ _ I1v) | exact Ek | exact Gk].
  Qed.

  Lemma assignForest_inv cs : forall v seen chain names names' seen',
    Inv v seen chain names ->
    wf_forest st cs v seen = Some seen' ->
    assignForest fuel st cs chain names = Some names' ->
    Post (vis_forest st cs v) seen' names names'.
  Proof.
    induction cs as [|c r IH]; intros v sn chain nm nm' sn' Iv Wf Af; simpl in *.
    - injection Wf as <-. injection Af as <-.
      split; [apply extends_refl|]. split; [apply (i_glob _ _ _ _ Iv)|].
      split; [apply (i_seen _ _ _ _ Iv) | constructor].
    - destruct (wf_scope st c v sn) as [sn1|] eqn:Wc; [|discriminate].
      destruct (assignRec fuel st c chain nm) as [nm1|] eqn:Ac; [|discriminate].
      destruct (assignRec_inv c _ _ _ _ _ _ Iv Wc Ac) as (Ec & Gc & Sc & Fc).
      assert (Iv1 : Inv v sn1 chain nm1) by (eapply Inv_back; eauto).
      destruct (IH _ _ _ _ _ _ Iv1 Wf Af) as (Er & Gr & Sr & Fr).
      split; [eapply extends_trans; eauto|]. split; [exact Gr|]. split; [exact Sr|].
      apply Forall_app. split; [|exact Fr].
      eapply Forall_impl; [|exact Fc]. intros w Gw. exact (Good_mono w nm1 nm' Gw Er Gr).
  Qed.

  Lemma root_has k : In k reserved -> nm_has (root_of reserved) k = true.
  Proof.
    unfold root_of. induction reserved as [|x r IH]; simpl; [tauto|].
    intros [->|H].
    - unfold nm_has. simpl. rewrite name_eqb_refl. reflexivity.
    - unfold nm_has in *. simpl. destruct (name_eqb k x); [reflexivity | apply IH; exact H].
  Qed.

  Lemma Inv_init : Inv [] [] [root_of reserved] [].
  Proof.
    split; try (intros; simpl in *; tauto || discriminate).
    - intros k Hk. unfold usedc. simpl. rewrite root_has by exact Hk. reflexivity.
    - split; intros; discriminate.
  Qed.

  Lemma vis_sets_perm sc : forall v w, (forall r, In r v <-> In r w) ->
    Forall2 (fun a b => forall r, In r a <-> In r b) (vis_sets st sc v) (vis_sets st sc w).
  Proof.
    induction sc as [m g l e ch IHch] using scope_ind'. intros v w P.
    rewrite !vis_sets_unfold. set (d := canon_decls st (Scope m g l e ch)).
    assert (P' : forall r, In r (d ++ v) <-> In r (d ++ w)) by (intros r; rewrite !in_app_iff, P; tauto).
    constructor; [exact P'|].
    generalize (d ++ v) (d ++ w) P'. clear P' P v w d.
    induction IHch as [|c r Hc Hr IH]; intros v w P; simpl; [constructor|].
    apply Forall2_app; [apply Hc; exact P | apply IH; exact P].
  Qed.

  Lemma vis_forest_perm cs : forall v w, (forall r, In r v <-> In r w) ->
    Forall2 (fun a b => forall r, In r a <-> In r b) (vis_forest st cs v) (vis_forest st cs w).
  Proof.
    induction cs as [|c r IH]; intros v w P; simpl; [constructor|].
    apply Forall2_app; [apply vis_sets_perm; exact P | apply IH; exact P].
  Qed.

  Lemma number_rename_good toplevel nested names :
    number_rename fuel st reserved toplevel nested = Some names ->
    wf_number st toplevel nested = true ->
    Glob names /\
    Forall (fun v => Good v names) (vis_forest st nested (map (follow st) toplevel)).
  Proof.
    unfold number_rename, wf_number. intros A W.
    destruct (assignNames fuel st (root_of reserved) [] [] toplevel) as [[root names0]|] eqn:A0; [|discriminate].
    destruct (wf_refs [] [] (map (follow st) toplevel)) as [[vis seen]|] eqn:W0; [|discriminate].
    destruct (wf_forest st nested vis seen) as [seen'|] eqn:W1; [|discriminate].
    destruct (assignNames_inv _ _ _ _ _ _ _ _ _ _ Inv_init W0 A0) as (I0 & _ & V).
    rewrite app_nil_r in V.
    destruct (assignForest_inv nested _ _ _ _ _ _ I0 W1 A) as (_ & G & _ & F).
    split; [exact G|].
    assert (P : forall r, In r vis <-> In r (map (follow st) toplevel)) by (intros r; rewrite V, <- in_rev; tauto).
    pose proof (vis_forest_perm nested _ _ P) as F2.
    clear - F F2. induction F2 as [|a b la lb Hab _ IH]; [constructor|].
    inversion F as [|? ? Ga Fa]; subst. constructor; [eapply Good_perm; eauto | apply IH; exact Fa].
  Qed.
End Number.

(* ---- the statements used in Properties.v ---- *)
Lemma number_renamer_no_shadow_all fuel st reserved toplevel nested names :
  number_rename fuel st reserved toplevel nested = Some names ->
  wf_number st toplevel nested = true ->
  forall v, In v (vis_forest st nested (map (follow st) toplevel)) ->
  forall x1 x2, In (follow st x1) v -> In (follow st x2) v -> follow st x1 <> follow st x2 ->
    renameable (sy_ns (getsym st (follow st x1))) = true ->
    renameable (sy_ns (getsym st (follow st x2))) = true ->
    number_name_for st names x1 <> number_name_for st names x2.
Proof.
  intros A W v Hv x1 x2 H1 H2 N R1 R2.
  destruct (number_rename_good fuel st reserved toplevel nested names A W) as [G F].
  rewrite Forall_forall in F. specialize (F v Hv). destruct F as [Gn Gd].
  unfold number_name_for.
  destruct (lookup names (follow st x1)) as [n1|] eqn:L1.
  2:{ apply Gn in L1; auto. unfold rnb in L1. congruence. }
  destruct (lookup names (follow st x2)) as [n2|] eqn:L2.
  2:{ apply Gn in L2; auto. unfold rnb in L2. congruence. }
  exact (Gd _ _ n1 n2 H1 H2 N L1 L2).
Qed.

Lemma number_renamer_avoids_reserved_all fuel st reserved toplevel nested names :
  number_rename fuel st reserved toplevel nested = Some names ->
  wf_number st toplevel nested = true ->
  forall r n, lookup names r = Some n -> ~ In n reserved.
Proof.
  intros A W. destruct (number_rename_good fuel st reserved toplevel nested names A W) as [G _].
  apply (g_res _ _ _ G).
Qed.

(* a stronger form without well-formedness: whatever the tree, assigned names avoid the reserved set *)
Lemma number_pinned_unchanged_all fuel st reserved toplevel nested names :
  number_rename fuel st reserved toplevel nested = Some names ->
  wf_number st toplevel nested = true ->
  forall x, renameable (sy_ns (getsym st (follow st x))) = false ->
    number_name_for st names x = sy_name (getsym st (follow st x)).
Proof.
  intros A W x R. destruct (number_rename_good fuel st reserved toplevel nested names A W) as [G _].
  unfold number_name_for. destruct (lookup names (follow st x)) as [n|] eqn:L; [|reflexivity].
  apply (g_ren _ _ _ G) in L. unfold rnb in L. congruence.
Qed.
