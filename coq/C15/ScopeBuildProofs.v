(* Every numbered skeleton is well-formed in the sense the renamer theorems assume. *)
From V Require Import Common.Base C15.Names C15.NamesProofs C15.Renamer C15.Spec C15.NumberProofs C15.SlotsProofs C15.ScopeBuild C15.ScopeProg.

Lemma number_sk_unfold env fresh shared ch n :
  number_sk env (Sk fresh shared ch) n =
  let ids := seq n (length fresh) in
  let env' := combine (map fst fresh) ids ++ env in
  let '(cs, syms, n') := number_forest env' ch (n + length fresh)%nat in
  (Scope (ids ++ shared_ids env shared) [] None false cs, fresh_syms fresh n ++ syms, n').
Proof.
  simpl. set (env' := combine (map fst fresh) (seq n (length fresh)) ++ env).
  generalize (n + length fresh)%nat. intros m.
  assert (E : forall ch m,
     (fix go (ch : list sk) (n : nat) : list scope * list symbol * nat :=
        match ch with
        | [] => ([], [], n)
        | c :: r => let '(sc, s1, n1) := number_sk env' c n in
                    let '(scs, s2, n2) := go r n1 in (sc :: scs, s1 ++ s2, n2)
        end) ch m = number_forest env' ch m).
  { induction ch0 as [|c r IH]; intros m0; simpl; [reflexivity|].
    destruct (number_sk env' c m0) as [[sc s1] n1]. rewrite IH. reflexivity. }
  rewrite E. reflexivity.
Qed.

Section SkInd.
  Variable P : sk -> Prop.
  Hypothesis H : forall f s ch, Forall P ch -> P (Sk f s ch).
  Fixpoint sk_ind' (k : sk) : P k :=
    match k with
    | Sk f s ch =>
        H f s ch ((fix go (cs : list sk) : Forall P cs :=
                     match cs with
                     | [] => Forall_nil P
                     | c :: r => Forall_cons c (sk_ind' c) (go r)
                     end) ch)
    end.
End SkInd.

(* ---- list facts ---- *)
Lemma insert_nat_in x y l : In x (insert_nat y l) <-> x = y \/ In x l.
Proof.
  induction l as [|z r IH]; simpl; [split; [intros [E|[]]; auto | intros [E|[]]; auto]|].
  destruct (Nat.leb y z); simpl; [split; intros [E|E]; auto | rewrite IH; split; intros [E|[E|E]]; auto].
Qed.
Lemma sort_nat_in x l : In x (sort_nat l) <-> In x l.
Proof. induction l as [|y r IH]; simpl; [tauto | rewrite insert_nat_in, IH; intuition congruence]. Qed.

Lemma wf_refs_ok refs : forall vis seen,
  (forall r, In r refs -> In r vis \/ ~ In r seen) ->
  wf_refs vis seen refs = Some (rev refs ++ vis, rev refs ++ seen).
Proof.
  induction refs as [|r rest IH]; intros vis seen H; simpl; [reflexivity|].
  assert (C : mem_nat r seen && negb (mem_nat r vis) = false).
  { destruct (H r (or_introl eq_refl)) as [V|S].
    - apply mem_nat_In in V. rewrite V. apply andb_false_r.
    - destruct (mem_nat r seen) eqn:M; [apply mem_nat_In in M; contradiction | reflexivity]. }
  rewrite C. rewrite IH.
  - rewrite <- !app_assoc. reflexivity.
  - intros x Hx. destruct (Nat.eq_dec x r) as [->|N]; [left; left; reflexivity|].
    destruct (H x (or_intror Hx)) as [V|S]; [left; right; exact V | right; intros [E|I]; [congruence | contradiction]].
Qed.

Lemma shared_ids_in env shared i : In i (shared_ids env shared) -> exists x, env_get env x = Some i.
Proof.
  unfold shared_ids. rewrite in_flat_map. intros (x & _ & Hx).
  destruct (env_get env x) as [j|] eqn:E; [|destruct Hx]. destruct Hx as [<-|[]]. exists x. exact E.
Qed.

Lemma env_get_app_combine names ids env x i :
  length names = length ids ->
  env_get (combine names ids ++ env) x = Some i -> In i ids \/ env_get env x = Some i.
Proof.
  revert ids. induction names as [|k r IH]; intros [|j js] L E; simpl in *; try discriminate; auto.
  destruct (name_eqb x k); [injection E as <-; left; left; reflexivity|].
  injection L as L. destruct (IH js L E) as [I|I]; auto.
Qed.

Section WF.
  Variable st : symtab.
  Hypothesis NoLinks : forall r, follow st r = r.

  Lemma canon_is_decls sc : canon_decls st sc = scope_decls sc.
  Proof.
    unfold canon_decls. induction (scope_decls sc) as [|r l IH]; simpl; [reflexivity|].
    rewrite NoLinks, IH. reflexivity.
  Qed.

  Definition env_ok (env : env_t) (vis : list nat) (n : nat) : Prop :=
    forall x i, env_get env x = Some i -> In i vis /\ (i < n)%nat.

  Lemma number_sk_wf k : forall env n vis seen sc syms n',
    number_sk env k n = (sc, syms, n') ->
    env_ok env vis n -> (forall r, In r seen -> (r < n)%nat) ->
    exists seen', wf_scope st sc vis seen = Some seen' /\
                  (forall r, In r seen' -> (r < n')%nat) /\ (n <= n')%nat.
  Proof.
    induction k as [fresh shared ch IHch] using sk_ind'.
    intros env n vis seen sc syms n' B EO SO.
    rewrite number_sk_unfold in B. cbv zeta in B.
    set (ids := seq n (length fresh)) in *.
    set (env' := combine (map fst fresh) ids ++ env) in *.
    destruct (number_forest env' ch (n + length fresh)%nat) as [[cs sy] nn] eqn:F.
    injection B as <- <- <-.
    rewrite wf_scope_unfold, canon_is_decls.
    set (mem := ids ++ shared_ids env shared).
    assert (D : scope_decls (Scope mem [] None false cs) = sort_nat mem ++ []) by reflexivity.
    rewrite D, app_nil_r.
    rewrite wf_refs_ok.
    2:{ intros r Hr. apply (proj1 (sort_nat_in _ _)) in Hr. unfold mem in Hr. apply in_app_iff in Hr as [Hr|Hr].
        - right. intros S. apply SO in S. unfold ids in Hr. apply in_seq in Hr. lia.
        - left. apply shared_ids_in in Hr as (x & Hx). apply (EO x r Hx). }
    set (vis1 := rev (sort_nat mem) ++ vis). set (seen1 := rev (sort_nat mem) ++ seen).
    assert (EO' : env_ok env' vis1 (n + length fresh)).
    { intros x i G. unfold env' in G. apply env_get_app_combine in G.
      2:{ unfold ids. rewrite map_length, seq_length. reflexivity. }
      destruct G as [I|G].
      - split; [|unfold ids in I; apply in_seq in I; lia].
        unfold vis1. apply in_app_iff. left. rewrite <- in_rev. apply sort_nat_in. unfold mem. apply in_app_iff. left. exact I.
      - destruct (EO x i G) as [V L]. split; [unfold vis1; apply in_app_iff; right; exact V | lia]. }
    assert (SO' : forall r, In r seen1 -> (r < n + length fresh)%nat).
    { intros r Hr. unfold seen1 in Hr. apply in_app_iff in Hr as [Hr|Hr].
      - rewrite <- in_rev in Hr. apply (proj1 (sort_nat_in _ _)) in Hr. unfold mem in Hr. apply in_app_iff in Hr as [Hr|Hr].
        + unfold ids in Hr. apply in_seq in Hr. lia.
        + apply shared_ids_in in Hr as (x & Hx). destruct (EO x r Hx). lia.
      - apply SO in Hr. lia. }
    (* the children *)
    clear D. assert (LE : (n <= n + length fresh)%nat) by lia.
    revert F EO' SO' LE. generalize (n + length fresh)%nat as m. generalize seen1 as sn.
    revert cs sy nn.
    induction IHch as [|c r Hc Hr IH]; intros cs sy nn sn m F EO' SO' LE; simpl in F.
    - injection F as <- <- <-. exists sn. split; [reflexivity | split; [exact SO' | lia]].
    - destruct (number_sk env' c m) as [[sc1 s1] n1] eqn:B1.
      destruct (number_forest env' r n1) as [[scs s2] n2] eqn:F2.
      injection F as <- <- <-.
      destruct (Hc _ _ _ _ _ _ _ B1 EO' SO') as (sn1 & W1 & S1 & L1).
      assert (EO1 : env_ok env' vis1 n1) by (intros x i G; destruct (EO' x i G); split; [assumption | lia]).
      destruct (IH _ _ _ _ _ F2 EO1 S1 ltac:(lia)) as (sn2 & W2 & S2 & L2).
      exists sn2. simpl. rewrite W1. split; [exact W2 | split; [exact S2 | lia]].
  Qed.
End WF.

Section WF2.
  Variable st : symtab.
  Hypothesis NoLinks : forall r, follow st r = r.

  Lemma number_forest_wf ch : forall env m vis sn cs sy nn,
    number_forest env ch m = (cs, sy, nn) ->
    env_ok env vis m -> (forall r, In r sn -> (r < m)%nat) ->
    exists sn', wf_forest st cs vis sn = Some sn' /\ (forall r, In r sn' -> (r < nn)%nat) /\ (m <= nn)%nat.
  Proof.
    induction ch as [|c r IH]; intros env m vis sn cs sy nn F EO SO; simpl in F.
    - injection F as <- <- <-. exists sn. split; [reflexivity | split; [exact SO | lia]].
    - destruct (number_sk env c m) as [[sc1 s1] n1] eqn:B1.
      destruct (number_forest env r n1) as [[scs s2] n2] eqn:F2.
      injection F as <- <- <-.
      destruct (number_sk_wf st NoLinks c _ _ _ _ _ _ _ B1 EO SO) as (sn1 & W1 & S1 & L1).
      assert (EO1 : env_ok env vis n1) by (intros x i G; destruct (EO x i G); split; [assumption | lia]).
      destruct (IH _ _ _ _ _ _ _ F2 EO1 S1) as (sn2 & W2 & S2 & L2).
      exists sn2. simpl. rewrite W1. split; [exact W2 | split; [exact S2 | lia]].
  Qed.

  (* without labels the slot flavour of the predicate coincides with the number flavour *)
  Fixpoint nolabel (sc : scope) : bool :=
    match sc with
    | Scope _ _ l _ ch =>
        (match l with None => true | Some _ => false end) &&
        (fix go (cs : list scope) : bool := match cs with [] => true | c :: r => nolabel c && go r end) ch
    end.
  Fixpoint nolabel_forest (cs : list scope) : bool :=
    match cs with [] => true | c :: r => nolabel c && nolabel_forest r end.
  Lemma nolabel_unfold m g l e ch :
    nolabel (Scope m g l e ch) = (match l with None => true | Some _ => false end) && nolabel_forest ch.
  Proof.
    simpl. destruct l; [reflexivity|]. simpl.
    induction ch as [|c r IH]; simpl; [reflexivity | rewrite IH; reflexivity].
  Qed.

  Lemma wf_slot_is_wf sc : forall vis seen, nolabel sc = true ->
    wf_slot_scope st sc vis seen = wf_scope st sc vis seen.
  Proof.
    induction sc as [m g l e ch IHch] using scope_ind'. intros vis seen NL.
    rewrite nolabel_unfold in NL. apply andb_true_iff in NL as [NL1 NL2]. destruct l; [discriminate|].
    rewrite wf_slot_scope_unfold, wf_scope_unfold, canon_is_decls by exact NoLinks.
    destruct (wf_refs vis seen _) as [[v1 s1]|]; [|reflexivity].
    revert s1 NL2. induction IHch as [|c r Hc Hr IH]; intros s1 NL2; simpl; [reflexivity|].
    simpl in NL2. apply andb_true_iff in NL2 as [N1 N2].
    rewrite (Hc v1 s1 N1). destruct (wf_scope st c v1 s1); [apply IH; exact N2 | reflexivity].
  Qed.

  Lemma wf_slot_forest_is_wf cs : forall vis seen, nolabel_forest cs = true ->
    wf_slot_forest st cs vis seen = wf_forest st cs vis seen.
  Proof.
    induction cs as [|c r IH]; intros vis seen NL; simpl; [reflexivity|].
    simpl in NL. apply andb_true_iff in NL as [N1 N2].
    rewrite (wf_slot_is_wf c vis seen N1). destruct (wf_scope st c vis seen); [apply IH; exact N2 | reflexivity].
  Qed.
End WF2.

(* ---- what number_sk produces: no labels, no links ---- *)
Lemma number_nolabel k : forall env n sc syms n',
  number_sk env k n = (sc, syms, n') -> nolabel sc = true /\ Forall (fun s => sy_link s = None) syms.
Proof.
  induction k as [fresh shared ch IHch] using sk_ind'. intros env n sc syms n' B.
  rewrite number_sk_unfold in B. cbv zeta in B.
  set (env' := combine (map fst fresh) (seq n (length fresh)) ++ env) in *.
  destruct (number_forest env' ch (n + length fresh)%nat) as [[cs sy] nn] eqn:F.
  injection B as <- <- <-. rewrite nolabel_unfold. simpl.
  assert (K : nolabel_forest cs = true /\ Forall (fun s => sy_link s = None) sy).
  { revert cs sy nn F. generalize (n + length fresh)%nat as m.
    induction IHch as [|c r Hc Hr IH]; intros m cs sy nn F; simpl in F.
    - injection F as <- <- <-. split; [reflexivity | constructor].
    - destruct (number_sk env' c m) as [[sc1 s1] n1] eqn:B1.
      destruct (number_forest env' r n1) as [[scs s2] n2] eqn:F2.
      injection F as <- <- <-. destruct (Hc _ _ _ _ _ B1) as [A1 A2]. destruct (IH _ _ _ _ F2) as [C1 C2].
      split; [simpl; rewrite A1, C1; reflexivity | apply Forall_app; split; assumption]. }
  destruct K as [K1 K2]. split; [exact K1|].
  apply Forall_app. split; [|exact K2].
  unfold fresh_syms. apply Forall_forall. intros s Hs. apply in_map_iff in Hs as (p & <- & _). reflexivity.
Qed.

Lemma follow_nolinks st : Forall (fun s => sy_link s = None) st -> forall r, follow st r = r.
Proof.
  intros F r. unfold follow. destruct (length st) as [|f]; [reflexivity|]. simpl.
  assert (L : sy_link (getsym st r) = None).
  { unfold getsym. destruct (nth_in_or_default r st dummy_sym) as [I|E].
    - rewrite Forall_forall in F. apply F. exact I.
    - rewrite E. reflexivity. }
  rewrite L. reflexivity.
Qed.

Lemma shared_ids_nil shared : shared_ids [] shared = [].
Proof. unfold shared_ids. induction shared as [|x r IH]; simpl; [reflexivity | exact IH]. Qed.

(* ---- the theorem: the forest numbered from ANY skeleton meets both
   well-formedness predicates the renamer theorems assume ---- *)
Lemma build_sk_wellformed_all k :
  let '(m, st) := build_sk k in
  wf_slots st m = true /\ wf_number st (module_top m) (sc_children m) = true.
Proof.
  unfold build_sk. destruct (number_sk [] k 0) as [[m st] n'] eqn:B.
  destruct (number_nolabel k _ _ _ _ _ B) as [NL NLk].
  pose proof (follow_nolinks st NLk) as NoLinks.
  destruct k as [fresh shared ch]. rewrite number_sk_unfold in B. cbv zeta in B.
  set (ids := seq 0 (length fresh)) in *.
  set (env' := combine (map fst fresh) ids ++ []) in *.
  destruct (number_forest env' ch (0 + length fresh)%nat) as [[cs sy] nn] eqn:F.
  injection B as <- E <-. rewrite shared_ids_nil, app_nil_r in *.
  rewrite nolabel_unfold in NL. simpl in NL.
  assert (Top : module_top (Scope ids [] None false cs) = ids) by (unfold module_top; simpl; apply app_nil_r).
  assert (EO : env_ok env' (rev ids) (0 + length fresh)).
  { intros x i G. unfold env' in G. apply env_get_app_combine in G.
    2:{ unfold ids. rewrite map_length, seq_length. reflexivity. }
    destruct G as [I|G]; [|discriminate].
    split; [rewrite <- in_rev; exact I | unfold ids in I; apply in_seq in I; lia]. }
  assert (SO : forall r, In r (rev ids) -> (r < 0 + length fresh)%nat).
  { intros r Hr. rewrite <- in_rev in Hr. unfold ids in Hr. apply in_seq in Hr. lia. }
  destruct (number_forest_wf st NoLinks ch _ _ _ _ _ _ _ F EO SO) as (sn' & W & _ & _).
  split.
  - unfold wf_slots. rewrite Top. simpl sc_children.
    rewrite (wf_slot_forest_is_wf st NoLinks cs ids ids NL).
    (* the slot predicate starts from (top, top) rather than (rev top, rev top): same sets *)
    rewrite (wf_forest_perm st cs ids (rev ids) ids) by (intros r; apply in_rev).
    assert (P : forall sn, (forall r, In r sn -> (r < 0 + length fresh)%nat) ->
                exists s', wf_forest st cs (rev ids) sn = Some s').
    { intros sn Hs. destruct (number_forest_wf st NoLinks ch _ _ _ sn _ _ _ F EO Hs) as (s' & W' & _). exists s'. exact W'. }
    destruct (P ids) as (s' & W').
    { intros r Hr. unfold ids in Hr. apply in_seq in Hr. lia. }
    rewrite W'. reflexivity.
  - unfold wf_number. rewrite Top. simpl sc_children.
    assert (M : forall l, map (follow st) l = l).
    { induction l as [|x r IH]; simpl; [reflexivity | rewrite NoLinks, IH; reflexivity]. }
    rewrite M, wf_refs_ok by (intros r _; right; intros []).
    rewrite !app_nil_r, W. reflexivity.
Qed.

Lemma parse_forest_wellformed_all prog :
  let '(m, st) := parse_forest prog in
  wf_slots st m = true /\ wf_number st (module_top m) (sc_children m) = true.
Proof. unfold parse_forest. apply build_sk_wellformed_all. Qed.
