(* C15 property theorems. Only statements closed by [exact lemma] and Print Assumptions. *)
From V Require Import Common.Base C15.Names C15.Renamer C15.Spec
  C15.NamesProofs C15.NumberProofs C15.SlotsProofs C15.MinifyProofs C15.ComposeProofs C15.ResolveProofs C15.ScopeBuild C15.ScopeProg C15.ScopeBuildProofs C15.ScopeResolveProofs C15.MinifyResolveProofs C15.HoistedProofs.

(* NumberToMinifiedName is injective for every alphabet without repeated characters *)
Theorem minified_name_injective : forall m,
  NoDup (m_head m) -> NoDup (m_tail m) -> 1 <= zlen (m_head m) -> 2 <= zlen (m_tail m) ->
  forall i j, 0 <= i -> 0 <= j -> NumberToMinifiedName m i = NumberToMinifiedName m j -> i = j.
Proof. exact minified_name_inj. Qed.
Print Assumptions minified_name_injective.

(* ... in particular for every alphabet ShuffleByCharFreq can produce from the
   default one (regenerated from ast.go), whatever the frequency histogram *)
Theorem shuffled_minified_name_injective : forall freq i j, 0 <= i -> 0 <= j ->
  NumberToMinifiedName (ShuffleByCharFreq default_minifier freq) i =
  NumberToMinifiedName (ShuffleByCharFreq default_minifier freq) j -> i = j.
Proof. exact shuffled_minified_name_inj. Qed.
Print Assumptions shuffled_minified_name_injective.

(* NumberRenamer, every symbol table and every well-formed scope forest: two
   distinct symbols (after following links) that are visible in one scope
   (declared in it, in an ancestor, or at the top level) and that the renamer
   names (default and private name spaces) never get the same name: no
   capture, no introduced shadowing *)
Theorem number_renamer_no_shadow : forall fuel st reserved toplevel nested names,
  number_rename fuel st reserved toplevel nested = Some names ->
  wf_number st toplevel nested = true ->
  forall v, In v (vis_forest st nested (map (follow st) toplevel)) ->
  forall x1 x2, In (follow st x1) v -> In (follow st x2) v -> follow st x1 <> follow st x2 ->
    renameable (sy_ns (getsym st (follow st x1))) = true ->
    renameable (sy_ns (getsym st (follow st x2))) = true ->
    number_name_for st names x1 <> number_name_for st names x2.
Proof. exact number_renamer_no_shadow_all. Qed.
Print Assumptions number_renamer_no_shadow.

(* ... and no assigned name is a reserved name (keywords, free/global names,
   pinned names: whatever set the renamer was created with) *)
Theorem number_renamer_avoids_reserved : forall fuel st reserved toplevel nested names,
  number_rename fuel st reserved toplevel nested = Some names ->
  wf_number st toplevel nested = true ->
  forall r n, lookup names r = Some n -> ~ In n reserved.
Proof. exact number_renamer_avoids_reserved_all. Qed.
Print Assumptions number_renamer_avoids_reserved.

(* pinned symbols (unbound, must-not-be-renamed), labels and mangled
   properties keep their original names under the number renamer *)
Theorem number_renamer_pinned_unchanged : forall fuel st reserved toplevel nested names,
  number_rename fuel st reserved toplevel nested = Some names ->
  wf_number st toplevel nested = true ->
  forall x, renameable (sy_ns (getsym st (follow st x))) = false ->
    number_name_for st names x = sy_name (getsym st (follow st x)).
Proof. exact number_pinned_unchanged_all. Qed.
Print Assumptions number_renamer_pinned_unchanged.

(* AssignNestedScopeSlots, every well-formed module scope: symbols of one name
   space visible in one scope sit in different slots; every slot is below the
   returned slot count; top-level symbols get no nested slot *)
Theorem slots_distinct_on_chain : forall st msc sm total,
  AssignNestedScopeSlots st msc = (sm, total) ->
  wf_slots st msc = true ->
  (forall v, In v (slot_vis_forest (sc_children msc) (module_top msc)) ->
     forall r1 r2 k1 k2, In r1 v -> In r2 v -> r1 <> r2 ->
       sy_ns (getsym st r1) = sy_ns (getsym st r2) ->
       lookup sm r1 = Some k1 -> lookup sm r2 = Some k2 -> k1 <> k2) /\
  (forall r k, lookup sm r = Some k -> 0 <= k < cnt_get total (sy_ns (getsym st r))) /\
  (forall r, In r (module_top msc) -> lookup sm r = None).
Proof. exact slots_distinct_on_chain_all. Qed.
Print Assumptions slots_distinct_on_chain.

(* AllocateTopLevelSymbolSlots: a top-level slot lies at or above the first
   top-level slot (the maximum nested slot count), i.e. above every nested
   slot, and two distinct top-level symbols of a name space get distinct slots *)
Theorem top_level_slots_above_nested : forall st firstc tops,
  0 <= c_default firstc -> 0 <= c_label firstc -> 0 <= c_private firstc -> 0 <= c_mangled firstc ->
  Forall (fun e : ssc => sy_ns (getsym st (snd (fst e))) <> NsPinned) tops ->
  let m := AllocateTopLevelSymbolSlots st (NewMinifyRenamer firstc) tops in
  (forall r i, lookup (ms_top m) r = Some i -> cnt_get firstc (sy_ns (getsym st r)) <= i < slen m (sy_ns (getsym st r))) /\
  (forall r1 r2 i, r1 <> r2 -> sy_ns (getsym st r1) = sy_ns (getsym st r2) ->
     lookup (ms_top m) r1 = Some i -> lookup (ms_top m) r2 = Some i -> False).
Proof. exact top_level_slots_above_nested_all. Qed.
Print Assumptions top_level_slots_above_nested.

(* AssignNamesByFrequency (one name space, any sorted slot order, any start
   counter): the names handed out are pairwise distinct; a default-space name
   is never reserved - also for slots that need a capital letter for JSX (the
   loop fixed in a613a67) -, such a JSX name does not start in a-z, and a
   label name is never a keyword.  Fuel exhaustion (None) is excluded: the Go
   loops only terminate when the minifier eventually yields an admissible name *)
Theorem minify_names_distinct_and_admissible : forall mf,
  NoDup (m_head mf) -> NoDup (m_tail mf) -> 1 <= zlen (m_head mf) -> 2 <= zlen (m_tail mf) ->
  forall reserved fuel nsr slots sorted next asg,
  assign_sorted fuel mf reserved nsr slots sorted next = Some asg ->
  0 <= next ->
  map fst asg = map fst sorted /\
  Forall2 (fun (p : Z * name) (s : Z * Z) =>
             exists j, next <= j /\ snd p = prefix_of nsr ++ NumberToMinifiedName mf j /\
                       name_ok reserved nsr (sl_jsx (nth (Z.to_nat (fst s)) slots empty_slot)) (snd p)) asg sorted /\
  NoDup (map snd asg).
Proof. exact assign_sorted_spec. Qed.
Print Assumptions minify_names_distinct_and_admissible.

(* ExportRenamer.NextRenamedName: the aliases returned by any sequence of calls are pairwise distinct *)
Theorem export_renamer_injective : forall fuel l used out,
  export_rename_all fuel used l = Some out ->
  NoDup out /\ (forall nm, In nm out -> nm_has used nm = false) /\ length out = length l.
Proof. exact export_rename_all_spec. Qed.
Print Assumptions export_renamer_injective.

(* ExportRenamer.NextMinifiedName: distinct counters give distinct aliases *)
Theorem export_minified_injective : forall c1 c2, 0 <= c1 -> 0 <= c2 ->
  fst (NextMinifiedName c1) = fst (NextMinifiedName c2) -> c1 = c2.
Proof. exact NextMinifiedName_inj. Qed.
Print Assumptions export_minified_injective.


(* ---- composition slot -> name, and the chunk (cross-file) theorems ---- *)

(* the names written back into the slots of one name space: distinct slot
   indices carry distinct names, and every name is admissible for its slot *)
Theorem minify_slot_names_distinct : forall mf,
  NoDup (m_head mf) -> NoDup (m_tail mf) -> 1 <= zlen (m_head mf) -> 2 <= zlen (m_tail mf) ->
  forall reserved fuel nsr slots out,
  names_for_ns fuel mf reserved nsr slots = Some out ->
  length out = length slots /\
  (forall i1 i2, 0 <= i1 < Z.of_nat (length slots) -> 0 <= i2 < Z.of_nat (length slots) -> i1 <> i2 ->
     slot_name out i1 <> slot_name out i2) /\
  (forall i, 0 <= i < Z.of_nat (length slots) ->
     name_ok reserved nsr (sl_jsx (nth (Z.to_nat i) slots empty_slot)) (slot_name out i)).
Proof. exact names_for_ns_spec. Qed.
Print Assumptions minify_slot_names_distinct.

(* MinifyRenamer on one chunk, the whole pipeline (accumulate over all files,
   per-file sort, AllocateTopLevelSymbolSlots, AssignNamesByFrequency): two
   distinct symbols of one name space never print the same name, unless both
   are nested symbols sharing a nested slot (which slots_distinct_on_chain
   excludes for symbols visible together).  In particular: two top-level
   symbols of the chunk - whatever files they come from and whatever their
   original names -, and a top-level and a nested symbol, always differ. *)
Theorem minify_chunk_names_distinct : forall mf,
  NoDup (m_head mf) -> NoDup (m_tail mf) -> 1 <= zlen (m_head mf) -> 2 <= zlen (m_tail mf) ->
  forall fuel st slots firstc stable reserved pre groups m3,
  minify_rename fuel st slots firstc stable reserved mf pre groups = Some m3 ->
  0 <= c_default firstc -> 0 <= c_label firstc -> 0 <= c_private firstc -> 0 <= c_mangled firstc ->
  (forall r k, lookup slots r = Some k -> 0 <= k < cnt_get firstc (sy_ns (getsym st r))) ->
  forall r1 r2 i1 i2, r1 <> r2 ->
    follow st r1 = r1 -> follow st r2 = r2 ->
    sy_ns (getsym st r1) = sy_ns (getsym st r2) -> sy_ns (getsym st r1) <> NsPinned ->
    slot_of slots m3 r1 = Some i1 -> slot_of slots m3 r2 = Some i2 ->
    (lookup slots r1 <> None -> lookup slots r2 <> None -> i1 <> i2) ->
    minify_name_for st slots m3 r1 <> minify_name_for st slots m3 r2.
Proof. exact minify_rename_chunk. Qed.
Print Assumptions minify_chunk_names_distinct.

(* NumberRenamer on one chunk: the top-level symbols of all files (AddTopLevelSymbol
   in any order, equal original names included) get pairwise distinct names *)
Theorem number_toplevel_distinct : forall fuel st reserved toplevel nested names,
  number_rename fuel st reserved toplevel nested = Some names ->
  wf_number st toplevel nested = true ->
  forall x1 x2, In x1 toplevel -> In x2 toplevel -> follow st x1 <> follow st x2 ->
    renameable (sy_ns (getsym st (follow st x1))) = true ->
    renameable (sy_ns (getsym st (follow st x2))) = true ->
    number_name_for st names x1 <> number_name_for st names x2.
Proof. exact number_toplevel_distinct_all. Qed.
Print Assumptions number_toplevel_distinct.

(* ComputeReservedNames (as fixed in 3eb6e21: the whole scope tree is walked)
   contains the name of every pinned symbol declared anywhere in the module
   scope trees: free names, must-not-be-renamed symbols, everything visible to a
   direct eval, names referenced inside `with`, `arguments` *)
Theorem reserved_covers_all_pinned : forall st mods msc r,
  In msc mods -> In r (tree_decls msc) -> sy_ns (getsym st r) = NsPinned ->
  In (sy_name (getsym st r)) (ComputeReservedNames st mods).
Proof. exact reserved_covers. Qed.
Print Assumptions reserved_covers_all_pinned.

(* FULL (was minify_avoids_pinned_nested_refuted before 3eb6e21): a minified
   default name never equals the name of ANY pinned symbol of the module scope
   trees of the chunk, whenever the reserved set handed to the renamer includes
   ComputeReservedNames of those module scopes (the linker only adds names) *)
Theorem minify_avoids_pinned : forall mf,
  NoDup (m_head mf) -> NoDup (m_tail mf) -> 1 <= zlen (m_head mf) -> 2 <= zlen (m_tail mf) ->
  forall fuel st slots firstc stable reserved pre groups m3 mods,
  minify_rename fuel st slots firstc stable reserved mf pre groups = Some m3 ->
  incl (ComputeReservedNames st mods) reserved ->
  forall msc p, In msc mods -> In p (tree_decls msc) -> sy_ns (getsym st p) = NsPinned ->
  forall i, 0 <= i < Z.of_nat (length (ms_default m3)) ->
    slot_name (ms_default m3) i <> sy_name (getsym st p).
Proof. exact minify_avoids_pinned_all. Qed.
Print Assumptions minify_avoids_pinned.

(* FULL (was number_renamer_pinned_nested_refuted before 3eb6e21): no name
   assigned by the number renamer equals the name of any pinned symbol of the
   module scope trees *)
Theorem number_avoids_pinned : forall fuel st reserved toplevel nested names mods,
  number_rename fuel st reserved toplevel nested = Some names ->
  wf_number st toplevel nested = true ->
  incl (ComputeReservedNames st mods) reserved ->
  forall msc p, In msc mods -> In p (tree_decls msc) -> sy_ns (getsym st p) = NsPinned ->
  forall r n, lookup names r = Some n -> n <> sy_name (getsym st p).
Proof. exact number_avoids_pinned_all. Qed.
Print Assumptions number_avoids_pinned.

(* ---- resolution on the scope chain ----
   [resolve v nmf x]: the first symbol of the visibility list v (innermost
   declarations first) whose name under nmf is x - with the original names the
   parser's binding of a reference, with the new names what the engine does on
   the output.  If no other visible symbol carries the new name of s, a
   reference bound to s before still resolves to s after: no capture *)
Theorem resolution_preserved_on_chain : forall v orig nmf x s,
  resolve v orig x = Some s ->
  (forall t, In t v -> nmf t = nmf s -> t = s) ->
  resolve v nmf (nmf s) = Some s.
Proof. exact resolution_preserved_core. Qed.
Print Assumptions resolution_preserved_on_chain.

(* ... and the number renamer meets that hypothesis on every visibility set of
   every well-formed forest for every renamed symbol; for the symbols that keep
   their names the side condition is number_avoids_pinned (pinned symbols of the
   module scope trees; labels and mangled properties live in other name spaces) *)
Theorem resolution_preserved_number : forall fuel st reserved toplevel nested names,
  number_rename fuel st reserved toplevel nested = Some names ->
  wf_number st toplevel nested = true ->
  forall v, In v (vis_forest st nested (map (follow st) toplevel)) ->
  forall x s, resolve v (fun t => sy_name (getsym st t)) x = Some s ->
    renameable (sy_ns (getsym st s)) = true ->
    (forall p, In p v -> renameable (sy_ns (getsym st p)) = false ->
               sy_name (getsym st p) <> number_name_for st names s) ->
    (forall t, In t v -> follow st t = t) ->
    resolve v (number_name_for st names) (number_name_for st names s) = Some s.
Proof. exact resolution_preserved_number_all. Qed.
Print Assumptions resolution_preserved_number.

(* ---- scope construction ----
   Whatever scope skeleton is numbered (fresh symbols per scope, names shared
   with an enclosing scope, children in source order), the resulting module
   scope and symbol table satisfy BOTH well-formedness predicates that the
   scope-tree theorems above assume (wf_slots for AssignNestedScopeSlots,
   wf_number for the NumberRenamer with the module scope's symbols as top level).
   With ScopeProg.skel_of_prog (tied to js_parser by correspondence) this turns
   the sampled check on parser forests into a theorem: parser_forest_wellformed *)
Theorem numbered_skeleton_wellformed : forall k,
  let '(m, st) := build_sk k in
  wf_slots st m = true /\ wf_number st (module_top m) (sc_children m) = true.
Proof. exact build_sk_wellformed_all. Qed.
Print Assumptions numbered_skeleton_wellformed.

(* the forest the model of js_parser's scope construction (ScopeProg.parse_forest:
   binding-form AST -> skeleton -> numbered forest; compared with the forest the
   real js_parser.Parse builds by check_scopebuild) produces for EVERY program of
   the binding-form AST is well-formed: the hypotheses wf_slots / wf_number of the
   renamer theorems are discharged for parser-built forests *)
Theorem parser_forest_wellformed : forall prog,
  let '(m, st) := parse_forest prog in
  wf_slots st m = true /\ wf_number st (module_top m) (sc_children m) = true.
Proof. exact parse_forest_wellformed_all. Qed.
Print Assumptions parser_forest_wellformed.

(* ---- end to end on parser-built forests ----
   PARTIAL form of resolution_preserved.  Full statement wanted: "for every
   program and every renaming produced by the renamers on its forest, every
   reference resolves PER ECMA-262 (declaration instantiation written
   independently over the AST) to the same declaration before and after".
   Proved here, for EVERY program of the binding-form AST (strict code: var, let,
   function declarations also in blocks, blocks, try/catch with and without
   parameter incl. the catch-parameter/var merge, for-let, named and anonymous
   function expressions, arrows, parameters, arguments, free names) and with NO
   well-formedness hypothesis left: the symbol the PARSER binds a reference to
   (lookup of the name in the environment of its scope, ScopeProg.parser_refs,
   tied to the real js_parser by check_scopebuild) is again what lookup finds
   when every name of that environment is replaced by the name the NumberRenamer
   assigned - in both ways the linker runs it: module scope symbols as top-level
   symbols, or the module scope as a nested scope (wrapped files).  Missing for
   the full statement: the agreement of parser environments with an independently
   written ECMA-262 resolver (exercised by the Node oracle only), the minifier
   instance, and the forms outside the AST (sloppy-mode Annex B function-in-block,
   `with`, direct eval, labels, classes, default-value scopes: the five recorded
   findings live there and have no model-level witness). *)
Theorem resolution_preserved_partial : forall prog fuel reserved names,
  let '(m, st) := parse_forest prog in
  number_rename fuel st reserved (module_top m) (sc_children m) = Some names ->
  incl (ComputeReservedNames st [m]) reserved ->
  Forall (ref_preserved st names) (parser_refs prog).
Proof. exact resolution_preserved_toplevel_all. Qed.
Print Assumptions resolution_preserved_partial.

Theorem resolution_preserved_wrapped_partial : forall prog fuel reserved names,
  let '(m, st) := parse_forest prog in
  number_rename fuel st reserved [] [m] = Some names ->
  incl (ComputeReservedNames st [m]) reserved ->
  Forall (ref_preserved st names) (parser_refs prog).
Proof. exact resolution_preserved_wrapped_all. Qed.
Print Assumptions resolution_preserved_wrapped_partial.

(* ---- the linker's registration of hoisted import symbols (regenerated inventory) ----
   every symbol-holding field of the statements that are hoisted out of a
   CommonJS wrapper (import default name, namespace ref and items; export-star
   namespace ref; export-from namespace ref and items) is passed to
   AddTopLevelSymbol in linker.renameSymbolsInChunk: the symbols declared at the
   chunk's top level by hoisting are covered by number_toplevel_distinct *)
Theorem hoisted_import_symbols_registered : hoisted_all_registered = true.
Proof. exact hoisted_all_registered_true. Qed.
Print Assumptions hoisted_import_symbols_registered.

(* the MinifyRenamer instance of resolution_preserved_partial: for every program of
   the binding-form AST, with the nested slots AssignNestedScopeSlots computes on its
   forest and the whole minifier pipeline (any accumulation order, any alphabet
   without repeated characters), every reference still finds the symbol the parser
   bound it to under the minified names - provided every renamable declared symbol
   was counted (has a slot), which is what the linker does for live declarations *)
Theorem resolution_preserved_minify_partial : forall mf,
  NoDup (m_head mf) -> NoDup (m_tail mf) -> 1 <= zlen (m_head mf) -> 2 <= zlen (m_tail mf) ->
  forall prog fuel stable reserved pre groups,
  let '(m, st) := parse_forest prog in
  forall slots total m3,
  AssignNestedScopeSlots st m = (slots, total) ->
  minify_rename fuel st slots total stable reserved mf pre groups = Some m3 ->
  incl (ComputeReservedNames st [m]) reserved ->
  (forall r, In r (tree_decls m) -> sy_ns (getsym st r) <> NsPinned -> slot_of slots m3 r <> None) ->
  Forall (ref_preserved_minify st slots m3) (parser_refs prog).
Proof. exact resolution_preserved_minify_all. Qed.
Print Assumptions resolution_preserved_minify_partial.
