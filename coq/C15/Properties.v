(* C15 property theorems. Only statements closed by [exact lemma] and Print Assumptions. *)
From V Require Import Common.Base C15.Names C15.Renamer C15.Spec
  C15.NamesProofs C15.NumberProofs C15.SlotsProofs C15.MinifyProofs C15.ComposeProofs.

(* NumberToMinifiedName is injective for every alphabet without repeated characters *)
Theorem minified_name_injective : forall m,
  NoDup (m_head m) -> NoDup (m_tail m) -> 1 <= zlen (m_head m) -> 2 <= zlen (m_tail m) ->
  forall i j, 0 <= i -> 0 <= j -> NumberToMinifiedName m i = NumberToMinifiedName m j -> i = j.
Proof. exact minified_name_inj. Qed.
Print Assumptions minified_name_injective.

(* ... in particular for every alphabet ShuffleByCharFreq can produce from the
   default one (regenerated from ast.go), whatever the frequency histogram *)
Theorem shuffled_minified_name_injective : forall freq i j, 0 <= i -> 0 <= j ->
  NumberToMinifiedName (ShuffleByCharFreq default_minifier freq) i =
  NumberToMinifiedName (ShuffleByCharFreq default_minifier freq) j -> i = j.
Proof. exact shuffled_minified_name_inj. Qed.
Print Assumptions shuffled_minified_name_injective.

(* NumberRenamer, every symbol table and every well-formed scope forest: two
   distinct symbols (after following links) that are visible in one scope
   (declared in it, in an ancestor, or at the top level) and that the renamer
   names (default and private name spaces) never get the same name: no
   capture, no introduced shadowing *)
Theorem number_renamer_no_shadow : forall fuel st reserved toplevel nested names,
  number_rename fuel st reserved toplevel nested = Some names ->
  wf_number st toplevel nested = true ->
  forall v, In v (vis_forest st nested (map (follow st) toplevel)) ->
  forall x1 x2, In (follow st x1) v -> In (follow st x2) v -> follow st x1 <> follow st x2 ->
    renameable (sy_ns (getsym st (follow st x1))) = true ->
    renameable (sy_ns (getsym st (follow st x2))) = true ->
    number_name_for st names x1 <> number_name_for st names x2.
Proof. exact number_renamer_no_shadow_all. Qed.
Print Assumptions number_renamer_no_shadow.

(* ... and no assigned name is a reserved name (keywords, free/global names,
   pinned names: whatever set the renamer was created with) *)
Theorem number_renamer_avoids_reserved : forall fuel st reserved toplevel nested names,
  number_rename fuel st reserved toplevel nested = Some names ->
  wf_number st toplevel nested = true ->
  forall r n, lookup names r = Some n -> ~ In n reserved.
Proof. exact number_renamer_avoids_reserved_all. Qed.
Print Assumptions number_renamer_avoids_reserved.

(* pinned symbols (unbound, must-not-be-renamed), labels and mangled
   properties keep their original names under the number renamer *)
Theorem number_renamer_pinned_unchanged : forall fuel st reserved toplevel nested names,
  number_rename fuel st reserved toplevel nested = Some names ->
  wf_number st toplevel nested = true ->
  forall x, renameable (sy_ns (getsym st (follow st x))) = false ->
    number_name_for st names x = sy_name (getsym st (follow st x)).
Proof. exact number_pinned_unchanged_all. Qed.
Print Assumptions number_renamer_pinned_unchanged.

(* AssignNestedScopeSlots, every well-formed module scope: symbols of one name
   space visible in one scope sit in different slots; every slot is below the
   returned slot count; top-level symbols get no nested slot *)
Theorem slots_distinct_on_chain : forall st msc sm total,
  AssignNestedScopeSlots st msc = (sm, total) ->
  wf_slots st msc = true ->
  (forall v, In v (slot_vis_forest (sc_children msc) (module_top msc)) ->
     forall r1 r2 k1 k2, In r1 v -> In r2 v -> r1 <> r2 ->
       sy_ns (getsym st r1) = sy_ns (getsym st r2) ->
       lookup sm r1 = Some k1 -> lookup sm r2 = Some k2 -> k1 <> k2) /\
  (forall r k, lookup sm r = Some k -> 0 <= k < cnt_get total (sy_ns (getsym st r))) /\
  (forall r, In r (module_top msc) -> lookup sm r = None).
Proof. exact slots_distinct_on_chain_all. Qed.
Print Assumptions slots_distinct_on_chain.

(* AllocateTopLevelSymbolSlots: a top-level slot lies at or above the first
   top-level slot (the maximum nested slot count), i.e. above every nested
   slot, and two distinct top-level symbols of a name space get distinct slots *)
Theorem top_level_slots_above_nested : forall st firstc tops,
  0 <= c_default firstc -> 0 <= c_label firstc -> 0 <= c_private firstc -> 0 <= c_mangled firstc ->
  Forall (fun e : ssc => sy_ns (getsym st (snd (fst e))) <> NsPinned) tops ->
  let m := AllocateTopLevelSymbolSlots st (NewMinifyRenamer firstc) tops in
  (forall r i, lookup (ms_top m) r = Some i -> cnt_get firstc (sy_ns (getsym st r)) <= i < slen m (sy_ns (getsym st r))) /\
  (forall r1 r2 i, r1 <> r2 -> sy_ns (getsym st r1) = sy_ns (getsym st r2) ->
     lookup (ms_top m) r1 = Some i -> lookup (ms_top m) r2 = Some i -> False).
Proof. exact top_level_slots_above_nested_all. Qed.
Print Assumptions top_level_slots_above_nested.

(* AssignNamesByFrequency (one name space, any sorted slot order, any start
   counter): the names handed out are pairwise distinct; a default-space name
   is never reserved - also for slots that need a capital letter for JSX (the
   loop fixed in a613a67) -, such a JSX name does not start in a-z, and a
   label name is never a keyword.  Fuel exhaustion (None) is excluded: the Go
   loops only terminate when the minifier eventually yields an admissible name *)
Theorem minify_names_distinct_and_admissible : forall mf,
  NoDup (m_head mf) -> NoDup (m_tail mf) -> 1 <= zlen (m_head mf) -> 2 <= zlen (m_tail mf) ->
  forall reserved fuel nsr slots sorted next asg,
  assign_sorted fuel mf reserved nsr slots sorted next = Some asg ->
  0 <= next ->
  map fst asg = map fst sorted /\
  Forall2 (fun (p : Z * name) (s : Z * Z) =>
             exists j, next <= j /\ snd p = prefix_of nsr ++ NumberToMinifiedName mf j /\
                       name_ok reserved nsr (sl_jsx (nth (Z.to_nat (fst s)) slots empty_slot)) (snd p)) asg sorted /\
  NoDup (map snd asg).
Proof. exact assign_sorted_spec. Qed.
Print Assumptions minify_names_distinct_and_admissible.

(* ExportRenamer.NextRenamedName: the aliases returned by any sequence of calls are pairwise distinct *)
Theorem export_renamer_injective : forall fuel l used out,
  export_rename_all fuel used l = Some out ->
  NoDup out /\ (forall nm, In nm out -> nm_has used nm = false) /\ length out = length l.
Proof. exact export_rename_all_spec. Qed.
Print Assumptions export_renamer_injective.

(* ExportRenamer.NextMinifiedName: distinct counters give distinct aliases *)
Theorem export_minified_injective : forall c1 c2, 0 <= c1 -> 0 <= c2 ->
  fst (NextMinifiedName c1) = fst (NextMinifiedName c2) -> c1 = c2.
Proof. exact NextMinifiedName_inj. Qed.
Print Assumptions export_minified_injective.

(* REFUTED (genuine defect, known finding C15-with-pinned-nested-name-captured-by-minified-name):
   "a minified name never equals the name of a pinned symbol visible in the
   same scope".  ComputeReservedNames does not reserve names pinned in nested
   scopes outside direct-eval chains (e.g. names referenced inside `with`);
   the witness is a well-formed module in which the pinned symbol 0 and the
   renamed symbol 1 are visible together and both end up named "a".  What does
   hold is minify_names_distinct_and_admissible: no name of the reserved set
   that was actually computed is ever chosen. *)
Theorem minify_avoids_pinned_nested_refuted :
  wf_slots wp_syms wp_module = true /\
  In [1%nat; 0%nat] (slot_vis_forest (sc_children wp_module) (module_top wp_module)) /\
  wp_names = Some ([97], [97]).
Proof. exact minify_pinned_nested_collision. Qed.
Print Assumptions minify_avoids_pinned_nested_refuted.

(* REFUTED (genuine defect, known finding C15-with-pinned-nested-name-captured-by-numbered-name):
   "a name assigned by the number renamer never equals the name of a pinned
   symbol visible in the same scope".  Same root as the previous theorem: a
   symbol pinned in a nested scope (referenced inside `with`) is neither
   reserved nor recorded in its numberScope; the parameter "e" below it is
   renamed "e2" because "e" is a free name, and lands on the pinned "e2".
   number_renamer_no_shadow (between renamed symbols) and
   number_renamer_avoids_reserved (the computed reserved set) do hold. *)
Theorem number_renamer_pinned_nested_refuted :
  wf_number np_syms [0%nat] (sc_children np_module) = true /\
  In [2%nat; 1%nat; 0%nat] (vis_forest np_syms (sc_children np_module) (map (follow np_syms) [0%nat])) /\
  np_names = Some ([101; 50], [101; 50]).
Proof. exact number_pinned_nested_collision. Qed.
Print Assumptions number_renamer_pinned_nested_refuted.

(* ---- composition slot -> name, and the chunk (cross-file) theorems ---- *)

(* the names written back into the slots of one name space: distinct slot
   indices carry distinct names, and every name is admissible for its slot *)
Theorem minify_slot_names_distinct : forall mf,
  NoDup (m_head mf) -> NoDup (m_tail mf) -> 1 <= zlen (m_head mf) -> 2 <= zlen (m_tail mf) ->
  forall reserved fuel nsr slots out,
  names_for_ns fuel mf reserved nsr slots = Some out ->
  length out = length slots /\
  (forall i1 i2, 0 <= i1 < Z.of_nat (length slots) -> 0 <= i2 < Z.of_nat (length slots) -> i1 <> i2 ->
     slot_name out i1 <> slot_name out i2) /\
  (forall i, 0 <= i < Z.of_nat (length slots) ->
     name_ok reserved nsr (sl_jsx (nth (Z.to_nat i) slots empty_slot)) (slot_name out i)).
Proof. exact names_for_ns_spec. Qed.
Print Assumptions minify_slot_names_distinct.

(* MinifyRenamer on one chunk, the whole pipeline (accumulate over all files,
   per-file sort, AllocateTopLevelSymbolSlots, AssignNamesByFrequency): two
   distinct symbols of one name space never print the same name, unless both
   are nested symbols sharing a nested slot (which slots_distinct_on_chain
   excludes for symbols visible together).  In particular: two top-level
   symbols of the chunk - whatever files they come from and whatever their
   original names -, and a top-level and a nested symbol, always differ. *)
Theorem minify_chunk_names_distinct : forall mf,
  NoDup (m_head mf) -> NoDup (m_tail mf) -> 1 <= zlen (m_head mf) -> 2 <= zlen (m_tail mf) ->
  forall fuel st slots firstc stable reserved pre groups m3,
  minify_rename fuel st slots firstc stable reserved mf pre groups = Some m3 ->
  0 <= c_default firstc -> 0 <= c_label firstc -> 0 <= c_private firstc -> 0 <= c_mangled firstc ->
  (forall r k, lookup slots r = Some k -> 0 <= k < cnt_get firstc (sy_ns (getsym st r))) ->
  forall r1 r2 i1 i2, r1 <> r2 ->
    follow st r1 = r1 -> follow st r2 = r2 ->
    sy_ns (getsym st r1) = sy_ns (getsym st r2) -> sy_ns (getsym st r1) <> NsPinned ->
    slot_of slots m3 r1 = Some i1 -> slot_of slots m3 r2 = Some i2 ->
    (lookup slots r1 <> None -> lookup slots r2 <> None -> i1 <> i2) ->
    minify_name_for st slots m3 r1 <> minify_name_for st slots m3 r2.
Proof. exact minify_rename_chunk. Qed.
Print Assumptions minify_chunk_names_distinct.

(* NumberRenamer on one chunk: the top-level symbols of all files (AddTopLevelSymbol
   in any order, equal original names included) get pairwise distinct names *)
Theorem number_toplevel_distinct : forall fuel st reserved toplevel nested names,
  number_rename fuel st reserved toplevel nested = Some names ->
  wf_number st toplevel nested = true ->
  forall x1 x2, In x1 toplevel -> In x2 toplevel -> follow st x1 <> follow st x2 ->
    renameable (sy_ns (getsym st (follow st x1))) = true ->
    renameable (sy_ns (getsym st (follow st x2))) = true ->
    number_name_for st names x1 <> number_name_for st names x2.
Proof. exact number_toplevel_distinct_all. Qed.
Print Assumptions number_toplevel_distinct.

(* ComputeReservedNames contains the name of every pinned symbol declared in a
   module scope or in a scope reached from it through direct-eval scopes *)
Theorem reserved_covers_eval_chains : forall st mods msc r,
  In msc mods -> In r (eval_reach_decls msc) -> sy_ns (getsym st r) = NsPinned ->
  In (sy_name (getsym st r)) (ComputeReservedNames st mods).
Proof. exact reserved_covers. Qed.
Print Assumptions reserved_covers_eval_chains.

(* PARTIAL for minify_avoids_pinned_nested_refuted (full statement: "a minified
   default name never equals the name of ANY pinned symbol visible with it"):
   it holds for every pinned symbol of a module scope or of a direct-eval
   chain; the refuted remainder is exactly a symbol pinned in a nested scope
   that no direct-eval chain reaches (pinned by `with`), the recorded shape *)
Theorem minify_avoids_pinned_partial : forall mf,
  NoDup (m_head mf) -> NoDup (m_tail mf) -> 1 <= zlen (m_head mf) -> 2 <= zlen (m_tail mf) ->
  forall fuel st slots firstc stable reserved pre groups m3 mods,
  minify_rename fuel st slots firstc stable reserved mf pre groups = Some m3 ->
  incl (ComputeReservedNames st mods) reserved ->
  forall msc p, In msc mods -> In p (eval_reach_decls msc) -> sy_ns (getsym st p) = NsPinned ->
  forall i, 0 <= i < Z.of_nat (length (ms_default m3)) ->
    slot_name (ms_default m3) i <> sy_name (getsym st p).
Proof. exact minify_avoids_pinned_partial_all. Qed.
Print Assumptions minify_avoids_pinned_partial.

(* PARTIAL for number_renamer_pinned_nested_refuted, same boundary *)
Theorem number_avoids_pinned_partial : forall fuel st reserved toplevel nested names mods,
  number_rename fuel st reserved toplevel nested = Some names ->
  wf_number st toplevel nested = true ->
  incl (ComputeReservedNames st mods) reserved ->
  forall msc p, In msc mods -> In p (eval_reach_decls msc) -> sy_ns (getsym st p) = NsPinned ->
  forall r n, lookup names r = Some n -> n <> sy_name (getsym st p).
Proof. exact number_avoids_pinned_partial_all. Qed.
Print Assumptions number_avoids_pinned_partial.
