(* Lemmas about names: minified-name injectivity, shuffle is a permutation. *)
From V Require Import Common.Base C15.Names.
From Coq Require Import Permutation.

Lemma name_eqb_eq a b : name_eqb a b = true <-> a = b.
Proof. apply zlist_eqb_eq. Qed.

Lemma name_eqb_refl a : name_eqb a a = true.
Proof. apply name_eqb_eq. reflexivity. Qed.

Lemma name_eqb_neq a b : name_eqb a b = false <-> a <> b.
Proof.
  split.
  - intros H E. apply name_eqb_eq in E. congruence.
  - intros H. destruct (name_eqb a b) eqn:E; [apply name_eqb_eq in E; contradiction | reflexivity].
Qed.

Lemma mem_name_In n l : mem_name n l = true <-> In n l.
Proof.
  induction l as [|x r IH]; simpl.
  - split; [discriminate | tauto].
  - destruct (name_eqb n x) eqn:E.
    + apply name_eqb_eq in E. subst. tauto.
    + apply name_eqb_neq in E. rewrite IH. split; [tauto | intros [H|H]; [congruence | exact H]].
Qed.

Lemma mem_name_false n l : mem_name n l = false <-> ~ In n l.
Proof.
  rewrite <- mem_name_In. destruct (mem_name n l); split; intros; try congruence; try tauto.
Qed.

(* ---- nth on NoDup lists ---- *)
Lemma char_at_inj l i j :
  NoDup l -> 0 <= i < zlen l -> 0 <= j < zlen l -> char_at l i = char_at l j -> i = j.
Proof.
  unfold char_at, zlen. intros ND Hi Hj E.
  assert (Z.to_nat i = Z.to_nat j).
  { apply (proj1 (NoDup_nth l 0) ND); [lia | lia | exact E]. }
  lia.
Qed.

(* ---- min_tail ---- *)
Lemma log2_div_lt i n : 1 <= i -> 2 <= n -> 1 <= (i - 1) / n -> Z.log2 ((i - 1) / n) < Z.log2 i.
Proof.
  intros Hi Hn Hq.
  assert (H2 : 2 * ((i - 1) / n) <= i - 1).
  { assert (n * ((i - 1) / n) <= i - 1) by (apply Z.mul_div_le; lia). nia. }
  assert (Z.log2 (2 * ((i - 1) / n)) = Z.succ (Z.log2 ((i - 1) / n))) by (apply Z.log2_double; lia).
  assert (Z.log2 (2 * ((i - 1) / n)) <= Z.log2 i) by (apply Z.log2_le_mono; lia).
  lia.
Qed.

Lemma min_tail_nil_iff f tail i : (Z.log2 i < Z.of_nat f) -> (min_tail f tail i = [] <-> i <= 0).
Proof.
  intros Hf. destruct f as [|f]; simpl.
  - assert (0 <= Z.log2 i) by apply Z.log2_nonneg. lia.
  - destruct (i <=? 0) eqn:E; split; intros; try lia; try reflexivity; try discriminate.
Qed.

Lemma min_tail_inj tail :
  NoDup tail -> 2 <= zlen tail ->
  forall f i j, 0 <= i -> 0 <= j ->
    Z.log2 i < Z.of_nat f -> Z.log2 j < Z.of_nat f ->
    min_tail f tail i = min_tail f tail j -> i = j.
Proof.
  intros ND Hn f. induction f as [|f IH]; intros i j Hi Hj Li Lj E.
  - assert (0 <= Z.log2 i) by apply Z.log2_nonneg. lia.
  - simpl in E.
    destruct (i <=? 0) eqn:Ei; destruct (j <=? 0) eqn:Ej; try discriminate; try lia.
    injection E as Ec Er.
    set (n := zlen tail) in *.
    destruct f as [|f'].
    { assert (i < 2 ^ 1) by (apply Z.log2_lt_pow2; lia).
      assert (j < 2 ^ 1) by (apply Z.log2_lt_pow2; lia).
      change (2 ^ 1) with 2 in *. lia. }
    assert (Hm : (i - 1) mod n = (j - 1) mod n).
    { apply (char_at_inj tail); auto; apply Z.mod_pos_bound; lia. }
    assert (Hq : (i - 1) / n = (j - 1) / n).
    { assert (Qi : 0 <= (i - 1) / n) by (apply Z.div_pos; lia).
      assert (Qj : 0 <= (j - 1) / n) by (apply Z.div_pos; lia).
      assert (Bi : Z.log2 ((i - 1) / n) < Z.of_nat (S f')).
      { destruct (Z.eq_dec ((i - 1) / n) 0) as [Z0|NZ].
        - rewrite Z0. simpl. lia.
        - assert (Z.log2 ((i - 1) / n) < Z.log2 i) by (apply log2_div_lt; lia). lia. }
      assert (Bj : Z.log2 ((j - 1) / n) < Z.of_nat (S f')).
      { destruct (Z.eq_dec ((j - 1) / n) 0) as [Z0|NZ].
        - rewrite Z0. simpl. lia.
        - assert (Z.log2 ((j - 1) / n) < Z.log2 j) by (apply log2_div_lt; lia). lia. }
      apply IH; auto. }
    assert (Di : i - 1 = n * ((i - 1) / n) + (i - 1) mod n) by (apply Z.div_mod; lia).
    assert (Dj : j - 1 = n * ((j - 1) / n) + (j - 1) mod n) by (apply Z.div_mod; lia).
    rewrite Hm, Hq in Di. lia.
Qed.

(* fuel irrelevance, so that the fuel chosen in NumberToMinifiedName is immaterial *)
Lemma min_tail_fuel tail : 2 <= zlen tail ->
  forall f1 f2 i, Z.log2 i < Z.of_nat f1 -> Z.log2 i < Z.of_nat f2 ->
    min_tail f1 tail i = min_tail f2 tail i.
Proof.
  intros Hn f1. induction f1 as [|f1 IH]; intros f2 i L1 L2.
  - assert (0 <= Z.log2 i) by apply Z.log2_nonneg. lia.
  - destruct f2 as [|f2].
    + assert (0 <= Z.log2 i) by apply Z.log2_nonneg. lia.
    + simpl. destruct (i <=? 0) eqn:Ei; [reflexivity|]. f_equal.
      set (n := zlen tail) in *.
      destruct (Z.eq_dec ((i - 1) / n) 0) as [Z0|NZ].
      * rewrite Z0. destruct f1, f2; reflexivity.
      * assert (0 <= (i - 1) / n) by (apply Z.div_pos; lia).
        assert (Z.log2 ((i - 1) / n) < Z.log2 i) by (apply log2_div_lt; lia).
        apply IH; lia.
Qed.

Lemma cons_inj {A} (a b : A) l m : a :: l = b :: m -> a = b /\ l = m.
Proof. intros H. inversion H. split; reflexivity. Qed.

Lemma minified_name_inj m :
  NoDup (m_head m) -> NoDup (m_tail m) -> 1 <= zlen (m_head m) -> 2 <= zlen (m_tail m) ->
  forall i j, 0 <= i -> 0 <= j ->
    NumberToMinifiedName m i = NumberToMinifiedName m j -> i = j.
Proof.
  intros NDh NDt Hh Ht i j Hi Hj E. unfold NumberToMinifiedName in E.
  set (nh := zlen (m_head m)) in *.
  apply cons_inj in E. destruct E as [Ec Er].
  assert (Hm : i mod nh = j mod nh).
  { apply (char_at_inj (m_head m)); auto; apply Z.mod_pos_bound; lia. }
  assert (Qi : 0 <= i / nh) by (apply Z.div_pos; lia).
  assert (Qj : 0 <= j / nh) by (apply Z.div_pos; lia).
  assert (Hq : i / nh = j / nh).
  { set (f := Nat.max (tail_fuel (i / nh)) (tail_fuel (j / nh))).
    rewrite (min_tail_fuel (m_tail m) Ht (tail_fuel (i / nh)) f (i / nh)) in Er by (unfold f, tail_fuel; assert (0 <= Z.log2 (i / nh)) by apply Z.log2_nonneg; lia).
    rewrite (min_tail_fuel (m_tail m) Ht (tail_fuel (j / nh)) f (j / nh)) in Er by (unfold f, tail_fuel; assert (0 <= Z.log2 (j / nh)) by apply Z.log2_nonneg; lia).
    apply (min_tail_inj (m_tail m) NDt Ht f); auto;
      unfold f, tail_fuel; [assert (0 <= Z.log2 (i / nh)) by apply Z.log2_nonneg | assert (0 <= Z.log2 (j / nh)) by apply Z.log2_nonneg]; lia. }
  assert (Di : i = nh * (i / nh) + i mod nh) by (apply Z.div_mod; lia).
  assert (Dj : j = nh * (j / nh) + j mod nh) by (apply Z.div_mod; lia).
  rewrite Hm, Hq in Di. lia.
Qed.

(* ---- the default alphabets have no repeated character ---- *)
Fixpoint nodup_b (l : list Z) : bool :=
  match l with
  | [] => true
  | x :: r => negb (existsb (Z.eqb x) r) && nodup_b r
  end.
Lemma nodup_b_sound l : nodup_b l = true -> NoDup l.
Proof.
  induction l as [|x r IH]; simpl; intros H; constructor.
  - apply andb_true_iff in H as [H _]. intros I.
    assert (existsb (Z.eqb x) r = true) by (apply existsb_exists; exists x; split; [exact I | apply Z.eqb_refl]).
    rewrite H0 in H. discriminate.
  - apply andb_true_iff in H as [_ H]. auto.
Qed.

Lemma default_head_nodup : NoDup (m_head default_minifier).
Proof. apply nodup_b_sound. vm_compute. reflexivity. Qed.
Lemma default_tail_nodup : NoDup (m_tail default_minifier).
Proof. apply nodup_b_sound. vm_compute. reflexivity. Qed.

(* ---- ShuffleByCharFreq yields a permutation of the tail, head = non-digits ---- *)
Lemma cc_insert_perm x l : Permutation (cc_insert x l) (x :: l).
Proof.
  induction l as [|y r IH]; simpl; [apply Permutation_refl|].
  destruct (cc_less y x); [|apply Permutation_refl].
  eapply Permutation_trans; [apply perm_skip, IH | apply perm_swap].
Qed.
Lemma cc_sort_perm l : Permutation (cc_sort l) l.
Proof.
  induction l as [|x r IH]; simpl; [constructor|].
  eapply Permutation_trans; [apply cc_insert_perm | apply perm_skip, IH].
Qed.
Lemma cc_array_chars tail freq i : map (fun x => fst (fst x)) (cc_array tail freq i) = tail.
Proof. revert i. induction tail as [|c r IH]; intros i; simpl; [reflexivity | rewrite IH; reflexivity]. Qed.

Lemma shuffle_tail_perm src freq : Permutation (m_tail (ShuffleByCharFreq src freq)) (m_tail src).
Proof.
  unfold ShuffleByCharFreq. simpl.
  rewrite <- (cc_array_chars (m_tail src) freq 0) at 2.
  apply Permutation_map, cc_sort_perm.
Qed.

Lemma NoDup_filter {A} (f : A -> bool) l : NoDup l -> NoDup (filter f l).
Proof.
  induction 1 as [|x l H ND IH]; simpl; [constructor|].
  destruct (f x); [constructor; [rewrite filter_In; tauto | exact IH] | exact IH].
Qed.

Lemma shuffle_nodup src freq :
  NoDup (m_tail src) ->
  NoDup (m_head (ShuffleByCharFreq src freq)) /\ NoDup (m_tail (ShuffleByCharFreq src freq)).
Proof.
  intros ND.
  assert (T : NoDup (m_tail (ShuffleByCharFreq src freq))).
  { eapply Permutation_NoDup; [apply Permutation_sym, shuffle_tail_perm | exact ND]. }
  split; [|exact T]. unfold ShuffleByCharFreq in *. simpl in *. apply NoDup_filter. exact T.
Qed.

Lemma shuffle_lengths src freq :
  length (m_tail (ShuffleByCharFreq src freq)) = length (m_tail src) /\
  length (m_head (ShuffleByCharFreq src freq)) = length (filter (fun c => negb (is_digit c)) (m_tail src)).
Proof.
  split.
  - apply Permutation_length, shuffle_tail_perm.
  - unfold ShuffleByCharFreq. simpl.
    assert (P : Permutation (map (fun x => fst (fst x)) (cc_sort (cc_array (m_tail src) freq 0))) (m_tail src)) by apply shuffle_tail_perm.
    revert P. generalize (map (fun x : Z * Z * Z => fst (fst x)) (cc_sort (cc_array (m_tail src) freq 0))).
    intros l P. apply Permutation_length.
    induction P; simpl.
    + constructor.
    + destruct (negb (is_digit x)); [apply perm_skip|]; assumption.
    + destruct (negb (is_digit x)), (negb (is_digit y)); try apply perm_swap; apply Permutation_refl.
    + eapply Permutation_trans; eassumption.
Qed.

(* every minifier obtained by shuffling the default one is injective *)
Lemma shuffled_minified_name_inj freq i j :
  0 <= i -> 0 <= j ->
  NumberToMinifiedName (ShuffleByCharFreq default_minifier freq) i =
  NumberToMinifiedName (ShuffleByCharFreq default_minifier freq) j -> i = j.
Proof.
  pose proof (shuffle_nodup default_minifier freq default_tail_nodup) as [Hh Ht].
  pose proof (shuffle_lengths default_minifier freq) as [Lt Lh].
  apply minified_name_inj; auto; unfold zlen.
  - rewrite Lh. vm_compute. discriminate.
  - rewrite Lt. vm_compute. discriminate.
Qed.
