(* Resolution is preserved on parser-built forests: for every program of the
   binding-form AST, every reference the parser binds to a symbol s still finds s
   when every name in its environment is replaced by the name the number renamer
   assigned - with no well-formedness hypothesis left (parser_forest_wellformed). *)
From V Require Import Common.Base C15.Names C15.NamesProofs C15.Renamer C15.Spec C15.NumberProofs
  C15.SlotsProofs C15.MinifyProofs C15.ComposeProofs C15.ScopeBuild C15.ScopeProg C15.ScopeBuildProofs.

Section PskInd.
  Variable P : psk -> Prop.
  Hypothesis H : forall f s r ch, Forall P ch -> P (PSk f s r ch).
  Fixpoint psk_ind' (k : psk) : P k :=
    match k with
    | PSk f s r ch =>
        H f s r ch ((fix go (cs : list psk) : Forall P cs :=
                       match cs with
                       | [] => Forall_nil P
                       | c :: r => Forall_cons c (psk_ind' c) (go r)
                       end) ch)
    end.
End PskInd.

Lemma psk_size_unfold f s r ch : psk_size (PSk f s r ch) = (length f + forest_size ch)%nat.
Proof. simpl. f_equal; try (induction ch as [|c l IH]; [reflexivity | simpl; rewrite IH; reflexivity]). Qed.

Fixpoint refs_forest (env : env_t) (cs : list psk) (n : nat) : list (name * env_t) :=
  match cs with
  | [] => []
  | c :: r => refs_of env c n ++ refs_forest env r (n + psk_size c)%nat
  end.
Lemma refs_of_unfold env f s refs ch n :
  refs_of env (PSk f s refs ch) n =
  let env' := combine (map fst f) (seq n (length f)) ++ env in
  map (fun x => (x, env')) refs ++ refs_forest env' ch (n + length f)%nat.
Proof.
  simpl. f_equal. generalize (n + length f)%nat as m.
  induction ch as [|c l IH]; intros m; simpl; [reflexivity | rewrite IH; reflexivity].
Qed.

Lemma erase_unfold f s r ch : erase (PSk f s r ch) = Sk f s (map erase ch).
Proof. reflexivity. Qed.

(* the counter advances by the number of symbols created *)
Lemma number_size k : forall env n sc syms n',
  number_sk env (erase k) n = (sc, syms, n') -> n' = (n + psk_size k)%nat /\ length syms = psk_size k.
Proof.
  induction k as [f s r ch IHch] using psk_ind'. intros env n sc syms n' B.
  rewrite erase_unfold, number_sk_unfold in B. cbv zeta in B.
  set (env' := combine (map fst f) (seq n (length f)) ++ env) in *.
  destruct (number_forest env' (map erase ch) (n + length f)%nat) as [[cs sy] nn] eqn:F.
  injection B as <- <- <-. rewrite psk_size_unfold.
  assert (K : nn = (n + length f + forest_size ch)%nat /\ length sy = forest_size ch).
  { revert cs sy nn F. generalize (n + length f)%nat as m.
    induction IHch as [|c l Hc Hl IH]; intros m cs sy nn F; simpl in F.
    - injection F as <- <- <-. simpl. split; [lia | reflexivity].
    - destruct (number_sk env' (erase c) m) as [[sc1 s1] n1] eqn:B1.
      destruct (number_forest env' (map erase l) n1) as [[scs s2] n2] eqn:F2.
      injection F as <- <- <-. destruct (Hc _ _ _ _ _ B1) as [-> L1]. destruct (IH _ _ _ _ F2) as [-> L2].
      simpl. rewrite app_length. split; lia. }
  destruct K as [-> L]. split; [lia|].
  rewrite app_length. unfold fresh_syms. rewrite map_length, combine_length, seq_length. lia.
Qed.

(* ---- renaming an environment ---- *)
Definition rename_env (nmf : nat -> name) (E : env_t) : env_t := map (fun p => (nmf (snd p), snd p)) E.

Lemma env_rename_lookup (orig nmf : nat -> name) (E : env_t) x s :
  (forall y i, In (y, i) E -> orig i = y) ->
  (forall i j, In i (map snd E) -> In j (map snd E) -> i <> j -> nmf i = nmf j ->
               nmf i = orig i /\ nmf j = orig j) ->
  env_get E x = Some s ->
  env_get (rename_env nmf E) (nmf s) = Some s.
Proof.
  induction E as [|[y i] r IH]; intros K Inj G; [discriminate|]. simpl in G |- *.
  destruct (name_eqb x y) eqn:Exy.
  - injection G as <-. rewrite name_eqb_refl. reflexivity.
  - apply name_eqb_neq in Exy.
    assert (Hs : In s (map snd r) /\ orig s = x).
    { clear - G K. induction r as [|[z j] t IHr]; [discriminate|]. simpl in G.
      destruct (name_eqb x z) eqn:E.
      - injection G as <-. apply name_eqb_eq in E. subst. split; [left; reflexivity|].
        apply (K z j). right. left. reflexivity.
      - destruct IHr as [A B]; [intros a b H; apply K; destruct H as [H|H]; [left; exact H | right; right; exact H] | exact G|].
        split; [right; exact A | exact B]. }
    destruct Hs as [Hs Os].
    destruct (name_eqb (nmf s) (nmf i)) eqn:En.
    + exfalso. apply name_eqb_eq in En.
      assert (Ni : i <> s).
      { intros ->. apply Exy. rewrite <- Os. apply (K y s). left. reflexivity. }
      destruct (Inj i s) as [A B]; [left; reflexivity | right; exact Hs | exact Ni | symmetry; exact En|].
      apply Exy. rewrite <- Os, <- B, En, A. apply (K y i). left. reflexivity.
    + apply IH; [intros a b H; apply K; right; exact H | | exact G].
      intros a b Ha Hb. apply Inj; right; assumption.
Qed.

(* ---- the symbols a scope creates carry the names of its fresh list ---- *)
Lemma fresh_syms_cons p fresh n :
  fresh_syms (p :: fresh) n = mkSym (fst p) (snd p) None false 0 (Z.of_nat n) :: fresh_syms fresh (S n).
Proof. reflexivity. Qed.

Lemma fresh_entries (st : symtab) fresh : forall n y i,
  (forall j, (j < length fresh)%nat -> getsym st (n + j) = nth j (fresh_syms fresh n) dummy_sym) ->
  In (y, i) (combine (map fst fresh) (seq n (length fresh))) ->
  sy_name (getsym st i) = y /\ (n <= i < n + length fresh)%nat.
Proof.
  induction fresh as [|p r IH]; intros n y i H I; [destruct I|].
  simpl in I. destruct I as [E|I].
  - injection E as <- <-. specialize (H 0%nat ltac:(simpl; lia)). rewrite Nat.add_0_r in H.
    rewrite H. simpl. split; [reflexivity | lia].
  - destruct (IH (S n) y i) as [A B]; [|exact I | split; [exact A | simpl; lia]].
    intros j Hj. specialize (H (S j) ltac:(simpl; lia)).
    rewrite fresh_syms_cons in H. simpl in H. rewrite <- H. f_equal. lia.
Qed.

Lemma nth_app_l' {A} (l m : list A) d j : (j < length l)%nat -> nth j (l ++ m) d = nth j l d.
Proof. intros H. apply app_nth1. exact H. Qed.
Lemma nth_app_r' {A} (l m : list A) d j : nth (length l + j) (l ++ m) d = nth j m d.
Proof. rewrite app_nth2 by lia. f_equal. lia. Qed.

Lemma fresh_syms_length fresh n : length (fresh_syms fresh n) = length fresh.
Proof. unfold fresh_syms. rewrite map_length, combine_length, seq_length. lia. Qed.

Section Align.
  Variable st : symtab.
  Hypothesis NoLinks : forall r, follow st r = r.

  Definition env_good (env : env_t) (a : list nat) : Prop :=
    forall y i, In (y, i) env -> In i a /\ sy_name (getsym st i) = y.

  Definition ref_good (sets : list (list nat)) (xE : name * env_t) : Prop :=
    (forall y i, In (y, i) (snd xE) -> sy_name (getsym st i) = y) /\
    exists v, In v sets /\ forall y i, In (y, i) (snd xE) -> In i v.

  Lemma refs_aligned k : forall env n a sc syms n',
    number_sk env (erase k) n = (sc, syms, n') ->
    env_good env a ->
    (forall j, (j < length syms)%nat -> getsym st (n + j) = nth j syms dummy_sym) ->
    Forall (ref_good (vis_sets st sc a)) (refs_of env k n).
  Proof.
    induction k as [f s refs ch IHch] using psk_ind'. intros env n a sc syms n' B EG TB.
    rewrite erase_unfold, number_sk_unfold in B. cbv zeta in B.
    set (ids := seq n (length f)) in *.
    set (env' := combine (map fst f) ids ++ env) in *.
    destruct (number_forest env' (map erase ch) (n + length f)%nat) as [[cs sy] nn] eqn:F.
    injection B as <- <- <-.
    rewrite refs_of_unfold. cbv zeta. fold ids. fold env'.
    rewrite vis_sets_unfold, canon_is_decls by exact NoLinks.
    set (mem := ids ++ shared_ids env s).
    change (scope_decls (Scope mem [] None false cs)) with (sort_nat mem ++ []).
    set (v := (sort_nat mem ++ []) ++ a).
    assert (Vin : forall i, In i ids -> In i v).
    { intros i Hi. unfold v. apply in_app_iff. left. rewrite app_nil_r.
      apply sort_nat_in. unfold mem. apply in_app_iff. left. exact Hi. }
    assert (EG' : env_good env' v).
    { intros y i I. unfold env' in I. apply in_app_iff in I as [I|I].
      - destruct (fresh_entries st f n y i) as [A Bd]; [|exact I|].
        + intros j Hj. rewrite TB by (rewrite app_length, fresh_syms_length; lia).
          apply nth_app_l'. rewrite fresh_syms_length. exact Hj.
        + split; [apply Vin; unfold ids; apply in_seq; lia | exact A].
      - destruct (EG y i I) as [A Bd]. split; [unfold v; apply in_app_iff; right; exact A | exact Bd]. }
    apply Forall_app. split.
    - apply Forall_forall. intros [x E] I. apply in_map_iff in I as (x0 & Ex & _). injection Ex as <- <-.
      split; [intros y i H; apply (EG' y i H)|].
      exists v. split; [left; reflexivity | intros y i H; apply (EG' y i H)].
    - (* the children *)
      assert (TB' : forall j, (j < length sy)%nat -> getsym st (n + length f + j) = nth j sy dummy_sym).
      { intros j Hj. rewrite <- Nat.add_assoc. rewrite TB by (rewrite app_length, fresh_syms_length; lia).
        rewrite <- (fresh_syms_length f n) at 1. apply nth_app_r'. }
      clear TB. revert cs sy nn F TB'. generalize (n + length f)%nat as m.
      induction IHch as [|c l Hc Hl IH]; intros m cs sy nn F TB'; simpl in F |- *.
      + constructor.
      + destruct (number_sk env' (erase c) m) as [[sc1 s1] n1] eqn:B1.
        destruct (number_forest env' (map erase l) n1) as [[scs s2] n2] eqn:F2.
        injection F as <- <- <-.
        destruct (number_size c _ _ _ _ _ B1) as [-> L1].
        apply Forall_app. split.
        * eapply Forall_impl; [|apply (Hc env' m v sc1 s1 _ B1 EG')].
          -- intros xE [G1 (w & Hw & G2)]. split; [exact G1|]. exists w. split; [|exact G2].
             right. simpl. apply in_app_iff. left. exact Hw.
          -- intros j Hj. rewrite TB' by (rewrite app_length; lia). apply nth_app_l'. exact Hj.
        * eapply Forall_impl; [|apply (IH (m + psk_size c)%nat scs s2 n2 F2)].
          -- intros xE [G1 (w & Hw & G2)]. split; [exact G1|]. exists w. split; [|exact G2].
             destruct Hw as [Hw|Hw]; [left; exact Hw | right; simpl; apply in_app_iff; right; exact Hw].
          -- intros j Hj. rewrite <- L1, <- Nat.add_assoc. rewrite TB' by (rewrite app_length; lia). apply nth_app_r'.
  Qed.
End Align.

Lemma vis_in_tree st (NoLinks : forall r, follow st r = r) sc : forall a v,
  In v (vis_sets st sc a) -> forall i, In i v -> In i a \/ In i (tree_decls sc).
Proof.
  induction sc as [m g l e ch IHch] using scope_ind'. intros a v Hv i Hi.
  rewrite vis_sets_unfold, canon_is_decls in Hv by exact NoLinks.
  assert (D : forall j, In j (scope_decls (Scope m g l e ch) ++ a) -> In j a \/ In j (tree_decls (Scope m g l e ch))).
  { intros j Hj. apply in_app_iff in Hj as [Hj|Hj]; [right | left; exact Hj].
    unfold scope_decls in Hj. simpl in Hj |- *. apply in_app_iff in Hj as [Hj|Hj].
    - apply (proj1 (sort_nat_in _ _)) in Hj. apply in_app_iff. left. exact Hj.
    - apply in_app_iff. right. apply in_app_iff. left. exact Hj. }
  destruct Hv as [<-|Hv]; [apply D; exact Hi|].
  set (w := scope_decls (Scope m g l e ch) ++ a) in *.
  assert (K : In i w \/ exists c, In c ch /\ In i (tree_decls c)).
  { clear D. induction IHch as [|c r Hc Hr IH]; [destruct Hv|]. simpl in Hv.
    apply in_app_iff in Hv as [Hv|Hv].
    - destruct (Hc w v Hv i Hi) as [A|A]; [left; exact A | right; exists c; split; [left; reflexivity | exact A]].
    - destruct (IH Hv) as [A|(c' & Ic & A)]; [left; exact A | right; exists c'; split; [right; exact Ic | exact A]]. }
  destruct K as [K|(c & Ic & K)]; [apply D; exact K|].
  right. simpl. apply in_app_iff. right. apply in_app_iff. right.
  clear - Ic K. induction ch as [|c' r IH]; [destruct Ic|].
  apply in_app_iff. destruct Ic as [->|Ic]; [left; exact K | right; apply IH; exact Ic].
Qed.

Lemma skel_closed prog : skel_of_prog prog = erase (closed_psk prog).
Proof. reflexivity. Qed.

(* everything that is known about the reference environments of a program *)
Lemma parser_refs_facts prog :
  let '(m, st) := parse_forest prog in
  (forall r, follow st r = r) /\
  Forall (fun xE : name * env_t =>
            (forall y i, In (y, i) (snd xE) -> sy_name (getsym st i) = y) /\
            exists v, In v (vis_sets st m []) /\ forall y i, In (y, i) (snd xE) -> In i v)
         (parser_refs prog).
Proof.
  unfold parse_forest, build_sk. rewrite skel_closed.
  destruct (number_sk [] (erase (closed_psk prog)) 0) as [[m st] n'] eqn:B.
  destruct (number_nolabel _ _ _ _ _ _ B) as [_ NLk].
  pose proof (follow_nolinks st NLk) as NoLinks. split; [exact NoLinks|].
  apply (refs_aligned st NoLinks (closed_psk prog) [] 0%nat [] m st n' B).
  - intros y i [].
  - intros j _. reflexivity.
Qed.

(* ---- the generic step: distinct names for distinct renamed symbols of an
   environment, unchanged names for the rest, imply that lookup is preserved ---- *)
Section Final.
  Variables (fuel : nat) (st : symtab) (reserved : list name) (toplevel : list nat) (nested : list scope)
            (names : names_t) (m : scope).
  Hypothesis A : number_rename fuel st reserved toplevel nested = Some names.
  Hypothesis W : wf_number st toplevel nested = true.
  Hypothesis Incl : incl (ComputeReservedNames st [m]) reserved.
  Hypothesis NoLinks : forall r, follow st r = r.

  Definition nmf (i : nat) : name := number_name_for st names i.
  Definition origf (i : nat) : name := sy_name (getsym st i).

  Lemma lookup_preserved E x s :
    (forall y i, In (y, i) E -> origf i = y) ->
    (forall y i, In (y, i) E -> In i (tree_decls m)) ->
    (* symbols are ordinary bindings or pinned *)
    (forall y i, In (y, i) E -> renameable (sy_ns (getsym st i)) = false -> sy_ns (getsym st i) = NsPinned) ->
    (forall i j, In i (map snd E) -> In j (map snd E) -> i <> j ->
       renameable (sy_ns (getsym st i)) = true -> renameable (sy_ns (getsym st j)) = true -> nmf i <> nmf j) ->
    env_get E x = Some s ->
    env_get (rename_env nmf E) (nmf s) = Some s.
  Proof.
    intros K T P D G. apply (env_rename_lookup origf nmf E x s K); [|exact G].
    assert (Keep : forall i, renameable (sy_ns (getsym st i)) = false -> nmf i = origf i).
    { intros i R. unfold nmf, origf.
      pose proof (number_pinned_unchanged_all fuel st reserved toplevel nested names A W i) as Q.
      rewrite NoLinks in Q. apply Q. exact R. }
    assert (Def : forall i, nmf i = match lookup names i with Some n => n | None => origf i end).
    { intros i. unfold nmf, number_name_for, origf. rewrite NoLinks. reflexivity. }
    assert (Mix : forall i j yi yj, In (yi, i) E -> In (yj, j) E ->
              renameable (sy_ns (getsym st i)) = true -> renameable (sy_ns (getsym st j)) = false ->
              nmf i = nmf j -> nmf i = origf i).
    { intros i j yi yj Hi Hj Ri Rj E'. rewrite (Keep j Rj) in E'. rewrite Def in E' |- *.
      destruct (lookup names i) as [n|] eqn:L; [|reflexivity]. exfalso.
      assert (Pj : sy_ns (getsym st j) = NsPinned) by (eapply P; eauto).
      exact (number_avoids_pinned_all fuel st reserved toplevel nested names [m] A W Incl m j
               (or_introl eq_refl) (T yj j Hj) Pj i n L E'). }
    intros i j Hi Hj N E'.
    apply in_map_iff in Hi as ([yi i'] & Ei & Hi). simpl in Ei. subst i'.
    apply in_map_iff in Hj as ([yj j'] & Ej & Hj). simpl in Ej. subst j'.
    destruct (renameable (sy_ns (getsym st i))) eqn:Ri; destruct (renameable (sy_ns (getsym st j))) eqn:Rj.
    - exfalso. apply (D i j); auto; apply in_map_iff; [exists (yi, i) | exists (yj, j)]; auto.
    - split; [eapply Mix; eauto | apply Keep; exact Rj].
    - split; [apply Keep; exact Ri | eapply (Mix j i); eauto].
    - split; apply Keep; assumption.
  Qed.
End Final.

(* ---- symbols of parser forests are ordinary bindings or pinned ---- *)
Definition ns_plain (n : ns) : Prop := n = NsDefault \/ n = NsPinned.
Inductive psk_plain : psk -> Prop :=
| PP f s r ch : Forall (fun p => ns_plain (snd p)) f -> Forall psk_plain ch -> psk_plain (PSk f s r ch).

Section StmtInd.
  Variable P : stmt -> Prop.
  Hypothesis Hvar : forall x, P (SVar x).
  Hypothesis Hlet : forall x, P (SLet x).
  Hypothesis Href : forall x, P (SRef x).
  Hypothesis Hblock : forall b, Forall P b -> P (SBlock b).
  Hypothesis Htry : forall b p c, Forall P b -> Forall P c -> P (STry b p c).
  Hypothesis Hfor : forall x b, Forall P b -> P (SForLet x b).
  Hypothesis Hfunc : forall f ps b, Forall P b -> P (SFunc f ps b).
  Hypothesis Hfexpr : forall self ps b, Forall P b -> P (SFuncExpr self ps b).
  Hypothesis Harrow : forall ps b, Forall P b -> P (SArrow ps b).
  Hypothesis Heval : P SEval.
  Hypothesis Hwith : forall b, Forall P b -> P (SWith b).
  Fixpoint stmt_ind' (s : stmt) : P s :=
    let go := fix go (l : list stmt) : Forall P l :=
                match l with [] => Forall_nil P | x :: r => Forall_cons x (stmt_ind' x) (go r) end in
    match s with
    | SVar x => Hvar x | SLet x => Hlet x | SRef x => Href x
    | SBlock b => Hblock b (go b)
    | STry b p c => Htry b p c (go b) (go c)
    | SForLet x b => Hfor x b (go b)
    | SFunc f ps b => Hfunc f ps b (go b)
    | SFuncExpr self ps b => Hfexpr self ps b (go b)
    | SArrow ps b => Harrow ps b (go b)
    | SEval => Heval
    | SWith b => Hwith b (go b)
    end.
End StmtInd.

Lemma dflt_plain l : Forall (fun p : name * ns => ns_plain (snd p)) (dflt l).
Proof. unfold dflt. apply Forall_forall. intros p H. apply in_map_iff in H as (x & <- & _). left. reflexivity. Qed.
Lemma pinned_plain l : Forall (fun p : name * ns => ns_plain (snd p)) (map (fun x => (x, NsPinned)) l).
Proof. apply Forall_forall. intros p H. apply in_map_iff in H as (x & <- & _). right. reflexivity. Qed.

Lemma Forall_flat_map' {A B} (P : B -> Prop) (f : A -> list B) l :
  Forall (fun x => Forall P (f x)) l -> Forall P (flat_map f l).
Proof. induction 1; simpl; [constructor | apply Forall_app; split; assumption]. Qed.

Lemma block_plain b : Forall (fun s => Forall psk_plain (scopes_of s)) b -> psk_plain (block_with scopes_of b).
Proof. intros H. constructor; [apply dflt_plain | apply Forall_flat_map'; exact H]. Qed.
Lemma fn_plain self ps ha b : Forall (fun s => Forall psk_plain (scopes_of s)) b -> psk_plain (fn_with scopes_of self ps ha b).
Proof.
  intros H. unfold fn_with. constructor.
  - repeat (apply Forall_app; split); try apply dflt_plain. apply pinned_plain.
  - constructor; [|constructor]. constructor; [apply dflt_plain | apply Forall_flat_map'; exact H].
Qed.

Lemma scopes_plain s : Forall psk_plain (scopes_of s).
Proof.
  revert s. apply stmt_ind'.
  - intros x. constructor.
  - intros x. constructor.
  - intros x. constructor.
  - intros b Hb. simpl. constructor; [apply block_plain; exact Hb | constructor].
  - intros b p c Hb Hc. simpl. constructor; [apply block_plain; exact Hb|].
    assert (Bc : psk_plain (block_with scopes_of c)) by (apply block_plain; exact Hc).
    destruct p as [e|].
    + destruct (mem_name e (flat_map var_names c)); (constructor; [|constructor]).
      * constructor; [constructor | constructor; [exact Bc | constructor]].
      * constructor; [apply (dflt_plain [e]) | constructor; [exact Bc | constructor]].
    + constructor; [|constructor]. constructor; [constructor | constructor; [exact Bc | constructor]].
  - intros x b Hb. simpl. constructor; [|constructor].
    constructor; [apply (dflt_plain [x]) | constructor; [apply block_plain; exact Hb | constructor]].
  - intros f ps b Hb. simpl. constructor; [apply fn_plain; exact Hb | constructor].
  - intros self ps b Hb. simpl. constructor; [apply fn_plain; exact Hb | constructor].
  - intros ps b Hb. simpl. constructor; [apply fn_plain; exact Hb | constructor].
  - constructor.
  - intros b Hb. simpl. constructor; [|constructor].
    constructor; [constructor | constructor; [apply block_plain; exact Hb | constructor]].
Qed.

Fixpoint pin_forest (cs : list psk) : list psk * list travel :=
  match cs with
  | [] => ([], [])
  | c :: r => let '(c', t1) := pin_psk c in let '(r', t2) := pin_forest r in (c' :: r', t1 ++ t2)
  end.

Lemma pin_psk_unfold fresh shared refs ch :
  pin_psk (PSk fresh shared refs ch) =
  let '(ch', below) := pin_forest ch in
  let incoming := map (fun x => (x, false, false)) refs ++ below in
  let '(pinned, out) := step_records (mem_name with_marker shared) (map fst fresh) shared incoming in
  let all := has_eval (PSk fresh shared refs ch) in
  let hoisted := map (fun x => (x, false, false))
                     (filter (fun x => negb (name_eqb x with_marker || name_eqb x eval_marker)) shared) in
  (PSk (map (fun p => (fst p, if all || mem_name (fst p) pinned then NsPinned else snd p)) fresh) shared refs ch', out ++ hoisted).
Proof.
  cbn [pin_psk].
  assert (E : forall cs,
    (fix go (cs : list psk) : list psk * list travel :=
       match cs with
       | [] => ([], [])
       | c :: r => let '(c', t1) := pin_psk c in let '(r', t2) := go r in (c' :: r', t1 ++ t2)
       end) cs = pin_forest cs).
  { induction cs as [|c r IH]; simpl; [reflexivity|]. destruct (pin_psk c). rewrite IH. reflexivity. }
  rewrite E. reflexivity.
Qed.

Lemma pin_plain k : psk_plain k -> psk_plain (fst (pin_psk k)).
Proof.
  induction k as [f s r ch IHch] using psk_ind'. intros PL. inversion PL as [? ? ? ? Pf Pch]; subst.
  rewrite pin_psk_unfold.
  assert (K : Forall psk_plain (fst (pin_forest ch))).
  { clear PL. induction IHch as [|c l Hc Hl IH]; [constructor|].
    inversion Pch as [|? ? Pc Pl]; subst. simpl.
    specialize (Hc Pc). specialize (IH Pl).
    destruct (pin_psk c) as [c' t1]. destruct (pin_forest l) as [r' t2].
    simpl in *. constructor; assumption. }
  destruct (pin_forest ch) as [ch' below]. simpl in K.
  cbv zeta.
  match goal with |- context [step_records ?a ?b ?c ?d] => destruct (step_records a b c d) as [pinned out] end.
  simpl.
  constructor; [|exact K].
  apply Forall_forall. intros p Hp. apply in_map_iff in Hp as (q & <- & Hq). simpl.
  destruct (_ || _); [right; reflexivity|]. rewrite Forall_forall in Pf. apply (Pf q Hq).
Qed.

Lemma closed_plain prog : psk_plain (closed_psk prog).
Proof.
  unfold closed_psk, module_psk. apply pin_plain. constructor.
  - apply Forall_app. split; [apply dflt_plain | apply pinned_plain].
  - apply Forall_flat_map'. apply Forall_forall. intros s _. apply scopes_plain.
Qed.

Lemma number_plain k : psk_plain k -> forall env n sc syms n',
  number_sk env (erase k) n = (sc, syms, n') -> Forall (fun s => ns_plain (sy_ns s)) syms.
Proof.
  induction k as [f s r ch IHch] using psk_ind'. intros PL env n sc syms n' B.
  inversion PL as [? ? ? ? Pf Pch]; subst.
  rewrite erase_unfold, number_sk_unfold in B. cbv zeta in B.
  set (env' := combine (map fst f) (seq n (length f)) ++ env) in *.
  destruct (number_forest env' (map erase ch) (n + length f)%nat) as [[cs sy] nn] eqn:F.
  injection B as <- <- <-. apply Forall_app. split.
  - unfold fresh_syms. apply Forall_forall. intros x Hx. apply in_map_iff in Hx as ([p i] & <- & Hp).
    simpl. apply in_combine_l in Hp. rewrite Forall_forall in Pf. apply (Pf p Hp).
  - clear PL. revert cs sy nn F. generalize (n + length f)%nat as m.
    induction IHch as [|c l Hc Hl IH]; intros m cs sy nn F; simpl in F.
    + injection F as <- <- <-. constructor.
    + inversion Pch as [|? ? Pc Pl]; subst.
      destruct (number_sk env' (erase c) m) as [[sc1 s1] n1] eqn:B1.
      destruct (number_forest env' (map erase l) n1) as [[scs s2] n2] eqn:F2.
      injection F as <- <- <-. apply Forall_app. split; [eapply Hc; eauto | eapply IH; eauto].
Qed.

Lemma parse_forest_plain prog i :
  let '(_, st) := parse_forest prog in
  renameable (sy_ns (getsym st i)) = false -> sy_ns (getsym st i) = NsPinned.
Proof.
  unfold parse_forest, build_sk. rewrite skel_closed.
  destruct (number_sk [] (erase (closed_psk prog)) 0) as [[m st] n'] eqn:B.
  pose proof (number_plain _ (closed_plain prog) _ _ _ _ _ B) as F.
  intros R. unfold getsym in *. destruct (nth_in_or_default i st dummy_sym) as [I|E].
  - rewrite Forall_forall in F. destruct (F _ I) as [D|D]; rewrite D in R |- *; [discriminate | reflexivity].
  - rewrite E. reflexivity.
Qed.

Lemma parse_forest_wf_wrapped prog :
  let '(m, st) := parse_forest prog in wf_number st [] [m] = true.
Proof.
  unfold parse_forest, build_sk.
  destruct (number_sk [] (skel_of_prog prog) 0) as [[m st] n'] eqn:B.
  destruct (number_nolabel _ _ _ _ _ _ B) as [_ NLk].
  pose proof (follow_nolinks st NLk) as NoLinks.
  destruct (number_sk_wf st NoLinks _ [] 0%nat [] [] m st n' B) as (seen' & Wf & _).
  - intros x i G. discriminate.
  - intros r [].
  - unfold wf_number. simpl. rewrite Wf. reflexivity.
Qed.

Lemma Forall2_in_left {A B} (R : A -> B -> Prop) l l' a :
  Forall2 R l l' -> In a l -> exists b, In b l' /\ R a b.
Proof.
  induction 1 as [|x y l l' Rxy F IH]; intros I; [destruct I|].
  destruct I as [<-|I]; [exists y; split; [left; reflexivity | exact Rxy]|].
  destruct (IH I) as (b & Ib & Rb). exists b. split; [right; exact Ib | exact Rb].
Qed.

Definition ref_preserved (st : symtab) (names : names_t) (xE : name * env_t) : Prop :=
  forall s, env_get (snd xE) (fst xE) = Some s ->
    env_get (rename_env (number_name_for st names) (snd xE)) (number_name_for st names s) = Some s.

(* the module scope handled as a nested scope (CommonJS-wrapped files: nestedScopes = [ModuleScope]) *)
Lemma resolution_preserved_wrapped_all prog fuel reserved names :
  let '(m, st) := parse_forest prog in
  number_rename fuel st reserved [] [m] = Some names ->
  incl (ComputeReservedNames st [m]) reserved ->
  Forall (ref_preserved st names) (parser_refs prog).
Proof.
  pose proof (parser_refs_facts prog) as F. pose proof (parse_forest_wf_wrapped prog) as W.
  pose proof (parse_forest_plain prog) as PLN.
  destruct (parse_forest prog) as [m st]. destruct F as [NoLinks F]. intros A Incl.
  eapply Forall_impl; [|exact F]. intros [x E] (K & v & Hv & V) s G. simpl in *.
  apply (lookup_preserved fuel st reserved [] [m] names m A W Incl NoLinks E x s); [exact K | | | | exact G].
  - intros y i H. destruct (vis_in_tree st NoLinks m [] v Hv i (V y i H)) as [[]|T]. exact T.
  - intros y i _. apply PLN.
  - intros i j Hi Hj N Ri Rj.
    apply in_map_iff in Hi as ([yi i'] & Ei & Hi). simpl in Ei. subst i'.
    apply in_map_iff in Hj as ([yj j'] & Ej & Hj). simpl in Ej. subst j'.
    assert (Hv' : In v (vis_forest st [m] (map (follow st) []))) by (simpl; rewrite app_nil_r; exact Hv).
    pose proof (number_renamer_no_shadow_all fuel st reserved [] [m] names A W v Hv' i j) as D.
    rewrite !NoLinks in D. apply D; auto; [apply (V yi i Hi) | apply (V yj j Hj)].
Qed.

(* the usual case: the module scope's symbols are the top-level symbols, its children the nested scopes *)
Lemma resolution_preserved_toplevel_all prog fuel reserved names :
  let '(m, st) := parse_forest prog in
  number_rename fuel st reserved (module_top m) (sc_children m) = Some names ->
  incl (ComputeReservedNames st [m]) reserved ->
  Forall (ref_preserved st names) (parser_refs prog).
Proof.
  pose proof (parser_refs_facts prog) as F. pose proof (parse_forest_wellformed_all prog) as W.
  pose proof (parse_forest_plain prog) as PLN.
  destruct (parse_forest prog) as [m st]. destruct F as [NoLinks F]. destruct W as [_ W]. intros A Incl.
  eapply Forall_impl; [|exact F]. intros [x E] (K & v & Hv & V) s G. simpl in *.
  apply (lookup_preserved fuel st reserved (module_top m) (sc_children m) names m A W Incl NoLinks E x s); [exact K | | | | exact G].
  - intros y i H. destruct (vis_in_tree st NoLinks m [] v Hv i (V y i H)) as [[]|T]. exact T.
  - intros y i _. apply PLN.
  - intros i j Hi Hj N Ri Rj.
    apply in_map_iff in Hi as ([yi i'] & Ei & Hi). simpl in Ei. subst i'.
    apply in_map_iff in Hj as ([yj j'] & Ej & Hj). simpl in Ej. subst j'.
    pose proof (V yi i Hi) as Vi. pose proof (V yj j Hj) as Vj.
    destruct m as [mem gen lbl ev ch]. rewrite vis_sets_unfold, canon_is_decls in Hv by exact NoLinks.
    set (d := scope_decls (Scope mem gen lbl ev ch)) in *.
    assert (Dtop : forall r, In r (d ++ []) <-> In r (map (follow st) (module_top (Scope mem gen lbl ev ch)))).
    { intros r. rewrite app_nil_r. unfold d, scope_decls, module_top. simpl.
      assert (M : forall l, map (follow st) l = l) by (induction l as [|a l IH]; simpl; [reflexivity | rewrite NoLinks, IH; reflexivity]).
      rewrite M, !in_app_iff, sort_nat_in. tauto. }
    destruct Hv as [<-|Hv].
    + (* references made at module level: only top-level symbols are in scope *)
      pose proof (number_toplevel_distinct_all fuel st reserved _ _ names A W i j) as D.
      rewrite !NoLinks in D. apply D; auto.
      * apply Dtop in Vi. rewrite <- (NoLinks i). apply in_map_iff in Vi as (r & Er & Ir). rewrite NoLinks in Er. subst r. rewrite NoLinks. exact Ir.
      * apply Dtop in Vj. rewrite <- (NoLinks j). apply in_map_iff in Vj as (r & Er & Ir). rewrite NoLinks in Er. subst r. rewrite NoLinks. exact Ir.
    + destruct (Forall2_in_left _ _ _ v (vis_forest_perm st ch _ _ Dtop) Hv) as (v' & Hv' & Sv).
      pose proof (number_renamer_no_shadow_all fuel st reserved _ _ names A W v' Hv' i j) as D.
      rewrite !NoLinks in D. apply D; auto; apply Sv; assumption.
Qed.

Lemma parse_forest_plain_ns prog i :
  let '(_, st) := parse_forest prog in ns_plain (sy_ns (getsym st i)).
Proof.
  unfold parse_forest, build_sk. rewrite skel_closed.
  destruct (number_sk [] (erase (closed_psk prog)) 0) as [[m st] n'] eqn:B.
  pose proof (number_plain _ (closed_plain prog) _ _ _ _ _ B) as F.
  unfold getsym. destruct (nth_in_or_default i st dummy_sym) as [I|E].
  - rewrite Forall_forall in F. apply F. exact I.
  - rewrite E. right. reflexivity.
Qed.
