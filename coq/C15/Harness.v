(* Checkers evaluated by the correspondence run: each returns the indices of
   the cases on which the model and the output observed on the Go code differ
   (or on which the specification-side predicate fails on the observed output). *)
From Coq Require Import String Ascii.
From V Require Import Common.Base C15.Names C15.Renamer C15.Spec C15.ScopeBuild C15.ScopeProg C15.ScopeSpec.

(* names travel as Coq string literals (much faster to parse than byte lists) *)
Fixpoint nm (s : string) : name :=
  match s with
  | EmptyString => []
  | String c r => Z.of_N (N_of_ascii c) :: nm r
  end.

Fixpoint mism_from {A} (f : A -> bool) (l : list A) (i : nat) : list nat :=
  match l with
  | [] => []
  | x :: r => if f x then mism_from f r (S i) else i :: mism_from f r (S i)
  end.
Definition mismatches {A} (f : A -> bool) (l : list A) : list nat := mism_from f l 0.

(* ---- NumberToMinifiedName: (freq (64 counters; [] = unshuffled default minifier), [(i, Go name)]) *)
Definition mk_minifier (freq : list Z) : minifier :=
  match freq with [] => default_minifier | _ => ShuffleByCharFreq default_minifier freq end.
Definition minname_ok (c : list Z * list (Z * name)) : bool :=
  let '(freq, l) := c in
  forallb (fun p => name_eqb (NumberToMinifiedName (mk_minifier freq) (fst p)) (snd p)) l.
Definition check_minname := mismatches minname_ok.

(* ---- encodings ---- *)
(* symbol: (name, ns code 0..4, link or -1, jsx, source index, inner index) *)
Definition zsym := (name * Z * Z * bool * Z * Z)%type.
Definition ns_of (z : Z) : ns :=
  if z =? 0 then NsDefault else if z =? 1 then NsLabel else if z =? 2 then NsPrivate
  else if z =? 3 then NsMangled else NsPinned.
Definition mk_sym (s : zsym) : symbol :=
  let '(n, nsz, lk, jsx, src, inner) := s in
  mkSym n (ns_of nsz) (if lk <? 0 then None else Some (Z.to_nat lk)) jsx src inner.
Definition mk_symtab (l : list zsym) : symtab := map mk_sym l.

Inductive zscope := ZS (mem gen : list Z) (lbl : Z) (de : bool) (ch : list zscope).
Definition nats (l : list Z) : list nat := map Z.to_nat l.
Fixpoint mk_scope (z : zscope) : scope :=
  match z with
  | ZS mem gen lbl de ch =>
      Scope (nats mem) (nats gen) (if lbl <? 0 then None else Some (Z.to_nat lbl)) de (map mk_scope ch)
  end.

Definition subset_names (a b : list name) : bool := forallb (fun n => mem_name n b) a.

(* a Go reserved-name map travels as (number of its keys that are keywords or
   strict-mode reserved words, its other keys); all keys are distinct (map keys) *)
Definition base_reserved : list name := keywords ++ strict_reserved.
Definition mk_reserved (p : Z * list name) : list name := base_reserved ++ snd p.
Definition reserved_complete (p : Z * list name) : bool := fst p =? Z.of_nat (length base_reserved).

(* ---- ComputeReservedNames: (symbols, module scopes, Go key set) *)
Definition reserved_ok (c : list zsym * list zscope * (Z * list name)) : bool :=
  let '(syms, mods, gores) := c in
  let m := ComputeReservedNames (mk_symtab syms) (map mk_scope mods) in
  reserved_complete gores && forallb (fun n => negb (mem_name n base_reserved)) (snd gores)
  && subset_names m (mk_reserved gores) && subset_names (mk_reserved gores) m.
Definition check_reserved := mismatches reserved_ok.

Definition FUEL : nat := 2000.

(* ---- forests built by the REAL parser: the well-formedness hypotheses of the
   scope-tree theorems must hold for them: (symbols, module scope) *)
Definition parsedwf_ok (c : list zsym * zscope) : bool :=
  let '(syms, modsc) := c in
  let st := mk_symtab syms in
  let m := mk_scope modsc in
  wf_slots st m && wf_number st (module_top m) (sc_children m).
Definition check_parsedwf := mismatches parsedwf_ok.

(* ---- NumberRenamer: (symbols, reserved, toplevel, nested, Go NameForSymbol of every symbol)
   also evaluates the specification predicate on the names observed on the Go
   code whenever the tree is well-formed *)
Definition number_ok (c : list zsym * (Z * list name) * list Z * list zscope * list name) : bool :=
  let '(syms, gores, top, nested, gonames) := c in
  let reserved := mk_reserved gores in
  let st := mk_symtab syms in
  let forest := map mk_scope nested in
  match number_rename FUEL st reserved (nats top) forest with
  | None => false
  | Some names =>
      list_eqb name_eqb (map (number_name_for st names) (seq 0 (length st))) gonames
      && (if wf_number st (nats top) forest then
            let nm := fun r => nth r gonames [] in
            forallb (no_collision_b st nm) (vis_forest st forest (map (follow st) (nats top)))
            && forallb (fun p => negb (mem_name (snd p) reserved)) names
          else true)
  end.
Definition check_number := mismatches number_ok.

(* ---- AssignNestedScopeSlots: (symbols, module scope, Go slot of every symbol or -1, Go counts) *)
Definition cnt_list (c : counts) : list Z := [c_default c; c_label c; c_private c; c_mangled c].
Definition slots_ok (c : list zsym * zscope * list Z * list Z) : bool :=
  let '(syms, modsc, goslots, gocounts) := c in
  let st := mk_symtab syms in
  let '(sm, total) := AssignNestedScopeSlots st (mk_scope modsc) in
  zlist_eqb (map (fun r => match lookup sm r with Some i => i | None => -1 end) (seq 0 (length st))) goslots
  && zlist_eqb (cnt_list total) gocounts.
Definition check_slots := mismatches slots_ok.

(* ---- MinifyRenamer: (symbols, nested slot of every symbol or -1, firstTopLevelSlots,
        stableSourceIndices, reserved, freq, unsorted leading uses, per-file uses (ref,count), Go NameForSymbol of every symbol) *)
Definition mk_slotmap (l : list Z) : slotmap :=
  flat_map (fun p => if snd p <? 0 then [] else [(fst p, snd p)]) (combine (seq 0 (length l)) l).
Definition mk_counts (l : list Z) : counts :=
  match l with [a; b; c; d] => mkCnt a b c d | _ => cnt_zero end.
Definition mk_uses (l : list (Z * Z)) : list (nat * Z) := map (fun u => (Z.to_nat (fst u), snd u)) l.
Definition minify_ok (c : list zsym * list Z * list Z * list Z * (Z * list name) * list Z * list (Z * Z) * list (list (Z * Z)) * list name) : bool :=
  let '(syms, slots, first, stable, gores, freq, pre, groups, gonames) := c in
  let reserved := mk_reserved gores in
  let st := mk_symtab syms in
  let sm := mk_slotmap slots in
  match minify_rename FUEL st sm (mk_counts first) stable reserved (mk_minifier freq)
          (mk_uses pre) (map mk_uses groups) with
  | None => false
  | Some m => list_eqb name_eqb (map (minify_name_for st sm m) (seq 0 (length st))) gonames
  end.
Definition check_minify := mismatches minify_ok.

(* ---- ExportRenamer.NextRenamedName: (requested names in call order, Go results) *)
Definition export_ok (c : list name * list name) : bool :=
  let '(req, gores) := c in
  match export_rename_all FUEL [] req with
  | None => false
  | Some out => list_eqb name_eqb out gores
  end.
Definition check_export := mismatches export_ok.

(* ---- ExportRenamer.NextMinifiedName: Go results of the first calls *)
Fixpoint minified_seq (n : nat) (count : Z) : list name :=
  match n with
  | O => []
  | S k => let '(nm, c') := NextMinifiedName count in nm :: minified_seq k c'
  end.
Definition exportmin_ok (c : list name) : bool := list_eqb name_eqb (minified_seq (length c) 0) c.
Definition check_exportmin := mismatches exportmin_ok.

(* ---- scope construction: the forest numbered from the skeleton of a program
   against the forest js_parser.Parse built for its text.  The Go side sends,
   per scope, (name, canonical symbol number = Link followed, pinned?) of every
   member and the children in order; the two forests must be isomorphic: same
   shape, same member names per scope, and ONE bijection between the symbol
   numbers of the two sides; and the symbol must be pinned on both sides or on neither *)
Inductive ctree := CT (mem : list (name * Z * bool)) (ch : list ctree).

Definition find_member (st : symtab) (x : name) (ids : list nat) : option nat :=
  find (fun i => name_eqb (sy_name (getsym st i)) x) ids.

Fixpoint zn_get (m : list (Z * nat)) (g : Z) : option nat :=
  match m with [] => None | (k, v) :: r => if k =? g then Some v else zn_get r g end.
Definition image_has (m : list (Z * nat)) (i : nat) : bool := existsb (fun p => Nat.eqb (snd p) i) m.

Fixpoint match_members (st : symtab) (m : list (Z * nat)) (gm : list (name * Z * bool)) (ids : list nat)
  : option (list (Z * nat)) :=
  match gm with
  | [] => Some m
  | (x, g, pin) :: rest =>
      match find_member st x ids with
      | None => None
      | Some i =>
          if negb (Bool.eqb pin (ns_eqb (sy_ns (getsym st i)) NsPinned)) then None
          else match zn_get m g with
               | Some j => if Nat.eqb i j then match_members st m rest ids else None
               | None => if image_has m i then None else match_members st ((g, i) :: m) rest ids
               end
      end
  end.

Fixpoint iso_tree (st : symtab) (m : list (Z * nat)) (g : ctree) (sc : scope) : option (list (Z * nat)) :=
  match g, sc with
  | CT gm gch, Scope ids gen _ _ ch =>
      if negb (Nat.eqb (length gm) (length ids)) || negb (Nat.eqb (length gen) 0) then None
      else match match_members st m gm ids with
           | None => None
           | Some m1 =>
               (fix go (gs : list ctree) (cs : list scope) (m : list (Z * nat)) : option (list (Z * nat)) :=
                  match gs, cs with
                  | [], [] => Some m
                  | g1 :: gr, c1 :: cr => match iso_tree st m g1 c1 with None => None | Some m' => go gr cr m' end
                  | _, _ => None
                  end) gch ch m1
           end
  end.

(* (program, Go canonical forest): forest isomorphism, and - specification side -
   (a) the parser model binds exactly the references that ECMA-262 resolution binds,
   (b) the program printed with the names the NumberRenamer model assigns on the
       model forest resolves, per the ECMA-262 resolver, every reference to the
       environment of the same depth as before (resolution preserved, sampled) *)
Definition opt_eqb (a b : option nat) : bool :=
  match a, b with Some x, Some y => Nat.eqb x y | None, None => true | _, _ => false end.
Definition resolution_sample_ok (prog : list stmt) : bool :=
  let '(m, st) := parse_forest prog in
  let spec := spec_resolve prog in
  (* the module scope creates its declared names first, then one unbound symbol per free name *)
  let ndecl := match module_psk prog with PSk fresh _ _ _ => length fresh end in
  (* a reference is unresolvable per ECMA-262 exactly when the parser bound it to an
     unbound symbol of the module scope *)
  list_eqb Bool.eqb
    (map (fun xE => match env_get (snd xE) (fst xE) with
                    | Some s => negb (Nat.leb ndecl s && Nat.ltb s (length (sc_members m)))
                    | None => false
                    end) (parser_refs prog))
    (map (fun o => match o with Some _ => true | None => false end) spec)
  && match number_rename FUEL st (ComputeReservedNames st [m]) (module_top m) (sc_children m) with
     | None => false
     | Some names => list_eqb opt_eqb spec (spec_resolve (apply_names (number_name_for st names) prog))
     end.
Definition scopebuild_ok (c : list stmt * ctree) : bool :=
  let '(prog, g) := c in
  let '(m, st) := parse_forest prog in
  match iso_tree st [] g m with Some _ => true | None => false end && resolution_sample_ok prog.
Definition check_scopebuild := mismatches scopebuild_ok.
