(* Resolution is preserved on parser-built forests also by the minifier pipeline. *)
From V Require Import Common.Base C15.Names C15.NamesProofs C15.Renamer C15.Spec C15.NumberProofs
  C15.SlotsProofs C15.MinifyProofs C15.ComposeProofs C15.ScopeBuild C15.ScopeProg C15.ScopeBuildProofs
  C15.ScopeResolveProofs.

(* ---- lookup is preserved by any naming that keeps pinned names, avoids them, and
   separates the renamed symbols of an environment ---- *)
Lemma lookup_preserved_gen (st : symtab) (nmf : nat -> name) (E : env_t) x s :
  (forall y i, In (y, i) E -> sy_name (getsym st i) = y) ->
  (forall i, In i (map snd E) -> sy_ns (getsym st i) = NsPinned -> nmf i = sy_name (getsym st i)) ->
  (forall i j, In i (map snd E) -> In j (map snd E) ->
     sy_ns (getsym st i) <> NsPinned -> sy_ns (getsym st j) = NsPinned -> nmf i <> sy_name (getsym st j)) ->
  (forall i j, In i (map snd E) -> In j (map snd E) -> i <> j ->
     sy_ns (getsym st i) <> NsPinned -> sy_ns (getsym st j) <> NsPinned -> nmf i <> nmf j) ->
  env_get E x = Some s ->
  env_get (rename_env nmf E) (nmf s) = Some s.
Proof.
  intros K Keep Avoid D G.
  apply (env_rename_lookup (fun i => sy_name (getsym st i)) nmf E x s K); [|exact G].
  intros i j Hi Hj N E'.
  destruct (ns_dec (sy_ns (getsym st i)) NsPinned) as [Pi|Pi];
    destruct (ns_dec (sy_ns (getsym st j)) NsPinned) as [Pj|Pj].
  - split; apply Keep; assumption.
  - exfalso. apply (Avoid j i Hj Hi Pj Pi). rewrite <- E'. apply Keep; assumption.
  - exfalso. apply (Avoid i j Hi Hj Pi Pj). rewrite E'. apply Keep; assumption.
  - exfalso. apply (D i j Hi Hj N Pi Pj E').
Qed.

(* ---- the two kinds of visibility lists contain the same symbols ---- *)
Definition seteq (a b : list nat) : Prop := forall r, In r a <-> In r b.

Lemma vis_slot_equiv st (NoLinks : forall r, follow st r = r) sc : forall a a',
  nolabel sc = true -> seteq a a' ->
  Forall2 seteq (vis_sets st sc a) (slot_vis_sets sc a').
Proof.
  induction sc as [m g l e ch IHch] using scope_ind'. intros a a' NL S.
  rewrite nolabel_unfold in NL. apply andb_true_iff in NL as [NL1 NL2]. destruct l; [discriminate|].
  rewrite vis_sets_unfold, canon_is_decls, slot_vis_sets_unfold by exact NoLinks.
  assert (H : seteq (scope_decls (Scope m g None e ch) ++ a) (rev (slot_decls (Scope m g None e ch)) ++ a')).
  { intros r. unfold slot_decls. simpl sc_label. rewrite app_nil_r, !in_app_iff, <- in_rev, (S r). tauto. }
  constructor; [exact H|].
  revert H. generalize (scope_decls (Scope m g None e ch) ++ a) (rev (slot_decls (Scope m g None e ch)) ++ a').
  intros v v' H. clear S.
  induction IHch as [|c r Hc Hr IH]; simpl; [constructor|].
  simpl in NL2. apply andb_true_iff in NL2 as [N1 N2].
  apply Forall2_app; [apply Hc; assumption | apply IH; assumption].
Qed.

Lemma vis_slot_forest_equiv st (NoLinks : forall r, follow st r = r) cs : forall a a',
  nolabel_forest cs = true -> seteq a a' ->
  Forall2 seteq (vis_forest st cs a) (slot_vis_forest cs a').
Proof.
  induction cs as [|c r IH]; intros a a' NL S; simpl; [constructor|].
  simpl in NL. apply andb_true_iff in NL as [N1 N2].
  apply Forall2_app; [apply vis_slot_equiv; assumption | apply IH; assumption].
Qed.

(* ---- slot indices are in range ---- *)
Lemma minify_slot_range mf fuel st slots firstc stable reserved pre groups m3 :
  minify_rename fuel st slots firstc stable reserved mf pre groups = Some m3 ->
  NoDup (m_head mf) -> NoDup (m_tail mf) -> 1 <= zlen (m_head mf) -> 2 <= zlen (m_tail mf) ->
  0 <= c_default firstc -> 0 <= c_label firstc -> 0 <= c_private firstc -> 0 <= c_mangled firstc ->
  (forall r k, lookup slots r = Some k -> 0 <= k < cnt_get firstc (sy_ns (getsym st r))) ->
  forall r i, sy_ns (getsym st r) <> NsPinned -> slot_of slots m3 r = Some i ->
    0 <= i < Z.of_nat (length (ms_slots m3 (sy_ns (getsym st r)))).
Proof.
  unfold minify_rename. intros MR NDh NDt Hh Ht H0 H1 H2 H3 Nested r i NP S.
  destruct (fold_left (AccumulateSymbolCount st slots stable) pre (NewMinifyRenamer firstc, [])) as [m0 pretops] eqn:A0.
  destruct (fold_left (accumulate_group st slots stable) groups (m0, pretops)) as [m1 tops] eqn:A1.
  apply accumulate_fold in A0 as (T0 & L0 & P0). apply accumulate_groups in A1 as (T1 & L1 & P1).
  assert (I1 : TopInv st (cnt_get firstc) m1).
  { split.
    - intros x j L. rewrite T1, T0 in L. discriminate.
    - intros x1 x2 j _ _ L. rewrite T1, T0 in L. discriminate.
    - intros n. rewrite L1, L0. unfold slen, NewMinifyRenamer. destruct n; simpl; rewrite ?repeat_len; lia. }
  assert (NPt : Forall (nonpinned st) tops) by (apply P1, P0; constructor).
  pose proof (alloc_all st (cnt_get firstc) tops m1 I1 NPt) as I2.
  set (m2 := AllocateTopLevelSymbolSlots st m1 tops) in *.
  apply AssignNamesByFrequency_spec in MR as (T3 & NF).
  set (nsr := sy_ns (getsym st r)) in *.
  specialize (NF nsr NP).
  destruct (names_for_ns_spec mf NDh NDt Hh Ht reserved fuel nsr (ms_slots m2 nsr) _ NF) as (Len & _ & _).
  rewrite Len. unfold slot_of in S. destruct (lookup slots r) as [k|] eqn:L.
  - injection S as <-. pose proof (Nested r k L) as B. fold nsr in B.
    pose proof (t_first _ _ _ I2 nsr) as Fi. unfold slen in Fi. lia.
  - rewrite T3 in S. pose proof (t_range _ _ _ I2 r i S) as B. unfold nsx in B. fold nsr in B.
    unfold slen in B. assert (0 <= cnt_get firstc nsr) by (destruct nsr; simpl; lia). lia.
Qed.

Lemma parse_forest_nolabel prog : let '(m, _) := parse_forest prog in nolabel m = true.
Proof.
  unfold parse_forest, build_sk. destruct (number_sk [] (skel_of_prog prog) 0) as [[m st] n'] eqn:B.
  apply (number_nolabel _ _ _ _ _ _ B).
Qed.

Lemma assign_slots_total_nonneg st msc sm total :
  AssignNestedScopeSlots st msc = (sm, total) -> wf_slots st msc = true ->
  0 <= c_default total /\ 0 <= c_label total /\ 0 <= c_private total /\ 0 <= c_mangled total.
Proof.
  unfold AssignNestedScopeSlots, wf_slots. intros A W. fold (module_top msc) in A. set (top := module_top msc) in *.
  destruct (slotsForest st (sc_children msc) (map (fun r => (r, 1)) top) cnt_zero cnt_zero) as [sm1 tot] eqn:F.
  injection A as <- <-.
  destruct (wf_slot_forest st (sc_children msc) top top) as [seen'|] eqn:Wf; [|discriminate].
  assert (I0 : SInv st top top top (map (fun r => (r, 1)) top) cnt_zero).
  { split.
    - intros r k _ Nt L. apply lookup_top_map_inv in L. contradiction.
    - intros r k L. eapply lookup_top_map_inv; eauto.
    - auto.
    - intros r1 r2 k1 k2 _ _ T1 _ _ _ L1 _. apply lookup_top_map_inv in L1. contradiction.
    - intros r Hr L. rewrite lookup_top_map in L by exact Hr. discriminate.
    - split.
      + intros r Hr. rewrite lookup_top_map by exact Hr. discriminate.
      + intros r k L Nt. apply lookup_top_map_inv in L. contradiction. }
  assert (NN : cnt_nonneg cnt_zero) by (intros n; destruct n; simpl; lia).
  destruct (slotsForest_inv st top _ _ _ _ _ _ _ _ _ I0 NN Wf F) as (_ & L).
  pose proof (L NsDefault). pose proof (L NsLabel). pose proof (L NsPrivate). pose proof (L NsMangled).
  simpl in *. lia.
Qed.

Definition ref_preserved_minify (st : symtab) (slots : slotmap) (m3 : mstate) (xE : name * env_t) : Prop :=
  forall s, env_get (snd xE) (fst xE) = Some s ->
    env_get (rename_env (minify_name_for st slots m3) (snd xE)) (minify_name_for st slots m3 s) = Some s.

Lemma resolution_preserved_minify_all mf :
  NoDup (m_head mf) -> NoDup (m_tail mf) -> 1 <= zlen (m_head mf) -> 2 <= zlen (m_tail mf) ->
  forall prog fuel stable reserved pre groups,
  let '(m, st) := parse_forest prog in
  forall slots total m3,
  AssignNestedScopeSlots st m = (slots, total) ->
  minify_rename fuel st slots total stable reserved mf pre groups = Some m3 ->
  incl (ComputeReservedNames st [m]) reserved ->
  (* every declared symbol that may be renamed was counted, i.e. has a slot *)
  (forall r, In r (tree_decls m) -> sy_ns (getsym st r) <> NsPinned -> slot_of slots m3 r <> None) ->
  Forall (ref_preserved_minify st slots m3) (parser_refs prog).
Proof.
  intros NDh NDt Hh Ht prog fuel stable reserved pre groups.
  pose proof (parser_refs_facts prog) as F. pose proof (parse_forest_wellformed_all prog) as W.
  pose proof (parse_forest_plain_ns prog) as PLN. pose proof (parse_forest_nolabel prog) as NL.
  destruct (parse_forest prog) as [m st]. destruct F as [NoLinks F]. destruct W as [Ws _].
  intros slots total m3 AS MR Incl Counted.
  destruct (slots_distinct_on_chain_all st m slots total AS Ws) as (Dslots & Range & TopNone).
  destruct (assign_slots_total_nonneg st m slots total AS Ws) as (T0 & T1 & T2 & T3).
  assert (Dflt : forall i, sy_ns (getsym st i) <> NsPinned -> sy_ns (getsym st i) = NsDefault).
  { intros i Np. destruct (PLN i) as [D|D]; [exact D | contradiction]. }
  assert (NameOf : forall i k, sy_ns (getsym st i) <> NsPinned -> slot_of slots m3 i = Some k ->
             minify_name_for st slots m3 i = slot_name (ms_default m3) k).
  { intros i k Np S. unfold minify_name_for. rewrite NoLinks, (Dflt i Np). unfold slot_of in S.
    destruct (lookup slots i) as [k'|]; [injection S as <-; reflexivity | rewrite S; reflexivity]. }
  eapply Forall_impl; [|exact F]. intros [x E] (K & v & Hv & V) s G. simpl in *.
  assert (Tree : forall y i, In (y, i) E -> In i (tree_decls m)).
  { intros y i H. destruct (vis_in_tree st NoLinks m [] v Hv i (V y i H)) as [[]|T]. exact T. }
  apply (lookup_preserved_gen st (minify_name_for st slots m3) E x s K); [| | |exact G].
  - intros i _ Pi. unfold minify_name_for. rewrite NoLinks, Pi. reflexivity.
  - intros i j Hi Hj Pi Pj.
    apply in_map_iff in Hi as ([yi i'] & Ei & Hi). simpl in Ei. subst i'.
    apply in_map_iff in Hj as ([yj j'] & Ej & Hj). simpl in Ej. subst j'.
    destruct (slot_of slots m3 i) as [k|] eqn:S; [|exfalso; exact (Counted i (Tree yi i Hi) Pi S)].
    rewrite (NameOf i k Pi S).
    pose proof (minify_slot_range mf fuel st slots total stable reserved pre groups m3 MR NDh NDt Hh Ht T0 T1 T2 T3 Range i k Pi S) as R.
    rewrite (Dflt i Pi) in R. simpl in R.
    apply (minify_avoids_pinned_all mf NDh NDt Hh Ht fuel st slots total stable reserved pre groups m3 [m] MR Incl m j
             (or_introl eq_refl) (Tree yj j Hj) Pj k R).
  - intros i j Hi Hj N Pi Pj.
    apply in_map_iff in Hi as ([yi i'] & Ei & Hi). simpl in Ei. subst i'.
    apply in_map_iff in Hj as ([yj j'] & Ej & Hj). simpl in Ej. subst j'.
    destruct (slot_of slots m3 i) as [ki|] eqn:Si; [|exfalso; exact (Counted i (Tree yi i Hi) Pi Si)].
    destruct (slot_of slots m3 j) as [kj|] eqn:Sj; [|exfalso; exact (Counted j (Tree yj j Hj) Pj Sj)].
    apply (minify_rename_chunk mf NDh NDt Hh Ht fuel st slots total stable reserved pre groups m3 MR T0 T1 T2 T3 Range
             i j ki kj N (NoLinks i) (NoLinks j)); auto.
    + rewrite (Dflt i Pi), (Dflt j Pj). reflexivity.
    + (* both nested: visible together, hence different nested slots *)
      intros Li Lj. unfold slot_of in Si, Sj.
      destruct (lookup slots i) as [ki'|] eqn:Li'; [|congruence]. destruct (lookup slots j) as [kj'|] eqn:Lj'; [|congruence].
      injection Si as <-. injection Sj as <-.
      pose proof (V yi i Hi) as Vi. pose proof (V yj j Hj) as Vj.
      destruct m as [mem gen lbl ev ch]. rewrite vis_sets_unfold, canon_is_decls in Hv by exact NoLinks.
      set (d := scope_decls (Scope mem gen lbl ev ch)) in *.
      assert (Dtop : seteq (d ++ []) (module_top (Scope mem gen lbl ev ch))).
      { intros r. rewrite app_nil_r. unfold d, scope_decls, module_top. simpl. rewrite !in_app_iff, sort_nat_in. tauto. }
      destruct Hv as [<-|Hv].
      * apply Dtop in Vi. rewrite (TopNone i Vi) in Li'. discriminate.
      * rewrite nolabel_unfold in NL. apply andb_true_iff in NL as [_ NLf].
        destruct (Forall2_in_left _ _ _ v (vis_slot_forest_equiv st NoLinks ch _ _ NLf Dtop) Hv) as (v' & Hv' & Sv).
        apply (Dslots v' Hv' i j ki' kj'); auto; try (apply Sv; assumption).
        rewrite (Dflt i Pi), (Dflt j Pj). reflexivity.
Qed.
