(* C15 model, part 2: the renamers.
   Mirrors (Go, /repo/internal/renamer/renamer.go unless noted):
     ast.FollowSymbols, ast.Symbol.SlotNamespace               (internal/ast/ast.go)
     ComputeReservedNames / computeReservedNamesForScope
     NumberRenamer: AddTopLevelSymbol, assignName, assignNamesInScope,
        assignNamesRecursive (its for-loop over singly nested scopes is the
        tail-call form of the recursion below), AssignNamesByScope (scopes of
        different sources touch disjoint symbols; modelled sequentially),
        numberScope.findNameUse, numberScope.findUnusedName, NameForSymbol
     AssignNestedScopeSlots / assignNestedScopeSlotsHelper, ast.SlotCounts.UnionMax
     MinifyRenamer: NewMinifyRenamer, AccumulateSymbolCount (without NamespaceAlias),
        StableSymbolCountArray.Less, AllocateTopLevelSymbolSlots,
        slotAndCountArray.Less, AssignNamesByFrequency, NameForSymbol
     ExportRenamer: NextRenamedName, NextMinifiedName
   Conventions: a Ref is the position of the symbol in the symbol table (the
   harness lays the per-source arrays out consecutively, so the order of
   InnerIndex inside one source is the order of positions); names are ASCII
   byte lists; uint32 counters are unbounded Z (no wrap-around below 2^32);
   unbounded Go loops take fuel and return None when it runs out.
   Executable definitions only. *)
From V Require Import Common.Base C15.Names.

(* ------------------------------------------------------------------ *)
(* symbols *)

Inductive ns := NsDefault | NsLabel | NsPrivate | NsMangled | NsPinned.

Definition ns_eqb (a b : ns) : bool :=
  match a, b with
  | NsDefault, NsDefault | NsLabel, NsLabel | NsPrivate, NsPrivate
  | NsMangled, NsMangled | NsPinned, NsPinned => true
  | _, _ => false
  end.

Record symbol := mkSym {
  sy_name : name;         (* OriginalName *)
  sy_ns : ns;             (* SlotNamespace(): Pinned = Kind==SymbolUnbound || MustNotBeRenamed *)
  sy_link : option nat;   (* Link *)
  sy_jsx : bool;          (* MustStartWithCapitalLetterForJSX *)
  sy_src : Z;             (* Ref.SourceIndex *)
  sy_inner : Z            (* Ref.InnerIndex *)
}.
Definition symtab := list symbol.
Definition dummy_sym : symbol := mkSym [] NsPinned None false 0 0.
Definition getsym (st : symtab) (r : nat) : symbol := nth r st dummy_sym.

Fixpoint follow_f (fuel : nat) (st : symtab) (r : nat) : nat :=
  match fuel with
  | O => r
  | S f => match sy_link (getsym st r) with
           | None => r
           | Some l => follow_f f st l
           end
  end.
Definition follow (st : symtab) (r : nat) : nat := follow_f (length st) st r.

(* scope tree: Members (a Go map: iteration order immaterial, sorted where it
   matters), Generated, Label.Ref, ContainsDirectEval, Children *)
Inductive scope :=
  Scope (members : list nat) (generated : list nat) (label : option nat)
        (direct_eval : bool) (children : list scope).

Definition sc_members (s : scope) := let '(Scope m _ _ _ _) := s in m.
Definition sc_generated (s : scope) := let '(Scope _ g _ _ _) := s in g.
Definition sc_label (s : scope) := let '(Scope _ _ l _ _) := s in l.
Definition sc_eval (s : scope) := let '(Scope _ _ _ e _) := s in e.
Definition sc_children (s : scope) := let '(Scope _ _ _ _ c) := s in c.

(* sort.Ints on the member indices *)
Fixpoint insert_nat (x : nat) (l : list nat) : list nat :=
  match l with
  | [] => [x]
  | y :: r => if Nat.leb x y then x :: l else y :: insert_nat x r
  end.
Fixpoint sort_nat (l : list nat) : list nat :=
  match l with
  | [] => []
  | x :: r => insert_nat x (sort_nat r)
  end.

(* ------------------------------------------------------------------ *)
(* ComputeReservedNames *)

Definition pinned_names (st : symtab) (refs : list nat) : list name :=
  map (fun r => sy_name (getsym st r))
      (filter (fun r => ns_eqb (sy_ns (getsym st r)) NsPinned) refs).

Fixpoint reservedForScope (st : symtab) (sc : scope) : list name :=
  match sc with
  | Scope mem gen _ _ children =>
      pinned_names st mem ++ pinned_names st gen ++
      (* since 3eb6e21 the whole scope tree is traversed (not only direct-eval chains):
         names pinned by `with`, `arguments`, ... in nested scopes are reserved too *)
      (fix go (cs : list scope) : list name :=
         match cs with
         | [] => []
         | c :: r => reservedForScope st c ++ go r
         end) children
  end.

Definition ComputeReservedNames (st : symtab) (moduleScopes : list scope) : list name :=
  keywords ++ strict_reserved ++ flat_map (reservedForScope st) moduleScopes.

(* ------------------------------------------------------------------ *)
(* NumberRenamer *)

Definition nmap := list (name * Z).      (* numberScope.nameCounts *)
Fixpoint nm_get (m : nmap) (n : name) : option Z :=
  match m with
  | [] => None
  | (k, v) :: r => if name_eqb n k then Some v else nm_get r n
  end.
Definition nm_has (m : nmap) (n : name) : bool :=
  match nm_get m n with Some _ => true | None => false end.
Definition nm_set (m : nmap) (n : name) (v : Z) : nmap := (n, v) :: m.

Inductive name_use := NameUnused | NameUsed | NameUsedInSameScope.

(* s is the scope being filled, parents its ancestors (innermost first, root last) *)
Definition findNameUse (s : nmap) (parents : list nmap) (n : name) : name_use :=
  if nm_has s n then NameUsedInSameScope
  else if existsb (fun m => nm_has m n) parents then NameUsed
  else NameUnused.

Fixpoint find_loop (fuel : nat) (s : nmap) (parents : list nmap) (prefix : name) (tries : Z)
  : option (name * Z) :=
  match fuel with
  | O => None
  | S f =>
      let tries' := tries + 1 in
      let nm := prefix ++ itoa tries' in
      match findNameUse s parents nm with
      | NameUnused => Some (nm, tries')
      | _ => find_loop f s parents prefix tries'
      end
  end.

Definition valid_name (nsp : ns) (n0 : name) : option name :=
  match nsp with
  | NsPrivate =>
      match n0 with
      | [] => None                         (* Go: name[1:] panics *)
      | _ :: id => Some (if IsIdentifier id then n0 else ForceValidIdentifier [35] id)
      end
  | _ => Some (if IsIdentifier n0 then n0 else ForceValidIdentifier [] n0)
  end.

Definition findUnusedName (fuel : nat) (s : nmap) (parents : list nmap) (n0 : name) (nsp : ns)
  : option (name * nmap) :=
  match valid_name nsp n0 with
  | None => None
  | Some n =>
      match findNameUse s parents n with
      | NameUnused => Some (n, nm_set s n 1)
      | use =>
          let tries0 := match use with
                        | NameUsedInSameScope => match nm_get s n with Some v => v | None => 0 end
                        | _ => 1
                        end in
          match find_loop fuel s parents n tries0 with
          | None => None
          | Some (nm, tries) =>
              let s1 := match use with
                        | NameUsedInSameScope => nm_set s n tries
                        | _ => s
                        end in
              Some (nm, nm_set s1 nm 1)
          end
      end
  end.

Definition names_t := list (nat * name).   (* NumberRenamer.names, keyed by canonical ref *)
Fixpoint lookup {A} (m : list (nat * A)) (r : nat) : option A :=
  match m with
  | [] => None
  | (k, v) :: t => if Nat.eqb r k then Some v else lookup t r
  end.

Definition jsx_cap (n : name) : name :=
  match n with
  | c :: r => if (97 <=? c) && (c <=? 122) then (c - 32) :: r else n
  | [] => n
  end.

Definition renameable (nsp : ns) : bool :=
  match nsp with NsDefault | NsPrivate => true | _ => false end.

Definition assignName (fuel : nat) (st : symtab) (s : nmap) (parents : list nmap)
           (names : names_t) (r0 : nat) : option (nmap * names_t) :=
  let r := follow st r0 in
  match lookup names r with
  | Some _ => Some (s, names)
  | None =>
      let sym := getsym st r in
      if renameable (sy_ns sym) then
        let orig := if sy_jsx sym then jsx_cap (sy_name sym) else sy_name sym in
        match findUnusedName fuel s parents orig (sy_ns sym) with
        | None => None
        | Some (nm, s') => Some (s', (r, nm) :: names)
        end
      else Some (s, names)
  end.

Fixpoint assignNames (fuel : nat) (st : symtab) (s : nmap) (parents : list nmap)
         (names : names_t) (refs : list nat) : option (nmap * names_t) :=
  match refs with
  | [] => Some (s, names)
  | r :: rest =>
      match assignName fuel st s parents names r with
      | None => None
      | Some (s', names') => assignNames fuel st s' parents names' rest
      end
  end.

Definition scope_decls (sc : scope) : list nat := sort_nat (sc_members sc) ++ sc_generated sc.

Definition nonempty {A} (l : list A) : bool := match l with [] => false | _ => true end.

(* chain: the numberScopes of the ancestors, innermost first, root last *)
Fixpoint assignRec (fuel : nat) (st : symtab) (sc : scope) (chain : list nmap) (names : names_t)
  : option names_t :=
  match sc with
  | Scope mem gen _ _ children =>
      let step :=
        if nonempty mem || nonempty gen then
          match assignNames fuel st [] chain names (scope_decls sc) with
          | None => None
          | Some (s, names') => Some (s :: chain, names')
          end
        else Some (chain, names) in
      match step with
      | None => None
      | Some (chain', names') =>
          (fix go (cs : list scope) (names : names_t) : option names_t :=
             match cs with
             | [] => Some names
             | c :: r => match assignRec fuel st c chain' names with
                         | None => None
                         | Some n' => go r n'
                         end
             end) children names'
      end
  end.

Fixpoint assignForest (fuel : nat) (st : symtab) (cs : list scope) (chain : list nmap) (names : names_t)
  : option names_t :=
  match cs with
  | [] => Some names
  | c :: r => match assignRec fuel st c chain names with
              | None => None
              | Some n' => assignForest fuel st r chain n'
              end
  end.

Definition root_of (reserved : list name) : nmap := map (fun n => (n, 1)) reserved.

(* NewNumberRenamer; AddTopLevelSymbol for each of toplevel; AssignNamesByScope nested *)
Definition number_rename (fuel : nat) (st : symtab) (reserved : list name)
           (toplevel : list nat) (nested : list scope) : option names_t :=
  match assignNames fuel st (root_of reserved) [] [] toplevel with
  | None => None
  | Some (root, names) => assignForest fuel st nested [root] names
  end.

Definition number_name_for (st : symtab) (names : names_t) (r0 : nat) : name :=
  let r := follow st r0 in
  match lookup names r with
  | Some n => n
  | None => sy_name (getsym st r)
  end.

(* ------------------------------------------------------------------ *)
(* AssignNestedScopeSlots *)

Record counts := mkCnt { c_default : Z; c_label : Z; c_private : Z; c_mangled : Z }.
Definition cnt_zero := mkCnt 0 0 0 0.
Definition cnt_get (c : counts) (n : ns) : Z :=
  match n with
  | NsDefault => c_default c | NsLabel => c_label c | NsPrivate => c_private c
  | NsMangled => c_mangled c | NsPinned => 0
  end.
Definition cnt_incr (c : counts) (n : ns) : counts :=
  match n with
  | NsDefault => mkCnt (c_default c + 1) (c_label c) (c_private c) (c_mangled c)
  | NsLabel => mkCnt (c_default c) (c_label c + 1) (c_private c) (c_mangled c)
  | NsPrivate => mkCnt (c_default c) (c_label c) (c_private c + 1) (c_mangled c)
  | NsMangled => mkCnt (c_default c) (c_label c) (c_private c) (c_mangled c + 1)
  | NsPinned => c
  end.
Definition cnt_max (a b : counts) : counts :=
  mkCnt (Z.max (c_default a) (c_default b)) (Z.max (c_label a) (c_label b))
        (Z.max (c_private a) (c_private b)) (Z.max (c_mangled a) (c_mangled b)).

Definition slotmap := list (nat * Z).      (* Symbol.NestedScopeSlot where valid *)

Definition assign_slot (st : symtab) (acc : slotmap * counts) (r : nat) : slotmap * counts :=
  let '(sm, cnt) := acc in
  let nsr := sy_ns (getsym st r) in
  match nsr with
  | NsPinned => (sm, cnt)
  | _ => match lookup sm r with
         | Some _ => (sm, cnt)
         | None => ((r, cnt_get cnt nsr) :: sm, cnt_incr cnt nsr)
         end
  end.

Fixpoint slotsHelper (st : symtab) (sc : scope) (sm : slotmap) (cnt : counts) : slotmap * counts :=
  match sc with
  | Scope mem gen lbl _ children =>
      let '(sm1, c1) := fold_left (assign_slot st) (scope_decls sc) (sm, cnt) in
      let '(sm2, c2) := match lbl with
                        | Some l => ((l, cnt_get c1 NsLabel) :: sm1, cnt_incr c1 NsLabel)
                        | None => (sm1, c1)
                        end in
      (fix go (cs : list scope) (sm : slotmap) (acc : counts) : slotmap * counts :=
         match cs with
         | [] => (sm, acc)
         | c :: r => let '(sm', cc) := slotsHelper st c sm c2 in go r sm' (cnt_max acc cc)
         end) children sm2 c2
  end.

Fixpoint slotsForest (st : symtab) (cs : list scope) (sm : slotmap) (start acc : counts) : slotmap * counts :=
  match cs with
  | [] => (sm, acc)
  | c :: r => let '(sm', cc) := slotsHelper st c sm start in slotsForest st r sm' start (cnt_max acc cc)
  end.

Definition mem_nat (x : nat) (l : list nat) : bool := existsb (Nat.eqb x) l.

(* all NestedScopeSlots are invalid on entry (fresh parser symbols) *)
Definition AssignNestedScopeSlots (st : symtab) (moduleScope : scope) : slotmap * counts :=
  let top := sc_members moduleScope ++ sc_generated moduleScope in
  let sm0 := map (fun r => (r, 1)) top in
  let '(sm, total) := slotsForest st (sc_children moduleScope) sm0 cnt_zero cnt_zero in
  (filter (fun p => negb (mem_nat (fst p) top)) sm, total).

(* ------------------------------------------------------------------ *)
(* MinifyRenamer *)

Record slot := mkSlot { sl_name : name; sl_count : Z; sl_jsx : bool }.
Record mstate := mkM {
  ms_default : list slot; ms_label : list slot; ms_private : list slot; ms_mangled : list slot;
  ms_top : list (nat * Z)                (* topLevelSymbolToSlot *)
}.
Definition ms_slots (m : mstate) (n : ns) : list slot :=
  match n with
  | NsDefault => ms_default m | NsLabel => ms_label m | NsPrivate => ms_private m
  | NsMangled => ms_mangled m | NsPinned => []
  end.
Definition ms_set_slots (m : mstate) (n : ns) (l : list slot) : mstate :=
  match n with
  | NsDefault => mkM l (ms_label m) (ms_private m) (ms_mangled m) (ms_top m)
  | NsLabel => mkM (ms_default m) l (ms_private m) (ms_mangled m) (ms_top m)
  | NsPrivate => mkM (ms_default m) (ms_label m) l (ms_mangled m) (ms_top m)
  | NsMangled => mkM (ms_default m) (ms_label m) (ms_private m) l (ms_top m)
  | NsPinned => m
  end.
Definition empty_slot := mkSlot [] 0 false.
Definition NewMinifyRenamer (first : counts) : mstate :=
  mkM (repeat empty_slot (Z.to_nat (c_default first))) (repeat empty_slot (Z.to_nat (c_label first)))
      (repeat empty_slot (Z.to_nat (c_private first))) (repeat empty_slot (Z.to_nat (c_mangled first))) [].

Fixpoint upd_nth {A} (l : list A) (i : nat) (f : A -> A) : list A :=
  match l, i with
  | [], _ => []
  | x :: r, O => f x :: r
  | x :: r, S j => x :: upd_nth r j f
  end.

(* one StableSymbolCount: (StableSourceIndex, ref, Count) *)
Definition ssc := (Z * nat * Z)%type.

(* AccumulateSymbolCount; slots = the NestedScopeSlot of every symbol; stable = stableSourceIndices *)
Definition AccumulateSymbolCount (st : symtab) (slots : slotmap) (stable : list Z)
           (acc : mstate * list ssc) (use : nat * Z) : mstate * list ssc :=
  let '(m, tops) := acc in
  let '(r0, count) := use in
  let r := follow st r0 in
  let sym := getsym st r in
  match sy_ns sym with
  | NsPinned => (m, tops)
  | nsr =>
      match lookup slots r with
      | Some i =>
          (ms_set_slots m nsr
             (upd_nth (ms_slots m nsr) (Z.to_nat i)
                (fun s => mkSlot (sl_name s) (sl_count s + count) (sl_jsx s || sy_jsx sym))),
           tops)
      | None => (m, tops ++ [(nth (Z.to_nat (sy_src sym)) stable 0, r, count)])
      end
  end.

(* StableSymbolCountArray.Less *)
Definition ssc_less (st : symtab) (a b : ssc) : bool :=
  let '(sa, ra, ca) := a in let '(sb, rb, cb) := b in
  if cb <? ca then true else if ca <? cb then false
  else if sa <? sb then true else if sb <? sa then false
  else sy_inner (getsym st ra) <? sy_inner (getsym st rb).

Fixpoint ssc_insert (st : symtab) (x : ssc) (l : list ssc) : list ssc :=
  match l with
  | [] => [x]
  | y :: r => if ssc_less st x y then x :: l else y :: ssc_insert st x r
  end.
Fixpoint ssc_sort (st : symtab) (l : list ssc) : list ssc :=
  match l with
  | [] => []
  | x :: r => ssc_insert st x (ssc_sort st r)
  end.

Definition AllocateTopLevelSymbolSlots (st : symtab) (m : mstate) (tops : list ssc) : mstate :=
  fold_left (fun m (e : ssc) =>
    let '(_, r, count) := e in
    let sym := getsym st r in
    let nsr := sy_ns sym in
    match lookup (ms_top m) r with
    | Some i =>
        ms_set_slots m nsr
          (upd_nth (ms_slots m nsr) (Z.to_nat i)
             (fun s => mkSlot (sl_name s) (sl_count s + count) (sl_jsx s || sy_jsx sym)))
    | None =>
        let i := Z.of_nat (length (ms_slots m nsr)) in
        let m' := ms_set_slots m nsr (ms_slots m nsr ++ [mkSlot [] count (sy_jsx sym)]) in
        mkM (ms_default m') (ms_label m') (ms_private m') (ms_mangled m') ((r, i) :: ms_top m')
    end) tops m.

(* slotAndCountArray.Less: (slot index, count) *)
Definition sac_less (a b : Z * Z) : bool :=
  let '(ia, ca) := a in let '(ib, cb) := b in
  (cb <? ca) || ((ca =? cb) && (ia <? ib)).
Fixpoint sac_insert (x : Z * Z) (l : list (Z * Z)) : list (Z * Z) :=
  match l with
  | [] => [x]
  | y :: r => if sac_less y x then y :: sac_insert x r else x :: y :: r
  end.
Fixpoint sac_sort (l : list (Z * Z)) : list (Z * Z) :=
  match l with
  | [] => []
  | x :: r => sac_insert x (sac_sort r)
  end.
Fixpoint sac_array (l : list slot) (i : Z) : list (Z * Z) :=
  match l with
  | [] => []
  | s :: r => (i, sl_count s) :: sac_array r (i + 1)
  end.

(* for cond(name) { name = minifier.NumberToMinifiedName(nextName); nextName++ } *)
Fixpoint skip_while (fuel : nat) (mf : minifier) (cond : name -> bool) (nm : name) (next : Z)
  : option (name * Z) :=
  match fuel with
  | O => None
  | S f => if cond nm then skip_while f mf cond (NumberToMinifiedName mf next) (next + 1)
           else Some (nm, next)
  end.

Definition starts_lower (n : name) : bool :=
  match n with c :: _ => (97 <=? c) && (c <=? 122) | [] => false end.

(* the body of the loop over the sorted slots for one namespace: returns the
   name of the slot and the next counter *)
Definition pick_name (fuel : nat) (mf : minifier) (reserved : list name) (nsr : ns) (jsx : bool) (next : Z)
  : option (name * Z) :=
  let nm := NumberToMinifiedName mf next in
  let next := next + 1 in
  match nsr with
  | NsDefault =>
      match skip_while fuel mf (fun n => mem_name n reserved) nm next with
      | None => None
      | Some (nm1, next1) =>
          if jsx then skip_while fuel mf (fun n => starts_lower n || mem_name n reserved) nm1 next1
          else Some (nm1, next1)
      end
  | NsLabel => skip_while fuel mf (fun n => mem_name n keywords) nm next
  | NsPrivate => Some (35 :: nm, next)
  | _ => Some (nm, next)
  end.

(* returns the list (slot index, name) in assignment order *)
Fixpoint assign_sorted (fuel : nat) (mf : minifier) (reserved : list name) (nsr : ns)
         (slots : list slot) (sorted : list (Z * Z)) (next : Z) : option (list (Z * name)) :=
  match sorted with
  | [] => Some []
  | (i, _) :: rest =>
      match pick_name fuel mf reserved nsr (sl_jsx (nth (Z.to_nat i) slots empty_slot)) next with
      | None => None
      | Some (nm, next') =>
          match assign_sorted fuel mf reserved nsr slots rest next' with
          | None => None
          | Some l => Some ((i, nm) :: l)
          end
      end
  end.

Definition zlookup (m : list (Z * name)) (i : Z) : name :=
  match find (fun p => fst p =? i) m with Some p => snd p | None => [] end.

Definition names_for_ns (fuel : nat) (mf : minifier) (reserved : list name) (nsr : ns) (slots : list slot)
  : option (list slot) :=
  match assign_sorted fuel mf reserved nsr slots (sac_sort (sac_array slots 0)) 0 with
  | None => None
  | Some asg =>
      Some (map (fun p => mkSlot (zlookup asg (fst p)) (sl_count (snd p)) (sl_jsx (snd p)))
                (combine (map fst (sac_array slots 0)) slots))
  end.

Definition AssignNamesByFrequency (fuel : nat) (mf : minifier) (reserved : list name) (m : mstate)
  : option mstate :=
  match names_for_ns fuel mf reserved NsDefault (ms_default m),
        names_for_ns fuel mf reserved NsLabel (ms_label m),
        names_for_ns fuel mf reserved NsPrivate (ms_private m),
        names_for_ns fuel mf reserved NsMangled (ms_mangled m) with
  | Some a, Some b, Some c, Some d => Some (mkM a b c d (ms_top m))
  | _, _, _, _ => None
  end.

Definition minify_name_for (st : symtab) (slots : slotmap) (m : mstate) (r0 : nat) : name :=
  let r := follow st r0 in
  let sym := getsym st r in
  match sy_ns sym with
  | NsPinned => sy_name sym
  | nsr =>
      match lookup slots r with
      | Some i => sl_name (nth (Z.to_nat i) (ms_slots m nsr) empty_slot)
      | None =>
          match lookup (ms_top m) r with
          | Some i => sl_name (nth (Z.to_nat i) (ms_slots m nsr) empty_slot)
          | None => sy_name sym
          end
      end
  end.

(* the whole pipeline as renameSymbolsInChunk drives it for one chunk:
   [pre] are the (ref, count) pairs accumulated first and left unsorted (imports
   from other chunks); every element of [groups] is the sequence of (ref,
   count) pairs accumulated for one file, whose top-level array is sorted on
   its own (sort.Sort(topLevelSymbols) per file) before all arrays are
   concatenated, allocated in that order, and names assigned *)
Definition accumulate_group (st : symtab) (slots : slotmap) (stable : list Z)
           (acc : mstate * list ssc) (uses : list (nat * Z)) : mstate * list ssc :=
  let '(m, alltops) := acc in
  let '(m', tops) := fold_left (AccumulateSymbolCount st slots stable) uses (m, []) in
  (m', alltops ++ ssc_sort st tops).

Definition minify_rename (fuel : nat) (st : symtab) (slots : slotmap) (first : counts)
           (stable : list Z) (reserved : list name) (mf : minifier)
           (pre : list (nat * Z)) (groups : list (list (nat * Z)))
  : option mstate :=
  let '(m0, pretops) := fold_left (AccumulateSymbolCount st slots stable) pre (NewMinifyRenamer first, []) in
  let '(m1, tops) := fold_left (accumulate_group st slots stable) groups (m0, pretops) in
  let m2 := AllocateTopLevelSymbolSlots st m1 tops in
  AssignNamesByFrequency fuel mf reserved m2.

(* ------------------------------------------------------------------ *)
(* ExportRenamer *)

Fixpoint export_loop (fuel : nat) (used : nmap) (prefix : name) (tries : Z) : option (name * Z) :=
  match fuel with
  | O => None
  | S f =>
      let tries' := tries + 1 in
      let nm := prefix ++ itoa tries' in
      if nm_has used nm then export_loop f used prefix tries' else Some (nm, tries')
  end.

Definition NextRenamedName (fuel : nat) (used : nmap) (n : name) : option (name * nmap) :=
  match nm_get used n with
  | Some tries =>
      match export_loop fuel used n tries with
      | None => None
      | Some (nm, tries') => Some (nm, nm_set used nm tries')   (* sic: r.used[name] with the NEW name *)
      end
  | None => Some (n, nm_set used n 1)
  end.

Fixpoint export_rename_all (fuel : nat) (used : nmap) (l : list name) : option (list name) :=
  match l with
  | [] => Some []
  | n :: rest =>
      match NextRenamedName fuel used n with
      | None => None
      | Some (nm, used') =>
          match export_rename_all fuel used' rest with
          | None => None
          | Some out => Some (nm :: out)
          end
      end
  end.

Definition NextMinifiedName (count : Z) : name * Z :=
  (NumberToMinifiedName default_minifier count, count + 1).
