(* Resolution on a scope chain is preserved by a collision-free naming.

   [resolve v nmf x] is identifier resolution on the list [v] of symbols
   visible in a scope, innermost declarations first (the lists produced by
   Spec.vis_sets are in that order: the scope's own declarations, then its
   parent's, ..., then the top level): the first symbol whose name is x.  With
   the original names this is how the parser binds a reference (findSymbol
   walks the scope chain and looks the name up in each scope's members); with
   the new names it is what the JavaScript engine will do on the output.  *)
From V Require Import Common.Base C15.Names C15.NamesProofs C15.Renamer C15.Spec C15.NumberProofs.

Fixpoint resolve (v : list nat) (nmf : nat -> name) (x : name) : option nat :=
  match v with
  | [] => None
  | t :: r => if name_eqb (nmf t) x then Some t else resolve r nmf x
  end.

(* the core: if no other visible symbol has the name of s, the name of s resolves to s *)
Lemma resolve_unique v nmf s :
  In s v -> (forall t, In t v -> nmf t = nmf s -> t = s) -> resolve v nmf (nmf s) = Some s.
Proof.
  induction v as [|t r IH]; intros I U; [destruct I|]. simpl.
  destruct (name_eqb (nmf t) (nmf s)) eqn:E.
  - apply name_eqb_eq in E. f_equal. apply U; [left; reflexivity | exact E].
  - apply name_eqb_neq in E. destruct I as [->|I]; [congruence|].
    apply IH; [exact I | intros u Hu; apply U; right; exact Hu].
Qed.

(* resolution preserved: a reference that the parser bound to s (by the original
   names) still resolves to s by the new names *)
Lemma resolution_preserved_core v orig nmf x s :
  resolve v orig x = Some s ->
  (forall t, In t v -> nmf t = nmf s -> t = s) ->
  resolve v nmf (nmf s) = Some s.
Proof.
  intros R U. apply resolve_unique; [|exact U].
  clear U. induction v as [|t r IH]; [discriminate|]. simpl in R.
  destruct (name_eqb (orig t) x); [injection R as ->; left; reflexivity | right; apply IH; exact R].
Qed.

(* instantiated for the number renamer: on every visibility set of a well-formed
   forest, a reference bound to a renamed symbol s still resolves to s, provided
   the symbols that keep their names (pinned, labels, ...) do not carry the new
   name of s - for pinned symbols of the module scope trees this is
   number_avoids_pinned (reserved names), see resolution_preserved_number_pinned *)
Lemma resolution_preserved_number_all fuel st reserved toplevel nested names :
  number_rename fuel st reserved toplevel nested = Some names ->
  wf_number st toplevel nested = true ->
  forall v, In v (vis_forest st nested (map (follow st) toplevel)) ->
  forall x s, resolve v (fun t => sy_name (getsym st t)) x = Some s ->
    renameable (sy_ns (getsym st s)) = true ->
    (forall p, In p v -> renameable (sy_ns (getsym st p)) = false ->
               sy_name (getsym st p) <> number_name_for st names s) ->
    (forall t, In t v -> follow st t = t) ->
    resolve v (number_name_for st names) (number_name_for st names s) = Some s.
Proof.
  intros A W v Hv x s R Rs Pin Canon.
  eapply resolution_preserved_core; [exact R|].
  intros t Ht E.
  destruct (Nat.eq_dec t s) as [->|N]; [reflexivity | exfalso].
  assert (Hs : In s v).
  { clear - R. induction v as [|u r IH]; [discriminate|]. simpl in R.
    destruct (name_eqb (sy_name (getsym st u)) x); [injection R as ->; left; reflexivity | right; auto]. }
  destruct (renameable (sy_ns (getsym st t))) eqn:Rt.
  - pose proof (number_renamer_no_shadow_all fuel st reserved toplevel nested names A W v Hv t s) as D.
    rewrite (Canon t Ht), (Canon s Hs) in D. apply (D Ht Hs N Rt Rs). exact E.
  - apply (Pin t Ht Rt). rewrite <- E.
    pose proof (number_pinned_unchanged_all fuel st reserved toplevel nested names A W t) as P.
    rewrite (Canon t Ht) in P. rewrite P by exact Rt. reflexivity.
Qed.
