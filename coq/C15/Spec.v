(* C15 specification side: what "no capture / no shadowing / no collision"
   means on a scope tree, independently of how names are chosen.

   A symbol is *visible* in a scope when it is declared (member or generated,
   after following links) in that scope or in one of its ancestors, or at the
   top level.  [vis_sets] enumerates, for every scope of a forest, the list of
   symbols visible in it.  A naming is collision-free when no two distinct
   visible symbols of the same name space share a name and no renamed symbol
   takes a reserved name.

   Well-formedness of the input tree (a fact about what the parser builds,
   checked on every generated case and on real parser output by the harness):
   a symbol that occurs in several scopes (var hoisting, function-in-block)
   occurs in a scope only if it is new or already visible there, i.e. its
   occurrences lie on one ancestor chain below their first occurrence. *)
From V Require Import Common.Base C15.Names C15.Renamer.

Definition canon_decls (st : symtab) (sc : scope) : list nat := map (follow st) (scope_decls sc).

Fixpoint vis_sets (st : symtab) (sc : scope) (anc : list nat) : list (list nat) :=
  match sc with
  | Scope _ _ _ _ children =>
      let v := canon_decls st sc ++ anc in
      v :: (fix go (cs : list scope) : list (list nat) :=
              match cs with
              | [] => []
              | c :: r => vis_sets st c v ++ go r
              end) children
  end.
Fixpoint vis_forest (st : symtab) (cs : list scope) (anc : list nat) : list (list nat) :=
  match cs with
  | [] => []
  | c :: r => vis_sets st c anc ++ vis_forest st r anc
  end.

(* ---- well-formedness (executable) ---- *)
Fixpoint wf_refs (vis seen : list nat) (refs : list nat) : option (list nat * list nat) :=
  match refs with
  | [] => Some (vis, seen)
  | r :: rest =>
      if mem_nat r seen && negb (mem_nat r vis) then None
      else wf_refs (r :: vis) (r :: seen) rest
  end.

Fixpoint wf_scope (st : symtab) (sc : scope) (vis seen : list nat) : option (list nat) :=
  match sc with
  | Scope _ _ _ _ children =>
      match wf_refs vis seen (canon_decls st sc) with
      | None => None
      | Some (vis', seen') =>
          (fix go (cs : list scope) (seen : list nat) : option (list nat) :=
             match cs with
             | [] => Some seen
             | c :: r => match wf_scope st c vis' seen with
                         | None => None
                         | Some seen'' => go r seen''
                         end
             end) children seen'
      end
  end.
Fixpoint wf_forest (st : symtab) (cs : list scope) (vis seen : list nat) : option (list nat) :=
  match cs with
  | [] => Some seen
  | c :: r => match wf_scope st c vis seen with
              | None => None
              | Some seen' => wf_forest st r vis seen'
              end
  end.

(* the number renamer's input: top-level symbols, then the nested forest *)
Definition wf_number (st : symtab) (toplevel : list nat) (nested : list scope) : bool :=
  match wf_refs [] [] (map (follow st) toplevel) with
  | None => false
  | Some (vis, seen) => match wf_forest st nested vis seen with Some _ => true | None => false end
  end.

(* ---- collision freedom of a naming [nm : nat -> name] on canonical refs ---- *)
(* the name spaces in which identifiers are (re)named: ordinary bindings and
   private names (labels and mangled properties are not bindings of a scope) *)
Definition same_space (a b : ns) : bool :=
  match a, b with
  | NsDefault, NsDefault | NsPrivate, NsPrivate => true
  | _, _ => false
  end.

Definition no_collision_in (st : symtab) (nm : nat -> name) (v : list nat) : Prop :=
  forall r1 r2, In r1 v -> In r2 v -> r1 <> r2 ->
    same_space (sy_ns (getsym st r1)) (sy_ns (getsym st r2)) = true ->
    nm r1 <> nm r2.

(* executable form used on the names observed on the Go code *)
Fixpoint pairs_ok (st : symtab) (nm : nat -> name) (r : nat) (l : list nat) : bool :=
  match l with
  | [] => true
  | x :: t =>
      (Nat.eqb r x || negb (same_space (sy_ns (getsym st r)) (sy_ns (getsym st x)))
       || negb (name_eqb (nm r) (nm x))) && pairs_ok st nm r t
  end.
Fixpoint no_collision_b (st : symtab) (nm : nat -> name) (v : list nat) : bool :=
  match v with
  | [] => true
  | r :: t => pairs_ok st nm r t && no_collision_b st nm t
  end.

(* slots: symbols of one name space visible together must sit in different slots *)
Definition slot_decls (sc : scope) : list nat :=
  scope_decls sc ++ match sc_label sc with Some l => [l] | None => [] end.

Fixpoint slot_vis_sets (sc : scope) (anc : list nat) : list (list nat) :=
  match sc with
  | Scope _ _ _ _ children =>
      let v := rev (slot_decls sc) ++ anc in
      v :: (fix go (cs : list scope) : list (list nat) :=
              match cs with
              | [] => []
              | c :: r => slot_vis_sets c v ++ go r
              end) children
  end.
Fixpoint slot_vis_forest (cs : list scope) (anc : list nat) : list (list nat) :=
  match cs with
  | [] => []
  | c :: r => slot_vis_sets c anc ++ slot_vis_forest r anc
  end.

(* well-formedness for slot assignment: as above on raw refs, and a label
   symbol is fresh where it is introduced *)
Fixpoint wf_slot_scope (st : symtab) (sc : scope) (vis seen : list nat) : option (list nat) :=
  match sc with
  | Scope _ _ lbl _ children =>
      match wf_refs vis seen (scope_decls sc) with
      | None => None
      | Some (vis1, seen1) =>
          let step := match lbl with
                      | Some l => if mem_nat l seen1 || negb (ns_eqb (sy_ns (getsym st l)) NsLabel)
                                  then None else Some (l :: vis1, l :: seen1)
                      | None => Some (vis1, seen1)
                      end in
          match step with
          | None => None
          | Some (vis', seen') =>
              (fix go (cs : list scope) (seen : list nat) : option (list nat) :=
                 match cs with
                 | [] => Some seen
                 | c :: r => match wf_slot_scope st c vis' seen with
                             | None => None
                             | Some seen'' => go r seen''
                             end
                 end) children seen'
          end
      end
  end.
Fixpoint wf_slot_forest (st : symtab) (cs : list scope) (vis seen : list nat) : option (list nat) :=
  match cs with
  | [] => Some seen
  | c :: r => match wf_slot_scope st c vis seen with
              | None => None
              | Some seen' => wf_slot_forest st r vis seen'
              end
  end.
(* AssignNestedScopeSlots: the module scope's own symbols count as visible
   everywhere; a label symbol is a fresh symbol of kind label *)
Definition module_top (moduleScope : scope) : list nat :=
  sc_members moduleScope ++ sc_generated moduleScope.
Definition wf_slots (st : symtab) (moduleScope : scope) : bool :=
  match wf_slot_forest st (sc_children moduleScope) (module_top moduleScope) (module_top moduleScope) with
  | Some _ => true | None => false end.

(* ---- every declaration of a scope tree (members and generated symbols of
   the scope and of all its descendants) ---- *)
Fixpoint tree_decls (sc : scope) : list nat :=
  match sc with
  | Scope mem gen _ _ children =>
      mem ++ gen ++
      (fix go (cs : list scope) : list nat :=
         match cs with
         | [] => []
         | c :: r => tree_decls c ++ go r
         end) children
  end.
