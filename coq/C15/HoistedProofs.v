(* The linker registers, as top-level symbols of the chunk, every symbol that an
   import / export-from statement hoisted out of a CommonJS wrapper declares.
   Both inventories are regenerated from the Go source on every run
   (gen/cmd/c15hoisted): the symbol-holding fields of js_ast.SImport / SExportStar /
   SExportFrom, and the fields passed to AddTopLevelSymbol in
   linker.renameSymbolsInChunk.  number_toplevel_distinct is about the symbols that
   ARE registered; this obligation says none is forgotten. *)
From V Require Import Common.Base.
From V Require Import gen.C15HoistedImportsGen.

Definition field_eqb (a b : list Z * list Z) : bool :=
  zlist_eqb (fst a) (fst b) && zlist_eqb (snd a) (snd b).

Definition hoisted_all_registered : bool :=
  forallb (fun d => existsb (field_eqb d) gen_hoisted_registered) gen_hoisted_declared.

Lemma hoisted_all_registered_true : hoisted_all_registered = true.
Proof. vm_compute. reflexivity. Qed.

Lemma hoisted_declared_nonempty : (3 <= length gen_hoisted_declared)%nat.
Proof. vm_compute. repeat constructor. Qed.
