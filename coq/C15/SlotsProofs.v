(* Nested-scope slots: symbols of one name space that are visible together
   never share a slot; every nested slot is below the returned slot count. *)
From V Require Import Common.Base C15.Names C15.NamesProofs C15.Renamer C15.Spec C15.NumberProofs.

Lemma slotsHelper_unfold st m g l e ch sm cnt :
  slotsHelper st (Scope m g l e ch) sm cnt =
  let '(sm1, c1) := fold_left (assign_slot st) (scope_decls (Scope m g l e ch)) (sm, cnt) in
  let '(sm2, c2) := match l with
                    | Some lb => ((lb, cnt_get c1 NsLabel) :: sm1, cnt_incr c1 NsLabel)
                    | None => (sm1, c1)
                    end in
  slotsForest st ch sm2 c2 c2.
Proof.
  simpl. destruct (fold_left (assign_slot st) _ (sm, cnt)) as [sm1 c1].
  destruct (match l with Some lb => _ | None => _ end) as [sm2 c2].
  generalize c2 at 2 4. revert sm2.
  induction ch as [|c r IH]; intros sm2 acc; simpl; [reflexivity|].
  destruct (slotsHelper st c sm2 c2) as [sm' cc]. apply IH.
Qed.

Lemma slot_vis_sets_unfold m g l e ch anc :
  slot_vis_sets (Scope m g l e ch) anc =
  (rev (slot_decls (Scope m g l e ch)) ++ anc) :: slot_vis_forest ch (rev (slot_decls (Scope m g l e ch)) ++ anc).
Proof.
  simpl. f_equal. generalize (rev (slot_decls (Scope m g l e ch)) ++ anc). intros v.
  induction ch as [|c r IH]; simpl; [reflexivity | rewrite IH; reflexivity].
Qed.

Lemma wf_slot_scope_unfold st m g l e ch vis seen :
  wf_slot_scope st (Scope m g l e ch) vis seen =
  match wf_refs vis seen (scope_decls (Scope m g l e ch)) with
  | None => None
  | Some (vis1, seen1) =>
      match (match l with
             | Some lb => if mem_nat lb seen1 || negb (ns_eqb (sy_ns (getsym st lb)) NsLabel)
                          then None else Some (lb :: vis1, lb :: seen1)
             | None => Some (vis1, seen1)
             end) with
      | None => None
      | Some (vis', seen') => wf_slot_forest st ch vis' seen'
      end
  end.
Proof.
  simpl. destruct (wf_refs vis seen _) as [[vis1 seen1]|]; [|reflexivity].
  destruct (match l with Some lb => _ | None => _ end) as [[vis' seen']|]; [|reflexivity].
  revert seen'. induction ch as [|c r IH]; intros seen'; simpl; [reflexivity|].
  destruct (wf_slot_scope st c vis' seen'); [apply IH | reflexivity].
Qed.

(* ---- counters ---- *)
Definition cnt_le (a b : counts) : Prop := forall n, cnt_get a n <= cnt_get b n.
Lemma cnt_le_refl a : cnt_le a a.
Proof. intros n; lia. Qed.
Lemma cnt_le_trans a b c : cnt_le a b -> cnt_le b c -> cnt_le a c.
Proof. intros H1 H2 n. specialize (H1 n). specialize (H2 n). lia. Qed.
Lemma cnt_incr_le c n : cnt_le c (cnt_incr c n).
Proof. intros k. destruct c, n, k; simpl; lia. Qed.
Lemma cnt_incr_get c n : n <> NsPinned -> cnt_get (cnt_incr c n) n = cnt_get c n + 1.
Proof. intros H. destruct c, n; simpl; try lia. contradiction. Qed.
Lemma cnt_max_l a b : cnt_le a (cnt_max a b).
Proof. intros n. destruct a, b, n; simpl; lia. Qed.
Lemma cnt_max_r a b : cnt_le b (cnt_max a b).
Proof. intros n. destruct a, b, n; simpl; lia. Qed.

Lemma ns_eqb_eq a b : ns_eqb a b = true <-> a = b.
Proof. destruct a, b; simpl; split; intros; try reflexivity; try discriminate. Qed.

Section Slots.
  Variable st : symtab.
  Variable top : list nat.

  Definition nsr (r : nat) : ns := sy_ns (getsym st r).
  Definition sext (a b : slotmap) : Prop := forall r k, lookup a r = Some k -> lookup b r = Some k.

  Record SGlob (sm : slotmap) : Prop := {
    sg_top : forall r, In r top -> lookup sm r <> None;
    sg_ns : forall r k, lookup sm r = Some k -> ~ In r top -> nsr r <> NsPinned
  }.

  Record SInv (vis seen : list nat) (sm : slotmap) (cnt : counts) : Prop := {
    s_lt : forall r k, In r vis -> ~ In r top -> lookup sm r = Some k -> k < cnt_get cnt (nsr r);
    s_seen : forall r k, lookup sm r = Some k -> In r seen;
    s_topseen : forall r, In r top -> In r seen /\ In r vis;
    s_dist : forall r1 r2 k1 k2, In r1 vis -> In r2 vis -> ~ In r1 top -> ~ In r2 top -> r1 <> r2 ->
               nsr r1 = nsr r2 -> lookup sm r1 = Some k1 -> lookup sm r2 = Some k2 -> k1 <> k2;
    s_none : forall r, In r vis -> lookup sm r = None -> nsr r = NsPinned;
    s_glob : SGlob sm
  }.

  Record SGood (v : list nat) (sm : slotmap) : Prop := {
    sgd_none : forall r, In r v -> lookup sm r = None -> nsr r = NsPinned;
    sgd_dist : forall r1 r2 k1 k2, In r1 v -> In r2 v -> ~ In r1 top -> ~ In r2 top -> r1 <> r2 ->
               nsr r1 = nsr r2 -> lookup sm r1 = Some k1 -> lookup sm r2 = Some k2 -> k1 <> k2
  }.

  Lemma sext_refl a : sext a a.
  Proof. intros r k H; exact H. Qed.
  Lemma sext_trans a b c : sext a b -> sext b c -> sext a c.
  Proof. intros H1 H2 r k H. apply H2, H1, H. Qed.

  Lemma SGood_mono v a b : SGood v a -> sext a b -> SGlob b -> SGood v b.
  Proof.
    intros [Gn Gd] E Gb.
    assert (Back : forall r k, In r v -> ~ In r top -> lookup b r = Some k -> lookup a r = Some k).
    { intros r k Hr Nt L. destruct (lookup a r) as [k0|] eqn:La.
      - apply E in La. congruence.
      - apply Gn in La; auto. apply (sg_ns b Gb) in L; auto. contradiction. }
    split.
    - intros r Hr Hb. destruct (lookup a r) as [k|] eqn:La; [apply E in La; congruence | apply Gn; auto].
    - intros r1 r2 k1 k2 H1 H2 T1 T2 N S L1 L2.
      exact (Gd r1 r2 k1 k2 H1 H2 T1 T2 N S (Back _ _ H1 T1 L1) (Back _ _ H2 T2 L2)).
  Qed.

  Lemma SInv_SGood vis seen sm cnt : SInv vis seen sm cnt -> SGood vis sm.
  Proof. intros I. split; [apply (s_none _ _ _ _ I) | apply (s_dist _ _ _ _ I)]. Qed.

  Lemma SInv_cnt vis seen sm c1 c2 : SInv vis seen sm c1 -> cnt_le c1 c2 -> SInv vis seen sm c2.
  Proof.
    intros I L. split; try apply I.
    intros r k Hr Nt Lk. pose proof (s_lt _ _ _ _ I r k Hr Nt Lk). specialize (L (nsr r)). lia.
  Qed.

  (* every slot handed out in a step is below the resulting counter *)
  Definition newlt (sm sm' : slotmap) (c' : counts) : Prop :=
    forall r k, lookup sm' r = Some k -> ~ In r top -> lookup sm r = Some k \/ (0 <= k < cnt_get c' (nsr r)).

  Definition cnt_nonneg (c : counts) : Prop := forall n, 0 <= cnt_get c n.

  Lemma assign_slot_step vis seen sm cnt r sm' cnt' :
    SInv vis seen sm cnt -> cnt_nonneg cnt ->
    (mem_nat r seen && negb (mem_nat r vis) = false) ->
    assign_slot st (sm, cnt) r = (sm', cnt') ->
    SInv (r :: vis) (r :: seen) sm' cnt' /\ sext sm sm' /\ cnt_le cnt cnt' /\ newlt sm sm' cnt'.
  Proof.
    intros I NN W A. unfold assign_slot in A. fold (nsr r) in A.
    assert (Keep : nsr r = NsPinned \/ lookup sm r <> None -> (sm, cnt) = (sm', cnt') ->
                   (lookup sm r = None -> nsr r = NsPinned) ->
                   SInv (r :: vis) (r :: seen) sm' cnt' /\ sext sm sm' /\ cnt_le cnt cnt' /\ newlt sm sm' cnt').
    { intros _ E Hn. injection E as <- <-.
      split; [|split; [apply sext_refl | split; [apply cnt_le_refl | intros x k L _; left; exact L]]].
      assert (Hv : lookup sm r <> None -> In r vis).
      { intros L. destruct (lookup sm r) as [k|] eqn:Lr; [|congruence].
        apply (s_seen _ _ _ _ I) in Lr. apply mem_nat_In in Lr. rewrite Lr in W. simpl in W.
        apply negb_false_iff in W. apply mem_nat_In. exact W. }
      split.
      - intros x k [<-|Hx] Nt L; [|eapply (s_lt _ _ _ _ I); eauto].
        eapply (s_lt _ _ _ _ I); eauto. apply Hv. congruence.
      - intros x k L. right. eapply (s_seen _ _ _ _ I); eauto.
      - intros x Hx. destruct (s_topseen _ _ _ _ I x Hx). split; right; assumption.
      - intros r1 r2 k1 k2 H1 H2 T1 T2 N S L1 L2.
        assert (V1 : In r1 vis) by (destruct H1 as [<-|H1]; [apply Hv; congruence | exact H1]).
        assert (V2 : In r2 vis) by (destruct H2 as [<-|H2]; [apply Hv; congruence | exact H2]).
        exact (s_dist _ _ _ _ I r1 r2 k1 k2 V1 V2 T1 T2 N S L1 L2).
      - intros x [<-|Hx] L; [apply Hn; exact L | apply (s_none _ _ _ _ I); auto].
      - apply (s_glob _ _ _ _ I). }
    destruct (ns_eqb (nsr r) NsPinned) eqn:NS.
    { apply ns_eqb_eq in NS. apply Keep; auto.
      rewrite NS in A. exact A. }
    assert (NP : nsr r <> NsPinned) by (intros E; apply ns_eqb_eq in E; congruence).
    assert (A' : (match lookup sm r with
                  | Some _ => (sm, cnt)
                  | None => ((r, cnt_get cnt (nsr r)) :: sm, cnt_incr cnt (nsr r))
                  end) = (sm', cnt')).
    { destruct (nsr r); try exact A. contradiction. }
    clear A. destruct (lookup sm r) as [k0|] eqn:L0.
    { apply Keep; [right; congruence | exact A' | congruence]. }
    injection A' as <- <-. clear Keep.
    assert (Nt : ~ In r top) by (intros T; apply (sg_top _ (s_glob _ _ _ _ I)) in T; congruence).
    split; [|split; [|split]].
    - split.
      + intros x k Hx Ntx Lx. destruct (Nat.eq_dec x r) as [->|N].
        * rewrite lookup_cons_eq in Lx. injection Lx as <-. rewrite cnt_incr_get by exact NP. lia.
        * rewrite lookup_cons_neq in Lx by exact N. destruct Hx as [Hx|Hx]; [congruence|].
          pose proof (s_lt _ _ _ _ I x k Hx Ntx Lx) as B.
          pose proof (cnt_incr_le cnt (nsr r) (nsr x)). lia.
      + intros x k Lx. destruct (Nat.eq_dec x r) as [->|N]; [left; reflexivity|].
        rewrite lookup_cons_neq in Lx by exact N. right. eapply (s_seen _ _ _ _ I); eauto.
      + intros x Hx. destruct (s_topseen _ _ _ _ I x Hx). split; right; assumption.
      + intros r1 r2 k1 k2 H1 H2 T1 T2 N S L1 L2.
        destruct (Nat.eq_dec r1 r) as [->|N1]; destruct (Nat.eq_dec r2 r) as [->|N2]; try congruence.
        * rewrite lookup_cons_eq in L1. injection L1 as <-. rewrite lookup_cons_neq in L2 by exact N2.
          destruct H2 as [H2|H2]; [congruence|].
          pose proof (s_lt _ _ _ _ I r2 k2 H2 T2 L2). rewrite <- S in *. lia.
        * rewrite lookup_cons_eq in L2. injection L2 as <-. rewrite lookup_cons_neq in L1 by exact N1.
          destruct H1 as [H1|H1]; [congruence|].
          pose proof (s_lt _ _ _ _ I r1 k1 H1 T1 L1). rewrite S in *. lia.
        * rewrite lookup_cons_neq in L1 by exact N1. rewrite lookup_cons_neq in L2 by exact N2.
          destruct H1 as [H1|H1]; [congruence|]. destruct H2 as [H2|H2]; [congruence|].
          exact (s_dist _ _ _ _ I r1 r2 k1 k2 H1 H2 T1 T2 N S L1 L2).
      + intros x Hx Lx. destruct (Nat.eq_dec x r) as [->|N]; [rewrite lookup_cons_eq in Lx; discriminate|].
        rewrite lookup_cons_neq in Lx by exact N. destruct Hx as [Hx|Hx]; [congruence|].
        apply (s_none _ _ _ _ I); auto.
      + pose proof (s_glob _ _ _ _ I) as [G1 G2]. split.
        * intros x Hx. destruct (Nat.eq_dec x r) as [->|N]; [contradiction|].
          rewrite lookup_cons_neq by exact N. apply G1. exact Hx.
        * intros x k Lx Ntx. destruct (Nat.eq_dec x r) as [->|N]; [exact NP|].
          rewrite lookup_cons_neq in Lx by exact N. eapply G2; eauto.
    - intros x k Lx. destruct (Nat.eq_dec x r) as [->|N]; [congruence|].
      rewrite lookup_cons_neq by exact N. exact Lx.
    - apply cnt_incr_le.
    - intros x k Lx Ntx. destruct (Nat.eq_dec x r) as [->|N].
      + rewrite lookup_cons_eq in Lx. injection Lx as <-. right.
        rewrite cnt_incr_get by exact NP. specialize (NN (nsr r)). lia.
      + rewrite lookup_cons_neq in Lx by exact N. left. exact Lx.
  Qed.

  Lemma newlt_trans a b c cb cc : newlt a b cb -> newlt b c cc -> cnt_le cb cc -> newlt a c cc.
  Proof.
    intros H1 H2 L r k Lc Nt. destruct (H2 r k Lc Nt) as [Lb|B]; [|right; exact B].
    destruct (H1 r k Lb Nt) as [La|B]; [left; exact La | right]. specialize (L (nsr r)). lia.
  Qed.
  Lemma newlt_weaken a b c1 c2 : newlt a b c1 -> cnt_le c1 c2 -> newlt a b c2.
  Proof.
    intros H L r k Lb Nt. destruct (H r k Lb Nt) as [La|B]; [left; exact La | right]. specialize (L (nsr r)). lia.
  Qed.
  Lemma nonneg_le c1 c2 : cnt_nonneg c1 -> cnt_le c1 c2 -> cnt_nonneg c2.
  Proof. intros N L n. specialize (N n). specialize (L n). lia. Qed.

  Lemma assign_slots_inv refs : forall vis seen sm cnt sm' cnt' vis' seen',
    SInv vis seen sm cnt -> cnt_nonneg cnt ->
    wf_refs vis seen refs = Some (vis', seen') ->
    fold_left (assign_slot st) refs (sm, cnt) = (sm', cnt') ->
    SInv vis' seen' sm' cnt' /\ sext sm sm' /\ cnt_le cnt cnt' /\ newlt sm sm' cnt' /\ vis' = rev refs ++ vis.
  Proof.
    induction refs as [|r rest IH]; intros vis seen sm cnt sm' cnt' vis' seen' I NN W A;
      cbn [wf_refs fold_left rev] in *.
    - injection W as <- <-. injection A as <- <-.
      split; [exact I | split; [apply sext_refl | split; [apply cnt_le_refl | split; [|reflexivity]]]].
      intros x k L _. left. exact L.
    - destruct (mem_nat r seen && negb (mem_nat r vis)) eqn:Wr; [discriminate|].
      destruct (assign_slot st (sm, cnt) r) as [sm1 c1] eqn:A1.
      destruct (assign_slot_step _ _ _ _ _ _ _ I NN Wr A1) as (I1 & E1 & L1 & N1).
      destruct (IH _ _ _ _ _ _ _ _ I1 (nonneg_le _ _ NN L1) W A) as (I2 & E2 & L2 & N2 & V).
      split; [exact I2 | split; [eapply sext_trans; eauto | split; [eapply cnt_le_trans; eauto | split]]].
      + exact (newlt_trans _ _ _ _ _ N1 N2 L2).
      + rewrite V, <- app_assoc. reflexivity.
  Qed.

  Lemma SInv_back vis seen seen' sm sm' cnt :
    SInv vis seen sm cnt -> sext sm sm' -> SGlob sm' ->
    (forall r k, lookup sm' r = Some k -> In r seen') ->
    (forall r, In r seen -> In r seen') ->
    SInv vis seen' sm' cnt.
  Proof.
    intros I E G S SS.
    assert (Back : forall r k, In r vis -> lookup sm' r = Some k -> lookup sm r = Some k).
    { intros r k Hr L. destruct (lookup sm r) as [k0|] eqn:L0.
      - apply E in L0. congruence.
      - destruct (in_dec Nat.eq_dec r top) as [T|T].
        + apply (sg_top _ (s_glob _ _ _ _ I)) in T. congruence.
        + apply (s_none _ _ _ _ I) in L0; auto. apply (sg_ns _ G) in L; auto. contradiction. }
    split.
    - intros r k Hr Nt L. eapply (s_lt _ _ _ _ I); eauto.
    - exact S.
    - intros r Hr. destruct (s_topseen _ _ _ _ I r Hr). split; auto.
    - intros r1 r2 k1 k2 H1 H2 T1 T2 N Sn L1 L2.
      exact (s_dist _ _ _ _ I r1 r2 k1 k2 H1 H2 T1 T2 N Sn (Back _ _ H1 L1) (Back _ _ H2 L2)).
    - intros r Hr L. apply (s_none _ _ _ _ I); auto.
      destruct (lookup sm r) as [k0|] eqn:L0; [apply E in L0; congruence | reflexivity].
    - exact G.
  Qed.

  Definition SPost (sets : list (list nat)) (seen seen' : list nat) (sm sm' : slotmap) (cc : counts) : Prop :=
    sext sm sm' /\ SGlob sm' /\ (forall r k, lookup sm' r = Some k -> In r seen') /\
    (forall r, In r seen -> In r seen') /\
    Forall (fun v => SGood v sm') sets /\ newlt sm sm' cc.

  Lemma wf_refs_seen refs : forall vis seen vis' seen', wf_refs vis seen refs = Some (vis', seen') ->
    forall r, In r seen -> In r seen'.
  Proof.
    induction refs as [|x rest IH]; intros vis seen vis' seen' W r Hr; simpl in W.
    - injection W as <- <-. exact Hr.
    - destruct (mem_nat x seen && negb (mem_nat x vis)); [discriminate|].
      eapply IH; [exact W | right; exact Hr].
  Qed.

  Lemma slotsHelper_inv sc : forall vis seen sm cnt sm' cc seen',
    SInv vis seen sm cnt -> cnt_nonneg cnt ->
    wf_slot_scope st sc vis seen = Some seen' ->
    slotsHelper st sc sm cnt = (sm', cc) ->
    SPost (slot_vis_sets sc vis) seen seen' sm sm' cc /\ cnt_le cnt cc.
  Proof.
    induction sc as [m g l e ch IHch] using scope_ind'.
    intros vis seen sm cnt sm' cc seen' I NN W A.
    rewrite wf_slot_scope_unfold in W. rewrite slotsHelper_unfold in A. rewrite slot_vis_sets_unfold.
    set (sc := Scope m g l e ch) in *.
    destruct (wf_refs vis seen (scope_decls sc)) as [[vis1 seen1]|] eqn:W1; [|discriminate].
    destruct (fold_left (assign_slot st) (scope_decls sc) (sm, cnt)) as [sm1 c1] eqn:A1.
    destruct (assign_slots_inv _ _ _ _ _ _ _ _ _ I NN W1 A1) as (I1 & E1 & L1 & N1 & V1).
    pose proof (wf_refs_seen _ _ _ _ _ W1) as SS1.
    (* the label *)
    assert (Lab : exists vis2 seen2 sm2 c2,
              (match l with
               | Some lb => if mem_nat lb seen1 || negb (ns_eqb (sy_ns (getsym st lb)) NsLabel)
                            then None else Some (lb :: vis1, lb :: seen1)
               | None => Some (vis1, seen1)
               end) = Some (vis2, seen2) /\
              (match l with
               | Some lb => ((lb, cnt_get c1 NsLabel) :: sm1, cnt_incr c1 NsLabel)
               | None => (sm1, c1)
               end) = (sm2, c2) /\
              SInv vis2 seen2 sm2 c2 /\ sext sm1 sm2 /\ cnt_le c1 c2 /\ newlt sm1 sm2 c2 /\
              vis2 = rev (slot_decls sc) ++ vis /\ (forall r, In r seen1 -> In r seen2)).
    { destruct l as [lb|].
      - destruct (mem_nat lb seen1 || negb (ns_eqb (sy_ns (getsym st lb)) NsLabel)) eqn:C; [discriminate|].
        apply orb_false_iff in C as [C1 C2]. apply negb_false_iff, ns_eqb_eq in C2.
        exists (lb :: vis1), (lb :: seen1), ((lb, cnt_get c1 NsLabel) :: sm1), (cnt_incr c1 NsLabel).
        split; [reflexivity | split; [reflexivity|]].
        assert (L0 : lookup sm1 lb = None).
        { destruct (lookup sm1 lb) as [k|] eqn:Lk; [|reflexivity].
          apply (s_seen _ _ _ _ I1) in Lk. apply mem_nat_In in Lk. congruence. }
        assert (AS : assign_slot st (sm1, c1) lb = ((lb, cnt_get c1 NsLabel) :: sm1, cnt_incr c1 NsLabel)).
        { unfold assign_slot. rewrite C2, L0. reflexivity. }
        assert (Wl : mem_nat lb seen1 && negb (mem_nat lb vis1) = false) by (rewrite C1; reflexivity).
        destruct (assign_slot_step _ _ _ _ _ _ _ I1 (nonneg_le _ _ NN L1) Wl AS) as (I2 & E2 & L2 & N2).
        split; [exact I2 | split; [exact E2 | split; [exact L2 | split; [exact N2 | split]]]].
        + rewrite V1. unfold slot_decls, sc. simpl. rewrite rev_app_distr. reflexivity.
        + intros r Hr. right. exact Hr.
      - exists vis1, seen1, sm1, c1. split; [reflexivity | split; [reflexivity|]].
        split; [exact I1 | split; [apply sext_refl | split; [apply cnt_le_refl | split; [|split]]]].
        + intros x k L _. left. exact L.
        + rewrite V1. unfold slot_decls, sc. simpl. rewrite app_nil_r. reflexivity.
        + auto. }
    destruct Lab as (vis2 & seen2 & sm2 & c2 & Wl & Al & I2 & E2 & L2 & N2 & V2 & SS2).
    rewrite Wl in W. rewrite Al in A. clear Wl Al.
    assert (NN2 : cnt_nonneg c2) by (eapply nonneg_le; [exact NN | eapply cnt_le_trans; eauto]).
    rewrite <- V2.
    (* the children *)
    assert (Kids : forall cs, Forall (fun c => forall vis seen sm cnt sm' cc seen',
                 SInv vis seen sm cnt -> cnt_nonneg cnt ->
                 wf_slot_scope st c vis seen = Some seen' ->
                 slotsHelper st c sm cnt = (sm', cc) ->
                 SPost (slot_vis_sets c vis) seen seen' sm sm' cc /\ cnt_le cnt cc) cs ->
             forall sn sma acc smb total sn',
               SInv vis2 sn sma c2 ->
               wf_slot_forest st cs vis2 sn = Some sn' ->
               slotsForest st cs sma c2 acc = (smb, total) ->
               SPost (slot_vis_forest cs vis2) sn sn' sma smb total /\ cnt_le acc total /\ SInv vis2 sn' smb c2).
    { induction 1 as [|c r Hc Hr IH]; intros sn sma acc smb total sn' Iv Wf Af; simpl in *.
      - injection Wf as <-. injection Af as <- <-.
        split; [|split; [apply cnt_le_refl | exact Iv]].
        split; [apply sext_refl|]. split; [apply (s_glob _ _ _ _ Iv)|].
        split; [apply (s_seen _ _ _ _ Iv)|]. split; [auto|]. split; [constructor|].
        intros x k L _. left. exact L.
      - destruct (wf_slot_scope st c vis2 sn) as [sn1|] eqn:Wc; [|discriminate].
        destruct (slotsHelper st c sma c2) as [sm1' cc1] eqn:Ac.
        destruct (Hc _ _ _ _ _ _ _ Iv NN2 Wc Ac) as ((Ec & Gc & Sc & SSc & Fc & Nc) & Lc).
        assert (Iv1 : SInv vis2 sn1 sm1' c2) by (eapply SInv_back; eauto).
        destruct (IH _ _ _ _ _ _ Iv1 Wf Af) as ((Er & Gr & Sr & SSr & Fr & Nr) & Lr & Ir).
        split; [|split; [|exact Ir]].
        + split; [eapply sext_trans; eauto|]. split; [exact Gr|]. split; [exact Sr|].
          split; [auto|]. split.
          * apply Forall_app. split; [|exact Fr].
            eapply Forall_impl; [|exact Fc]. intros w Gw. exact (SGood_mono w sm1' smb Gw Er Gr).
          * eapply newlt_trans; [exact Nc | exact Nr |].
            eapply cnt_le_trans; [apply cnt_max_r | exact Lr].
        + eapply cnt_le_trans; [apply cnt_max_l | exact Lr]. }
    destruct (Kids ch IHch _ _ _ _ _ _ I2 W A) as ((Ek & Gk & Sk & SSk & Fk & Nk) & Lk & Ik).
    split.
    - split; [eapply sext_trans; [exact E1 | eapply sext_trans; eauto]|].
      split; [exact Gk|]. split; [exact Sk|]. split; [auto|]. split.
      + constructor; [|exact Fk].
        eapply SGood_mono; [apply (SInv_SGood _ _ _ _ I2) | exact Ek | exact Gk].
      + exact (newlt_trans _ _ _ _ _ (newlt_weaken _ _ _ _ (newlt_trans _ _ _ _ _ N1 N2 L2) Lk) Nk (cnt_le_refl cc)).
    - eapply cnt_le_trans; [exact L1 | eapply cnt_le_trans; [exact L2 | exact Lk]].
  Qed.

  Lemma slotsForest_inv cs : forall v sn sma start acc smb total sn',
    SInv v sn sma start -> cnt_nonneg start ->
    wf_slot_forest st cs v sn = Some sn' ->
    slotsForest st cs sma start acc = (smb, total) ->
    SPost (slot_vis_forest cs v) sn sn' sma smb total /\ cnt_le acc total.
  Proof.
    induction cs as [|c r IH]; intros v sn sma start acc smb total sn' Iv NN Wf Af; simpl in *.
    - injection Wf as <-. injection Af as <- <-.
      split; [|apply cnt_le_refl].
      split; [apply sext_refl|]. split; [apply (s_glob _ _ _ _ Iv)|].
      split; [apply (s_seen _ _ _ _ Iv)|]. split; [auto|]. split; [constructor|].
      intros x k L _. left. exact L.
    - destruct (wf_slot_scope st c v sn) as [sn1|] eqn:Wc; [|discriminate].
      destruct (slotsHelper st c sma start) as [sm1' cc1] eqn:Ac.
      destruct (slotsHelper_inv c _ _ _ _ _ _ _ Iv NN Wc Ac) as ((Ec & Gc & Sc & SSc & Fc & Nc) & Lc).
      assert (Iv1 : SInv v sn1 sm1' start) by (eapply SInv_back; eauto).
      destruct (IH _ _ _ _ _ _ _ _ Iv1 NN Wf Af) as ((Er & Gr & Sr & SSr & Fr & Nr) & Lr).
      split.
      + split; [eapply sext_trans; eauto|]. split; [exact Gr|]. split; [exact Sr|].
        split; [auto|]. split.
        * apply Forall_app. split; [|exact Fr].
          eapply Forall_impl; [|exact Fc]. intros w Gw. exact (SGood_mono w sm1' smb Gw Er Gr).
        * eapply newlt_trans; [exact Nc | exact Nr |].
          eapply cnt_le_trans; [apply cnt_max_r | exact Lr].
      + eapply cnt_le_trans; [apply cnt_max_l | exact Lr].
  Qed.
End Slots.

Lemma lookup_top_map top r : In r top -> lookup (map (fun x => (x, 1)) top) r = Some 1.
Proof.
  induction top as [|x t IH]; simpl; [tauto|].
  intros [->|H]; [rewrite Nat.eqb_refl; reflexivity|].
  destruct (Nat.eqb r x); [reflexivity | apply IH; exact H].
Qed.
Lemma lookup_top_map_inv top r k : lookup (map (fun x => (x, 1)) top) r = Some k -> In r top.
Proof.
  induction top as [|x t IH]; simpl; [discriminate|].
  destruct (Nat.eqb r x) eqn:E; [apply Nat.eqb_eq in E; auto | auto].
Qed.

Lemma lookup_filter_top top (sm : slotmap) r :
  lookup (filter (fun p => negb (mem_nat (fst p) top)) sm) r =
  if mem_nat r top then None else lookup sm r.
Proof.
  induction sm as [|[x k] t IH]; simpl; [destruct (mem_nat r top); reflexivity|].
  destruct (mem_nat x top) eqn:Mx; simpl.
  - rewrite IH. destruct (Nat.eqb r x) eqn:E; [|reflexivity].
    apply Nat.eqb_eq in E. subst. rewrite Mx. reflexivity.
  - destruct (Nat.eqb r x) eqn:E; [|exact IH].
    apply Nat.eqb_eq in E. subst. rewrite Mx. reflexivity.
Qed.

(* ---- the statements used in Properties.v ---- *)
Lemma slots_distinct_on_chain_all st msc sm total :
  AssignNestedScopeSlots st msc = (sm, total) ->
  wf_slots st msc = true ->
  (forall v, In v (slot_vis_forest (sc_children msc) (module_top msc)) ->
     forall r1 r2 k1 k2, In r1 v -> In r2 v -> r1 <> r2 ->
       sy_ns (getsym st r1) = sy_ns (getsym st r2) ->
       lookup sm r1 = Some k1 -> lookup sm r2 = Some k2 -> k1 <> k2) /\
  (forall r k, lookup sm r = Some k -> 0 <= k < cnt_get total (sy_ns (getsym st r))) /\
  (forall r, In r (module_top msc) -> lookup sm r = None).
Proof.
  unfold AssignNestedScopeSlots, wf_slots. intros A W. fold (module_top msc) in A. set (top := module_top msc) in *.
  destruct (slotsForest st (sc_children msc) (map (fun r => (r, 1)) top) cnt_zero cnt_zero) as [sm1 tot] eqn:F.
  injection A as <- <-.
  destruct (wf_slot_forest st (sc_children msc) top top) as [seen'|] eqn:Wf; [|discriminate].
  assert (I0 : SInv st top top top (map (fun r => (r, 1)) top) cnt_zero).
  { split.
    - intros r k _ Nt L. apply lookup_top_map_inv in L. contradiction.
    - intros r k L. eapply lookup_top_map_inv; eauto.
    - auto.
    - intros r1 r2 k1 k2 _ _ T1 _ _ _ L1 _. apply lookup_top_map_inv in L1. contradiction.
    - intros r Hr L. rewrite lookup_top_map in L by exact Hr. discriminate.
    - split.
      + intros r Hr. rewrite lookup_top_map by exact Hr. discriminate.
      + intros r k L Nt. apply lookup_top_map_inv in L. contradiction. }
  assert (NN : cnt_nonneg cnt_zero) by (intros n; destruct n; simpl; lia).
  destruct (slotsForest_inv st top _ _ _ _ _ _ _ _ _ I0 NN Wf F) as ((E & G & S & SS & Fg & N) & L).
  split; [|split].
  - intros v Hv r1 r2 k1 k2 H1 H2 Nr Sn L1 L2.
    rewrite lookup_filter_top in L1, L2.
    destruct (mem_nat r1 top) eqn:M1; [discriminate|]. destruct (mem_nat r2 top) eqn:M2; [discriminate|].
    rewrite Forall_forall in Fg. destruct (Fg v Hv) as [_ Gd].
    apply (Gd r1 r2 k1 k2 H1 H2); auto.
    + intros T. apply mem_nat_In in T. congruence.
    + intros T. apply mem_nat_In in T. congruence.
  - intros r k Lr. rewrite lookup_filter_top in Lr. destruct (mem_nat r top) eqn:M; [discriminate|].
    assert (Nt : ~ In r top) by (intros T; apply mem_nat_In in T; congruence).
    destruct (N r k Lr Nt) as [L0|B]; [apply lookup_top_map_inv in L0; contradiction | exact B].
  - intros r Hr. rewrite lookup_filter_top. apply mem_nat_In in Hr. rewrite Hr. reflexivity.
Qed.
