(* Non-vacuity: concrete, non-trivial values meeting the hypotheses of every theorem. *)
From Coq Require Import String.
From V Require Import Common.Base C15.Names C15.Renamer C15.Spec C15.NamesProofs C15.MinifyProofs C15.ResolveProofs C15.ScopeBuild C15.ScopeProg C15.ScopeResolveProofs C15.MinifyResolveProofs C15.ComposeProofs C15.HoistedProofs C15.Harness.

Example minname_ex : map (NumberToMinifiedName default_minifier) [0; 1; 53; 54; 55; 54 + 54 * 64; 1000000]
  = [[97]; [98]; [36]; [97;97]; [98;97]; [97;97;97]; [67;118;71;100]].
Proof. vm_compute. reflexivity. Qed.

(* two files, both declare x at the top level; a nested function declares x and
   x2, a block below hoists v through two scopes, a free name x3 is reserved *)
Definition ex_syms : symtab := mk_symtab
  [(nm "x", 0, -1, false, 0, 0);   (* 0 top-level x, file 0 *)
   (nm "x3", 4, -1, false, 0, 1);  (* 1 unbound x3 *)
   (nm "x", 0, -1, false, 0, 2);   (* 2 nested x *)
   (nm "x2", 0, -1, false, 0, 3);  (* 3 nested x2 *)
   (nm "v", 0, -1, false, 0, 4);   (* 4 hoisted v: member of two nested scopes *)
   (nm "x", 0, -1, false, 1, 0);   (* 5 top-level x, file 1 *)
   (nm "y", 0, 0, false, 1, 1);    (* 6 import linked to symbol 0 *)
   (nm "#p", 2, -1, false, 1, 2);  (* 7 private name *)
   (nm "x", 0, -1, true, 1, 3);    (* 8 nested x used as JSX tag *)
   (nm "L", 1, -1, false, 1, 4)]%Z.  (* 9 label *)
Definition ex_nested : list scope :=
  [Scope [2; 3; 4]%nat [] None false [Scope [4]%nat [] None false []];
   Scope [7; 8]%nat [] None false [Scope [] [] (Some 9%nat) false []]].
Definition ex_reserved : list name := base_reserved ++ [nm "x3"].
Definition ex_top : list nat := [0; 5; 6]%nat.

Example number_ex_wf : wf_number ex_syms ex_top ex_nested = true.
Proof. vm_compute. reflexivity. Qed.
Example number_ex :
  match number_rename 100 ex_syms ex_reserved ex_top ex_nested with
  | Some names => map (number_name_for ex_syms names) (seq 0 10)
  | None => []
  end = [nm "x"; nm "x3"; nm "x4"; nm "x22"; nm "v"; nm "x2"; nm "x"; nm "#p"; nm "X"; nm "L"].
Proof. vm_compute. reflexivity. Qed.

Definition ex_module : scope := Scope [0; 1]%nat [] None false
  [Scope [2; 3; 4]%nat [] None false [Scope [4]%nat [] None false []]].
Example slots_ex_wf : wf_slots ex_syms ex_module = true.
Proof. vm_compute. reflexivity. Qed.
Example slots_ex : AssignNestedScopeSlots ex_syms ex_module = ([(4%nat, 2); (3%nat, 1); (2%nat, 0)], mkCnt 3 0 0 0).
Proof. vm_compute. reflexivity. Qed.

(* three default slots, the second needs a JSX capital; "a" and "A" are reserved *)
Example assign_ex :
  assign_sorted 100 default_minifier [nm "a"; nm "A"] NsDefault
    [mkSlot [] 5 false; mkSlot [] 9 true; mkSlot [] 1 false] [(1, 9); (0, 5); (2, 1)] 0
  = Some [(1, nm "B"); (0, nm "C"); (2, nm "D")].
Proof. vm_compute. reflexivity. Qed.
Example default_minifier_ok :
  NoDup (m_head default_minifier) /\ NoDup (m_tail default_minifier) /\
  1 <= zlen (m_head default_minifier) /\ 2 <= zlen (m_tail default_minifier).
Proof. split; [apply default_head_nodup | split; [apply default_tail_nodup | split; vm_compute; discriminate]]. Qed.

Example alloc_ex :
  ms_top (AllocateTopLevelSymbolSlots ex_syms (NewMinifyRenamer (mkCnt 3 0 0 0)) [(0, 0%nat, 2); (1, 5%nat, 1); (0, 0%nat, 4)])
  = [(5%nat, 4); (0%nat, 3)].
Proof. vm_compute. reflexivity. Qed.

Example export_ex :
  export_rename_all 100 [] [nm "x"; nm "x"; nm "x2"; nm "x"; nm "y"] = Some [nm "x"; nm "x2"; nm "x23"; nm "x3"; nm "y"].
Proof. vm_compute. reflexivity. Qed.

(* the look-alike case of ExportRenamer: a requested name equal to a generated one *)
Example export_lookalike_ex :
  export_rename_all 100 [] [nm "x"; nm "x"; nm "x2"] = Some [nm "x"; nm "x2"; nm "x23"].
Proof. vm_compute. reflexivity. Qed.

(* a chunk of two files: top-level x (file 0), x (file 1), a nested symbol in slot 0;
   first top-level slot 1; the whole minifier pipeline gives three different names *)
Example chunk_ex :
  match minify_rename 100 ex_syms [(2%nat, 0)] (mkCnt 1 0 0 0) [0; 1] ex_reserved default_minifier []
          [[(0%nat, 3); (2%nat, 1)]; [(5%nat, 2)]] with
  | Some m => map (minify_name_for ex_syms [(2%nat, 0)] m) [0%nat; 5%nat; 2%nat]
  | None => []
  end = [nm "a"; nm "b"; nm "c"].
Proof. vm_compute. reflexivity. Qed.

(* a symbol pinned in a nested scope that no direct eval reaches (e.g. referenced in `with`) is reserved *)
Definition ev_syms : symtab := mk_symtab [(nm "g", 4, -1, false, 0, 0); (nm "a", 4, -1, false, 0, 1); (nm "q", 0, -1, false, 0, 2)]%Z.
Definition ev_module : scope := Scope [0%nat] [] None false [Scope [1%nat] [] None false [Scope [2%nat] [] None false []]].
Example tree_decls_ex : tree_decls ev_module = [0%nat; 1%nat; 2%nat]
  /\ mem_name (nm "a") (ComputeReservedNames ev_syms [ev_module]) = true.
Proof. vm_compute. auto. Qed.

(* resolution on the innermost visibility list of the first nested tree of the number example:
   "x" resolves to the nested symbol 2 before, and its new name "x4" resolves to it after *)
Example resolve_ex :
  match number_rename 100 ex_syms ex_reserved ex_top ex_nested with
  | Some names =>
      let v := [4; 2; 3; 4; 0; 0; 5]%nat in
      (resolve v (fun t => sy_name (getsym ex_syms t)) (nm "x"),
       resolve v (number_name_for ex_syms names) (nm "x4"))
  | None => (None, None)
  end = (Some 2%nat, Some 2%nat).
Proof. vm_compute. reflexivity. Qed.

(* a module with x (0), y (1), free g (2 pinned); a function-args scope creating p and arguments,
   its body sharing p/arguments and creating v; a block in the body sharing v and creating a let *)
Definition sk_ex : sk :=
  Sk [(nm "x", NsDefault); (nm "y", NsDefault); (nm "g", NsPinned)] []
     [Sk [(nm "p", NsDefault); (nm "arguments", NsPinned)] []
         [Sk [(nm "v", NsDefault)] [nm "p"; nm "arguments"]
             [Sk [(nm "l", NsDefault)] [nm "v"] []]]].
Example build_sk_ex :
  fst (build_sk sk_ex) =
  Scope [0; 1; 2]%nat [] None false
    [Scope [3; 4]%nat [] None false
       [Scope [5; 3; 4]%nat [] None false [Scope [6; 5]%nat [] None false []]]].
Proof. vm_compute. reflexivity. Qed.

(* var hoisted out of a block and merged with the catch parameter; a function with a parameter
   re-declared by var; a free reference *)
Definition prog_ex : list stmt :=
  [STry [SVar (nm "v")] (Some (nm "e")) [SBlock [SVar (nm "e")]; SRef (nm "g")];
   SFunc (nm "f") [nm "p"] [SVar (nm "p"); SBlock [SLet (nm "l"); SVar (nm "w")]; SRef (nm "v")]].
Example parse_forest_ex :
  fst (parse_forest prog_ex) =
  Scope [0; 1; 2; 3]%nat [] None false            (* v e f g(free, pinned) *)
    [Scope [0]%nat [] None false [];               (* try block: var v *)
     Scope [1]%nat [] None false                   (* catch (e): the hoisted var e *)
       [Scope [] [] None false [Scope [1]%nat [] None false []]];
     Scope [4; 5]%nat [] None false                (* f's arguments scope: p arguments *)
       [Scope [6; 4; 5]%nat [] None false          (* body: w, p, arguments *)
          [Scope [7; 6]%nat [] None false []]]].   (* block: l, w *)
Proof. vm_compute. reflexivity. Qed.

(* the hypotheses of resolution_preserved_partial are met by prog_ex with "g" free and reserved:
   the renamer succeeds, and the references g (free) and v (module-level var, read inside f) resolve *)
Example resolution_ex :
  let '(m, st) := parse_forest prog_ex in
  match number_rename 100 st (ComputeReservedNames st [m]) (module_top m) (sc_children m) with
  | Some names => map (fun xE => env_get (rename_env (number_name_for st names) (snd xE))
                                         (match env_get (snd xE) (fst xE) with Some s => number_name_for st names s | None => []%list end))
                      (parser_refs prog_ex)
  | None => []
  end = [Some 3%nat; Some 0%nat].
Proof. vm_compute. reflexivity. Qed.

(* the inventory of hoisted import symbols is not empty (the obligation is not vacuous) *)
Example hoisted_inventory_ex : (3 <= length gen.C15HoistedImportsGen.gen_hoisted_declared)%nat.
Proof. exact hoisted_declared_nonempty. Qed.

(* the minifier on prog_ex: every symbol counted once; all renamable declarations get a slot,
   the pipeline succeeds, and both references resolve to their symbols under the new names *)
Example resolution_minify_ex :
  let '(m, st) := parse_forest prog_ex in
  let '(slots, total) := AssignNestedScopeSlots st m in
  match minify_rename 100 st slots total [0] (ComputeReservedNames st [m]) default_minifier []
          [map (fun i => (i, 1)) (seq 0 (length st))] with
  | Some m3 =>
      (forallb (fun r => ns_eqb (sy_ns (getsym st r)) NsPinned ||
                         match slot_of slots m3 r with Some _ => true | None => false end) (tree_decls m),
       map (fun xE => env_get (rename_env (minify_name_for st slots m3) (snd xE))
                              (match env_get (snd xE) (fst xE) with Some s => minify_name_for st slots m3 s | None => []%list end))
           (parser_refs prog_ex))
  | None => (false, [])
  end = (true, [Some 3%nat; Some 0%nat]).
Proof. vm_compute. reflexivity. Qed.
