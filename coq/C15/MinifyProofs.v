(* AssignNamesByFrequency: the slots of one name space receive pairwise
   distinct names; default names are never reserved (also for JSX-capital
   slots), label names never keywords, JSX names never start in a-z.
   AllocateTopLevelSymbolSlots: top-level slots lie above every nested slot.
   ExportRenamer: aliases are pairwise distinct. *)
From V Require Import Common.Base C15.Names C15.NamesProofs C15.Renamer C15.Spec C15.NumberProofs.

Lemma Forall2_impl' {A B} (P Q : A -> B -> Prop) l m :
  (forall a b, P a b -> Q a b) -> Forall2 P l m -> Forall2 Q l m.
Proof. intros H F. induction F; constructor; auto. Qed.

Lemma Forall2_in_l' {A B} (P : A -> B -> Prop) l m a :
  Forall2 P l m -> In a l -> exists b, In b m /\ P a b.
Proof.
  intros F. induction F as [|x y l m Pxy F IH]; intros I; [destruct I|].
  destruct I as [<-|I]; [exists y; split; [left; reflexivity | exact Pxy]|].
  destruct (IH I) as (b & Ib & Pb). exists b. split; [right; exact Ib | exact Pb].
Qed.

Section Pick.
  Variable mf : minifier.
  Hypothesis NDh : NoDup (m_head mf).
  Hypothesis NDt : NoDup (m_tail mf).
  Hypothesis Hh : 1 <= zlen (m_head mf).
  Hypothesis Ht : 2 <= zlen (m_tail mf).
  Variable reserved : list name.

  Lemma skip_while_spec fuel cond : forall nm next nm' next',
    skip_while fuel mf cond nm next = Some (nm', next') ->
    nm = NumberToMinifiedName mf (next - 1) ->
    nm' = NumberToMinifiedName mf (next' - 1) /\ next <= next' /\ cond nm' = false.
  Proof.
    induction fuel as [|f IH]; intros nm next nm' next' S E; simpl in S; [discriminate|].
    destruct (cond nm) eqn:C.
    - apply IH in S.
      + destruct S as (E' & L & C'). split; [exact E' | split; [lia | exact C']].
      + f_equal. lia.
    - injection S as <- <-. split; [exact E | split; [lia | exact C]].
  Qed.

  Definition prefix_of (nsr : ns) : name := match nsr with NsPrivate => [35] | _ => [] end.

  Definition name_ok (nsr : ns) (jsx : bool) (nm : name) : Prop :=
    (nsr = NsDefault -> ~ In nm reserved) /\
    (nsr = NsDefault -> jsx = true -> starts_lower nm = false) /\
    (nsr = NsLabel -> ~ In nm keywords).

  Lemma pick_name_spec fuel nsr jsx next nm next' :
    pick_name fuel mf reserved nsr jsx next = Some (nm, next') ->
    nm = prefix_of nsr ++ NumberToMinifiedName mf (next' - 1) /\ next < next' /\ name_ok nsr jsx nm.
  Proof.
    unfold pick_name, name_ok. intros P.
    assert (E0 : NumberToMinifiedName mf next = NumberToMinifiedName mf (next + 1 - 1)) by (f_equal; lia).
    destruct nsr; cbn [prefix_of app].
    - destruct (skip_while fuel mf (fun n => mem_name n reserved) _ (next + 1)) as [[nm1 next1]|] eqn:S1; [|discriminate].
      apply skip_while_spec in S1; [|exact E0]. destruct S1 as (E1 & L1 & C1).
      destruct jsx.
      + apply skip_while_spec in P; [|exact E1]. destruct P as (E2 & L2 & C2).
        apply orb_false_iff in C2 as [C2a C2b].
        split; [exact E2 | split; [lia|]]. split; [|split]; intros; try discriminate; auto.
        apply mem_name_false. exact C2b.
      + injection P as <- <-. split; [exact E1 | split; [lia|]].
        split; [|split]; intros; try discriminate. apply mem_name_false. exact C1.
    - apply skip_while_spec in P; [|exact E0]. destruct P as (E1 & L1 & C1).
      split; [exact E1 | split; [lia|]]. split; [|split]; intros; try discriminate.
      apply mem_name_false. exact C1.
    - injection P as <- <-. split; [f_equal; f_equal; lia | split; [lia|]].
      split; [|split]; intros; discriminate.
    - injection P as <- <-. split; [f_equal; lia | split; [lia|]].
      split; [|split]; intros; discriminate.
    - injection P as <- <-. split; [f_equal; lia | split; [lia|]].
      split; [|split]; intros; discriminate.
  Qed.

  Lemma prefixed_inj nsr i j : 0 <= i -> 0 <= j ->
    prefix_of nsr ++ NumberToMinifiedName mf i = prefix_of nsr ++ NumberToMinifiedName mf j -> i = j.
  Proof.
    intros Hi Hj E. apply app_inv_head in E. eapply minified_name_inj; eauto.
  Qed.

  (* every pair of the assignment carries the index it was generated from *)
  Lemma assign_sorted_spec fuel nsr slots : forall sorted next asg,
    assign_sorted fuel mf reserved nsr slots sorted next = Some asg ->
    0 <= next ->
    map fst asg = map fst sorted /\
    Forall2 (fun (p : Z * name) (s : Z * Z) =>
               exists j, next <= j /\ snd p = prefix_of nsr ++ NumberToMinifiedName mf j /\
                         name_ok nsr (sl_jsx (nth (Z.to_nat (fst s)) slots empty_slot)) (snd p)) asg sorted /\
    NoDup (map snd asg).
  Proof.
    induction sorted as [|[i c] rest IH]; intros next asg A N; simpl in A.
    - injection A as <-. split; [reflexivity | split; constructor].
    - destruct (pick_name fuel mf reserved nsr _ next) as [[nm next']|] eqn:P; [|discriminate].
      destruct (assign_sorted fuel mf reserved nsr slots rest next') as [l|] eqn:R; [|discriminate].
      injection A as <-.
      apply pick_name_spec in P as (E & L & OK).
      destruct (IH _ _ R ltac:(lia)) as (F & F2 & ND).
      split; [simpl; f_equal; exact F | split].
      + constructor.
        * exists (next' - 1). simpl. split; [lia | split; [exact E | exact OK]].
        * eapply Forall2_impl'; [|exact F2]. intros p s (j & Lj & Ej & Oj). exists j. split; [lia | auto].
      + simpl. constructor; [|exact ND].
        intros I. apply in_map_iff in I as ((i2 & nm2) & E2 & I2). simpl in E2. subst nm2.
        destruct (Forall2_in_l' _ _ _ _ F2 I2) as (s & _ & j & Lj & Ej & _). simpl in Ej.
        rewrite E in Ej. apply prefixed_inj in Ej; lia.
  Qed.
End Pick.

(* ---- AllocateTopLevelSymbolSlots ---- *)
Lemma upd_nth_length {A} (l : list A) i f : length (upd_nth l i f) = length l.
Proof. revert i. induction l as [|x r IH]; intros [|i]; simpl; auto. Qed.

Lemma ms_slots_set_same m n l : n <> NsPinned -> ms_slots (ms_set_slots m n l) n = l.
Proof. destruct n; simpl; auto. contradiction. Qed.
Lemma ms_slots_set_other m n n' l : n <> n' -> ms_slots (ms_set_slots m n l) n' = ms_slots m n'.
Proof. destruct n, n'; simpl; auto; contradiction. Qed.
Lemma ms_top_set m n l : ms_top (ms_set_slots m n l) = ms_top m.
Proof. destruct n; reflexivity. Qed.

Definition slen (m : mstate) (n : ns) : Z := Z.of_nat (length (ms_slots m n)).

Section Alloc.
  Variable st : symtab.
  Variable first : ns -> Z.
  Definition nsx (r : nat) : ns := sy_ns (getsym st r).

  Record TopInv (m : mstate) : Prop := {
    t_range : forall r i, lookup (ms_top m) r = Some i -> first (nsx r) <= i < slen m (nsx r);
    t_dist : forall r1 r2 i, r1 <> r2 -> nsx r1 = nsx r2 ->
               lookup (ms_top m) r1 = Some i -> lookup (ms_top m) r2 = Some i -> False;
    t_first : forall n, first n <= slen m n
  }.

  Lemma ns_dec (a b : ns) : {a = b} + {a <> b}.
  Proof. decide equality. Qed.

  Lemma alloc_step m (e : ssc) :
    TopInv m -> nsx (snd (fst e)) <> NsPinned ->
    TopInv (AllocateTopLevelSymbolSlots st m [e]).
  Proof.
    intros I NP. destruct e as [[s r] count]. simpl in *. fold (nsx r).
    destruct (lookup (ms_top m) r) as [i|] eqn:L.
    - (* existing slot: only a count changes *)
      set (l' := upd_nth (ms_slots m (nsx r)) (Z.to_nat i) _).
      assert (SL : forall n, slen (ms_set_slots m (nsx r) l') n = slen m n).
      { intros n. unfold slen. destruct (ns_dec (nsx r) n) as [<-|N].
        - rewrite ms_slots_set_same by exact NP. unfold l'. rewrite upd_nth_length. reflexivity.
        - rewrite ms_slots_set_other by exact N. reflexivity. }
      split.
      + intros x j. rewrite ms_top_set, SL. apply (t_range _ I).
      + intros r1 r2 j. rewrite ms_top_set. apply (t_dist _ I).
      + intros n. rewrite SL. apply (t_first _ I).
    - set (l' := ms_slots m (nsx r) ++ _).
      set (m' := ms_set_slots m (nsx r) l').
      assert (SLs : slen m' (nsx r) = slen m (nsx r) + 1).
      { unfold slen, m'. rewrite ms_slots_set_same by exact NP. unfold l'. rewrite app_length. simpl. lia. }
      assert (SLo : forall n, n <> nsx r -> slen m' n = slen m n).
      { intros n N. unfold slen, m'. rewrite ms_slots_set_other by auto. reflexivity. }
      assert (SLle : forall n, slen m n <= slen m' n).
      { intros n. destruct (ns_dec n (nsx r)) as [->|N]; [lia | rewrite SLo by exact N; lia]. }
      assert (TT : ms_top m' = ms_top m) by (unfold m'; apply ms_top_set).
      assert (SLeq : forall n, slen (mkM (ms_default m') (ms_label m') (ms_private m') (ms_mangled m')
                                        ((r, Z.of_nat (length (ms_slots m (nsx r)))) :: ms_top m')) n = slen m' n).
      { intros n. destruct n; reflexivity. }
      split.
      + intros x j. cbn [ms_top]. rewrite SLeq. destruct (Nat.eq_dec x r) as [->|N].
        * rewrite lookup_cons_eq. intros X. injection X as <-. fold (slen m (nsx r)).
          pose proof (t_first _ I (nsx r)). lia.
        * rewrite lookup_cons_neq by exact N. rewrite TT. intros X.
          pose proof (t_range _ I x j X). pose proof (SLle (nsx x)). lia.
      + intros r1 r2 j N S. cbn [ms_top]. rewrite TT.
        destruct (Nat.eq_dec r1 r) as [->|N1]; destruct (Nat.eq_dec r2 r) as [->|N2]; try congruence.
        * rewrite lookup_cons_eq, lookup_cons_neq by exact N2. intros X Y. injection X as <-.
          pose proof (t_range _ I r2 _ Y) as B. rewrite <- S in B. unfold slen in B. lia.
        * rewrite lookup_cons_eq, lookup_cons_neq by exact N1. intros X Y. injection Y as <-.
          pose proof (t_range _ I r1 _ X) as B. rewrite S in B. unfold slen in B. lia.
        * rewrite !lookup_cons_neq by assumption. apply (t_dist _ I); assumption.
      + intros n. rewrite SLeq. pose proof (t_first _ I n). pose proof (SLle n). lia.
  Qed.

  Lemma alloc_cons m e tops :
    AllocateTopLevelSymbolSlots st m (e :: tops) =
    AllocateTopLevelSymbolSlots st (AllocateTopLevelSymbolSlots st m [e]) tops.
  Proof. reflexivity. Qed.

  Lemma alloc_all tops : forall m,
    TopInv m -> Forall (fun e : ssc => nsx (snd (fst e)) <> NsPinned) tops ->
    TopInv (AllocateTopLevelSymbolSlots st m tops).
  Proof.
    induction tops as [|e rest IH]; intros m I F; [exact I|].
    rewrite alloc_cons. inversion F as [|? ? Fe Fr]; subst.
    apply IH; [apply alloc_step; assumption | exact Fr].
  Qed.
End Alloc.

Lemma repeat_len {A} (x : A) n : length (repeat x n) = n.
Proof. apply repeat_length. Qed.

Lemma top_level_slots_above_nested_all st firstc tops :
  0 <= c_default firstc -> 0 <= c_label firstc -> 0 <= c_private firstc -> 0 <= c_mangled firstc ->
  Forall (fun e : ssc => sy_ns (getsym st (snd (fst e))) <> NsPinned) tops ->
  let m := AllocateTopLevelSymbolSlots st (NewMinifyRenamer firstc) tops in
  (forall r i, lookup (ms_top m) r = Some i -> cnt_get firstc (sy_ns (getsym st r)) <= i < slen m (sy_ns (getsym st r))) /\
  (forall r1 r2 i, r1 <> r2 -> sy_ns (getsym st r1) = sy_ns (getsym st r2) ->
     lookup (ms_top m) r1 = Some i -> lookup (ms_top m) r2 = Some i -> False).
Proof.
  intros H0 H1 H2 H3 F m.
  assert (I0 : TopInv st (cnt_get firstc) (NewMinifyRenamer firstc)).
  { split.
    - intros r i L. discriminate.
    - intros r1 r2 i _ _ L. discriminate.
    - intros n. unfold slen, NewMinifyRenamer. destruct n; simpl; rewrite ?repeat_len; lia. }
  pose proof (alloc_all st (cnt_get firstc) tops _ I0 F) as I.
  split; [apply (t_range _ _ _ I) | apply (t_dist _ _ _ I)].
Qed.

(* ---- ExportRenamer ---- *)
Lemma export_loop_fresh fuel used prefix : forall tries nm t,
  export_loop fuel used prefix tries = Some (nm, t) -> nm_has used nm = false.
Proof.
  induction fuel as [|f IH]; intros tries nm t E; simpl in E; [discriminate|].
  destruct (nm_has used (prefix ++ itoa (tries + 1))) eqn:H; [eapply IH; eauto|].
  injection E as <- _. exact H.
Qed.

Lemma NextRenamedName_spec fuel used n nm used' :
  NextRenamedName fuel used n = Some (nm, used') ->
  nm_has used nm = false /\ nm_has used' nm = true /\ (forall k, nm_has used k = true -> nm_has used' k = true).
Proof.
  unfold NextRenamedName. destruct (nm_get used n) as [tries|] eqn:G.
  - destruct (export_loop fuel used n tries) as [[nm1 t]|] eqn:L; [|discriminate].
    intros X. injection X as <- <-. apply export_loop_fresh in L.
    split; [exact L | split; [apply nm_has_set; auto | intros k Hk; apply nm_has_set; auto]].
  - intros X. injection X as <- <-.
    split; [unfold nm_has; rewrite G; reflexivity | split; [apply nm_has_set; auto | intros k Hk; apply nm_has_set; auto]].
Qed.

Lemma export_rename_all_spec fuel l : forall used out,
  export_rename_all fuel used l = Some out ->
  NoDup out /\ (forall nm, In nm out -> nm_has used nm = false) /\ length out = length l.
Proof.
  induction l as [|n rest IH]; intros used out E; simpl in E.
  - injection E as <-. split; [constructor | split; [intros nm [] | reflexivity]].
  - destruct (NextRenamedName fuel used n) as [[nm used']|] eqn:N; [|discriminate].
    destruct (export_rename_all fuel used' rest) as [o|] eqn:R; [|discriminate].
    injection E as <-. apply NextRenamedName_spec in N as (N1 & N2 & N3).
    destruct (IH _ _ R) as (ND & Fr & Len).
    split; [|split].
    + constructor; [|exact ND]. intros I. apply Fr in I. congruence.
    + intros k [<-|I]; [exact N1|]. apply Fr in I.
      destruct (nm_has used k) eqn:H; [apply N3 in H; congruence | reflexivity].
    + simpl. rewrite Len. reflexivity.
Qed.

Lemma NextMinifiedName_inj c1 c2 : 0 <= c1 -> 0 <= c2 ->
  fst (NextMinifiedName c1) = fst (NextMinifiedName c2) -> c1 = c2.
Proof.
  unfold NextMinifiedName. simpl. intros H1 H2 E.
  eapply (minified_name_inj default_minifier); eauto.
  - apply default_head_nodup.
  - apply default_tail_nodup.
  - vm_compute. discriminate.
  - vm_compute. discriminate.
Qed.
