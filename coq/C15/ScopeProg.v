(* C15 model, part 4: from a binding-form AST to the scope skeleton, mirroring
   js_parser (strict-mode code, i.e. ES modules and class bodies):
     pushScopeForParsePass   block / catch-binding / function-args / function-body scopes,
                             parameters (and `arguments`) copied down into the body scope
     declareSymbol           one canonical symbol per name and scope (var/var, var/function,
                             parameter/var of one name merge)
     hoistSymbols            a `var` in a block is the symbol of the enclosing function or
                             module scope (member of the declaring block and of that scope,
                             not of the blocks in between); a catch parameter merges with a
                             `var` of its name hoisted through the catch scope; block-level
                             functions stay in their block (strict mode)
     findSymbol              references that no scope on the chain declares become unbound
                             (pinned) symbols of the module scope
   The correspondence run compares the forest numbered from this skeleton with
   the forest js_parser.Parse builds for the printed program, up to the names of
   symbol numbers (after following links).  Executable definitions only. *)
From V Require Import Common.Base C15.Names C15.Renamer C15.ScopeBuild.

Inductive stmt :=
| SVar (x : name)                                   (* var x *)
| SLet (x : name)                                   (* let / const / class x *)
| SRef (x : name)                                   (* an identifier reference *)
| SBlock (b : list stmt)                            (* { b } *)
| STry (b : list stmt) (p : option name) (c : list stmt)    (* try { b } catch (p) { c } *)
| SForLet (x : name) (b : list stmt)                (* for (let x = 0; x < 1; x++) { b } *)
| SFunc (f : name) (ps : list name) (b : list stmt) (* function f(ps) { b } *)
| SFuncExpr (self : option name) (ps : list name) (b : list stmt)   (* (function self(ps) { b }) *)
| SArrow (ps : list name) (b : list stmt)           (* ((ps) => { b }) *)
| SEval                                             (* eval("") : a direct eval *)
| SWith (b : list stmt).                            (* with ({}) { b }   (sloppy scripts only) *)

Fixpoint dedup (l : list name) : list name :=
  match l with
  | [] => []
  | x :: r => if mem_name x r then dedup r else x :: dedup r
  end.
Definition minus (l m : list name) : list name := filter (fun x => negb (mem_name x m)) l.

(* VarDeclaredNames of a statement list: `var` names, through blocks, try/catch
   and for bodies, not into functions *)
Fixpoint var_names (s : stmt) : list name :=
  match s with
  | SVar x => [x]
  | SBlock b => flat_map var_names b
  | STry b _ c => flat_map var_names b ++ flat_map var_names c
  | SForLet _ b => flat_map var_names b
  | SWith b => flat_map var_names b
  | _ => []
  end.
(* names declared directly in a statement list *)
Definition direct_var (s : stmt) : list name := match s with SVar x => [x] | _ => [] end.
Definition direct_lex (s : stmt) : list name := match s with SLet x => [x] | _ => [] end.
Definition direct_fun (s : stmt) : list name := match s with SFunc f _ _ => [f] | _ => [] end.
Definition eval_name : name := [101; 118; 97; 108].
Definition direct_refs (s : stmt) : list name := match s with SRef x => [x] | SEval => [eval_name] | _ => [] end.
(* two facts about a scope travel in its [shared] list as pseudo-names that are no
   identifiers (so they never resolve and never become members): the scope is the body
   scope of a `with`; the scope's own statement list contains a direct eval *)
Definition with_marker : name := [37; 119].
Definition eval_marker : name := [37; 101].
Definition eval_mark (b : list stmt) : list name :=
  if existsb (fun s => match s with SEval => true | _ => false end) b then [eval_marker] else [].

(* skeleton with the references made in each scope *)
Inductive psk := PSk (fresh : list (name * ns)) (shared : list name) (refs : list name) (children : list psk).

Definition dflt (l : list name) : list (name * ns) := map (fun x => (x, NsDefault)) l.
Definition arguments_name : name := [97; 114; 103; 117; 109; 101; 110; 116; 115].

Definition block_with (rec : stmt -> list psk) (b : list stmt) : psk :=
  PSk (dflt (dedup (flat_map direct_lex b ++ flat_map direct_fun b)))
      (dedup (flat_map direct_var b) ++ eval_mark b)
      (flat_map direct_refs b)
      (flat_map rec b).

Definition fn_with (rec : stmt -> list psk) (self : option name) (ps : list name) (has_arguments : bool)
           (b : list stmt) : psk :=
  let params := dedup ps in
  let selfn := match self with Some f => if mem_name f params then [] else [f] | None => [] end in
  let args := if has_arguments && negb (mem_name arguments_name params) then [arguments_name] else [] in
  let copied := params ++ args in
  let own := minus (dedup (flat_map var_names b ++ flat_map direct_fun b ++ flat_map direct_lex b)) copied in
  PSk (dflt selfn ++ dflt params ++ map (fun x => (x, NsPinned)) args) [] []
      [PSk (dflt own) (copied ++ eval_mark b) (flat_map direct_refs b) (flat_map rec b)].

Fixpoint scopes_of (s : stmt) : list psk :=
  match s with
  | SVar _ | SLet _ | SRef _ | SEval => []
  | SWith b => [PSk [] [with_marker] [] [block_with scopes_of b]]
  | SBlock b => [block_with scopes_of b]
  | STry b p c =>
      block_with scopes_of b ::
      match p with
      | None => [PSk [] [] [] [block_with scopes_of c]]   (* the catch-binding scope exists without a binding too *)
      | Some e =>
          (* the catch parameter merges with a var of its name hoisted out of the catch body *)
          if mem_name e (flat_map var_names c)
          then [PSk [] [e] [] [block_with scopes_of c]]
          else [PSk (dflt [e]) [] [] [block_with scopes_of c]]
      end
  | SForLet x b => [PSk (dflt [x]) [] [] [block_with scopes_of b]]
  | SFunc _ ps b => [fn_with scopes_of None ps true b]
  | SFuncExpr self ps b => [fn_with scopes_of self ps true b]
  | SArrow ps b => [fn_with scopes_of None ps false b]
  end.

(* the module scope of a program (a statement list) *)
Definition module_psk (prog : list stmt) : psk :=
  PSk (dflt (dedup (flat_map var_names prog ++ flat_map direct_fun prog ++ flat_map direct_lex prog)))
      (eval_mark prog) (flat_map direct_refs prog) (flat_map scopes_of prog).

(* references that no scope on the chain declares: unbound symbols of the module scope *)
Fixpoint free_in (visible : list name) (k : psk) : list name :=
  match k with
  | PSk fresh shared refs ch =>
      let vis := map fst fresh ++ shared ++ visible in
      minus refs vis ++
      (fix go (cs : list psk) : list name :=
         match cs with [] => [] | c :: r => free_in vis c ++ go r end) ch
  end.

Fixpoint erase (k : psk) : sk :=
  match k with
  | PSk fresh shared _ ch => Sk fresh shared (map erase ch)
  end.

(* ---- pinning (MustNotBeRenamed) ----
   popScope: every member of a scope that contains a direct eval - itself or in a
   nested scope - is pinned.  findSymbol: a reference that passes the body scope of
   a `with` before it finds its symbol pins that symbol.  A reference travels up
   as (name, passed a with?, found?): a scope that lists the name as shared has
   found it (the symbol is an outer scope's, but the walk ends here), a scope that
   creates it consumes the record. *)
Fixpoint has_eval (k : psk) : bool :=
  match k with
  | PSk _ shared _ ch =>
      mem_name eval_marker shared ||
      (fix go (cs : list psk) : bool := match cs with [] => false | c :: r => has_eval c || go r end) ch
  end.

Definition travel := (name * bool * bool)%type.

Definition step_records (iswith : bool) (fresh shared : list name) (recs : list travel) : list name * list travel :=
  fold_right (fun (t : travel) acc =>
                let '(x, w, fz) := t in
                let w' := if fz then w else w || iswith in
                if mem_name x fresh then ((if w' then [x] else []) ++ fst acc, snd acc)
                else if mem_name x shared then (fst acc, (x, w', true) :: snd acc)
                else (fst acc, (x, w', fz) :: snd acc))
             ([], []) recs.

Fixpoint pin_psk (k : psk) : psk * list travel :=
  match k with
  | PSk fresh shared refs ch =>
      let '(ch', below) :=
        (fix go (cs : list psk) : list psk * list travel :=
           match cs with
           | [] => ([], [])
           | c :: r => let '(c', t1) := pin_psk c in let '(r', t2) := go r in (c' :: r', t1 ++ t2)
           end) ch in
      let incoming := map (fun x => (x, false, false)) refs ++ below in
      let '(pinned, out) := step_records (mem_name with_marker shared) (map fst fresh) shared incoming in
      let all := has_eval k in
      (* hoistSymbols (as fixed in bc60627): a `var` hoisted out of its scope past a `with`
         body pins the symbol it ends up as, also when it is merged into an existing one:
         every shared name starts travelling at the parent scope like a reference *)
      let hoisted := map (fun x => (x, false, false))
                         (filter (fun x => negb (name_eqb x with_marker || name_eqb x eval_marker)) shared) in
      (PSk (map (fun p => (fst p, if all || mem_name (fst p) pinned then NsPinned else snd p)) fresh) shared refs ch',
       out ++ hoisted)
  end.

(* the module skeleton with its free names, pinned, still carrying the references *)
Definition closed_psk (prog : list stmt) : psk :=
  match module_psk prog with
  | PSk fresh shared refs ch =>
      fst (pin_psk (PSk (fresh ++ map (fun x => (x, NsPinned)) (dedup (free_in [] (PSk fresh shared refs ch)))) shared refs ch))
  end.

Definition skel_of_prog (prog : list stmt) : sk := erase (closed_psk prog).

(* the forest and symbol table js_parser builds, up to symbol numbering *)
Definition parse_forest (prog : list stmt) : scope * symtab := build_sk (skel_of_prog prog).

(* ---- how the parser binds the references: the environment (name -> symbol,
   innermost first) at the scope of every reference, computed with the same
   numbering as ScopeBuild.number_sk ---- *)
Fixpoint psk_size (k : psk) : nat :=
  match k with
  | PSk fresh _ _ ch =>
      (length fresh + (fix go (cs : list psk) : nat := match cs with [] => 0 | c :: r => psk_size c + go r end) ch)%nat
  end.
Fixpoint forest_size (cs : list psk) : nat :=
  match cs with [] => 0%nat | c :: r => (psk_size c + forest_size r)%nat end.

Fixpoint refs_of (env : env_t) (k : psk) (n : nat) : list (name * env_t) :=
  match k with
  | PSk fresh shared refs ch =>
      let env' := combine (map fst fresh) (seq n (length fresh)) ++ env in
      map (fun x => (x, env')) refs ++
      (fix go (cs : list psk) (n : nat) : list (name * env_t) :=
         match cs with
         | [] => []
         | c :: r => refs_of env' c n ++ go r (n + psk_size c)%nat
         end) ch (n + length fresh)%nat
  end.

Definition parser_refs (prog : list stmt) : list (name * env_t) := refs_of [] (closed_psk prog) 0.
