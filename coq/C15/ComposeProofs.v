(* Composition: slot -> name.  The names AssignNamesByFrequency stores in the
   slots of one name space are pairwise distinct per slot index, hence
   (i) symbols visible together in nested scopes, (ii) two top-level symbols of
   a chunk (all files merged), (iii) a top-level and a nested symbol, never
   share a minified name.  Also: the number renamer gives distinct names to
   distinct top-level symbols of a chunk. *)
From V Require Import Common.Base C15.Names C15.NamesProofs C15.Renamer C15.Spec
  C15.NumberProofs C15.SlotsProofs C15.MinifyProofs.
From Coq Require Import Permutation.

(* ---- sac_sort is a permutation; sac_array enumerates the slot indices ---- *)
Lemma sac_insert_perm x l : Permutation (sac_insert x l) (x :: l).
Proof.
  induction l as [|y r IH]; simpl; [apply Permutation_refl|].
  destruct (sac_less y x); [|apply Permutation_refl].
  eapply Permutation_trans; [apply perm_skip, IH | apply perm_swap].
Qed.
Lemma sac_sort_perm l : Permutation (sac_sort l) l.
Proof.
  induction l as [|x r IH]; simpl; [constructor|].
  eapply Permutation_trans; [apply sac_insert_perm | apply perm_skip, IH].
Qed.

Lemma sac_array_fst_in l : forall k i, In i (map fst (sac_array l k)) <-> k <= i < k + Z.of_nat (length l).
Proof.
  induction l as [|s r IH]; intros k i; simpl; [lia|].
  rewrite IH. lia.
Qed.

Lemma zlookup_in asg i : In i (map fst asg) -> In (i, zlookup asg i) asg.
Proof.
  unfold zlookup. induction asg as [|[j n] r IH]; simpl; [tauto|].
  intros H. destruct (j =? i) eqn:E.
  - apply Z.eqb_eq in E. subst. left. reflexivity.
  - right. apply IH. destruct H as [H|H]; [apply Z.eqb_neq in E; contradiction | exact H].
Qed.

Lemma NoDup_snd_inj (asg : list (Z * name)) i1 i2 n :
  NoDup (map snd asg) -> In (i1, n) asg -> In (i2, n) asg -> i1 = i2.
Proof.
  induction asg as [|[j m] r IH]; simpl; intros ND H1 H2; [tauto|].
  inversion ND as [|? ? NI ND']; subst.
  destruct H1 as [H1|H1]; destruct H2 as [H2|H2].
  - congruence.
  - injection H1 as -> ->. exfalso. apply NI. apply in_map_iff. exists (i2, n). auto.
  - injection H2 as -> ->. exfalso. apply NI. apply in_map_iff. exists (i1, n). auto.
  - apply IH; auto.
Qed.

(* the slot list written back: position i carries the name looked up for index k + i *)
Lemma out_nth asg (slots : list slot) : forall k i s,
  nth_error (map (fun p => mkSlot (zlookup asg (fst p)) (sl_count (snd p)) (sl_jsx (snd p)))
                 (combine (map fst (sac_array slots k)) slots)) i = Some s ->
  sl_name s = zlookup asg (k + Z.of_nat i) /\ (i < length slots)%nat.
Proof.
  induction slots as [|x r IH]; intros k i s H; simpl in H.
  - destruct i; discriminate.
  - destruct i as [|i]; simpl in H.
    + injection H as <-. simpl. split; [f_equal; lia | lia].
    + apply IH in H as [H1 H2]. split; [rewrite H1; f_equal; lia | simpl; lia].
Qed.

Lemma out_length asg (slots : list slot) k :
  length (map (fun p => mkSlot (zlookup asg (fst p)) (sl_count (snd p)) (sl_jsx (snd p)))
              (combine (map fst (sac_array slots k)) slots)) = length slots.
Proof.
  rewrite map_length, combine_length, map_length.
  assert (length (sac_array slots k) = length slots).
  { revert k. induction slots as [|x r IH]; intros k; simpl; [reflexivity | rewrite IH; reflexivity]. }
  lia.
Qed.

Lemma F2_same_fst (P : Z * name -> Z * Z -> Prop) l m :
  Forall2 P l m -> map fst l = map fst m ->
  Forall (fun p => exists s, fst s = fst p /\ P p s) l.
Proof.
  induction 1 as [|p s l m Pps F IH]; intros E; [constructor|].
  simpl in E. injection E as E1 E2. constructor; [exists s; split; [symmetry; exact E1 | exact Pps] | apply IH; exact E2].
Qed.

Section Compose.
  Variable mf : minifier.
  Hypothesis NDh : NoDup (m_head mf).
  Hypothesis NDt : NoDup (m_tail mf).
  Hypothesis Hh : 1 <= zlen (m_head mf).
  Hypothesis Ht : 2 <= zlen (m_tail mf).
  Variable reserved : list name.

  Definition slot_name (l : list slot) (i : Z) : name := sl_name (nth (Z.to_nat i) l empty_slot).

  Lemma names_for_ns_spec fuel nsr slots out :
    names_for_ns fuel mf reserved nsr slots = Some out ->
    length out = length slots /\
    (forall i1 i2, 0 <= i1 < Z.of_nat (length slots) -> 0 <= i2 < Z.of_nat (length slots) -> i1 <> i2 ->
       slot_name out i1 <> slot_name out i2) /\
    (forall i, 0 <= i < Z.of_nat (length slots) ->
       name_ok reserved nsr (sl_jsx (nth (Z.to_nat i) slots empty_slot)) (slot_name out i)).
  Proof.
    unfold names_for_ns. intros H.
    destruct (assign_sorted fuel mf reserved nsr slots (sac_sort (sac_array slots 0)) 0) as [asg|] eqn:A; [|discriminate].
    injection H as <-.
    destruct (assign_sorted_spec mf NDh NDt Hh Ht reserved fuel nsr slots _ _ _ A ltac:(lia)) as (F & F2 & ND).
    assert (InFst : forall i, 0 <= i < Z.of_nat (length slots) -> In i (map fst asg)).
    { intros i Hi. rewrite F.
      eapply Permutation_in; [apply Permutation_sym, Permutation_map, sac_sort_perm|].
      apply sac_array_fst_in. lia. }
    assert (Nm : forall i, 0 <= i < Z.of_nat (length slots) ->
              slot_name (map (fun p => mkSlot (zlookup asg (fst p)) (sl_count (snd p)) (sl_jsx (snd p)))
                             (combine (map fst (sac_array slots 0)) slots)) i = zlookup asg i).
    { intros i Hi. unfold slot_name.
      set (out := map _ _).
      destruct (nth_error out (Z.to_nat i)) as [s|] eqn:E.
      - rewrite (nth_error_nth _ _ _ E). apply out_nth in E as [E _]. rewrite E. f_equal. lia.
      - apply nth_error_None in E. unfold out in E. rewrite out_length in E. lia. }
    split; [apply out_length | split].
    - intros i1 i2 H1 H2 N. rewrite !Nm by assumption. intros E.
      apply N. eapply NoDup_snd_inj; [exact ND | apply zlookup_in, InFst, H1 |].
      rewrite E. apply zlookup_in, InFst, H2.
    - intros i Hi. rewrite Nm by exact Hi.
      pose proof (zlookup_in asg i (InFst i Hi)) as I.
      pose proof (F2_same_fst _ _ _ F2 F) as FA. rewrite Forall_forall in FA.
      destruct (FA _ I) as (sx & Es & k & _ & _ & OK). simpl in Es. rewrite Es in OK. exact OK.
  Qed.
End Compose.

(* ---- the accumulate phase changes counts only ---- *)
Lemma ssc_insert_perm st x l : Permutation (ssc_insert st x l) (x :: l).
Proof.
  induction l as [|y r IH]; simpl; [apply Permutation_refl|].
  destruct (ssc_less st x y); [apply Permutation_refl|].
  eapply Permutation_trans; [apply perm_skip, IH | apply perm_swap].
Qed.
Lemma ssc_sort_perm st l : Permutation (ssc_sort st l) l.
Proof.
  induction l as [|x r IH]; simpl; [constructor|].
  eapply Permutation_trans; [apply ssc_insert_perm | apply perm_skip, IH].
Qed.

Definition nonpinned (st : symtab) (e : ssc) : Prop := sy_ns (getsym st (snd (fst e))) <> NsPinned.

Lemma accumulate_unfold st slots stable m tops r0 count :
  AccumulateSymbolCount st slots stable (m, tops) (r0, count) =
  let r := follow st r0 in
  let sym := getsym st r in
  if ns_eqb (sy_ns sym) NsPinned then (m, tops)
  else match lookup slots r with
       | Some i =>
           (ms_set_slots m (sy_ns sym)
              (upd_nth (ms_slots m (sy_ns sym)) (Z.to_nat i)
                 (fun s => mkSlot (sl_name s) (sl_count s + count) (sl_jsx s || sy_jsx sym))), tops)
       | None => (m, tops ++ [(nth (Z.to_nat (sy_src sym)) stable 0, r, count)])
       end.
Proof. unfold AccumulateSymbolCount. simpl. destruct (sy_ns (getsym st (follow st r0))); reflexivity. Qed.

Lemma accumulate_one st slots stable m tops use m' tops' :
  AccumulateSymbolCount st slots stable (m, tops) use = (m', tops') ->
  ms_top m' = ms_top m /\ (forall n, slen m' n = slen m n) /\
  (Forall (nonpinned st) tops -> Forall (nonpinned st) tops').
Proof.
  destruct use as [r0 count]. rewrite accumulate_unfold. cbv zeta.
  set (r := follow st r0). set (sym := getsym st r).
  destruct (ns_eqb (sy_ns sym) NsPinned) eqn:NS.
  { intros E. injection E as <- <-. auto. }
  assert (NP : sy_ns sym <> NsPinned) by (intros E; apply ns_eqb_eq in E; congruence).
  destruct (lookup slots r) as [i|] eqn:L; intros E; injection E as <- <-.
  - split; [apply ms_top_set | split; [|auto]].
    intros n. unfold slen. destruct (ns_dec (sy_ns sym) n) as [<-|N].
    + rewrite ms_slots_set_same by exact NP. rewrite upd_nth_length. reflexivity.
    + rewrite ms_slots_set_other by exact N. reflexivity.
  - split; [reflexivity | split; [reflexivity|]].
    intros F. apply Forall_app. split; [exact F|]. constructor; [|constructor].
    unfold nonpinned. simpl. exact NP.
Qed.

Lemma accumulate_fold st slots stable uses : forall m tops m' tops',
  fold_left (AccumulateSymbolCount st slots stable) uses (m, tops) = (m', tops') ->
  ms_top m' = ms_top m /\ (forall n, slen m' n = slen m n) /\
  (Forall (nonpinned st) tops -> Forall (nonpinned st) tops').
Proof.
  induction uses as [|u r IH]; intros m tops m' tops' H; cbn [fold_left] in H.
  - injection H as <- <-. auto.
  - destruct (AccumulateSymbolCount st slots stable (m, tops) u) as [m1 t1] eqn:A.
    apply accumulate_one in A as (A1 & A2 & A3). apply IH in H as (H1 & H2 & H3).
    split; [congruence | split; [intros n; rewrite H2, A2; reflexivity | auto]].
Qed.

Lemma accumulate_groups st slots stable groups : forall m tops m' tops',
  fold_left (accumulate_group st slots stable) groups (m, tops) = (m', tops') ->
  ms_top m' = ms_top m /\ (forall n, slen m' n = slen m n) /\
  (Forall (nonpinned st) tops -> Forall (nonpinned st) tops').
Proof.
  induction groups as [|g r IH]; intros m tops m' tops' H; cbn [fold_left] in H.
  - injection H as <- <-. auto.
  - unfold accumulate_group at 2 in H.
    destruct (fold_left (AccumulateSymbolCount st slots stable) g (m, [])) as [m1 t1] eqn:A.
    apply accumulate_fold in A as (A1 & A2 & A3). apply IH in H as (H1 & H2 & H3).
    split; [congruence | split; [intros n; rewrite H2, A2; reflexivity|]].
    intros F. apply H3. apply Forall_app. split; [exact F|].
    eapply Permutation_Forall; [apply Permutation_sym, ssc_sort_perm | apply A3; constructor].
Qed.

Lemma AssignNamesByFrequency_spec fuel mf reserved m m' :
  AssignNamesByFrequency fuel mf reserved m = Some m' ->
  ms_top m' = ms_top m /\
  forall n, n <> NsPinned -> names_for_ns fuel mf reserved n (ms_slots m n) = Some (ms_slots m' n).
Proof.
  unfold AssignNamesByFrequency.
  destruct (names_for_ns fuel mf reserved NsDefault _) as [a|] eqn:A; [|discriminate].
  destruct (names_for_ns fuel mf reserved NsLabel _) as [b|] eqn:B; [|discriminate].
  destruct (names_for_ns fuel mf reserved NsPrivate _) as [c|] eqn:C; [|discriminate].
  destruct (names_for_ns fuel mf reserved NsMangled _) as [d|] eqn:D; [|discriminate].
  intros E. injection E as <-. split; [reflexivity|].
  intros n N. destruct n; simpl; auto; try contradiction.
Qed.

(* ---- the chunk theorem for the minifier ---- *)
Section Chunk.
  Variable mf : minifier.
  Hypothesis NDh : NoDup (m_head mf).
  Hypothesis NDt : NoDup (m_tail mf).
  Hypothesis Hh : 1 <= zlen (m_head mf).
  Hypothesis Ht : 2 <= zlen (m_tail mf).

  (* the slot a canonical symbol is printed from (MinifyRenamer.NameForSymbol) *)
  Definition slot_of (slots : slotmap) (m : mstate) (r : nat) : option Z :=
    match lookup slots r with Some i => Some i | None => lookup (ms_top m) r end.

  Lemma minify_rename_chunk fuel st slots firstc stable reserved pre groups m3 :
    minify_rename fuel st slots firstc stable reserved mf pre groups = Some m3 ->
    0 <= c_default firstc -> 0 <= c_label firstc -> 0 <= c_private firstc -> 0 <= c_mangled firstc ->
    (forall r k, lookup slots r = Some k -> 0 <= k < cnt_get firstc (sy_ns (getsym st r))) ->
    forall r1 r2 i1 i2, r1 <> r2 ->
      follow st r1 = r1 -> follow st r2 = r2 ->
      sy_ns (getsym st r1) = sy_ns (getsym st r2) -> sy_ns (getsym st r1) <> NsPinned ->
      slot_of slots m3 r1 = Some i1 -> slot_of slots m3 r2 = Some i2 ->
      (* two nested symbols may share a slot (they are then never visible together:
         slots_distinct_on_chain); everything else is separated *)
      (lookup slots r1 <> None -> lookup slots r2 <> None -> i1 <> i2) ->
      minify_name_for st slots m3 r1 <> minify_name_for st slots m3 r2.
  Proof.
    unfold minify_rename. intros MR H0 H1 H2 H3 Nested r1 r2 i1 i2 N F1 F2 SameNs NP S1 S2 NN.
    destruct (fold_left (AccumulateSymbolCount st slots stable) pre (NewMinifyRenamer firstc, [])) as [m0 pretops] eqn:A0.
    destruct (fold_left (accumulate_group st slots stable) groups (m0, pretops)) as [m1 tops] eqn:A1.
    apply accumulate_fold in A0 as (T0 & L0 & P0). apply accumulate_groups in A1 as (T1 & L1 & P1).
    assert (I1 : TopInv st (cnt_get firstc) m1).
    { split.
      - intros r i L. rewrite T1, T0 in L. discriminate.
      - intros x1 x2 i _ _ L. rewrite T1, T0 in L. discriminate.
      - intros n. rewrite L1, L0. unfold slen, NewMinifyRenamer. destruct n; simpl; rewrite ?repeat_len; lia. }
    assert (NPt : Forall (nonpinned st) tops) by (apply P1, P0; constructor).
    pose proof (alloc_all st (cnt_get firstc) tops m1 I1 NPt) as I2.
    set (m2 := AllocateTopLevelSymbolSlots st m1 tops) in *.
    apply AssignNamesByFrequency_spec in MR as (T3 & NF).
    set (nsr := sy_ns (getsym st r1)) in *.
    specialize (NF nsr NP).
    destruct (names_for_ns_spec mf NDh NDt Hh Ht reserved fuel nsr (ms_slots m2 nsr) _ NF) as (Len & Dist & _).
    (* ranges of the two slot indices *)
    assert (Range : forall r i, sy_ns (getsym st r) = nsr -> slot_of slots m3 r = Some i ->
                     0 <= i < Z.of_nat (length (ms_slots m2 nsr)) /\
                     (lookup slots r = None -> cnt_get firstc nsr <= i)).
    { intros r i Nr S. unfold slot_of in S. destruct (lookup slots r) as [k|] eqn:L.
      - injection S as <-. pose proof (Nested r k L) as B. rewrite Nr in B.
        pose proof (t_first _ _ _ I2 nsr) as Fi. unfold slen in Fi. split; [lia | discriminate].
      - rewrite T3 in S. pose proof (t_range _ _ _ I2 r i S) as B. unfold nsx in B. rewrite Nr in B.
        unfold slen in B. pose proof (t_first _ _ _ I2 nsr).
        assert (0 <= cnt_get firstc nsr) by (destruct nsr; simpl; lia). split; [lia | intros _; lia]. }
    destruct (Range r1 i1 eq_refl S1) as (R1 & T1').
    destruct (Range r2 i2 (eq_sym SameNs) S2) as (R2 & T2').
    assert (Ne : i1 <> i2).
    { destruct (lookup slots r1) as [k1|] eqn:L1'; destruct (lookup slots r2) as [k2|] eqn:L2'.
      - apply NN; discriminate.
      - unfold slot_of in S1. rewrite L1' in S1. injection S1 as <-.
        pose proof (Nested r1 k1 L1') as B. fold nsr in B. specialize (T2' eq_refl). lia.
      - unfold slot_of in S2. rewrite L2' in S2. injection S2 as <-.
        pose proof (Nested r2 k2 L2') as B. rewrite <- SameNs in B. fold nsr in B. specialize (T1' eq_refl). lia.
      - unfold slot_of in S1, S2. rewrite L1' in S1. rewrite L2' in S2. rewrite T3 in S1, S2.
        intros <-. exact (t_dist _ _ _ I2 r1 r2 i1 N SameNs S1 S2). }
    (* the printed names are the slot names *)
    assert (Nm : forall r i, follow st r = r -> sy_ns (getsym st r) = nsr -> slot_of slots m3 r = Some i ->
                 minify_name_for st slots m3 r = slot_name (ms_slots m3 nsr) i).
    { intros r i Fr Nr S. unfold minify_name_for. rewrite Fr, Nr. unfold slot_of in S.
      destruct nsr eqn:En; try contradiction;
        (destruct (lookup slots r) as [k|]; [injection S as <-; reflexivity | rewrite S; reflexivity]). }
    rewrite (Nm r1 i1 F1 eq_refl S1), (Nm r2 i2 F2 (eq_sym SameNs) S2).
    apply Dist; auto.
  Qed.
End Chunk.

(* ---- the chunk theorem for the number renamer: top-level symbols of all files ---- *)
Lemma number_toplevel_distinct_all fuel st reserved toplevel nested names :
  number_rename fuel st reserved toplevel nested = Some names ->
  wf_number st toplevel nested = true ->
  forall x1 x2, In x1 toplevel -> In x2 toplevel -> follow st x1 <> follow st x2 ->
    renameable (sy_ns (getsym st (follow st x1))) = true ->
    renameable (sy_ns (getsym st (follow st x2))) = true ->
    number_name_for st names x1 <> number_name_for st names x2.
Proof.
  unfold number_rename, wf_number. intros A W x1 x2 H1 H2 N R1 R2.
  destruct (assignNames fuel st (root_of reserved) [] [] toplevel) as [[root names0]|] eqn:A0; [|discriminate].
  destruct (wf_refs [] [] (map (follow st) toplevel)) as [[vis seen]|] eqn:W0; [|discriminate].
  destruct (wf_forest st nested vis seen) as [seen'|] eqn:W1; [|discriminate].
  destruct (assignNames_inv fuel st reserved _ _ _ _ _ _ _ _ _ _ (Inv_init st reserved) W0 A0) as (I0 & _ & V).
  rewrite app_nil_r in V.
  destruct (assignForest_inv fuel st reserved nested _ _ _ _ _ _ I0 W1 A) as (E & G & _ & _).
  pose proof (Good_mono _ _ _ _ _ (Inv_Good _ _ _ _ _ _ I0) E G) as [Gn Gd].
  assert (V1 : In (follow st x1) vis) by (rewrite V, <- in_rev; apply in_map; exact H1).
  assert (V2 : In (follow st x2) vis) by (rewrite V, <- in_rev; apply in_map; exact H2).
  unfold number_name_for.
  destruct (lookup names (follow st x1)) as [n1|] eqn:L1.
  2:{ apply Gn in L1; auto. unfold rnb in L1. congruence. }
  destruct (lookup names (follow st x2)) as [n2|] eqn:L2.
  2:{ apply Gn in L2; auto. unfold rnb in L2. congruence. }
  exact (Gd _ _ n1 n2 V1 V2 N L1 L2).
Qed.

(* ---- what the reserved set does cover ---- *)
Lemma pinned_names_in st refs r :
  In r refs -> sy_ns (getsym st r) = NsPinned -> In (sy_name (getsym st r)) (pinned_names st refs).
Proof.
  intros I P. unfold pinned_names. apply in_map_iff. exists r. split; [reflexivity|].
  apply filter_In. split; [exact I | rewrite P; reflexivity].
Qed.

Lemma reserved_covers_scope st sc : forall r,
  In r (tree_decls sc) -> sy_ns (getsym st r) = NsPinned ->
  In (sy_name (getsym st r)) (reservedForScope st sc).
Proof.
  induction sc as [m g l e ch IHch] using scope_ind'. intros r I P. simpl in I |- *.
  apply in_app_iff in I as [I|I]; [apply in_app_iff; left; apply pinned_names_in; assumption|].
  apply in_app_iff in I as [I|I]; [apply in_app_iff; right; apply in_app_iff; left; apply pinned_names_in; assumption|].
  apply in_app_iff; right; apply in_app_iff; right.
  induction IHch as [|c rest Hc Hr IH]; [destruct I|].
  apply in_app_iff in I as [I|I]; apply in_app_iff.
  - left. apply Hc; assumption.
  - right. apply IH. exact I.
Qed.

Lemma reserved_covers st mods msc r :
  In msc mods -> In r (tree_decls msc) -> sy_ns (getsym st r) = NsPinned ->
  In (sy_name (getsym st r)) (ComputeReservedNames st mods).
Proof.
  intros Im I P. unfold ComputeReservedNames. apply in_app_iff; right. apply in_app_iff; right.
  apply in_flat_map. exists msc. split; [exact Im | apply reserved_covers_scope; assumption].
Qed.

Lemma minify_avoids_pinned_all mf :
  NoDup (m_head mf) -> NoDup (m_tail mf) -> 1 <= zlen (m_head mf) -> 2 <= zlen (m_tail mf) ->
  forall fuel st slots firstc stable reserved pre groups m3 mods,
  minify_rename fuel st slots firstc stable reserved mf pre groups = Some m3 ->
  incl (ComputeReservedNames st mods) reserved ->
  forall msc p, In msc mods -> In p (tree_decls msc) -> sy_ns (getsym st p) = NsPinned ->
  forall i, 0 <= i < Z.of_nat (length (ms_default m3)) ->
    slot_name (ms_default m3) i <> sy_name (getsym st p).
Proof.
  intros NDh NDt Hh Ht fuel st slots firstc stable reserved pre groups m3 mods MR Incl msc p Im Ip Pp i Hi.
  unfold minify_rename in MR.
  destruct (fold_left (AccumulateSymbolCount st slots stable) pre (NewMinifyRenamer firstc, [])) as [m0 pretops].
  destruct (fold_left (accumulate_group st slots stable) groups (m0, pretops)) as [m1 tops].
  apply AssignNamesByFrequency_spec in MR as (_ & NF).
  specialize (NF NsDefault ltac:(discriminate)). simpl in NF.
  destruct (names_for_ns_spec mf NDh NDt Hh Ht reserved fuel NsDefault _ _ NF) as (Len & _ & OK).
  rewrite Len in Hi. destruct (OK i Hi) as (NR & _ & _).
  intros E. apply (NR eq_refl). rewrite E. apply Incl. eapply reserved_covers; eauto.
Qed.

Lemma number_avoids_pinned_all fuel st reserved toplevel nested names mods :
  number_rename fuel st reserved toplevel nested = Some names ->
  wf_number st toplevel nested = true ->
  incl (ComputeReservedNames st mods) reserved ->
  forall msc p, In msc mods -> In p (tree_decls msc) -> sy_ns (getsym st p) = NsPinned ->
  forall r n, lookup names r = Some n -> n <> sy_name (getsym st p).
Proof.
  intros A W Incl msc p Im Ip Pp r n L E.
  eapply number_renamer_avoids_reserved_all; eauto. rewrite E. apply Incl. eapply reserved_covers; eauto.
Qed.
