(* C04 model, part 5: which symbols a top-level statement declares and uses.
   Mirrors, for a small statement language, js_parser's bookkeeping that feeds
   the parts: recordDeclaredSymbol (top-level declarations: binding identifiers
   of var/let/const patterns, function and class names, import items) and
   recordUsage (every identifier reference, found through the scope chain:
   a reference bound by a parameter or local of an enclosing function is a use
   of THAT symbol and never reaches the module scope; everything else is a use
   of the module-scope / unbound symbol of that name; `typeof x` and an
   assignment target are uses as well).
   Names are natural numbers; a module-scope symbol is identified with its name
   (import and export symbols already merged, as in the linker after
   ImportsToBind). The removability flag of each part is computed by the
   classifier model of Purity.v on a translation of the statement.
   Executable definitions only. *)
From V Require Import Common.Base C04.Parts C04.Mark C04.Harness C04.Purity C04.Build.

Inductive sexpr :=
| XLit
| XId (x : nat)                                   (* x *)
| XTypeof (x : nat)                               (* typeof x *)
| XAssign (x : nat) (e : sexpr)                   (* x = e *)
| XCall (f : sexpr) (args : list sexpr)           (* f(args) *)
| XArr (items : list sexpr)                       (* [items] *)
(* function (p1 = d1, ..) { var locals; body }: the default values live in the
   parameter scope (they see the parameters, NOT the body's vars); arrows alike *)
| XFun (params : list nat) (defaults : list sexpr) (locals : list nat) (body : list sexpr)
(* class extends ext { members }: members are XFun (methods), XField, XStaticBlock *)
| XClass (ext : option sexpr) (members : list sexpr)
| XField (static : bool) (key : option sexpr) (init : option sexpr)   (* [key] = init;  computed key optional *)
| XStaticBlock (locals : list nat) (body : list sexpr).               (* static { var locals; body } *)

(* a binding element of an array pattern: name and optional default *)
Definition selem := (nat * option sexpr)%type.
(* a property of an object pattern: optional computed key, bound name, optional default *)
Definition sprop := (option sexpr * nat * option sexpr)%type.

Inductive spat := PId (x : nat) | PArr (items : list selem) | PObj (props : list sprop).

Inductive sstmt :=
| SSLocal (decls : list (spat * option sexpr))                (* var/let/const p = e, ... *)
| SSFunction (name : nat) (params : list nat) (defaults : list sexpr) (locals : list nat) (body : list sexpr)
| SSClass (name : nat) (ext : option sexpr) (members : list sexpr)
| SSExpr (e : sexpr)
| SSIf (e : sexpr)                                            (* if (e) { } *)
(* try { e } catch (c) { handler }: the catch binding is scoped to the handler *)
| SSTry (e : sexpr) (catch : option (option nat * list sexpr))
| SSBlockVar (x : nat) (e : sexpr)                             (* { var x = e; } : the nested var is hoisted to the module
                                                                 scope, also when it redeclares a top-level var or function
                                                                 (recordDeclaredSymbol follows the Link chain, fix 0bc1420) *)
(* loops and labels: [outer] expressions see the module scope only, [inner]
   expressions also the block-scoped [binders] (for-let head and body, for-let-of /
   for-let-in head, iterable and body); [hoisted] are `var` names declared in a
   head, which belong to the module scope. [kind] only selects the concrete syntax:
   0 for(let;;) 1 for(let of) 2 for(let in) 3 for(var of) 4 for(var;;) 5 label 6 while *)
| SSCompound (kind : nat) (outer : list sexpr) (binders : list nat) (inner : list sexpr) (hoisted : list nat)
| SSImport (names : list nat)                                 (* import { .. as n } from / import "m" *)
| SSExportStar.                                               (* export * from *)

Definition nmem (x : nat) (l : list nat) : bool := existsb (Nat.eqb x) l.

(* recordUsage through the scope chain: [bound] = names declared by the
   enclosing function scopes *)
Fixpoint fv (bound : list nat) (e : sexpr) : list nat :=
  match e with
  | XLit => []
  | XId x | XTypeof x => if nmem x bound then [] else [x]
  | XAssign x v => (if nmem x bound then [] else [x]) ++ fv bound v
  | XCall f args => fv bound f ++ flat_map (fv bound) args
  | XArr items => flat_map (fv bound) items
  | XFun params defaults locals body =>
    flat_map (fv (params ++ bound)) defaults ++ flat_map (fv (params ++ locals ++ bound)) body
  | XClass ext members =>
    (match ext with Some x => fv bound x | None => [] end) ++ flat_map (fv bound) members
  | XField _ key init =>
    (match key with Some k => fv bound k | None => [] end) ++ (match init with Some v => fv bound v | None => [] end)
  | XStaticBlock locals body => flat_map (fv (locals ++ bound)) body
  end.

Definition fv_opt (o : option sexpr) : list nat := match o with Some e => fv [] e | None => [] end.

Definition pat_names (p : spat) : list nat :=
  match p with
  | PId x => [x]
  | PArr items => map fst items
  | PObj props => map (fun pr => snd (fst pr)) props
  end.
Definition pat_uses (p : spat) : list nat :=
  match p with
  | PId _ => []
  | PArr items => flat_map (fun it => fv_opt (snd it)) items
  | PObj props => flat_map (fun pr => fv_opt (fst (fst pr)) ++ fv_opt (snd pr)) props
  end.

(* translation to the classifier's tree type (only what decides removability) *)
Definition method_prop : node := PProp KMethod false false false false (EStr []) (Some EFunction) None [].

(* [bound]: names declared by an enclosing static block (function bodies are
   opaque to the classifier). A reference to such a local is a reference to a
   declared symbol: for the classifier it behaves like `this` (removable, type
   unknown), which is how it is rendered. *)
Fixpoint to_node (bound : list nat) (e : sexpr) : node :=
  match e with
  | XLit => ENum 0
  | XId x => if nmem x bound then EThis else EIdent x false false
  | XTypeof x => if nmem x bound then EUnary UTypeof EThis false else EUnary UTypeof (EIdent x false false) true
  | XAssign x v => EBinary BAssign (EIdent x false false) (to_node bound v)
  | XCall f args => ECall (to_node bound f) (map (to_node bound) args) false
  | XArr items => EArray (map (to_node bound) items)
  | XFun _ _ _ _ => EFunction
  | XClass ext members =>
    EClass (CClass false (option_map (to_node bound) ext)
              (map (fun m => match m with
                             | XField st key init =>
                               PProp KField (match key with Some _ => true | None => false end) st false false
                                     (match key with Some k => to_node bound k | None => EStr [] end)
                                     None (option_map (to_node bound) init) []
                             | XStaticBlock locals body =>
                               PProp KStaticBlock false false false false ENull None None
                                     (map (fun x => SExpr (to_node (locals ++ bound) x) false) body)
                             | _ => method_prop
                             end) members) true)
  | XField _ _ _ | XStaticBlock _ _ => EOther     (* only meaningful as class members *)
  end.

Definition pat_node (p : spat) : node :=
  match p with
  | PId _ => BIdent
  | PArr items => BArray (map (fun it => BItem BIdent (option_map (to_node []) (snd it))) items)
  | PObj _ => BOtherBinding
  end.

Definition class_node (ext : option sexpr) (members : list sexpr) : node :=
  match to_node [] (XClass ext members) with EClass c => c | _ => SOther end.

Definition zs (x : nat) : sym := (O, x).

Section Analyze.
  (* names declared at the top level of some file of the program: reading any
     other identifier is reading an unbound global *)
  Variable declared : nat -> bool.
  Definition unbound (x : nat) : bool := negb (declared x).

  Definition decl_of (names uses : list nat) (stmt : node) : tdecl :=
    mkTDecl (map zs names) (map zs uses) (stmt_ok0 unbound stmt).

  Definition analyze (s : sstmt) : tstmt :=
    match s with
    | SSLocal decls =>
      TLocal (map (fun d => decl_of (pat_names (fst d)) (pat_uses (fst d) ++ fv_opt (snd d))
                                    (SLocal LConst [DDecl (pat_node (fst d)) (option_map (to_node []) (snd d))])) decls)
    | SSFunction name params defaults locals body =>
      TOther (decl_of [name] (fv [] (XFun params defaults locals body)) SFunction)
    | SSClass name ext methods =>
      TOther (decl_of [name] (fv [] (XClass ext methods)) (SClass (class_node ext methods)))
    | SSExpr e => TOther (decl_of [] (fv [] e) (SExpr (to_node [] e) false))
    | SSIf e => TOther (decl_of [] (fv [] e) SOther)
    | SSTry e catch =>
      TOther (decl_of [] (fv [] e ++ match catch with
                                     | Some (c, handler) => flat_map (fv (match c with Some x => [x] | None => [] end)) handler
                                     | None => [] end)
                      (STry [SExpr (to_node [] e) false] false []))
    | SSCompound _ outer binders inner hoisted =>
      TOther (decl_of hoisted (flat_map (fv []) outer ++ flat_map (fv binders) inner) SOther)
    | SSBlockVar x e => TOther (decl_of [x] (fv [] e) SOther)
    | SSImport names => TImportLike (decl_of names [] SImport) (mkImp true true O false)
    | SSExportStar => TImportLike (decl_of [] [] SOther) (mkImp true true O false)
    end.
End Analyze.

(* the names a program declares at top level *)
Definition stmt_names (s : sstmt) : list nat :=
  match s with
  | SSLocal decls => flat_map (fun d => pat_names (fst d)) decls
  | SSFunction name _ _ _ _ | SSClass name _ _ => [name]
  | SSBlockVar x _ => [x]
  | SSCompound _ _ _ _ hoisted => hoisted
  | SSImport names => names
  | _ => []
  end.

Record sfile := mkSFile { sf_effects : bool; sf_entry : bool; sf_stmts : list sstmt }.

Definition program_names (prog : list sfile) : list nat :=
  flat_map (fun f => flat_map stmt_names (sf_stmts f)) prog.

Definition analyze_file (declared : nat -> bool) (f : sfile) : tfile :=
  mkTFile (sf_effects f) (sf_entry f) (map (analyze declared) (sf_stmts f)).

(* the whole pipeline: scope analysis, part construction, dependency edges *)
Definition link_program (ts ign : bool) (entries : list nat) (prog : list sfile) : graph :=
  let declared := fun x => nmem x (program_names prog) in
  link ts ign entries (map (analyze_file declared) prog).
