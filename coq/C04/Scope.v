(* C04 model, part 5: which symbols a top-level statement declares and uses.
   Mirrors, for a small statement language, js_parser's bookkeeping that feeds
   the parts: recordDeclaredSymbol (top-level declarations: binding identifiers
   of var/let/const patterns, function and class names, import items) and
   recordUsage (every identifier reference, found through the scope chain:
   a reference bound by a parameter or local of an enclosing function is a use
   of THAT symbol and never reaches the module scope; everything else is a use
   of the module-scope / unbound symbol of that name; `typeof x` and an
   assignment target are uses as well).
   Names are natural numbers; a module-scope symbol is identified with its name
   (import and export symbols already merged, as in the linker after
   ImportsToBind). The removability flag of each part is computed by the
   classifier model of Purity.v on a translation of the statement.
   Executable definitions only. *)
From V Require Import Common.Base C04.Parts C04.Mark C04.Harness C04.Purity C04.Build.

Inductive sexpr :=
| XLit
| XId (x : nat)                                   (* x *)
| XTypeof (x : nat)                               (* typeof x *)
| XAssign (x : nat) (e : sexpr)                   (* x = e *)
| XCall (f : sexpr) (args : list sexpr)           (* f(args) *)
| XArr (items : list sexpr)                       (* [items] *)
| XFun (params locals : list nat) (body : list sexpr)   (* function (params) { var locals; body } , arrows *)
| XClass (ext : option sexpr) (methods : list sexpr).   (* class extends ext { m() { .. } ... } : methods are XFun *)

(* a binding element of an array pattern: name and optional default *)
Definition selem := (nat * option sexpr)%type.

Inductive spat := PId (x : nat) | PArr (items : list selem).

Inductive sstmt :=
| SSLocal (decls : list (spat * option sexpr))                (* var/let/const p = e, ... *)
| SSFunction (name : nat) (params locals : list nat) (body : list sexpr)
| SSClass (name : nat) (ext : option sexpr) (methods : list sexpr)
| SSExpr (e : sexpr)
| SSIf (e : sexpr)                                            (* if (e) { } *)
| SSTry (e : sexpr)                                           (* try { e } catch { } *)
| SSBlockVar (x : nat) (e : sexpr)                             (* { var x = e; } : the nested var is hoisted to the module
                                                                 scope, also when it redeclares a top-level var or function
                                                                 (recordDeclaredSymbol follows the Link chain, fix 0bc1420) *)
| SSImport (names : list nat)                                 (* import { .. as n } from / import "m" *)
| SSExportStar.                                               (* export * from *)

Definition nmem (x : nat) (l : list nat) : bool := existsb (Nat.eqb x) l.

(* recordUsage through the scope chain: [bound] = names declared by the
   enclosing function scopes *)
Fixpoint fv (bound : list nat) (e : sexpr) : list nat :=
  match e with
  | XLit => []
  | XId x | XTypeof x => if nmem x bound then [] else [x]
  | XAssign x v => (if nmem x bound then [] else [x]) ++ fv bound v
  | XCall f args => fv bound f ++ flat_map (fv bound) args
  | XArr items => flat_map (fv bound) items
  | XFun params locals body => flat_map (fv (params ++ locals ++ bound)) body
  | XClass ext methods =>
    (match ext with Some x => fv bound x | None => [] end) ++ flat_map (fv bound) methods
  end.

Definition fv_opt (o : option sexpr) : list nat := match o with Some e => fv [] e | None => [] end.

Definition pat_names (p : spat) : list nat :=
  match p with PId x => [x] | PArr items => map fst items end.
Definition pat_uses (p : spat) : list nat :=
  match p with PId _ => [] | PArr items => flat_map (fun it => fv_opt (snd it)) items end.

(* translation to the classifier's tree type (only what decides removability) *)
Fixpoint to_node (e : sexpr) : node :=
  match e with
  | XLit => ENum 0
  | XId x => EIdent x false false
  | XTypeof x => EUnary UTypeof (EIdent x false false) true
  | XAssign x v => EBinary BAssign (EIdent x false false) (to_node v)
  | XCall f args => ECall (to_node f) (map to_node args) false
  | XArr items => EArray (map to_node items)
  | XFun _ _ _ => EFunction
  | XClass ext methods =>
    EClass (CClass false (option_map to_node ext)
              (map (fun _ => PProp KMethod false false false false (EStr []) (Some EFunction) None []) methods) true)
  end.

Definition pat_node (p : spat) : node :=
  match p with
  | PId _ => BIdent
  | PArr items => BArray (map (fun it => BItem BIdent (option_map to_node (snd it))) items)
  end.

Definition class_node (ext : option sexpr) (methods : list sexpr) : node :=
  CClass false (option_map to_node ext)
    (map (fun _ => PProp KMethod false false false false (EStr []) (Some EFunction) None []) methods) true.

Definition zs (x : nat) : sym := (O, x).

Section Analyze.
  (* names declared at the top level of some file of the program: reading any
     other identifier is reading an unbound global *)
  Variable declared : nat -> bool.
  Definition unbound (x : nat) : bool := negb (declared x).

  Definition decl_of (names uses : list nat) (stmt : node) : tdecl :=
    mkTDecl (map zs names) (map zs uses) (stmt_ok0 unbound stmt).

  Definition analyze (s : sstmt) : tstmt :=
    match s with
    | SSLocal decls =>
      TLocal (map (fun d => decl_of (pat_names (fst d)) (pat_uses (fst d) ++ fv_opt (snd d))
                                    (SLocal LConst [DDecl (pat_node (fst d)) (option_map to_node (snd d))])) decls)
    | SSFunction name params locals body =>
      TOther (decl_of [name] (flat_map (fv (params ++ locals)) body) SFunction)
    | SSClass name ext methods =>
      TOther (decl_of [name] (fv [] (XClass ext methods)) (SClass (class_node ext methods)))
    | SSExpr e => TOther (decl_of [] (fv [] e) (SExpr (to_node e) false))
    | SSIf e => TOther (decl_of [] (fv [] e) SOther)
    | SSTry e => TOther (decl_of [] (fv [] e) (STry [SExpr (to_node e) false] false []))
    | SSBlockVar x e => TOther (decl_of [x] (fv [] e) SOther)
    | SSImport names => TImportLike (decl_of names [] SImport) (mkImp true true O false)
    | SSExportStar => TImportLike (decl_of [] [] SOther) (mkImp true true O false)
    end.
End Analyze.

(* the names a program declares at top level *)
Definition stmt_names (s : sstmt) : list nat :=
  match s with
  | SSLocal decls => flat_map (fun d => pat_names (fst d)) decls
  | SSFunction name _ _ _ | SSClass name _ _ => [name]
  | SSBlockVar x _ => [x]
  | SSImport names => names
  | _ => []
  end.

Record sfile := mkSFile { sf_effects : bool; sf_entry : bool; sf_stmts : list sstmt }.

Definition program_names (prog : list sfile) : list nat :=
  flat_map (fun f => flat_map stmt_names (sf_stmts f)) prog.

Definition analyze_file (declared : nat -> bool) (f : sfile) : tfile :=
  mkTFile (sf_effects f) (sf_entry f) (map (analyze declared) (sf_stmts f)).

(* the whole pipeline: scope analysis, part construction, dependency edges *)
Definition link_program (ts ign : bool) (entries : list nat) (prog : list sfile) : graph :=
  let declared := fun x => nmem x (program_names prog) in
  link ts ign entries (map (analyze_file declared) prog).
