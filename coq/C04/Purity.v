(* C04 model, part 3: the purity classifier.
   Mirrors internal/js_ast/js_ast_helpers.go
     HelperContext.ExprCanBeRemovedIfUnused, StmtsCanBeRemovedIfUnused,
     ClassCanBeRemovedIfUnused, isSideEffectFreeUnboundIdentifierRef,
     KnownPrimitiveType, MergedKnownPrimitiveTypes, IsPrimitiveLiteral,
     IsSymbolInstance, CanChangeStrictToLoose
   over one tree type [node] covering the expression, property, class,
   statement and binding shapes those functions inspect. Executable only. *)
From V Require Import Common.Base.

Inductive ptype := TUnknown | TMixed | TNull | TUndefined | TBoolean | TNumber | TString | TBigInt.
Definition ptype_eqb (a b : ptype) : bool :=
  match a, b with
  | TUnknown, TUnknown | TMixed, TMixed | TNull, TNull | TUndefined, TUndefined
  | TBoolean, TBoolean | TNumber, TNumber | TString, TString | TBigInt, TBigInt => true
  | _, _ => false
  end.

Inductive unop := UPos | UNeg | UCpl | UNot | UVoid | UTypeof | UDelete | UIncDec.
Inductive binop :=
| BStrictEq | BStrictNe | BLooseEq | BLooseNe | BLt | BGt | BLe | BGe
| BComma | BNullish | BOr | BAnd | BAdd | BArith | BIn | BInstanceof
| BAssign | BAddAssign | BArithAssign | BLogicalAssign.

Inductive pkind := KNormal | KSpread | KMethod | KField | KStaticBlock | KOtherKind.
Inductive lkind := LVar | LLet | LConst | LUsing | LAwaitUsing.

Inductive node :=
(* expressions *)
| ENull | EUndefined | EBool (b : bool) | ENum (z : Z) | EStr (s : list Z) | EBigInt (z : Z)
| EMissing | EThis | ERegExp | EFunction | EArrow | EImportMeta
| EIdent (ref : nat) (can_remove keep_with : bool)
| EImportIdent (ref : nat)
| EDot (t : node) (name : Z) (can_remove is_sym : bool)
| EIndex (t i : node) (is_sym : bool)
| EIf (c y n : node)
| EArray (items : list node)
| ESpread (e : node)
| EObject (props : list node)                       (* of PProp *)
| ECall (t : node) (args : list node) (pure : bool)
| ENew (t : node) (args : list node) (pure : bool)
| EUnary (op : unop) (e : node) (typeof_ident : bool)
| EBinary (op : binop) (l r : node)
| ETemplate (tag : option node) (pure : bool) (parts : list node)
| EClass (c : node)                                 (* of CClass *)
| EAnnotation (e : node) (flag : bool)
| EInlinedEnum (e : node)
| EOther
(* a property of an object literal or class: Kind, IsComputed, IsStatic,
   decorators present, a parameter of the method value has decorators, key,
   ValueOrNil, InitializerOrNil, static block body *)
| PProp (k : pkind) (computed static decorated arg_decorated : bool)
        (key : node) (value init : option node) (block : list node)
(* class: decorators present, ExtendsOrNil, properties, UseDefineForClassFields *)
| CClass (decorated : bool) (ext : option node) (props : list node) (use_define : bool)
(* statements *)
| SFunction | SEmpty | SImport | SExportFrom | SExportClause | SOther
| SClass (c : node)
| SReturn (v : option node)
| SExpr (e : node) (from_removable : bool)
| SLocal (k : lkind) (decls : list node)            (* of DDecl *)
| STry (block : list node) (has_finally : bool) (fin : list node)
| SExportDefaultExpr (e : node) | SExportDefaultFn | SExportDefaultClass (c : node)
(* declaration and bindings *)
| DDecl (binding : node) (value : option node)
| BIdent | BMissing | BOtherBinding
| BArray (items : list node)                        (* of BItem *)
| BItem (binding : node) (default : option node).

Definition undefined_str : list Z := [117;110;100;101;102;105;110;101;100].   (* "undefined" *)
Definition u_str : list Z := [117].                                           (* "u" *)

Fixpoint is_primitive_literal (e : node) : bool :=
  match e with
  | EAnnotation v _ => is_primitive_literal v
  | EInlinedEnum v => is_primitive_literal v
  | ENull | EUndefined | EStr _ | EBool _ | ENum _ | EBigInt _ => true
  | _ => false
  end.

Definition is_symbol_instance (e : node) : bool :=
  match e with
  | EDot _ _ _ s => s
  | EIndex _ _ s => s
  | _ => false
  end.

Definition merged (x y : ptype) : ptype :=
  match x with
  | TUnknown => TUnknown
  | _ => match y with
         | TUnknown => TUnknown
         | _ => if ptype_eqb x y then x else TMixed
         end
  end.

Definition known_not_mixed (t : ptype) : bool :=
  match t with TUnknown | TMixed => false | _ => true end.

Fixpoint kpt (e : node) : ptype :=
  match e with
  | EAnnotation v _ => kpt v
  | EInlinedEnum v => kpt v
  | ENull => TNull
  | EUndefined => TUndefined
  | EBool _ => TBoolean
  | ENum _ => TNumber
  | EStr _ => TString
  | EBigInt _ => TBigInt
  | ETemplate None _ _ => TString
  | EIf _ y n => merged (kpt y) (kpt n)
  | EUnary op v _ =>
    match op with
    | UVoid => TUndefined
    | UTypeof => TString
    | UNot | UDelete => TBoolean
    | UPos => TNumber
    | UNeg | UCpl =>
      let t := kpt v in
      match t with
      | TBigInt => TBigInt
      | TUnknown | TMixed => TMixed
      | _ => TNumber
      end
    | UIncDec => TMixed
    end
  | EBinary op l r =>
    match op with
    | BStrictEq | BStrictNe | BLooseEq | BLooseNe | BLt | BGt | BLe | BGe | BInstanceof | BIn => TBoolean
    | BOr | BAnd => merged (kpt l) (kpt r)
    | BNullish =>
      let a := kpt l in let b := kpt r in
      match a with
      | TNull | TUndefined => b
      | TUnknown => TUnknown
      | TMixed => match b with TUnknown => TUnknown | _ => TMixed end
      | _ => a
      end
    | BAdd =>
      let a := kpt l in let b := kpt r in
      match a, b with
      | TString, _ | _, TString => TString
      | TBigInt, TBigInt => TBigInt
      | _, _ => if known_not_mixed a && negb (ptype_eqb a TBigInt) && known_not_mixed b && negb (ptype_eqb b TBigInt)
                then TNumber else TMixed
      end
    | BAddAssign => match kpt r with TString => TString | _ => TMixed end
    | BArith | BArithAssign => TMixed
    | BAssign | BComma => kpt r
    | BLogicalAssign => TUnknown
    end
  | _ => TUnknown
  end.

Definition can_change_strict_to_loose (a b : node) : bool :=
  let x := kpt a in let y := kpt b in ptype_eqb x y && known_not_mixed x.

Section Classifier.
  Variable is_unbound : nat -> bool.

  (* isSideEffectFreeUnboundIdentifierRef(value, guardCondition, isYesBranch) *)
  Definition is_typeof_ident (t : node) : bool :=
    match t with EUnary UTypeof _ true => true | _ => false end.
  Definition typeof_matches (id : nat) (t : node) : bool :=
    match t with
    | EUnary UTypeof (EIdent id2 _ _) true => Nat.eqb id2 id
    | _ => false
    end.

  Definition guard_ok (value guard : node) (is_yes : bool) : bool :=
    match value with
    | EIdent id _ _ =>
      if is_unbound id then
        match guard with
        | EBinary op l r =>
          match op with
          | BStrictEq | BStrictNe | BLooseEq | BLooseNe =>
            let '(ty, st) := match l with EStr _ => (r, l) | _ => (l, r) end in
            if is_typeof_ident ty then
              match st with
              | EStr text =>
                if Bool.eqb (Bool.eqb (zlist_eqb text undefined_str) is_yes)
                            (match op with BStrictNe | BLooseNe => true | _ => false end)
                then typeof_matches id ty else false
              | _ => false
              end
            else false
          | BLt | BGt | BLe | BGe =>
            let '(ty, st, yes) := match l with EStr _ => (r, l, negb is_yes) | _ => (l, r, is_yes) end in
            if is_typeof_ident ty then
              match st with
              | EStr text =>
                if zlist_eqb text u_str then
                  if Bool.eqb yes (match op with BLt | BLe => true | _ => false end)
                  then typeof_matches id ty else false
                else false
              | _ => false
              end
            else false
          | _ => false
          end
        | _ => false
        end
      else false
    | _ => false
    end.

  Definition opt_all (f : node -> bool) (o : option node) : bool :=
    match o with Some e => f e | None => true end.

  (* one recursive function over the whole tree type; the constructor decides
     which Go function is mirrored:
       expressions  -> ExprCanBeRemovedIfUnused
       CClass       -> ClassCanBeRemovedIfUnused
       PProp        -> the loop body over class.Properties (class context) *)
  Fixpoint can_remove (e : node) : bool :=
    match e with
    | EAnnotation _ flag => flag
    | EInlinedEnum v => can_remove v
    | ENull | EUndefined | EMissing | EBool _ | ENum _ | EBigInt _ | EStr _ | EThis | ERegExp
    | EFunction | EArrow | EImportMeta => true
    | EDot _ _ cr _ => cr
    | EClass c => can_remove c
    | EIdent ref cr kw => if kw then false else cr || negb (is_unbound ref)
    | EImportIdent _ => true
    | EIf c y n =>
      can_remove c && ((guard_ok y c true || can_remove y) && (guard_ok n c false || can_remove n))
    | EArray items =>
      forallb (fun item => match item with
                           | ESpread ((EArray _) as arr) => can_remove arr
                           | _ => can_remove item end) items
    | EObject props =>
      forallb (fun p => match p with
                        | PProp k computed _ _ _ key value _ _ =>
                          match k with
                          | KSpread => false
                          | _ => negb (computed && negb (is_primitive_literal key) && negb (is_symbol_instance key))
                                 && opt_all can_remove value
                          end
                        | _ => false end) props
    | ECall _ args pure => if pure then forallb can_remove args else false
    | ENew _ args pure => if pure then forallb can_remove args else false
    | EUnary op v flag =>
      match op with
      | UVoid | UNot => can_remove v
      | UNeg => match v with EBigInt _ => true | _ => false end
      | UTypeof => match v with
                   | EIdent _ _ _ => if flag then true else can_remove v
                   | _ => can_remove v end
      | _ => false
      end
    | EBinary op l r =>
      match op with
      | BStrictEq | BStrictNe | BComma | BNullish => can_remove l && can_remove r
      | BOr => can_remove l && (guard_ok r l false || can_remove r)
      | BAnd => can_remove l && (guard_ok r l true || can_remove r)
      | BLooseEq | BLooseNe => can_change_strict_to_loose l r && can_remove l && can_remove r
      | BLt | BGt | BLe | BGe =>
        match kpt l with
        | TString | TNumber | TBigInt => ptype_eqb (kpt r) (kpt l) && can_remove l && can_remove r
        | _ => false
        end
      | _ => false
      end
    | ETemplate tag pure parts =>
      match tag, pure with
      | Some _, false => false
      | _, _ => forallb (fun p => can_remove p && negb (ptype_eqb (kpt p) TUnknown)) parts
      end
    (* ClassCanBeRemovedIfUnused *)
    | CClass decorated ext props use_define =>
      negb decorated && opt_all can_remove ext &&
      forallb (fun p => match p with
        | PProp k computed static dec argdec key value init block =>
          match k with
          | KStaticBlock => forallb stmt_ok0 block
          | _ =>
            negb dec
            && negb (computed && negb (is_primitive_literal key) && negb (is_symbol_instance key))
            && negb (match k with KMethod => argdec | _ => false end)
            && (if static then opt_all can_remove value && opt_all can_remove init
                                && negb (match k with KField => negb use_define | _ => false end)
                else true)
          end
        | _ => false end) props
    | _ => false
    end
  (* StmtsCanBeRemovedIfUnused with flags = 0, one statement *)
  with stmt_ok0 (s : node) : bool :=
    match s with
    | SFunction | SEmpty | SImport | SExportFrom | SExportClause => true
    | SClass c => can_remove c
    | SReturn _ => false
    | SExpr e from => can_remove e || from
    | SLocal k decls =>
      match k with
      | LAwaitUsing => false
      | _ => forallb (fun d => match d with
          | DDecl b value =>
            (match b with
             | BIdent => true
             | BArray items =>
               match value with
               | Some (EArray _) =>
                 forallb (fun it => match it with
                   | BItem ib def => opt_all can_remove def
                                     && match ib with BIdent | BMissing => true | _ => false end
                   | _ => false end) items
               | _ => false
               end
             | _ => false
             end)
            && match value with
               | None => true
               | Some v => can_remove v
                           && (match k with
                               | LUsing => match kpt v with TNull | TUndefined => true | _ => false end
                               | _ => true end)
               end
          | _ => false end) decls
      end
    | STry block has_fin fin => forallb stmt_ok0 block && (negb has_fin || forallb stmt_ok0 fin)
    | SExportDefaultExpr e => can_remove e
    | SExportDefaultFn => true
    | SExportDefaultClass c => can_remove c
    | _ => false
    end.

  (* StmtsCanBeRemovedIfUnused(stmts, flags): the two flags only matter at the
     top level (nested calls pass 0) *)
  Definition stmt_ok (keep_export_clauses return_ok : bool) (s : node) : bool :=
    match s with
    | SReturn v => return_ok && opt_all can_remove v
    | SExportClause => negb keep_export_clauses
    | _ => stmt_ok0 s
    end.
  Definition stmts_can_remove (keep_export_clauses return_ok : bool) (l : list node) : bool :=
    forallb (stmt_ok keep_export_clauses return_ok) l.
End Classifier.
