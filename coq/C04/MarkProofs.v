(* C04 lemmas about the marking algorithm: the explicit-stack traversal computes
   exactly the least set closed under the specification's edges. *)
From V Require Import Common.Base C04.Parts C04.Mark C04.ReachSpec.

Lemma item_eqb_eq a b : item_eqb a b = true <-> a = b.
Proof.
  destruct a as [s|s i], b as [t|t j]; simpl; split; intro H; try discriminate.
  - apply Nat.eqb_eq in H. congruence.
  - inversion H. apply Nat.eqb_refl.
  - apply andb_true_iff in H as [H1 H2]. apply Nat.eqb_eq in H1, H2. congruence.
  - inversion H. rewrite !Nat.eqb_refl. reflexivity.
Qed.

(* ------------------------------------------------------------------ *)
(* generic: explicit-stack DFS = reachability *)
Section DFSProofs.
  Context {node : Type}.
  Variable eqb : node -> node -> bool.
  Variable succ : node -> list node.
  Hypothesis eqb_eq : forall a b, eqb a b = true <-> a = b.

  Lemma mem_In x l : mem eqb x l = true <-> In x l.
  Proof.
    unfold mem. rewrite existsb_exists. split.
    - intros [y [Hy He]]. apply eqb_eq in He. subst. exact Hy.
    - intro H. exists x. split; [exact H | apply eqb_eq; reflexivity].
  Qed.

  Inductive reach (roots : list node) : node -> Prop :=
  | reach_root r : In r roots -> reach roots r
  | reach_step x y : reach roots x -> In y (succ x) -> reach roots y.

  Lemma closed_complete roots visited :
    (forall x, In x visited -> reach roots x) ->
    (forall r, In r roots -> In r visited) ->
    (forall x y, In x visited -> In y (succ x) -> In y visited) ->
    forall x, In x visited <-> reach roots x.
  Proof.
    intros Hs Hr Hc x. split; [apply Hs|].
    induction 1 as [r Hin | a b Ha IH Hb]; [apply Hr; exact Hin | eapply Hc; eauto].
  Qed.

  Lemma dfs_inv roots : forall fuel visited stack L,
    dfs eqb succ fuel visited stack = Some L ->
    (forall x, In x visited \/ In x stack -> reach roots x) ->
    (forall r, In r roots -> In r visited \/ In r stack) ->
    (forall x y, In x visited -> In y (succ x) -> In y visited \/ In y stack) ->
    forall x, In x L <-> reach roots x.
  Proof.
    induction fuel as [|k IH]; intros visited stack L H Hs Hr Hc.
    - destruct stack as [|x rest]; simpl in H; [|discriminate].
      inversion H; subst L. apply closed_complete.
      + intros x Hx. apply Hs. left; exact Hx.
      + intros r Hin. destruct (Hr r Hin) as [A|[]]. exact A.
      + intros x y Hx Hy. destruct (Hc x y Hx Hy) as [A|[]]. exact A.
    - destruct stack as [|x rest]; simpl in H.
      + inversion H; subst L. apply closed_complete.
        * intros x Hx. apply Hs. left; exact Hx.
        * intros r Hin. destruct (Hr r Hin) as [A|[]]. exact A.
        * intros x y Hx Hy. destruct (Hc x y Hx Hy) as [A|[]]. exact A.
      + destruct (mem eqb x visited) eqn:M.
        * apply mem_In in M. eapply IH; [exact H| | |].
          -- intros z [Hz|Hz]; apply Hs; [left; exact Hz | right; right; exact Hz].
          -- intros r Hin. destruct (Hr r Hin) as [A|[A|A]]; [left; exact A | subst; left; exact M | right; exact A].
          -- intros a b Ha Hb. destruct (Hc a b Ha Hb) as [A|[A|A]]; [left; exact A | subst; left; exact M | right; exact A].
        * eapply IH; [exact H| | |].
          -- intros z [[Hz|Hz]|Hz].
             ++ subst. apply Hs. right; left; reflexivity.
             ++ apply Hs. left; exact Hz.
             ++ apply in_app_or in Hz as [Hz|Hz].
                ** eapply reach_step; [|exact Hz]. apply Hs. right; left; reflexivity.
                ** apply Hs. right; right; exact Hz.
          -- intros r Hin. destruct (Hr r Hin) as [A|[A|A]].
             ++ left; right; exact A.
             ++ left; left; exact A.
             ++ right. apply in_or_app. right; exact A.
          -- intros a b [Ha|Ha] Hb.
             ++ subst. right. apply in_or_app. left; exact Hb.
             ++ destruct (Hc a b Ha Hb) as [A|[A|A]].
                ** left; right; exact A.
                ** left; left; exact A.
                ** right. apply in_or_app. right; exact A.
  Qed.

  Theorem dfs_reach roots fuel L :
    dfs eqb succ fuel [] roots = Some L -> forall x, In x L <-> reach roots x.
  Proof.
    intro H. eapply dfs_inv; [exact H| | |].
    - intros x [[]|Hx]. apply reach_root; exact Hx.
    - intros r Hr. right; exact Hr.
    - intros x y [].
  Qed.

  (* termination: the fuel needed is bounded by the stack length plus, for every
     not yet visited node of a finite universe, one plus its out-degree *)
  Fixpoint weight (U visited : list node) : nat :=
    match U with
    | [] => O
    | u :: r => ((if mem eqb u visited then O else S (length (succ u))) + weight r visited)%nat
    end.

  Lemma weight_visit U : forall visited x,
    NoDup U -> In x U -> mem eqb x visited = false ->
    (weight U (x :: visited) + S (length (succ x)) = weight U visited)%nat.
  Proof.
    induction U as [|u r IH]; intros visited x ND Hin M; [destruct Hin|].
    inversion ND as [|? ? Hnotin ND']; subst. simpl weight.
    destruct Hin as [->|Hin].
    - assert (E : eqb x x = true) by (apply eqb_eq; reflexivity).
      simpl mem. rewrite E. simpl orb. rewrite M.
      assert (W : weight r (x :: visited) = weight r visited).
      { clear IH ND ND'. induction r as [|v r IHr]; [reflexivity|]. simpl weight.
        assert (eqb v x = false).
        { destruct (eqb v x) eqn:Ev; [|reflexivity]. apply eqb_eq in Ev. subst. exfalso. apply Hnotin. left; reflexivity. }
        simpl mem. rewrite H. simpl orb. rewrite IHr; [reflexivity|]. intro A. apply Hnotin. right; exact A. }
      rewrite W. lia.
    - assert (eqb u x = false).
      { destruct (eqb u x) eqn:Ev; [|reflexivity]. apply eqb_eq in Ev. subst. exfalso. apply Hnotin. exact Hin. }
      simpl mem. rewrite H. simpl orb. specialize (IH visited x ND' Hin M). lia.
  Qed.

  Lemma dfs_terminates U : NoDup U ->
    (forall x y, In x U -> In y (succ x) -> In y U) ->
    forall fuel visited stack,
      (forall x, In x stack -> In x U) ->
      (length stack + weight U visited <= fuel)%nat ->
      dfs eqb succ fuel visited stack <> None.
  Proof.
    intros ND HU. induction fuel as [|k IH]; intros visited stack Hst Hle.
    - destruct stack; simpl in *; [discriminate | lia].
    - destruct stack as [|x rest]; simpl; [discriminate|].
      destruct (mem eqb x visited) eqn:M.
      + apply IH; [intros z Hz; apply Hst; right; exact Hz | simpl in Hle; lia].
      + apply IH.
        * intros z Hz. apply in_app_or in Hz as [Hz|Hz]; [eapply HU; [apply Hst; left; reflexivity | exact Hz] | apply Hst; right; exact Hz].
        * pose proof (weight_visit U visited x ND (Hst x (or_introl eq_refl)) M) as W.
          rewrite app_length. simpl in Hle. lia.
  Qed.
End DFSProofs.

(* ------------------------------------------------------------------ *)
(* the import loop, split into its two results *)
Definition follows (g : graph) (r : import_rec) : bool :=
  ir_stmt r && ir_valid r && has_effects g (ir_target r).
Definition pins (g : graph) (r : import_rec) : bool :=
  ir_stmt r && ((ir_valid r && has_effects g (ir_target r)) || (negb (ir_valid r) && negb (ir_ext_pure r))).

Fixpoint scan_files (g : graph) (imps : list import_rec) : list nat :=
  match imps with
  | [] => []
  | r :: rest => if follows g r then ir_target r :: scan_files g rest else scan_files g rest
  end.

Definition removable_b (g : graph) (p : part) : bool :=
  p_can_remove p && forallb (fun r => negb (pins g r)) (p_imports p).

Lemma scan_false g imps : snd (scan_imports g imps false) = false.
Proof.
  induction imps as [|r rest IH]; simpl; [reflexivity|].
  destruct (ir_stmt r); simpl; [|exact IH].
  destruct (ir_valid r); simpl.
  - destruct (has_effects g (ir_target r)); simpl; [|exact IH].
    destruct (scan_imports g rest false) as [fs c] eqn:E. simpl in *. exact IH.
  - destruct (ir_ext_pure r); exact IH.
Qed.

Lemma scan_split g imps : forall can,
  scan_imports g imps can = (scan_files g imps, can && forallb (fun r => negb (pins g r)) imps).
Proof.
  induction imps as [|r rest IH]; intro can; simpl.
  - rewrite andb_true_r. reflexivity.
  - unfold follows, pins.
    destruct (ir_stmt r); simpl; [|apply IH].
    destruct (ir_valid r); simpl.
    + destruct (has_effects g (ir_target r)); simpl; [|apply IH].
      rewrite (IH false). simpl. rewrite andb_false_r. reflexivity.
    + destruct (ir_ext_pure r); simpl; [apply IH|].
      rewrite (IH false). simpl. rewrite andb_false_r. reflexivity.
Qed.

Lemma follows_iff g r : follows g r = true <-> followed_import g r.
Proof.
  unfold follows, followed_import. rewrite !andb_true_iff. tauto.
Qed.

Lemma pins_iff g r : pins g r = true <-> pinning_import g r.
Proof.
  unfold pins, pinning_import.
  rewrite andb_true_iff, orb_true_iff, !andb_true_iff, !negb_true_iff. tauto.
Qed.

Lemma scan_files_In g imps t :
  In t (scan_files g imps) <-> exists r, In r imps /\ followed_import g r /\ ir_target r = t.
Proof.
  induction imps as [|r rest IH]; simpl.
  - split; [intros [] | intros [r [[] _]]].
  - destruct (follows g r) eqn:F; simpl; rewrite IH; split.
    + intros [E|[r' [Hin Hr']]].
      * exists r. split; [left; reflexivity|]. split; [apply follows_iff; exact F | exact E].
      * exists r'. split; [right; exact Hin | exact Hr'].
    + intros [r' [[E|Hin] [Hf Ht]]].
      * subst r'. left; exact Ht.
      * right. exists r'. auto.
    + intros [r' [Hin Hr']]. exists r'. split; [right; exact Hin | exact Hr'].
    + intros [r' [[E|Hin] [Hf Ht]]].
      * subst r'. apply follows_iff in Hf. congruence.
      * exists r'. auto.
Qed.

Lemma removable_iff g p : removable_b g p = true <-> removable g p.
Proof.
  unfold removable_b, removable. rewrite andb_true_iff, forallb_forall.
  split; intros [H1 H2]; split; try exact H1; intros r Hin.
  - intro P. apply pins_iff in P. specialize (H2 r Hin). rewrite P in H2. discriminate.
  - destruct (pins g r) eqn:P; [|reflexivity]. exfalso. apply (H2 r Hin). apply pins_iff; exact P.
Qed.

Lemma removable_dec g p : removable g p \/ ~ removable g p.
Proof.
  destruct (removable_b g p) eqn:E; [left; apply removable_iff; exact E|].
  right. intro R. apply removable_iff in R. congruence.
Qed.

Definition must_keep_b (g : graph) (entry : bool) (p : part) : bool :=
  negb (removable_b g p) || (negb (p_force_ts p) && negb (g_tree_shaking g) && entry).

Lemma must_keep_iff g f p : must_keep_b g (f_entry f) p = true <-> must_keep g f p.
Proof.
  unfold must_keep_b, must_keep.
  rewrite orb_true_iff, !andb_true_iff, !negb_true_iff. split.
  - intros [H|[[H1 H2] H3]]; [left | right; auto].
    intro R. apply removable_iff in R. congruence.
  - intros [H|[H1 [H2 H3]]]; [left | right; auto].
    destruct (removable_b g p) eqn:E; [|reflexivity]. exfalso. apply H. apply removable_iff; exact E.
Qed.

Lemma must_keep_dec g f p : must_keep g f p \/ ~ must_keep g f p.
Proof.
  destruct (must_keep_b g (f_entry f) p) eqn:E; [left; apply must_keep_iff; exact E|].
  right. intro R. apply must_keep_iff in R. congruence.
Qed.

Lemma part_succ_eq g s e i p :
  part_succ g s e i p =
  map IFile (scan_files g (p_imports p)) ++ (if must_keep_b g e p then [IPart s i] else []).
Proof.
  unfold part_succ, must_keep_b, removable_b. rewrite scan_split. reflexivity.
Qed.

Lemma parts_succ_In g s e : forall ps i0 y,
  In y (parts_succ g s e i0 ps) <->
  exists k p, nth_error ps k = Some p /\ In y (part_succ g s e (i0 + k) p).
Proof.
  induction ps as [|p r IH]; intros i0 y; simpl.
  - split; [intros [] | intros [k [p [H _]]]; destruct k; discriminate].
  - rewrite in_app_iff, IH. split.
    + intros [H|[k [q [Hn Hy]]]].
      * exists O, p. rewrite Nat.add_0_r. split; [reflexivity | exact H].
      * exists (S k), q. split; [exact Hn|]. replace (i0 + S k)%nat with (S i0 + k)%nat by lia. exact Hy.
    + intros [k [q [Hn Hy]]]. destruct k as [|k]; simpl in Hn.
      * inversion Hn; subst q. rewrite Nat.add_0_r in Hy. left; exact Hy.
      * right. exists k, q. split; [exact Hn|]. replace (S i0 + k)%nat with (i0 + S k)%nat by lia. exact Hy.
Qed.

Lemma get_part_inv g s i p :
  get_part g s i = Some p <->
  exists f, get_file g s = Some f /\ f_repr f = RJS /\ nth_error (f_parts f) i = Some p.
Proof.
  unfold get_part. split.
  - destruct (get_file g s) as [f|]; [|discriminate]. destruct (f_repr f) eqn:R; try discriminate.
    intro H. exists f. auto.
  - intros [f [-> [-> H]]]. exact H.
Qed.

(* one call-list of the traversal = one step of the specification *)
Lemma succ_edge g x y : In y (succ g x) <-> edge g x y.
Proof.
  split.
  - destruct x as [s|s i]; simpl.
    + destruct (get_file g s) as [f|] eqn:F; [|intros []].
      destruct (f_repr f) eqn:R; [intros [] | |].
      * rewrite in_app_iff. intros [H|H].
        -- destruct (f_css f) as [c|] eqn:C; [|destruct H]. destruct H as [<-|[]].
           eapply e_css_stub; eauto.
        -- apply parts_succ_In in H as [k [p [Hn Hy]]]. simpl in Hy.
           rewrite part_succ_eq, in_app_iff in Hy. destruct Hy as [Hy|Hy].
           ++ apply in_map_iff in Hy as [t [<- Ht]]. apply scan_files_In in Ht as [r [Hin [Hf <-]]].
              eapply e_import; eauto.
           ++ destruct (must_keep_b g (f_entry f) p) eqn:K; [|destruct Hy]. destruct Hy as [<-|[]].
              eapply e_keep; eauto. apply must_keep_iff; exact K.
      * intro H. apply in_map_iff in H as [t [<- Ht]]. eapply e_css_import; eauto.
    + destruct (get_part g s i) as [p|] eqn:P; [|intros []].
      intros [<-|H]; [eapply e_part_file; eauto|].
      apply in_map_iff in H as [[t j] [<- Hd]]. simpl. eapply e_dep; eauto.
  - intro E. destruct E as [s f c F R C | s f t F R Hin | s f i p r F R Hn Hin Hf | s f i p F R Hn K | s i p P | s i p t j P Hd]; simpl.
    + rewrite F, R, C. left; reflexivity.
    + rewrite F, R. apply in_map. exact Hin.
    + rewrite F, R. apply in_or_app. right. apply parts_succ_In. exists i, p. split; [exact Hn|]. simpl.
      rewrite part_succ_eq. apply in_or_app. left. apply in_map. apply scan_files_In. exists r. auto.
    + rewrite F, R. apply in_or_app. right. apply parts_succ_In. exists i, p. split; [exact Hn|]. simpl.
      rewrite part_succ_eq. apply in_or_app. right. apply must_keep_iff in K. rewrite K. left; reflexivity.
    + rewrite P. left; reflexivity.
    + rewrite P. right. apply in_map_iff. exists (t, j). split; [reflexivity | exact Hd].
Qed.

Lemma reach_live g x : reach (succ g) (roots g) x <-> live g x.
Proof.
  split; induction 1.
  - unfold roots in H. apply in_map_iff in H as [s [<- Hs]]. apply live_entry; exact Hs.
  - eapply live_edge; [eassumption | apply succ_edge; assumption].
  - apply reach_root. unfold roots. apply in_map. exact H.
  - eapply reach_step; [eassumption | apply succ_edge; assumption].
Qed.

Lemma mark_live g fuel L : mark g fuel = Some L -> forall x, In x L <-> live g x.
Proof.
  intros H x. unfold mark in H.
  rewrite (dfs_reach item_eqb (succ g) item_eqb_eq (roots g) fuel L H x). apply reach_live.
Qed.

Lemma is_live_iff g fuel L x : mark g fuel = Some L -> (is_live L x = true <-> live g x).
Proof.
  intro H. unfold is_live. rewrite (mem_In item_eqb item_eqb_eq). apply (mark_live g fuel L H).
Qed.

Lemma live_least g (S : item -> Prop) : closed g S -> forall x, live g x -> S x.
Proof.
  intros [Hr Hc] x H. induction H; [apply Hr; assumption | eapply Hc; eassumption].
Qed.

Lemma live_closed g : closed g (live g).
Proof. split; [apply live_entry | intros x y; apply live_edge]. Qed.

(* ------------------------------------------------------------------ *)
(* the default fuel always suffices *)
Lemma enum_parts_In s : forall ps i0 k p,
  nth_error ps k = Some p -> In (IPart s (i0 + k)) (enum_parts s i0 ps).
Proof.
  induction ps as [|q r IH]; intros i0 k p H; [destruct k; discriminate|].
  destruct k as [|k]; simpl.
  - rewrite Nat.add_0_r. left; reflexivity.
  - right. replace (i0 + S k)%nat with (S i0 + k)%nat by lia. eapply IH. exact H.
Qed.

Lemma enum_files_In : forall fs s0 k f,
  nth_error fs k = Some f ->
  In (IFile (s0 + k)) (enum_files s0 fs) /\
  (forall i p, nth_error (f_parts f) i = Some p -> In (IPart (s0 + k) i) (enum_files s0 fs)).
Proof.
  induction fs as [|f0 r IH]; intros s0 k f H; [destruct k; discriminate|].
  destruct k as [|k]; simpl in H |- *.
  - inversion H; subst f0. rewrite Nat.add_0_r. split; [left; reflexivity|].
    intros i p Hp. right. apply in_or_app. left. apply (enum_parts_In s0 (f_parts f) 0 i p Hp).
  - destruct (IH (S s0) k f H) as [A B].
    replace (s0 + S k)%nat with (S s0 + k)%nat by lia.
    split; [right; apply in_or_app; right; exact A|].
    intros i p Hp. right. apply in_or_app. right. exact (B i p Hp).
Qed.

Lemma succ_nonempty_enum g x y : In y (succ g x) -> In x (enum_files 0 (g_files g)).
Proof.
  destruct x as [s|s i]; simpl.
  - destruct (get_file g s) as [f|] eqn:F; [|intros []]. intros _.
    apply (enum_files_In (g_files g) 0 s f F).
  - destruct (get_part g s i) as [p|] eqn:P; [|intros []]. intros _.
    apply get_part_inv in P as [f [F [R Hn]]].
    apply (proj2 (enum_files_In (g_files g) 0 s f F) i p Hn).
Qed.

Lemma weight_nil_out g U : weight item_eqb (succ g) U [] = out_weight g U.
Proof. induction U as [|u r IH]; simpl; [reflexivity | rewrite IH; reflexivity]. Qed.

Lemma mark_fuel_ok g : mark g (default_fuel g) <> None.
Proof.
  unfold mark, default_fuel.
  apply (dfs_terminates item_eqb (succ g) item_eqb_eq (universe g)).
  - apply NoDup_nodup.
  - intros x y Hx Hy. unfold universe in *. apply nodup_In. apply nodup_In in Hx.
    apply in_or_app. right. apply in_flat_map. exists x. split; [|exact Hy].
    apply in_app_or in Hx as [Hx|Hx]; [exact Hx|].
    apply in_or_app. right. eapply succ_nonempty_enum. exact Hy.
  - intros x Hx. unfold universe. apply nodup_In. apply in_or_app. left. apply in_or_app. left. exact Hx.
  - rewrite weight_nil_out. lia.
Qed.

(* ------------------------------------------------------------------ *)
(* closure, purity of what is dropped, tree shaking switched off *)
Lemma live_dep g s i p t j :
  live g (IPart s i) -> get_part g s i = Some p -> In (t, j) (p_deps p) -> live g (IPart t j).
Proof. intros L P D. eapply live_edge; [exact L | eapply e_dep; eauto]. Qed.

Lemma live_part_file g s i p : live g (IPart s i) -> get_part g s i = Some p -> live g (IFile s).
Proof. intros L P. eapply live_edge; [exact L | eapply e_part_file; eauto]. Qed.

Lemma no_dangling g s i p u t j :
  deps_cover_uses g ->
  live g (IPart s i) -> get_part g s i = Some p -> In u (p_uses p) -> declares g t j u ->
  live g (IPart t j) /\ live g (IFile t).
Proof.
  intros C L P U D. destruct (C s i p u t j P U D) as [[-> ->]|Hd].
  - split; [exact L | eapply live_part_file; eauto].
  - assert (L2 : live g (IPart t j)) by (eapply live_dep; eauto).
    split; [exact L2|]. destruct D as [q [Q _]]. eapply live_part_file; eauto.
Qed.

Lemma dead_part_removable g s f i p :
  live g (IFile s) -> get_file g s = Some f -> f_repr f = RJS -> nth_error (f_parts f) i = Some p ->
  ~ live g (IPart s i) ->
  removable g p /\ (g_tree_shaking g = false -> f_entry f = true -> p_force_ts p = true).
Proof.
  intros L F R Hn D.
  assert (NK : ~ must_keep g f p).
  { intro K. apply D. eapply live_edge; [exact L | eapply e_keep; eauto]. }
  split.
  - destruct (removable_dec g p) as [A|A]; [exact A|]. exfalso. apply NK. left; exact A.
  - intros T E. destruct (p_force_ts p) eqn:FT; [reflexivity|]. exfalso. apply NK. right. auto.
Qed.

Lemma ts_off_entry_parts g s f i p :
  g_tree_shaking g = false -> live g (IFile s) -> get_file g s = Some f -> f_repr f = RJS ->
  f_entry f = true -> nth_error (f_parts f) i = Some p -> p_force_ts p = false ->
  live g (IPart s i).
Proof.
  intros T L F R E Hn FT. eapply live_edge; [exact L | eapply e_keep; eauto]. right. auto.
Qed.

(* ------------------------------------------------------------------ *)
(* annotations: g' is g with more purity annotations (some files lose their
   side-effects flag, some parts become removable); nothing else changes *)
Definition part_le (p p' : part) : Prop :=
  p_force_ts p = p_force_ts p' /\ p_imports p = p_imports p' /\ p_deps p = p_deps p' /\
  (p_can_remove p = true -> p_can_remove p' = true).

Definition file_le (f f' : file) : Prop :=
  f_repr f = f_repr f' /\ f_entry f = f_entry f' /\ f_css f = f_css f' /\
  f_css_imports f = f_css_imports f' /\ (f_effects f' = true -> f_effects f = true) /\
  Forall2 part_le (f_parts f) (f_parts f').

Definition annot_le (g g' : graph) : Prop :=
  g_tree_shaking g = g_tree_shaking g' /\ g_ignore_dce g = g_ignore_dce g' /\
  g_entries g = g_entries g' /\ Forall2 file_le (g_files g) (g_files g').

Lemma Forall2_nth {A B} (R : A -> B -> Prop) l l' :
  Forall2 R l l' ->
  forall k, match nth_error l k, nth_error l' k with
            | Some a, Some b => R a b
            | None, None => True
            | _, _ => False
            end.
Proof.
  induction 1 as [|a b l l' Hab _ IH]; intro k; destruct k; simpl; auto. apply IH.
Qed.

Section Annot.
  Variables g g' : graph.
  Hypothesis LE : annot_le g g'.

  Lemma file_pair s :
    match get_file g s, get_file g' s with
    | Some f, Some f' => file_le f f'
    | None, None => True
    | _, _ => False
    end.
  Proof. destruct LE as [_ [_ [_ H]]]. apply (Forall2_nth _ _ _ H s). Qed.

  Lemma file_fwd s f : get_file g s = Some f -> exists f', get_file g' s = Some f' /\ file_le f f'.
  Proof.
    intro F. pose proof (file_pair s) as P. rewrite F in P.
    destruct (get_file g' s) as [f'|]; [exists f'; auto | destruct P].
  Qed.

  Lemma file_bwd s f' : get_file g' s = Some f' -> exists f, get_file g s = Some f /\ file_le f f'.
  Proof.
    intro F. pose proof (file_pair s) as P. rewrite F in P.
    destruct (get_file g s) as [f|]; [exists f; auto | destruct P].
  Qed.

  Lemma part_fwd f f' i p : file_le f f' -> nth_error (f_parts f) i = Some p ->
    exists p', nth_error (f_parts f') i = Some p' /\ part_le p p'.
  Proof.
    intros [_ [_ [_ [_ [_ H]]]]] Hn. pose proof (Forall2_nth _ _ _ H i) as P. rewrite Hn in P.
    destruct (nth_error (f_parts f') i) as [p'|]; [exists p'; auto | destruct P].
  Qed.

  Lemma part_bwd f f' i p' : file_le f f' -> nth_error (f_parts f') i = Some p' ->
    exists p, nth_error (f_parts f) i = Some p /\ part_le p p'.
  Proof.
    intros [_ [_ [_ [_ [_ H]]]]] Hn. pose proof (Forall2_nth _ _ _ H i) as P. rewrite Hn in P.
    destruct (nth_error (f_parts f) i) as [p|]; [exists p; auto | destruct P].
  Qed.

  Lemma effects_mono t : has_effects g' t = true -> has_effects g t = true.
  Proof.
    unfold has_effects. pose proof (file_pair t) as P.
    destruct (get_file g t) as [f|]; destruct (get_file g' t) as [f'|]; try contradiction; auto.
    destruct LE as [_ [E _]]. rewrite E. destruct P as [_ [_ [_ [_ [H _]]]]].
    rewrite !orb_true_iff. intros [A|A]; auto.
  Qed.

  Lemma pinning_mono r : pinning_import g' r -> pinning_import g r.
  Proof.
    intros [A [[B C]|B]]; split; auto. left. split; auto. apply effects_mono; exact C.
  Qed.

  Lemma removable_mono p p' : part_le p p' -> removable g p -> removable g' p'.
  Proof.
    intros [_ [I [_ C]]] [R1 R2]. split; [auto|]. intros r Hin P. rewrite <- I in Hin.
    apply (R2 r Hin). apply pinning_mono; exact P.
  Qed.

  Lemma must_keep_mono f f' p p' : file_le f f' -> part_le p p' -> must_keep g' f' p' -> must_keep g f p.
  Proof.
    intros FL PL [K|[A [B C]]].
    - left. intro R. apply K. eapply removable_mono; eauto.
    - right. destruct PL as [E _]. destruct FL as [_ [E2 _]]. destruct LE as [T _].
      rewrite E, T, E2. auto.
  Qed.

  Lemma get_part_fwd s i p : get_part g s i = Some p ->
    exists p', get_part g' s i = Some p' /\ part_le p p'.
  Proof.
    intro P. apply get_part_inv in P as [f [F [R Hn]]].
    destruct (file_fwd s f F) as [f' [F' FL]]. destruct (part_fwd f f' i p FL Hn) as [p' [Hn' PL]].
    exists p'. split; [|exact PL]. apply get_part_inv. exists f'. destruct FL as [E _]. rewrite <- E. auto.
  Qed.

  Lemma get_part_bwd s i p' : get_part g' s i = Some p' ->
    exists p, get_part g s i = Some p /\ part_le p p'.
  Proof.
    intro P. apply get_part_inv in P as [f' [F' [R Hn]]].
    destruct (file_bwd s f' F') as [f [F FL]]. destruct (part_bwd f f' i p' FL Hn) as [p [Hn' PL]].
    exists p. split; [|exact PL]. apply get_part_inv. exists f. destruct FL as [E _]. rewrite E. auto.
  Qed.

  (* every edge of the annotated graph is an edge of the original graph *)
  Lemma edge_mono x y : edge g' x y -> edge g x y.
  Proof.
    intro E. destruct E as [s f' c F R C | s f' t F R Hin | s f' i p' r F R Hn Hin Hf | s f' i p' F R Hn K | s i p' P | s i p' t j P Hd].
    - destruct (file_bwd s f' F) as [f [F0 FL]]. pose proof FL as [E1 [_ [E3 _]]].
      eapply e_css_stub; eauto; congruence.
    - destruct (file_bwd s f' F) as [f [F0 FL]]. pose proof FL as [E1 [_ [_ [E4 _]]]].
      eapply e_css_import; eauto; congruence.
    - destruct (file_bwd s f' F) as [f [F0 FL]]. destruct (part_bwd f f' i p' FL Hn) as [p [Hn0 PL]].
      pose proof FL as [E1 _]. pose proof PL as [_ [I _]].
      eapply e_import; eauto; try congruence.
      destruct Hf as [A [B C]]. split; [|split]; auto. apply effects_mono; exact C.
    - destruct (file_bwd s f' F) as [f [F0 FL]]. destruct (part_bwd f f' i p' FL Hn) as [p [Hn0 PL]].
      pose proof FL as [E1 _].
      eapply e_keep; eauto; try congruence. eapply must_keep_mono; eauto.
    - destruct (get_part_bwd s i p' P) as [p [P0 _]]. eapply e_part_file; eauto.
    - destruct (get_part_bwd s i p' P) as [p [P0 [_ [_ [D _]]]]]. eapply e_dep; eauto. congruence.
  Qed.

  Lemma annot_shrinks x : live g' x -> live g x.
  Proof.
    induction 1 as [s Hs | a b _ IH E].
    - apply live_entry. destruct LE as [_ [_ [E _]]]. rewrite E. exact Hs.
    - eapply live_edge; [exact IH | apply edge_mono; exact E].
  Qed.

  (* the items whose own status an annotation changed: a file that is no
     longer imported for its side effects, a part that became removable *)
  Inductive changed : item -> Prop :=
  | ch_file t : has_effects g t = true -> has_effects g' t = false -> changed (IFile t)
  | ch_part s f f' i p p' :
      get_file g s = Some f -> get_file g' s = Some f' ->
      nth_error (f_parts f) i = Some p -> nth_error (f_parts f') i = Some p' ->
      ~ removable g p -> removable g' p' -> changed (IPart s i).

  Lemma path_trans_edge a x y : path g a x -> edge g x y -> path g a y.
  Proof. intros; eapply path_step; eauto. Qed.

  Lemma annot_widens x :
    live g x -> live g' x \/ exists a, changed a /\ live g a /\ path g a x.
  Proof.
    induction 1 as [s Hs | x y Lx IH E].
    - left. apply live_entry. destruct LE as [_ [_ [E _]]]. rewrite <- E. exact Hs.
    - destruct IH as [L'|[a [Ca [La Pa]]]]; [|right; exists a; split; [exact Ca | split; [exact La | eapply path_step; eauto]]].
      destruct E as [s f c F R C | s f t F R Hin | s f i p r F R Hn Hin Hf | s f i p F R Hn K | s i p P | s i p t j P Hd].
      + left. destruct (file_fwd s f F) as [f' [F' FL]]. pose proof FL as [E1 [_ [E3 _]]].
        eapply live_edge; [exact L' | eapply e_css_stub; eauto; congruence].
      + left. destruct (file_fwd s f F) as [f' [F' FL]]. pose proof FL as [E1 [_ [_ [E4 _]]]].
        eapply live_edge; [exact L' | eapply e_css_import; eauto; congruence].
      + destruct (file_fwd s f F) as [f' [F' FL]]. destruct (part_fwd f f' i p FL Hn) as [p' [Hn' PL]].
        pose proof FL as [E1 _]. pose proof PL as [_ [I _]]. destruct Hf as [A [B C]].
        destruct (has_effects g' (ir_target r)) eqn:H'.
        * left. eapply live_edge; [exact L' | eapply e_import; eauto; try congruence].
          split; [|split]; auto.
        * right. exists (IFile (ir_target r)). split; [apply ch_file; auto|]. split; [|apply path_refl].
          eapply live_edge; [exact Lx | eapply e_import; eauto]. split; [|split]; auto.
      + destruct (file_fwd s f F) as [f' [F' FL]]. destruct (part_fwd f f' i p FL Hn) as [p' [Hn' PL]].
        pose proof FL as [E1 [E2 _]].
        destruct (must_keep_dec g' f' p') as [K'|NK'].
        * left. eapply live_edge; [exact L' | eapply e_keep; eauto; congruence].
        * right. exists (IPart s i). split; [|split; [|apply path_refl]].
          -- destruct K as [K|[A [B C]]].
             ++ eapply ch_part; eauto.
                destruct (removable_dec g' p') as [Rm|Rm]; [exact Rm|]. exfalso. apply NK'. left; exact Rm.
             ++ exfalso. apply NK'. right. destruct PL as [E _]. destruct LE as [T _].
                rewrite <- E, <- T, <- E2. auto.
          -- eapply live_edge; [exact Lx | eapply e_keep; eauto].
      + left. destruct (get_part_fwd s i p P) as [p' [P' _]].
        eapply live_edge; [exact L' | eapply e_part_file; eauto].
      + left. destruct (get_part_fwd s i p P) as [p' [P' [_ [_ [D _]]]]].
        eapply live_edge; [exact L' | eapply e_dep; eauto; congruence].
  Qed.
End Annot.

Lemma mark_total_reach g :
  exists L, mark g (default_fuel g) = Some L /\
    (forall x, In x L <-> live g x) /\
    (forall S, closed g S -> forall x, In x L -> S x).
Proof.
  destruct (mark g (default_fuel g)) as [L|] eqn:H.
  - exists L. split; [reflexivity|]. split; [apply (mark_live g _ L H)|].
    intros S C x Hx. apply (live_least g S C). apply (mark_live g _ L H). exact Hx.
  - exfalso. apply (mark_fuel_ok g H).
Qed.

Lemma annot_widens_neg g g' : annot_le g g' -> forall x,
  live g x -> ~ live g' x -> exists a, changed g g' a /\ live g a /\ path g a x.
Proof.
  intros LE x L N. destruct (annot_widens g g' LE x L) as [L'|E]; [destruct (N L') | exact E].
Qed.

(* liveness is decidable (by running the traversal) *)
Lemma live_dec g x : live g x \/ ~ live g x.
Proof.
  destruct (mark_total_reach g) as [L [_ [H _]]].
  destruct (mem item_eqb x L) eqn:M.
  - left. apply H. apply (mem_In item_eqb item_eqb_eq). exact M.
  - right. intro Lx. apply H in Lx. apply (mem_In item_eqb item_eqb_eq) in Lx. congruence.
Qed.

(* the sharp form: the witness is itself dead in the annotated graph, i.e. what
   additionally disappears hangs on an item that an annotation REMOVED *)
Lemma annot_widens_sharp g g' : annot_le g g' -> forall x,
  live g x -> ~ live g' x ->
  exists a, changed g g' a /\ live g a /\ ~ live g' a /\ path g a x.
Proof.
  intros LE x L. induction L as [s Hs | y x Ly IH E]; intro N.
  - exfalso. apply N. apply live_entry. destruct LE as [_ [_ [En _]]]. rewrite <- En. exact Hs.
  - destruct (live_dec g' y) as [L'|NL'].
    + (* the predecessor survives: the edge itself must have been cut, so x is the changed item *)
      assert (Lx : live g x) by (eapply live_edge; eauto).
      destruct (annot_widens g g' LE x Lx) as [Lx'|_]; [destruct (N Lx')|].
      exists x. split; [|split; [exact Lx | split; [exact N | apply path_refl]]].
      destruct E as [s f c F R C | s f t F R Hin | s f i p r F R Hn Hin Hf | s f i p F R Hn K | s i p P | s i p t j P Hd].
      * exfalso. apply N. destruct (file_fwd g g' LE s f F) as [f' [F' FL]]. pose proof FL as [E1 [_ [E3 _]]].
        eapply live_edge; [exact L' | eapply e_css_stub; eauto; congruence].
      * exfalso. apply N. destruct (file_fwd g g' LE s f F) as [f' [F' FL]]. pose proof FL as [E1 [_ [_ [E4 _]]]].
        eapply live_edge; [exact L' | eapply e_css_import; eauto; congruence].
      * destruct (file_fwd g g' LE s f F) as [f' [F' FL]]. destruct (part_fwd f f' i p FL Hn) as [p' [Hn' PL]].
        pose proof FL as [E1 _]. pose proof PL as [_ [I _]]. destruct Hf as [A [B C]].
        destruct (has_effects g' (ir_target r)) eqn:H'.
        -- exfalso. apply N. eapply live_edge; [exact L' | eapply e_import; eauto; try congruence]. split; [|split]; auto.
        -- apply ch_file; auto.
      * destruct (file_fwd g g' LE s f F) as [f' [F' FL]]. destruct (part_fwd f f' i p FL Hn) as [p' [Hn' PL]].
        pose proof FL as [E1 [E2 _]].
        destruct (must_keep_dec g' f' p') as [K'|NK'].
        -- exfalso. apply N. eapply live_edge; [exact L' | eapply e_keep; eauto; congruence].
        -- destruct K as [K|[A [B C]]].
           ++ eapply ch_part; eauto.
              destruct (removable_dec g' p') as [Rm|Rm]; [exact Rm|]. exfalso. apply NK'. left; exact Rm.
           ++ exfalso. apply NK'. right. destruct PL as [Ef _]. destruct LE as [T _].
              rewrite <- Ef, <- T, <- E2. auto.
      * exfalso. apply N. destruct (get_part_fwd g g' LE s i p P) as [p' [P' _]].
        eapply live_edge; [exact L' | eapply e_part_file; eauto].
      * exfalso. apply N. destruct (get_part_fwd g g' LE s i p P) as [p' [P' [_ [_ [D _]]]]].
        eapply live_edge; [exact L' | eapply e_dep; eauto; congruence].
    + destruct (IH NL') as [a [Ca [La [Na Pa]]]].
      exists a. split; [exact Ca | split; [exact La | split; [exact Na | eapply path_step; eauto]]].
Qed.
