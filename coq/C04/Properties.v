(* C04 property theorems. Only statements closed by [exact lemma], each
   followed by Print Assumptions. *)
From V Require Import Common.Base C04.Parts C04.Mark C04.ReachSpec C04.MarkProofs
  C04.Harness C04.HarnessProofs C04.Examples.

(* The traversal of markFileLiveForTreeShaking / markPartLiveForTreeShaking
   terminates on every graph and marks exactly the least set that contains the
   entry points and is closed under the specification's edges: an item is
   omitted iff it is unreachable. *)
Theorem mark_is_reachability : forall g,
  exists L, mark g (default_fuel g) = Some L /\
    (forall x, In x L <-> live g x) /\
    (forall S, closed g S -> forall x, In x L -> S x).
Proof. exact mark_total_reach. Qed.
Print Assumptions mark_is_reachability.

(* any fuel: a result, if produced, is the live set *)
Theorem mark_result_is_live_set : forall g fuel L,
  mark g fuel = Some L -> forall x, In x L <-> live g x.
Proof. exact mark_live. Qed.
Print Assumptions mark_result_is_live_set.

(* A live part's dependencies are live: with dependency lists that cover the
   declaring parts of the symbols a part uses (checked on every dumped graph by
   Harness.deps_cover_uses_b, proved sound below), no live part refers to a
   binding whose declaring part, or whose file, was removed. *)
Theorem live_closed_under_deps : forall g s i p u t j,
  deps_cover_uses g ->
  live g (IPart s i) -> get_part g s i = Some p -> In u (p_uses p) -> declares g t j u ->
  live g (IPart t j) /\ live g (IFile t).
Proof. exact no_dangling. Qed.
Print Assumptions live_closed_under_deps.

Theorem cover_check_sound : forall g, deps_cover_uses_b g = true -> deps_cover_uses g.
Proof. exact deps_cover_uses_b_sound. Qed.
Print Assumptions cover_check_sound.

(* Every part of a live file that is not marked was classified removable and
   is not pinned by an import kept for its side effects (and, when tree shaking
   is off in an entry point, is a generated part). *)
Theorem dead_parts_pure : forall g s f i p,
  live g (IFile s) -> get_file g s = Some f -> f_repr f = RJS -> nth_error (f_parts f) i = Some p ->
  ~ live g (IPart s i) ->
  removable g p /\ (g_tree_shaking g = false -> f_entry f = true -> p_force_ts p = true).
Proof. exact dead_part_removable. Qed.
Print Assumptions dead_parts_pure.

(* Annotations (sideEffects:false on files, purity annotations making parts
   removable) never make anything live ... *)
Theorem annotations_only_shrink_live : forall g g', annot_le g g' -> forall x, live g' x -> live g x.
Proof. exact annot_shrinks. Qed.
Print Assumptions annotations_only_shrink_live.

(* ... and whatever additionally disappears hangs, in the unannotated graph, on
   an item whose own status an annotation changed AND which is itself dead in
   the annotated graph: only annotated items, and what they alone kept alive,
   may additionally disappear. *)
Theorem annotations_only_widen : forall g g', annot_le g g' -> forall x,
  live g x -> ~ live g' x ->
  exists a, changed g g' a /\ live g a /\ ~ live g' a /\ path g a x.
Proof. exact annot_widens_sharp. Qed.
Print Assumptions annotations_only_widen.

(* liveness is decidable *)
Theorem live_decidable : forall g x, live g x \/ ~ live g x.
Proof. exact live_dec. Qed.
Print Assumptions live_decidable.

(* Tree shaking off keeps every non-generated part of a live entry point. *)
Theorem treeshake_off_keeps_entry_parts : forall g s f i p,
  g_tree_shaking g = false -> live g (IFile s) -> get_file g s = Some f -> f_repr f = RJS ->
  f_entry f = true -> nth_error (f_parts f) i = Some p -> p_force_ts p = false ->
  live g (IPart s i).
Proof. exact ts_off_entry_parts. Qed.
Print Assumptions treeshake_off_keeps_entry_parts.

(* "Tree shaking off keeps everything" is FALSE of the faithful model: a pure
   unused part of an imported (non entry) file is still dropped. The witness is
   replayed on the real bundler by the harness (kind "ts-off-drops-pure-part"):
   the dropped part is removable, so behaviour is unaffected. *)
Theorem treeshake_off_keeps_everything_refuted :
  exists g s i p,
    g_tree_shaking g = false /\ live g (IFile s) /\ get_part g s i = Some p /\
    p_force_ts p = false /\ ~ live g (IPart s i).
Proof. exact ts_off_keeps_everything_refuted_witness. Qed.
Print Assumptions treeshake_off_keeps_everything_refuted.

(* ---- purity classifier (model of Expr/Stmts/ClassCanBeRemovedIfUnused) ---- *)
From V Require Import C04.Purity C04.PuritySem C04.PurityProofs C04.PurityMain.

(* The classifier is sound for the FULL modelled AST - expressions, object and
   class members, class expressions/declarations (heritage, computed keys,
   static fields, static blocks), statements (declarations with array
   destructuring and defaults, try/finally, export default, return) - in the
   probe-trace semantics of PuritySem.v, for EVERY world: all user code (calls,
   getters and Proxy-like property reads, ToPrimitive/toString/valueOf,
   iteration, class heritage checks, everything outside the fragment) sits
   behind oracles that may emit any trace and may throw; the world has no other
   state, so "empty trace" is "world unchanged".
   A node WITHOUT purity annotations or parser-set purity flags ([plain]) that
   the classifier calls removable evaluates with an EMPTY trace and WITHOUT
   throwing. Visible hypotheses = esbuild's documented concessions:
     - declared identifiers are not read in their temporal dead zone;
     - import bindings are initialised;
     - a class heritage is a constructor whose "prototype" read runs no user code.
   Built-ins are intact (array-literal iteration and ToString of primitives run
   no user code: part of the semantics). Forms the semantics treats as opaque
   (all rejected by the classifier): decorators, parameter decorators, static
   fields with assign semantics, object / nested array patterns, destructuring
   of a non-literal, `using` of a non-nullish value, `await using`, catch
   clauses (run only after a throw), every expression or statement kind the
   classifier does not list. *)
Theorem can_be_removed_pure :
  forall (is_unbound : nat -> bool) (env glob imp : nat -> option value) (this_val : value)
         (o_toprim : nat -> outcome) (o_iter : value -> outcome) (o_get : value -> Z -> outcome)
         (o_opaque : node -> outcome) (o_annotated : node -> list value -> outcome)
         (rel_prim : binop -> value -> value -> bool) (loose_prim : value -> value -> bool)
         (o_heritage : value -> outcome) (default_runs : node -> nat -> bool),
    (forall r, is_unbound r = false -> env r <> None) ->
    (forall r, imp r <> None) ->
    (forall v, exists w, o_heritage v = ([], Ok w)) ->
    forall e, plain e = true -> can_remove is_unbound e = true ->
    exists v, eval is_unbound env glob imp this_val o_toprim o_iter o_get o_opaque o_annotated rel_prim loose_prim o_heritage default_runs e = ([], Ok v).
Proof. exact removable_silent_plain. Qed.
Print Assumptions can_be_removed_pure.

(* the same for statement lists: StmtsCanBeRemovedIfUnused(stmts, flags) *)
Theorem stmts_can_be_removed_pure :
  forall (is_unbound : nat -> bool) (env glob imp : nat -> option value) (this_val : value)
         (o_toprim : nat -> outcome) (o_iter : value -> outcome) (o_get : value -> Z -> outcome)
         (o_opaque : node -> outcome) (o_annotated : node -> list value -> outcome)
         (rel_prim : binop -> value -> value -> bool) (loose_prim : value -> value -> bool)
         (o_heritage : value -> outcome) (default_runs : node -> nat -> bool),
    (forall r, is_unbound r = false -> env r <> None) ->
    (forall r, imp r <> None) ->
    (forall v, exists w, o_heritage v = ([], Ok w)) ->
    forall keep_export_clauses return_ok l,
      forallb plain l = true -> stmts_can_remove is_unbound keep_export_clauses return_ok l = true ->
      exists v, exec_stmts is_unbound env glob imp this_val o_toprim o_iter o_get o_opaque o_annotated rel_prim loose_prim o_heritage default_runs l = ([], Ok v).
Proof. exact removable_stmts_silent_plain. Qed.
Print Assumptions stmts_can_be_removed_pure.

(* With annotations and parser-set flags: the same conclusions when every
   flagged node keeps its promise ([flags_ok]: a flagged global / property read
   is silent, an annotated call/new/template/expression really has no side
   effects, a statement marked as lowering residue of a removable class is
   silent, no identifier sits inside `with`). *)
Theorem can_be_removed_pure_annotated :
  forall (is_unbound : nat -> bool) (env glob imp : nat -> option value) (this_val : value)
         (o_toprim : nat -> outcome) (o_iter : value -> outcome) (o_get : value -> Z -> outcome)
         (o_opaque : node -> outcome) (o_annotated : node -> list value -> outcome)
         (rel_prim : binop -> value -> value -> bool) (loose_prim : value -> value -> bool)
         (o_heritage : value -> outcome) (default_runs : node -> nat -> bool),
    (forall r, is_unbound r = false -> env r <> None) ->
    (forall r, imp r <> None) ->
    (forall v, exists w, o_heritage v = ([], Ok w)) ->
    forall e,
      flags_ok is_unbound env glob imp this_val o_toprim o_iter o_get o_opaque o_annotated rel_prim loose_prim o_heritage default_runs e ->
      can_remove is_unbound e = true ->
      exists v, eval is_unbound env glob imp this_val o_toprim o_iter o_get o_opaque o_annotated rel_prim loose_prim o_heritage default_runs e = ([], Ok v).
Proof. exact removable_silent. Qed.
Print Assumptions can_be_removed_pure_annotated.

Theorem stmts_can_be_removed_pure_annotated :
  forall (is_unbound : nat -> bool) (env glob imp : nat -> option value) (this_val : value)
         (o_toprim : nat -> outcome) (o_iter : value -> outcome) (o_get : value -> Z -> outcome)
         (o_opaque : node -> outcome) (o_annotated : node -> list value -> outcome)
         (rel_prim : binop -> value -> value -> bool) (loose_prim : value -> value -> bool)
         (o_heritage : value -> outcome) (default_runs : node -> nat -> bool),
    (forall r, is_unbound r = false -> env r <> None) ->
    (forall r, imp r <> None) ->
    (forall v, exists w, o_heritage v = ([], Ok w)) ->
    forall keep_export_clauses return_ok l,
      all_ok (flags_ok is_unbound env glob imp this_val o_toprim o_iter o_get o_opaque o_annotated rel_prim loose_prim o_heritage default_runs) l ->
      stmts_can_remove is_unbound keep_export_clauses return_ok l = true ->
      exists v, exec_stmts is_unbound env glob imp this_val o_toprim o_iter o_get o_opaque o_annotated rel_prim loose_prim o_heritage default_runs l = ([], Ok v).
Proof. exact removable_stmts_silent. Qed.
Print Assumptions stmts_can_be_removed_pure_annotated.

(* The typeof guards recognised by isSideEffectFreeUnboundIdentifierRef are
   sound: if the guard evaluated to the truth value of the branch, reading the
   guarded unbound identifier does not throw. *)
Theorem typeof_guard_sound :
  forall (is_unbound : nat -> bool) (env glob imp : nat -> option value) (this_val : value)
         (o_toprim : nat -> outcome) (o_iter : value -> outcome) (o_get : value -> Z -> outcome)
         (o_opaque : node -> outcome) (o_annotated : node -> list value -> outcome)
         (rel_prim : binop -> value -> value -> bool) (loose_prim : value -> value -> bool)
         (o_heritage : value -> outcome) (default_runs : node -> nat -> bool)
         value guard is_yes gv,
    guard_ok is_unbound value guard is_yes = true ->
    flags_ok is_unbound env glob imp this_val o_toprim o_iter o_get o_opaque o_annotated rel_prim loose_prim o_heritage default_runs value ->
    flags_ok is_unbound env glob imp this_val o_toprim o_iter o_get o_opaque o_annotated rel_prim loose_prim o_heritage default_runs guard ->
    eval is_unbound env glob imp this_val o_toprim o_iter o_get o_opaque o_annotated rel_prim loose_prim o_heritage default_runs guard = ([], Ok gv) ->
    truthy gv = is_yes ->
    exists v, eval is_unbound env glob imp this_val o_toprim o_iter o_get o_opaque o_annotated rel_prim loose_prim o_heritage default_runs value = ([], Ok v).
Proof. exact guard_sound. Qed.
Print Assumptions typeof_guard_sound.

(* ---- how the graph is built (Build.v): part construction and the linker's
   dependency edges ---- *)
From V Require Import C04.Build C04.BuildProofs.

(* For EVERY program (any files, any top-level statements, tree shaking on or
   off, any entry points): in the graph built by splitting the statements into
   parts and linking symbol uses to declaring parts, every symbol a live part
   refers to is declared by live parts only - or by no part at all (unbound /
   external). With dead_parts_pure this is what lets "every removed part is
   removable" compose to the whole program: no kept code mentions removed code. *)
Theorem live_parts_define_all_used_symbols : forall ts ign entries prog s i p u t j,
  let g := link ts ign entries prog in
  live g (IPart s i) -> get_part g s i = Some p -> In u (p_uses p) -> declares g t j u ->
  live g (IPart t j) /\ live g (IFile t).
Proof. exact live_parts_define_uses. Qed.
Print Assumptions live_parts_define_all_used_symbols.

(* the edges added by the linker's "for ref in SymbolUses: for part in
   TopLevelSymbolToParts(ref)" loops discharge the hypothesis of
   live_closed_under_deps, for every graph *)
Theorem linked_deps_cover_uses : forall g, deps_cover_uses (add_deps g).
Proof. exact add_deps_covers. Qed.
Print Assumptions linked_deps_cover_uses.

(* toAST's TopLevelSymbolToParts lists exactly the parts that declare the symbol *)
Theorem top_level_symbol_to_parts_exact : forall ps u j,
  In j (top_level_symbol_to_parts ps u) <-> exists q, nth_error ps j = Some q /\ declares_b u q = true.
Proof. exact top_level_symbol_to_parts_spec. Qed.
Print Assumptions top_level_symbol_to_parts_exact.

(* splitting loses nothing: with tree shaking on every declarator becomes a part
   with exactly its declared symbols, uses and removability flag; with tree
   shaking off the single part contains them and is removable only if all are *)
Theorem part_construction_keeps_every_declarator : forall stmts d,
  In d (flat_map stmt_decls stmts) ->
  (exists q, In q (build_parts true stmts) /\ p_declares q = td_declares d /\ p_uses q = td_uses d /\ p_can_remove q = td_can_remove d)
  /\ (exists q, In q (build_parts false stmts) /\
        (forall u, In u (td_declares d) -> In u (p_declares q)) /\ (forall u, In u (td_uses d) -> In u (p_uses q)) /\
        (p_can_remove q = true -> td_can_remove d = true)).
Proof. exact build_parts_keeps_decls. Qed.
Print Assumptions part_construction_keeps_every_declarator.

(* ---- scope analysis (Scope.v) and the whole-program statement ---- *)
From V Require Import C04.Scope C04.ScopeProofs.

(* recordUsage through the scope chain records exactly the identifier
   occurrences that no enclosing function binds: the references that resolve
   to the module scope (or to an unbound global) *)
Theorem scope_analysis_records_module_references : forall e b y, In y (fv b e) <-> refers b e y.
Proof. exact fv_refers. Qed.
Print Assumptions scope_analysis_records_module_references.

Theorem analysis_uses_are_statement_references : forall D st y,
  In (zs y) (flat_map td_uses (stmt_decls (analyze D st))) <-> stmt_refers st y.
Proof. exact analyze_uses_spec. Qed.
Print Assumptions analysis_uses_are_statement_references.

Theorem analysis_declares_are_statement_names : forall D st x,
  In (zs x) (flat_map td_declares (stmt_decls (analyze D st))) <-> In x (stmt_names st).
Proof. exact analyze_declares_spec. Qed.
Print Assumptions analysis_declares_are_statement_names.

(* WHOLE PROGRAM. For every program of the statement language of Scope.v (any
   files, tree shaking on or off, any entry points), through scope analysis,
   the classifier, part construction, dependency linking and marking: removing
   the parts the linker marks dead leaves a program in which every identifier
   reference of the kept code still resolves to a retained declaration - or was
   unbound to begin with (no statement of the program declares that name). *)
Theorem removing_dead_parts_keeps_references_resolved : forall ts ign entries prog s i p x,
  let g := link_program ts ign entries prog in
  live g (IPart s i) -> get_part g s i = Some p -> In (zs x) (p_uses p) ->
  (~ In x (program_names prog))
  \/ ((exists t j, declares g t j (zs x)) /\
      forall t j, declares g t j (zs x) -> live g (IPart t j) /\ live g (IFile t)).
Proof. exact references_resolve. Qed.
Print Assumptions removing_dead_parts_keeps_references_resolved.

(* ---- dependencies beyond a part's own symbol uses ---- *)
(* Re-export chains (model): after linking the import bindings (linker step 6:
   ImportsToBind x LocalPartsWithUses), a live part that uses an import keeps
   alive every `export {x} from` / `export *` statement the resolution passed
   through (importData.ReExports) and every part declaring the imported symbol
   in the file it resolves to. *)
Theorem import_bindings_keep_chain_live : forall g bs b i p d,
  let g' := add_bindings g bs in
  In b bs -> In i (b_users b) ->
  live g' (IPart (b_file b) i) -> get_part g' (b_file b) i = Some p ->
  In d (binding_deps g b) -> live g' (IPart (fst d) (snd d)).
Proof. exact import_bindings_closed. Qed.
Print Assumptions import_bindings_keep_chain_live.

(* ... and the same for the REAL Dependencies of every dumped graph that passes
   the check run by the harness (Harness.graph_ok evaluates bindings_ok on the
   ImportsToBind table copied by the hook) *)
Theorem dumped_bindings_keep_chain_live : forall g bs b i d,
  bindings_ok g bs = true -> In b bs -> In i (b_users b) ->
  live g (IPart (b_file b) i) -> In d (binding_deps g b) -> live g (IPart (fst d) (snd d)).
Proof. exact bindings_ok_closed. Qed.
Print Assumptions dumped_bindings_keep_chain_live.

(* Runtime helpers and wrappers: GenerateSymbolImportAndUse records the helper
   (__toESM, __commonJS, __esm, ...), the wrapper symbol of a wrapped file or its
   exports object as a symbol USE of the part, so the part of the runtime / of
   the wrapped file (its wrapper part) that declares the symbol stays live with
   the user; on dumps this is part of deps_cover_uses_b. *)
Theorem generated_uses_keep_declaring_parts_live : forall g s i p u t j,
  deps_cover_uses g -> live g (IPart s i) -> get_part g s i = Some p -> In u (p_uses p) ->
  declares g t j u -> live g (IPart t j).
Proof. exact generated_uses_closed. Qed.
Print Assumptions generated_uses_keep_declaring_parts_live.
