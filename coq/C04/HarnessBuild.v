(* Checker for the part-construction tie: the parts Build.build_parts builds
   from a description of the top-level statements equal the parts
   js_parser.Parse built (flag, declared symbols, used symbols as sets, number
   of import records), in the same order. *)
From V Require Import Common.Base C04.Parts C04.Mark C04.Harness C04.Build.

Definition decl_enc := (list Z * list Z * bool)%type.
Definition stmt_enc := (Z * list decl_enc)%type.   (* 0 local, 1 import-like, 2 export =, 3 other *)
Definition obs_enc := (bool * list Z * list Z * Z)%type.

Definition zsym (z : Z) : sym := (O, Z.to_nat z).
Definition dec_decl (d : decl_enc) : tdecl :=
  let '(ds, us, c) := d in mkTDecl (map zsym ds) (map zsym us) c.
Definition dummy_decl : tdecl := mkTDecl [] [] true.
Definition dec_stmt (s : stmt_enc) : tstmt :=
  let '(k, ds) := s in
  let d := match ds with d :: _ => dec_decl d | [] => dummy_decl end in
  if k =? 0 then TLocal (map dec_decl ds)
  else if k =? 1 then TImportLike d (mkImp true true O false)
  else if k =? 2 then TExportEquals d
  else TOther d.

Definition sym_mem (u : sym) (l : list sym) : bool := existsb (sym_eqb u) l.
Definition symset_eqb (a b : list sym) : bool :=
  forallb (fun u => sym_mem u b) a && forallb (fun u => sym_mem u a) b.

(* uses are compared modulo (a) symbols no statement of the program declares
   (unbound names are not tracked by name here) and (b) a part's uses of its own
   declarations (a class or function name counts as used by its own statement) *)
Definition part_matches (alld : list sym) (p : part) (o : obs_enc) : bool :=
  let '(c, ds, us, ni) := o in
  let own := p_declares p in
  Bool.eqb (p_can_remove p) c && symset_eqb own (map zsym ds)
  && symset_eqb (filter (fun u => sym_mem u alld && negb (sym_mem u own)) (p_uses p))
                (filter (fun u => negb (sym_mem u own)) (map zsym us))
  && (Z.of_nat (length (p_imports p)) =? ni).

Fixpoint all2 {A B} (f : A -> B -> bool) (a : list A) (b : list B) : bool :=
  match a, b with
  | [], [] => true
  | x :: a', y :: b' => f x y && all2 f a' b'
  | _, _ => false
  end.

Definition parts_ok (c : bool * list stmt_enc * list obs_enc) : bool :=
  let '(ts, stmts, obs) := c in
  let ps := build_parts ts (map dec_stmt stmts) in
  all2 (part_matches (flat_map p_declares ps)) ps obs.
Definition check_parts := mismatches parts_ok.

(* ---- scope-analysis tie: the parts built from Scope.analyze (declared / used
   symbols AND the removability flag computed by the classifier model) equal
   the parts js_parser.Parse built for the same program ---- *)
From V Require Import C04.Purity C04.Scope.
Definition scope_ok (c : bool * list sstmt * list obs_enc) : bool :=
  let '(ts, stmts, obs) := c in
  let D := fun x => nmem x (flat_map stmt_names stmts) in
  let ps := build_parts ts (map (analyze D) stmts) in
  all2 (part_matches (flat_map p_declares ps)) ps obs.
Definition check_scope := mismatches scope_ok.
