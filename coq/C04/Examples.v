(* Non-vacuity: concrete graphs meeting the hypotheses of each theorem, and
   the witness of the refuted "tree shaking off keeps everything". *)
From V Require Import Common.Base C04.Parts C04.Mark C04.ReachSpec C04.MarkProofs C04.Harness C04.HarnessProofs.
Local Open Scope nat_scope.

(* file 0: entry, "import './1'" (part 0, removable flag set but pinned by the
   import), an unused pure declaration (part 1), a statement with an effect
   (part 2) that uses a symbol declared by part 3, part 3 removable;
   file 1: has side effects, one impure part and one pure unused part *)
Definition ex_g (ts : bool) : graph :=
  mkGraph ts false [0]
    [ mkFile RJS true true None []
        [ mkPart true false [mkImp true true 1 false] [] [] [];
          mkPart true false [] [] [(0, 7)] [];
          mkPart false false [] [(0, 3)] [] [(0, 9)];
          mkPart true false [] [] [(0, 9)] [] ];
      mkFile RJS true false None []
        [ mkPart false false [] [] [] [];
          mkPart true false [] [] [(1, 1)] [] ] ].

Example ex_mark :
  mark (ex_g true) (default_fuel (ex_g true)) =
  Some [IPart 0 3; IPart 0 2; IPart 0 0; IPart 1 0; IFile 1; IFile 0].
Proof. vm_compute. reflexivity. Qed.

(* the removed parts: the unused pure declarations 0/1 and 1/1 *)
Example ex_dead : forall L, mark (ex_g true) (default_fuel (ex_g true)) = Some L ->
  is_live L (IPart 0 1) = false /\ is_live L (IPart 1 1) = false /\ is_live L (IPart 0 3) = true.
Proof. intros L H. rewrite ex_mark in H. inversion H; subst. vm_compute. auto. Qed.

(* tree shaking off: every part of the entry point is kept, but the pure unused
   part 1/1 of the imported file is still dropped: "keeps everything" is false *)
Example ex_mark_off :
  mark (ex_g false) (default_fuel (ex_g false)) =
  Some [IPart 0 3; IPart 0 2; IPart 0 1; IPart 0 0; IPart 1 0; IFile 1; IFile 0].
Proof. vm_compute. reflexivity. Qed.

Lemma ts_off_keeps_everything_refuted_witness :
  exists g s i p,
    g_tree_shaking g = false /\ live g (IFile s) /\ get_part g s i = Some p /\
    p_force_ts p = false /\ ~ live g (IPart s i).
Proof.
  exists (ex_g false), 1, 1, (mkPart true false [] [] [(1, 1)] []).
  split; [reflexivity|]. split.
  - apply (mark_live _ _ _ ex_mark_off). vm_compute. tauto.
  - split; [reflexivity|]. split; [reflexivity|].
    intro L. apply (mark_live _ _ _ ex_mark_off) in L. vm_compute in L.
    repeat (destruct L as [L|L]; [discriminate L|]). exact L.
Qed.

(* annotations: file 1 marked sideEffects:false and part 0/2 annotated pure *)
Definition ex_g_annot : graph :=
  mkGraph true false [0]
    [ mkFile RJS true true None []
        [ mkPart true false [mkImp true true 1 false] [] [] [];
          mkPart true false [] [] [(0, 7)] [];
          mkPart true false [] [(0, 3)] [] [(0, 9)];
          mkPart true false [] [] [(0, 9)] [] ];
      mkFile RJS false false None []
        [ mkPart false false [] [] [] [];
          mkPart true false [] [] [(1, 1)] [] ] ].

Example ex_annot_le : annot_le (ex_g true) ex_g_annot.
Proof.
  unfold annot_le, ex_g, ex_g_annot; simpl. repeat split; auto.
  repeat constructor; simpl; auto; try discriminate.
Qed.

Example ex_annot_mark : mark ex_g_annot (default_fuel ex_g_annot) = Some [IFile 0].
Proof. vm_compute. reflexivity. Qed.

Example ex_cover : deps_cover_uses (ex_g true).
Proof. apply deps_cover_uses_b_sound. vm_compute. reflexivity. Qed.

(* ---- purity: the hypotheses are satisfiable and the semantics is not
   trivially silent ---- *)
From V Require Import C04.Purity C04.PuritySem C04.PurityMain.
Local Open Scope Z_scope.

Definition ex_unbound (r : nat) : bool := Nat.eqb r 7.          (* identifier 7 is an unbound global *)
Definition ex_env (r : nat) : option value := Some (VNum 1).      (* every declared identifier is initialised *)
Definition ex_glob (r : nat) : option value := None.              (* ... and global 7 does not exist *)
Definition ex_imp (r : nat) : option value := Some VUndef.
Definition ex_noisy_toprim (id : nat) : outcome := ([42], Ok (VNum 0)).   (* user valueOf: emits probe 42 *)
Definition ex_eval := eval ex_unbound ex_env ex_glob ex_imp VUndef ex_noisy_toprim
  (fun _ => ([43], Throw)) (fun _ _ => ([44], Ok VUndef)) (fun _ => ([45], Throw)) (fun _ _ => ([46], Throw))
  (fun _ _ _ => true) (fun _ _ => true) (fun _ => ([], Ok VUndef)) (fun _ _ => true).

(* typeof x7 !== "undefined" && x7   -- removable, and silent although x7 does not exist *)
Definition ex_guarded : node :=
  EBinary BAnd (EBinary BStrictNe (EUnary UTypeof (EIdent 7 false false) true) (EStr undefined_str))
               (EIdent 7 false false).
Example ex_guarded_removable : can_remove ex_unbound ex_guarded = true /\ plain ex_guarded = true.
Proof. vm_compute. auto. Qed.
Example ex_guarded_silent : ex_eval ex_guarded = ([], Ok (VBool false)).
Proof. vm_compute. reflexivity. Qed.

(* the wrong polarity  typeof x7 === "undefined" && x7  is NOT removable, and it throws *)
Definition ex_wrong : node :=
  EBinary BAnd (EBinary BStrictEq (EUnary UTypeof (EIdent 7 false false) true) (EStr undefined_str))
               (EIdent 7 false false).
Example ex_wrong_kept : can_remove ex_unbound ex_wrong = false /\ ex_eval ex_wrong = ([], Throw).
Proof. vm_compute. auto. Qed.

(* `${ {valueOf..} }` and  obj < 1 : not removable, and the semantics shows the probe *)
Example ex_template_kept :
  can_remove ex_unbound (ETemplate None false [EObject []]) = false /\
  ex_eval (ETemplate None false [EObject []]) = ([42], Ok (VStr [])).
Proof. vm_compute. auto. Qed.
Example ex_lt_kept :
  can_remove ex_unbound (EBinary BLt (EObject []) (ENum 1)) = false /\
  ex_eval (EBinary BLt (EObject []) (ENum 1)) = ([42], Ok (VBool true)).
Proof. vm_compute. auto. Qed.
(* [1, `a${2}`, x3 === null, -5n < 6n] : removable and silent *)
Example ex_pure_literal :
  let e := EArray [ENum 1; ETemplate None false [ENum 2]; EBinary BStrictEq (EIdent 3 false false) ENull;
                   EBinary BLt (EUnary UNeg (EBigInt 5) false) (EBigInt 6)] in
  can_remove ex_unbound e = true /\ plain e = true /\ ex_eval e = ([], Ok (VObj 0)).
Proof. vm_compute. auto. Qed.

(* class C { static ["k"] = `a${1}`; static { var [a = 1 === 2, b] = [x3]; } }  and
   var [p = null ?? 1] = [void 0]; try { class D extends x3 {} } finally { }
   are removable and run silently (the destructuring defaults DO run in this world);
   a static block with an impure default is kept, and the semantics shows why *)
Definition ex_class : node :=
  CClass false None
    [PProp KField true true false false (EStr [107]) None (Some (ETemplate None false [ENum 1])) [];
     PProp KStaticBlock false false false false ENull None None
       [SLocal LVar [DDecl (BArray [BItem BIdent (Some (EBinary BStrictEq (ENum 1) (ENum 2))); BItem BIdent None])
                           (Some (EArray [EIdent 3 false false]))]]] true.
Example ex_class_removable : can_remove ex_unbound ex_class = true /\ plain ex_class = true.
Proof. vm_compute. auto. Qed.
Example ex_class_silent : ex_eval ex_class = ([], Ok (VObj 0)).
Proof. vm_compute. reflexivity. Qed.
Definition ex_stmts : list node :=
  [SLocal LVar [DDecl (BArray [BItem BIdent (Some (EBinary BNullish ENull (ENum 1)))]) (Some (EArray [EUnary UVoid (ENum 0) false]))];
   STry [SClass (CClass false (Some (EIdent 3 false false)) [] true)] true []].
Example ex_stmts_removable :
  stmts_can_remove ex_unbound false false ex_stmts = true /\ forallb plain ex_stmts = true /\
  exec_stmts ex_unbound ex_env ex_glob ex_imp VUndef ex_noisy_toprim
    (fun _ => ([43], Throw)) (fun _ _ => ([44], Ok VUndef)) (fun _ => ([45], Throw)) (fun _ _ => ([46], Throw))
    (fun _ _ _ => true) (fun _ _ => true) (fun _ => ([], Ok VUndef)) (fun _ _ => true) ex_stmts = ([], Ok VUndef).
Proof. vm_compute. auto. Qed.
Example ex_static_block_kept :
  let c := CClass false None [PProp KStaticBlock false false false false ENull None None
             [SLocal LVar [DDecl (BArray [BItem BIdent (Some (EUnary UPos (EObject []) false))]) (Some (EArray [EUndefined]))]]] true in
  can_remove ex_unbound c = false /\ ex_eval c = ([45], Throw).
Proof. vm_compute. auto. Qed.

(* ---- Build.v: a two-file program.
   file 0 (entry):  import {..} from "./1";  const a = b;  f(a);  const unused = 1;
   file 1:          export const b = 2, c = g();   function dead() { return c }
   symbols: a=(0,1) b=(0,2) c=(0,3) f=(0,4) g=(0,5) unused=(0,6) dead=(0,7) ---- *)
From V Require Import C04.Build C04.BuildProofs C04.HarnessBuild.
Local Open Scope nat_scope.
Definition ex_prog : list tfile :=
  [ mkTFile true true
      [ TImportLike (mkTDecl [] [] true) (mkImp true true 1 false);
        TLocal [mkTDecl [(0,1)] [(0,2)] true];
        TOther (mkTDecl [] [(0,4); (0,1)] false);
        TLocal [mkTDecl [(0,6)] [] true] ];
    mkTFile true false
      [ TLocal [mkTDecl [(0,2)] [] true; mkTDecl [(0,3)] [(0,5)] false];
        TOther (mkTDecl [(0,7)] [(0,3)] true) ] ].
Definition ex_linked := link true false [0] ex_prog.
(* parts of file 0: 0 ns-export, 1 import, 2 "a", 3 "f(a)", 4 "unused";
   file 1: 0 ns-export, 1 "b", 2 "c = g()", 3 "dead".  f(a) keeps a, a keeps b in file 1;
   c = g() is impure and stays; "unused" and "dead" go *)
Example ex_linked_live :
  mark ex_linked (default_fuel ex_linked) =
  Some [IPart 1 1; IPart 0 2; IPart 0 3; IPart 0 1; IPart 1 2; IFile 1; IFile 0].
Proof. vm_compute. reflexivity. Qed.
Example ex_parts_check :
  HarnessBuild.parts_ok (true, [(3%Z, [([1%Z], [2%Z], true)]); (0%Z, [([3%Z], [1%Z], true); ([2%Z], [], false)])],
                               [(true, [], [], 0%Z); (true, [1%Z], [1%Z; 2%Z], 0%Z); (true, [3%Z], [1%Z], 0%Z); (false, [2%Z], [], 0%Z)]) = true.
Proof. vm_compute. reflexivity. Qed.

(* ---- Scope.v: shadowing and closures.
   file 0 (entry):  import {t2} ; var t1 = function (t3) { t3; t2 };   t1(function () { var t2; t2 });   function t4() { t5 }
   file 1:          let t2 = 1;   var t3 = t9();   class t5 { m(t2) { t3 } }
   t1's closure uses t2 (import) but NOT t3 (parameter); the call statement uses t1 only
   (its t2 is a local); dead: t4 and therefore t5 ---- *)
From V Require Import C04.Scope C04.ScopeProofs.
Definition ex_sprog : list sfile :=
  [ mkSFile true true
      [ SSImport [];
        SSLocal [(PId 1, Some (XFun [3] [] [] [XId 3; XId 2]))];
        SSExpr (XCall (XId 1) [XFun [] [] [2] [XId 2]]);
        SSFunction 4 [] [] [] [XId 5] ];
    mkSFile true false
      [ SSLocal [(PId 2, Some XLit)];
        SSLocal [(PId 3, Some (XCall (XId 9) []))];
        SSClass 5 None [XFun [2] [] [] [XId 3]] ] ].
Example ex_fv_shadow : fv [] (XFun [3] [] [] [XId 3; XId 2]) = [2] /\ fv [] (XCall (XId 1) [XFun [] [] [2] [XId 2]]) = [1].
Proof. vm_compute. auto. Qed.
Definition ex_slinked := link_program true false [0] ex_sprog.
Example ex_slinked_live :
  mark ex_slinked (default_fuel ex_slinked) =
  Some [IPart 1 2; IFile 1; IPart 1 1; IPart 0 2; IPart 0 3; IPart 0 1; IFile 0].
Proof. vm_compute. reflexivity. Qed.

(* ---- re-export chain: file 0 uses x imported from file 1, which re-exports it
   from file 2 (`export {x} from "./2"`, part 1/1); the binding makes part 0/1
   depend on the re-export statement 1/1 and on the declaration 2/1 ---- *)
Definition ex_chain_base : graph :=
  mkGraph true false [0]
    [ mkFile RJS true true None [] [ns_export_part; mkPart false false [] [] [] [(0, 1)]];
      mkFile RJS false false None [] [ns_export_part; mkPart true false [mkImp true true 2 false] [] [] []];
      mkFile RJS false false None [] [ns_export_part; mkPart true false [] [] [(0, 1)] []] ].
Definition ex_chain_bindings := [mkBinding 0 [1] 2 (0, 1) [(1, 1)]].
Definition ex_chain := add_bindings ex_chain_base ex_chain_bindings.
Example ex_chain_live :
  mark ex_chain (default_fuel ex_chain) = Some [IFile 2; IPart 2 1; IFile 1; IPart 1 1; IPart 0 1; IFile 0]
  /\ bindings_ok ex_chain ex_chain_bindings = true /\ bindings_ok ex_chain_base ex_chain_bindings = false.
Proof. vm_compute. auto. Qed.

(* the wider forms: a default value sees the parameter but not the body's var;
   a catch binding and a for-let binder are not module references; computed keys
   of an object pattern and class fields / static blocks are *)
Example ex_fv_wide :
  fv [] (XFun [3] [XId 3; XId 4] [4] [XId 4]) = [4]
  /\ fv [] (XClass None [XField true (Some (XId 6)) (Some (XId 7)); XStaticBlock [8] [XId 8; XId 9]]) = [6; 7; 9]
  /\ td_uses (match analyze (fun _ => true) (SSTry (XId 1) (Some (Some 2, [XId 2; XId 3]))) with TOther d => d | _ => mkTDecl [] [] true end) = [zs 1; zs 3]
  /\ td_uses (match analyze (fun _ => true) (SSCompound 1 [] [5] [XId 5; XId 6] []) with TOther d => d | _ => mkTDecl [] [] true end) = [zs 6]
  /\ td_uses (match analyze (fun _ => true) (SSLocal [(PObj [(Some (XId 1), 2, Some (XId 3))], Some XLit)]) with TLocal [d] => d | _ => mkTDecl [] [] true end) = [zs 1; zs 3].
Proof. vm_compute. repeat split. Qed.
