(* C04: the scope analysis of Scope.v records exactly the references that
   resolve to the module scope, and composed with part construction, linking
   and marking: removing the dead parts leaves every reference resolved. *)
From V Require Import Common.Base C04.Parts C04.Mark C04.ReachSpec C04.MarkProofs C04.Harness C04.HarnessProofs
  C04.Purity C04.Build C04.BuildProofs C04.Scope.

Arguments zs : simpl never.

(* ---- specification: x occurs in e as a reference that no enclosing function
   of e (and none of [b]) binds ---- *)
Inductive refers : list nat -> sexpr -> nat -> Prop :=
| r_id b x : ~ In x b -> refers b (XId x) x
| r_typeof b x : ~ In x b -> refers b (XTypeof x) x
| r_assign_target b x v : ~ In x b -> refers b (XAssign x v) x
| r_assign_value b x v y : refers b v y -> refers b (XAssign x v) y
| r_call_f b f args y : refers b f y -> refers b (XCall f args) y
| r_call_arg b f args a y : In a args -> refers b a y -> refers b (XCall f args) y
| r_arr b items a y : In a items -> refers b a y -> refers b (XArr items) y
(* a default value sees the parameters but not the body's vars *)
| r_fun_default b ps ds ls body a y : In a ds -> refers (ps ++ b) a y -> refers b (XFun ps ds ls body) y
| r_fun_body b ps ds ls body a y : In a body -> refers (ps ++ ls ++ b) a y -> refers b (XFun ps ds ls body) y
| r_class_ext b ext ms y : refers b ext y -> refers b (XClass (Some ext) ms) y
| r_class_m b ext ms a y : In a ms -> refers b a y -> refers b (XClass ext ms) y
| r_field_key b st k init y : refers b k y -> refers b (XField st (Some k) init) y
| r_field_init b st key v y : refers b v y -> refers b (XField st key (Some v)) y
| r_static b ls body a y : In a body -> refers (ls ++ b) a y -> refers b (XStaticBlock ls body) y.

Section SInd.
  Variable P : sexpr -> Prop.
  Hypothesis HLit : P XLit.
  Hypothesis HId : forall x, P (XId x).
  Hypothesis HTy : forall x, P (XTypeof x).
  Hypothesis HAs : forall x v, P v -> P (XAssign x v).
  Hypothesis HCall : forall f args, P f -> Forall P args -> P (XCall f args).
  Hypothesis HArr : forall items, Forall P items -> P (XArr items).
  Hypothesis HFun : forall ps ds ls body, Forall P ds -> Forall P body -> P (XFun ps ds ls body).
  Hypothesis HClass : forall ext ms, (forall x, ext = Some x -> P x) -> Forall P ms -> P (XClass ext ms).
  Hypothesis HField : forall st key init, (forall x, key = Some x -> P x) -> (forall x, init = Some x -> P x) -> P (XField st key init).
  Hypothesis HStatic : forall ls body, Forall P body -> P (XStaticBlock ls body).

  Fixpoint sexpr_ind' (e : sexpr) : P e :=
    let all := fix go (l : list sexpr) : Forall P l :=
      match l with [] => Forall_nil P | x :: r => Forall_cons x (sexpr_ind' x) (go r) end in
    let opt := fun (o : option sexpr) =>
      match o as o' return forall x, o' = Some x -> P x with
      | Some x0 => fun x E => match E in _ = o'' return match o'' with Some y => P y | None => True end with eq_refl => sexpr_ind' x0 end
      | None => fun x E => match E in _ = o'' return match o'' with Some y => P y | None => True end with eq_refl => I end
      end in
    match e with
    | XLit => HLit
    | XId x => HId x
    | XTypeof x => HTy x
    | XAssign x v => HAs x v (sexpr_ind' v)
    | XCall f args => HCall f args (sexpr_ind' f) (all args)
    | XArr items => HArr items (all items)
    | XFun ps ds ls body => HFun ps ds ls body (all ds) (all body)
    | XClass ext ms => HClass ext ms (opt ext) (all ms)
    | XField st key init => HField st key init (opt key) (opt init)
    | XStaticBlock ls body => HStatic ls body (all body)
    end.
End SInd.

Lemma nmem_In x l : nmem x l = true <-> In x l.
Proof.
  unfold nmem. rewrite existsb_exists. split.
  - intros [y [H E]]. apply Nat.eqb_eq in E. subst. exact H.
  - intro H. exists x. split; [exact H | apply Nat.eqb_refl].
Qed.

Lemma one_ref b x y : In y (if nmem x b then [] else [x]) <-> (y = x /\ ~ In x b).
Proof.
  destruct (nmem x b) eqn:M; simpl.
  - split; [intros [] | intros [_ N]; apply N; apply nmem_In; exact M].
  - split.
    + intros [<-|[]]. split; [reflexivity|]. intro I. apply nmem_In in I. congruence.
    + intros [-> _]. left; reflexivity.
Qed.

Lemma flat_map_refers (l : list sexpr) :
  Forall (fun e => forall b y, In y (fv b e) <-> refers b e y) l ->
  forall b y, In y (flat_map (fv b) l) <-> exists a, In a l /\ refers b a y.
Proof.
  intros H b y. rewrite in_flat_map. rewrite Forall_forall in H. split; intros [a [Ia R]]; exists a; split; auto; apply (H a Ia); exact R.
Qed.

(* recordUsage computes exactly the references that reach the module scope *)
Lemma fv_refers : forall e b y, In y (fv b e) <-> refers b e y.
Proof.
  induction e using sexpr_ind'; intros b y; simpl.
  - split; [intros [] | intro R; inversion R].
  - rewrite one_ref. split; [intros [-> N]; constructor; exact N | intro R; inversion R; subst; auto].
  - rewrite one_ref. split; [intros [-> N]; constructor; exact N | intro R; inversion R; subst; auto].
  - rewrite in_app_iff, one_ref, IHe. split.
    + intros [[-> N]|R]; [apply r_assign_target; exact N | apply r_assign_value; exact R].
    + intro R. inversion R; subst; auto.
  - rewrite in_app_iff, IHe, (flat_map_refers args H). split.
    + intros [R|[a [Ia R]]]; [apply r_call_f; exact R | eapply r_call_arg; eauto].
    + intro R. inversion R; subst; [left; assumption | right; eauto].
  - rewrite (flat_map_refers items H). split.
    + intros [a [Ia R]]. eapply r_arr; eauto.
    + intro R. inversion R; subst. eauto.
  - rewrite in_app_iff, (flat_map_refers ds H), (flat_map_refers body H0). split.
    + intros [[a [Ia R]]|[a [Ia R]]]; [eapply r_fun_default; eauto | eapply r_fun_body; eauto].
    + intro R. inversion R; subst; [left; eauto | right; eauto].
  - rewrite in_app_iff, (flat_map_refers ms H0). split.
    + intros [R|[a [Ia R]]]; [|eapply r_class_m; eauto].
      destruct ext as [x|]; [|destruct R]. apply r_class_ext. apply (H x eq_refl). exact R.
    + intro R. inversion R; subst; [left; apply (H ext0 eq_refl); assumption | right; eauto].
  - rewrite in_app_iff. split.
    + intros [R|R].
      * destruct key as [k|]; [|destruct R]. apply r_field_key. apply (H k eq_refl). exact R.
      * destruct init as [v|]; [|destruct R]. apply r_field_init. apply (H0 v eq_refl). exact R.
    + intro R. inversion R; subst; [left; apply (H k eq_refl); assumption | right; apply (H0 v eq_refl); assumption].
  - rewrite (flat_map_refers body H). split.
    + intros [a [Ia R]]. eapply r_static; eauto.
    + intro R. inversion R; subst. eauto.
Qed.

(* ---- statements ---- *)
Definition catch_binders (c : option nat) : list nat := match c with Some x => [x] | None => [] end.

Inductive stmt_refers : sstmt -> nat -> Prop :=
| sr_local_init decls p e y : In (p, Some e) decls -> refers [] e y -> stmt_refers (SSLocal decls) y
| sr_local_default decls items o x d y :
    In (PArr items, o) decls -> In (x, Some d) items -> refers [] d y -> stmt_refers (SSLocal decls) y
| sr_local_key decls props o k x od y :
    In (PObj props, o) decls -> In (Some k, x, od) props -> refers [] k y -> stmt_refers (SSLocal decls) y
| sr_local_pdefault decls props o ok x d y :
    In (PObj props, o) decls -> In (ok, x, Some d) props -> refers [] d y -> stmt_refers (SSLocal decls) y
| sr_function name ps ds ls body y : refers [] (XFun ps ds ls body) y -> stmt_refers (SSFunction name ps ds ls body) y
| sr_class name ext ms y : refers [] (XClass ext ms) y -> stmt_refers (SSClass name ext ms) y
| sr_expr e y : refers [] e y -> stmt_refers (SSExpr e) y
| sr_if e y : refers [] e y -> stmt_refers (SSIf e) y
| sr_try e c y : refers [] e y -> stmt_refers (SSTry e c) y
| sr_catch e c handler a y : In a handler -> refers (catch_binders c) a y -> stmt_refers (SSTry e (Some (c, handler))) y
| sr_block x e y : refers [] e y -> stmt_refers (SSBlockVar x e) y
| sr_outer k outer bs inner hs a y : In a outer -> refers [] a y -> stmt_refers (SSCompound k outer bs inner hs) y
| sr_inner k outer bs inner hs a y : In a inner -> refers bs a y -> stmt_refers (SSCompound k outer bs inner hs) y.

Lemma zs_inj x y : zs x = zs y -> x = y.
Proof. unfold zs. intro H. inversion H. reflexivity. Qed.

Lemma In_map_zs x l : In (zs x) (map zs l) <-> In x l.
Proof.
  rewrite in_map_iff. split; [intros [y [E H]]; apply zs_inj in E; subst; exact H | intro H; exists x; auto].
Qed.

Lemma fv_opt_refers o y : In y (fv_opt o) <-> exists e, o = Some e /\ refers [] e y.
Proof.
  destruct o as [e|]; simpl.
  - rewrite fv_refers. split; [intro R; exists e; auto | intros [e' [E R]]; inversion E; subst; exact R].
  - split; [intros [] | intros [e [E _]]; discriminate].
Qed.

Lemma flat_map_fv_refers b l y : In y (flat_map (fv b) l) <-> exists a, In a l /\ refers b a y.
Proof.
  rewrite in_flat_map. split; intros [a [Ia R]]; exists a; split; auto; apply fv_refers; exact R.
Qed.

Lemma analyze_uses_spec D st y :
  In (zs y) (flat_map td_uses (stmt_decls (analyze D st))) <-> stmt_refers st y.
Proof.
  destruct st as [decls|name ps ds ls body|name ext ms|e|e|e c|x e|k outer bs inner hs|names|]; simpl; rewrite ?app_nil_r.
  - rewrite in_flat_map. split.
    + intros [d [Hd Hy]]. apply in_map_iff in Hd as [[p o] [<- Hin]]. simpl in Hy.
      apply In_map_zs in Hy. apply in_app_or in Hy as [Hy|Hy].
      * destruct p as [x|items|props]; [destruct Hy| |]; simpl in Hy.
        -- apply in_flat_map in Hy as [[x od] [Hit Hy]]. simpl in Hy.
           apply fv_opt_refers in Hy as [d [-> R]]. eapply sr_local_default; eauto.
        -- apply in_flat_map in Hy as [[[ok x] od] [Hit Hy]]. simpl in Hy. apply in_app_or in Hy as [Hy|Hy].
           ++ apply fv_opt_refers in Hy as [k [-> R]]. eapply sr_local_key; eauto.
           ++ apply fv_opt_refers in Hy as [d [-> R]]. eapply sr_local_pdefault; eauto.
      * apply fv_opt_refers in Hy as [e [-> R]]. eapply sr_local_init; eauto.
    + intro R. inversion R; subst.
      * eexists. split; [apply in_map_iff; exists (p, Some e); split; [reflexivity | eassumption]|].
        simpl. apply In_map_zs. apply in_or_app. right. apply fv_refers. assumption.
      * eexists. split; [apply in_map_iff; exists (PArr items, o); split; [reflexivity | eassumption]|].
        simpl. apply In_map_zs. apply in_or_app. left.
        apply in_flat_map. exists (x, Some d). split; [assumption|]. simpl. apply fv_refers. assumption.
      * eexists. split; [apply in_map_iff; exists (PObj props, o); split; [reflexivity | eassumption]|].
        simpl. apply In_map_zs. apply in_or_app. left.
        apply in_flat_map. exists (Some k, x, od). split; [assumption|]. simpl. apply in_or_app. left. apply fv_refers. assumption.
      * eexists. split; [apply in_map_iff; exists (PObj props, o); split; [reflexivity | eassumption]|].
        simpl. apply In_map_zs. apply in_or_app. left.
        apply in_flat_map. exists (ok, x, Some d). split; [assumption|]. simpl. apply in_or_app. right. apply fv_refers. assumption.
  - rewrite In_map_zs.
    assert (E : flat_map (fv ps) ds ++ flat_map (fv (ps ++ ls)) body = fv [] (XFun ps ds ls body))
      by (simpl; rewrite !app_nil_r; reflexivity).
    rewrite E, fv_refers. split; [intro R; constructor; exact R | intro R; inversion R; assumption].
  - rewrite In_map_zs. change ((match ext with Some x => fv [] x | None => [] end) ++ flat_map (fv []) ms) with (fv [] (XClass ext ms)).
    rewrite fv_refers. split; [intro R; constructor; exact R | intro R; inversion R; assumption].
  - rewrite In_map_zs, fv_refers. split; [intro R; constructor; exact R | intro R; inversion R; assumption].
  - rewrite In_map_zs, fv_refers. split; [intro R; constructor; exact R | intro R; inversion R; assumption].
  - rewrite In_map_zs, in_app_iff, fv_refers. split.
    + intros [R|R]; [apply sr_try; exact R|].
      destruct c as [[c handler]|]; [|destruct R]. apply flat_map_fv_refers in R as [a [Ia R]]. eapply sr_catch; eauto.
    + intro R. inversion R; subst; [left; assumption|]. right. apply flat_map_fv_refers. exists a. split; assumption.
  - rewrite In_map_zs, fv_refers. split; [intro R; constructor; exact R | intro R; inversion R; assumption].
  - rewrite In_map_zs, in_app_iff, !flat_map_fv_refers. split.
    + intros [[a [Ia R]]|[a [Ia R]]]; [eapply sr_outer; eauto | eapply sr_inner; eauto].
    + intro R. inversion R; subst; [left; eauto | right; eauto].
  - split; [intros [] | intro R; inversion R].
  - split; [intros [] | intro R; inversion R].
Qed.

Lemma analyze_declares_spec D st x :
  In (zs x) (flat_map td_declares (stmt_decls (analyze D st))) <-> In x (stmt_names st).
Proof.
  destruct st as [decls|name ps ds ls body|name ext ms|e|e|e c|x0 e|k outer bs inner hs|names|]; simpl; rewrite ?app_nil_r; try rewrite In_map_zs; try tauto.
  - rewrite !in_flat_map. split.
    + intros [d [Hd Hx]]. apply in_map_iff in Hd as [po [<- Hin]]. simpl in Hx. apply In_map_zs in Hx. exists po. auto.
    + intros [po [Hin Hx]]. eexists. split; [apply in_map_iff; exists po; split; [reflexivity | exact Hin]|].
      simpl. apply In_map_zs. exact Hx.
  - split; [intros [E|[]]; left; apply zs_inj; exact E | intros [<-|[]]; left; reflexivity].
  - split; [intros [E|[]]; left; apply zs_inj; exact E | intros [<-|[]]; left; reflexivity].
  - split; [intros [E|[]]; left; apply zs_inj; exact E | intros [<-|[]]; left; reflexivity].
Qed.

(* ---- composition: the whole pipeline ---- *)
Lemma get_part_link ts ign entries prog t j q :
  nth_error prog t = Some q ->
  forall p, nth_error (build_parts ts (tf_stmts q)) j = Some p ->
  exists p', get_part (link ts ign entries prog) t j = Some p' /\ p_declares p' = p_declares p /\ p_uses p' = p_uses p.
Proof.
  intros Hq p Hp. unfold link. rewrite get_part_add_deps.
  unfold get_part, get_file. simpl g_files. rewrite nth_error_map, Hq. simpl. rewrite Hp. simpl.
  eexists. split; [reflexivity | split; reflexivity].
Qed.

Lemma named_is_declared ts ign entries prog x :
  In x (program_names prog) -> exists t j, declares (link_program ts ign entries prog) t j (zs x).
Proof.
  unfold program_names. intro H. apply in_flat_map in H as [f [Hf Hx]]. apply in_flat_map in Hx as [st [Hst Hx]].
  apply In_nth_error in Hf as [t Ht].
  set (D := fun x => nmem x (flat_map (fun f => flat_map stmt_names (sf_stmts f)) prog)).
  assert (Hd : exists d, In d (flat_map stmt_decls (map (analyze D) (sf_stmts f))) /\ In (zs x) (td_declares d)).
  { apply (analyze_declares_spec D st x) in Hx. apply in_flat_map in Hx as [d [Hd Hx]].
    exists d. split; [|exact Hx]. apply in_flat_map. exists (analyze D st). split; [apply in_map; exact Hst | exact Hd]. }
  destruct Hd as [d [Hd Hx']].
  destruct (build_parts_keeps_decls (map (analyze D) (sf_stmts f)) d Hd) as [[q1 [I1 [E1 _]]] [q2 [I2 [E2 _]]]].
  assert (Hq : exists q, In q (build_parts ts (map (analyze D) (sf_stmts f))) /\ In (zs x) (p_declares q)).
  { destruct ts; [exists q1; split; [exact I1 | rewrite E1; exact Hx'] | exists q2; split; [exact I2 | apply E2; exact Hx']]. }
  destruct Hq as [q [Iq Dq]]. apply In_nth_error in Iq as [j Hj].
  exists t, j. unfold link_program. fold D.
  destruct (get_part_link ts ign entries (map (analyze_file D) prog) t j (analyze_file D f)
              ltac:(rewrite nth_error_map, Ht; reflexivity) q Hj) as [p' [G [Ed _]]].
  exists p'. split; [exact G | rewrite Ed; exact Dq].
Qed.

(* Removing the parts the linker marks dead leaves a program in which every
   identifier reference of the kept code still resolves to a retained
   declaration, or was unbound to begin with. *)
Lemma references_resolve ts ign entries prog s i p x :
  let g := link_program ts ign entries prog in
  live g (IPart s i) -> get_part g s i = Some p -> In (zs x) (p_uses p) ->
  (~ In x (program_names prog))
  \/ ((exists t j, declares g t j (zs x)) /\
      forall t j, declares g t j (zs x) -> live g (IPart t j) /\ live g (IFile t)).
Proof.
  intros g L P U.
  destruct (nmem x (program_names prog)) eqn:M.
  - right. split; [apply named_is_declared; apply nmem_In; exact M|].
    intros t j Dc. unfold g, link_program in *. eapply live_parts_define_uses; eauto.
  - left. intro I. apply nmem_In in I. congruence.
Qed.
