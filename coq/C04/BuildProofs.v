(* C04: the dependency lists the linker builds from symbol uses cover the
   declaring parts, for every program: "dead parts are removable" composes. *)
From V Require Import Common.Base C04.Parts C04.Mark C04.ReachSpec C04.MarkProofs C04.Harness C04.HarnessProofs C04.Build.

Lemma get_file_add_deps g s :
  get_file (add_deps g) s =
  option_map (fun f => mkFile (f_repr f) (f_effects f) (f_entry f) (f_css f) (f_css_imports f)
                              (map (add_deps_part g) (f_parts f))) (get_file g s).
Proof. unfold get_file, add_deps. simpl. apply nth_error_map. Qed.

Lemma get_part_add_deps g s i :
  get_part (add_deps g) s i = option_map (add_deps_part g) (get_part g s i).
Proof.
  unfold get_part. rewrite get_file_add_deps. destruct (get_file g s) as [f|]; simpl; [|reflexivity].
  destruct (f_repr f); try reflexivity. apply nth_error_map.
Qed.

Lemma symbol_deps_In g p u t j q :
  In u (p_uses p) -> In (t, j, q) (all_parts g) -> declares_b u q = true -> In (t, j) (symbol_deps g p).
Proof.
  intros U A D. unfold symbol_deps. apply in_flat_map. exists u. split; [exact U|].
  apply in_map_iff. exists (t, j, q). split; [reflexivity|]. apply filter_In. split; [exact A | exact D].
Qed.

Lemma add_deps_covers g : deps_cover_uses (add_deps g).
Proof.
  intros s i p u t j P U [q [Q D]]. right.
  rewrite get_part_add_deps in P, Q.
  destruct (get_part g s i) as [p0|] eqn:P0; [|discriminate P]. simpl in P. inversion P; subst p. clear P.
  destruct (get_part g t j) as [q0|] eqn:Q0; [|discriminate Q]. simpl in Q. inversion Q; subst q. clear Q.
  simpl in U, D |- *. apply in_or_app. right.
  apply (symbol_deps_In g p0 u t j q0 U (all_parts_In g t j q0 Q0)).
  unfold declares_b. apply existsb_exists. exists u. split; [exact D | apply sym_eqb_eq; reflexivity].
Qed.

(* every symbol referenced by a live part is declared by live parts only (or by
   no part at all: unbound / external) *)
Lemma live_parts_define_uses ts ign entries prog s i p u t j :
  let g := link ts ign entries prog in
  live g (IPart s i) -> get_part g s i = Some p -> In u (p_uses p) -> declares g t j u ->
  live g (IPart t j) /\ live g (IFile t).
Proof.
  intros g L P U D. apply (no_dangling g s i p u t j); try assumption. apply add_deps_covers.
Qed.

(* toAST's TopLevelSymbolToParts lists exactly the declaring parts *)
Lemma symbol_to_parts_from_In u : forall ps i0 j,
  In j (symbol_to_parts_from u i0 ps) <->
  exists k q, j = (i0 + k)%nat /\ nth_error ps k = Some q /\ declares_b u q = true.
Proof.
  induction ps as [|q r IH]; intros i0 j; simpl.
  - split; [intros [] | intros [k [q [_ [H _]]]]; destruct k; discriminate].
  - destruct (declares_b u q) eqn:D; simpl; rewrite IH; split.
    + intros [<-|[k [q' [E [N D']]]]].
      * exists O, q. rewrite Nat.add_0_r. auto.
      * exists (S k), q'. split; [lia | auto].
    + intros [k [q' [E [N D']]]]. destruct k as [|k]; simpl in N.
      * left. lia.
      * right. exists k, q'. split; [lia | auto].
    + intros [k [q' [E [N D']]]]. exists (S k), q'. split; [lia | auto].
    + intros [k [q' [E [N D']]]]. destruct k as [|k]; simpl in N.
      * inversion N; subst q'. congruence.
      * exists k, q'. split; [lia | auto].
Qed.

Lemma top_level_symbol_to_parts_spec ps u j :
  In j (top_level_symbol_to_parts ps u) <-> exists q, nth_error ps j = Some q /\ declares_b u q = true.
Proof.
  unfold top_level_symbol_to_parts. rewrite symbol_to_parts_from_In. split.
  - intros [k [q [E H]]]. simpl in E. subst. exists q. exact H.
  - intros [q H]. exists j, q. auto.
Qed.

(* splitting keeps every declarator: nothing a statement declares or uses is lost *)
Lemma split_decls stmts :
  let '(b, p, a) := split stmts in
  forall d, In d (flat_map stmt_decls stmts) ->
    exists q, In q (b ++ p ++ a) /\ p_declares q = td_declares d /\ p_uses q = td_uses d /\ p_can_remove q = td_can_remove d.
Proof.
  induction stmts as [|s r IH]; simpl; [intros d []|].
  destruct (split r) as [[b p] a]. destruct s as [ds|d0 imp|d0|d0]; simpl; intros d Hd.
  - apply in_app_or in Hd as [Hd|Hd].
    + exists (part_of [] d). split; [|auto]. apply in_or_app. right. apply in_or_app. left. apply in_or_app. left. apply in_map. exact Hd.
    + destruct (IH d Hd) as [q [Hq E]]. exists q. split; [|exact E].
      apply in_app_or in Hq as [Hq|Hq]; apply in_or_app; [left; exact Hq | right].
      apply in_app_or in Hq as [Hq|Hq]; apply in_or_app; [left; apply in_or_app; right; exact Hq | right; exact Hq].
  - destruct Hd as [<-|Hd].
    + exists (part_of [imp] d0). split; [left; reflexivity | auto].
    + destruct (IH d Hd) as [q [Hq E]]. exists q. split; [right; exact Hq | exact E].
  - destruct Hd as [<-|Hd].
    + exists (part_of [] d0). split; [|auto]. apply in_or_app. right. apply in_or_app. right. left; reflexivity.
    + destruct (IH d Hd) as [q [Hq E]]. exists q. split; [|exact E].
      apply in_app_or in Hq as [Hq|Hq]; apply in_or_app; [left; exact Hq | right].
      apply in_app_or in Hq as [Hq|Hq]; apply in_or_app; [left; exact Hq | right; right; exact Hq].
  - destruct Hd as [<-|Hd].
    + exists (part_of [] d0). split; [|auto]. apply in_or_app. right. left; reflexivity.
    + destruct (IH d Hd) as [q [Hq E]]. exists q. split; [|exact E].
      apply in_app_or in Hq as [Hq|Hq]; apply in_or_app; [left; exact Hq | right; right; exact Hq].
Qed.

Lemma build_parts_keeps_decls stmts d :
  In d (flat_map stmt_decls stmts) ->
  (exists q, In q (build_parts true stmts) /\ p_declares q = td_declares d /\ p_uses q = td_uses d /\ p_can_remove q = td_can_remove d)
  /\ (exists q, In q (build_parts false stmts) /\
        (forall u, In u (td_declares d) -> In u (p_declares q)) /\ (forall u, In u (td_uses d) -> In u (p_uses q)) /\
        (p_can_remove q = true -> td_can_remove d = true)).
Proof.
  intro H. split.
  - pose proof (split_decls stmts) as S. unfold build_parts. destruct (split stmts) as [[b p] a].
    destruct (S d H) as [q [Hq E]]. exists q. split; [right; exact Hq | exact E].
  - unfold build_parts, single_part. destruct stmts as [|s r]; [destruct H|].
    eexists. split; [right; left; reflexivity|]. simpl p_declares. simpl p_uses. simpl p_can_remove.
    split; [|split].
    + intros u Hu. apply in_flat_map. exists d. auto.
    + intros u Hu. apply in_flat_map. exists d. auto.
    + intro F. rewrite forallb_forall in F. apply F. exact H.
Qed.

(* ---- dependencies beyond a part's own symbol uses ---- *)
Lemma nth_error_mapi_from {A B} (f : nat -> A -> B) : forall l i0 k,
  nth_error (mapi_from f i0 l) k = option_map (f (i0 + k)%nat) (nth_error l k).
Proof.
  induction l as [|x r IH]; intros i0 k; [destruct k; reflexivity|].
  destruct k as [|k]; simpl; [rewrite Nat.add_0_r; reflexivity|].
  rewrite IH. replace (S i0 + k)%nat with (i0 + S k)%nat by lia. reflexivity.
Qed.

Definition with_extra (g : graph) (bs : list binding) (s i : nat) (p : part) : part :=
  mkPart (p_can_remove p) (p_force_ts p) (p_imports p) (p_deps p ++ user_extra g bs s i) (p_declares p) (p_uses p).

Lemma get_part_add_bindings g bs s i :
  get_part (add_bindings g bs) s i = option_map (with_extra g bs s i) (get_part g s i).
Proof.
  unfold get_part, get_file, add_bindings. simpl g_files. rewrite nth_error_mapi_from. simpl.
  destruct (nth_error (g_files g) s) as [f|]; simpl; [|reflexivity].
  destruct (f_repr f); try reflexivity. rewrite nth_error_mapi_from. reflexivity.
Qed.

Lemma nat_mem_In x l : nat_mem x l = true <-> In x l.
Proof.
  unfold nat_mem. rewrite existsb_exists. split.
  - intros [y [H E]]. apply Nat.eqb_eq in E. subst. exact H.
  - intro H. exists x. split; [exact H | apply Nat.eqb_refl].
Qed.

(* model side: after linking the import bindings, a live part that uses an
   import keeps alive every re-export statement on the resolution chain and
   every part declaring the imported symbol in the file it resolves to *)
Lemma import_bindings_closed g bs b i p d :
  let g' := add_bindings g bs in
  In b bs -> In i (b_users b) ->
  live g' (IPart (b_file b) i) -> get_part g' (b_file b) i = Some p ->
  In d (binding_deps g b) -> live g' (IPart (fst d) (snd d)).
Proof.
  intros g' Hb Hi L P Hd. unfold g' in *. rewrite get_part_add_bindings in P.
  destruct (get_part g (b_file b) i) as [p0|] eqn:P0; [|discriminate P]. simpl in P. inversion P; subst p.
  eapply live_dep; [exact L | rewrite get_part_add_bindings, P0; reflexivity |].
  destruct d as [t j]. simpl. apply in_or_app. right. unfold user_extra. apply in_flat_map.
  exists b. split; [exact Hb|]. rewrite Nat.eqb_refl. simpl.
  apply nat_mem_In in Hi. rewrite Hi. exact Hd.
Qed.

Lemma pair_mem_In d l : pair_mem d l = true -> In d l.
Proof.
  unfold pair_mem. rewrite existsb_exists. intros [e [H E]]. apply andb_true_iff in E as [E1 E2].
  apply Nat.eqb_eq in E1, E2. destruct d, e. simpl in *. subst. exact H.
Qed.

(* dump side: the check run on every dumped graph implies the same closure for
   the real Dependencies *)
Lemma bindings_ok_closed g bs b i d :
  bindings_ok g bs = true -> In b bs -> In i (b_users b) ->
  live g (IPart (b_file b) i) -> In d (binding_deps g b) -> live g (IPart (fst d) (snd d)).
Proof.
  unfold bindings_ok. intros H Hb Hi L Hd.
  rewrite forallb_forall in H. specialize (H b Hb). rewrite forallb_forall in H. specialize (H i Hi).
  destruct (get_part g (b_file b) i) as [p|] eqn:P; [|discriminate H].
  rewrite forallb_forall in H. specialize (H d Hd). apply pair_mem_In in H.
  destruct d as [t j]. eapply live_dep; eauto.
Qed.

(* generated uses (GenerateSymbolImportAndUse: runtime helpers such as __toESM,
   __commonJS, wrapper and exports symbols of wrapped files) are symbol uses: the
   part of the runtime / of the wrapped file that declares the symbol stays live *)
Lemma generated_uses_closed g s i p u t j :
  deps_cover_uses g -> live g (IPart s i) -> get_part g s i = Some p -> In u (p_uses p) ->
  declares g t j u -> live g (IPart t j).
Proof. intros C L P U D. apply (no_dangling g s i p u t j C L P U D). Qed.
