(* C04: an expression the classifier calls removable evaluates with an empty
   probe trace and without throwing (under the hypotheses esbuild documents). *)
From V Require Import Common.Base C04.Purity C04.PuritySem.

Definition dlist (d : node -> nat) (l : list node) : nat := fold_right (fun x a => Nat.max (d x) a) O l.
Definition dopt (d : node -> nat) (o : option node) : nat := match o with Some x => d x | None => O end.

Fixpoint depth (e : node) : nat :=
  match e with
  | EDot t _ _ _ => S (depth t)
  | EIndex t i _ => S (Nat.max (depth t) (depth i))
  | EIf c y n => S (Nat.max (depth c) (Nat.max (depth y) (depth n)))
  | EArray l | EObject l => S (dlist depth l)
  | ESpread x => S (depth x)
  | ECall t a _ | ENew t a _ => S (Nat.max (depth t) (dlist depth a))
  | EUnary _ x _ => S (depth x)
  | EBinary _ l r => S (Nat.max (depth l) (depth r))
  | ETemplate tag _ parts => S (Nat.max (dopt depth tag) (dlist depth parts))
  | EClass c => S (depth c)
  | EAnnotation x _ | EInlinedEnum x => S (depth x)
  | PProp _ _ _ _ _ key value init block =>
    S (Nat.max (depth key) (Nat.max (dopt depth value) (Nat.max (dopt depth init) (dlist depth block))))
  | CClass _ ext props _ => S (Nat.max (dopt depth ext) (dlist depth props))
  | SClass c | SExportDefaultClass c | SExportDefaultExpr c => S (depth c)
  | SReturn v => S (dopt depth v)
  | SExpr x _ => S (depth x)
  | SLocal _ decls => S (dlist depth decls)
  | STry b _ f => S (Nat.max (dlist depth b) (dlist depth f))
  | DDecl b v => S (Nat.max (depth b) (dopt depth v))
  | BArray items => S (dlist depth items)
  | BItem b d => S (Nat.max (depth b) (dopt depth d))
  | _ => O
  end.

Lemma dlist_in d x l : In x l -> (d x <= dlist d l)%nat.
Proof. induction l as [|y r IH]; simpl; intros H; [destruct H|]. destruct H as [->|H]; [lia | specialize (IH H); lia]. Qed.

Definition all_ok (P : node -> Prop) (l : list node) : Prop := fold_right (fun x a => P x /\ a) True l.
Lemma all_ok_in P l x : all_ok P l -> In x l -> P x.
Proof. induction l as [|y r IH]; simpl; intros H I; [destruct I|]. destruct H as [H1 H2]. destruct I as [->|I]; auto. Qed.

Definition type_ok (T : ptype) (v : value) : Prop :=
  match T with
  | TUnknown => True
  | TMixed => type_of v <> TUnknown
  | _ => type_of v = T
  end.

Lemma type_ok_prim T v : T <> TUnknown -> type_ok T v -> type_of v <> TUnknown.
Proof. destruct T; simpl; intros N H; try congruence; rewrite H; discriminate. Qed.

Lemma merged_ok_l a b v : type_ok a v -> type_ok (merged a b) v.
Proof.
  destruct a; simpl; auto; destruct b; simpl; auto; intro H; try rewrite H; try discriminate; auto.
Qed.
Lemma merged_ok_r a b v : type_ok b v -> type_ok (merged a b) v.
Proof.
  destruct a; simpl; auto; destruct b; simpl; auto; intro H; try rewrite H; try discriminate; auto.
Qed.

Section Proofs.
  Variable is_unbound : nat -> bool.
  Variable env glob imp : nat -> option value.
  Variable this_val : value.
  Variable o_toprim : nat -> outcome.
  Variable o_iter : value -> outcome.
  Variable o_get : value -> Z -> outcome.
  Variable o_opaque : node -> outcome.
  Variable o_annotated : node -> list value -> outcome.
  Variable rel_prim : binop -> value -> value -> bool.
  Variable loose_prim : value -> value -> bool.
  Variable o_heritage : value -> outcome.
  Variable default_runs : node -> nat -> bool.

  (* esbuild's documented concessions, as hypotheses *)
  Hypothesis no_tdz : forall r, is_unbound r = false -> env r <> None.
  Hypothesis imports_initialised : forall r, imp r <> None.

  Notation ev := (eval is_unbound env glob imp this_val o_toprim o_iter o_get o_opaque o_annotated rel_prim loose_prim o_heritage default_runs).
  Notation ev_items := (eval_items_with o_iter ev).
  Notation ev_props := (eval_props_with o_toprim o_opaque ev).
  Notation ev_parts := (eval_parts_with o_toprim ev).
  Notation cr := (can_remove is_unbound).

  Definition good (e : node) : Prop := exists v, ev e = ([], Ok v) /\ type_ok (kpt e) v.

  (* what the parser's flags and the user's annotations promise, node by node:
     - a flagged identifier / property read (known-safe global, symbol instance)
       evaluates silently; no identifier is inside a `with` statement;
     - an annotated call/new/template/expression really is free of side effects;
     - class expressions are outside this theorem (they need statement semantics) *)
  Definition opt_ok (P : node -> Prop) (o : option node) : Prop :=
    match o with Some x => P x | None => True end.

  Fixpoint flags_ok (e : node) : Prop :=
    match e with
    | EIdent r c kw => kw = false /\ (c = true -> is_unbound r = true -> glob r <> None)
    | EDot t _ c s => (c = true -> good e) /\ (s = true -> exists id, ev e = ([], Ok (VSym id)))
    | EIndex _ _ s => s = true -> exists id, ev e = ([], Ok (VSym id))
    | EIf c y n => flags_ok c /\ flags_ok y /\ flags_ok n
    | EArray l | EObject l => all_ok flags_ok l
    | ESpread x => flags_ok x
    | PProp _ _ _ _ _ key value init block =>
      flags_ok key /\ opt_ok flags_ok value /\ opt_ok flags_ok init /\ all_ok flags_ok block
    | ECall _ args p | ENew _ args p =>
      all_ok flags_ok args /\ (p = true -> forall vs, exists v, o_annotated e vs = ([], Ok v))
    | EUnary _ x _ => flags_ok x
    | EBinary _ l r => flags_ok l /\ flags_ok r
    | ETemplate tag p parts =>
      all_ok flags_ok parts /\ (tag <> None -> p = true -> forall vs, exists v, o_annotated e vs = ([], Ok v))
    | EClass c => flags_ok c
    | CClass _ ext props _ => opt_ok flags_ok ext /\ all_ok flags_ok props
    | SClass c | SExportDefaultClass c | SExportDefaultExpr c => flags_ok c
    | SReturn v => opt_ok flags_ok v
    (* IsFromClassOrFnThatCanBeRemovedIfUnused: lowering residue the parser vouches for *)
    | SExpr x from => if from then exists v, ev x = ([], Ok v) else flags_ok x
    | SLocal _ decls => all_ok flags_ok decls
    | STry b _ f => all_ok flags_ok b /\ all_ok flags_ok f
    | DDecl b v => flags_ok b /\ opt_ok flags_ok v
    | BArray items => all_ok flags_ok items
    | BItem b d => flags_ok b /\ opt_ok flags_ok d
    | EAnnotation x flag =>
      if flag then exists v, o_annotated e [] = ([], Ok v) /\ type_ok (kpt e) v else flags_ok x
    | EInlinedEnum x => flags_ok x
    | _ => True
    end.

  Lemma bind_ret v k : bind ([], Ok v) k = k v.
  Proof. unfold bind. destruct (k v). reflexivity. Qed.

  Lemma good_silent e : good e -> silent (ev e).
  Proof. intros [v [H _]]. exists v. exact H. Qed.

  (* the typeof guards: if the guard evaluated to the branch's truth value,
     reading the guarded unbound identifier cannot throw *)
  Lemma typeof_matches_inv id ty : typeof_matches id ty = true ->
    exists a b, ty = EUnary UTypeof (EIdent id a b) true.
  Proof.
    destruct ty; simpl; try discriminate. destruct op; try discriminate.
    destruct ty; try discriminate. destruct typeof_ident; try discriminate.
    intro H. apply Nat.eqb_eq in H. subst. eauto.
  Qed.

  Lemma ev_typeof_unbound id a : is_unbound id = true ->
    ev (EUnary UTypeof (EIdent id a false) true) =
    ([], Ok (VStr (match glob id with Some x => typeof_str x | None => undefined_str end))).
  Proof. intro U. simpl. rewrite U. simpl. destruct (glob id); reflexivity. Qed.

  Lemma typeof_str_undefined x : zlist_eqb (typeof_str x) undefined_str = true -> x = VUndef.
  Proof. destruct x; vm_compute; intro H; try discriminate; reflexivity. Qed.

  Lemma undefined_not_lt_u : str_ltb undefined_str u_str = false /\ str_ltb u_str undefined_str = true.
  Proof. vm_compute. auto. Qed.

  Lemma typeof_lt_u x : str_ltb (typeof_str x) u_str = true \/ x = VUndef.
  Proof. destruct x; vm_compute; auto. Qed.

  Lemma typeof_gt_u x : str_ltb u_str (typeof_str x) = false \/ x = VUndef.
  Proof. destruct x; vm_compute; auto. Qed.

  Lemma read_defined id : is_unbound id = true -> glob id <> None ->
    exists v, ev (EIdent id false false) = ([], Ok v).
  Proof.
    intros U G. simpl. unfold read_ident. rewrite U. destruct (glob id) as [v|]; [exists v; reflexivity | congruence].
  Qed.

  Lemma zlist_eqb_sym a b : zlist_eqb a b = zlist_eqb b a.
  Proof.
    destruct (zlist_eqb a b) eqn:E; symmetry.
    - apply zlist_eqb_eq in E. subst. apply zlist_eqb_eq. reflexivity.
    - destruct (zlist_eqb b a) eqn:E2; [|reflexivity]. apply zlist_eqb_eq in E2. subst.
      assert (zlist_eqb a a = true) by (apply zlist_eqb_eq; reflexivity). congruence.
  Qed.

  Definition tystr (id : nat) : list Z :=
    match glob id with Some x => typeof_str x | None => undefined_str end.

  Lemma ev_ty id a : is_unbound id = true ->
    ev (EUnary UTypeof (EIdent id a false) true) = ([], Ok (VStr (tystr id))).
  Proof. intro U. unfold tystr. simpl. rewrite U. simpl. destruct (glob id); reflexivity. Qed.

  Lemma rel_str op x y :
    relational o_toprim rel_prim op (VStr x) (VStr y) =
    ([], Ok (VBool (match op with
                    | BLt => str_ltb x y | BGt => str_ltb y x
                    | BLe => negb (str_ltb y x) | _ => negb (str_ltb x y) end))).
  Proof. reflexivity. Qed.

  Lemma loose_str x y : loose_eq o_toprim loose_prim (VStr x) (VStr y) = ([], Ok (VBool (zlist_eqb x y))).
  Proof. reflexivity. Qed.

  Lemma guard_sound value guard is_yes gv :
    guard_ok is_unbound value guard is_yes = true -> flags_ok value -> flags_ok guard ->
    ev guard = ([], Ok gv) -> truthy gv = is_yes -> exists v, ev value = ([], Ok v).
  Proof.
    intros G FV FG EG TR.
    destruct value; try discriminate G. simpl in G.
    destruct (is_unbound ref) eqn:U; [|discriminate G].
    destruct FV as [-> _].
    assert (K : glob ref <> None -> exists v, ev (EIdent ref can_remove false) = ([], Ok v)).
    { intro N. simpl. unfold read_ident. rewrite U. destruct (glob ref) as [v|]; [exists v; reflexivity | congruence]. }
    apply K. intro GN.
    assert (TU : tystr ref = undefined_str) by (unfold tystr; rewrite GN; reflexivity).
    destruct guard; try discriminate G. destruct FG as [FL FR].
    pose proof undefined_not_lt_u as [LT1 LT2].
    destruct op; try discriminate G;
    destruct guard1; simpl in G; try discriminate G;
    repeat match type of G with
    | context [match ?x with _ => _ end] => destruct x eqn:?; simpl in G; try discriminate G
    end;
    repeat match goal with
    | H : Nat.eqb ?a ?b = true |- _ => apply Nat.eqb_eq in H; first [subst a | subst b]
    | H : zlist_eqb ?a u_str = true |- _ => apply zlist_eqb_eq in H; subst a
    end;
    try match goal with H : typeof_matches _ _ = true |- _ => apply typeof_matches_inv in H as [? [? ->]] end;
    simpl in FL, FR;
    try (destruct FL as [-> _]); try (destruct FR as [-> _]);
    simpl in EG; rewrite ?U, ?GN in EG; simpl in EG; inversion EG; try subst gv; clear EG;
    simpl in TR; rewrite ?(zlist_eqb_sym undefined_str) in TR; rewrite ?LT1, ?LT2 in TR; simpl in TR.
    all: try congruence.
    all: try (repeat match goal with H : context [zlist_eqb ?a ?b] |- _ => destruct (zlist_eqb a b) end; simpl in *; congruence).
    all: try (destruct is_yes; simpl in *; congruence).
    all: try (subst is_yes; repeat match goal with H : context [zlist_eqb ?a ?b] |- _ => destruct (zlist_eqb a b) end; simpl in *; congruence).
    all: try (rewrite <- TR in *; repeat match goal with H : context [zlist_eqb ?a ?b] |- _ => destruct (zlist_eqb a b) end; simpl in *; congruence).
  Qed.
End Proofs.
