(* C04 specification side of the purity theorem: a probe-trace semantics of
   the expression fragment the classifier can call removable, written from
   ECMA-262 (evaluation order, ToPrimitive/ToString/ToPropertyKey on objects
   run user code, relational comparison and template conversion throw on
   symbols, reading an undeclared global throws, typeof of an undeclared global
   does not). Everything that runs user code goes through an oracle that may
   emit ANY trace and may throw; constructs outside the fragment are opaque
   (oracle [o_opaque]): the theorem only needs that the classifier rejects them. *)
From V Require Import Common.Base C04.Purity.

Inductive value :=
| VUndef | VNull | VBool (b : bool) | VNum (z : Z) | VStr (s : list Z) | VBigInt (z : Z)
| VSym (id : nat) | VObj (id : nat).
Inductive result := Ok (v : value) | Throw.
Definition trace := list Z.
Definition outcome := (trace * result)%type.

Definition bind (o : outcome) (k : value -> outcome) : outcome :=
  match o with
  | (t, Ok v) => let '(t2, r) := k v in (t ++ t2, r)
  | (t, Throw) => (t, Throw)
  end.
Definition ret (v : value) : outcome := ([], Ok v).

Definition truthy (v : value) : bool :=
  match v with
  | VUndef | VNull => false
  | VBool b => b
  | VNum z => negb (z =? 0)
  | VStr s => match s with [] => false | _ => true end
  | VBigInt z => negb (z =? 0)
  | VSym _ | VObj _ => true
  end.

Definition nullish (v : value) : bool := match v with VUndef | VNull => true | _ => false end.

Definition value_eqb (a b : value) : bool :=   (* strict equality *)
  match a, b with
  | VUndef, VUndef | VNull, VNull => true
  | VBool x, VBool y => Bool.eqb x y
  | VNum x, VNum y => x =? y
  | VStr x, VStr y => zlist_eqb x y
  | VBigInt x, VBigInt y => x =? y
  | VSym x, VSym y => Nat.eqb x y
  | VObj x, VObj y => Nat.eqb x y
  | _, _ => false
  end.

Definition typeof_str (v : value) : list Z :=
  match v with
  | VUndef => undefined_str
  | VNull | VObj _ => [111;98;106;101;99;116]          (* "object" (functions: see note) *)
  | VBool _ => [98;111;111;108;101;97;110]
  | VNum _ => [110;117;109;98;101;114]
  | VStr _ => [115;116;114;105;110;103]
  | VBigInt _ => [98;105;103;105;110;116]
  | VSym _ => [115;121;109;98;111;108]
  end.
(* note: "function" (< "u", <> "undefined") behaves like "object" for every
   guard the classifier recognises, so callable objects are not distinguished *)

Fixpoint str_ltb (a b : list Z) : bool :=   (* lexicographic order on code units *)
  match a, b with
  | _, [] => false
  | [], _ :: _ => true
  | x :: a', y :: b' => (x <? y) || ((x =? y) && str_ltb a' b')
  end.

Definition type_of (v : value) : ptype :=
  match v with
  | VUndef => TUndefined | VNull => TNull | VBool _ => TBoolean | VNum _ => TNumber
  | VStr _ => TString | VBigInt _ => TBigInt | VSym _ | VObj _ => TUnknown
  end.

Section Sem.
  Variable is_unbound : nat -> bool.
  Variable env : nat -> option value.    (* declared identifier; None: in its temporal dead zone *)
  Variable glob : nat -> option value.   (* unbound identifier; None: no such global *)
  Variable imp : nat -> option value.    (* import binding; None: uninitialised *)
  Variable this_val : value.
  (* user code *)
  Variable o_toprim : nat -> outcome.    (* ToPrimitive of an object *)
  Variable o_iter : value -> outcome.    (* iterating a spread operand *)
  Variable o_get : value -> Z -> outcome. (* property read *)
  Variable o_opaque : node -> outcome.   (* anything outside the fragment *)
  Variable o_annotated : node -> list value -> outcome.  (* a call/new/template/expression the user annotated as pure *)
  (* primitive arithmetic that cannot run user code *)
  Variable rel_prim : binop -> value -> value -> bool.
  Variable loose_prim : value -> value -> bool.
  (* class heritage: "extends v" checks that v is a constructor (or null) and
     reads v.prototype *)
  Variable o_heritage : value -> outcome.
  (* array destructuring of an array literal: does element [i] come out
     undefined, so that the default value of the binding element runs? *)
  Variable default_runs : node -> nat -> bool.

  Definition to_prim (v : value) : outcome :=
    match v with VObj id => o_toprim id | _ => ret v end.

  Definition to_string (v : value) : outcome :=
    bind (to_prim v) (fun p => match p with VSym _ | VObj _ => ([], Throw) | _ => ret (VStr []) end).

  Definition to_key (v : value) : outcome := to_prim v.   (* symbols are legal keys *)

  Definition relational (op : binop) (a b : value) : outcome :=
    bind (to_prim a) (fun pa => bind (to_prim b) (fun pb =>
      match pa, pb with
      | VSym _, _ | _, VSym _ | VObj _, _ | _, VObj _ => ([], Throw)
      | VStr x, VStr y =>
        ret (VBool (match op with
                    | BLt => str_ltb x y | BGt => str_ltb y x
                    | BLe => negb (str_ltb y x) | _ => negb (str_ltb x y) end))
      | _, _ => ret (VBool (rel_prim op pa pb))
      end)).

  Definition loose_eq (a b : value) : outcome :=
    if ptype_eqb (type_of a) (type_of b) && negb (ptype_eqb (type_of a) TUnknown) then ret (VBool (value_eqb a b))
    else match a, b with
         | VObj x, VObj y => ret (VBool (Nat.eqb x y))
         | VObj x, _ => if nullish b then ret (VBool false)
                        else bind (o_toprim x) (fun pa => ret (VBool (loose_prim pa b)))
         | _, VObj y => if nullish a then ret (VBool false)
                        else bind (o_toprim y) (fun pb => ret (VBool (loose_prim a pb)))
         | _, _ => ret (VBool (loose_prim a b))
         end.

  Definition read_ident (ref : nat) : outcome :=
    match (if is_unbound ref then glob ref else env ref) with
    | Some v => ret v
    | None => ([], Throw)          (* ReferenceError *)
    end.

  Definition eval_items_with (ev : node -> outcome) : list node -> trace * option (list value) :=
    fix go (l : list node) : trace * option (list value) :=
      match l with
      | [] => ([], Some [])
      | x :: r =>
        let o := match x with
                 | ESpread ((EArray _) as arr) => ev arr      (* built-in array iterator: no user code *)
                 | ESpread y => bind (ev y) o_iter
                 | _ => ev x
                 end in
        match o with
        | (t, Ok v) => let '(t2, vs) := go r in (t ++ t2, option_map (cons v) vs)
        | (t, Throw) => (t, None)
        end
      end.

  Definition eval_props_with (ev : node -> outcome) (whole : node) : list node -> outcome :=
    fix go (l : list node) : outcome :=
      match l with
      | [] => ret (VObj 0)
      | PProp k computed _ _ _ key value _ _ :: r =>
        match k with
        | KSpread => o_opaque whole
        | _ =>
          bind (if computed then bind (ev key) to_key else ret VUndef) (fun _ =>
          bind (match value with Some v => ev v | None => ret VUndef end) (fun _ => go r))
        end
      | _ :: _ => o_opaque whole
      end.

  Definition eval_parts_with (ev : node -> outcome) : list node -> outcome :=
    fix go (l : list node) : outcome :=
      match l with
      | [] => ret (VStr [])
      | x :: r => bind (ev x) (fun v => bind (to_string v) (fun _ => go r))
      end.

  Definition opt_eval (ev : node -> outcome) (o : option node) : outcome :=
    match o with Some x => ev x | None => ret VUndef end.

  (* statement lists: in order, stop at the first exception *)
  Definition eval_seq_with (ev : node -> outcome) : list node -> outcome :=
    fix go (l : list node) : outcome :=
      match l with
      | [] => ret VUndef
      | x :: r => bind (ev x) (fun _ => go r)
      end.

  (* class members, at class definition time: computed keys are evaluated and
     converted to property keys, static fields and static blocks run; instance
     fields and method bodies do not. Decorators, parameter decorators and
     static fields with assign semantics (useDefineForClassFields = false:
     setters may run) are opaque. (ECMA-262 evaluates all keys before the static
     elements; the relative order of events inside one class is not modelled.) *)
  Definition eval_members_with (ev : node -> outcome) (whole : node) (use_define : bool) : list node -> outcome :=
    fix go (l : list node) : outcome :=
      match l with
      | [] => ret (VObj 0)
      | PProp k computed static dec argdec key value init block :: r =>
        match k with
        | KStaticBlock => bind (eval_seq_with ev block) (fun _ => go r)
        | _ =>
          if dec || (match k with KMethod => argdec | _ => false end) then o_opaque whole
          else
            bind (if computed then bind (ev key) to_key else ret VUndef) (fun _ =>
            bind (if static
                  then if (match k with KField => negb use_define | _ => false end) then o_opaque whole
                       else bind (opt_eval ev value) (fun _ => opt_eval ev init)
                  else ret VUndef) (fun _ => go r))
        end
      | _ :: _ => o_opaque whole
      end.

  (* binding elements of an array pattern whose initialiser is an array literal
     (built-in iterator: no user code): a default value runs when the world says
     the element is undefined *)
  Definition eval_elems_with (ev : node -> outcome) (whole : node) : nat -> list node -> outcome :=
    fix go (i : nat) (l : list node) : outcome :=
      match l with
      | [] => ret VUndef
      | BItem ib def :: r =>
        bind (match def with
              | Some d => if default_runs whole i then ev d else ret VUndef
              | None => ret VUndef end) (fun _ =>
        match ib with
        | BIdent | BMissing => go (S i) r
        | _ => o_opaque whole        (* nested patterns *)
        end)
      | _ :: _ => o_opaque whole
      end.

  Definition eval_decls_with (ev : node -> outcome) (whole : node) (k : lkind) : list node -> outcome :=
    fix go (l : list node) : outcome :=
      match l with
      | [] => ret VUndef
      | DDecl b value :: r =>
        bind (opt_eval ev value) (fun v =>
        bind (match b with
              | BIdent => ret VUndef
              | BArray items =>
                match value with
                | Some (EArray _) => eval_elems_with ev whole O items
                | _ => o_opaque whole          (* iterating an arbitrary value / nothing to destructure *)
                end
              | _ => o_opaque whole            (* object patterns read properties *)
              end) (fun _ =>
        bind (match k, value with
              | LUsing, Some _ => if nullish v then ret VUndef else o_opaque whole   (* Symbol.dispose lookup *)
              | _, _ => ret VUndef
              end) (fun _ => go r)))
      | _ :: _ => o_opaque whole
      end.

  Fixpoint eval (e : node) : outcome :=
    let eval_items := eval_items_with eval in
    let eval_props := eval_props_with eval e in
    let eval_parts := eval_parts_with eval in
    match e with
    | ENull => ret VNull
    | EUndefined | EMissing => ret VUndef
    | EBool b => ret (VBool b)
    | ENum z => ret (VNum z)
    | EStr s => ret (VStr s)
    | EBigInt z => ret (VBigInt z)
    | EThis => ret this_val
    | ERegExp | EFunction | EArrow | EImportMeta => ret (VObj 0)
    | EIdent ref _ kw => if kw then o_opaque e else read_ident ref
    | EImportIdent ref => match imp ref with Some v => ret v | None => ([], Throw) end
    | EDot t name _ _ =>
      bind (eval t) (fun v => if nullish v then ([], Throw) else o_get v name)
    | EIf c y n => bind (eval c) (fun v => if truthy v then eval y else eval n)
    | EArray items =>
      match eval_items items with
      | (t, Some _) => (t, Ok (VObj 0))
      | (t, None) => (t, Throw)
      end
    | EObject props => eval_props props
    | ECall _ args true | ENew _ args true =>
      match eval_items args with
      | (t, Some vs) => let '(t2, r) := o_annotated e vs in (t ++ t2, r)
      | (t, None) => (t, Throw)
      end
    | EUnary op v flag =>
      match op with
      | UVoid => bind (eval v) (fun _ => ret VUndef)
      | UNot => bind (eval v) (fun x => ret (VBool (negb (truthy x))))
      | UNeg => match v with EBigInt z => ret (VBigInt (- z)) | _ => o_opaque e end
      | UTypeof =>
        match v with
        | EIdent ref _ false =>
          if flag && is_unbound ref then
            match glob ref with Some x => ret (VStr (typeof_str x)) | None => ret (VStr undefined_str) end
          else bind (eval v) (fun x => ret (VStr (typeof_str x)))
        | _ => bind (eval v) (fun x => ret (VStr (typeof_str x)))
        end
      | _ => o_opaque e
      end
    | EBinary op l r =>
      match op with
      | BStrictEq => bind (eval l) (fun a => bind (eval r) (fun b => ret (VBool (value_eqb a b))))
      | BStrictNe => bind (eval l) (fun a => bind (eval r) (fun b => ret (VBool (negb (value_eqb a b)))))
      | BComma => bind (eval l) (fun _ => eval r)
      | BNullish => bind (eval l) (fun a => if nullish a then eval r else ret a)
      | BOr => bind (eval l) (fun a => if truthy a then ret a else eval r)
      | BAnd => bind (eval l) (fun a => if truthy a then eval r else ret a)
      | BLooseEq => bind (eval l) (fun a => bind (eval r) (fun b => loose_eq a b))
      | BLooseNe => bind (eval l) (fun a => bind (eval r) (fun b =>
                      bind (loose_eq a b) (fun x => ret (VBool (negb (truthy x))))))
      | BLt | BGt | BLe | BGe => bind (eval l) (fun a => bind (eval r) (fun b => relational op a b))
      | _ => o_opaque e
      end
    | ETemplate None _ parts => eval_parts parts
    | ETemplate (Some _) true parts =>
      match eval_items parts with
      | (t, Some vs) => let '(t2, r) := o_annotated e vs in (t ++ t2, r)
      | (t, None) => (t, Throw)
      end
    | EAnnotation _ true => o_annotated e []
    | EAnnotation v false => eval v
    | EInlinedEnum v => eval v
    (* classes *)
    | EClass c => eval c
    | CClass decorated ext props use_define =>
      if decorated then o_opaque e
      else bind (match ext with Some x => bind (eval x) o_heritage | None => ret VUndef end) (fun _ =>
           eval_members_with eval e use_define props)
    (* statements (completion values are not modelled: Ok VUndef) *)
    | SFunction | SEmpty | SImport | SExportFrom | SExportClause | SExportDefaultFn => ret VUndef
    | SClass c | SExportDefaultClass c => bind (eval c) (fun _ => ret VUndef)
    | SExportDefaultExpr v => bind (eval v) (fun _ => ret VUndef)
    | SReturn v => opt_eval eval v
    | SExpr v _ => bind (eval v) (fun _ => ret VUndef)
    | SLocal k decls =>
      match k with
      | LAwaitUsing => o_opaque e
      | _ => eval_decls_with eval e k decls
      end
    | STry block has_fin fin =>
      match eval_seq_with eval block with
      | (t, Ok _) => let '(t2, r2) := (if has_fin then eval_seq_with eval fin else ret VUndef) in (t ++ t2, r2)
      | (t, Throw) => let '(t2, r2) := o_opaque e in (t ++ t2, r2)     (* the catch clause runs *)
      end
    | _ => o_opaque e
    end.

  (* a top-level statement list (StmtsCanBeRemovedIfUnused) *)
  Definition exec_stmts (l : list node) : outcome := eval_seq_with eval l.

  Definition silent (o : outcome) : Prop := exists v, o = ([], Ok v).
End Sem.
