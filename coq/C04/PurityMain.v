(* C04: main purity theorem (separate file: PurityProofs.v holds the typeof
   guard lemma, whose case analysis is slow to check). *)
From V Require Import Common.Base C04.Purity C04.PuritySem C04.PurityProofs.

Section Main.
  Variable is_unbound : nat -> bool.
  Variable env glob imp : nat -> option value.
  Variable this_val : value.
  Variable o_toprim : nat -> outcome.
  Variable o_iter : value -> outcome.
  Variable o_get : value -> Z -> outcome.
  Variable o_opaque : node -> outcome.
  Variable o_annotated : node -> list value -> outcome.
  Variable rel_prim : binop -> value -> value -> bool.
  Variable loose_prim : value -> value -> bool.
  Variable o_heritage : value -> outcome.
  Variable default_runs : node -> nat -> bool.
  Hypothesis no_tdz : forall r, is_unbound r = false -> env r <> None.
  Hypothesis imports_initialised : forall r, imp r <> None.

  Notation ev := (eval is_unbound env glob imp this_val o_toprim o_iter o_get o_opaque o_annotated rel_prim loose_prim o_heritage default_runs).
  Notation ev_items := (eval_items_with o_iter ev).
  Notation ev_props := (eval_props_with o_toprim o_opaque ev).
  Notation ev_parts := (eval_parts_with o_toprim ev).
  Notation cr := (can_remove is_unbound).
  Notation good := (good is_unbound env glob imp this_val o_toprim o_iter o_get o_opaque o_annotated rel_prim loose_prim o_heritage default_runs).
  Notation flags_ok := (flags_ok is_unbound env glob imp this_val o_toprim o_iter o_get o_opaque o_annotated rel_prim loose_prim o_heritage default_runs).

  Definition IHn (n : nat) : Prop :=
    forall c, (depth c < n)%nat -> flags_ok c -> cr c = true -> good c.

  Definition item_pred (item : node) : bool :=
    match item with ESpread ((EArray _) as arr) => cr arr | _ => cr item end.

  Lemma prim_of_type v : type_of v <> TUnknown -> to_prim o_toprim v = ret v.
  Proof. destruct v; simpl; intro H; try reflexivity; congruence. Qed.

  Lemma to_string_prim v : type_of v <> TUnknown -> to_string o_toprim v = ret (VStr []).
  Proof. destruct v; simpl; intro H; try reflexivity; congruence. Qed.

  Lemma items_ok n (IH : IHn n) : forall l,
    (dlist depth l < n)%nat -> all_ok flags_ok l -> forallb item_pred l = true ->
    exists vs, ev_items l = ([], Some vs).
  Proof.
    induction l as [|x r IHl]; intros D F C.
    - exists []. reflexivity.
    - simpl in D, F, C. apply andb_true_iff in C as [C1 C2]. destruct F as [F1 F2].
      destruct IHl as [vs E]; [lia | exact F2 | exact C2 |].
      assert (A : exists v, (match x with
                             | ESpread ((EArray _) as arr) => ev arr
                             | ESpread y => bind (ev y) o_iter
                             | _ => ev x end) = ([], Ok v)).
      { assert (Dx : (depth x < n)%nat) by lia.
        destruct x; simpl in C1; try discriminate C1;
          try (destruct (IH _ Dx F1 C1) as [v [E1 _]]; exists v; exact E1).
        destruct x; simpl in C1; try discriminate C1.
        assert (Dy : (depth (EArray items) < n)%nat) by (simpl in Dx |- *; lia).
        destruct (IH (EArray items) Dy F1 C1) as [v [E1 _]]. exists v. exact E1. }
      destruct A as [v A]. exists (v :: vs).
      change (ev_items (x :: r)) with
        (match (match x with
                | ESpread ((EArray _) as arr) => ev arr
                | ESpread y => bind (ev y) o_iter
                | _ => ev x end) with
         | (t, Ok v) => let '(t2, vs) := ev_items r in (t ++ t2, option_map (cons v) vs)
         | (t, Throw) => (t, None)
         end).
      rewrite A, E. reflexivity.
  Qed.

  Lemma items_weaken l : forallb cr l = true -> forallb item_pred l = true.
  Proof.
    induction l as [|x r IH]; simpl; intro H; [reflexivity|].
    apply andb_true_iff in H as [H1 H2]. rewrite (IH H2), andb_true_r.
    destruct x; simpl; try exact H1. simpl in H1. discriminate H1.
  Qed.

  Lemma parts_ok n (IH : IHn n) : forall l,
    (dlist depth l < n)%nat -> all_ok flags_ok l ->
    forallb (fun p => cr p && negb (ptype_eqb (kpt p) TUnknown)) l = true ->
    ev_parts l = ([], Ok (VStr [])).
  Proof.
    induction l as [|x r IHl]; intros D F C; [reflexivity|].
    simpl in D, F, C. apply andb_true_iff in C as [C1 C2]. apply andb_true_iff in C1 as [C1 C3].
    destruct F as [F1 F2]. destruct (IH x ltac:(lia) F1 C1) as [v [E T]].
    assert (N : type_of v <> TUnknown).
    { eapply type_ok_prim; [|exact T]. intro K. rewrite K in C3. discriminate C3. }
    change (ev_parts (x :: r)) with (bind (ev x) (fun v => bind (to_string o_toprim v) (fun _ => ev_parts r))).
    rewrite E, bind_ret, (to_string_prim v N). unfold ret. rewrite bind_ret. apply IHl; [lia | exact F2 | exact C2].
  Qed.

  Lemma prim_lit_kpt k : is_primitive_literal k = true -> kpt k <> TUnknown.
  Proof. induction k; simpl; intro H; try discriminate H; try discriminate; auto. Qed.

  Lemma prim_lit_good k : is_primitive_literal k = true -> flags_ok k ->
    exists v, ev k = ([], Ok v) /\ type_of v <> TUnknown.
  Proof.
    induction k; simpl; intros H F; try discriminate H;
      try (eexists; split; [reflexivity | simpl; discriminate]).
    - (* EAnnotation *) destruct flag.
      + destruct F as [v [E T]]. exists v. split; [exact E|].
        eapply type_ok_prim; [|exact T]. simpl. apply prim_lit_kpt. exact H.
      + apply IHk; assumption.
    - (* EInlinedEnum *) apply IHk; assumption.
  Qed.

  Definition prop_pred (p : node) : bool :=
    match p with
    | PProp k computed _ _ _ key value _ _ =>
      match k with
      | KSpread => false
      | _ => negb (computed && negb (is_primitive_literal key) && negb (is_symbol_instance key))
             && opt_all cr value
      end
    | _ => false
    end.

  Lemma key_ok key : flags_ok key ->
    is_primitive_literal key = true \/ is_symbol_instance key = true ->
    exists v, bind (ev key) (to_key o_toprim) = ([], Ok v).
  Proof.
    intros F [L|S].
    - destruct (prim_lit_good key L F) as [v [E T]]. exists v.
      rewrite E, bind_ret. unfold to_key. apply prim_of_type. exact T.
    - destruct key; simpl in S; try discriminate S; subst.
      + destruct F as [_ F]. destruct (F eq_refl) as [id E]. exists (VSym id). rewrite E, bind_ret. reflexivity.
      + destruct (F eq_refl) as [id E]. exists (VSym id). rewrite E, bind_ret. reflexivity.
  Qed.

  Lemma props_ok n (IH : IHn n) whole : forall l,
    (dlist depth l < n)%nat -> all_ok flags_ok l -> forallb prop_pred l = true ->
    ev_props whole l = ([], Ok (VObj 0)).
  Proof.
    induction l as [|x r IHl]; intros D F C; [reflexivity|].
    change (dlist depth (x :: r)) with (Nat.max (depth x) (dlist depth r)) in D.
    simpl in F, C. apply andb_true_iff in C as [C1 C2]. destruct F as [F1 F2].
    assert (Dr : (dlist depth r < n)%nat) by lia.
    assert (Dx : (depth x < n)%nat) by lia.
    specialize (IHl Dr F2 C2).
    destruct x; simpl in C1; try discriminate C1.
    destruct F1 as [FK [FV _]].
    assert (KS : k <> KSpread) by (intro; subst; discriminate C1).
    assert (C1' : negb (computed && negb (is_primitive_literal x) && negb (is_symbol_instance x)) && opt_all cr value = true)
      by (destruct k; try exact C1; congruence).
    apply andb_true_iff in C1' as [CK CV].
    assert (EK : exists v, (if computed then bind (ev x) (to_key o_toprim) else ret VUndef) = ([], Ok v)).
    { destruct computed; [|eexists; reflexivity]. apply key_ok; [exact FK|].
      simpl in CK. apply negb_true_iff in CK. apply andb_false_iff in CK as [CK|CK]; apply negb_false_iff in CK; auto. }
    assert (EV : exists v, (match value with Some v => ev v | None => ret VUndef end) = ([], Ok v)).
    { destruct value as [v|]; [|eexists; reflexivity]. simpl in CV, FV.
      assert (Dv : (depth v < n)%nat) by (simpl in Dx; lia).
      destruct (IH v Dv FV CV) as [w [E _]]. exists w. exact E. }
    destruct EK as [vk EK]. destruct EV as [vv EV].
    change (ev_props whole (PProp k computed static decorated arg_decorated x value init block :: r)) with
      (match k with
       | KSpread => o_opaque whole
       | _ => bind (if computed then bind (ev x) (to_key o_toprim) else ret VUndef) (fun _ =>
              bind (match value with Some v => ev v | None => ret VUndef end) (fun _ => ev_props whole r))
       end).
    destruct k; try congruence; rewrite EK, bind_ret, EV, bind_ret; exact IHl.
  Qed.

  Lemma guard_kpt value g b : guard_ok is_unbound value g b = true -> kpt value = TUnknown.
  Proof. destruct value; simpl; try discriminate. reflexivity. Qed.

  Lemma known_type T v : known_not_mixed T = true -> type_ok T v -> type_of v = T.
  Proof. destruct T; simpl; try discriminate; auto. Qed.

  Lemma ptype_eqb_eq a b : ptype_eqb a b = true -> a = b.
  Proof. destruct a, b; simpl; try discriminate; reflexivity. Qed.

  Ltac lit := eexists; split; [reflexivity | simpl; auto].

  (* esbuild's documented concession: a class heritage is a constructor whose
     "prototype" read runs no user code *)
  Hypothesis heritage_ok : forall v, exists w, o_heritage v = ([], Ok w).

  Lemma bind_ret2 v k : bind (ret v) k = k v.
  Proof. unfold ret. apply bind_ret. Qed.

  Notation so := (stmt_ok0 is_unbound).
  Definition IHs (n : nat) : Prop :=
    forall c, (depth c < n)%nat -> flags_ok c -> so c = true -> exists v, ev c = ([], Ok v).

  Lemma seq_ok n (IH : IHs n) : forall l,
    (dlist depth l < n)%nat -> all_ok flags_ok l -> forallb so l = true ->
    eval_seq_with ev l = ([], Ok VUndef).
  Proof.
    induction l as [|x r IHl]; intros D F C; [reflexivity|].
    change (dlist depth (x :: r)) with (Nat.max (depth x) (dlist depth r)) in D.
    simpl in F, C. apply andb_true_iff in C as [C1 C2]. destruct F as [F1 F2].
    destruct (IH x ltac:(lia) F1 C1) as [v E].
    change (eval_seq_with ev (x :: r)) with (bind (ev x) (fun _ => eval_seq_with ev r)).
    rewrite E, bind_ret. apply IHl; [lia | exact F2 | exact C2].
  Qed.

  Definition member_pred (use_define : bool) (p : node) : bool :=
    match p with
    | PProp k computed static dec argdec key value init block =>
      match k with
      | KStaticBlock => forallb so block
      | _ =>
        negb dec
        && negb (computed && negb (is_primitive_literal key) && negb (is_symbol_instance key))
        && negb (match k with KMethod => argdec | _ => false end)
        && (if static then opt_all cr value && opt_all cr init
                            && negb (match k with KField => negb use_define | _ => false end)
            else true)
      end
    | _ => false
    end.

  Lemma opt_eval_ok n (IH : IHn n) o : (dopt depth o < n)%nat -> opt_ok flags_ok o -> opt_all cr o = true ->
    exists v, opt_eval ev o = ([], Ok v).
  Proof.
    destruct o as [x|]; simpl; intros D F C; [|eexists; reflexivity].
    destruct (IH x D F C) as [v [E _]]. exists v. exact E.
  Qed.

  Lemma members_ok n (IH : IHn n) (IS : IHs n) whole ud : forall l,
    (dlist depth l < n)%nat -> all_ok flags_ok l -> forallb (member_pred ud) l = true ->
    eval_members_with o_toprim o_opaque ev whole ud l = ([], Ok (VObj 0)).
  Proof.
    induction l as [|x r IHl]; intros D F C; [reflexivity|].
    change (dlist depth (x :: r)) with (Nat.max (depth x) (dlist depth r)) in D.
    simpl in F, C. apply andb_true_iff in C as [C1 C2]. destruct F as [F1 F2].
    assert (Dr : (dlist depth r < n)%nat) by lia.
    assert (Dx : (depth x < n)%nat) by lia.
    specialize (IHl Dr F2 C2).
    destruct x; simpl in C1; try discriminate C1.
    destruct F1 as [FK [FV [FI FB]]]. simpl in Dx.
    destruct k.
    all: try (
      (* ordinary members *)
      apply andb_true_iff in C1 as [C1 CS]; apply andb_true_iff in C1 as [C1 CA];
      apply andb_true_iff in C1 as [CD CK]; apply negb_true_iff in CD; apply negb_true_iff in CA;
      assert (EK : exists v, (if computed then bind (ev x) (to_key o_toprim) else ret VUndef) = ([], Ok v))
        by (destruct computed; [|eexists; reflexivity]; apply key_ok; [exact FK|];
            simpl in CK; apply negb_true_iff in CK; apply andb_false_iff in CK as [CK|CK]; apply negb_false_iff in CK; auto);
      destruct EK as [vk EK]).
    - (* KNormal *)
      cbn [eval_members_with]. rewrite CD. simpl orb. cbv iota. rewrite EK, bind_ret.
      destruct static.
      + apply andb_true_iff in CS as [CS _]. apply andb_true_iff in CS as [CV CI].
        destruct (opt_eval_ok n IH value ltac:(lia) FV CV) as [v1 E1].
        destruct (opt_eval_ok n IH init ltac:(lia) FI CI) as [v2 E2].
        rewrite E1, bind_ret, E2, bind_ret. exact IHl.
      + rewrite bind_ret2. exact IHl.
    - (* KSpread *)
      cbn [eval_members_with]. rewrite CD. simpl orb. cbv iota. rewrite EK, bind_ret.
      destruct static.
      + apply andb_true_iff in CS as [CS _]. apply andb_true_iff in CS as [CV CI].
        destruct (opt_eval_ok n IH value ltac:(lia) FV CV) as [v1 E1].
        destruct (opt_eval_ok n IH init ltac:(lia) FI CI) as [v2 E2].
        rewrite E1, bind_ret, E2, bind_ret. exact IHl.
      + rewrite bind_ret2. exact IHl.
    - (* KMethod *)
      cbn [eval_members_with]. rewrite CD, CA. simpl orb. cbv iota. rewrite EK, bind_ret.
      destruct static.
      + apply andb_true_iff in CS as [CS _]. apply andb_true_iff in CS as [CV CI].
        destruct (opt_eval_ok n IH value ltac:(lia) FV CV) as [v1 E1].
        destruct (opt_eval_ok n IH init ltac:(lia) FI CI) as [v2 E2].
        rewrite E1, bind_ret, E2, bind_ret. exact IHl.
      + rewrite bind_ret2. exact IHl.
    - (* KField *)
      cbn [eval_members_with]. rewrite CD. simpl orb. cbv iota. rewrite EK, bind_ret.
      destruct static.
      + apply andb_true_iff in CS as [CS CU]. apply andb_true_iff in CS as [CV CI].
        apply negb_true_iff in CU. rewrite CU.
        destruct (opt_eval_ok n IH value ltac:(lia) FV CV) as [v1 E1].
        destruct (opt_eval_ok n IH init ltac:(lia) FI CI) as [v2 E2].
        rewrite E1, bind_ret, E2, bind_ret. exact IHl.
      + rewrite bind_ret2. exact IHl.
    - (* KStaticBlock *)
      cbn [eval_members_with].
      rewrite (seq_ok n IS block ltac:(lia) FB C1), bind_ret. exact IHl.
    - (* KOtherKind *)
      cbn [eval_members_with]. rewrite CD. simpl orb. cbv iota. rewrite EK, bind_ret.
      destruct static.
      + apply andb_true_iff in CS as [CS _]. apply andb_true_iff in CS as [CV CI].
        destruct (opt_eval_ok n IH value ltac:(lia) FV CV) as [v1 E1].
        destruct (opt_eval_ok n IH init ltac:(lia) FI CI) as [v2 E2].
        rewrite E1, bind_ret, E2, bind_ret. exact IHl.
      + rewrite bind_ret2. exact IHl.
  Qed.

  Lemma expr_step n (IH' : IHn n) (IS : IHs n) : forall e, (depth e < S n)%nat -> flags_ok e -> cr e = true -> good e.
  Proof.
    intros e D F C.
    destruct e; cbn in C; try discriminate C; try (unfold PurityProofs.good; lit; fail).
    - (* EIdent *)
      destruct F as [-> F]. unfold PurityProofs.good. cbn. unfold read_ident. destruct (is_unbound ref) eqn:U.
      + simpl in C. rewrite orb_false_r in C. destruct (glob ref) as [v|] eqn:G; [exists v; split; [reflexivity | exact I]|].
        exfalso. apply (F C eq_refl). reflexivity.
      + destruct (env ref) as [v|] eqn:G; [exists v; split; [reflexivity | exact I]|].
        exfalso. apply (no_tdz ref U G).
    - (* EImportIdent *)
      unfold PurityProofs.good. cbn. destruct (imp ref) as [v|] eqn:G; [exists v; split; [reflexivity | exact I]|].
      exfalso. apply (imports_initialised ref G).
    - (* EDot *) subst. destruct F as [F _]. exact (F eq_refl).
    - (* EIf *)
      destruct F as [F1 [F2 F3]].
      apply andb_true_iff in C as [C1 C]. apply andb_true_iff in C as [C2 C3].
      assert (D1 : (depth e1 < n)%nat) by (simpl in D; lia).
      assert (D2 : (depth e2 < n)%nat) by (simpl in D; lia).
      assert (D3 : (depth e3 < n)%nat) by (simpl in D; lia).
      destruct (IH' e1 D1 F1 C1) as [vc [Ec _]].
      unfold PurityProofs.good.
      change (ev (EIf e1 e2 e3)) with (bind (ev e1) (fun v => if truthy v then ev e2 else ev e3)).
      rewrite Ec, bind_ret. simpl kpt. destruct (truthy vc) eqn:T.
      + destruct (guard_ok is_unbound e2 e1 true) eqn:G.
        * destruct (guard_sound _ _ _ _ _ _ _ _ _ _ _ _ _ _ e2 e1 true vc G F2 F1 Ec T) as [v E].
          exists v. split; [exact E|]. rewrite (guard_kpt _ _ _ G). exact I.
        * simpl in C2. destruct (IH' e2 D2 F2 C2) as [v [E Ty]]. exists v. split; [exact E | apply merged_ok_l; exact Ty].
      + destruct (guard_ok is_unbound e3 e1 false) eqn:G.
        * destruct (guard_sound _ _ _ _ _ _ _ _ _ _ _ _ _ _ e3 e1 false vc G F3 F1 Ec T) as [v E].
          exists v. split; [exact E|]. rewrite (guard_kpt _ _ _ G). destruct (kpt e2); exact I.
        * simpl in C3. destruct (IH' e3 D3 F3 C3) as [v [E Ty]]. exists v. split; [exact E | apply merged_ok_r; exact Ty].
    - (* EArray *)
      destruct (items_ok n IH' items ltac:(simpl in D; lia) F C) as [vs E].
      exists (VObj 0). split; [|exact I].
      change (ev (EArray items)) with (match ev_items items with (t, Some _) => (t, Ok (VObj 0)) | (t, None) => (t, Throw) end).
      rewrite E. reflexivity.
    - (* EObject *)
      exists (VObj 0). split; [|exact I].
      change (ev (EObject props)) with (ev_props (EObject props) props).
      apply (props_ok n IH'); [simpl in D; lia | exact F | exact C].
    - (* ECall *)
      destruct pure; [|discriminate C]. destruct F as [F1 F2].
      destruct (items_ok n IH' args ltac:(simpl in D; lia) F1 (items_weaken _ C)) as [vs E].
      destruct (F2 eq_refl vs) as [v Hv]. exists v. split; [|exact I].
      change (ev (ECall e args true)) with
        (match ev_items args with
         | (t, Some vs) => let '(t2, r) := o_annotated (ECall e args true) vs in (t ++ t2, r)
         | (t, None) => (t, Throw) end).
      rewrite E, Hv. reflexivity.
    - (* ENew *)
      destruct pure; [|discriminate C]. destruct F as [F1 F2].
      destruct (items_ok n IH' args ltac:(simpl in D; lia) F1 (items_weaken _ C)) as [vs E].
      destruct (F2 eq_refl vs) as [v Hv]. exists v. split; [|exact I].
      change (ev (ENew e args true)) with
        (match ev_items args with
         | (t, Some vs) => let '(t2, r) := o_annotated (ENew e args true) vs in (t ++ t2, r)
         | (t, None) => (t, Throw) end).
      rewrite E, Hv. reflexivity.
    - (* EUnary *)
      assert (D1 : (depth e < n)%nat) by (simpl in D; lia). simpl in F.
      destruct op; try discriminate C.
      + (* UNeg *) destruct e; try discriminate C. eexists. split; [reflexivity | reflexivity].
      + (* UNot *) destruct (IH' e D1 F C) as [v [E _]]. exists (VBool (negb (truthy v))). split; [|reflexivity].
        change (ev (EUnary UNot e typeof_ident)) with (bind (ev e) (fun x => ret (VBool (negb (truthy x))))).
        rewrite E, bind_ret. reflexivity.
      + (* UVoid *) destruct (IH' e D1 F C) as [v [E _]]. exists VUndef. split; [|reflexivity].
        change (ev (EUnary UVoid e typeof_ident)) with (bind (ev e) (fun _ => ret VUndef)).
        rewrite E, bind_ret. reflexivity.
      + (* UTypeof *)
        assert (G : forall v, ev e = ([], Ok v) ->
                    bind (ev e) (fun x => ret (VStr (typeof_str x))) = ([], Ok (VStr (typeof_str v)))).
        { intros v E. rewrite E, bind_ret. reflexivity. }
        destruct e; try (destruct (IH' _ D1 F C) as [vv [E _]]; eexists; split; [apply (G vv E) | reflexivity]).
        destruct F as [-> F]. unfold PurityProofs.good. destruct typeof_ident.
        * cbn. destruct (is_unbound ref) eqn:U; cbn.
          -- destruct (glob ref); eexists; split; reflexivity.
          -- unfold read_ident. rewrite U.
             destruct (env ref) as [v|] eqn:Ge; [|exfalso; apply (no_tdz ref U Ge)].
             cbn. eexists; split; reflexivity.
        * destruct (IH' _ D1 (conj eq_refl F) C) as [v [E _]].
          eexists. split; [cbn in E |- *; rewrite E, bind_ret; reflexivity | reflexivity].
    - (* EBinary *)
      destruct F as [F1 F2].
      assert (D1 : (depth e1 < n)%nat) by (simpl in D; lia).
      assert (D2 : (depth e2 < n)%nat) by (simpl in D; lia).
      destruct op; try discriminate C.
      + (* === *) apply andb_true_iff in C as [C1 C2].
        destruct (IH' e1 D1 F1 C1) as [a [Ea _]]. destruct (IH' e2 D2 F2 C2) as [b [Eb _]].
        exists (VBool (value_eqb a b)). split; [|reflexivity].
        change (ev (EBinary BStrictEq e1 e2)) with (bind (ev e1) (fun a => bind (ev e2) (fun b => ret (VBool (value_eqb a b))))).
        rewrite Ea, bind_ret, Eb, bind_ret. reflexivity.
      + (* !== *) apply andb_true_iff in C as [C1 C2].
        destruct (IH' e1 D1 F1 C1) as [a [Ea _]]. destruct (IH' e2 D2 F2 C2) as [b [Eb _]].
        exists (VBool (negb (value_eqb a b))). split; [|reflexivity].
        change (ev (EBinary BStrictNe e1 e2)) with (bind (ev e1) (fun a => bind (ev e2) (fun b => ret (VBool (negb (value_eqb a b)))))).
        rewrite Ea, bind_ret, Eb, bind_ret. reflexivity.
      + (* == *) apply andb_true_iff in C as [C C2]. apply andb_true_iff in C as [CS C1].
        destruct (IH' e1 D1 F1 C1) as [a [Ea Ta]]. destruct (IH' e2 D2 F2 C2) as [b [Eb Tb]].
        unfold can_change_strict_to_loose in CS. apply andb_true_iff in CS as [CS1 CS2].
        apply ptype_eqb_eq in CS1.
        assert (TA : type_of a = kpt e1) by (apply known_type; assumption).
        assert (TB : type_of b = kpt e1) by (rewrite CS1 in CS2 |- *; apply known_type; assumption).
        exists (VBool (value_eqb a b)). split; [|reflexivity].
        change (ev (EBinary BLooseEq e1 e2)) with (bind (ev e1) (fun a => bind (ev e2) (fun b => loose_eq o_toprim loose_prim a b))).
        rewrite Ea, bind_ret, Eb, bind_ret. unfold loose_eq. rewrite TA, TB.
        assert (X : ptype_eqb (kpt e1) (kpt e1) && negb (ptype_eqb (kpt e1) TUnknown) = true) by (destruct (kpt e1); try discriminate CS2; reflexivity).
        rewrite X. reflexivity.
      + (* != *) apply andb_true_iff in C as [C C2]. apply andb_true_iff in C as [CS C1].
        destruct (IH' e1 D1 F1 C1) as [a [Ea Ta]]. destruct (IH' e2 D2 F2 C2) as [b [Eb Tb]].
        unfold can_change_strict_to_loose in CS. apply andb_true_iff in CS as [CS1 CS2].
        apply ptype_eqb_eq in CS1.
        assert (TA : type_of a = kpt e1) by (apply known_type; assumption).
        assert (TB : type_of b = kpt e1) by (rewrite CS1 in CS2 |- *; apply known_type; assumption).
        exists (VBool (negb (truthy (VBool (value_eqb a b))))). split; [|reflexivity].
        change (ev (EBinary BLooseNe e1 e2)) with (bind (ev e1) (fun a => bind (ev e2) (fun b =>
           bind (loose_eq o_toprim loose_prim a b) (fun x => ret (VBool (negb (truthy x))))))).
        rewrite Ea, bind_ret, Eb, bind_ret. unfold loose_eq. rewrite TA, TB.
        assert (X : ptype_eqb (kpt e1) (kpt e1) && negb (ptype_eqb (kpt e1) TUnknown) = true) by (destruct (kpt e1); try discriminate CS2; reflexivity).
        rewrite X. unfold ret. rewrite bind_ret. reflexivity.
      + (* BLt *)
        assert (K : (kpt e1 = TString \/ kpt e1 = TNumber \/ kpt e1 = TBigInt) /\ ptype_eqb (kpt e2) (kpt e1) && cr e1 && cr e2 = true)
          by (destruct (kpt e1); try discriminate C; auto).
        destruct K as [K C']. apply andb_true_iff in C' as [C' C2]. apply andb_true_iff in C' as [CS C1].
        apply ptype_eqb_eq in CS.
        destruct (IH' e1 D1 F1 C1) as [a [Ea Ta]]. destruct (IH' e2 D2 F2 C2) as [b [Eb Tb]].
        assert (TA : type_of a = kpt e1) by (apply known_type; [destruct K as [->|[->| ->]]; reflexivity | exact Ta]).
        assert (TB : type_of b = kpt e1) by (rewrite <- CS; apply known_type; [rewrite CS; destruct K as [->|[->| ->]]; reflexivity | exact Tb]).
        unfold PurityProofs.good.
        change (ev (EBinary BLt e1 e2)) with (bind (ev e1) (fun a => bind (ev e2) (fun b => relational o_toprim rel_prim BLt a b))).
        rewrite Ea, bind_ret, Eb, bind_ret.
        destruct K as [K|[K|K]]; rewrite K in TA, TB; destruct a; try discriminate TA; destruct b; try discriminate TB;
          eexists; (split; [reflexivity | reflexivity]).
      + (* BGt *)
        assert (K : (kpt e1 = TString \/ kpt e1 = TNumber \/ kpt e1 = TBigInt) /\ ptype_eqb (kpt e2) (kpt e1) && cr e1 && cr e2 = true)
          by (destruct (kpt e1); try discriminate C; auto).
        destruct K as [K C']. apply andb_true_iff in C' as [C' C2]. apply andb_true_iff in C' as [CS C1].
        apply ptype_eqb_eq in CS.
        destruct (IH' e1 D1 F1 C1) as [a [Ea Ta]]. destruct (IH' e2 D2 F2 C2) as [b [Eb Tb]].
        assert (TA : type_of a = kpt e1) by (apply known_type; [destruct K as [->|[->| ->]]; reflexivity | exact Ta]).
        assert (TB : type_of b = kpt e1) by (rewrite <- CS; apply known_type; [rewrite CS; destruct K as [->|[->| ->]]; reflexivity | exact Tb]).
        unfold PurityProofs.good.
        change (ev (EBinary BGt e1 e2)) with (bind (ev e1) (fun a => bind (ev e2) (fun b => relational o_toprim rel_prim BGt a b))).
        rewrite Ea, bind_ret, Eb, bind_ret.
        destruct K as [K|[K|K]]; rewrite K in TA, TB; destruct a; try discriminate TA; destruct b; try discriminate TB;
          eexists; (split; [reflexivity | reflexivity]).
      + (* BLe *)
        assert (K : (kpt e1 = TString \/ kpt e1 = TNumber \/ kpt e1 = TBigInt) /\ ptype_eqb (kpt e2) (kpt e1) && cr e1 && cr e2 = true)
          by (destruct (kpt e1); try discriminate C; auto).
        destruct K as [K C']. apply andb_true_iff in C' as [C' C2]. apply andb_true_iff in C' as [CS C1].
        apply ptype_eqb_eq in CS.
        destruct (IH' e1 D1 F1 C1) as [a [Ea Ta]]. destruct (IH' e2 D2 F2 C2) as [b [Eb Tb]].
        assert (TA : type_of a = kpt e1) by (apply known_type; [destruct K as [->|[->| ->]]; reflexivity | exact Ta]).
        assert (TB : type_of b = kpt e1) by (rewrite <- CS; apply known_type; [rewrite CS; destruct K as [->|[->| ->]]; reflexivity | exact Tb]).
        unfold PurityProofs.good.
        change (ev (EBinary BLe e1 e2)) with (bind (ev e1) (fun a => bind (ev e2) (fun b => relational o_toprim rel_prim BLe a b))).
        rewrite Ea, bind_ret, Eb, bind_ret.
        destruct K as [K|[K|K]]; rewrite K in TA, TB; destruct a; try discriminate TA; destruct b; try discriminate TB;
          eexists; (split; [reflexivity | reflexivity]).
      + (* BGe *)
        assert (K : (kpt e1 = TString \/ kpt e1 = TNumber \/ kpt e1 = TBigInt) /\ ptype_eqb (kpt e2) (kpt e1) && cr e1 && cr e2 = true)
          by (destruct (kpt e1); try discriminate C; auto).
        destruct K as [K C']. apply andb_true_iff in C' as [C' C2]. apply andb_true_iff in C' as [CS C1].
        apply ptype_eqb_eq in CS.
        destruct (IH' e1 D1 F1 C1) as [a [Ea Ta]]. destruct (IH' e2 D2 F2 C2) as [b [Eb Tb]].
        assert (TA : type_of a = kpt e1) by (apply known_type; [destruct K as [->|[->| ->]]; reflexivity | exact Ta]).
        assert (TB : type_of b = kpt e1) by (rewrite <- CS; apply known_type; [rewrite CS; destruct K as [->|[->| ->]]; reflexivity | exact Tb]).
        unfold PurityProofs.good.
        change (ev (EBinary BGe e1 e2)) with (bind (ev e1) (fun a => bind (ev e2) (fun b => relational o_toprim rel_prim BGe a b))).
        rewrite Ea, bind_ret, Eb, bind_ret.
        destruct K as [K|[K|K]]; rewrite K in TA, TB; destruct a; try discriminate TA; destruct b; try discriminate TB;
          eexists; (split; [reflexivity | reflexivity]).
      + (* , *) apply andb_true_iff in C as [C1 C2].
        destruct (IH' e1 D1 F1 C1) as [a [Ea _]]. destruct (IH' e2 D2 F2 C2) as [b [Eb Tb]].
        exists b. split; [|exact Tb].
        change (ev (EBinary BComma e1 e2)) with (bind (ev e1) (fun _ => ev e2)).
        rewrite Ea, bind_ret. exact Eb.
      + (* ?? *) apply andb_true_iff in C as [C1 C2].
        destruct (IH' e1 D1 F1 C1) as [a [Ea Ta]]. destruct (IH' e2 D2 F2 C2) as [b [Eb Tb]].
        unfold PurityProofs.good.
        change (ev (EBinary BNullish e1 e2)) with (bind (ev e1) (fun a => if nullish a then ev e2 else ret a)).
        rewrite Ea, bind_ret. cbn [kpt]. destruct (nullish a) eqn:N.
        * exists b. split; [exact Eb|].
          destruct (kpt e1) eqn:K1; simpl in Ta |- *; try exact I; try exact Tb;
            try (destruct a; simpl in N, Ta; discriminate).
          destruct (kpt e2) eqn:K2; simpl in Tb |- *; try exact I; try exact Tb; try (rewrite Tb; discriminate).
        * exists a. split; [reflexivity|].
          destruct (kpt e1) eqn:K1; simpl in Ta |- *; try exact I; try exact Ta;
            try (destruct a; simpl in N, Ta; discriminate).
          destruct (kpt e2) eqn:K2; simpl; try exact I; try exact Ta.
      + (* || *) apply andb_true_iff in C as [C1 C2].
        destruct (IH' e1 D1 F1 C1) as [a [Ea Ta]].
        unfold PurityProofs.good.
        change (ev (EBinary BOr e1 e2)) with (bind (ev e1) (fun a => if truthy a then ret a else ev e2)).
        rewrite Ea, bind_ret. cbn [kpt]. destruct (truthy a) eqn:T.
        * exists a. split; [reflexivity | apply merged_ok_l; exact Ta].
        * destruct (guard_ok is_unbound e2 e1 false) eqn:G.
          -- destruct (guard_sound _ _ _ _ _ _ _ _ _ _ _ _ _ _ e2 e1 false a G F2 F1 Ea T) as [v E].
             exists v. split; [exact E|]. rewrite (guard_kpt _ _ _ G). destruct (kpt e1); exact I.
          -- simpl in C2. destruct (IH' e2 D2 F2 C2) as [b [Eb Tb]]. exists b. split; [exact Eb | apply merged_ok_r; exact Tb].
      + (* && *) apply andb_true_iff in C as [C1 C2].
        destruct (IH' e1 D1 F1 C1) as [a [Ea Ta]].
        unfold PurityProofs.good.
        change (ev (EBinary BAnd e1 e2)) with (bind (ev e1) (fun a => if truthy a then ev e2 else ret a)).
        rewrite Ea, bind_ret. cbn [kpt]. destruct (truthy a) eqn:T.
        * destruct (guard_ok is_unbound e2 e1 true) eqn:G.
          -- destruct (guard_sound _ _ _ _ _ _ _ _ _ _ _ _ _ _ e2 e1 true a G F2 F1 Ea T) as [v E].
             exists v. split; [exact E|]. rewrite (guard_kpt _ _ _ G). destruct (kpt e1); exact I.
          -- simpl in C2. destruct (IH' e2 D2 F2 C2) as [b [Eb Tb]]. exists b. split; [exact Eb | apply merged_ok_r; exact Tb].
        * exists a. split; [reflexivity | apply merged_ok_l; exact Ta].
    - (* ETemplate *)
      destruct F as [F1 F2].
      assert (Dp : (dlist depth parts < n)%nat) by (simpl in D; lia).
      destruct tag as [t|].
      + destruct pure; [|discriminate C].
        assert (C' : forallb cr parts = true).
        { clear - C. induction parts as [|x r IHr]; [reflexivity|]. simpl in C |- *.
          apply andb_true_iff in C as [Cx Cr]. apply andb_true_iff in Cx as [Cx _]. rewrite Cx, (IHr Cr). reflexivity. }
        destruct (items_ok n IH' parts Dp F1 (items_weaken _ C')) as [vs E].
        destruct (F2 ltac:(discriminate) eq_refl vs) as [v Hv]. exists v. split; [|exact I].
        change (ev (ETemplate (Some t) true parts)) with
          (match ev_items parts with
           | (t0, Some vs) => let '(t2, r) := o_annotated (ETemplate (Some t) true parts) vs in (t0 ++ t2, r)
           | (t0, None) => (t0, Throw) end).
        rewrite E, Hv. reflexivity.
      + exists (VStr []). split; [|reflexivity].
        change (ev (ETemplate None pure parts)) with (ev_parts parts).
        apply (parts_ok n IH'); [exact Dp | exact F1 | destruct pure; exact C].
    - (* EClass *)
      assert (D1 : (depth e < n)%nat) by (simpl in D; lia). simpl in F.
      destruct (IH' e D1 F C) as [v [E _]]. exists v. split; [exact E | exact I].
    - (* EAnnotation *) subst. simpl in F. destruct F as [v [E T]]. exists v. split; [exact E | exact T].
    - (* EInlinedEnum *)
      assert (D1 : (depth e < n)%nat) by (simpl in D; lia).
      destruct (IH' e D1 F C) as [v [E T]]. exists v. split; [exact E | exact T].
    - (* CClass *)
      destruct F as [FE FP].
      apply andb_true_iff in C as [C CP]. apply andb_true_iff in C as [CD CE].
      apply negb_true_iff in CD. subst decorated.
      exists (VObj 0). split; [|exact I].
      change (ev (CClass false ext props use_define)) with
        (bind (match ext with Some x => bind (ev x) o_heritage | None => ret VUndef end)
              (fun _ => eval_members_with o_toprim o_opaque ev (CClass false ext props use_define) use_define props)).
      assert (EE : exists v, (match ext with Some x => bind (ev x) o_heritage | None => ret VUndef end) = ([], Ok v)).
      { destruct ext as [x|]; [|eexists; reflexivity]. simpl in CE, FE.
        destruct (IH' x ltac:(simpl in D; lia) FE CE) as [v [E _]]. destruct (heritage_ok v) as [w W].
        exists w. rewrite E, bind_ret. exact W. }
      destruct EE as [v EE]. rewrite EE, bind_ret.
      apply (members_ok n IH' IS); [simpl in D; lia | exact FP | exact CP].
  Qed.

  (* ---- statements ---- *)
  Definition elem_pred (it : node) : bool :=
    match it with
    | BItem ib def => opt_all cr def && match ib with BIdent | BMissing => true | _ => false end
    | _ => false
    end.

  Lemma elems_ok n (IH : IHn n) whole : forall l i,
    (dlist depth l < n)%nat -> all_ok flags_ok l -> forallb elem_pred l = true ->
    eval_elems_with o_opaque default_runs ev whole i l = ([], Ok VUndef).
  Proof.
    induction l as [|x r IHl]; intros i D F C; [reflexivity|].
    change (dlist depth (x :: r)) with (Nat.max (depth x) (dlist depth r)) in D.
    simpl in F, C. apply andb_true_iff in C as [C1 C2]. destruct F as [F1 F2].
    assert (Dx : (depth x < n)%nat) by lia.
    destruct x; simpl in C1; try discriminate C1.
    apply andb_true_iff in C1 as [CD CB]. destruct F1 as [_ FD]. simpl in Dx.
    assert (ED : exists v, (match default with
                            | Some d => if default_runs whole i then ev d else ret VUndef
                            | None => ret VUndef end) = ([], Ok v)).
    { destruct default as [d|]; [|eexists; reflexivity]. simpl in CD, FD, Dx.
      destruct (default_runs whole i); [|eexists; reflexivity].
      destruct (IH d ltac:(lia) FD CD) as [v [E _]]. exists v. exact E. }
    destruct ED as [v ED].
    cbn [eval_elems_with]. rewrite ED, bind_ret.
    destruct x; try discriminate CB; apply IHl; try lia; assumption.
  Qed.

  Definition decl_pred (k : lkind) (d : node) : bool :=
    match d with
    | DDecl b value =>
      (match b with
       | BIdent => true
       | BArray items =>
         match value with
         | Some (EArray _) => forallb elem_pred items
         | _ => false
         end
       | _ => false
       end)
      && match value with
         | None => true
         | Some v => cr v
                     && (match k with
                         | LUsing => match kpt v with TNull | TUndefined => true | _ => false end
                         | _ => true end)
         end
    | _ => false
    end.

  Lemma decls_ok n (IH : IHn n) whole k : k <> LAwaitUsing -> forall l,
    (dlist depth l < n)%nat -> all_ok flags_ok l -> forallb (decl_pred k) l = true ->
    eval_decls_with o_opaque default_runs ev whole k l = ([], Ok VUndef).
  Proof.
    intro NK. induction l as [|x r IHl]; intros D F C; [reflexivity|].
    change (dlist depth (x :: r)) with (Nat.max (depth x) (dlist depth r)) in D.
    simpl in F, C. apply andb_true_iff in C as [C1 C2]. destruct F as [F1 F2].
    assert (Dx : (depth x < n)%nat) by lia.
    specialize (IHl ltac:(lia) F2 C2).
    destruct x; simpl in C1; try discriminate C1.
    apply andb_true_iff in C1 as [CB CV]. destruct F1 as [FB FV]. simpl in Dx.
    (* the initialiser *)
    assert (EV : exists v, opt_eval ev value = ([], Ok v) /\
                 (match k, value with LUsing, Some _ => nullish v = true | _, _ => True end)).
    { destruct value as [x0|]; [|exists VUndef; split; [reflexivity | destruct k; exact I]].
      simpl in FV, Dx. apply andb_true_iff in CV as [CV CU].
      destruct (IH x0 ltac:(lia) FV CV) as [v [E T]]. exists v. split; [exact E|].
      destruct k; try exact I. destruct (kpt x0); try discriminate CU; simpl in T; destruct v; try discriminate T; reflexivity. }
    destruct EV as [v [EV NU]].
    (* the pattern *)
    assert (EB : (match x with
                  | BIdent => ret VUndef
                  | BArray items =>
                    match value with
                    | Some (EArray _) => eval_elems_with o_opaque default_runs ev whole O items
                    | _ => o_opaque whole
                    end
                  | _ => o_opaque whole
                  end) = ([], Ok VUndef)).
    { destruct x; try discriminate CB; [reflexivity|].
      destruct value as [x0|]; [|discriminate CB]. destruct x0; try discriminate CB.
      simpl in FB, Dx. apply (elems_ok n IH); [lia | exact FB | exact CB]. }
    cbn [eval_decls_with]. rewrite EV, bind_ret, EB, bind_ret.
    assert (EU : (match k, value with
                  | LUsing, Some _ => if nullish v then ret VUndef else o_opaque whole
                  | _, _ => ret VUndef end) = ([], Ok VUndef)).
    { destruct k; try reflexivity. destruct value; [|reflexivity]. rewrite NU. reflexivity. }
    rewrite EU, bind_ret. exact IHl.
  Qed.

  Lemma stmt_step n (IH' : IHn n) (IS : IHs n) : forall e,
    (depth e < S n)%nat -> flags_ok e -> so e = true -> exists v, ev e = ([], Ok v).
  Proof.
    intros e D F C.
    destruct e; cbn in C; try discriminate C; try (eexists; reflexivity).
    - (* SClass *)
      simpl in F. destruct (IH' e ltac:(simpl in D; lia) F C) as [v [E _]].
      exists VUndef. change (ev (SClass e)) with (bind (ev e) (fun _ => ret VUndef)). rewrite E, bind_ret. reflexivity.
    - (* SExpr *)
      simpl in F. assert (E : exists v, ev e = ([], Ok v)).
      { destruct from_removable; [exact F|]. rewrite orb_false_r in C.
        destruct (IH' e ltac:(simpl in D; lia) F C) as [v [E _]]. exists v. exact E. }
      destruct E as [v E]. exists VUndef.
      change (ev (SExpr e from_removable)) with (bind (ev e) (fun _ => ret VUndef)). rewrite E, bind_ret. reflexivity.
    - (* SLocal *)
      simpl in F. exists VUndef.
      assert (NK : k <> LAwaitUsing) by (intro; subst; discriminate C).
      assert (E : eval_decls_with o_opaque default_runs ev (SLocal k decls) k decls = ([], Ok VUndef)).
      { apply (decls_ok n IH'); [exact NK | simpl in D; lia | exact F | destruct k; try exact C; congruence]. }
      destruct k; try congruence; exact E.
    - (* STry *)
      destruct F as [FB FF]. apply andb_true_iff in C as [CB CF].
      exists VUndef.
      change (ev (STry block has_finally fin)) with
        (match eval_seq_with ev block with
         | (t, Ok _) => let '(t2, r2) := (if has_finally then eval_seq_with ev fin else ret VUndef) in (t ++ t2, r2)
         | (t, Throw) => let '(t2, r2) := o_opaque (STry block has_finally fin) in (t ++ t2, r2)
         end).
      rewrite (seq_ok n IS block ltac:(simpl in D; lia) FB CB).
      destruct has_finally; [|reflexivity]. simpl in CF.
      rewrite (seq_ok n IS fin ltac:(simpl in D; lia) FF CF). reflexivity.
    - (* SExportDefaultExpr *)
      simpl in F. destruct (IH' e ltac:(simpl in D; lia) F C) as [v [E _]].
      exists VUndef. change (ev (SExportDefaultExpr e)) with (bind (ev e) (fun _ => ret VUndef)). rewrite E, bind_ret. reflexivity.
    - (* SExportDefaultClass *)
      simpl in F. destruct (IH' e ltac:(simpl in D; lia) F C) as [v [E _]].
      exists VUndef. change (ev (SExportDefaultClass e)) with (bind (ev e) (fun _ => ret VUndef)). rewrite E, bind_ret. reflexivity.
  Qed.

  Lemma both : forall n, IHn n /\ IHs n.
  Proof.
    induction n as [|n [A B]]; [split; intros c D; lia|].
    split; intros c D F C; [apply (expr_step n A B c D F C) | apply (stmt_step n A B c D F C)].
  Qed.

  Theorem removable_good : forall n e, (depth e < n)%nat -> flags_ok e -> cr e = true -> good e.
  Proof. intros n. exact (proj1 (both n)). Qed.

  (* StmtsCanBeRemovedIfUnused(stmts, flags) = true: executing the statements
     logs nothing and does not throw *)
  Theorem removable_stmts_silent keep ret l :
    all_ok flags_ok l -> stmts_can_remove is_unbound keep ret l = true ->
    exists v, exec_stmts is_unbound env glob imp this_val o_toprim o_iter o_get o_opaque o_annotated rel_prim loose_prim o_heritage default_runs l = ([], Ok v).
  Proof.
    unfold exec_stmts, stmts_can_remove. induction l as [|x r IHl]; intros F C; [eexists; reflexivity|].
    simpl in F, C. apply andb_true_iff in C as [C1 C2]. destruct F as [F1 F2].
    destruct (IHl F2 C2) as [w W].
    assert (E : exists v, ev x = ([], Ok v)).
    { destruct (both (S (depth x))) as [A B].
      destruct x; try (apply (B _ (Nat.lt_succ_diag_r _) F1 C1)); simpl in C1.
      - (* SExportClause *) eexists; reflexivity.
      - (* SReturn *) apply andb_true_iff in C1 as [_ C1]. destruct v as [x|]; [|eexists; reflexivity].
        simpl in C1, F1. destruct (A x ltac:(simpl; lia) F1 C1) as [u [E _]]. exists u. exact E. }
    destruct E as [v E]. exists w.
    change (eval_seq_with ev (x :: r)) with (bind (ev x) (fun _ => eval_seq_with ev r)).
    rewrite E, bind_ret. exact W.
  Qed.

  (* expressions without any purity annotation or parser-set purity flag *)
  Fixpoint plain (e : node) : bool :=
    match e with
    | EIdent _ c kw => negb c && negb kw
    | EDot t _ c s => negb c && negb s && plain t
    | EIndex t i s => negb s && plain t && plain i
    | EIf c y n => plain c && plain y && plain n
    | EArray l | EObject l => forallb plain l
    | ESpread x => plain x
    | PProp _ _ _ _ _ key value init block =>
      plain key && match value with Some v => plain v | None => true end
      && match init with Some v => plain v | None => true end && forallb plain block
    | ECall _ args p | ENew _ args p => negb p && forallb plain args
    | EUnary _ x _ => plain x
    | EBinary _ l r => plain l && plain r
    | ETemplate tag p parts => negb p && forallb plain parts
    | EClass c => plain c
    | CClass _ ext props _ => match ext with Some v => plain v | None => true end && forallb plain props
    | EAnnotation x flag => negb flag && plain x
    | EInlinedEnum x => plain x
    | SClass c | SExportDefaultClass c | SExportDefaultExpr c => plain c
    | SReturn v => match v with Some x => plain x | None => true end
    | SExpr x from => negb from && plain x
    | SLocal _ decls => forallb plain decls
    | STry b _ f => forallb plain b && forallb plain f
    | DDecl b v => plain b && match v with Some x => plain x | None => true end
    | BArray items => forallb plain items
    | BItem b d => plain b && match d with Some x => plain x | None => true end
    | _ => true
    end.

  Lemma plain_list n (IH : forall c, (depth c < n)%nat -> plain c = true -> flags_ok c) l :
    (dlist depth l < n)%nat -> forallb plain l = true -> all_ok flags_ok l.
  Proof.
    induction l as [|x r IHl]; intros D P; [exact I|].
    change (dlist depth (x :: r)) with (Nat.max (depth x) (dlist depth r)) in D.
    simpl in P. apply andb_true_iff in P as [P1 P2]. split; [apply IH; [lia | exact P1] | apply IHl; [lia | exact P2]].
  Qed.

  Lemma plain_flags : forall n e, (depth e < n)%nat -> plain e = true -> flags_ok e.
  Proof.
    induction n as [|n IH]; intros e D P; [lia|].
    destruct e; simpl in P; try discriminate P; simpl; auto;
      repeat match goal with H : _ && _ = true |- _ => apply andb_true_iff in H as [? ?] end;
      repeat match goal with H : negb _ = true |- _ => apply negb_true_iff in H; subst end.
    all: repeat match goal with o : option node |- _ => destruct o end.
    all: simpl in D.
    all: repeat split; intros; simpl; try discriminate; try exact I; try congruence;
         try (apply IH; [lia | assumption]);
         try (eapply plain_list; [exact IH | lia | assumption]).
  Qed.

  Theorem removable_silent e : flags_ok e -> cr e = true -> exists v, ev e = ([], Ok v).
  Proof.
    intros F C. destruct (removable_good (S (depth e)) e (Nat.lt_succ_diag_r _) F C) as [v [E _]]. exists v. exact E.
  Qed.

  Theorem removable_silent_plain e : plain e = true -> cr e = true -> exists v, ev e = ([], Ok v).
  Proof.
    intros P C. apply removable_silent; [|exact C]. apply (plain_flags (S (depth e))); [apply Nat.lt_succ_diag_r | exact P].
  Qed.

  Theorem removable_stmts_silent_plain keep ret l :
    forallb plain l = true -> stmts_can_remove is_unbound keep ret l = true ->
    exists v, exec_stmts is_unbound env glob imp this_val o_toprim o_iter o_get o_opaque o_annotated rel_prim loose_prim o_heritage default_runs l = ([], Ok v).
  Proof.
    intros P C. apply (removable_stmts_silent keep ret); [|exact C].
    apply (plain_list (S (dlist depth l))); [|apply Nat.lt_succ_diag_r | exact P].
    intros c D Pc. apply (plain_flags (S (dlist depth l))); assumption.
  Qed.
End Main.
