(* The executable cover check used on every dumped graph implies the
   hypothesis [deps_cover_uses] of the dangling-reference theorem. *)
From V Require Import Common.Base C04.Parts C04.Mark C04.ReachSpec C04.MarkProofs C04.Harness.

Lemma parts_from_In s : forall ps i0 k p,
  nth_error ps k = Some p -> In (s, (i0 + k)%nat, p) (parts_from s i0 ps).
Proof.
  induction ps as [|q r IH]; intros i0 k p H; [destruct k; discriminate|].
  destruct k as [|k]; simpl in *.
  - inversion H; subst. rewrite Nat.add_0_r. left; reflexivity.
  - right. replace (i0 + S k)%nat with (S i0 + k)%nat by lia. apply IH. exact H.
Qed.

Lemma files_from_In : forall fs s0 k f i p,
  nth_error fs k = Some f -> f_repr f = RJS -> nth_error (f_parts f) i = Some p ->
  In ((s0 + k)%nat, i, p) (files_from s0 fs).
Proof.
  induction fs as [|f0 r IH]; intros s0 k f i p H R Hn; [destruct k; discriminate|].
  destruct k as [|k]; simpl in H |- *; apply in_or_app.
  - inversion H; subst f0. left. rewrite R, Nat.add_0_r. apply (parts_from_In s0 (f_parts f) 0 i p Hn).
  - right. replace (s0 + S k)%nat with (S s0 + k)%nat by lia. eapply IH; eauto.
Qed.

Lemma all_parts_In g s i p : get_part g s i = Some p -> In (s, i, p) (all_parts g).
Proof.
  intro P. apply get_part_inv in P as [f [F [R Hn]]].
  apply (files_from_In (g_files g) 0 s f i p F R Hn).
Qed.

Lemma sym_eqb_eq a b : sym_eqb a b = true <-> a = b.
Proof.
  destruct a, b. unfold sym_eqb; simpl. rewrite andb_true_iff, !Nat.eqb_eq. split; [intros []; congruence | intro H; inversion H; auto].
Qed.

Lemma dep_eqb_eq a b : dep_eqb a b = true <-> a = b.
Proof.
  destruct a, b. unfold dep_eqb; simpl. rewrite andb_true_iff, !Nat.eqb_eq. split; [intros []; congruence | intro H; inversion H; auto].
Qed.

Lemma deps_cover_uses_b_sound g : deps_cover_uses_b g = true -> deps_cover_uses g.
Proof.
  unfold deps_cover_uses_b. intros H s i p u t j P U [q [Q D]].
  rewrite forallb_forall in H. specialize (H _ (all_parts_In g s i p P)). simpl in H.
  rewrite forallb_forall in H. specialize (H u U).
  rewrite forallb_forall in H. specialize (H _ (all_parts_In g t j q Q)). simpl in H.
  apply orb_true_iff in H as [H|H]; [apply orb_true_iff in H as [H|H]|].
  - apply negb_true_iff in H. exfalso.
    assert (E : existsb (sym_eqb u) (p_declares q) = true).
    { apply existsb_exists. exists u. split; [exact D | apply sym_eqb_eq; reflexivity]. }
    congruence.
  - apply dep_eqb_eq in H. inversion H. left; auto.
  - apply existsb_exists in H as [d [Hd E]]. apply dep_eqb_eq in E. subst d. right; exact Hd.
Qed.
