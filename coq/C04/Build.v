(* C04 model, part 4: how the liveness graph is BUILT.
   Mirrors
     internal/js_parser/js_parser.go  Parse (the loop "each top-level statement is
       potentially a separate part": one part per declarator of a top-level
       var/let/const, imports / export-from / export-star moved to the front,
       "export =" moved to the end, everything in ONE part when tree shaking is
       off), appendPart (CanBeRemovedIfUnused of the part's statements), the
       namespace-export part at index 0, toAST (TopLevelSymbolToParts: symbol ->
       parts that declare it);
     internal/linker/linker.go  scanImportsAndExports step 5 ("for ref := range
       part.SymbolUses: for otherPartIndex in TopLevelSymbolToParts(ref): add a
       dependency") and step 6 (the same across files through ImportsToBind,
       i.e. after import and export symbols are merged).
   What a statement declares and uses (scope analysis) is an INPUT of this model:
   [td_declares], [td_uses]; the correspondence run compares the parts built here
   with the parts js_parser.Parse builds for generated programs.
   Executable definitions only. *)
From V Require Import Common.Base C04.Parts C04.Mark.

Record tdecl := mkTDecl {
  td_declares : list sym;     (* top-level symbols the statement / declarator declares *)
  td_uses : list sym;         (* symbols it refers to *)
  td_can_remove : bool        (* StmtsCanBeRemovedIfUnused of it *)
}.

Inductive tstmt :=
| TLocal (decls : list tdecl)                    (* var / let / const *)
| TImportLike (d : tdecl) (imp : import_rec)     (* import, export ... from, export * from *)
| TExportEquals (d : tdecl)                      (* TypeScript "export =" *)
| TOther (d : tdecl).                            (* every other statement *)

Definition part_of (imps : list import_rec) (d : tdecl) : part :=
  mkPart (td_can_remove d) false imps [] (td_declares d) (td_uses d).

Definition ns_export_part : part := mkPart true false [] [] [] [].

(* before, parts, after *)
Fixpoint split (stmts : list tstmt) : list part * list part * list part :=
  match stmts with
  | [] => ([], [], [])
  | s :: r =>
    let '(b, p, a) := split r in
    match s with
    | TLocal decls => (b, map (part_of []) decls ++ p, a)
    | TImportLike d imp => (part_of [imp] d :: b, p, a)
    | TExportEquals d => (b, p, part_of [] d :: a)
    | TOther d => (b, part_of [] d :: p, a)
    end
  end.

Definition stmt_decls (s : tstmt) : list tdecl :=
  match s with TLocal ds => ds | TImportLike d _ => [d] | TExportEquals d => [d] | TOther d => [d] end.
Definition stmt_imports (s : tstmt) : list import_rec :=
  match s with TImportLike _ imp => [imp] | _ => [] end.

(* tree shaking off: "everything comes in a single part" *)
Definition single_part (stmts : list tstmt) : list part :=
  match stmts with
  | [] => []
  | _ =>
    let ds := flat_map stmt_decls stmts in
    [mkPart (forallb td_can_remove ds) false (flat_map stmt_imports stmts) []
            (flat_map td_declares ds) (flat_map td_uses ds)]
  end.

Definition build_parts (tree_shaking : bool) (stmts : list tstmt) : list part :=
  ns_export_part ::
  (if tree_shaking then let '(b, p, a) := split stmts in b ++ p ++ a else single_part stmts).

(* toAST: TopLevelSymbolToParts *)
Definition declares_b (u : sym) (q : part) : bool := existsb (sym_eqb u) (p_declares q).

Fixpoint symbol_to_parts_from (u : sym) (i : nat) (ps : list part) : list nat :=
  match ps with
  | [] => []
  | q :: r => if declares_b u q then i :: symbol_to_parts_from u (S i) r else symbol_to_parts_from u (S i) r
  end.
Definition top_level_symbol_to_parts (ps : list part) (u : sym) : list nat := symbol_to_parts_from u 0 ps.

(* linker steps 5 and 6 on merged symbols: a part depends on every part, of any
   file, that declares a symbol it uses. The lookup is under the MERGED symbol:
   step 5 follows the symbol links of the use before TopLevelSymbolToParts (fix
   ae718d6, finding C04-B: a use recorded under a nested "var" that hoisting
   merged into a top-level var/function is a use of that top-level symbol), and
   step 6 works on import symbols merged with the exports they resolve to. In
   this model [sym] IS the merged symbol (the dump follows links for uses and
   declarations alike), so [declares_b u] is that lookup. *)
Definition symbol_deps (g : graph) (p : part) : list (nat * nat) :=
  flat_map (fun u =>
      map (fun tjq => (fst (fst tjq), snd (fst tjq)))
          (filter (fun tjq => declares_b u (snd tjq)) (all_parts g)))
    (p_uses p).

Definition add_deps_part (g : graph) (p : part) : part :=
  mkPart (p_can_remove p) (p_force_ts p) (p_imports p) (p_deps p ++ symbol_deps g p) (p_declares p) (p_uses p).

Definition add_deps (g : graph) : graph :=
  mkGraph (g_tree_shaking g) (g_ignore_dce g) (g_entries g)
    (map (fun f => mkFile (f_repr f) (f_effects f) (f_entry f) (f_css f) (f_css_imports f)
                          (map (add_deps_part g) (f_parts f))) (g_files g)).

(* a program: per file its flags and its top-level statements *)
Record tfile := mkTFile { tf_effects : bool; tf_entry : bool; tf_stmts : list tstmt }.

Definition build_file (ts : bool) (f : tfile) : file :=
  mkFile RJS (tf_effects f) (tf_entry f) None [] (build_parts ts (tf_stmts f)).

Definition link (ts ignore_dce : bool) (entries : list nat) (prog : list tfile) : graph :=
  add_deps (mkGraph ts ignore_dce entries (map (build_file ts) prog)).

(* ---- dependencies that do not come from a part's own symbol uses: linker step 6
   "for importRef, importData := range ImportsToBind: for partIndex in
   LocalPartsWithUses: depend on the parts declaring the imported symbol in the
   file it resolves to AND on importData.ReExports (every `export {x} from` /
   `export *` statement the resolution passed through)" ---- *)
Definition declaring_in (g : graph) (t : nat) (u : sym) : list (nat * nat) :=
  match get_file g t with
  | Some f => match f_repr f with
              | RJS => map (fun j => (t, j)) (top_level_symbol_to_parts (f_parts f) u)
              | _ => [] end
  | None => []
  end.

Definition binding_deps (g : graph) (b : binding) : list (nat * nat) :=
  b_reexports b ++ declaring_in g (b_target_file b) (b_target b).

Definition nat_mem (x : nat) (l : list nat) : bool := existsb (Nat.eqb x) l.

Definition user_extra (g : graph) (bs : list binding) (s i : nat) : list (nat * nat) :=
  flat_map (fun b => if Nat.eqb (b_file b) s && nat_mem i (b_users b) then binding_deps g b else []) bs.

Fixpoint mapi_from {A B} (f : nat -> A -> B) (i : nat) (l : list A) : list B :=
  match l with [] => [] | x :: r => f i x :: mapi_from f (S i) r end.

Definition add_bindings (g : graph) (bs : list binding) : graph :=
  mkGraph (g_tree_shaking g) (g_ignore_dce g) (g_entries g)
    (mapi_from (fun s f =>
       mkFile (f_repr f) (f_effects f) (f_entry f) (f_css f) (f_css_imports f)
         (mapi_from (fun i p => mkPart (p_can_remove p) (p_force_ts p) (p_imports p)
                                       (p_deps p ++ user_extra g bs s i) (p_declares p) (p_uses p))
                    0 (f_parts f))) 0 (g_files g)).

(* executable check used on dumped graphs: the dumped Dependencies already
   contain everything add_bindings would add *)
Definition pair_mem (d : nat * nat) (l : list (nat * nat)) : bool :=
  existsb (fun e => Nat.eqb (fst d) (fst e) && Nat.eqb (snd d) (snd e)) l.
Definition bindings_ok (g : graph) (bs : list binding) : bool :=
  forallb (fun b =>
    forallb (fun i =>
      match get_part g (b_file b) i with
      | Some p => forallb (fun d => pair_mem d (p_deps p)) (binding_deps g b)
      | None => false
      end) (b_users b)) bs.
