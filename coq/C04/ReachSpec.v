(* C04 specification of liveness, written from the property text, not from the
   traversal code: the live set is the LEAST set of files and parts that
   contains the entry points and is closed under three kinds of edges
     (E) entry points;
     (I) import-for-side-effects edges: a live file pulls in the files its
         statement-level imports name unless the target is known to be free of
         side effects (and a JS stub pulls in its CSS file, a CSS file its
         @imports);
     (K) a live file keeps every part that is not removable-if-unused
         (or every non-generated part of an entry point when tree shaking is off);
     (D) part dependencies (symbol uses), and a live part makes its file live. *)
From V Require Import Common.Base C04.Parts.

(* an import record that is followed for its side effects *)
Definition followed_import (g : graph) (r : import_rec) : Prop :=
  ir_stmt r = true /\ ir_valid r = true /\ has_effects g (ir_target r) = true.

(* an import record that pins its own statement *)
Definition pinning_import (g : graph) (r : import_rec) : Prop :=
  ir_stmt r = true /\
  ((ir_valid r = true /\ has_effects g (ir_target r) = true) \/
   (ir_valid r = false /\ ir_ext_pure r = false)).

(* may the part be dropped when nothing refers to it? *)
Definition removable (g : graph) (p : part) : Prop :=
  p_can_remove p = true /\ forall r, In r (p_imports p) -> ~ pinning_import g r.

Definition must_keep (g : graph) (f : file) (p : part) : Prop :=
  ~ removable g p \/
  (p_force_ts p = false /\ g_tree_shaking g = false /\ f_entry f = true).

Inductive edge (g : graph) : item -> item -> Prop :=
| e_css_stub s f c :
    get_file g s = Some f -> f_repr f = RJS -> f_css f = Some c ->
    edge g (IFile s) (IFile c)
| e_css_import s f t :
    get_file g s = Some f -> f_repr f = RCSS -> In t (f_css_imports f) ->
    edge g (IFile s) (IFile t)
| e_import s f i p r :
    get_file g s = Some f -> f_repr f = RJS -> nth_error (f_parts f) i = Some p ->
    In r (p_imports p) -> followed_import g r ->
    edge g (IFile s) (IFile (ir_target r))
| e_keep s f i p :
    get_file g s = Some f -> f_repr f = RJS -> nth_error (f_parts f) i = Some p ->
    must_keep g f p ->
    edge g (IFile s) (IPart s i)
| e_part_file s i p :
    get_part g s i = Some p -> edge g (IPart s i) (IFile s)
| e_dep s i p t j :
    get_part g s i = Some p -> In (t, j) (p_deps p) -> edge g (IPart s i) (IPart t j).

Inductive live (g : graph) : item -> Prop :=
| live_entry s : In s (g_entries g) -> live g (IFile s)
| live_edge x y : live g x -> edge g x y -> live g y.

(* a set of items closed under the rules *)
Definition closed (g : graph) (S : item -> Prop) : Prop :=
  (forall s, In s (g_entries g) -> S (IFile s)) /\
  (forall x y, S x -> edge g x y -> S y).

(* paths along edges (used by the annotation theorem) *)
Inductive path (g : graph) : item -> item -> Prop :=
| path_refl x : path g x x
| path_step x y z : path g x y -> edge g y z -> path g x z.

(* "Dependencies contain the declaring parts of every used symbol": the
   hypothesis under which closure under dependencies means that no live part
   refers to a removed binding. It is checked on every dumped graph by the
   correspondence run (Harness.check_graph). *)
Definition declares (g : graph) (t j : nat) (u : sym) : Prop :=
  exists q, get_part g t j = Some q /\ In u (p_declares q).

Definition deps_cover_uses (g : graph) : Prop :=
  forall s i p u t j,
    get_part g s i = Some p -> In u (p_uses p) -> declares g t j u ->
    (s = t /\ i = j) \/ In (t, j) (p_deps p).
