(* C04 model, part 1: the liveness graph the linker's tree shaking runs on.
   Mirrors the data read by
     internal/linker/linker.go  markFileLiveForTreeShaking / markPartLiveForTreeShaking
   (js_ast.Part: CanBeRemovedIfUnused, ForceTreeShaking, ImportRecordIndices,
    Dependencies, DeclaredSymbols, SymbolUses; graph.LinkerFile: Repr kind,
    SideEffects.Kind, IsEntryPoint, CSSSourceIndex; config.Options: TreeShaking,
    IgnoreDCEAnnotations; LinkerGraph.EntryPoints()).
   Executable definitions only. Indices (source index, part index) are nat:
   they are positions in Go slices. *)
From V Require Import Common.Base.

Inductive item := IFile (s : nat) | IPart (s i : nat).

Definition item_eqb (a b : item) : bool :=
  match a, b with
  | IFile s, IFile t => Nat.eqb s t
  | IPart s i, IPart t j => Nat.eqb s t && Nat.eqb i j
  | _, _ => false
  end.

Definition sym := (nat * nat)%type.   (* ast.Ref after following links *)
Definition sym_eqb (a b : sym) : bool := Nat.eqb (fst a) (fst b) && Nat.eqb (snd a) (snd b).

(* one entry of part.ImportRecordIndices *)
Record import_rec := mkImp {
  ir_stmt : bool;       (* record.Kind == ast.ImportStmt *)
  ir_valid : bool;      (* record.SourceIndex.IsValid() *)
  ir_target : nat;      (* record.SourceIndex.GetIndex() when valid *)
  ir_ext_pure : bool    (* record.Flags.Has(ast.IsExternalWithoutSideEffects) *)
}.

Record part := mkPart {
  p_can_remove : bool;          (* CanBeRemovedIfUnused *)
  p_force_ts : bool;            (* ForceTreeShaking *)
  p_imports : list import_rec;
  p_deps : list (nat * nat);    (* Dependencies: (SourceIndex, PartIndex) *)
  p_declares : list sym;        (* top-level DeclaredSymbols *)
  p_uses : list sym             (* keys of SymbolUses *)
}.

Inductive repr := RNone | RJS | RCSS.

Record file := mkFile {
  f_repr : repr;
  f_effects : bool;             (* InputFile.SideEffects.Kind == graph.HasSideEffects *)
  f_entry : bool;               (* IsEntryPoint() *)
  f_css : option nat;           (* JSRepr.CSSSourceIndex *)
  f_css_imports : list nat;     (* CSSRepr: import records with a valid source index *)
  f_parts : list part
}.

Record graph := mkGraph {
  g_tree_shaking : bool;        (* options.TreeShaking *)
  g_ignore_dce : bool;          (* options.IgnoreDCEAnnotations *)
  g_entries : list nat;         (* graph.EntryPoints() source indices *)
  g_files : list file
}.

Definition get_file (g : graph) (s : nat) : option file := nth_error (g_files g) s.

Definition get_part (g : graph) (s i : nat) : option part :=
  match get_file g s with
  | Some f => match f_repr f with RJS => nth_error (f_parts f) i | _ => None end
  | None => None
  end.

(* "otherFile.InputFile.SideEffects.Kind != graph.HasSideEffects && !IgnoreDCEAnnotations"
   negated: the import is followed for its side effects *)
Definition has_effects (g : graph) (t : nat) : bool :=
  match get_file g t with
  | Some f => f_effects f || g_ignore_dce g
  | None => true
  end.

(* all (source index, part index, part) triples of the JS files *)
Fixpoint parts_from (s i : nat) (ps : list part) : list (nat * nat * part) :=
  match ps with
  | [] => []
  | p :: r => (s, i, p) :: parts_from s (S i) r
  end.
Fixpoint files_from (s : nat) (fs : list file) : list (nat * nat * part) :=
  match fs with
  | [] => []
  | f :: r => (match f_repr f with RJS => parts_from s 0 (f_parts f) | _ => [] end) ++ files_from (S s) r
  end.
Definition all_parts (g : graph) : list (nat * nat * part) := files_from 0 (g_files g).


(* one entry of JSRepr.Meta.ImportsToBind together with the parts that use the
   import (NamedImports[ref].LocalPartsWithUses) *)
Record binding := mkBinding {
  b_file : nat;                    (* the importing file *)
  b_users : list nat;              (* its parts that use the import *)
  b_target_file : nat;             (* importData.SourceIndex *)
  b_target : sym;                  (* importData.Ref (links followed) *)
  b_reexports : list (nat * nat)   (* importData.ReExports: the re-export statements on the chain *)
}.
