(* Checkers evaluated by the correspondence run (indices of failing cases). *)
From V Require Import Common.Base C04.Parts C04.Mark C04.Build.

Fixpoint mism_from {A} (f : A -> bool) (l : list A) (i : nat) : list nat :=
  match l with
  | [] => []
  | x :: r => if f x then mism_from f r (S i) else i :: mism_from f r (S i)
  end.
Definition mismatches {A} (f : A -> bool) (l : list A) : list nat := mism_from f l 0.

Fixpoint forallb_i {A} (f : nat -> A -> bool) (i : nat) (l : list A) : bool :=
  match l with
  | [] => true
  | x :: r => f i x && forallb_i f (S i) r
  end.

Definition dep_eqb (a b : nat * nat) : bool := Nat.eqb (fst a) (fst b) && Nat.eqb (snd a) (snd b).

(* executable form of ReachSpec.deps_cover_uses *)
Definition deps_cover_uses_b (g : graph) : bool :=
  let ps := all_parts g in
  forallb (fun sip =>
    let '(s, i, p) := sip in
    forallb (fun u =>
      forallb (fun tjq =>
        let '(t, j, q) := tjq in
        negb (existsb (sym_eqb u) (p_declares q))
        || dep_eqb (s, i) (t, j) || existsb (dep_eqb (t, j)) (p_deps p)) ps)
      (p_uses p)) ps.

(* Case encoding: ONE flat list of binary integers per case (large nested
   tuple literals are slow to elaborate).
     graph  := ts ign nE e* nF file*
     file   := repr(0 none,1 JS,2 CSS) effects entry css(-1 = none) nC c* nP part*
     part   := can_remove force_ts nI (stmt valid target ext_pure)* nD (s i)* nDecl d* nU u*
     obs    := (flive nP plive* )*   one group per file, appended after the graph *)
Definition zn := Z.to_nat.
Definition zb (z : Z) : bool := negb (z =? 0).

Section Reader.
  Context {A : Type}.
  Variable one : list Z -> option (A * list Z).
  Fixpoint read_n (n : nat) (l : list Z) : option (list A * list Z) :=
    match n with
    | O => Some ([], l)
    | S k => match one l with
             | Some (x, l1) => match read_n k l1 with
                               | Some (xs, l2) => Some (x :: xs, l2)
                               | None => None end
             | None => None end
    end.
  Definition read_counted (l : list Z) : option (list A * list Z) :=
    match l with n :: r => read_n (zn n) r | [] => None end.
End Reader.

Definition read_z (l : list Z) : option (Z * list Z) :=
  match l with x :: r => Some (x, r) | [] => None end.
Definition read_imp (l : list Z) : option (import_rec * list Z) :=
  match l with a :: b :: t :: c :: r => Some (mkImp (zb a) (zb b) (zn t) (zb c), r) | _ => None end.
Definition read_pair (l : list Z) : option ((nat * nat) * list Z) :=
  match l with a :: b :: r => Some ((zn a, zn b), r) | _ => None end.
Definition read_sym (l : list Z) : option (sym * list Z) :=
  match l with a :: r => Some ((O, zn a), r) | _ => None end.

Definition read_part (l : list Z) : option (part * list Z) :=
  match l with
  | cr :: ft :: r0 =>
    match read_counted read_imp r0 with Some (imps, r1) =>
    match read_counted read_pair r1 with Some (deps, r2) =>
    match read_counted read_sym r2 with Some (decl, r3) =>
    match read_counted read_sym r3 with Some (uses, r4) =>
      Some (mkPart (zb cr) (zb ft) imps deps decl uses, r4)
    | None => None end | None => None end | None => None end | None => None end
  | _ => None
  end.

Definition read_file (l : list Z) : option (file * list Z) :=
  match l with
  | rp :: eff :: ent :: css :: r0 =>
    match read_counted read_z r0 with Some (ci, r1) =>
    match read_counted read_part r1 with Some (ps, r2) =>
      Some (mkFile (if rp =? 1 then RJS else if rp =? 2 then RCSS else RNone) (zb eff) (zb ent)
                   (if css <? 0 then None else Some (zn css)) (map zn ci) ps, r2)
    | None => None end | None => None end
  | _ => None
  end.

Definition read_obs (l : list Z) : option ((bool * list bool) * list Z) :=
  match l with
  | fl :: r0 => match read_counted read_z r0 with
                | Some (pl, r1) => Some ((zb fl, map zb pl), r1)
                | None => None end
  | [] => None
  end.

(* binding := file nU user* targetFile targetSym nR (s i)*   (appended after obs, counted) *)
Definition read_binding (l : list Z) : option (binding * list Z) :=
  match l with
  | f :: r0 =>
    match read_counted read_z r0 with
    | Some (us, tf :: tsym :: r1) =>
      match read_counted read_pair r1 with
      | Some (re, r2) => Some (mkBinding (zn f) (map zn us) (zn tf) (O, zn tsym) re, r2)
      | None => None end
    | _ => None end
  | [] => None
  end.

Definition read_case (l : list Z) : option (graph * list (bool * list bool) * list binding) :=
  match l with
  | ts :: ign :: r0 =>
    match read_counted read_z r0 with Some (ents, r1) =>
    match read_counted read_file r1 with Some (fs, r2) =>
    match read_n read_obs (length fs) r2 with
    | Some (obs, r3) =>
      match read_counted read_binding r3 with
      | Some (bs, []) => Some (mkGraph (zb ts) (zb ign) (map zn ents) fs, obs, bs)
      | _ => None end
    | _ => None end
    | None => None end | None => None end
  | _ => None
  end.

(* Mark.v on the dumped graph reproduces the linker's IsLive flags exactly, and
   the dumped dependency lists cover the declaring parts of every used symbol *)
Definition graph_ok (c : list Z) : bool :=
  match read_case c with
  | None => false
  | Some (g, obs, bs) =>
    match mark g (default_fuel g) with
    | None => false
    | Some L =>
      forallb_i (fun s o =>
           Bool.eqb (is_live L (IFile s)) (fst o)
           && Nat.eqb (length (snd o)) (match get_file g s with Some f => length (f_parts f) | None => 0 end)
           && forallb_i (fun i pl => Bool.eqb (is_live L (IPart s i)) pl) 0 (snd o)) 0 obs
      && deps_cover_uses_b g
      && bindings_ok g bs      (* re-export chains and imported declarations are among the dumped Dependencies *)
    end
  end.
Definition check_graph := mismatches graph_ok.

(* ---- purity classifier cases: (tree, result of the Go function);
   identifiers 0,1,2 are the unbound ones (harness: nUnbound = 3) ---- *)
From V Require Import C04.Purity.
Definition harness_unbound (r : nat) : bool := Nat.ltb r 3.
Definition expr_ok (c : node * bool) : bool := Bool.eqb (can_remove harness_unbound (fst c)) (snd c).
Definition check_expr := mismatches expr_ok.
Definition stmts_ok (c : bool * bool * list node * bool) : bool :=
  let '(keep, ret, l, got) := c in Bool.eqb (stmts_can_remove harness_unbound keep ret l) got.
Definition check_stmts := mismatches stmts_ok.
Definition check_class := mismatches expr_ok.

(* direct tie of js_ast.KnownPrimitiveType: the Go enum value (PrimitiveUnknown=0,
   Mixed, Null, Undefined, Boolean, Number, String, BigInt=7) *)
Definition ptype_code (t : ptype) : Z :=
  match t with
  | TUnknown => 0 | TMixed => 1 | TNull => 2 | TUndefined => 3
  | TBoolean => 4 | TNumber => 5 | TString => 6 | TBigInt => 7
  end.
Definition kpt_ok (c : node * Z) : bool := ptype_code (kpt (fst c)) =? snd c.
Definition check_kpt := mismatches kpt_ok.
