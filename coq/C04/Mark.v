(* C04 model, part 2: the marking algorithm.
   Mirrors internal/linker/linker.go
     treeShakingAndCodeSplitting   (first loop: every entry point is marked)
     markFileLiveForTreeShaking    (IsLive guard; CSS stub; per part: the loop over
                                    ImportRecordIndices computing the local
                                    canBeRemovedIfUnused; the keep condition
                                    "!canBeRemovedIfUnused || (!ForceTreeShaking &&
                                     !TreeShaking && IsEntryPoint())"; CSS @import)
     markPartLiveForTreeShaking    (IsLive guard; the file; every dependency)
   The Go code is a recursive depth-first traversal that sets IsLive flags; the
   model is the same traversal with an explicit stack ([succ] lists the calls
   made by one activation, in program order) and fuel. The result is the list
   of marked items. Executable definitions only. *)
From V Require Import Common.Base C04.Parts.

Section DFS.
  Context {node : Type}.
  Variable eqb : node -> node -> bool.
  Variable succ : node -> list node.

  Definition mem (x : node) (l : list node) : bool := existsb (eqb x) l.

  Fixpoint dfs (fuel : nat) (visited stack : list node) : option (list node) :=
    match stack with
    | [] => Some visited
    | x :: rest =>
      match fuel with
      | O => None
      | S k => if mem x visited then dfs k visited rest
               else dfs k (x :: visited) (succ x ++ rest)
      end
    end.
End DFS.

(* the loop over part.ImportRecordIndices: files marked for their side effects,
   and the final value of the local variable canBeRemovedIfUnused *)
Fixpoint scan_imports (g : graph) (imps : list import_rec) (can : bool) : list nat * bool :=
  match imps with
  | [] => ([], can)
  | r :: rest =>
    if negb (ir_stmt r) then scan_imports g rest can
    else if ir_valid r then
      if negb (has_effects g (ir_target r)) then scan_imports g rest can
      else let '(fs, c) := scan_imports g rest false in (ir_target r :: fs, c)
    else if ir_ext_pure r then scan_imports g rest can
    else scan_imports g rest false
  end.

Definition part_succ (g : graph) (s : nat) (entry : bool) (i : nat) (p : part) : list item :=
  let '(fs, can) := scan_imports g (p_imports p) (p_can_remove p) in
  map IFile fs ++
  (if negb can || (negb (p_force_ts p) && negb (g_tree_shaking g) && entry)
   then [IPart s i] else []).

Fixpoint parts_succ (g : graph) (s : nat) (entry : bool) (i : nat) (ps : list part) : list item :=
  match ps with
  | [] => []
  | p :: r => part_succ g s entry i p ++ parts_succ g s entry (S i) r
  end.

Definition succ (g : graph) (x : item) : list item :=
  match x with
  | IFile s =>
    match get_file g s with
    | None => []
    | Some f =>
      match f_repr f with
      | RJS => (match f_css f with Some c => [IFile c] | None => [] end)
               ++ parts_succ g s (f_entry f) 0 (f_parts f)
      | RCSS => map IFile (f_css_imports f)
      | RNone => []
      end
    end
  | IPart s i =>
    match get_part g s i with
    | None => []
    | Some p => IFile s :: map (fun d => IPart (fst d) (snd d)) (p_deps p)
    end
  end.

Definition roots (g : graph) : list item := map IFile (g_entries g).

Definition mark (g : graph) (fuel : nat) : option (list item) :=
  dfs item_eqb (succ g) fuel [] (roots g).

(* a fuel that always suffices (MarkProofs.mark_fuel_sufficient): the stack
   length plus, for every item that can ever be pushed, one plus its out-degree *)
Fixpoint enum_parts (s i : nat) (ps : list part) : list item :=
  match ps with
  | [] => []
  | _ :: r => IPart s i :: enum_parts s (S i) r
  end.

Fixpoint enum_files (s : nat) (fs : list file) : list item :=
  match fs with
  | [] => []
  | f :: r => IFile s :: enum_parts s 0 (f_parts f) ++ enum_files (S s) r
  end.

Definition item_eq_dec (a b : item) : {a = b} + {a <> b}.
Proof. decide equality; apply Nat.eq_dec. Defined.

Definition universe (g : graph) : list item :=
  let base := roots g ++ enum_files 0 (g_files g) in
  nodup item_eq_dec (base ++ flat_map (succ g) base).

Fixpoint out_weight (g : graph) (U : list item) : nat :=
  match U with
  | [] => O
  | u :: r => (S (length (succ g u)) + out_weight g r)%nat
  end.

Definition default_fuel (g : graph) : nat :=
  (length (roots g) + out_weight g (universe g))%nat.

Definition is_live (L : list item) (x : item) : bool := mem item_eqb x L.
