(* C09 model, part 4: the whole cache set of a build context as one
   observation interface.  A build (scanner + resolver) reads files through
   FSCache.ReadFile and parses through three different AST caches:
     JSCache    (js_parser.Options,  compared with Options.Equal)
     CSSCache   (css_parser.Options, compared with Options.Equal)
     JSONCache  (js_parser.JSONOptions, compared with ==)
   The resolver's package.json / tsconfig.json lookups are exactly the
   composite "FSCache.ReadFile(path) then JSONCache.Parse(source(path, contents))"
   (internal/resolver/package_json.go parsePackageJSON, resolver.go
   parseTSConfig / tsconfig_json.go ParseTSConfigJSON): a cache keyed by path
   and mod key in front of a cache keyed by path and compared on the source.
   [read_json] is that composite as a program of the interface.
   Built from the same FSCache_ReadFile and memo_parse the correspondence run
   evaluates (Cache.v).  Executable definitions only. *)
From V Require Import Common.Base C09.Cache.

Section CacheSet.
  (* one parser family: sources are shared (logger.Source), options/results differ *)
  Variables src : Type.
  Variables jopts jres copts cres nopts nres R : Type.

  Inductive build3 : Type :=
  | Ret3 (r : R)
  | ReadFile3 (p : path) (k : rdres -> build3)
  | ParseJS (s : src) (o : jopts) (k : jres -> build3)
  | ParseCSS (s : src) (o : copts) (k : cres -> build3)
  | ParseJSON (s : src) (o : nopts) (k : nres -> build3).

  Variable key_of : src -> Z.
  Variable src_eqb : src -> src -> bool.
  Variable jequal : jopts -> jopts -> bool.   (* js_parser Options.Equal *)
  Variable cequal : copts -> copts -> bool.   (* css_parser Options.Equal *)
  Variable nequal : nopts -> nopts -> bool.   (* == on JSONOptions *)
  Variable jparse : src -> jopts -> jres.
  Variable cparse : src -> copts -> cres.
  Variable nparse : src -> nopts -> nres.

  Fixpoint run_fresh3 (w : world) (b : build3) : R :=
    match b with
    | Ret3 r => r
    | ReadFile3 p k => run_fresh3 w (k (w_read w p))
    | ParseJS s o k => run_fresh3 w (k (jparse s o))
    | ParseCSS s o k => run_fresh3 w (k (cparse s o))
    | ParseJSON s o k => run_fresh3 w (k (nparse s o))
    end.

  (* cache.CacheSet without the source index cache *)
  Record cacheset := mkCS {
    cs_fs : fscache;
    cs_js : memo src jopts jres;
    cs_css : memo src copts cres;
    cs_json : memo src nopts nres }.
  Definition cs_empty : cacheset := mkCS [] [] [] [].

  Fixpoint run_cached3 (w : world) (c : cacheset) (b : build3) : R * cacheset :=
    match b with
    | Ret3 r => (r, c)
    | ReadFile3 p k =>
        let '(x, fc, _) := FSCache_ReadFile (cs_fs c) p (w_modkey w p) (w_read w p) in
        run_cached3 w (mkCS fc (cs_js c) (cs_css c) (cs_json c)) (k x)
    | ParseJS s o k =>
        let '(x, m, _) := memo_parse key_of src_eqb jequal jparse (cs_js c) s o in
        run_cached3 w (mkCS (cs_fs c) m (cs_css c) (cs_json c)) (k x)
    | ParseCSS s o k =>
        let '(x, m, _) := memo_parse key_of src_eqb cequal cparse (cs_css c) s o in
        run_cached3 w (mkCS (cs_fs c) (cs_js c) m (cs_json c)) (k x)
    | ParseJSON s o k =>
        let '(x, m, _) := memo_parse key_of src_eqb nequal nparse (cs_json c) s o in
        run_cached3 w (mkCS (cs_fs c) (cs_js c) (cs_css c) m) (k x)
    end.

  Fixpoint rebuilds3 (c : cacheset) (steps : list (world * build3)) : list R :=
    match steps with
    | [] => []
    | (w, b) :: r => let '(x, c') := run_cached3 w c b in x :: rebuilds3 c' r
    end.

  (* the resolver's cached read of a package.json / tsconfig.json:
     contents through the file cache, then the JSON cache on the source made
     from path and contents; an unreadable file is reported to the caller *)
  Variable mk_src : path -> Z -> src.     (* logger.Source{KeyPath: path, Contents: contents, ...} *)
  Definition read_json (p : path) (o : nopts) (k : option nres -> build3) : build3 :=
    ReadFile3 p (fun r => match r with
                          | RdOk c => ParseJSON (mk_src p c) o (fun x => k (Some x))
                          | RdErr _ => k None
                          end).
End CacheSet.

Arguments Ret3 {src jopts jres copts cres nopts nres R}.
Arguments ReadFile3 {src jopts jres copts cres nopts nres R}.
Arguments ParseJS {src jopts jres copts cres nopts nres R}.
Arguments ParseCSS {src jopts jres copts cres nopts nres R}.
Arguments ParseJSON {src jopts jres copts cres nopts nres R}.
Arguments mkCS {src jopts jres copts cres nopts nres}.
Arguments cs_fs {src jopts jres copts cres nopts nres}.
Arguments cs_js {src jopts jres copts cres nopts nres}.
Arguments cs_css {src jopts jres copts cres nopts nres}.
Arguments cs_json {src jopts jres copts cres nopts nres}.
Arguments cs_empty {src jopts jres copts cres nopts nres}.
Arguments read_json {src jopts jres copts cres nopts nres R}.
