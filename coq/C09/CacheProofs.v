(* C09 proofs about the cache set (Cache.v): the memo tables are transparent
   over every access/edit history, and a rebuild on a context equals a fresh
   build, for every program written against the observation interface. *)
From V Require Import Common.Base C09.Cache.

Lemma lookup_In {A} (p : Z) (l : list (Z * A)) (a : A) :
  lookup p l = Some a -> In (p, a) l.
Proof.
  induction l as [|[q b] l IH]; simpl; intro H; [discriminate|].
  destruct (q =? p) eqn:E.
  - apply Z.eqb_eq in E. inversion H; subst. now left.
  - right. now apply IH.
Qed.

(* ---------- AST caches ---------- *)
Section MemoProofs.
  Variables src opts res : Type.
  Variable key_of : src -> Z.
  Variable src_eqb : src -> src -> bool.
  Variable opt_equal : opts -> opts -> bool.
  Variable parse : src -> opts -> res.

  (* Go struct equality on logger.Source *)
  Hypothesis src_eqb_sound : forall a b, src_eqb a b = true -> a = b.
  (* "every option that can alter an AST takes part in the comparison" *)
  Hypothesis equal_sound : forall s o o', opt_equal o o' = true -> parse s o = parse s o'.

  Definition memo_ok (m : memo src opts res) : Prop :=
    forall k e, In (k, e) m -> me_res e = parse (me_src e) (me_opts e).

  Lemma memo_parse_ok m s o :
    memo_ok m ->
    fst (fst (memo_parse key_of src_eqb opt_equal parse m s o)) = parse s o /\
    memo_ok (snd (fst (memo_parse key_of src_eqb opt_equal parse m s o))).
  Proof.
    intro Hok. unfold memo_parse.
    destruct (lookup (key_of s) m) as [e|] eqn:L.
    - destruct (src_eqb (me_src e) s && opt_equal (me_opts e) o) eqn:C.
      + apply andb_true_iff in C as [C1 C2]. apply src_eqb_sound in C1.
        apply lookup_In in L. apply Hok in L. simpl. split; [|exact Hok].
        rewrite L, C1. now apply equal_sound.
      + simpl. split; [reflexivity|]. intros k e' [H|H]; [inversion H; subst; reflexivity | eapply Hok; eauto].
    - simpl. split; [reflexivity|]. intros k e' [H|H]; [inversion H; subst; reflexivity | eapply Hok; eauto].
  Qed.

  Lemma run_memo_transparent calls : forall m, memo_ok m ->
    run_memo key_of src_eqb opt_equal parse m calls = map (fun c => parse (fst c) (snd c)) calls.
  Proof.
    induction calls as [|[s o] r IH]; intros m Hok; [reflexivity|].
    cbn [run_memo map fst snd].
    pose proof (memo_parse_ok m s o Hok) as [H1 H2].
    destruct (memo_parse key_of src_eqb opt_equal parse m s o) as [[x m'] h]. simpl in H1, H2.
    rewrite H1. f_equal. now apply IH.
  Qed.

  Lemma memo_transparent_all calls :
    run_memo key_of src_eqb opt_equal parse [] calls = map (fun c => parse (fst c) (snd c)) calls.
  Proof. apply run_memo_transparent. intros k e []. Qed.
End MemoProofs.

(* a memo table whose comparison is NOT sound returns a stale result: the
   generic shape of finding C (used by OptionFields.v with the real table) *)
Lemma memo_stale {src opts res} (key_of : src -> Z) src_eqb (opt_equal : opts -> opts -> bool) (parse : src -> opts -> res) s o o' :
  src_eqb s s = true -> opt_equal o o' = true -> parse s o <> parse s o' ->
  run_memo key_of src_eqb opt_equal parse [] [(s, o); (s, o')] <> [parse s o; parse s o'].
Proof.
  intros Hs He Hne. cbn [run_memo]. unfold memo_parse at 1. cbn [lookup].
  unfold memo_parse. cbn [lookup]. rewrite Z.eqb_refl. cbn [me_src me_opts me_res]. rewrite Hs, He. cbn.
  intro H. inversion H. contradiction.
Qed.

(* ---------- FSCache ---------- *)

(* "mod-key changes when contents change" over one access history: whenever an
   earlier access of the same path saw the same usable key and read contents x
   successfully, this access reads x as well *)
Definition mk_sound_at (seen : list access) (a : access) : Prop :=
  forall b k x, In b seen -> a_path b = a_path a -> a_mk b = MKOk k -> a_mk a = MKOk k ->
                a_rd b = RdOk x -> a_rd a = RdOk x.

Fixpoint mk_sound_from (seen : list access) (h : list access) : Prop :=
  match h with
  | [] => True
  | a :: r => mk_sound_at seen a /\ mk_sound_from (a :: seen) r
  end.

Definition ModKeySoundH (h : list access) : Prop := mk_sound_from [] h.

Definition fs_ok (seen : list access) (c : fscache) : Prop :=
  forall p e, In (p, e) c -> fe_usable e = true ->
    exists b, In b seen /\ a_path b = p /\ a_mk b = MKOk (fe_key e) /\ a_rd b = RdOk (fe_contents e).

Lemma fs_hit_Some e mk x :
  fs_hit e mk = Some x ->
  exists en, e = Some en /\ fe_usable en = true /\ mk = MKOk (fe_key en) /\ x = fe_contents en.
Proof.
  unfold fs_hit. destruct e as [en|]; [|discriminate]. destruct mk as [k| |]; try discriminate.
  destruct (fe_usable en && zlist_eqb (fe_key en) k) eqn:C; [|discriminate].
  apply andb_true_iff in C as [C1 C2]. apply zlist_eqb_eq in C2. intro H; inversion H; subst.
  exists en. repeat split; auto.
Qed.

Lemma FSCache_ReadFile_ok seen c a :
  fs_ok seen c -> mk_sound_at seen a ->
  fst (fst (FSCache_ReadFile c (a_path a) (a_mk a) (a_rd a))) = a_rd a /\
  fs_ok (a :: seen) (snd (fst (FSCache_ReadFile c (a_path a) (a_mk a) (a_rd a)))).
Proof.
  intros Hok Hs. unfold FSCache_ReadFile.
  assert (Hmono : fs_ok (a :: seen) c).
  { intros p e Hin Hu. destruct (Hok p e Hin Hu) as (b & Hb & R). exists b. split; [now right|exact R]. }
  destruct (fs_hit (lookup (a_path a) c) (a_mk a)) as [x|] eqn:Hh.
  - apply fs_hit_Some in Hh as (en & L & Hu & Hk & Hx). simpl. split; [|exact Hmono].
    apply lookup_In in L. destruct (Hok _ _ L Hu) as (b & Hb & Hp & Hbk & Hbr).
    subst x. symmetry. eapply Hs; eauto.
  - destruct (a_rd a) as [x|e] eqn:Hr; simpl; (split; [reflexivity|]); [|exact Hmono].
    intros p e [H|H] Hu.
    + inversion H; subst; clear H. simpl in *. exists a. split; [now left|]. repeat split; auto.
      destruct (a_mk a); simpl in *; try discriminate; reflexivity.
    + now apply Hmono.
Qed.

Lemma run_fs_transparent h : forall seen c, fs_ok seen c -> mk_sound_from seen h -> run_fs c h = map a_rd h.
Proof.
  induction h as [|a r IH]; intros seen c Hok Hs; [reflexivity|].
  destruct Hs as [Hs1 Hs2]. cbn [run_fs map].
  pose proof (FSCache_ReadFile_ok seen c a Hok Hs1) as [H1 H2].
  destruct (FSCache_ReadFile c (a_path a) (a_mk a) (a_rd a)) as [[x c'] called]. simpl in H1, H2.
  rewrite H1. f_equal. eapply IH; eauto.
Qed.

Lemma fscache_transparent_all h : ModKeySoundH h -> run_fs [] h = map a_rd h.
Proof. intro Hs. eapply run_fs_transparent; [|exact Hs]. intros p e []. Qed.

(* ---------- SourceIndexCache: stable and injective ---------- *)

Definition si_ok (c : sicache) : Prop :=
  (forall k i, In (k, i) (si_entries c) -> i < si_next c) /\
  (forall k1 k2 i, lookup k1 (si_entries c) = Some i -> lookup k2 (si_entries c) = Some i -> k1 = k2).

Lemma lookup_cons_ne {A} k k' (v : A) l : k' <> k -> lookup k ((k', v) :: l) = lookup k l.
Proof. intro H. simpl. destruct (k' =? k) eqn:E; [apply Z.eqb_eq in E; contradiction|reflexivity]. Qed.

Lemma SourceIndex_Get_ok c k :
  si_ok c ->
  let '(i, c') := SourceIndex_Get c k in
  si_ok c' /\ lookup k (si_entries c') = Some i /\ si_next c <= si_next c' /\
  (forall k0 i0, lookup k0 (si_entries c) = Some i0 -> lookup k0 (si_entries c') = Some i0).
Proof.
  intros [Hlt Hinj]. unfold SourceIndex_Get. destruct (lookup k (si_entries c)) as [i|] eqn:L.
  - split; [split; assumption|]. split; [exact L|]. split; [lia|auto].
  - simpl. split; [split|split; [|split]].
    + cbn [si_entries si_next]. intros k0 i0 [H|H]; [inversion H; lia|]. apply Hlt in H. lia.
    + cbn [si_entries si_next]. intros k1 k2 i. simpl.
      destruct (k =? k1) eqn:E1; destruct (k =? k2) eqn:E2; intros H1 H2.
      * apply Z.eqb_eq in E1, E2. congruence.
      * inversion H1; subst. apply lookup_In in H2. apply Hlt in H2. lia.
      * inversion H2; subst. apply lookup_In in H1. apply Hlt in H1. lia.
      * eapply Hinj; eauto.
    + now rewrite Z.eqb_refl.
    + lia.
    + intros k0 i0 H. destruct (k =? k0) eqn:E; [|exact H]. apply Z.eqb_eq in E. subst. congruence.
Qed.

(* once a key has an index it keeps it for the rest of the history, and two
   different keys never share an index *)
Lemma source_index_stable_injective keys : forall c, si_ok c ->
  forall k1 k2 n1 n2 i,
    nth_error keys n1 = Some k1 -> nth_error keys n2 = Some k2 ->
    nth_error (run_si c keys) n1 = Some i -> nth_error (run_si c keys) n2 = Some i -> k1 = k2.
Proof.
  (* stated through a stronger invariant: every result equals the final table's binding *)
  assert (G : forall keys c, si_ok c ->
     exists cf, si_ok cf /\
       (forall k0 i0, lookup k0 (si_entries c) = Some i0 -> lookup k0 (si_entries cf) = Some i0) /\
       (forall n k i, nth_error keys n = Some k -> nth_error (run_si c keys) n = Some i -> lookup k (si_entries cf) = Some i)).
  { induction keys0 as [|k r IH]; intros c Hc.
    - exists c. split; [exact Hc|]. split; [auto|]. intros [|n] k i H; discriminate.
    - pose proof (SourceIndex_Get_ok c k Hc) as H. cbn [run_si].
      destruct (SourceIndex_Get c k) as [i c'] eqn:G. cbn beta iota in H. destruct H as (Hc' & Hk & _ & Hext).
      destruct (IH c' Hc') as (cf & Hcf & Hext' & Hres).
      exists cf. split; [exact Hcf|]. split; [intros; apply Hext'; now apply Hext|].
      intros [|n] k0 i0 H1 H2; simpl in *.
      + inversion H1; inversion H2; subst. now apply Hext'.
      + eapply Hres; eauto. }
  intros c Hc k1 k2 n1 n2 i H1 H2 R1 R2.
  destruct (G keys c Hc) as (cf & [_ Hinj] & _ & Hres).
  eapply Hinj; eapply Hres; eauto.
Qed.

(* ---------- rebuild = fresh build, over edit histories ---------- *)
Section BuildProofs.
  Variables src opts res R : Type.
  Variable key_of : src -> Z.
  Variable src_eqb : src -> src -> bool.
  Variable opt_equal : opts -> opts -> bool.
  Variable parse : src -> opts -> res.
  Hypothesis src_eqb_sound : forall a b, src_eqb a b = true -> a = b.
  Hypothesis equal_sound : forall s o o', opt_equal o o' = true -> parse s o = parse s o'.

  (* "file modification times advancing normally": across all the worlds of
     the history, a usable mod key determines the (successfully read) contents *)
  Definition ModKeySound (ws : list world) : Prop :=
    forall w1 w2 p k x, In w1 ws -> In w2 ws ->
      w_modkey w1 p = MKOk k -> w_modkey w2 p = MKOk k -> w_read w1 p = RdOk x -> w_read w2 p = RdOk x.

  Definition caches_ok (ws : list world) (c : caches src opts res) : Prop :=
    (forall p e, In (p, e) (fst c) -> fe_usable e = true ->
       exists w, In w ws /\ w_modkey w p = MKOk (fe_key e) /\ w_read w p = RdOk (fe_contents e)) /\
    memo_ok src opts res parse (snd c).

  Lemma run_cached_ok ws (Hs : ModKeySound ws) (b : build src opts res R) :
    forall w c, In w ws -> caches_ok ws c ->
      fst (run_cached key_of src_eqb opt_equal parse w c b) = run_fresh parse w b /\
      caches_ok ws (snd (run_cached key_of src_eqb opt_equal parse w c b)).
  Proof.
    induction b as [r | p k IH | s o k IH]; intros w c Hw [Hf Hm].
    - simpl. split; [reflexivity | split; assumption].
    - cbn [run_cached run_fresh]. unfold FSCache_ReadFile.
      destruct (fs_hit (lookup p (fst c)) (w_modkey w p)) as [x|] eqn:Hh.
      + apply fs_hit_Some in Hh as (en & L & Hu & Hk & Hx). apply lookup_In in L.
        destruct (Hf _ _ L Hu) as (w0 & Hw0 & Hk0 & Hr0).
        assert (E : w_read w p = RdOk x) by (subst x; eapply Hs; eauto).
        rewrite E. apply IH; [exact Hw | split; assumption].
      + destruct (w_read w p) as [x|e] eqn:Hr.
        * apply IH; [exact Hw|]. split; [|exact Hm]. simpl.
          intros p0 e0 [H|H] Hu; [|now apply Hf].
          inversion H; subst; clear H. simpl in *. exists w. split; [exact Hw|]. split; [|exact Hr].
          destruct (w_modkey w p0); simpl in *; try discriminate; reflexivity.
        * apply IH; [exact Hw | split; assumption].
    - cbn [run_cached run_fresh].
      pose proof (memo_parse_ok src opts res key_of src_eqb opt_equal parse src_eqb_sound equal_sound (snd c) s o Hm) as [H1 H2].
      destruct (memo_parse key_of src_eqb opt_equal parse (snd c) s o) as [[x m] h]. simpl in H1, H2.
      rewrite <- H1. apply IH; [exact Hw | split; assumption].
  Qed.

  Lemma rebuilds_eq_fresh ws (Hs : ModKeySound ws) (steps : list (world * build src opts res R)) :
    forall c, caches_ok ws c -> (forall w b, In (w, b) steps -> In w ws) ->
      rebuilds key_of src_eqb opt_equal parse c steps = map (fun wb => run_fresh parse (fst wb) (snd wb)) steps.
  Proof.
    induction steps as [|[w b] r IH]; intros c Hc Hin; [reflexivity|].
    cbn [rebuilds map fst snd].
    pose proof (run_cached_ok ws Hs b w c (Hin w b (or_introl eq_refl)) Hc) as [H1 H2].
    destruct (run_cached key_of src_eqb opt_equal parse w c b) as [x c']. simpl in H1, H2.
    rewrite H1. f_equal. apply IH; [exact H2|]. intros w0 b0 H. eapply Hin. right. exact H.
  Qed.

  Lemma rebuild_eq_fresh_all (steps : list (world * build src opts res R)) :
    ModKeySound (map fst steps) ->
    rebuilds key_of src_eqb opt_equal parse ([], []) steps = map (fun wb => run_fresh parse (fst wb) (snd wb)) steps.
  Proof.
    intro Hs. eapply rebuilds_eq_fresh; [exact Hs| |].
    - split; [intros p e [] | intros k e []].
    - intros w b H. apply in_map_iff. exists (w, b). split; [reflexivity|exact H].
  Qed.
End BuildProofs.
