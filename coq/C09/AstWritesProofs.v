From V Require Import Common.Base C09.AstWrites.
From V Require Import gen.AstWritesGen.
Require Import Coq.Strings.String.
Open Scope string_scope.

Lemma shared_sites_exact : shared_sites ast_write_sites = ast_write_allowlist.
Proof. vm_compute. reflexivity. Qed.

Lemma cloned_levels_exact : cloned_levels = expected_cloned_levels.
Proof. vm_compute. reflexivity. Qed.

(* the inventory is not empty or degenerate: the clone-side classes are populated *)
Lemma inventory_populated :
  (20 <= count_class ClonedLevel ast_write_sites)%nat /\ (15 <= count_class OwnedField ast_write_sites)%nat /\
  (5 <= count_class OwnedSlice ast_write_sites)%nat.
Proof. vm_compute. repeat split; repeat constructor. Qed.

(* the re-created property list of the JSON default-export clone is what makes
   the rewrite of its properties a write on a clone *)
Lemma json_default_export_rewrite_is_on_a_clone :
  existsb (fun s => String.eqb (ws_lhs s) "objectClone.Properties[i].ValueOrNil" &&
                    negb (is_shared (ws_class s))) ast_write_sites = true.
Proof. vm_compute. reflexivity. Qed.

(* the CSS layer merge appends to a slice that may be a cached AST's layer list
   only after re-creating it: the inventory sees the re-creation *)
Lemma css_layer_merge_after_recreation :
  existsb (fun s => String.eqb (ws_lhs s)
     "wipOrder[prevIndex].layers = append(prev.layers, entry.layers...) {after a conditional re-creation of prev.layers}")
    ast_write_sites = true.
Proof. vm_compute. reflexivity. Qed.
