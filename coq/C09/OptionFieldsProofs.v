(* C09 proofs over the generated option-field inventory. *)
From V Require Import Common.Base C09.Cache C09.CacheProofs C09.OptionFields.
From V Require Import gen.OptionFieldsGen.
Require Import Coq.Strings.String.
Open Scope string_scope.
Open Scope Z_scope.

Lemma str_in_In s l : str_in s l = true <-> In s l.
Proof.
  unfold str_in. rewrite existsb_exists. split.
  - intros (x & Hx & E). apply String.eqb_eq in E. now subst.
  - intro H. exists s. split; [exact H|apply String.eqb_refl].
Qed.

(* what a clean coverage check means, field by field *)
Lemma equal_covers_spec irr fs :
  equal_covers irr fs = true ->
  forall f, In f fs -> of_read f = true -> ~ In (of_name f) irr -> is_compared (of_cmp f) = true.
Proof.
  unfold equal_covers, uncovered. intros H f Hin Hr Hirr.
  destruct (is_compared (of_cmp f)) eqn:C; [reflexivity|exfalso].
  assert (Hf : In f (filter (fun f => of_read f && negb (is_compared (of_cmp f)) && negb (str_in (of_name f) irr)) fs)).
  { apply filter_In. split; [exact Hin|]. rewrite Hr, C. simpl.
    destruct (str_in (of_name f) irr) eqn:S; [|reflexivity]. apply str_in_In in S. contradiction. }
  apply (in_map of_name) in Hf.
  destruct (map of_name _); [contradiction|discriminate].
Qed.

Section Sound.
  Variables S R : Type.
  Variable parse : S -> oassign -> R.
  Variable fs : list ofield.
  Variable irr : list string.

  (* the parser's result depends only on the fields the parser package reads
     (minus the justified ones) *)
  Definition reads_only : Prop :=
    forall s o o',
      (forall f, In f fs -> of_read f = true -> ~ In (of_name f) irr -> o (of_name f) = o' (of_name f)) ->
      parse s o = parse s o'.

  (* coverage of the inventory makes the comparison sound for the parser: the
     hypothesis of memo_transparent *)
  Lemma coverage_gives_equal_sound :
    equal_covers irr fs = true -> reads_only ->
    forall s o o', table_equal fs o o' = true -> parse s o = parse s o'.
  Proof.
    intros Hc Hro s o o' He. apply Hro. intros f Hin Hr Hirr.
    pose proof (equal_covers_spec irr fs Hc f Hin Hr Hirr) as Hcmp.
    unfold table_equal in He. rewrite forallb_forall in He. specialize (He f Hin).
    rewrite Hcmp in He. simpl in He. now apply Z.eqb_eq.
  Qed.

  Lemma covered_table_memo_transparent (key_of : S -> Z) (src_eqb : S -> S -> bool) :
    (forall a b, src_eqb a b = true -> a = b) ->
    equal_covers irr fs = true -> reads_only ->
    forall calls, run_memo key_of src_eqb (table_equal fs) parse [] calls
                  = map (fun c => parse (fst c) (snd c)) calls.
  Proof.
    intros Hs Hc Hro calls. apply memo_transparent_all; [exact Hs|].
    intros s o o'. now apply coverage_gives_equal_sound.
  Qed.
End Sound.

(* ---- the generated tables ---- *)

Lemma css_covers : equal_covers [] css_option_fields = true.
Proof. vm_compute. reflexivity. Qed.

Lemma json_covers : equal_covers [] json_option_fields = true.
Proof. vm_compute. reflexivity. Qed.

Lemma caches_compare_source : caches_comparing_source = ["CSSCache"; "JSCache"; "JSONCache"].
Proof. vm_compute. reflexivity. Qed.

(* js_parser.Options: every field the parser reads is compared or justified *)
Lemma js_covers : equal_covers js_irrelevant js_option_fields = true.
Proof. vm_compute. reflexivity. Qed.

(* the former witness of finding C: the comparison now tells the two option
   values apart *)
Definition gap_o : oassign := fun _ => 0.
Definition gap_o' : oassign := fun n => if String.eqb n "jsx.AutomaticRuntime" then 1 else 0.
Lemma js_former_gap_closed : table_equal js_option_fields gap_o gap_o' = false.
Proof. vm_compute. reflexivity. Qed.
