(* C09, "cached ASTs are immutable; the linker works on clones of everything it
   mutates" (internal/cache/cache.go contract, graph.CloneLinkerGraph).

   Translator T9 (gen/cmd/t9astwrites) regenerates on every run the inventory
   of every write, in internal/linker/linker.go and internal/bundler/bundler.go,
   whose target is reached through AST-derived storage, with its class:
     OwnedField / OwnedSlice  the target belongs to a local copy or to a value
                              built in that function (a slice or map field
                              counts only if the function re-created it on the copy)
     ClonedLevel              a level cloned by CloneLinkerGraph / parseFile
     Shared                   the write lands in storage the cached AST still references
   (V.gen.AstWritesGen).  The obligation: the Shared sites are exactly the
   allow-list below, each entry with the argument why it is harmless.  A new
   write into a cached object - e.g. dropping the re-creation of
   objectClone.Properties in generateCodeForFileInChunkJS, which makes
   objectClone.Properties[i].ValueOrNil a Shared site - breaks the theorem.
   Executable definitions only. *)
From V Require Import Common.Base.
From V Require Import gen.AstWritesGen.
Require Import Coq.Strings.String.
Open Scope string_scope.

Definition is_shared (c : wclass) : bool := match c with Shared => true | _ => false end.

(* (function, target, occurrences) of the sites classified Shared *)
Definition shared_sites (l : list wsite) : list (string * string * nat) :=
  map (fun s => (ws_func s, ws_lhs s, ws_count s)) (filter (fun s => is_shared (ws_class s)) l).

Definition ast_write_allowlist : list (string * string * nat) :=
  [ (* a genuine write into a cached node (s : *js_ast.SExportFrom comes from the
       type switch on stmt.Data): the alias of every item is overwritten by its
       original name.  Idempotent, and the alias of an "export {a as b} from"
       statement is read again only by the printer when the statement is kept,
       which needs shouldStripExports = false, i.e. pass-through mode, while the
       write happens only when it is true; the mode of a context never changes.
       (The exported names themselves live in AST.NamedExports, computed by the parser.) *)
    ("*linkerContext.convertStmtsForChunk", "s.Items[i].Alias", 1%nat);
    (* lazyValue is a local js_ast.Expr (a struct value copied out of the
       SLazyExport node); the assignment changes the local, and the part's
       statements are then replaced by fresh ones (ClonedLevel sites
       repr.AST.Parts[partIndex].Stmts).  Syntactically indistinguishable from a
       pointer-typed field, hence listed. *)
    ("*linkerContext.generateCodeForLazyExport", "lazyValue.Data", 1%nat);
    (* before is reached by pointer from stmts[end-1].Data, but this branch runs
       only when didMergeWithPreviousLocal is true, which is set together with
       "clone := *before; ...; stmts[end-1].Data = &clone" in the same call:
       before is that clone, whose Decls slice was created by make *)
    ("mergeAdjacentLocalStmts", "before.Decls", 1%nat);
    (* stmts is the statement list assembled for the chunk by
       generateCodeForFileInChunkJS (stmtList.insideWrapperPrefix/Suffix, built
       by convertStmtsForChunk with append onto fresh slices), never a Part's
       Stmts slice; its elements are overwritten in place *)
    ("mergeAdjacentLocalStmts", "stmts[end-1].Data", 1%nat);
    ("mergeAdjacentLocalStmts", "stmts[end]", 1%nat) ].

Definition count_class (c : wclass) (l : list wsite) : nat :=
  List.length (filter (fun s => match ws_class s, c with
                                | OwnedField, OwnedField | OwnedSlice, OwnedSlice
                                | ClonedLevel, ClonedLevel | Shared, Shared => true
                                | _, _ => false end) l).

(* the levels the ClonedLevel class relies on *)
Definition expected_cloned_levels : list string :=
  ["AST.ImportRecords"; "AST.ModuleScope"; "AST.NamedImports"; "AST.Parts"; "AST.Parts.[].SymbolUses"].
